import Gql.Proofs.LexerGrammar
/-!
# The token-sequence relation of the lexical grammar and the executable tokenizer
-/
open Gql Gql.Text
namespace Gql.Spec.Lex

/-- The token sequence relation of the lexical grammar, from offset `off` on the suffix `s`:
`Ignored* (Token Ignored*)*` then `<EOF>`; every token is the longest match at its position. -/
inductive SpecTokensFrom : Nat → List Nat → List SpecToken → Prop
  | eof (off : Nat) : SpecTokensFrom off [] [⟨.eof, off, off, none⟩]
  | ignored {off : Nat} {s : List Nat} {n : Nat} {ts : List SpecToken} :
      ignoredLen s = some n → SpecTokensFrom (off + n) (s.drop n) ts → SpecTokensFrom off s ts
  | token {off : Nat} {s : List Nat} {m : Match} {ts : List SpecToken} :
      ignoredLen s = none → lexToken? s = some m → 0 < m.len →
      SpecTokensFrom (off + m.len) (s.drop m.len) ts →
      SpecTokensFrom off s (⟨m.kind, off, off + m.len, m.value⟩ :: ts)

/-- `ts` is the token sequence of `body`. -/
def SpecTokens (body : List Nat) (ts : List SpecToken) : Prop := SpecTokensFrom 0 body ts

theorem tokenizeFrom_sound : ∀ (fuel off : Nat) (s : List Nat) (ts : List SpecToken),
    tokenizeFrom fuel off s = some ts → SpecTokensFrom off s ts := by
  intro fuel
  induction fuel with
  | zero =>
    intro off s ts h
    cases s with
    | nil => rw [Gql.Text.tokenizeFrom_nil] at h; cases h; exact .eof off
    | cons c r => simp [tokenizeFrom] at h
  | succ f ih =>
    intro off s ts h
    cases s with
    | nil => rw [Gql.Text.tokenizeFrom_nil] at h; cases h; exact .eof off
    | cons c r =>
      rw [Gql.Text.tokenizeFrom_cons] at h
      cases hig : ignoredLen (c :: r) with
      | some n => rw [hig] at h; exact .ignored hig (ih _ _ _ h)
      | none =>
        rw [hig] at h
        simp only [] at h
        cases hm : lexToken? (c :: r) with
        | none => rw [hm] at h; simp at h
        | some m =>
          rw [hm] at h
          simp only [] at h
          by_cases h0 : m.len = 0
          · rw [if_pos h0] at h; simp at h
          · rw [if_neg h0] at h
            cases ht : tokenizeFrom f (off + m.len) ((c :: r).drop m.len) with
            | none => rw [ht] at h; simp at h
            | some ts' =>
              rw [ht] at h
              simp only [Option.some.injEq] at h
              subst h
              exact .token hig hm (by omega) (ih _ _ _ ht)

theorem lexToken?_nil : lexToken? [] = none := by rfl

theorem tokenizeFrom_complete {off : Nat} {s : List Nat} {ts : List SpecToken}
    (h : SpecTokensFrom off s ts) : ∀ fuel, s.length ≤ fuel → tokenizeFrom fuel off s = some ts := by
  induction h with
  | eof off => intro fuel _; exact Gql.Text.tokenizeFrom_nil fuel off
  | @ignored off s n ts hig _ ih =>
    intro fuel hf
    obtain ⟨hn0, hnl⟩ := Gql.Text.ignoredLen_le hig
    cases s with
    | nil => simp at hnl; omega
    | cons c r =>
      obtain ⟨f, rfl⟩ : ∃ f, fuel = f + 1 := ⟨fuel - 1, by simp at hf; omega⟩
      rw [Gql.Text.tokenizeFrom_cons, hig]
      exact ih f (by simp at hf ⊢; omega)
  | @token off s m ts hig hm hlen _ ih =>
    intro fuel hf
    cases s with
    | nil => rw [lexToken?_nil] at hm; simp at hm
    | cons c r =>
      obtain ⟨f, rfl⟩ : ∃ f, fuel = f + 1 := ⟨fuel - 1, by simp at hf; omega⟩
      rw [Gql.Text.tokenizeFrom_cons, hig]
      simp only []
      rw [hm]
      simp only []
      rw [if_neg (by omega), ih f (by simp at hf ⊢; omega)]

/-- The executable tokenizer decides the relation. -/
theorem specTokenize_iff (body : List Nat) (ts : List SpecToken) :
    specTokenize body = some ts ↔ SpecTokens body ts :=
  ⟨tokenizeFrom_sound _ _ _ _, fun h => tokenizeFrom_complete h _ (Nat.le_refl _)⟩


/-- Kinds and values of a token sequence (spans dropped). -/
def kv (ts : List SpecToken) : List (Kind × Option (List Nat)) := ts.map (fun t => (t.kind, t.value))

theorem tokenizeFrom_kv_off : ∀ (fuel off off' : Nat) (s : List Nat),
    (tokenizeFrom fuel off s).map kv = (tokenizeFrom fuel off' s).map kv := by
  intro fuel
  induction fuel with
  | zero =>
    intro off off' s
    cases s with
    | nil => simp [Gql.Text.tokenizeFrom_nil, kv]
    | cons c r => simp [tokenizeFrom]
  | succ f ih =>
    intro off off' s
    cases s with
    | nil => simp [Gql.Text.tokenizeFrom_nil, kv]
    | cons c r =>
      rw [Gql.Text.tokenizeFrom_cons, Gql.Text.tokenizeFrom_cons]
      cases ignoredLen (c :: r) with
      | some n => exact ih _ _ _
      | none =>
        simp only []
        cases lexToken? (c :: r) with
        | none => rfl
        | some m =>
          simp only []
          by_cases h0 : m.len = 0
          · rw [if_pos h0, if_pos h0]
          · rw [if_neg h0, if_neg h0]
            have := ih (off + m.len) (off' + m.len) ((c :: r).drop m.len)
            cases h1 : tokenizeFrom f (off + m.len) ((c :: r).drop m.len) with
            | none =>
              rw [h1] at this
              cases h2 : tokenizeFrom f (off' + m.len) ((c :: r).drop m.len) with
              | none => rfl
              | some ts2 => rw [h2] at this; simp at this
            | some ts1 =>
              rw [h1] at this
              cases h2 : tokenizeFrom f (off' + m.len) ((c :: r).drop m.len) with
              | none => rw [h2] at this; simp at this
              | some ts2 =>
                rw [h2] at this
                simp only [Option.map_some, Option.some.injEq] at this ⊢
                simp [kv] at this ⊢
                exact this

theorem tokenizeFrom_fuel (off : Nat) (s : List Nat) (f f' : Nat) (hf : s.length ≤ f) (hf' : s.length ≤ f') :
    tokenizeFrom f off s = tokenizeFrom f' off s := by
  cases h : tokenizeFrom f off s with
  | some ts => exact (tokenizeFrom_complete (tokenizeFrom_sound _ _ _ _ h) f' hf').symm
  | none =>
    cases h' : tokenizeFrom f' off s with
    | none => rfl
    | some ts =>
      have := tokenizeFrom_complete (tokenizeFrom_sound _ _ _ _ h') f hf
      rw [h] at this; simp at this

/-- A run of `k` code points made of Ignored items at the head of a suffix. -/
inductive IgnoredRun : List Nat → Nat → Prop
  | zero (s : List Nat) : IgnoredRun s 0
  | step {s : List Nat} {n k : Nat} : ignoredLen s = some n → IgnoredRun (s.drop n) k → IgnoredRun s (n + k)

/-- Dropping a leading run of Ignored items changes no kind and no value of the token sequence. -/
theorem specTokenize_drop_ignored {t : List Nat} {k : Nat} (h : IgnoredRun t k) :
    (specTokenize t).map kv = (specTokenize (t.drop k)).map kv := by
  induction h with
  | zero s => simp
  | @step s n k hig _ ih =>
    obtain ⟨hn0, hnl⟩ := Gql.Text.ignoredLen_le hig
    cases s with
    | nil => simp at hnl; omega
    | cons c r =>
      have e1 : specTokenize (c :: r) = tokenizeFrom (r.length) (0 + n) ((c :: r).drop n) := by
        unfold specTokenize
        rw [show (c :: r).length = r.length + 1 from rfl, Gql.Text.tokenizeFrom_cons, hig]
      have e2 : tokenizeFrom r.length (0 + n) ((c :: r).drop n) =
          tokenizeFrom ((c :: r).drop n).length (0 + n) ((c :: r).drop n) :=
        tokenizeFrom_fuel _ _ _ _ (by simp; omega) (Nat.le_refl _)
      rw [e1, e2, tokenizeFrom_kv_off _ (0 + n) 0]
      have : (c :: r).drop (n + k) = ((c :: r).drop n).drop k := by rw [List.drop_drop]
      rw [this]
      exact ih

end Gql.Spec.Lex
