/-
C02 — request level: `Impl.executeRequest` refines `Spec.executeRequest`.
-/
import Gql.Proofs.ExecSim6

namespace Gql.Exec.Refine
open Gql.Exec Gql.Exec.Impl

def mkCtx (ops : Ops) (s : Schema) (doc : Doc) (vars : Vars) : Ctx :=
  { ops := ops, schema := s, doc := doc, vars := vars }

theorem rootType_object {s : Schema} {k : OpKind} {rt : Name} (h : rootType s k = some rt) :
    s.kind rt = .object := by
  unfold rootType at h
  cases k <;> simp only at h
  · split at h
    · simp_all
    · cases h
  · cases hm : s.mutation with
    | none => simp [hm] at h
    | some n =>
      simp only [hm] at h
      split at h
      · simp_all
      · cases h

theorem childOf_rel (cx : Ctx) (hops : OpsOk cx.ops)
    (hnc : ∀ (rt : Name) (sels : List Selection) (c : String),
      Spec.collectFields (toSpec cx) rt sels ≠ .crash c) (root : RVal) :
    ChildRel cx (childOf cx root) (Spec.childOf (toSpec cx) root) := by
  intro name args t fds path
  exact completeValue_sim cx hops hnc (root.child name args) t fds path

/-- The refinement at request level, for a default memo satisfying its invariant and a document
whose fragment nesting does not exhaust the fuel (`hnc`, discharged in `ExecFuel.lean`). -/
theorem executeRequest_refines (ops : Ops) (hops : OpsOk ops) (s : Schema) (doc : Doc)
    (opName : Option Name) (vars : Vars) (root : RVal) (dm : DMemo)
    (hnc : ∀ (rt : Name) (sels : List Selection) (c : String),
      Spec.collectFields (toSpec (mkCtx ops s doc vars)) rt sels ≠ .crash c)
    (hdm : DInv (mkCtx ops s doc vars) dm) :
    ∃ dm', DInv (mkCtx ops s doc vars) dm' ∧
      executeRequest ops s doc opName vars root dm =
        (.ok (Spec.executeRequest ops s doc opName vars root), dm') := by
  unfold executeRequest Spec.executeRequest
  have hsel : selectOp doc.ops opName = Spec.getOperation doc.ops opName := rfl
  rw [hsel]
  cases hop : Spec.getOperation doc.ops opName with
  | none => exact ⟨dm, hdm, rfl⟩
  | some op =>
    simp only
    have hrt : rootType s op.kind = Spec.rootType s op.kind := rfl
    rw [← hrt]
    cases hr : rootType s op.kind with
    | none => exact ⟨dm, hdm, rfl⟩
    | some rt =>
      simp only
      have hobj := rootType_object hr
      have hcol := collectRoot_rel (mkCtx ops s doc vars) hops rt hobj op.sels (initState dm).heap
      have hcx : toSpec (mkCtx ops s doc vars) =
          ({ ops := ops, schema := s, doc := doc, vars := vars } : Spec.Ctx) := rfl
      rw [hcx] at hcol
      have hnc' := hnc rt op.sels
      rw [hcx] at hnc'
      revert hcol
      cases hs : Spec.collectFields { ops := ops, schema := s, doc := doc, vars := vars } rt op.sels with
      | crash c => exact absurd hs (hnc' c)
      | err k =>
        simp only [CollectPost]
        intro h
        have h' : collectRoot { ops := ops, schema := s, doc := doc, vars := vars } rt op.sels
            (initState dm).heap = Out.err (Exn.raw k) := h
        rw [h']
        exact ⟨dm, hdm, rfl⟩
      | ok G =>
        simp only [CollectPost]
        rintro ⟨g, heap', e1, e2, e3, _, e5⟩
        have e1' : collectRoot { ops := ops, schema := s, doc := doc, vars := vars } rt op.sels
            (initState dm).heap = Out.ok (g, heap') := e1
        rw [e1']
        simp only
        subst e2
        let cx := mkCtx ops s doc vars
        let st0 : EState := { initState dm with heap := heap' }
        have hm0 : MemoInv cx st0 := by intro e he; simp [st0, initState] at he
        have hnd : (g.map (·.1)).Nodup := by rw [← keys_nodes]; exact e3
        obtain ⟨st', h⟩ := executeFields_sim cx hops rt (childOf cx root)
          (Spec.childOf (toSpec cx) root) (childOf_rel cx hops hnc root) [] g st0 hm0 hdm
          (by intro p _ o ho; simp [st0, initState] at ho) e5 hnd
        have hasl : asList ([] : IPath) = [] := rfl
        rw [hasl] at h
        generalize hR : Spec.executeGroups (toSpec cx) rt (Spec.childOf (toSpec cx) root) []
          (nodes g) = R at h
        have hR' : Spec.executeGroups { ops := ops, schema := s, doc := doc, vars := vars } rt
            (Spec.childOf { ops := ops, schema := s, doc := doc, vars := vars } root) [] (nodes g) = R := hR
        rw [hR']
        cases hout : R.out with
        | some kvs =>
          simp only [hout] at h
          obtain ⟨he, hp⟩ := h
          have he' : executeFields { ops := ops, schema := s, doc := doc, vars := vars } rt
              (childOf { ops := ops, schema := s, doc := doc, vars := vars } root) []
              g { initState dm with heap := heap' } = (Out.ok kvs, st') := he
          rw [he']
          refine ⟨st'.dmemo, hp.dmemo, ?_⟩
          simp only [Prod.mk.injEq, Out.ok.injEq, and_true]
          have e1 := hp.errors
          have e2 := hp.log
          simp only [st0, initState, List.nil_append] at e1 e2
          rw [e1, e2]
        | none =>
          simp only [hout] at h
          obtain ⟨e, es, he, herrs, hp⟩ := h
          have he' : executeFields { ops := ops, schema := s, doc := doc, vars := vars } rt
              (childOf { ops := ops, schema := s, doc := doc, vars := vars } root) []
              g { initState dm with heap := heap' } = (Out.err (.located e), st') := he
          rw [he']
          obtain ⟨ps, hps, hq⟩ := hp.positions
          have hnone : hasNulledOpt st'.positions none = false := by
            simp only [hasNulledOpt, List.contains_eq_mem, decide_eq_false_iff_not]
            intro hmem
            rw [hps] at hmem
            simp only [st0, initState, List.nil_append] at hmem
            obtain ⟨q, hq', _⟩ := hq none hmem
            cases hq'
          refine ⟨st'.dmemo, hp.dmemo, ?_⟩
          simp only [addError, hnone, Bool.false_eq_true, ↓reduceIte, executeRequest.locateRoot,
            Prod.mk.injEq, Out.ok.injEq, and_true]
          have e1 := hp.errors
          have e2 := hp.log
          simp only [st0, initState, List.nil_append] at e1 e2
          rw [e1, e2, herrs]

end Gql.Exec.Refine
