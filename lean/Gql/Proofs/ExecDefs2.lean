import Gql.Proofs.ExecPrint
/-!
Executable documents, stage 2: descriptions on operations / fragment definitions / variable
definitions, variable definitions (type, constant default value, constant directives) on operations
and — under `experimental_fragment_arguments` — on fragment definitions.
-/
namespace Gql.Text
open Gql.Syntax

/-- A description: string value and `block` flag; `none` = Python `None`. -/
abbrev Desc := Option (List Nat × Bool)

structure VarDef where
  desc : Desc
  name : List Nat
  ty : Ty
  dflt : Option Val
  dirs : List Dir

inductive XDef where
  | op (desc : Desc) (opType name : List Nat) (vds : List VarDef) (dirs : List Dir) (ss : List Sel)
  | frag (desc : Desc) (name : List Nat) (vds : List VarDef) (tc : List Nat) (dirs : List Dir) (ss : List Sel)

namespace Exec

def descAst : Desc → Ast
  | none => .none
  | some (s, b) => .node "StringValueNode" [("value", .str s), ("block", .bool b)]

def descText (w : Widths) : Desc → List Nat
  | none => []
  | some (s, b) => if b then printBlockStringW w.block s false else printString s

def descKvs : Desc → List KV
  | none => []
  | some (s, b) => [(if b then .blockString else .string, some s)]

def descWf : Desc → Prop
  | none => True
  | some (s, b) => (∀ c ∈ s, isScalar c = true) ∧ (b = true → BlockRepresentable s)

def dfltAst : Option Val → Ast
  | none => .none
  | some v => v.toAst

def varDefAst (vd : VarDef) : Ast :=
  .node "VariableDefinitionNode" [("description", descAst vd.desc),
    ("variable", .node "VariableNode" [("name", Val.nameNode vd.name)]), ("type", vd.ty.toAst),
    ("default_value", dfltAst vd.dflt), ("directives", dirsAst vd.dirs)]

def dfltText (w : Widths) : Option Val → List Nat
  | none => []
  | some v => Val.print w v

def printVarDef (w : Widths) (vd : VarDef) : List Nat :=
  wrap [] (descText w vd.desc) [10] ++ (36 :: vd.name ++ S ": " ++ vd.ty.print) ++
    wrap (S " = ") (dfltText w vd.dflt) ++ wrap [32] (printDirs w vd.dirs)

/-- `var_defs` of `leave_operation_definition` -/
def varDefsOp (w : Widths) (vds : List VarDef) : List Nat :=
  let ts := vds.map (printVarDef w)
  if hasMultilineItems ts then wrap [40, 10] (join ts [10]) [10, 41] else wrap [40] (join ts [44, 32]) [41]

def varDefKvs (vd : VarDef) : List KV :=
  descKvs vd.desc ++ ((.dollar, none) :: (.name, some vd.name) :: (.colon, none) :: vd.ty.kvs) ++
    (match vd.dflt with
      | none => []
      | some v => (.equals, none) :: v.kvs) ++ dirsKvs vd.dirs

def varDefsKvsList : List VarDef → List KV
  | [] => []
  | vd :: r => varDefKvs vd ++ varDefsKvsList r

def varDefsKvs (vds : List VarDef) : List KV :=
  match vds with
  | [] => []
  | _ :: _ => (.parenL, none) :: varDefsKvsList vds ++ [(.parenR, none)]

def varDefWf (vd : VarDef) : Prop :=
  descWf vd.desc ∧ validName vd.name = true ∧ vd.ty.wf = true ∧ TyP.shaped vd.ty = true ∧
    (match vd.dflt with
      | none => True
      | some v => Val.wf true v) ∧ dirsWfC true vd.dirs

def varDefsWf : List VarDef → Prop
  | [] => True
  | vd :: r => varDefWf vd ∧ varDefsWf r

def xdefAst (fragArgs : Bool) : XDef → Ast
  | .op desc ot n vds ds ss =>
    .node "OperationDefinitionNode" [("selection_set", ssAst ss), ("description", descAst desc),
      ("name", optName n), ("variable_definitions", optL (vds.map varDefAst)), ("directives", dirsAst ds),
      ("operation", .str ot)]
  | .frag desc n vds tc ds ss =>
    .node "FragmentDefinitionNode" [("selection_set", ssAst ss), ("description", descAst desc),
      ("name", Val.nameNode n),
      ("variable_definitions", if fragArgs then optL (vds.map varDefAst) else .list []),
      ("directives", dirsAst ds), ("type_condition", namedType tc)]

def xdocAst (fragArgs : Bool) (defs : List XDef) : Ast :=
  .node "DocumentNode" [("definitions", .list (defs.map (xdefAst fragArgs)))]

def printXDef (w : Widths) : XDef → List Nat
  | .op desc ot n vds ds ss =>
    let pre := wrap [] (descText w desc) [10] ++ join [ot, join [n, varDefsOp w vds], printDirs w ds] [32]
    (if pre = S "query" then [] else pre ++ [32]) ++ block (printSels w ss)
  | .frag desc n vds tc ds ss =>
    wrap [] (descText w desc) [10] ++ S "fragment " ++ n ++
      wrap [40] (join (vds.map (printVarDef w)) [44, 32]) [41] ++ S " on " ++ tc ++ [32] ++
      wrap [] (printDirs w ds) [32] ++ block (printSels w ss)

def printXDoc (w : Widths) (defs : List XDef) : List Nat :=
  join (documentDefs none (defs.map (printXDef w))) [10, 10]

/-- The operation prints in the shorthand form `{ … }`. -/
def isShort (desc : Desc) (ot n : List Nat) (vds : List VarDef) (ds : List Dir) : Prop :=
  desc = none ∧ ot = S "query" ∧ n = [] ∧ vds = [] ∧ ds = []

def xdefKvs : XDef → List KV
  | .op desc ot n vds ds ss =>
    if desc = none ∧ ot = S "query" ∧ n = [] ∧ vds.isEmpty = true ∧ ds.isEmpty = true then ssKvs ss
    else descKvs desc ++ ((.name, some ot) :: (if n.isEmpty then [] else [(.name, some n)])) ++ varDefsKvs vds ++
      dirsKvs ds ++ ssKvs ss
  | .frag desc n vds tc ds ss =>
    descKvs desc ++ ((.name, some (S "fragment")) :: (.name, some n) :: varDefsKvs vds) ++
      ((.name, some (S "on")) :: (.name, some tc) :: dirsKvs ds) ++ ssKvs ss

def xdefsKvs : List XDef → List KV
  | [] => []
  | d :: r => xdefKvs d ++ xdefsKvs r

/-- `fa` = `experimental_fragment_arguments` of the parser that is to read the text back. -/
def xdefWf (fa : Bool) : XDef → Prop
  | .op desc ot n vds ds ss =>
    descWf desc ∧ isOpType ot ∧ (n = [] ∨ validName n = true) ∧ varDefsWf vds ∧ dirsWf ds ∧ ss ≠ [] ∧ selsWf ss
  | .frag desc n vds tc ds ss =>
    descWf desc ∧ validName n = true ∧ n ≠ S "on" ∧ (vds = [] ∨ fa = true) ∧ varDefsWf vds ∧
      validName tc = true ∧ dirsWf ds ∧ ss ≠ [] ∧ selsWf ss

def xdefsWf (fa : Bool) : List XDef → Prop
  | [] => True
  | d :: r => xdefWf fa d ∧ xdefsWf fa r

end Exec
end Gql.Text
