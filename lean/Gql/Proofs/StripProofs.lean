import Gql.Proofs.GapReplace
import Gql.Proofs.BlockForced2
import Gql.Proofs.C09Pairs
import Gql.Text.Strip
import Gql.Proofs.C09Misc
/-!
# `strip_ignored_characters`: the stripped text lexes to the same tokens; stripping is idempotent
-/
open Gql Gql.Text
namespace Gql.Text
open Gql.Spec.Lex Gql.Text.Pairs

/-- `is_punctuator_token_kind` on the specification's kinds. -/
def isPunctK : Kind → Bool
  | .bang | .dollar | .amp | .parenL | .parenR | .spread | .colon | .equals | .at
  | .bracketL | .bracketR | .braceL | .pipe | .braceR => true
  | _ => false

/-- `strip_ignored_characters`' loop over the signature of the tokens, without accumulator. -/
def stripS (body : List Nat) : List SpecToken → Bool → List Nat
  | [], _ => []
  | t :: rest, w =>
    if t.kind = .eof then []
    else
      (if w && (!isPunctK t.kind || t.kind = .spread) then [32] else []) ++
      (if t.kind = .blockString then
          printBlockString (match t.value with | some v => v | none => []) true
        else slice body t.start t.stop) ++
      stripS body rest (!isPunctK t.kind)

theorem kindOf_punct (k : TokKind) (h : kindOf k ≠ .other) : isPunctuatorKind k = isPunctK (kindOf k) := by
  cases k <;> simp [kindOf, isPunctuatorKind, isPunctK] at h ⊢

theorem kindOf_eq_eof (k : TokKind) : (kindOf k = .eof) ↔ (k = .eof) := by
  cases k <;> simp [kindOf]

theorem kindOf_eq_spread (k : TokKind) : (kindOf k = .spread) ↔ (k = .spread) := by
  cases k <;> simp [kindOf]

theorem kindOf_eq_block (k : TokKind) : (kindOf k = .blockString) ↔ (k = .blockString) := by
  cases k <;> simp [kindOf]

theorem stripLoop_eq (body : List Nat) (ts : List Token) (h : ∀ t ∈ ts, kindOf t.kind ≠ .other)
    (w : Bool) (acc : List Nat) : stripLoop body ts w acc = acc ++ stripS body (sig ts) w := by
  induction ts generalizing w acc with
  | nil => simp [stripLoop, stripS, sig]
  | cons t rest ih =>
    have ht := h t (by simp)
    have hrest : ∀ t' ∈ rest, kindOf t'.kind ≠ .other := fun t' h' => h t' (by simp [h'])
    simp only [stripLoop, sig, List.map_cons, stripS, toSpec]
    by_cases he : t.kind = .eof
    · rw [if_pos he, if_pos ((kindOf_eq_eof _).mpr he)]; simp
    · rw [if_neg he, if_neg (fun hh => he ((kindOf_eq_eof _).mp hh))]
      rw [ih hrest, kindOf_punct _ ht]
      have e1 : decide (t.kind = TokKind.spread) = decide (kindOf t.kind = Kind.spread) := by
        by_cases hs : t.kind = .spread
        · simp [hs, kindOf]
        · have : ¬ kindOf t.kind = .spread := fun hh => hs ((kindOf_eq_spread _).mp hh)
          simp [hs, this]
      by_cases hb : t.kind = .blockString
      · have hb' : kindOf t.kind = .blockString := (kindOf_eq_block _).mpr hb
        simp only [hb, hb', if_true, e1, sig]
        simp [List.append_assoc, kindOf, isPunctK]
        split <;> (try simp) <;> rfl
      · have hb' : ¬ kindOf t.kind = .blockString := fun hh => hb ((kindOf_eq_block _).mp hh)
        simp only [hb, hb', if_false, e1, sig]
        simp [List.append_assoc]
        split <;> simp

/-- The thirteen one-character punctuators. -/
def P13 (c : Nat) : Prop :=
  c = 33 ∨ c = 36 ∨ c = 38 ∨ c = 40 ∨ c = 41 ∨ c = 58 ∨ c = 61 ∨ c = 64 ∨ c = 91 ∨ c = 93 ∨
  c = 123 ∨ c = 124 ∨ c = 125

theorem name?_kind {s : List Nat} {m : Match} (h : name? s = some m) : m.kind = .name := by
  cases s with
  | nil => simp [name?] at h
  | cons c r =>
    simp only [name?] at h
    split at h
    · simp at h; rw [← h]
    · simp at h

theorem number?_kind {s : List Nat} {m : Match} (h : number? s = some m) : m.kind = .int ∨ m.kind = .float := by
  obtain ⟨fl, _, hm⟩ := number?_some s m h
  rw [hm]; cases fl <;> simp

theorem string?_kind {s : List Nat} {m : Match} (h : string? s = some m) : m.kind = .string := by
  unfold string? at h
  split at h
  · simp at h
  · split at h
    · simp at h; rw [← h]
    · simp at h
  · simp at h

theorem blockString?_kind {s : List Nat} {m : Match} (h : blockString? s = some m) : m.kind = .blockString := by
  unfold blockString? at h
  split at h
  · split at h
    · simp at h; rw [← h]
    · simp at h
  · simp at h

theorem longer_cases (a b : Option Match) (m : Match) (h : longer a b = some m) : a = some m ∨ b = some m := by
  cases a with
  | none => rw [longer_none_left] at h; exact Or.inr h
  | some x =>
    cases b with
    | none => exact Or.inl h
    | some y =>
      simp only [longer] at h
      split at h
      · exact Or.inr h
      · exact Or.inl h

/-- How the kind of the longest-match token depends on its first code point. -/
theorem lexToken?_kind {c : Nat} {r : List Nat} {m : Match} (h : lexToken? (c :: r) = some m) :
    (isPunctK m.kind = true → ¬ NameStart c ∧ ¬ Digit c ∧ c ≠ 45 ∧ c ≠ 34) ∧
    (isPunctK m.kind = true → m.kind ≠ .spread → P13 c) ∧
    (m.kind = .blockString → c = 34) ∧ m.kind ≠ .other ∧ m.kind ≠ .eof := by
  cases hk : punctKind c with
  | some k =>
    rw [lexToken?_punct c r k hk] at h
    have hm : m = ⟨kindOf k, 1, none⟩ := (Option.some.inj h).symm
    subst hm
    unfold NameStart Letter Digit P13
    rcases punctKind_cases hk with ⟨rfl, rfl⟩ | ⟨rfl, rfl⟩ | ⟨rfl, rfl⟩ | ⟨rfl, rfl⟩ | ⟨rfl, rfl⟩ | ⟨rfl, rfl⟩ |
      ⟨rfl, rfl⟩ | ⟨rfl, rfl⟩ | ⟨rfl, rfl⟩ | ⟨rfl, rfl⟩ | ⟨rfl, rfl⟩ | ⟨rfl, rfl⟩ | ⟨rfl, rfl⟩ <;>
      simp [kindOf, isPunctK]
  | none =>
    by_cases hnum : Digit c ∨ c = 45
    · rw [lexToken?_number c r hnum] at h
      rcases number?_kind h with hk' | hk' <;> simp [hk', isPunctK]
    by_cases hname : NameStart c
    · rw [lexToken?_name c r hname] at h
      simp [name?_kind h, isPunctK]
    by_cases hdot : c = 46
    · subst hdot
      rw [lexToken?_dot, punctuator?_dot] at h
      split at h
      · have hm : m = ⟨.spread, 3, none⟩ := (Option.some.inj h).symm
        subst hm
        refine ⟨fun _ => ⟨hname, fun hd => hnum (Or.inl hd), by omega, by omega⟩, fun _ h2 => absurd rfl h2,
          by simp, by simp, by simp⟩
      · simp at h
    by_cases hq : c = 34
    · subst hq
      rw [lexToken?_quote] at h
      rcases longer_cases _ _ _ h with h' | h'
      · simp [string?_kind h', isPunctK]
      · simp [blockString?_kind h', isPunctK]
    · have hnp : ¬ PunctStart c := by
        rcases punctKind_none hk with hp | hp
        · exact hp
        · exact absurd hp hdot
      rw [lexToken?_none c r hnp hname (fun hd => hnum (Or.inl hd)) (fun h45 => hnum (Or.inr h45)) hq] at h
      simp at h

theorem compat_of_punct_head (c : Nat) (t' y : List Nat)
    (h : ¬ NameStart c ∧ ¬ Digit c ∧ c ≠ 45 ∧ c ≠ 34) : Compat (c :: t') y :=
  headAll_of_forall _ (fun d => ⟨fun hh => absurd hh h.1, fun hh => by
    rcases hh with hh | hh
    · exact absurd hh h.2.1
    · exact absurd hh h.2.2.1, fun hh => absurd hh h.2.2.2⟩)

theorem inert_of_P13 (c : Nat) (r : List Nat) (h : P13 c) : Inert (c :: r) := by
  unfold P13 at h
  show ¬ NameContinue c ∧ ¬ Digit c ∧ c ≠ 46 ∧ c ≠ 34
  unfold NameContinue Letter Digit
  omega

/-! ### Code points of a block string value come from the text (or are `"` / LF) -/

theorem mem_of_mem_take {l : List Nat} {n c : Nat} (h : c ∈ l.take n) : c ∈ l := List.mem_of_mem_take h
theorem mem_of_mem_drop {l : List Nat} {n c : Nat} (h : c ∈ l.drop n) : c ∈ l := List.mem_of_mem_drop h

theorem blockRest_mem : ∀ (f : Nat) (s : List Nat) (n : Nat) (raw : List Nat),
    blockRest f s = some (n, raw) → ∀ c ∈ raw, c ∈ s ∨ c = 34 := by
  intro f
  induction f with
  | zero => intro s n raw h; simp [blockRest] at h
  | succ f0 ih =>
    intro s n raw h c hc
    rw [blockRest_succ] at h
    split at h
    · simp at h; rw [h.2] at hc; simp at hc
    · split at h
      · cases hr : blockRest f0 (s.drop 4) with
        | none => rw [hr] at h; simp [consB] at h
        | some mw =>
          obtain ⟨m, w⟩ := mw
          rw [hr] at h; simp only [consB, Option.some.injEq, Prod.mk.injEq] at h
          rw [← h.2] at hc
          rcases List.mem_append.mp hc with h1 | h1
          · right; simp at h1; exact h1
          · rcases ih _ _ _ hr c h1 with h2 | h2
            · exact Or.inl (mem_of_mem_drop h2)
            · exact Or.inr h2
      · cases hk : sourceCharLen s with
        | none => rw [hk] at h; simp at h
        | some k =>
          rw [hk] at h; simp only [] at h
          cases hr : blockRest f0 (s.drop k) with
          | none => rw [hr] at h; simp [consB] at h
          | some mw =>
            obtain ⟨m, w⟩ := mw
            rw [hr] at h; simp only [consB, Option.some.injEq, Prod.mk.injEq] at h
            rw [← h.2] at hc
            rcases List.mem_append.mp hc with h1 | h1
            · exact Or.inl (mem_of_mem_take h1)
            · rcases ih _ _ _ hr c h1 with h2 | h2
              · exact Or.inl (mem_of_mem_drop h2)
              · exact Or.inr h2

theorem splitLinesAux_mem (cur raw : List Nat) :
    ∀ l ∈ splitLinesAux cur raw, ∀ c ∈ l, c ∈ cur ∨ c ∈ raw := by
  fun_induction splitLinesAux cur raw
  · intro l hl c hc; simp at hl; subst hl; exact Or.inl hc
  all_goals
    rename_i ih
    intro l hl c hc
    first
    | (rcases List.mem_cons.mp hl with h | h
       · subst h; exact Or.inl hc
       · rcases ih l h c hc with h2 | h2
         · simp at h2
         · exact Or.inr (by simp [h2]))
    | (rcases ih l hl c hc with h2 | h2
       · rcases List.mem_append.mp h2 with h3 | h3
         · exact Or.inl h3
         · simp at h3; exact Or.inr (by simp [h3])
       · exact Or.inr (by simp [h2]))

theorem joinLF_mem (ls : List (List Nat)) : ∀ c ∈ joinLF ls, c = 10 ∨ ∃ l ∈ ls, c ∈ l := by
  fun_induction joinLF ls
  · intro c hc; simp at hc
  · intro c hc; exact Or.inr ⟨_, by simp, hc⟩
  · rename_i l rest hne ih
    intro c hc
    simp only [List.mem_append] at hc
    rcases hc with (h | h) | h
    · exact Or.inr ⟨l, by simp, h⟩
    · simp at h; exact Or.inl h
    · rcases ih c h with h2 | ⟨l', hl', hc'⟩
      · exact Or.inl h2
      · exact Or.inr ⟨l', by simp [hl'], hc'⟩

theorem dedentLines_mem (lines : List (List Nat)) :
    ∀ l' ∈ dedentLines lines, ∃ l ∈ lines, ∀ c ∈ l', c ∈ l := by
  intro l' hl'
  unfold dedentLines at hl'
  simp only [] at hl'
  have h1 := List.mem_reverse.mp hl'
  have h2 := (List.dropWhile_sublist _).subset h1
  have h3 := List.mem_reverse.mp h2
  have h4 := (List.dropWhile_sublist _).subset h3
  -- `h4 : l' ∈ (lines with the common indent removed)`
  revert h4
  split
  · rename_i ci first rest _ _
    intro h4
    rcases List.mem_cons.mp h4 with h | h
    · subst h; exact ⟨l', by simp, fun c hc => hc⟩
    · obtain ⟨l, hl, hdl⟩ := List.mem_map.mp h
      subst hdl
      exact ⟨l, by simp [hl], fun c hc => List.mem_of_mem_drop hc⟩
  · intro h4; exact ⟨l', h4, fun c hc => hc⟩

theorem blockStringValue_mem (raw : List Nat) : ∀ c ∈ blockStringValue raw, c ∈ raw ∨ c = 10 := by
  intro c hc
  unfold blockStringValue at hc
  rcases joinLF_mem _ c hc with h | ⟨l', hl', hc'⟩
  · exact Or.inr h
  · obtain ⟨l, hl, hsub⟩ := dedentLines_mem _ l' hl'
    rcases splitLinesAux_mem [] raw l hl c (hsub c hc') with h | h
    · simp at h
    · exact Or.inl h

theorem blockString?_shape {u : List Nat} {m : Match} (h : blockString? u = some m) :
    ∃ r, u = 34 :: 34 :: 34 :: r := by
  unfold blockString? at h
  split at h
  · exact ⟨_, rfl⟩
  · simp at h

/-- A block string token of the grammar: its value is block-representable, made of code
points of the text, `"` or LF, and consists of Unicode scalar values and surrogate pairs. -/
theorem lexToken?_block_value {u : List Nat} {m : Match} (h : lexToken? u = some m)
    (hk : m.kind = .blockString) :
    ∃ v, m.value = some v ∧ BlockRepresentable v ∧ (∀ c ∈ v, c ∈ u ∨ c = 34 ∨ c = 10) ∧ Paired v := by
  cases u with
  | nil => rw [Gql.Spec.Lex.lexToken?_nil] at h; simp at h
  | cons c r =>
    have hc := (lexToken?_kind h).2.2.1 hk
    subst hc
    rw [lexToken?_quote] at h
    have hb : blockString? (34 :: r) = some m := by
      rcases longer_cases _ _ _ h with h' | h'
      · have := string?_kind h'; rw [hk] at this; simp at this
      · exact h'
    obtain ⟨r', hr'⟩ := blockString?_shape hb
    -- value as `BlockStringValue(raw)`
    have hmem : ∀ v, m.value = some v → ∀ c ∈ v, c ∈ (34 :: r) ∨ c = 34 ∨ c = 10 := by
      intro v hv c hcv
      rw [hr', blockString?_triple] at hb
      cases hbr : blockRest r'.length r' with
      | none => rw [hbr] at hb; simp at hb
      | some nraw =>
        obtain ⟨n, raw⟩ := nraw
        rw [hbr] at hb
        simp only [Option.some.injEq] at hb
        rw [← hb] at hv
        simp only [Option.some.injEq] at hv
        rw [← hv] at hcv
        rcases blockStringValue_mem raw c hcv with h1 | h1
        · rcases blockRest_mem _ _ _ _ hbr c h1 with h2 | h2
          · left; rw [hr']; simp [h2]
          · exact Or.inr (Or.inl h2)
        · exact Or.inr (Or.inr h1)
    -- representability from the lexer model
    have hag := blockClassOK (34 :: r) {} 0 (by simp) rfl (by
      rw [hr']; rfl)
    simp only [List.drop_zero] at hag
    rw [hb] at hag
    cases hrd : readBlockString (34 :: r) {} 0 with
    | ok ts =>
      obtain ⟨t, st'⟩ := ts
      rw [hrd] at hag
      obtain ⟨mm, hmm, hsp, _, _, _⟩ := hag
      have : mm = m := (Option.some.inj hmm).symm
      subst this
      obtain ⟨v, hv, hrep⟩ := readBlockString_representable _ _ _ _ _ hrd
      have hval : mm.value = some v := by
        have := congrArg SpecToken.value hsp
        simp only [toSpec] at this
        rw [← this]; exact hv
      exact ⟨v, hval, hrep, hmem v hval, blockString?_value_paired hb v hval⟩
    | err e => rw [hrd] at hag; exact absurd hag (by simp [TokAgree])
    | crash c => rw [hrd] at hag; exact hag.elim

/-- The minimised printed form of a representable value of scalar values and surrogate pairs
lexes, in front of any text, to one block string token with that value. -/
theorem lexToken?_printed_block (v rest : List Nat) (hs : Paired v)
    (hrep : BlockRepresentable v) :
    lexToken? (printBlockString v true ++ rest) =
      some ⟨.blockString, (printBlockString v true).length, some v⟩ := by
  have hrt := printBlockStringW_roundtrip_paired Generated.blockWidth v true rest {} hs hrep
  have hshape : ∃ X, printBlockString v true ++ rest = 34 :: 34 :: 34 :: X := by
    unfold printBlockString printBlockStringW
    refine ⟨pbsBefore (pbsFlags Generated.blockWidth v true) ++
      (escapeTQ v ++ (pbsAfter (pbsFlags Generated.blockWidth v true) ++ 34 :: 34 :: 34 :: rest)), ?_⟩
    simp only [List.append_assoc, List.cons_append, List.nil_append]
  obtain ⟨X, hX⟩ := hshape
  have hag := blockClassOK (printBlockString v true ++ rest) {} 0 (by rw [hX]; simp)
    (by simp [hX]) (by rw [hX]; rfl)
  simp only [List.drop_zero] at hag
  cases hrd : readBlockString (printBlockString v true ++ rest) {} 0 with
  | ok ts =>
    obtain ⟨t, st'⟩ := ts
    have hrt' : tokOf (readBlockString (printBlockString v true ++ rest) {} 0) = _ := hrt
    rw [hrd] at hag hrt'
    simp only [tokOf_ok, Out.ok.injEq] at hrt'
    obtain ⟨mm, hmm, hsp, _, _, _⟩ := hag
    rw [hX, lexToken?_quote, show string? (34 :: 34 :: 34 :: X) = none from rfl, longer_none_left, ← hX, hmm]
    congr 1
    rw [hrt'] at hsp
    simp only [toSpec, mkToken, kindOf, SpecToken.mk.injEq] at hsp
    obtain ⟨h1, _, h3, h4⟩ := hsp
    cases mm
    simp only [Match.mk.injEq]
    simp only at h1 h3 h4
    refine ⟨h1.symm, ?_, h4.symm⟩
    unfold printBlockString
    omega
  | err e =>
    have hrt' : tokOf (readBlockString (printBlockString v true ++ rest) {} 0) = _ := hrt
    rw [hrd] at hrt'; simp [tokOf] at hrt'
  | crash c =>
    have hrt' : tokOf (readBlockString (printBlockString v true ++ rest) {} 0) = _ := hrt
    rw [hrd] at hrt'; simp [tokOf] at hrt'

theorem stripS_cons (body : List Nat) (t : SpecToken) (rest : List SpecToken) (w : Bool) (h : t.kind ≠ .eof) :
    stripS body (t :: rest) w =
      (if w && (!isPunctK t.kind || t.kind = .spread) then [32] else []) ++
      ((if t.kind = .blockString then
          printBlockString (match t.value with | some v => v | none => []) true
        else slice body t.start t.stop) ++
      stripS body rest (!isPunctK t.kind)) := by
  simp only [stripS]
  rw [if_neg h, List.append_assoc]
  all_goals rfl

/-- The text emitted for one token, and what it lexes to in front of a compatible continuation. -/
theorem emitted_token (body : List Nat) (off : Nat) (m : Match)
    (hig : ignoredLen (body.drop off) = none) (hm : lexToken? (body.drop off) = some m) (hpos : 0 < m.len)
    (hlen : off + m.len ≤ body.length) (Y : List Nat)
    (hY : isPunctK m.kind = false → Inert Y) :
    let text := if m.kind = .blockString then
        printBlockString (match m.value with | some v => v | none => []) true
      else slice body off (off + m.len)
    0 < text.length ∧ ignoredLen (text ++ Y) = none ∧
      lexToken? (text ++ Y) = some ⟨m.kind, text.length, m.value⟩ ∧
      (m.kind ≠ .blockString → text = (body.drop off).take m.len) := by
  intro text
  cases hu : body.drop off with
  | nil => rw [hu, Gql.Spec.Lex.lexToken?_nil] at hm; simp at hm
  | cons c r =>
    rw [hu] at hig hm
    have hk := lexToken?_kind hm
    by_cases hb : m.kind = .blockString
    · obtain ⟨v, hv, hrep, _, hsv⟩ := lexToken?_block_value hm hb
      have htext : text = printBlockString v true := by
        simp only [text, if_pos hb, hv]
      rw [htext]
      have hpr := lexToken?_printed_block v Y hsv hrep
      have hshape : ∃ X, printBlockString v true = 34 :: X := by
        unfold printBlockString printBlockStringW
        refine ⟨34 :: 34 :: (pbsBefore (pbsFlags Generated.blockWidth v true) ++
          (escapeTQ v ++ (pbsAfter (pbsFlags Generated.blockWidth v true) ++ [34, 34, 34]))), ?_⟩
        simp only [List.append_assoc, List.cons_append, List.nil_append]
      obtain ⟨X, hX⟩ := hshape
      have hc34 := hk.2.2.1 hb
      subst hc34
      refine ⟨by rw [hX]; simp, ?_, ?_, fun h => absurd hb h⟩
      · rw [hX]; exact ignoredLen_none_head' hig
      · rw [hpr, hb, hv]
    · have htext : text = (c :: r).take m.len := by
        simp only [text, if_neg hb]
        rw [slice_eq_take_drop, hu]
      have hml : m.len ≤ (c :: r).length := by
        have := congrArg List.length hu
        rw [List.length_drop] at this
        omega
      rw [htext]
      have hsplit : c :: r = (c :: r).take m.len ++ (c :: r).drop m.len := (List.take_append_drop _ _).symm
      have htl : ((c :: r).take m.len).length = m.len := by rw [List.length_take]; omega
      have hm' : lexToken? ((c :: r).take m.len ++ (c :: r).drop m.len) = some m := by rw [← hsplit]; exact hm
      obtain ⟨_, hst⟩ := lexToken?_stable_compat _ _ m hm' htl.symm hpos
      obtain ⟨m', hm1⟩ : ∃ m', m.len = m' + 1 := ⟨m.len - 1, by omega⟩
      have htk : (c :: r).take m.len = c :: r.take m' := by rw [hm1]; rfl
      have hcomp : Compat ((c :: r).take m.len) Y := by
        by_cases hp : isPunctK m.kind = true
        · rw [htk]; exact compat_of_punct_head c _ Y (hk.1 hp)
        · exact compat_of_inert _ _ (hY (by simpa using hp))
      refine ⟨by rw [htl]; exact hpos, ?_, ?_, fun _ => rfl⟩
      · rw [htk]; exact ignoredLen_none_head' hig
      · rw [hst Y hcomp, htl]

/-- What the stripped text of a derivation lexes to. -/
def StripGoal (body : List Nat) (ss : List SpecToken) : Prop :=
  Inert (stripS body ss true) ∧
  ∀ (w : Bool) (off' : Nat), ∃ ss', SpecTokensFrom off' (stripS body ss w) ss' ∧ kv ss' = kv ss ∧
    ∀ O : List Nat, O.drop off' = stripS body ss w → stripS O ss' w = stripS body ss w

theorem strip_derivation (body : List Nat)
    {off : Nat} {u : List Nat} {ss : List SpecToken} (D : SpecTokensFrom off u ss) :
    u = body.drop off → (∀ t ∈ ss, t.stop ≤ body.length) → StripGoal body ss := by
  induction D with
  | eof off =>
    intro _ _
    refine ⟨by simp [stripS, Inert, HeadAll], fun w off' => ⟨[⟨.eof, off', off', none⟩], ?_, rfl, ?_⟩⟩
    · simp only [stripS, if_true]; exact .eof off'
    · intro O _; simp [stripS]
  | @ignored off u n ts hig _ ih =>
    intro hu hb
    exact ih (by rw [hu, List.drop_drop]) hb
  | @token off u m ts hig hm hpos _ ih =>
    intro hu hb
    subst hu
    have hne : m.kind ≠ .eof := by
      cases hd : body.drop off with
      | nil => rw [hd, Gql.Spec.Lex.lexToken?_nil] at hm; simp at hm
      | cons c r => rw [hd] at hm; exact (lexToken?_kind hm).2.2.2.2
    have hlen : off + m.len ≤ body.length := by
      have := hb ⟨m.kind, off, off + m.len, m.value⟩ (by simp); simpa using this
    obtain ⟨hinert, hrest⟩ := ih (by rw [List.drop_drop]) (fun t ht => hb t (by simp [ht]))
    -- the continuation after this token
    have hY : ∀ (np : Bool), np = !isPunctK m.kind → isPunctK m.kind = false →
        Inert (stripS body ts np) := by
      intro np hnp hp
      rw [hnp, hp]; exact hinert
    have hem := emitted_token body off m hig hm hpos hlen (stripS body ts (!isPunctK m.kind))
      (hY _ rfl)
    simp only [] at hem
    generalize htext : (if m.kind = Kind.blockString then
        printBlockString (match m.value with | some v => v | none => []) true
      else slice body off (off + m.len)) = text at hem
    obtain ⟨htpos, hig', hm', htake⟩ := hem
    have hstrip : ∀ w, stripS body (⟨m.kind, off, off + m.len, m.value⟩ :: ts) w =
        (if w && (!isPunctK m.kind || m.kind = .spread) then [32] else []) ++
          (text ++ stripS body ts (!isPunctK m.kind)) := by
      intro w
      rw [stripS_cons _ _ _ _ hne, ← htext]
      try rfl
    constructor
    · -- inertness of the output after a non-punctuator
      rw [hstrip true]
      by_cases hsep : (true && (!isPunctK m.kind || m.kind = .spread)) = true
      · rw [if_pos hsep]
        exact inert_of_ignoredStart 32 _ (by unfold IgnoredStart; omega)
      · rw [if_neg hsep, List.nil_append]
        have hp : isPunctK m.kind = true ∧ m.kind ≠ .spread := by
          simp at hsep; exact ⟨hsep.1, hsep.2⟩
        have hnb : m.kind ≠ .blockString := by
          intro h; rw [h] at hp; simp [isPunctK] at hp
        rw [htake hnb]
        cases hd : body.drop off with
        | nil => rw [hd, Gql.Spec.Lex.lexToken?_nil] at hm; simp at hm
        | cons c r =>
          rw [hd] at hm
          have hP := (lexToken?_kind hm).2.1 hp.1 hp.2
          obtain ⟨m', hm1⟩ : ∃ m', m.len = m' + 1 := ⟨m.len - 1, by omega⟩
          rw [hm1]
          exact inert_of_P13 c _ hP
    · intro w off'
      rw [hstrip w]
      by_cases hsep : (w && (!isPunctK m.kind || m.kind = .spread)) = true
      · rw [if_pos hsep]
        obtain ⟨ss', hd', hkv, hO⟩ := hrest (!isPunctK m.kind) (off' + 1 + text.length)
        refine ⟨⟨m.kind, off' + 1, off' + 1 + text.length, m.value⟩ :: ss', ?_, ?_, ?_⟩
        · refine .ignored (n := 1) rfl ?_
          simp only [List.cons_append, List.nil_append, List.drop_succ_cons, List.drop_zero]
          have := SpecTokensFrom.token (off := off' + 1) hig' hm' htpos (by
            simp only [List.drop_left']; exact hd')
          exact this
        · simp [kv] at hkv ⊢; exact hkv
        · intro O hOd
          rw [stripS_cons _ _ _ _ hne]
          simp only []
          rw [if_pos hsep]
          have h1 : O.drop (off' + 1) = text ++ stripS body ts (!isPunctK m.kind) := by
            rw [← List.drop_drop, hOd]; rfl
          have h2 : O.drop (off' + 1 + text.length) = stripS body ts (!isPunctK m.kind) := by
            rw [← List.drop_drop, h1, List.drop_left']; rfl
          rw [hO O h2]
          congr 2
          by_cases hbk : m.kind = .blockString
          · rw [if_pos hbk, ← htext, if_pos hbk]; try rfl
          · rw [if_neg hbk, slice_eq_take_drop, h1, List.take_left']; rfl
      · rw [if_neg hsep, List.nil_append]
        obtain ⟨ss', hd', hkv, hO⟩ := hrest (!isPunctK m.kind) (off' + text.length)
        refine ⟨⟨m.kind, off', off' + text.length, m.value⟩ :: ss', ?_, ?_, ?_⟩
        · exact SpecTokensFrom.token hig' hm' htpos (by simp only [List.drop_left']; exact hd')
        · simp [kv] at hkv ⊢; exact hkv
        · intro O hOd
          rw [stripS_cons _ _ _ _ hne]
          simp only []
          rw [if_neg hsep, List.nil_append]
          have h2 : O.drop (off' + text.length) = stripS body ts (!isPunctK m.kind) := by
            rw [← List.drop_drop, hOd, List.drop_left']; rfl
          rw [hO O h2]
          congr 1
          by_cases hbk : m.kind = .blockString
          · rw [if_pos hbk, ← htext, if_pos hbk]; try rfl
          · rw [if_neg hbk, slice_eq_take_drop, hOd, List.take_left']; rfl

theorem SpanChain.stop_le {len : Nat} : ∀ {lo : Nat} {ts : List Token}, SpanChain len lo ts →
    ∀ t ∈ ts, t.stop ≤ len
  | _, [], h => h.elim
  | _, [t], h => by
    intro t' ht'
    simp at ht'; subst ht'
    have : t'.stop = len := h.2.2.2
    omega
  | lo, t :: t2 :: rest, h => by
    intro t' ht'
    rcases List.mem_cons.mp ht' with h1 | h1
    · subst h1; exact h.2.2.2.2.1
    · exact SpanChain.stop_le h.2.2.2.2.2 t' h1

theorem specTokens_kind_ne_other {off : Nat} {u : List Nat} {ss : List SpecToken}
    (D : SpecTokensFrom off u ss) : ∀ t ∈ ss, t.kind ≠ .other := by
  induction D with
  | eof off => intro t ht; simp at ht; subst ht; simp
  | ignored _ _ ih => exact ih
  | @token off u m ts _ hm _ _ ih =>
    intro t ht
    rcases List.mem_cons.mp ht with h | h
    · subst h
      cases u with
      | nil => rw [Gql.Spec.Lex.lexToken?_nil] at hm; simp at hm
      | cons c r => exact (lexToken?_kind hm).2.2.2.1
    · exact ih t h

theorem lexAll_of_SpecTokens (body : List Nat) (ss : List SpecToken) (h : SpecTokens body ss) :
    ∃ ts, lexAll body = .ok ts ∧ sig ts = ss := by
  have hA := lexAll_agree_all body
  rw [(specTokenize_iff body ss).mpr h] at hA
  cases hl : lexAll body with
  | ok ts =>
    rw [hl] at hA
    have : some ss = some (sig ts) := hA
    exact ⟨ts, rfl, (Option.some.inj this).symm⟩
  | err e => rw [hl] at hA; exact absurd hA (by simp [LexAgree])
  | crash c => rw [hl] at hA; exact hA.elim

theorem SpecTokens_of_lexAll (body : List Nat) (ts : List Token) (h : lexAll body = .ok ts) :
    SpecTokens body (sig ts) := by
  have hA := lexAll_agree_all body
  rw [h] at hA
  exact (specTokenize_iff _ _).mp hA

theorem sig_kind_ne_other (ts : List Token) (h : ∀ t ∈ sig ts, t.kind ≠ .other) :
    ∀ t ∈ ts, kindOf t.kind ≠ .other := by
  intro t ht
  exact h (toSpec t) (List.mem_map_of_mem ht)

/-- Everything `strip_ignored_characters` guarantees about a text that lexes (verbatim surrogate
pairs in strings, block strings and comments included): the stripped text lexes to the same kinds
and values, and stripping it again returns it unchanged. -/
theorem strip_correct (s : List Nat) (ts : List Token)
    (h : lexAll s = .ok ts) :
    ∃ out ts', stripIgnoredCharacters s = .ok out ∧ lexAll out = .ok ts' ∧
      kv (sig ts') = kv (sig ts) ∧ stripIgnoredCharacters out = .ok out := by
  have hD := SpecTokens_of_lexAll s ts h
  have hko := specTokens_kind_ne_other hD
  have hspans : SpanChain s.length 0 ts := by
    obtain ⟨rest, hts, hch⟩ := lexAllAux_spans s _ {} 0 [] ts (by omega) h
    simpa [hts] using hch
  have hb : ∀ t ∈ sig ts, t.stop ≤ s.length := by
    intro t ht
    obtain ⟨t0, ht0, rfl⟩ := List.mem_map.mp ht
    exact hspans.stop_le t0 ht0
  obtain ⟨_, hgoal⟩ := strip_derivation s hD (by simp) hb
  obtain ⟨ss', hD', hkv, hO⟩ := hgoal false 0
  have hout : stripLoop s ts false [] = stripS s (sig ts) false := by
    rw [stripLoop_eq s ts (sig_kind_ne_other ts hko)]; simp
  obtain ⟨ts', hl', hsig'⟩ := lexAll_of_SpecTokens _ ss' hD'
  refine ⟨stripS s (sig ts) false, ts', ?_, hl', by rw [hsig']; exact hkv, ?_⟩
  · unfold stripIgnoredCharacters; rw [h]; simp only [Out.bind_ok, Out.pure_eq, hout]
  · unfold stripIgnoredCharacters
    rw [hl']
    simp only [Out.bind_ok, Out.pure_eq]
    have hko' : ∀ t ∈ ts', kindOf t.kind ≠ .other := by
      apply sig_kind_ne_other; rw [hsig']; exact specTokens_kind_ne_other hD'
    rw [stripLoop_eq _ ts' hko', hsig', List.nil_append, hO _ (by simp)]
end Gql.Text
