import Gql.Proofs.OverlapSpecFlat
import Gql.Proofs.OverlapTerm
/-! C14, documents without fragment spreads, implementation side (1): the field map built by
`collect_fields_and_fragment_spreads` is the flat list of field instances grouped by response
name, and what `collect_conflicts_within` / `collect_conflicts_between` iterate over. -/
namespace Gql.Exec
open Overlap

def rnE (e : FieldEntry) : String := e.node.responseName

/-- `node_and_defs.get(k)` or the empty list -/
def look (m : List (String × List FieldEntry)) (k : String) : List FieldEntry :=
  (assocGet m k).getD []

def grp (m : List (String × List FieldEntry)) (es : List FieldEntry) :
    List (String × List FieldEntry) :=
  es.foldl (fun m e => addEntry m (rnE e) e) m

theorem look_addEntry (m : List (String × List FieldEntry)) (k k' : String) (e : FieldEntry) :
    look (addEntry m k e) k' = look m k' ++ (if k = k' then [e] else []) := by
  induction m with
  | nil =>
    by_cases h : k = k'
    · simp [addEntry, look, assocGet, h]
    · have : (k == k') = false := by simpa using h
      simp [addEntry, look, assocGet, h, List.find?, this]
  | cons x xs ih =>
    obtain ⟨k0, l0⟩ := x
    simp only [addEntry]
    by_cases h0 : (k0 == k) = true
    · have e0 : k0 = k := by simpa using h0
      subst e0
      simp only [h0, if_true]
      by_cases h : k0 = k'
      · subst h
        simp [look, assocGet, List.find?]
      · have : (k0 == k') = false := by simpa using h
        simp [look, assocGet, List.find?, this, h]
    · have h0' : (k0 == k) = false := by simpa using h0
      simp only [h0', Bool.false_eq_true, if_false]
      by_cases h1 : (k0 == k') = true
      · have e1 : k0 = k' := by simpa using h1
        have hne : ¬ k = k' := by
          intro e; apply h0; rw [e1, e]; simp
        simp [look, assocGet, List.find?, h1, hne]
      · have h1' : (k0 == k') = false := by simpa using h1
        simp only [look, assocGet, List.find?, h1'] at ih ⊢
        exact ih

theorem look_grp (es : List FieldEntry) : ∀ (m : List (String × List FieldEntry)) (k : String),
    look (grp m es) k = look m k ++ es.filter (fun e => rnE e == k) := by
  induction es with
  | nil => simp [grp]
  | cons e es ih =>
    intro m k
    simp only [grp, List.foldl_cons] at ih ⊢
    rw [ih, look_addEntry]
    by_cases h : rnE e = k
    · simp [h, List.filter]
    · have : (rnE e == k) = false := by simpa using h
      simp [h, List.filter, this]

def keysOf (m : List (String × List FieldEntry)) : List String := m.map (·.1)

theorem keysOf_addEntry (m : List (String × List FieldEntry)) (k : String) (e : FieldEntry) :
    keysOf (addEntry m k e) = if k ∈ keysOf m then keysOf m else keysOf m ++ [k] := by
  induction m with
  | nil => simp [addEntry, keysOf]
  | cons x xs ih =>
    obtain ⟨k0, l0⟩ := x
    simp only [addEntry]
    by_cases h0 : (k0 == k) = true
    · have e0 : k0 = k := by simpa using h0
      simp [h0, keysOf, e0]
    · have h0' : (k0 == k) = false := by simpa using h0
      have hne : ¬ k = k0 := fun e => h0 (by simp [e])
      simp only [h0', Bool.false_eq_true, if_false, keysOf, List.map_cons, List.mem_cons, hne,
        false_or] at ih ⊢
      rw [ih]
      by_cases hk : k ∈ List.map (fun x => x.fst) xs <;> simp [hk]

theorem nodup_keys_addEntry {m : List (String × List FieldEntry)} (h : (keysOf m).Nodup)
    (k : String) (e : FieldEntry) : (keysOf (addEntry m k e)).Nodup := by
  rw [keysOf_addEntry]
  split
  · exact h
  · rename_i hk
    rw [List.nodup_append]
    refine ⟨h, by simp, ?_⟩
    intro a ha b hb
    simp only [List.mem_singleton] at hb
    subst hb
    exact fun e => hk (e ▸ ha)

theorem nodup_keys_grp (es : List FieldEntry) :
    ∀ (m : List (String × List FieldEntry)), (keysOf m).Nodup → (keysOf (grp m es)).Nodup := by
  induction es with
  | nil => exact fun m h => h
  | cons e es ih =>
    intro m h
    simp only [grp, List.foldl_cons] at ih ⊢
    exact ih _ (nodup_keys_addEntry h _ _)

theorem assocGet_of_mem_nodup {m : List (String × List FieldEntry)} (hn : (keysOf m).Nodup)
    {k : String} {l : List FieldEntry} (h : (k, l) ∈ m) : assocGet m k = some l := by
  induction m with
  | nil => cases h
  | cons x xs ih =>
    simp only [keysOf, List.map_cons, List.nodup_cons] at hn
    rcases List.mem_cons.1 h with rfl | h
    · simp [assocGet, List.find?]
    · have hne : x.1 ≠ k := by
        intro e
        apply hn.1
        rw [e]
        exact List.mem_map.2 ⟨(k, l), h, rfl⟩
      have : (x.1 == k) = false := by simpa using hne
      have ih' := ih hn.2 h
      simp only [assocGet, List.find?, this] at ih' ⊢
      exact ih'

theorem mem_of_assocGet {m : List (String × List FieldEntry)} {k : String} {l : List FieldEntry}
    (h : assocGet m k = some l) : (k, l) ∈ m := by
  simp only [assocGet, Option.map_eq_some_iff] at h
  obtain ⟨x, hx, rfl⟩ := h
  have h1 := List.mem_of_find?_eq_some hx
  have h2 : x.1 = k := by simpa using List.find?_some hx
  rw [← h2]
  exact h1

/-- the entries of the grouped map: one per response name, holding the fields of that name in
their original order -/
theorem mem_grp {es : List FieldEntry} {k : String} {l : List FieldEntry}
    (h : (k, l) ∈ grp [] es) : l = es.filter (fun e => rnE e == k) := by
  have h1 := assocGet_of_mem_nodup (nodup_keys_grp es [] (by simp [keysOf])) h
  have h2 := look_grp es [] k
  simp only [look, h1, Option.getD_some] at h2
  simpa [assocGet] using h2

theorem grp_get {es : List FieldEntry} {k : String} :
    assocGet (grp [] es) k =
      if es.filter (fun e => rnE e == k) = [] then none
      else some (es.filter (fun e => rnE e == k)) := by
  cases hg : assocGet (grp [] es) k with
  | none =>
    have h2 := look_grp es [] k
    simp only [look, hg, Option.getD_none] at h2
    have : es.filter (fun e => rnE e == k) = [] := by simpa [assocGet] using h2.symm
    simp [this]
  | some l =>
    have hl := mem_grp (mem_of_assocGet hg)
    have hne : l ≠ [] := by
      -- an entry is only ever created with one element and only ever extended
      intro hl0
      subst hl0
      have key : ∀ (es : List FieldEntry) (m : List (String × List FieldEntry)),
          (∀ x ∈ m, x.2 ≠ []) → ∀ x ∈ grp m es, x.2 ≠ [] := by
        intro es
        induction es with
        | nil => exact fun m hm => hm
        | cons e es ih =>
          intro m hm
          simp only [grp, List.foldl_cons] at ih ⊢
          apply ih
          clear ih
          induction m with
          | nil => simp [addEntry]
          | cons y ys ihy =>
            obtain ⟨k0, l0⟩ := y
            simp only [addEntry]
            split
            · intro x hx
              rcases List.mem_cons.1 hx with rfl | hx
              · simp
              · exact hm x (List.mem_cons_of_mem _ hx)
            · intro x hx
              rcases List.mem_cons.1 hx with rfl | hx
              · exact hm _ List.mem_cons_self
              · exact ihy (fun z hz => hm z (List.mem_cons_of_mem _ hz)) x hx
      exact key es [] (by simp) _ (mem_of_assocGet hg) rfl
    rw [← hl]
    simp [hne]

theorem exists_entry {es : List FieldEntry} {e : FieldEntry} (he : e ∈ es) :
    (rnE e, es.filter (fun x => rnE x == rnE e)) ∈ grp [] es := by
  have hne : es.filter (fun x => rnE x == rnE e) ≠ [] := by
    intro h0
    have : e ∈ es.filter (fun x => rnE x == rnE e) := List.mem_filter.2 ⟨he, by simp⟩
    rw [h0] at this
    cases this
  have := grp_get (es := es) (k := rnE e)
  simp only [hne, if_false] at this
  exact mem_of_assocGet this

/-! ### the pairs the rule compares -/

theorem pairsOf_eq_spec {α : Type} (xs : List α) : pairsOf xs = Spec.pairsOf xs := by
  induction xs with
  | nil => rfl
  | cons x xs ih => simp [pairsOf, Spec.pairsOf, ih]

theorem Spec.pairsOf_filter {α : Type} (f : α → Bool) (xs : List α) (p : α × α) :
    p ∈ Spec.pairsOf (xs.filter f) ↔ p ∈ Spec.pairsOf xs ∧ f p.1 = true ∧ f p.2 = true := by
  induction xs with
  | nil => simp [Spec.pairsOf]
  | cons x xs ih =>
    by_cases hx : f x = true
    · simp only [List.filter_cons, hx, if_true, Spec.pairsOf, List.mem_append, List.mem_map,
        List.mem_filter, ih]
      constructor
      · rintro (⟨y, ⟨hy, hfy⟩, rfl⟩ | ⟨h1, h2⟩)
        · exact ⟨Or.inl ⟨y, hy, rfl⟩, hx, hfy⟩
        · exact ⟨Or.inr h1, h2⟩
      · rintro ⟨⟨y, hy, rfl⟩ | h1, h2, h3⟩
        · exact Or.inl ⟨y, ⟨hy, h3⟩, rfl⟩
        · exact Or.inr ⟨h1, h2, h3⟩
    · have hx' : f x = false := by simpa using hx
      simp only [List.filter_cons, hx', Bool.false_eq_true, if_false, Spec.pairsOf,
        List.mem_append, List.mem_map, ih]
      constructor
      · rintro ⟨h1, h2⟩
        exact ⟨Or.inr h1, h2⟩
      · rintro ⟨⟨y, hy, rfl⟩ | h1, h2, h3⟩
        · simp [hx'] at h2
        · exact ⟨h1, h2, h3⟩

theorem mem_betweenPairs_grp {i j : Nat} {A B : List FieldEntry}
    {t : String × FieldEntry × FieldEntry} :
    t ∈ betweenPairs ⟨i, grp [] A⟩ ⟨j, grp [] B⟩ ↔
      t.2.1 ∈ A ∧ t.2.2 ∈ B ∧ rnE t.2.1 = t.1 ∧ rnE t.2.2 = t.1 := by
  obtain ⟨rn, e1, e2⟩ := t
  simp only [betweenPairs, List.mem_flatMap, fmGet]
  constructor
  · rintro ⟨⟨k, fs1⟩, hm, h⟩
    have hfs1 := mem_grp hm
    simp only at h
    cases hg : assocGet (grp [] B) k with
    | none => simp [hg] at h
    | some fs2 =>
      have hfs2 := mem_grp (mem_of_assocGet hg)
      simp only [hg, List.mem_flatMap, List.mem_map, Prod.mk.injEq] at h
      obtain ⟨f1, hf1, f2, hf2, rfl, rfl, rfl⟩ := h
      rw [hfs1] at hf1
      rw [hfs2] at hf2
      have a1 := List.mem_filter.1 hf1
      have a2 := List.mem_filter.1 hf2
      exact ⟨a1.1, a2.1, by simpa using a1.2, by simpa using a2.2⟩
  · rintro ⟨h1, h2, h3, h4⟩
    refine ⟨_, exists_entry h1, ?_⟩
    have hne : B.filter (fun e => rnE e == rnE e1) ≠ [] := by
      intro h0
      have : e2 ∈ B.filter (fun e => rnE e == rnE e1) :=
        List.mem_filter.2 ⟨h2, by simp [h3, h4]⟩
      rw [h0] at this; cases this
    simp only [grp_get, hne, if_false, List.mem_flatMap, List.mem_map, Prod.mk.injEq]
    exact ⟨e1, List.mem_filter.2 ⟨h1, by simp⟩, e2, List.mem_filter.2 ⟨h2, by simp [h3, h4]⟩,
      h3, rfl, rfl⟩

theorem mem_withinPairs_grp {i : Nat} {A : List FieldEntry}
    {t : String × FieldEntry × FieldEntry} :
    t ∈ withinPairs ⟨i, grp [] A⟩ ↔
      (t.2.1, t.2.2) ∈ Spec.pairsOf A ∧ rnE t.2.1 = t.1 ∧ rnE t.2.2 = t.1 := by
  obtain ⟨rn, e1, e2⟩ := t
  simp only [withinPairs, List.mem_flatMap, List.mem_map, pairsOf_eq_spec]
  constructor
  · rintro ⟨⟨k, fs⟩, hm, p, hp, h⟩
    simp only [Prod.mk.injEq] at h
    obtain ⟨rfl, rfl, rfl⟩ := h
    rw [mem_grp hm, Spec.pairsOf_filter] at hp
    exact ⟨hp.1, by simpa using hp.2.1, by simpa using hp.2.2⟩
  · rintro ⟨h1, h2, h3⟩
    have hm := exists_entry (Spec.pairsOf_mem h1).1
    refine ⟨_, hm, (e1, e2), ?_, by simp [h2]⟩
    rw [Spec.pairsOf_filter]
    exact ⟨h1, by simp, by simp [h2, h3]⟩

/-! ### `collect_fields_and_fragment_spreads` without spreads -/

def toEntry (s : Schema) (a : Spec.FieldInst) : FieldEntry :=
  ⟨a.parent, a.node, s.fieldDef a.parent a.node.name⟩

theorem grp_append (m : List (String × List FieldEntry)) (A B : List FieldEntry) :
    grp m (A ++ B) = grp (grp m A) B := by
  simp [grp, List.foldl_append]

mutual
theorem collectSel_nospread (s : Schema) (d : Doc) : ∀ (x : Sel) (p : Option String)
    (m : List (String × List FieldEntry)) (sps : List Spread), x.spreadNames = [] →
      collectSel s d p x (m, sps) = (grp m ((x.flat s p).map (toEntry s)), sps)
  | .field id al name args st hasSub subId sub, p, m, sps, _ => by
    simp [collectSel, Sel.flat, grp, toEntry, mkFieldNode, rnE]
  | .inline tc _ sels, p, m, sps, h => by
    have h' : selsSpreadNames sels = [] := by simpa [Sel.spreadNames] using h
    cases tc <;> simp only [collectSel, Sel.flat] <;>
      exact collectSels_nospread s d sels _ m sps h'
  | .spread n, p, m, sps, h => by simp [Sel.spreadNames] at h
theorem collectSels_nospread (s : Schema) (d : Doc) : ∀ (xs : List Sel) (p : Option String)
    (m : List (String × List FieldEntry)) (sps : List Spread), selsSpreadNames xs = [] →
      collectSels s d p xs (m, sps) = (grp m ((selsFlat s p xs).map (toEntry s)), sps)
  | [], p, m, sps, _ => by simp [collectSels, selsFlat, grp]
  | x :: xs, p, m, sps, h => by
    simp only [selsSpreadNames, List.append_eq_nil_iff] at h
    simp only [collectSels, selsFlat, List.map_append, grp_append]
    rw [collectSel_nospread s d x p m sps h.1, collectSels_nospread s d xs p _ sps h.2]
end

theorem computeFields_nospread (s : Schema) (d : Doc) (p : Option String) (ss : SelSet)
    (h : selsSpreadNames ss.sels = []) :
    computeFields s d p ss = (⟨ss.id, grp [] ((selsFlat s p ss.sels).map (toEntry s))⟩, []) := by
  simp [computeFields, collectSels_nospread s d ss.sels p [] [] h]

end Gql.Exec
