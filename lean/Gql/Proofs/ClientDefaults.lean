import Gql.Proofs.ClientSchema
/-!
C18: `client_roundtrip` with the print/parse law for default values required only of the default values
that occur in the schema (`DefaultsSat P s` + `∀ v, P v → parseV (printV v) = ok v`) instead of all of `V`.
This is the form C08's `roundtrip_value` can discharge (`P` = well-formed constant literal).
-/
namespace Gql.Types
open Json

variable {V : Type}

/-- Every default value of a list of arguments / input fields satisfies `P`. -/
def ivsSat (P : V → Prop) (ivs : List (InputValue V)) : Prop :=
  ∀ iv ∈ ivs, ∀ v, iv.default = some v → P v

/-- Every default value in a type (arguments of its fields, its input fields) satisfies `P`. -/
def typeSat (P : V → Prop) (t : TypeDef V) : Prop :=
  (∀ f ∈ t.fields, ivsSat P f.args) ∧ ivsSat P t.inputFields

/-- Every default value that occurs in the schema — arguments of fields, input fields, arguments of
directives — satisfies `P`. -/
def DefaultsSat (P : V → Prop) (s : Schema V) : Prop :=
  (∀ t ∈ s.types, typeSat P t) ∧ (∀ x ∈ s.directives, ivsSat P x.args)

/-- The default values of a schema, in order of occurrence. -/
def ivsDefaults (ivs : List (InputValue V)) : List V := ivs.filterMap (·.default)
def Schema.defaults (s : Schema V) : List V :=
  s.types.flatMap (fun t => t.fields.flatMap (fun f => ivsDefaults f.args) ++ ivsDefaults t.inputFields)
    ++ s.directives.flatMap (fun x => ivsDefaults x.args)

theorem ivsSat_iff (P : V → Prop) (ivs : List (InputValue V)) :
    ivsSat P ivs ↔ ∀ v ∈ ivsDefaults ivs, P v := by
  simp only [ivsSat, ivsDefaults, List.mem_filterMap]
  constructor
  · rintro h v ⟨iv, hiv, hv⟩; exact h iv hiv v hv
  · intro h iv hiv v hv; exact h v ⟨iv, hiv, hv⟩

theorem defaultsSat_iff (P : V → Prop) (s : Schema V) : DefaultsSat P s ↔ ∀ v ∈ s.defaults, P v := by
  simp only [DefaultsSat, typeSat, ivsSat_iff, Schema.defaults, List.mem_append, List.mem_flatMap]
  constructor
  · rintro ⟨ht, hd⟩ v (⟨t, htm, ⟨f, hf, hv⟩ | hv⟩ | ⟨x, hx, hv⟩)
    · exact (ht t htm).1 f hf v hv
    · exact (ht t htm).2 v hv
    · exact hd x hx v hv
  · intro h
    exact ⟨fun t ht => ⟨fun f hf v hv => h v (Or.inl ⟨t, ht, Or.inl ⟨f, hf, hv⟩⟩),
        fun v hv => h v (Or.inl ⟨t, ht, Or.inr hv⟩)⟩,
      fun x hx v hv => h v (Or.inr ⟨x, hx, hv⟩)⟩

section
variable (env : ClientEnv V) (km : KindMap) (printV : V → List Nat) (P : V → Prop)

theorem parseDefault_print_on (hpp : ∀ v, P v → env.parseV (printV v) = .ok v) (x : Option V)
    (hx : ∀ v, x = some v → P v) :
    parseDefault env (ofOptStr (x.map printV)) = .ok x := by
  cases x with
  | none => rfl
  | some v => simp [ofOptStr, parseDefault, hpp v (hx v rfl)]

theorem buildInputValue_ivJson_on (hpp : ∀ v, P v → env.parseV (printV v) = .ok v) (d : Nat) (hlim : d < env.limit)
    (iv : InputValue V) (hwf : wfInputValue km d iv = true) (hP : ∀ v, iv.default = some v → P v) :
    buildInputValue env km (ivJson printV (Options.full d) iv) = .ok iv := by
  simp [wfInputValue] at hwf
  obtain ⟨⟨_, hr⟩, hi⟩ := hwf
  have hty := getType_wfRef km d env.limit iv.type hlim hr
  have hdv := parseDefault_print_on env printV P hpp iv.default hP
  rw [ivJson_full]
  simp [buildInputValue, index, dget, List.lookup, hty, hi, hdv, nameOf]

theorem buildInputValues_ivsJson_on (hpp : ∀ v, P v → env.parseV (printV v) = .ok v) (d : Nat)
    (hlim : d < env.limit) (ivs : List (InputValue V)) (hwf : wfInputValues km d ivs = true)
    (hP : ivsSat P ivs) :
    buildInputValues env km (ivsJson printV (Options.full d) ivs) = .ok ivs := by
  simp [wfInputValues] at hwf
  obtain ⟨hall, hnd⟩ := hwf
  have hm : mapMOut (buildInputValue env km) (ivs.map (ivJson printV (Options.full d))) = .ok ivs :=
    mapMOut_map_id _ _ ivs
      (fun iv hiv => buildInputValue_ivJson_on env km printV P hpp d hlim iv (hall iv hiv) (hP iv hiv))
  have hd : dictOfList InputValue.name ivs = ivs := dictOfList_nodup _ ivs hnd
  have hc : checkNames InputValue.name ivs = .ok () :=
    checkNames_ok _ ivs (fun iv hiv => by have := hall iv hiv; simp [wfInputValue] at this; exact this.1.1)
  simp [buildInputValues, ivsJson, visibleInputs, items, hm, hd, hc]

theorem buildField_fieldJson_on (hpp : ∀ v, P v → env.parseV (printV v) = .ok v) (d : Nat) (hlim : d < env.limit)
    (f : Field V) (hwf : wfField km d f = true) (hP : ivsSat P f.args) :
    buildField env km (fieldJson printV (Options.full d) f) = .ok f := by
  simp [wfField] at hwf
  obtain ⟨⟨⟨_, hr⟩, ho⟩, ha⟩ := hwf
  have hty := getType_wfRef km d env.limit f.type hlim hr
  have hargs := buildInputValues_ivsJson_on env km printV P hpp d hlim f.args ha hP
  rw [fieldJson_full]
  simp only [buildField, index, dget, List.lookup, key_beq]
  simp [hty, ho, nameOf]
  simp only [ivsJson] at hargs ⊢
  simp [hargs]

variable [DecidableEq V]

theorem buildTypeDef_typeJson_on (hpp : ∀ v, P v → env.parseV (printV v) = .ok v) (types : List (TypeDef V))
    (d : Nat) (hlim : d < env.limit) (t : TypeDef V)
    (hnr : (env.reserved.find? fun r => r.name = t.name) = none) (hwf : wfType env km d t = true)
    (hP : typeSat P t) :
    buildTypeDef env km t.name t.kind (typeJson printV types (Options.full d) t) = .ok t := by
  unfold wfType at hwf
  rw [hnr] at hwf
  simp at hwf
  obtain ⟨⟨⟨⟨⟨⟨⟨_, hshape⟩, hfields⟩, hfnd⟩, hifaces⟩, hmembers⟩, hevnd⟩, hifs⟩ := hwf
  have hpos : 0 < env.limit := by omega
  have hfs : mapMOut (buildField env km) (t.fields.map (fieldJson printV (Options.full d))) = .ok t.fields :=
    mapMOut_map_id _ _ t.fields
      (fun f hf => buildField_fieldJson_on env km printV P hpp d hlim f (hfields f hf) (hP.1 f hf))
  have hfd : dictOfList Field.name t.fields = t.fields := dictOfList_nodup _ _ hfnd
  have hfc : checkNames Field.name t.fields = .ok () :=
    checkNames_ok _ _ (fun f hf => by have := hfields f hf; simp [wfField] at this; exact this.1.1.1)
  have his : mapMOut (getTypeOfKind km env.limit .interface) (t.interfaces.map (refJson d)) = .ok t.interfaces :=
    mapMOut_map_id _ _ t.interfaces
      (fun r hr => getTypeOfKind_wfNamedRef km d env.limit .interface r hpos (hifaces r hr))
  have hms : mapMOut (getTypeOfKind km env.limit .object) (t.members.map (refJson d)) = .ok t.members :=
    mapMOut_map_id _ _ t.members
      (fun r hr => getTypeOfKind_wfNamedRef km d env.limit .object r hpos (hmembers r hr))
  have hevs : mapMOut buildEnumValue (t.enumValues.map (enumValueJson (Options.full d))) = .ok t.enumValues :=
    mapMOut_map_id _ _ t.enumValues (fun e _ => buildEnumValue_enumValueJson d e)
  have hevd : dictOfList EnumValue.name t.enumValues = t.enumValues := dictOfList_nodup _ _ hevnd
  have hinp := buildInputValues_ivsJson_on env km printV P hpp d hlim t.inputFields hifs hP.2
  rw [typeJson_full]
  obtain ⟨kind, name, desc, url, fields, ifaces, members, evs, ifs, oneOf⟩ := t
  simp only at *
  cases kind <;>
    simp [wfShape] at hshape <;>
    simp [buildTypeDef, dget, List.lookup, buildInterfaces, buildFields, items, wrapThunk_ok, boolOf,
      hfs, hfd, hfc, his, hms, hevs, hevd, hinp, hshape]

theorem buildDirective_directiveJson_on (hpp : ∀ v, P v → env.parseV (printV v) = .ok v) (d : Nat)
    (hlim : d < env.limit) (x : Directive V) (hwf : wfDirective env km d x = true) (hP : ivsSat P x.args) :
    buildDirective env km (directiveJson printV (Options.full d) x) = .ok x := by
  simp [wfDirective] at hwf
  obtain ⟨⟨hname, hlocs⟩, hargs⟩ := hwf
  have hargs' := hargs
  simp [wfInputValues] at hargs'
  obtain ⟨hall, hnd⟩ := hargs'
  have hm : mapMOut (buildInputValue env km) (x.args.map (ivJson printV (Options.full d))) = .ok x.args :=
    mapMOut_map_id _ _ x.args
      (fun iv hiv => buildInputValue_ivJson_on env km printV P hpp d hlim iv (hall iv hiv) (hP iv hiv))
  have hd : dictOfList InputValue.name x.args = x.args := dictOfList_nodup _ _ hnd
  have hc : checkNames InputValue.name x.args = .ok () :=
    checkNames_ok _ _ (fun iv hiv => by have := hall iv hiv; simp [wfInputValue] at this; exact this.1.1)
  have hl : mapMOut (buildLocation env) (x.locations.map str) = .ok x.locations :=
    mapMOut_map_id _ _ x.locations (fun l hl => by simp [buildLocation, hlocs l hl])
  rw [directiveJson_full]
  simp [buildDirective, index, dget, List.lookup, ivsJson, visibleInputs, items, nameOf, assertName, hname, hm, hd,
    hc, hl, boolOf]

theorem buildDirectives_ok_on (hpp : ∀ v, P v → env.parseV (printV v) = .ok v) (d : Nat) (hlim : d < env.limit)
    (ds : List (Directive V)) (hwf : ∀ x ∈ ds, wfDirective env km d x = true)
    (hP : ∀ x ∈ ds, ivsSat P x.args) :
    buildDirectives env km (arr (ds.map (directiveJson printV (Options.full d)))) = .ok ds := by
  have hm : mapMOut (buildDirective env km) (ds.map (directiveJson printV (Options.full d))) = .ok ds :=
    mapMOut_map_id _ _ ds
      (fun x hx => buildDirective_directiveJson_on env km printV P hpp d hlim x (hwf x hx) (hP x hx))
  cases ds with
  | nil => simp [buildDirectives, Json.truthy]
  | cons x xs => simp [buildDirectives, Json.truthy, items] at hm ⊢; simpa [items] using hm

theorem finishEntry_ok_on (hpp : ∀ v, P v → env.parseV (printV v) = .ok v) (types : List (TypeDef V)) (d : Nat)
    (hlim : d < env.limit) (t : TypeDef V) (hwf : wfType env km d t = true) (hP : typeSat P t) :
    finishEntry env km ⟨t.name, t.kind, typeJson printV types (Options.full d) t⟩ = .ok t := by
  unfold finishEntry
  cases hf : env.reserved.find? (fun r => r.name = t.name) with
  | none =>
    simp only [hf]
    exact buildTypeDef_typeJson_on env km printV P hpp types d hlim t hf hwf hP
  | some r =>
    unfold wfType at hwf
    simp only [hf] at hwf ⊢
    simp at hwf
    rw [hwf.1]

/-- `client_roundtrip` with the print/parse law restricted to the default values of the schema. -/
theorem client_roundtrip_on (hpp : ∀ v, P v → env.parseV (printV v) = .ok v) (d : Nat) (s : Schema V)
    (hwf : wfSchema env d s = true) (hP : DefaultsSat P s) :
    buildClient env (introspect printV s (Options.full d)) = .ok s := by
  simp [wfSchema] at hwf
  obtain ⟨⟨⟨⟨⟨⟨hlim, hnd⟩, htypes⟩, hdirs⟩, hq⟩, hm⟩, hsub⟩ := hwf
  have hpos : 0 < env.limit := by omega
  let mk : TypeDef V → Entry := fun t => ⟨t.name, t.kind, typeJson printV s.types (Options.full d) t⟩
  have he : mapMOut (eagerEntry env) (s.types.map (typeJson printV s.types (Options.full d)))
      = .ok (s.types.map mk) :=
    mapMOut_map_ok _ _ mk s.types
      (fun t ht => eagerEntry_typeJson env (kindMapOf s.types) printV s.types d t (htypes t ht))
  have hdict : dictOfList Entry.name (s.types.map mk) = s.types.map mk :=
    dictOfList_nodup _ _ (by simpa [List.map_map, Function.comp_def, mk] using hnd)
  have hkm : (s.types.map mk).map (fun e => (e.name, entryKind env e)) = kindMapOf s.types := by
    simp only [List.map_map, kindMapOf]
    apply List.map_congr_left
    intro t ht
    simp [mk, entryKind_of_wf env (kindMapOf s.types) s.types d t _ (htypes t ht)]
  have hfin : mapMOut (finishEntry env (kindMapOf s.types)) (s.types.map mk) = .ok s.types :=
    mapMOut_map_id _ _ s.types
      (fun t ht => finishEntry_ok_on env (kindMapOf s.types) printV P hpp s.types d hlim t (htypes t ht) (hP.1 t ht))
  have hds := buildDirectives_ok_on env (kindMapOf s.types) printV P hpp d hlim s.directives hdirs hP.2
  have hrq := buildRoot_rootJson env (kindMapOf s.types) s.query hpos hq
  have hrm := buildRoot_rootJson env (kindMapOf s.types) s.mutation hpos hm
  have hrs := buildRoot_rootJson env (kindMapOf s.types) s.subscription hpos hsub
  simp [introspect, schemaJson_full, buildClient, Json.get?, List.lookup, index, dget, items,
    he, hdict, hkm, hfin, hds, hrq, hrm, hrs]

end

end Gql.Types
