import Gql.Proofs.NumberLex
/-!
C08, converse direction (`parse_wf`), lexer inversion for INT / FLOAT tokens: every candidate of the
number grammar (`numberCandidates`, which `read_number` is proved to follow: `readNumber_agree`) is
an `IsNum` text — sign, integer part, optional fraction, optional exponent.
-/
namespace Gql.Text
open Gql Gql.Spec.Lex

theorem digitsLen_take_all (s : List Nat) : (s.take (digitsLen s)).all isDigit = true := by
  induction s with
  | nil => simp [digitsLen]
  | cons c r ih =>
    by_cases hc : Digit c
    · simp only [digitsLen, if_pos hc, List.take_succ_cons, List.all_cons, ih, Bool.and_true]
      exact (isDigit_iff c).2 hc
    · simp [digitsLen, if_neg hc]

theorem digitsLen_le (s : List Nat) : digitsLen s ≤ s.length := by
  induction s with
  | nil => simp [digitsLen]
  | cons c r ih =>
    by_cases hc : Digit c
    · simp only [digitsLen, if_pos hc, List.length_cons]; omega
    · simp [digitsLen, if_neg hc]

theorem digits1?_digitsOK {s : List Nat} {n : Nat} (h : digits1? s = some n) :
    digitsOK (s.take n) = true := by
  unfold digits1? at h
  split at h
  · cases h
  · rename_i h0
    cases h
    have hle := digitsLen_le s
    have hne : s.take (digitsLen s) ≠ [] := by
      intro he
      have := congrArg List.length he
      simp only [List.length_take, List.length_nil] at this
      omega
    simp only [digitsOK, digitsLen_take_all, Bool.and_true, Bool.not_eq_true', List.isEmpty_eq_false_iff]
    exact hne

theorem unsignedIntegerPart?_ok {s : List Nat} {i : Nat} (h : unsignedIntegerPart? s = some i) :
    intPartOK (s.take i) = true := by
  cases s with
  | nil => simp [unsignedIntegerPart?] at h
  | cons c r =>
    simp only [unsignedIntegerPart?] at h
    split at h
    · rename_i h48
      cases h
      subst h48
      simp [intPartOK]
    · rename_i h48
      split at h
      · rename_i hnz
        cases h
        rw [Nat.add_comm, List.take_succ_cons]
        have hall := digitsLen_take_all r
        unfold NonZeroDigit at hnz
        cases hr : r.take (digitsLen r) with
        | nil => simp [intPartOK, h48, hnz.1, hnz.2]
        | cons a b =>
          rw [hr] at hall
          simp only [intPartOK, hall, Bool.and_true, Bool.and_eq_true, decide_eq_true_eq]
          exact hnz
      · cases h

/-- `IntegerPart`: an optional `-` and an unsigned integer part. -/
theorem integerPart?_ok {s : List Nat} {i : Nat} (h : integerPart? s = some i) :
    ∃ sign ip, s.take i = sign ++ ip ∧ (sign = [] ∨ sign = [45]) ∧ intPartOK ip = true := by
  cases s with
  | nil => simp [integerPart?] at h
  | cons c r =>
    simp only [integerPart?] at h
    split at h
    · rename_i h45
      cases hu : unsignedIntegerPart? r with
      | none => rw [hu] at h; cases h
      | some u =>
        rw [hu] at h
        simp only [Option.map_some, Option.some.injEq] at h
        subst h; subst h45
        exact ⟨[45], r.take u, by simp [List.take_succ_cons], Or.inr rfl, unsignedIntegerPart?_ok hu⟩
    · exact ⟨[], _, rfl, Or.inl rfl, unsignedIntegerPart?_ok h⟩

theorem fractionalPart?_ok {s : List Nat} {f : Nat} (h : fractionalPart? s = some f) :
    ∃ ds, s.take f = 46 :: ds ∧ digitsOK ds = true := by
  cases s with
  | nil => simp [fractionalPart?] at h
  | cons c r =>
    simp only [fractionalPart?] at h
    split at h
    · rename_i h46
      cases hd : digits1? r with
      | none => rw [hd] at h; cases h
      | some d =>
        rw [hd] at h
        simp only [Option.map_some, Option.some.injEq] at h
        subst h; subst h46
        exact ⟨r.take d, by simp [List.take_succ_cons], digits1?_digitsOK hd⟩
    · cases h

theorem exponentPart?_ok {s : List Nat} {e : Nat} (h : exponentPart? s = some e) :
    ∃ e0 sg ds, s.take e = e0 :: (sg ++ ds) ∧ (e0 = 69 ∨ e0 = 101) ∧
      (sg = [] ∨ sg = [43] ∨ sg = [45]) ∧ digitsOK ds = true := by
  cases s with
  | nil => simp [exponentPart?] at h
  | cons e0 r =>
    simp only [exponentPart?] at h
    split at h
    · rename_i he0
      cases r with
      | nil => simp at h
      | cons c r' =>
        simp only at h
        split at h
        · rename_i hsg
          cases hd : digits1? r' with
          | none => rw [hd] at h; cases h
          | some d =>
            rw [hd] at h
            simp only [Option.map_some, Option.some.injEq] at h
            subst h
            refine ⟨e0, [c], r'.take d, by simp [List.take_succ_cons], he0, ?_, digits1?_digitsOK hd⟩
            rcases hsg with rfl | rfl
            · exact Or.inr (Or.inl rfl)
            · exact Or.inr (Or.inr rfl)
        · cases hd : digits1? (c :: r') with
          | none => rw [hd] at h; cases h
          | some d =>
            rw [hd] at h
            simp only [Option.map_some, Option.some.injEq] at h
            subst h
            exact ⟨e0, [], (c :: r').take d, by simp [List.take_succ_cons], he0, Or.inl rfl,
              digits1?_digitsOK hd⟩
    · cases h

/-- The candidates after the first `n` code points: the production ends here, or an exponent part
follows. -/
theorem mem_expCandidates_inv {s : List Nat} {n : Nat} {isFloat fl : Bool} {m : Nat}
    (h : (fl, m) ∈ expCandidates s n isFloat) :
    (fl = isFloat ∧ m = n) ∨ ∃ e, exponentPart? s = some e ∧ fl = true ∧ m = n + e := by
  unfold expCandidates at h
  rw [List.mem_append] at h
  rcases h with h | h
  · split at h
    · simp only [List.mem_singleton, Prod.mk.injEq] at h
      exact Or.inl h
    · simp at h
  · cases he : exponentPart? s with
    | none => rw [he] at h; simp at h
    | some e =>
      rw [he] at h
      simp only at h
      split at h
      · simp only [List.mem_singleton, Prod.mk.injEq] at h
        exact Or.inr ⟨e, rfl, h.1, h.2⟩
      · simp at h

/-- **Inversion of the number grammar**: every candidate is an `IntValue` / `FloatValue` text. -/
theorem numberCandidates_isNum {s : List Nat} {fl : Bool} {n : Nat} (h : (fl, n) ∈ numberCandidates s) :
    IsNum fl (s.take n) := by
  unfold numberCandidates at h
  cases hi : integerPart? s with
  | none => rw [hi] at h; simp at h
  | some i =>
    rw [hi] at h
    simp only at h
    obtain ⟨sign, ip, htake, hsign, hip⟩ := integerPart?_ok hi
    rw [List.mem_append] at h
    rcases h with h | h
    · rcases mem_expCandidates_inv h with ⟨rfl, rfl⟩ | ⟨e, he, rfl, rfl⟩
      · exact ⟨⟨sign, ip, [], []⟩, ⟨hsign, hip, Or.inl rfl, Or.inl rfl⟩, by simp [NumParts.text, htake],
          by simp [NumParts.isFloat]⟩
      · obtain ⟨e0, sg, ds, hex, he0, hsg, hds⟩ := exponentPart?_ok he
        refine ⟨⟨sign, ip, [], e0 :: (sg ++ ds)⟩,
          ⟨hsign, hip, Or.inl rfl, Or.inr ⟨e0, sg, ds, rfl, he0, hsg, hds⟩⟩, ?_, by simp [NumParts.isFloat]⟩
        simp only [NumParts.text, List.nil_append]
        rw [List.take_add, htake, hex, List.append_assoc]
    · cases hf : fractionalPart? (s.drop i) with
      | none => rw [hf] at h; simp at h
      | some f =>
        rw [hf] at h
        simp only at h
        obtain ⟨fds, hfr, hfds⟩ := fractionalPart?_ok hf
        rcases mem_expCandidates_inv h with ⟨rfl, rfl⟩ | ⟨e, he, rfl, rfl⟩
        · refine ⟨⟨sign, ip, 46 :: fds, []⟩, ⟨hsign, hip, Or.inr ⟨fds, rfl, hfds⟩, Or.inl rfl⟩, ?_,
            by simp [NumParts.isFloat]⟩
          simp only [NumParts.text, List.append_nil]
          rw [List.take_add, htake, hfr, List.append_assoc]
        · obtain ⟨e0, sg, ds, hex, he0, hsg, hds⟩ := exponentPart?_ok he
          refine ⟨⟨sign, ip, 46 :: fds, e0 :: (sg ++ ds)⟩,
            ⟨hsign, hip, Or.inr ⟨fds, rfl, hfds⟩, Or.inr ⟨e0, sg, ds, rfl, he0, hsg, hds⟩⟩, ?_,
            by simp [NumParts.isFloat]⟩
          simp only [NumParts.text]
          rw [List.take_add, List.take_add, htake, hfr, hex]
          simp [List.append_assoc]

/-- **INT / FLOAT tokens**: the value of the token `read_number` returns is a number text of the
token's kind. -/
theorem readNumber_isNum (body : List Nat) (st : LexState) (start : Nat) (h : start < body.length) :
    Post (fun t => (t.kind = .int → ∃ s, t.value = some s ∧ IsNum false s) ∧
        (t.kind = .float → ∃ s, t.value = some s ∧ IsNum true s) ∧ (t.kind = .int ∨ t.kind = .float))
      (readNumber body st start body[start]) := by
  have hag := readNumber_agree body st start h
  cases hr : readNumber body st start body[start] with
  | ok t =>
    rw [hr] at hag
    obtain ⟨fl, n, hc, _, ht⟩ := hag
    have hmem : (fl, n) ∈ numberCandidates (body.drop start) := by rw [hc]; simp
    have hnum := numberCandidates_isNum hmem
    have hsl : slice body start (start + n) = (body.drop start).take n := by
      simp [slice]
    show (_ ∧ _ ∧ _)
    subst ht
    cases fl
    · refine ⟨fun _ => ⟨_, rfl, by rw [hsl]; exact hnum⟩, fun hk => by simp [mkToken] at hk, Or.inl rfl⟩
    · refine ⟨fun hk => by simp [mkToken] at hk, fun _ => ⟨_, rfl, by rw [hsl]; exact hnum⟩, Or.inr rfl⟩
  | err e => trivial
  | crash c => rw [hr] at hag; exact hag.elim

end Gql.Text
