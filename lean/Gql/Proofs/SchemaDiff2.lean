import Gql.Proofs.SchemaDiff1
namespace Gql.Types
open Gql Gql.Generated

/-- Arguments rearranged (same arguments, any order). -/
abbrev ArgsSim (old new : List Arg) : Prop := Rearranged Arg.name id old new

theorem flatMap_eq_nil_of {α β : Type} (l : List α) (f : α → List β) (h : ∀ x ∈ l, f x = []) :
    l.flatMap f = [] := by
  induction l with
  | nil => rfl
  | cons x xs ih =>
    rw [List.flatMap_cons, h x (by simp), ih (fun y hy => h y (by simp [hy]))]
    rfl

theorem fieldArgChanges_sim (t f : Str) (old new : List Arg) (h : ArgsSim old new) :
    fieldArgChanges t f old new = [] := by
  unfold fieldArgChanges
  rw [h.removed, h.added, h.persisted]
  simp only [List.map_nil, List.nil_append, List.append_nil]
  apply flatMap_eq_nil_of
  intro p hp
  obtain ⟨a, _, rfl⟩ := List.mem_map.mp hp
  exact argPairChanges_self _ _ a

structure FieldSim (f f' : Field) : Prop where
  type_eq : f'.type = f.type
  desc_eq : f'.desc = f.desc
  args : ArgsSim f.args f'.args

theorem fieldPairChanges_sim (t : Str) (f f' : Field) (h : FieldSim f f') : fieldPairChanges t f f' = [] := by
  unfold fieldPairChanges
  rw [fieldArgChanges_sim t f.name f.args f'.args h.args, h.type_eq, h.desc_eq]
  simp [safeOutputChange_refl]

theorem fieldChanges_sim (t : Str) (g : Field → Field) (old new : List Field)
    (h : Rearranged Field.name g old new) (hs : ∀ f ∈ old, FieldSim f (g f)) : fieldChanges t old new = [] := by
  unfold fieldChanges
  rw [h.removed, h.added, h.persisted]
  simp only [List.map_nil, List.nil_append]
  apply flatMap_eq_nil_of
  intro p hp
  obtain ⟨f, hf, rfl⟩ := List.mem_map.mp hp
  exact fieldPairChanges_sim t f (g f) (hs f hf)

theorem interfaceChanges_perm (t : Str) (old new : List Str) (h : new.Perm old) : interfaceChanges t old new = [] := by
  simp [interfaceChanges, removedBy_id_perm old new h, addedBy_id_perm old new h]

theorem unionChanges_perm (t : Str) (old new : List Str) (h : new.Perm old) : unionChanges t old new = [] := by
  simp [unionChanges, removedBy_id_perm old new h, addedBy_id_perm old new h]

theorem enumChanges_sim (t : Str) (old new : List EnumVal) (h : Rearranged EnumVal.name id old new) :
    enumChanges t old new = [] := by
  unfold enumChanges
  rw [h.removed, h.added, h.persisted]
  simp only [List.map_nil, List.nil_append]
  apply flatMap_eq_nil_of
  intro p hp
  obtain ⟨v, _, rfl⟩ := List.mem_map.mp hp
  simp

theorem inputChanges_sim (t : Str) (old new : List Arg) (h : ArgsSim old new) : inputChanges t old new = [] := by
  unfold inputChanges
  rw [h.removed, h.added, h.persisted]
  simp only [List.map_nil, List.nil_append]
  apply flatMap_eq_nil_of
  intro p hp
  obtain ⟨a, _, rfl⟩ := List.mem_map.mp hp
  simp [safeInputChange_refl]

/-- Two type definitions with the same content up to the order of their parts. -/
inductive TypeSim : TypeDef → TypeDef → Prop where
  | scalar (n d u) : TypeSim (.scalar n d u) (.scalar n d u)
  | object (n d) (is is' : List Str) (fs fs' : List Field) (g : Field → Field) :
      is'.Perm is → Rearranged Field.name g fs fs' → (∀ f ∈ fs, FieldSim f (g f)) →
      TypeSim (.object n d is fs) (.object n d is' fs')
  | interface (n d) (is is' : List Str) (fs fs' : List Field) (g : Field → Field) :
      is'.Perm is → Rearranged Field.name g fs fs' → (∀ f ∈ fs, FieldSim f (g f)) →
      TypeSim (.interface n d is fs) (.interface n d is' fs')
  | union (n d) (ms ms' : List Str) : ms'.Perm ms → TypeSim (.union n d ms) (.union n d ms')
  | enum (n d) (vs vs' : List EnumVal) : Rearranged EnumVal.name id vs vs' → TypeSim (.enum n d vs) (.enum n d vs')
  | input (n d o) (fs fs' : List Arg) : ArgsSim fs fs' → TypeSim (.input n d o fs) (.input n d o fs')

theorem typePairChanges_sim (t t' : TypeDef) (h : TypeSim t t') : typePairChanges t t' = [] := by
  cases h with
  | scalar n d u => simp [typePairChanges, TypeDef.desc, TypeDef.kind]
  | object n d is is' fs fs' g hp hr hs =>
    simp [typePairChanges, TypeDef.desc, fieldChanges_sim n g fs fs' hr hs, interfaceChanges_perm n is is' hp]
  | interface n d is is' fs fs' g hp hr hs =>
    simp [typePairChanges, TypeDef.desc, fieldChanges_sim n g fs fs' hr hs, interfaceChanges_perm n is is' hp]
  | union n d ms ms' hp => simp [typePairChanges, TypeDef.desc, unionChanges_perm n ms ms' hp]
  | enum n d vs vs' hr => simp [typePairChanges, TypeDef.desc, enumChanges_sim n vs vs' hr]
  | input n d o fs fs' hr => simp [typePairChanges, TypeDef.desc, inputChanges_sim n fs fs' hr]

structure DirSim (d d' : Directive) : Prop where
  name_eq : d'.name = d.name
  desc_eq : d'.desc = d.desc
  rep_eq : d'.repeatable = d.repeatable
  locs : d'.locations.Perm d.locations
  args : ArgsSim d.args d'.args

theorem filter_not_contains_perm (a b : List Str) (h : b.Perm a) : a.filter (fun l => !b.contains l) = [] := by
  rw [List.filter_eq_nil_iff]
  intro x hx
  have : x ∈ b := h.mem_iff.mpr hx
  simp [this]

theorem directivePairChanges_sim (d d' : Directive) (h : DirSim d d') : directivePairChanges d d' = [] := by
  unfold directivePairChanges
  rw [h.args.removed, h.args.added, h.args.persisted, h.desc_eq, h.rep_eq,
    filter_not_contains_perm d.locations d'.locations h.locs,
    filter_not_contains_perm d'.locations d.locations h.locs.symm]
  simp only [List.map_nil, List.nil_append, List.append_nil]
  have : (d.args.map (fun o => (o, id o))).flatMap
      (fun p => argPairChanges [d.name, p.1.name] [d.name, d.name] p.1 p.2) = [] := by
    apply flatMap_eq_nil_of
    intro p hp
    obtain ⟨a, _, rfl⟩ := List.mem_map.mp hp
    exact argPairChanges_self _ _ a
  rw [this]
  cases d.repeatable <;> simp

/-- No change is reported between two schemas whose type maps and directive lists are
rearrangements of each other with similar entries. -/
theorem changes_nil_of_sim (a b : Schema) (gT : TypeDef → TypeDef) (gD : Directive → Directive)
    (hT : Rearranged TypeDef.name gT (diffTypes a) (diffTypes b))
    (hTs : ∀ t ∈ diffTypes a, TypeSim t (gT t))
    (hD : Rearranged Directive.name gD a.directives b.directives)
    (hDs : ∀ d ∈ a.directives, DirSim d (gD d)) : changes a b = [] := by
  unfold changes typeChanges directiveChanges
  rw [hT.removed, hT.added, hT.persisted, hD.removed, hD.added, hD.persisted]
  simp only [List.map_nil, List.nil_append, List.append_eq_nil_iff]
  constructor
  · apply flatMap_eq_nil_of
    intro p hp
    obtain ⟨t, ht, rfl⟩ := List.mem_map.mp hp
    exact typePairChanges_sim t (gT t) (hTs t ht)
  · apply flatMap_eq_nil_of
    intro p hp
    obtain ⟨d, hd, rfl⟩ := List.mem_map.mp hp
    exact directivePairChanges_sim d (gD d) (hDs d hd)

end Gql.Types
