import Gql.Proofs.Visitor
/-!
The documented traversal of a visitor that never edits terminates: the nesting depth is bounded
by the size of the tree.
-/
namespace Gql.Syntax
open Gql Gql.Syntax.Spec

variable {σ : Type}

theorem lookup_size (fs : List (String × Child)) (k : String) (c : Child)
    (h : fs.lookup k = some c) : c.size ≤ sizeFields fs := by
  induction fs with
  | nil => simp at h
  | cons hd tl ih =>
    obtain ⟨k', c'⟩ := hd
    simp only [List.lookup] at h
    simp only [sizeFields]
    split at h
    · simp at h; subst h; omega
    · have := ih h; omega

theorem mem_sizeNodes (cs : List Node) (c : Node) (h : c ∈ cs) : c.size ≤ sizeNodes cs := by
  induction cs with
  | nil => simp at h
  | cons hd tl ih =>
    simp only [sizeNodes]
    rcases List.mem_cons.mp h with h | h
    · subst h; omega
    · have := ih h; omega

theorem attr_one_size (m c : Node) (k : String) (h : m.attr k = .one c) : c.size < m.size := by
  obtain ⟨kd, sr, pl, fs⟩ := m
  simp only [Node.attr, Node.fields_mk] at h
  cases hl : fs.lookup k with
  | none => simp [hl] at h
  | some ch =>
    simp [hl] at h
    subst h
    have := lookup_size fs k _ hl
    simp only [Child.size] at this
    simp only [Node.size]
    omega

theorem attr_many_size (m : Node) (cs : List Node) (k : String) (h : m.attr k = .many cs) :
    ∀ c ∈ cs, c.size < m.size := by
  intro c hc
  obtain ⟨kd, sr, pl, fs⟩ := m
  simp only [Node.attr, Node.fields_mk] at h
  cases hl : fs.lookup k with
  | none => simp [hl] at h
  | some ch =>
    simp [hl] at h
    subst h
    have h1 := lookup_size fs k _ hl
    have h2 := mem_sizeNodes cs c hc
    simp only [Child.size] at h1
    simp only [Node.size]
    omega


abbrev Rec (σ : Type) := W σ → Node → Key → Option Val → List Val → List Key → Option (Res σ Slot)

def TotalAt (rec : Rec σ) (c : Node) : Prop :=
  ∀ w key parent anc path, ∃ r, rec w c key parent anc path = some r

theorem items_total (rec : Rec σ) (parent : Option Val) (anc : List Val) (path : List Key) :
    ∀ (suf : List Node) (w : W σ) (i : Nat), (∀ c ∈ suf, TotalAt rec c) →
      ∃ res, specItems rec parent anc path w suf i = some res := by
  intro suf
  induction suf with
  | nil => intro w i _; exact ⟨_, rfl⟩
  | cons c suf ih =>
    intro w i h
    simp only [specItems]
    obtain ⟨r, hr⟩ := h c (List.mem_cons_self) w (.idx i) parent anc (path ++ [.idx i])
    rw [hr]
    cases r with
    | brk w1 => exact ⟨_, rfl⟩
    | done w1 slot =>
      obtain ⟨r2, hr2⟩ := ih w1 (i + 1) (fun c hc => h c (List.mem_cons_of_mem _ hc))
      simp only []
      rw [hr2]
      cases r2 with
      | brk w2 => exact ⟨_, rfl⟩
      | done w2 p => exact ⟨_, rfl⟩

theorem keys_total (rec : Rec σ) (m : Node) (anc : List Val) (path : List Key)
    (h1 : ∀ k c, m.attr k = .one c → TotalAt rec c)
    (h2 : ∀ k cs, m.attr k = .many cs → ∀ c ∈ cs, TotalAt rec c) :
    ∀ (ks : List String) (w : W σ), ∃ res, specKeys rec m anc path w ks = some res := by
  intro ks
  induction ks with
  | nil => intro w; exact ⟨_, rfl⟩
  | cons k ks ih =>
    intro w
    simp only [specKeys]
    cases hattr : m.attr k with
    | absent =>
      simp only []
      obtain ⟨r2, hr2⟩ := ih { w with iters := w.iters + 1 }
      rw [hr2]
      cases r2 <;> exact ⟨_, rfl⟩
    | one c =>
      obtain ⟨r, hr⟩ := h1 k c hattr w (.name k) (some (.node m)) anc (path ++ [.name k])
      simp only []
      rw [hr]
      cases r with
      | brk w1 => exact ⟨_, rfl⟩
      | done w1 slot =>
        cases slot <;>
          (simp only []
           obtain ⟨r2, hr2⟩ := ih w1
           rw [hr2]
           cases r2 <;> exact ⟨_, rfl⟩)
    | many cs =>
      obtain ⟨r, hr⟩ := items_total rec (some (.arr cs)) (anc ++ [.node m]) (path ++ [.name k]) cs
        { w with iters := w.iters + 1 } 0 (h2 k cs hattr)
      simp only []
      rw [hr]
      cases r with
      | brk w1 => exact ⟨_, rfl⟩
      | done w1 p =>
        obtain ⟨cs', ch⟩ := p
        simp only []
        obtain ⟨r2, hr2⟩ := ih { w1 with iters := w1.iters + 1 }
        rw [hr2]
        cases r2 <;> exact ⟨_, rfl⟩

theorem node_total {vk : String → List String} {v : Visitor σ} (hv : NonEditing v) :
    ∀ (d : Nat) (n : Node), n.size < d → TotalAt (specNode vk v d) n := by
  intro d
  induction d with
  | zero => intro n h; omega
  | succ d ih =>
    intro n hn w key parent anc path
    simp only [specNode, specBody]
    have hne := hv w.s ⟨.enter, n, key, parent, path, anc⟩
    rcases hcall : v w.s ⟨.enter, n, key, parent, path, anc⟩ with ⟨a, s1⟩
    rw [hcall] at hne
    simp only [] at hne ⊢
    cases a with
    | remove => simp [Action.isEdit] at hne
    | replace r => simp [Action.isEdit] at hne
    | brk => exact ⟨_, rfl⟩
    | skip => exact ⟨_, rfl⟩
    | idle =>
      simp only []
      obtain ⟨rk, hrk⟩ := keys_total (specNode vk v d) n (anc ++ parent.toList) path
        (fun k c h => ih c (by have := attr_one_size n c k h; omega))
        (fun k cs h c hc => ih c (by have := attr_many_size n cs k h c hc; omega))
        (vk n.kind) { s := s1, iters := w.iters + 1, edited := w.edited }
      rw [hrk]
      cases rk with
      | brk w2 => exact ⟨_, rfl⟩
      | done w2 es =>
        simp only []
        generalize (if es.isEmpty = true then n else Node.mk n.kind 0 n.payload (withFields n.fields es)) = m'
        rcases hcall2 : v w2.s ⟨.leave, m', key, parent, path, anc⟩ with ⟨a2, s3⟩
        cases a2 <;> exact ⟨_, rfl⟩

/-- the documented traversal of a non-editing visitor is defined for every tree -/
theorem spec_terminates {vk : String → List String} {v : Visitor σ} (hv : NonEditing v)
    (root : Node) (s : σ) (d : Nat) (hd : root.size < d) : ∃ out, specVisit vk v d root s = some out := by
  obtain ⟨r, hr⟩ := node_total (vk := vk) hv d root hd ⟨s, 0, false⟩ .none none [] []
  unfold specVisit
  rw [hr]
  cases r with
  | brk w => exact ⟨_, rfl⟩
  | done w sl => cases sl <;> exact ⟨_, rfl⟩

end Gql.Syntax
