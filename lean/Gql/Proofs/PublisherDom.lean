import Gql.Proofs.Publisher
/-!
The domain of the publisher's id table, tracked along a stream of work-queue events, and what
follows when every announced node is absent from the table at the moment it is announced:
announced ids are handed out in strictly increasing order.
-/
namespace Gql.Async
open Gql.Spec.Protocol

def nodesOf (gs ss : List Nat) : List Node := gs.map Node.group ++ ss.map Node.stream

/-- The nodes an event announces. -/
def evNew : WQEvent → List Node
  | .groupSuccess _ ng ns => nodesOf ng ns
  | .streamValues _ _ ng ns => nodesOf ng ns
  | _ => []

/-- (A superset of) the table's domain after the `_ensure_id` / `del` part of an event. -/
def domMid (D : List Node) : WQEvent → List Node
  | .groupValues g _ => Node.group g :: D
  | .groupSuccess g _ _ => D.filter (fun n => decide (n ≠ Node.group g))
  | .groupFailure g => D.filter (fun n => decide (n ≠ Node.group g))
  | .streamValues s _ _ _ => Node.stream s :: D
  | .streamSuccess s => D.filter (fun n => decide (n ≠ Node.stream s))
  | .streamFailure s => D.filter (fun n => decide (n ≠ Node.stream s))
  | .termination => D

def domStep (D : List Node) (e : WQEvent) : List Node := domMid D e ++ evNew e

def domSteps (D : List Node) (evs : List WQEvent) : List Node := evs.foldl domStep D

/-- The announcements of `e` are fresh with respect to the tracked domain `D`. -/
def annOk (D : List Node) (e : WQEvent) : Prop :=
  (evNew e).Nodup ∧ ∀ n ∈ evNew e, n ∉ domMid D e

/-- Every event of the stream announces fresh nodes. -/
def AnnFresh : List Node → List WQEvent → Prop
  | _, [] => True
  | D, e :: r => annOk D e ∧ AnnFresh (domStep D e) r

theorem annFresh_append (D : List Node) (a b : List WQEvent) :
    AnnFresh D (a ++ b) ↔ AnnFresh D a ∧ AnnFresh (domSteps D a) b := by
  induction a generalizing D with
  | nil => simp [AnnFresh, domSteps]
  | cons e a ih => simp [AnnFresh, domSteps, ih, and_assoc]

theorem domSteps_append (D : List Node) (a b : List WQEvent) :
    domSteps D (a ++ b) = domSteps (domSteps D a) b := by simp [domSteps]

/-- The table's domain is inside `D`. -/
def DomSub (p : Pub) (D : List Node) : Prop := ∀ n i, alookup p.ids n = some i → n ∈ D

theorem ensureId_dom (p : Pub) (n m : Node) (i : Nat)
    (h : alookup (ensureId p n).1.ids m = some i) : alookup p.ids m = some i ∨ m = n := by
  unfold ensureId at h
  cases hl : alookup p.ids n with
  | some j => simp [hl] at h; exact Or.inl h
  | none =>
    simp only [hl] at h
    by_cases e : n = m
    · exact Or.inr e.symm
    · rw [alookup_aset_ne _ _ _ _ e] at h; exact Or.inl h

theorem dropId_dom (p : Pub) (n m : Node) (i : Nat)
    (h : alookup (dropId p n).ids m = some i) : alookup p.ids m = some i ∧ m ≠ n := by
  unfold dropId at h
  by_cases e : n = m
  · subst e; rw [alookup_aerase_self] at h; cases h
  · rw [alookup_aerase_ne _ _ _ e] at h; exact ⟨h, fun h' => e h'.symm⟩

theorem toPending_fold_dom (π : PubStatic) (ns : List Node) (p : Pub) (acc : List Pending)
    (m : Node) (i : Nat)
    (h : alookup (ns.foldl (fun (acc : Pub × List Pending) n =>
      let (p, i) := ensureId acc.1 n
      (p, acc.2 ++ [{ id := i, path := π.path n, label := π.label n }])) (p, acc)).1.ids m = some i) :
    alookup p.ids m = some i ∨ m ∈ ns := by
  induction ns generalizing p acc with
  | nil => exact Or.inl h
  | cons n ns ih =>
    simp only [List.foldl_cons] at h
    rcases ih _ _ h with h1 | h1
    · rcases ensureId_dom p n m i h1 with h2 | h2
      · exact Or.inl h2
      · exact Or.inr (by simp [h2])
    · exact Or.inr (List.mem_cons_of_mem _ h1)

theorem toPending_dom (π : PubStatic) (p : Pub) (gs ss : List Nat) (m : Node) (i : Nat)
    (h : alookup (toPendingResults π p gs ss).1.ids m = some i) :
    alookup p.ids m = some i ∨ m ∈ nodesOf gs ss :=
  toPending_fold_dom π _ p [] m i h

theorem toPending_nil (π : PubStatic) (p : Pub) : toPendingResults π p [] [] = (p, []) := rfl

/-- `_handle_work_queue_event` keeps the table's domain inside the tracked one. -/
theorem handleEvent_dom (π : PubStatic) (p : Pub) (c : PCtx) (e : WQEvent) (D : List Node)
    (h : DomSub p D) : DomSub (handleEvent π p c e).1 (domStep D e) := by
  intro m i hm
  have drop : ∀ (n : Node), alookup (dropId (ensureId p n).1 n).ids m = some i →
      m ∈ D.filter (fun x => decide (x ≠ n)) := by
    intro n hm
    obtain ⟨h1, h2⟩ := dropId_dom _ n m i hm
    rcases ensureId_dom p n m i h1 with h3 | h3
    · simp [h _ _ h3, h2]
    · exact absurd h3 h2
  have ens : ∀ (n : Node), alookup (ensureId p n).1.ids m = some i → m ∈ n :: D := by
    intro n hm
    rcases ensureId_dom p n m i hm with h3 | h3
    · exact List.mem_cons_of_mem _ (h _ _ h3)
    · simp [h3]
  cases e with
  | groupValues g vals =>
    simp only [handleEvent] at hm
    simpa [domStep, domMid, evNew] using ens _ hm
  | groupSuccess g ng ns =>
    simp only [handleEvent] at hm
    split at hm
    · have := drop _ hm
      simp only [domStep, domMid, evNew, List.mem_append]; exact Or.inl this
    · rcases toPending_dom π _ ng ns m i hm with h1 | h1
      · have := drop _ h1
        simp only [domStep, domMid, evNew, List.mem_append]; exact Or.inl this
      · simp only [domStep, domMid, evNew, List.mem_append]; exact Or.inr h1
  | groupFailure g =>
    simp only [handleEvent] at hm
    simpa [domStep, domMid, evNew] using drop _ hm
  | streamValues s vals ng ns =>
    simp only [handleEvent] at hm
    split at hm
    · have := ens _ hm
      simp only [domStep, domMid, evNew, List.mem_append]; exact Or.inl this
    · rcases toPending_dom π _ ng ns m i hm with h1 | h1
      · have := ens _ h1
        simp only [domStep, domMid, evNew, List.mem_append]; exact Or.inl this
      · simp only [domStep, domMid, evNew, List.mem_append]; exact Or.inr h1
  | streamSuccess s =>
    simp only [handleEvent] at hm
    simpa [domStep, domMid, evNew] using drop _ hm
  | streamFailure s =>
    simp only [handleEvent] at hm
    simpa [domStep, domMid, evNew] using drop _ hm
  | termination =>
    simp only [handleEvent] at hm
    simpa [domStep, domMid, evNew] using h _ _ hm

theorem handleBatch_dom (π : PubStatic) (evs : List WQEvent) (p : Pub) (D : List Node)
    (h : DomSub p D) : DomSub (handleBatch π p evs).1 (domSteps D evs) := by
  unfold handleBatch
  simp only
  generalize ({} : PCtx) = c
  induction evs generalizing p c D with
  | nil => exact h
  | cons e evs ih =>
    simp only [List.foldl_cons, domSteps]
    exact ih _ _ (handleEvent_dom π p c e D h) _

theorem publish_dom (π : PubStatic) (bs : List (List WQEvent)) (p : Pub) (D : List Node)
    (h : DomSub p D) : DomSub (publish π p bs).1 (domSteps D bs.flatten) := by
  induction bs generalizing p D with
  | nil => exact h
  | cons b bs ih =>
    simp only [publish, List.flatten_cons, domSteps_append]
    exact ih _ _ (handleBatch_dom π b p D h)

end Gql.Async
