import Gql.Proofs.LexerSuffix
/-!
# `read_number` against the number productions of the lexical grammar
-/
open Gql Gql.Text
namespace Gql.Text
open Gql.Spec.Lex


/-! ### `read_number` in stages (continuation form) -/

def numTailExp (body : List Nat) (st : LexState) (start p : Nat) (f : Bool) : LexOut Token :=
  if charAt body p = some 69 ∨ charAt body p = some 101 then
    let p' := if charAt body (p + 1) = some 43 ∨ charAt body (p + 1) = some 45 then p + 2 else p + 1
    readDigits body p' (charAt body p') >>= fun q => numFinish body st start q true
  else numFinish body st start p f

def numTailFrac (body : List Nat) (st : LexState) (start p : Nat) : LexOut Token :=
  if charAt body p = some 46 then
    readDigits body (p + 1) (charAt body (p + 1)) >>= fun q => numTailExp body st start q true
  else numTailExp body st start p false

def numStaged (body : List Nat) (st : LexState) (start p0 : Nat) : LexOut Token :=
  if charAt body p0 = some 48 then
    if isDigitOpt (charAt body (p0 + 1)) then .err ⟨.digitAfterZero, p0 + 1⟩
    else numTailFrac body st start (p0 + 1)
  else readDigits body p0 (charAt body p0) >>= fun p1 => numTailFrac body st start p1

theorem readNumber_eq_staged (body : List Nat) (st : LexState) (start first : Nat)
    (h : charAt body start = some first) :
    readNumber body st start first =
      numStaged body st start (if first = 45 then start + 1 else start) := by
  unfold readNumber
  extract_lets pos0 ch0 fl0 jpFin fl1 jpExpD jpExp jpFrac jpInt pos1 ch1
  have hFin : ∀ r p f, jpFin r p (charAt body p) f = numFinish body st start p f := by
    intro r p f
    simp only [jpFin, numFinish]
    split
    · simp
    · first | rfl | skip
  have hExpD : ∀ r p, jpExpD r p (charAt body p) =
      (readDigits body p (charAt body p) >>= fun q => numFinish body st start q true) := by
    intro r p
    simp only [jpExpD]
    congr 1 <;> (funext q; exact hFin () q fl1)
  have hExp : ∀ r p f, jpExp r p (charAt body p) f = numTailExp body st start p f := by
    intro r p f
    simp only [jpExp, numTailExp]
    split
    · split
      · rw [hExpD ()]
      · rw [hExpD ()]
    · exact hFin () p f
  have hFrac : ∀ r p, jpFrac r p (charAt body p) = numTailFrac body st start p := by
    intro r p
    simp only [jpFrac, numTailFrac]
    split
    · congr 1 <;> (funext q; exact hExp () q fl1)
    · exact hExp () p fl0
  have hInt : ∀ r p, jpInt r p (charAt body p) = numStaged body st start p := by
    intro r p
    simp only [jpInt, numStaged]
    split
    · split
      · simp
      · exact hFrac () _
    · congr 1 <;> (funext q; exact hFrac () q)
  split
  · rename_i h45
    have : first = 45 := by simpa [ch0] using h45
    rw [if_pos this]
    exact hInt () _
  · rename_i h45
    have : ¬ first = 45 := by simpa [ch0] using h45
    rw [if_neg this]
    have e : ch0 = charAt body pos0 := by simp [ch0, pos0, h]
    rw [e]
    exact hInt () _

theorem charAt_eq_head (body : List Nat) (p : Nat) : charAt body p = (body.drop p).head? := by
  simp [charAt, List.head?_drop]

theorem digitsLen_cons (c : Nat) (r : List Nat) :
    digitsLen (c :: r) = if Digit c then digitsLen r + 1 else 0 := rfl

/-- The code point after a maximal run of digits is not a digit. -/
theorem digitsLen_stop (s : List Nat) : ∀ c, (s.drop (digitsLen s)).head? = some c → ¬ Digit c := by
  induction s with
  | nil => intro c h; simp [digitsLen] at h
  | cons a r ih =>
    intro c h
    rw [digitsLen_cons] at h
    by_cases ha : Digit a
    · rw [if_pos ha] at h; simp at h; exact ih c (by simpa using h)
    · rw [if_neg ha] at h; simp at h; subst h; exact ha

def NoDigitAt (body : List Nat) (p : Nat) : Prop := ∀ c, charAt body p = some c → ¬ Digit c

theorem isDigitOpt_iff (o : Option Nat) : isDigitOpt o = true ↔ ∃ c, o = some c ∧ Digit c := by
  cases o with
  | none => simp [isDigitOpt]
  | some c => simp [isDigitOpt, isDigit_iff]

/-- `read_digits` at `p` reads `Digit+`. -/
theorem readDigits_spec (body : List Nat) (p : Nat) :
    readDigits body p (charAt body p) =
      match digits1? (body.drop p) with
      | some n => .ok (p + n)
      | none => .err ⟨.expectedDigit, p⟩ := by
  rw [readDigits_eq, digEnd_eq]
  by_cases hp : p < body.length
  · rw [drop_cons _ _ hp]
    have hc : charAt body p = some body[p] := by simp [charAt, hp]
    unfold digits1?
    rw [digitsLen_cons, hc]
    by_cases hd : Digit body[p]
    · have : isDigitOpt (some body[p]) = true := (isDigitOpt_iff _).mpr ⟨_, rfl, hd⟩
      rw [if_pos this, if_pos hd, if_neg (by omega)]
      simp only []; congr 1; omega
    · have : ¬ isDigitOpt (some body[p]) = true := by
        intro h; obtain ⟨c, hc', hd'⟩ := (isDigitOpt_iff _).mp h
        cases hc'; exact hd hd'
      rw [if_neg this, if_neg hd, if_pos rfl]
  · have hc : charAt body p = none := by simp [charAt]; omega
    rw [hc, drop_nil body p (by omega)]
    rfl

theorem digits1?_some {s : List Nat} {n : Nat} (h : digits1? s = some n) :
    n = digitsLen s ∧ 0 < n := by
  unfold digits1? at h
  split at h
  · simp at h
  · simp at h; omega

theorem noDigitAt_after (body : List Nat) (p n : Nat) (h : digits1? (body.drop p) = some n) :
    NoDigitAt body (p + n) := by
  obtain ⟨hn, _⟩ := digits1?_some h
  intro c hc
  rw [charAt_eq_head] at hc
  have := digitsLen_stop (body.drop p) c
  rw [List.drop_drop] at this
  rw [hn] at hc
  exact this hc

/-- Agreement of a number-reading continuation with a list of candidates of the grammar:
a token exactly when there is exactly one candidate, with that candidate's kind and length. -/
def NumAgree (body : List Nat) (st : LexState) (start : Nat) (r : LexOut Token)
    (cands : List (Bool × Nat)) : Prop :=
  match r with
  | .ok t => ∃ fl n, cands = [(fl, n)] ∧ 0 < n ∧
      t = mkToken st (if fl then .float else .int) start (start + n) (some (slice body start (start + n)))
  | .err _ => cands = []
  | .crash _ => False

theorem numberLookaheadOk_iff (body : List Nat) (p : Nat) (hnd : NoDigitAt body p) :
    numberLookaheadOk (body.drop p) = true ↔
      ¬ (charAt body p = some 46 ∨ isNameStartOpt (charAt body p) = true) := by
  rw [charAt_eq_head] at *
  unfold NoDigitAt at hnd
  rw [charAt_eq_head] at hnd
  cases hs : body.drop p with
  | nil => simp [numberLookaheadOk, isNameStartOpt]
  | cons c r =>
    rw [hs] at hnd
    have := hnd c rfl
    simp [numberLookaheadOk, isNameStartOpt, isNameStart_iff, this]

theorem numFinish_agree (body : List Nat) (st : LexState) (start n : Nat) (f : Bool) (hn : 0 < n)
    (hnd : NoDigitAt body (start + n)) :
    NumAgree body st start (numFinish body st start (start + n) f)
      (if numberLookaheadOk (body.drop (start + n)) then [(f, n)] else []) := by
  unfold numFinish
  by_cases hl : charAt body (start + n) = some 46 ∨ isNameStartOpt (charAt body (start + n)) = true
  · rw [if_pos hl, if_neg (by rw [numberLookaheadOk_iff _ _ hnd]; exact fun h => h hl)]
    rfl
  · rw [if_neg hl, if_pos ((numberLookaheadOk_iff _ _ hnd).mpr hl)]
    exact ⟨f, n, rfl, hn, rfl⟩

theorem NumAgree.bind_digits (body : List Nat) (st : LexState) (start p : Nat)
    (k : Nat → LexOut Token) (cands : List (Bool × Nat))
    (hnone : digits1? (body.drop p) = none → cands = [])
    (hsome : ∀ d, digits1? (body.drop p) = some d → NumAgree body st start (k (p + d)) cands) :
    NumAgree body st start (readDigits body p (charAt body p) >>= k) cands := by
  rw [readDigits_spec]
  cases hd : digits1? (body.drop p) with
  | none => simp only [Out.bind_err]; exact hnone hd
  | some d => simp only [Out.bind_ok]; exact hsome d hd

theorem numTailExp_agree (body : List Nat) (st : LexState) (start n : Nat) (f : Bool) (hn : 0 < n)
    (hnd : NoDigitAt body (start + n)) :
    NumAgree body st start (numTailExp body st start (start + n) f)
      (expCandidates (body.drop (start + n)) n f) := by
  unfold numTailExp expCandidates
  by_cases he : charAt body (start + n) = some 69 ∨ charAt body (start + n) = some 101
  · rw [if_pos he]
    have hlt : start + n < body.length := by
      rcases he with he | he <;> exact charAt_some_lt he
    have hc : charAt body (start + n) = some body[start + n] := by simp [charAt, hlt]
    have hce : body[start + n] = 69 ∨ body[start + n] = 101 := by
      rw [hc] at he; simpa using he
    rw [drop_cons _ _ hlt]
    have hlook : numberLookaheadOk (body[start + n] :: body.drop (start + n + 1)) = false := by
      simp [numberLookaheadOk, NameStart, Letter]; omega
    rw [hlook]
    simp only [Bool.false_eq_true, if_false, List.nil_append]
    simp only [exponentPart?]
    rw [if_pos hce]
    by_cases h1 : start + n + 1 < body.length
    · rw [drop_cons _ _ h1]
      simp only []
      have hc1 : charAt body (start + n + 1) = some body[start + n + 1] := by simp [charAt, h1]
      by_cases hs : body[start + n + 1] = 43 ∨ body[start + n + 1] = 45
      · have hs' : charAt body (start + n + 1) = some 43 ∨ charAt body (start + n + 1) = some 45 := by
          rw [hc1]; simpa using hs
        rw [if_pos hs, if_pos hs']
        apply NumAgree.bind_digits
        · intro hd; rw [hd]; rfl
        · intro d hd
          rw [hd]
          simp only [Option.map_some]
          have e1 : start + n + 2 + d = start + (n + (d + 2)) := by omega
          have e2 : List.drop (d + 2) (body[start + n] :: body[start + n + 1] :: List.drop (start + n + 1 + 1) body)
              = body.drop (start + (n + (d + 2))) := by
            rw [← drop_cons _ _ h1, ← drop_cons _ _ hlt, List.drop_drop]; congr 1; omega
          rw [e1, e2]
          exact numFinish_agree body st start (n + (d + 2)) true (by omega)
            (by have := noDigitAt_after body (start + n + 2) d hd; rwa [e1] at this)
      · have hs' : ¬ (charAt body (start + n + 1) = some 43 ∨ charAt body (start + n + 1) = some 45) := by
          rw [hc1]; simpa using hs
        rw [if_neg hs, if_neg hs', ← drop_cons _ _ h1]
        apply NumAgree.bind_digits
        · intro hd; rw [hd]; rfl
        · intro d hd
          rw [hd]
          simp only [Option.map_some]
          have e1 : start + n + 1 + d = start + (n + (d + 1)) := by omega
          have e2 : List.drop (d + 1) (body[start + n] :: List.drop (start + n + 1) body)
              = body.drop (start + (n + (d + 1))) := by
            rw [← drop_cons _ _ hlt, List.drop_drop]; congr 1; omega
          rw [e1, e2]
          exact numFinish_agree body st start (n + (d + 1)) true (by omega)
            (by have := noDigitAt_after body (start + n + 1) d hd; rwa [e1] at this)
    · have hc1 : charAt body (start + n + 1) = none := by simp [charAt]; omega
      have hs' : ¬ (charAt body (start + n + 1) = some 43 ∨ charAt body (start + n + 1) = some 45) := by
        rw [hc1]; simp
      rw [if_neg hs', drop_nil _ _ (by omega : body.length ≤ start + n + 1)]
      simp only []
      apply NumAgree.bind_digits
      · intro _; rfl
      · intro d hd
        rw [drop_nil _ _ (by omega : body.length ≤ start + n + 1)] at hd
        simp [digits1?, digitsLen] at hd
  · rw [if_neg he]
    have hexp : exponentPart? (body.drop (start + n)) = none := by
      cases hs : body.drop (start + n) with
      | nil => rfl
      | cons c r =>
        have hc : charAt body (start + n) = some c := by rw [charAt_eq_head, hs]; rfl
        rw [hc] at he
        simp only [exponentPart?]
        rw [if_neg]; simpa using he
    rw [hexp]
    simp only [List.append_nil]
    exact numFinish_agree body st start n f hn hnd

/-- Candidates after the IntegerPart of length `n` (the text after it is `s`). -/
def fracCandidates (body : List Nat) (start n : Nat) : List (Bool × Nat) :=
  expCandidates (body.drop (start + n)) n false ++
    (match fractionalPart? (body.drop (start + n)) with
     | some f => expCandidates (body.drop (start + (n + f))) (n + f) true
     | none => [])

theorem numTailFrac_agree (body : List Nat) (st : LexState) (start n : Nat) (hn : 0 < n)
    (hnd : NoDigitAt body (start + n)) :
    NumAgree body st start (numTailFrac body st start (start + n)) (fracCandidates body start n) := by
  unfold numTailFrac fracCandidates
  by_cases hdot : charAt body (start + n) = some 46
  · rw [if_pos hdot]
    have hlt := charAt_some_lt hdot
    have hc : body[start + n] = 46 := by
      have : charAt body (start + n) = some body[start + n] := by simp [charAt, hlt]
      rw [this] at hdot; simpa using hdot
    have hs := drop_cons _ _ hlt
    rw [hc] at hs
    have h0 : expCandidates (body.drop (start + n)) n false = [] := by
      rw [hs]; rfl
    rw [h0, List.nil_append, hs]
    simp only [fractionalPart?, if_true]
    apply NumAgree.bind_digits
    · intro hd; rw [hd]; rfl
    · intro d hd
      rw [hd]
      simp only [Option.map_some]
      have e1 : start + n + 1 + d = start + (n + (d + 1)) := by omega
      rw [e1]
      exact numTailExp_agree body st start (n + (d + 1)) true (by omega)
        (by have := noDigitAt_after body (start + n + 1) d hd; rwa [e1] at this)
  · rw [if_neg hdot]
    have hfr : fractionalPart? (body.drop (start + n)) = none := by
      cases hs : body.drop (start + n) with
      | nil => rfl
      | cons c r =>
        have hc : charAt body (start + n) = some c := by rw [charAt_eq_head, hs]; rfl
        rw [hc] at hdot
        simp only [fractionalPart?]
        rw [if_neg]; simpa using hdot
    rw [hfr]
    simp only [List.append_nil]
    exact numTailExp_agree body st start n false hn hnd

theorem digitsLen_eq_zero_noDigit (body : List Nat) (p : Nat)
    (h : ¬ isDigitOpt (charAt body p) = true) : NoDigitAt body p := by
  intro c hc hd
  exact h ((isDigitOpt_iff _).mpr ⟨c, hc, hd⟩)

/-- The unsigned part: `numStaged` at `start + sign` against the candidates built from
`unsignedIntegerPart?`. -/
theorem numStaged_agree (body : List Nat) (st : LexState) (start sign : Nat) (hs : start ≤ start + sign) :
    NumAgree body st start (numStaged body st start (start + sign))
      (match unsignedIntegerPart? (body.drop (start + sign)) with
       | some i => fracCandidates body start (sign + i)
       | none => []) := by
  unfold numStaged
  by_cases hz : charAt body (start + sign) = some 48
  · rw [if_pos hz]
    have hlt := charAt_some_lt hz
    have hc : body[start + sign] = 48 := by
      have : charAt body (start + sign) = some body[start + sign] := by simp [charAt, hlt]
      rw [this] at hz; simpa using hz
    have hs := drop_cons _ _ hlt
    rw [hc] at hs
    rw [hs]
    simp only [unsignedIntegerPart?, if_true]
    by_cases hd : isDigitOpt (charAt body (start + sign + 1)) = true
    · rw [if_pos hd]
      -- `0` followed by a digit: no production matches
      obtain ⟨c, hc1, hdc⟩ := (isDigitOpt_iff _).mp hd
      have hlt1 := charAt_some_lt hc1
      have hs1 := drop_cons _ _ hlt1
      have hc1' : body[start + sign + 1] = c := by
        have : charAt body (start + sign + 1) = some body[start + sign + 1] := by simp [charAt, hlt1]
        rw [this] at hc1; simpa using hc1
      show fracCandidates body start (sign + 1) = []
      unfold fracCandidates expCandidates
      have e : start + (sign + 1) = start + sign + 1 := by omega
      rw [e, hs1, hc1']
      have hD := hdc
      unfold Digit at hD
      have hlook : numberLookaheadOk (c :: body.drop (start + sign + 1 + 1)) = false := by
        simp [numberLookaheadOk, hdc]
      have hexp : exponentPart? (c :: body.drop (start + sign + 1 + 1)) = none := by
        simp only [exponentPart?]; rw [if_neg (by omega)]
      have hfr : fractionalPart? (c :: body.drop (start + sign + 1 + 1)) = none := by
        simp only [fractionalPart?]; rw [if_neg (by omega)]
      rw [hlook, hexp, hfr]; rfl
    · rw [if_neg hd]
      have e : start + sign + 1 = start + (sign + 1) := by omega
      rw [e]
      exact numTailFrac_agree body st start (sign + 1) (by omega)
        (by rw [← e]; exact digitsLen_eq_zero_noDigit _ _ hd)
  · rw [if_neg hz]
    apply NumAgree.bind_digits
    · intro hd
      -- no digit at all
      cases hs : body.drop (start + sign) with
      | nil => rfl
      | cons c r =>
        have hc : charAt body (start + sign) = some c := by rw [charAt_eq_head, hs]; rfl
        rw [hc] at hz
        rw [hs] at hd
        simp only [unsignedIntegerPart?]
        rw [if_neg (by simpa using hz)]
        have : ¬ NonZeroDigit c := by
          intro hnz
          have hD : Digit c := by unfold NonZeroDigit at hnz; unfold Digit; omega
          have hl : digitsLen (c :: r) = digitsLen r + 1 := by rw [digitsLen_cons, if_pos hD]
          unfold digits1? at hd
          rw [hl] at hd
          simp at hd
        rw [if_neg this]
    · intro d hd
      obtain ⟨hdl, hdpos⟩ := digits1?_some hd
      cases hs : body.drop (start + sign) with
      | nil => rw [hs] at hdl; simp [digitsLen] at hdl; omega
      | cons c r =>
        have hc : charAt body (start + sign) = some c := by rw [charAt_eq_head, hs]; rfl
        rw [hc] at hz
        rw [hs] at hdl
        rw [digitsLen_cons] at hdl
        have hD : Digit c := by
          by_cases hD : Digit c
          · exact hD
          · rw [if_neg hD] at hdl; omega
        rw [if_pos hD] at hdl
        simp only [unsignedIntegerPart?]
        rw [if_neg (by simpa using hz)]
        have hnz : NonZeroDigit c := by
          unfold Digit at hD; unfold NonZeroDigit
          have : c ≠ 48 := by simpa using hz
          omega
        rw [if_pos hnz]
        simp only []
        have e : start + sign + d = start + (sign + (1 + digitsLen r)) := by omega
        rw [e]
        exact numTailFrac_agree body st start _ (by omega)
          (by have := noDigitAt_after body (start + sign) d hd; rwa [e] at this)

theorem numberCandidates_drop (body : List Nat) (start : Nat) :
    numberCandidates (body.drop start) =
      match integerPart? (body.drop start) with
      | some i => fracCandidates body start i
      | none => [] := by
  unfold numberCandidates fracCandidates
  cases integerPart? (body.drop start) with
  | none => rfl
  | some i =>
    simp only [List.drop_drop]
    cases fractionalPart? (body.drop (start + i)) with
    | none => rfl
    | some f => simp only [Nat.add_assoc]

theorem readNumber_agree (body : List Nat) (st : LexState) (start : Nat) (h : start < body.length) :
    NumAgree body st start (readNumber body st start body[start])
      (numberCandidates (body.drop start)) := by
  have hc : charAt body start = some body[start] := by simp [charAt, h]
  rw [readNumber_eq_staged body st start _ hc, numberCandidates_drop, drop_cons _ _ h]
  simp only [integerPart?]
  by_cases h45 : body[start] = 45
  · rw [if_pos h45, if_pos h45]
    have := numStaged_agree body st start 1 (by omega)
    cases hu : unsignedIntegerPart? (body.drop (start + 1)) with
    | none => rw [hu] at this; exact this
    | some i =>
      rw [hu] at this
      simp only [Option.map_some]
      rw [Nat.add_comm i 1]; exact this
  · rw [if_neg h45, if_neg h45]
    have := numStaged_agree body st start 0 (by omega)
    rw [Nat.add_zero, drop_cons _ _ h] at this
    cases hu : unsignedIntegerPart? (body[start] :: body.drop (start + 1)) with
    | none => rw [hu] at this; exact this
    | some i =>
      rw [hu] at this
      simp only [Nat.zero_add] at this
      exact this

/-- Agreement of a token-reading result at `pos` with a match of the lexical grammar. -/
def TokAgree (pos : Nat) (r : LexOut (Token × LexState)) (m : Option Match) : Prop :=
  match r with
  | .ok (t, _) => ∃ mm, m = some mm ∧ toSpec t = ⟨mm.kind, pos, pos + mm.len, mm.value⟩ ∧
      0 < mm.len ∧ t.kind ≠ .eof ∧ t.kind ≠ .comment
  | .err _ => m = none
  | .crash _ => False

theorem longest_single (c : Bool × Nat) : longest [c] = some c := rfl

/-- IntValue / FloatValue: `read_number` returns exactly the longest number production. -/
theorem readNumber_tokAgree (body : List Nat) (st : LexState) (start : Nat) (h : start < body.length) :
    TokAgree start ((readNumber body st start body[start]) >>= fun t => pure (t, st))
      (number? (body.drop start)) := by
  have := readNumber_agree body st start h
  unfold number?
  cases hr : readNumber body st start body[start] with
  | ok t =>
    rw [hr] at this
    obtain ⟨fl, n, hc, hn, ht⟩ := this
    rw [hc, longest_single]
    simp only [Out.bind_ok, Out.pure_eq]
    refine ⟨_, rfl, ?_, hn, ?_, ?_⟩
    · subst ht
      cases fl <;> simp [toSpec, mkToken, kindOf, slice]
    · subst ht; cases fl <;> simp [mkToken]
    · subst ht; cases fl <;> simp [mkToken]
  | err e =>
    rw [hr] at this
    have hc : numberCandidates (body.drop start) = [] := this
    rw [hc]; rfl
  | crash c => rw [hr] at this; exact this.elim
end Gql.Text
