import Gql.Proofs.Coerce
import Gql.Proofs.ScalarConforms
/-
Agreement of `coerceValue` and `validateValue` for *all* well-formed type maps, OneOf input
objects included (C15).
-/
namespace Gql.Values
open Gql

/-- What schema validation guarantees, as far as value coercion/validation agreement needs it. -/
structure TmWF (D : Field → R) (tm : TypeMap) : Prop where
  /-- `coerce_default_value` returns (valid defaults) -/
  defaults : DefaultsTotal D
  /-- OneOf input objects have no field defaults -/
  oneOfNoDefaults : ∀ n fields, tm.find n = some (.inputObject fields true) → ∀ f ∈ fields, D f = .ok .undefined
  /-- the fields of a OneOf input object are nullable -/
  oneOfNullable : ∀ n fields, tm.find n = some (.inputObject fields true) → ∀ f ∈ fields, f.type.isNonNull = false
  /-- no enum has `None` as internal value -/
  enumsNonNull : ∀ n e, tm.find n = some (.enum e) → ∀ k, e.valueOf k ≠ some .none
  /-- field names of an input object are pairwise different (they are dict keys) -/
  fieldsNodup : ∀ n fields o, tm.find n = some (.inputObject fields o) → (fields.map (·.name)).Nodup

/-! ### small facts about dicts and well-formed values -/

theorem dictGet_mem {kvs : List (List Nat × PyVal)} {k : List Nat} {v : PyVal}
    (h : PyVal.dictGet kvs k = some v) : (k, v) ∈ kvs := by
  induction kvs with
  | nil => simp [PyVal.dictGet] at h
  | cons hd tl ih =>
    obtain ⟨k0, v0⟩ := hd
    unfold PyVal.dictGet at h
    split at h
    · rename_i hk; simp only [Option.some.injEq] at h; subst h; subst hk; simp
    · simp [ih h]

theorem dictGetDefined_mem {kvs : List (List Nat × PyVal)} {k : List Nat} {v : PyVal}
    (h : dictGetDefined kvs k = some v) : (k, v) ∈ kvs ∧ isDefined v = true := by
  unfold dictGetDefined at h
  split at h
  · simp at h
  · rename_i hne
    refine ⟨dictGet_mem h, ?_⟩
    cases v <;> simp_all [isDefined]

theorem dictGetDefined_of_mem {kvs : List (List Nat × PyVal)} {k : List Nat} {v : PyVal}
    (hnd : (kvs.map (·.1)).Nodup) (h : (k, v) ∈ kvs) (hd : isDefined v = true) :
    dictGetDefined kvs k = some v := by
  have := EnumType.dictGet_of_mem_nodup hnd h
  unfold dictGetDefined
  rw [this]
  cases v <;> simp_all [isDefined]

theorem WFDict_mem {kvs : List (List Nat × PyVal)} {k : List Nat} {v : PyVal}
    (h : PyVal.WFDict kvs) (hm : (k, v) ∈ kvs) : v.WF := by
  induction kvs with
  | nil => simp at hm
  | cons hd tl ih =>
    obtain ⟨k0, v0⟩ := hd
    simp only [PyVal.WFDict] at h
    simp only [List.mem_cons, Prod.mk.injEq] at hm
    rcases hm with ⟨_, rfl⟩ | hm
    · exact h.1
    · exact ih h.2 hm

theorem WFList_mem {xs : List PyVal} {x : PyVal} (h : PyVal.WFList xs) (hm : x ∈ xs) : x.WF := by
  induction xs with
  | nil => simp at hm
  | cons hd tl ih =>
    simp only [PyVal.WFList] at h
    simp only [List.mem_cons] at hm
    rcases hm with rfl | hm
    · exact h.1
    · exact ih h.2 hm

theorem WF_iterItems {v : PyVal} {xs : List PyVal} (h : v.WF) (hit : v.iterItems = some xs) :
    PyVal.WFList xs := by
  cases v <;> simp [PyVal.iterItems] at hit <;> subst hit <;> simpa [PyVal.WF] using h

theorem WF_asDict {v : PyVal} {kvs : List (List Nat × PyVal)} (h : v.WF) (hd : v.asDict = some kvs) :
    (kvs.map (·.1)).Nodup ∧ PyVal.WFDict kvs := by
  cases v <;> simp [PyVal.asDict] at hd; subst hd; simpa [PyVal.WF] using h

/-! ### the entries `seqFields` collects -/

def entryOf : Out Unit FieldRes → Option (List Nat × PyVal)
  | .ok (.entry k c) => some (k, c)
  | _ => none

theorem seqFields_some {rs : List (Out Unit FieldRes)} {es : List (List Nat × PyVal)}
    (h : seqFields rs = .ok (some es)) : es = rs.filterMap entryOf := by
  induction rs generalizing es with
  | nil => simp [seqFields] at h; simp [h]
  | cons r rs ih =>
    unfold seqFields at h
    split at h
    · simp at h
    · simp only [List.filterMap_cons, entryOf]; exact ih h
    · rename_i k cv
      split at h
      · rename_i es' hes'
        simp only [Out.ok.injEq, Option.some.injEq] at h
        subst h
        simp [List.filterMap_cons, entryOf, ih hes']
      · rename_i hne
        cases hs : seqFields rs with
        | ok o =>
          cases o with
          | none => rw [hs] at h; simp at h
          | some es' => exact absurd hs (hne es')
        | err e => rw [hs] at h; simp at h
        | crash k => rw [hs] at h; simp at h
    · simp at h
    · simp at h

theorem filterMap_unique {β : Type} {fields : List Field} (hnd : (fields.map (·.name)).Nodup) {f0 : Field}
    (hf0 : f0 ∈ fields) (φ : Field → Option β) {y : β} (h0 : φ f0 = some y)
    (hne : ∀ f ∈ fields, f.name ≠ f0.name → φ f = none) : fields.filterMap φ = [y] := by
  induction fields with
  | nil => simp at hf0
  | cons hd tl ih =>
    simp only [List.map_cons, List.nodup_cons, List.mem_map, not_exists, not_and] at hnd
    by_cases hname : hd.name = f0.name
    · have hhd : f0 = hd := by
        simp only [List.mem_cons] at hf0
        rcases hf0 with h | h
        · exact h
        · exact absurd hname.symm (hnd.1 f0 h)
      subst hhd
      have htl : tl.filterMap φ = [] := by
        rw [List.filterMap_eq_nil_iff]
        intro f hf
        apply hne f (by simp [hf])
        intro hc
        exact hnd.1 f hf hc
      simp [List.filterMap_cons, h0, htl]
    · have hf0' : f0 ∈ tl := by
        simp only [List.mem_cons] at hf0
        rcases hf0 with h | h
        · subst h; exact absurd rfl hname
        · exact h
      have := hne hd (by simp) hname
      simp only [List.filterMap_cons, this]
      exact ih hnd.2 hf0' (fun f hf => hne f (by simp [hf]))

/-! ### the OneOf post-checks agree -/

theorem known_eq_defined {kvs : List (List Nat × PyVal)} {fields : List Field}
    (hunk : hasUnknownDefined kvs fields = false) :
    (kvs.filter fun kv => isDefined kv.2 && fields.any (fun f => f.name = kv.1)) =
      kvs.filter fun kv => isDefined kv.2 := by
  apply List.filter_congr
  intro kv hkv
  have := List.any_eq_false.1 hunk kv hkv
  by_cases hd : isDefined kv.2 = true
  · simp only [hd, Bool.true_and, Bool.and_eq_true, Bool.not_eq_eq_eq_not, Bool.not_true, not_and,
      Bool.not_eq_false] at this ⊢
    simpa using this
  · simp [hd]

theorem oneOf_agree {kvs : List (List Nat × PyVal)} {fields : List Field} (g : Field → Out Unit FieldRes)
    (hkeys : (kvs.map (·.1)).Nodup) (hnames : (fields.map (·.name)).Nodup)
    (hunk : hasUnknownDefined kvs fields = false)
    (hsome : ∀ f ∈ fields, ∀ fv, dictGetDefined kvs f.name = some fv →
      ∃ cv, g f = .ok (.entry f.name cv) ∧ (cv = .none ↔ fv = .none))
    (hnone : ∀ f ∈ fields, dictGetDefined kvs f.name = none → g f = .ok .skip)
    {es : List (List Nat × PyVal)} (hes : seqFields (fields.map g) = .ok (some es)) (path : Path) :
    ∃ cv, oneOfValue (definedCount kvs) es = .ok cv ∧
      (oneOfValueErrors path (kvs.filter fun kv => isDefined kv.2 && fields.any (fun f => f.name = kv.1)) = [] ↔
        cv ≠ .undefined) := by
  rw [known_eq_defined hunk]
  have hcount : definedCount kvs = (kvs.filter fun kv => isDefined kv.2).length := rfl
  rw [hcount]
  generalize hK : (kvs.filter fun kv => isDefined kv.2) = K
  rcases K with _ | ⟨⟨k0, v0⟩, _ | ⟨b, rest⟩⟩
  · refine ⟨.undefined, ?_, by simp [oneOfValueErrors]⟩
    unfold oneOfValue; split <;> simp
  rotate_left
  · refine ⟨.undefined, ?_, by simp [oneOfValueErrors]⟩
    unfold oneOfValue; split <;> simp
  ·
    have hmemK : (k0, v0) ∈ kvs.filter fun kv => isDefined kv.2 := by rw [hK]; simp
    obtain ⟨hmem, hdef⟩ := List.mem_filter.1 hmemK
    simp only at hdef
    -- k0 is a declared field
    have hdecl : ∃ f0 ∈ fields, f0.name = k0 := by
      have := List.any_eq_false.1 hunk (k0, v0) hmem
      simp only [hdef, Bool.true_and] at this
      have h2 : fields.any (fun f => f.name = k0) = true := by simpa using this
      obtain ⟨f, hf, hfe⟩ := List.any_eq_true.1 h2
      exact ⟨f, hf, by simpa using hfe⟩
    obtain ⟨f0, hf0, hf0n⟩ := hdecl
    have hget : dictGetDefined kvs f0.name = some v0 := by
      rw [hf0n]; exact dictGetDefined_of_mem hkeys hmem hdef
    obtain ⟨cv0, hg0, hnone0⟩ := hsome f0 hf0 v0 hget
    -- every other field is absent
    have hother : ∀ f ∈ fields, f.name ≠ f0.name → entryOf (g f) = none := by
      intro f hf hne
      cases hgf : dictGetDefined kvs f.name with
      | none => rw [hnone f hf hgf]; rfl
      | some fv =>
        exfalso
        obtain ⟨hm, hd⟩ := dictGetDefined_mem hgf
        have : (f.name, fv) ∈ kvs.filter fun kv => isDefined kv.2 := List.mem_filter.2 ⟨hm, hd⟩
        rw [hK] at this
        simp only [List.mem_singleton, Prod.mk.injEq] at this
        exact hne (this.1.trans hf0n.symm)
    have hes' : es = [(f0.name, cv0)] := by
      rw [seqFields_some hes, List.filterMap_map]
      exact filterMap_unique hnames hf0 (entryOf ∘ g) (by simp [hg0, entryOf]) hother
    subst hes'
    have hv0 : v0 ≠ .undefined := by
      intro h; subst h; simp [isDefined] at hdef
    by_cases hn : cv0 = .none
    · subst hn
      have : v0 = .none := hnone0.1 rfl
      subst this
      exact ⟨.undefined, by simp [oneOfValue], by simp [oneOfValueErrors]⟩
    · have hv0n : v0 ≠ .none := fun h => hn (hnone0.2 h)
      refine ⟨.dict [(f0.name, cv0)], ?_, ?_⟩
      · cases cv0 <;> simp_all [oneOfValue]
      · cases v0 <;> simp_all [oneOfValueErrors]

/-! ### `None` comes out only where `None` went in -/

theorem leafValue_scalar_ne_none (c : PyConv) (s : Scalar) (v : PyVal) : leafValue c (.scalar s) v ≠ .none := by
  unfold leafValue
  simp only [Leaf.coerceInputValue]
  split
  · rename_i r h; exact (scalarConforms_ne_none (scalar_value_conforms' c s v r h)).1
  · simp

theorem leafValue_enum_ne_none (c : PyConv) (e : EnumType) (v : PyVal) (he : ∀ k, e.valueOf k ≠ some .none) :
    leafValue c (.enum e) v ≠ .none := by
  unfold leafValue
  simp only [Leaf.coerceInputValue]
  split
  · rename_i r h
    cases v <;> simp only [EnumType.coerceInputValue] at h
    all_goals try (simp at h; done)
    rename_i s
    split at h
    · rename_i w hw
      simp only [Out.ok.injEq] at h
      subst h
      intro hc
      subst hc
      exact he s hw
    · simp at h
  · simp

theorem oneOfValue_ne_none (n : Nat) (es : List (List Nat × PyVal)) (cv : PyVal)
    (h : oneOfValue n es = .ok cv) : cv ≠ .none := by
  unfold oneOfValue at h
  repeat' split at h
  all_goals (simp only [Out.ok.injEq] at h; subst h; simp)

theorem coerceValue_nullish (c : PyConv) (D : Field → R) (tm : TypeMap) (v : PyVal) (t : InType)
    (hv : v.isNullish = true) :
    coerceValue c D tm v t = .ok (if t.isNonNull then .undefined else .none) := by
  cases t <;> rw [coerceValue] <;> simp [hv, InType.isNonNull]

theorem coerceValue_ne_none (c : PyConv) (D : Field → R) (tm : TypeMap)
    (hEN : ∀ n e, tm.find n = some (.enum e) → ∀ k, e.valueOf k ≠ some .none)
    (v : PyVal) (hn : ¬ v.isNullish = true) (t : InType) (cv : PyVal)
    (h : coerceValue c D tm v t = .ok cv) : cv ≠ .none := by
  induction t generalizing cv with
  | nonNull t' ih =>
    rw [coerceValue] at h
    simp only [hn, Bool.false_eq_true, ↓reduceIte] at h
    exact ih cv h
  | list t' ih =>
    cases hit : v.iterItems with
    | some xs =>
      rw [coerceValue_list_iter c D tm hn hit] at h
      generalize seqItems _ = X at h
      cases X with
      | ok o => cases o <;> simp only [wrapList, Out.ok.injEq] at h <;> subst h <;> simp
      | err e => simp [wrapList] at h
      | crash k => simp [wrapList] at h
    | none =>
      rw [coerceValue_list_single c D tm hn hit] at h
      split at h
      all_goals try (simp at h; done)
      all_goals (simp only [Out.ok.injEq] at h; subst h; simp)
  | named n =>
    cases hf : tm.find n with
    | none => rw [coerceValue] at h; simp only [hn, hf, Bool.false_eq_true, ↓reduceIte, Out.ok.injEq] at h; subst h; simp
    | some d =>
      cases d with
      | scalar s =>
        rw [coerceValue] at h; simp only [hn, hf, Bool.false_eq_true, ↓reduceIte, Out.ok.injEq] at h; subst h
        exact leafValue_scalar_ne_none c s v
      | enum e =>
        rw [coerceValue] at h; simp only [hn, hf, Bool.false_eq_true, ↓reduceIte, Out.ok.injEq] at h; subst h
        exact leafValue_enum_ne_none c e v (hEN n e hf)
      | inputObject fields oneOf =>
        cases hd : v.asDict with
        | none =>
          rw [coerceValue_notobj c D tm hn hf hd] at h
          simp only [Out.ok.injEq] at h; subst h; simp
        | some kvs =>
          rw [coerceValue_obj c D tm hn hf hd] at h
          split at h
          · simp only [Out.ok.injEq] at h; subst h; simp
          · split at h
            · split at h
              · exact oneOfValue_ne_none _ _ _ h
              · simp only [Out.ok.injEq] at h; subst h; simp
            · simp only [Out.ok.injEq] at h; subst h; simp
            · simp at h
            · simp at h

theorem fieldOfCoerced_ok' (name : List Nat) (cv : PyVal) :
    ∃ x, fieldOfCoerced name (.ok cv) = .ok x ∧ (x = .invalid ↔ cv = .undefined) ∧
      (cv ≠ .undefined → x = .entry name cv) := by
  cases cv <;> simp [fieldOfCoerced]

theorem fieldMissing_ok' {D : Field → R} (hD : DefaultsTotal D) (f : Field) :
    ∃ x, fieldMissing D f = .ok x ∧ (x = .invalid ↔ f.isRequired = true) ∧
      (f.isRequired = false → D f = .ok .undefined → x = .skip) := by
  unfold fieldMissing
  by_cases hr : f.isRequired = true
  · simp [hr]
  · obtain ⟨r, hr'⟩ := hD f
    simp only [hr, Bool.false_eq_true, ↓reduceIte, hr']
    cases r <;> simp

/-! ### the per-field functions of the object case, named -/

def objG (c : PyConv) (D : Field → R) (tm : TypeMap) (kvs : List (List Nat × PyVal)) (f : Field) :
    Out Unit FieldRes :=
  match _h : dictGetDefined kvs f.name with
  | some fv => fieldOfCoerced f.name (coerceValue c D tm fv f.type)
  | none => fieldMissing D f

def objH (c : PyConv) (tm : TypeMap) (kvs : List (List Nat × PyVal)) (path : Path) (f : Field) : List Path :=
  match _h : dictGetDefined kvs f.name with
  | some fv => validateValue c tm fv f.type (path ++ [.key f.name])
  | none => if f.isRequired then [path] else []

theorem coerceValue_obj' (c : PyConv) (D : Field → R) (tm : TypeMap) {v : PyVal} {n : List Nat}
    {fields : List Field} {oneOf : Bool} {kvs : List (List Nat × PyVal)}
    (hn : ¬ v.isNullish = true) (hf : tm.find n = some (.inputObject fields oneOf)) (hd : v.asDict = some kvs) :
    coerceValue c D tm v (.named n) =
      if hasUnknownDefined kvs fields then .ok .undefined
      else
        match seqFields (fields.map (objG c D tm kvs)) with
        | .ok (some entries) =>
          if oneOf then oneOfValue (definedCount kvs) entries else .ok (.dict entries)
        | .ok none => .ok .undefined
        | .err e => .err e
        | .crash k => .crash k := by
  rw [coerceValue_obj c D tm hn hf hd]; rfl

theorem validateValue_obj' (c : PyConv) (tm : TypeMap) {v : PyVal} {n : List Nat}
    {fields : List Field} {oneOf : Bool} {kvs : List (List Nat × PyVal)} {path : Path}
    (hn : ¬ v.isNullish = true) (hf : tm.find n = some (.inputObject fields oneOf)) (hd : v.asDict = some kvs) :
    validateValue c tm v (.named n) path =
      fields.flatMap (objH c tm kvs path)
        ++ ((kvs.filter fun kv => isDefined kv.2 && !fields.any (fun f => f.name = kv.1)).map fun _ => path)
        ++ (if oneOf then
              oneOfValueErrors path (kvs.filter fun kv => isDefined kv.2 && fields.any (fun f => f.name = kv.1))
            else []) := by
  rw [validateValue_obj c tm hn hf hd]; rfl

/-! ### the agreement theorem -/

/-- `coerce_input_value` returns (never raises) and its result is a value exactly when
`validate_input_value` is silent — for every well-formed type map, OneOf objects included. -/
theorem coerce_validate_value_full (c : PyConv) (D : Field → R) (tm : TypeMap) (hW : TmWF D tm)
    (v : PyVal) (t : InType) (path : Path) (hwf : v.WF) :
    ∃ cv, coerceValue c D tm v t = .ok cv ∧ (validateValue c tm v t path = [] ↔ cv ≠ .undefined) := by
  have hD := hW.defaults
  induction v, t, path using validateValue.induct c tm with
  | case1 v path t' hn =>
    rw [coerceValue, validateValue]; simp [hn]
  | case2 v path t' hn ih =>
    rw [coerceValue, validateValue]; simpa [hn] using ih hwf
  | case3 v path t' hn =>
    rw [coerceValue, validateValue]; simp [hn]
  | case4 v path t' hn xs hit ih =>
    have hwl := WF_iterItems hwf hit
    replace ih := fun x hx i => ih x hx i (WFList_mem hwl hx)
    rw [coerceValue_list_iter c D tm hn hit, validateValue_list_iter c tm hn hit]
    have hall : ∀ r ∈ (xs.attach.map fun ⟨x, _⟩ => coerceValue c D tm x t'), ∃ cv, r = .ok cv := by
      intro r hr
      simp only [List.mem_map, List.mem_attach, true_and, Subtype.exists] at hr
      obtain ⟨x, hx, rfl⟩ := hr
      obtain ⟨cv, hcv, _⟩ := ih x hx 0
      exact ⟨cv, hcv⟩
    obtain ⟨o, ho, hiff⟩ := seqItems_ok hall
    obtain ⟨cv, hcv, hcvu⟩ := wrapList_ok o
    refine ⟨cv, by rw [ho, hcv], ?_⟩
    rw [hcvu, hiff, List.flatMap_eq_nil_iff]
    constructor
    · intro h r hr
      simp only [List.mem_map, List.mem_attach, true_and, Subtype.exists] at hr
      obtain ⟨x, hx, rfl⟩ := hr
      have hmem : (⟨x, hx⟩ : {y // y ∈ xs}) ∈ List.map Prod.fst (xs.attach.zipIdx) := by
        rw [List.zipIdx_map_fst]; exact List.mem_attach _ _
      obtain ⟨⟨⟨x', hx'⟩, i⟩, hmi, heq⟩ := List.mem_map.1 hmem
      simp only at heq
      have := h _ hmi
      obtain ⟨cv, hcv, hv⟩ := ih x hx i
      cases heq
      simp only at this
      rw [hcv]
      intro hc
      simp only [Out.ok.injEq] at hc
      exact (hv.1 this) hc
    · intro h ⟨⟨x, hx⟩, i⟩ _
      simp only
      obtain ⟨cv, hcv, hv⟩ := ih x hx i
      apply hv.2
      intro hc
      apply h (coerceValue c D tm x t')
      · simp only [List.mem_map, List.mem_attach, true_and, Subtype.exists]
        exact ⟨x, hx, rfl⟩
      · rw [hcv, hc]
  | case5 v path t' hn hit ih =>
    rw [coerceValue_list_single c D tm hn hit, validateValue_list_single c tm hn hit]
    obtain ⟨cv, hcv, hv⟩ := ih hwf
    rw [hcv]
    by_cases hu : cv = .undefined
    · subst hu; exact ⟨.undefined, rfl, by simpa using hv⟩
    · refine ⟨.list [cv], ?_, by simpa [hu] using hv⟩
      cases cv <;> simp_all
  | case6 v path n hn =>
    rw [coerceValue, validateValue]; simp [hn]
  | case7 v path n hn fields oneOf hf kvs hd ih =>
    obtain ⟨hkeys, hwd⟩ := WF_asDict hwf hd
    replace ih := fun f fv h => ih f fv h (WFDict_mem hwd (dictGetDefined_mem h).1)
    have hnames := hW.fieldsNodup n fields oneOf hf
    rw [coerceValue_obj' c D tm hn hf hd, validateValue_obj' c tm hn hf hd]
    by_cases hunk : hasUnknownDefined kvs fields = true
    · refine ⟨.undefined, by simp [hunk], ?_⟩
      have hne : ¬ ((kvs.filter fun kv => isDefined kv.2 && !fields.any (fun f => f.name = kv.1)) = []) := by
        rw [← hasUnknownDefined_iff]; simp [hunk]
      simp only [ne_eq, not_true_eq_false, iff_false]
      intro h
      simp only [List.append_eq_nil_iff, List.map_eq_nil_iff] at h
      exact hne h.1.2
    · have hunk' : hasUnknownDefined kvs fields = false := by simpa using hunk
      simp only [hunk', Bool.false_eq_true, ↓reduceIte]
      have h2 := (hasUnknownDefined_iff kvs fields).1 hunk'
      rw [h2]
      simp only [List.map_nil, List.append_nil]
      generalize hG : objG c D tm kvs = G
      generalize hH : objH c tm kvs path = H
      have hfield : ∀ f ∈ fields, ∃ x, G f = .ok x ∧ (x = .invalid ↔ H f ≠ []) ∧
          (x ≠ .invalid →
            (∀ fv, dictGetDefined kvs f.name = some fv → ∃ cv, x = .entry f.name cv ∧ (cv = .none ↔ fv = .none)) ∧
            (oneOf = true → dictGetDefined kvs f.name = none → x = .skip)) := by
        intro f hf'
        rw [← hG, ← hH]
        unfold objG objH
        split
        · rename_i fv hfv
          obtain ⟨cv, hcv, hv⟩ := ih f fv hfv
          obtain ⟨x, hx, hxi, hxe⟩ := fieldOfCoerced_ok' f.name cv
          refine ⟨x, by rw [hcv, hx], ?_, ?_⟩
          · rw [hxi]
            constructor
            · intro hu h0; exact (hv.1 h0) hu
            · intro h0; by_cases hu : cv = .undefined
              · exact hu
              · exact absurd (hv.2 hu) h0
          · intro hxn
            have hcu : cv ≠ .undefined := fun hu => hxn (hxi.2 hu)
            refine ⟨?_, (by intro _ h; rw [hfv] at h; cases h)⟩
            intro fv' hfv'
            rw [hfv] at hfv'
            cases hfv'
            refine ⟨cv, hxe hcu, ?_⟩
            have hdef := (dictGetDefined_mem hfv).2
            constructor
            · intro hcn
              by_cases hnl : fv.isNullish = true
              · cases fv <;> simp_all [PyVal.isNullish, isDefined]
              · exact absurd hcn (coerceValue_ne_none c D tm hW.enumsNonNull fv hnl f.type cv hcv)
            · intro hfn
              subst hfn
              rw [coerceValue_nullish c D tm .none f.type rfl] at hcv
              simp only [Out.ok.injEq] at hcv
              by_cases hnn : f.type.isNonNull = true
              · simp only [hnn, ↓reduceIte] at hcv; exact absurd hcv.symm hcu
              · simp only [hnn, Bool.false_eq_true, ↓reduceIte] at hcv; exact hcv.symm
        · rename_i hnone
          obtain ⟨x, hx, hxi, hxs⟩ := fieldMissing_ok' hD f
          refine ⟨x, hx, ?_, ?_⟩
          · rw [hxi]
            by_cases hr : f.isRequired = true <;> simp [hr]
          · intro hxn
            refine ⟨(by intro fv h; rw [hnone] at h; cases h), ?_⟩
            intro ho _
            subst ho
            have hreq : f.isRequired = false := by
              by_cases hr : f.isRequired = true
              · exact absurd (hxi.2 hr) hxn
              · simpa using hr
            exact hxs hreq (hW.oneOfNoDefaults n fields hf f hf')
      have hall : ∀ r ∈ fields.map G, ∃ x, r = .ok x := by
        intro r hr
        obtain ⟨f, hf', rfl⟩ := List.mem_map.1 hr
        obtain ⟨x, hx, _⟩ := hfield f hf'
        exact ⟨x, hx⟩
      obtain ⟨o, hso, hiff⟩ := seqFields_ok hall
      rw [hso]
      have hvalid : (fields.flatMap H = []) ↔ o.isSome = true := by
        rw [hiff, List.flatMap_eq_nil_iff]
        constructor
        · intro h r hr
          obtain ⟨f, hf', rfl⟩ := List.mem_map.1 hr
          obtain ⟨x, hx, hxi, _⟩ := hfield f hf'
          rw [hx]
          intro hc
          simp only [Out.ok.injEq] at hc
          exact (hxi.1 hc) (h f hf')
        · intro h f hf'
          obtain ⟨x, hx, hxi, _⟩ := hfield f hf'
          by_cases h0 : H f = []
          · exact h0
          · exfalso
            have := hxi.2 h0
            subst this
            exact h _ (List.mem_map.2 ⟨f, hf', rfl⟩) hx
      cases o with
      | none =>
        refine ⟨.undefined, rfl, ?_⟩
        have : ¬ (fields.flatMap H = []) := by simpa using hvalid
        simp only [ne_eq, not_true_eq_false, iff_false, List.append_eq_nil_iff, not_and]
        intro h; exact absurd h this
      | some es =>
        have hA : fields.flatMap H = [] := hvalid.2 rfl
        rw [hA]
        simp only [List.nil_append]
        by_cases ho : oneOf = true
        · subst ho
          simp only [↓reduceIte]
          have hninv : ∀ f ∈ fields, ∀ x, G f = .ok x → x ≠ .invalid := by
            intro f hf' x hx hc
            subst hc
            exact (hiff.1 rfl) _ (List.mem_map.2 ⟨f, hf', rfl⟩) hx
          apply oneOf_agree G hkeys hnames hunk' ?_ ?_ hso path
          · intro f hf' fv hfv
            obtain ⟨x, hx, _, hxe⟩ := hfield f hf'
            obtain ⟨cv, hxc, hcn⟩ := (hxe (hninv f hf' x hx)).1 fv hfv
            exact ⟨cv, by rw [hx, hxc], hcn⟩
          · intro f hf' hnone
            obtain ⟨x, hx, _, hxe⟩ := hfield f hf'
            rw [hx, (hxe (hninv f hf' x hx)).2 rfl hnone]
        · simp only [ho, Bool.false_eq_true, ↓reduceIte]
          exact ⟨.dict es, rfl, by simp⟩
  | case8 v path n hn fields oneOf hf hd =>
    rw [coerceValue_notobj c D tm hn hf hd, validateValue_notobj c tm hn hf hd]
    exact ⟨.undefined, rfl, by simp⟩
  | case9 v path n hn s hf hdv =>
    rw [coerceValue, validateValue]
    simp only [hn, Bool.false_eq_true, ↓reduceIte, hf, hdv]
    exact ⟨_, rfl, by simpa using (isDefined_iff _).1 hdv⟩
  | case10 v path n hn s hf hdv =>
    rw [coerceValue, validateValue]
    simp only [hn, Bool.false_eq_true, ↓reduceIte, hf, hdv]
    refine ⟨_, rfl, ?_⟩
    have : ¬ (leafValue c (Leaf.scalar s) v ≠ .undefined) := fun h => hdv ((isDefined_iff _).2 h)
    simpa using this
  | case11 v path n hn e hf hdv =>
    rw [coerceValue, validateValue]
    simp only [hn, Bool.false_eq_true, ↓reduceIte, hf, hdv]
    exact ⟨_, rfl, by simpa using (isDefined_iff _).1 hdv⟩
  | case12 v path n hn e hf hdv =>
    rw [coerceValue, validateValue]
    simp only [hn, Bool.false_eq_true, ↓reduceIte, hf, hdv]
    refine ⟨_, rfl, ?_⟩
    have : ¬ (leafValue c (Leaf.enum e) v ≠ .undefined) := fun h => hdv ((isDefined_iff _).2 h)
    simpa using this
  | case13 v path n hn hf =>
    rw [coerceValue, validateValue]
    simp [hn, hf]

end Gql.Values
