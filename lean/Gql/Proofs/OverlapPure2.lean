import Gql.Proofs.OverlapPure
/-! C14, named fragments, completeness (2): if the final memo tables are *closed* (every entry's
comparison passed, relative to the tables) and every selection set passed its own visit, then no
two fields of an expanded selection set have an unordered conflict.  No acyclicity is needed: a
conflict is a finite object (spread paths, chain of sub-selections), the induction is on its size. -/
namespace Gql.Exec
open Overlap

abbrev TSet := Option String × SelSet

def PairsPass (s : Schema) (d : Doc) (T : St) (q : Bool) (t1 t2 : TSet) : Prop :=
  ∀ c1 ∈ selsFlat s t1.1 t1.2.sels, ∀ c2 ∈ selsFlat s t2.1 t2.2.sels,
    c1.node.responseName = c2.node.responseName → PPass s d T q c1 c2

/-- the body of `collect_conflicts_between_fields_and_fragment(fields of t, fragment nm, r)` passed -/
def FFok (s : Schema) (d : Doc) (T : St) (t : TSet) (nm : String) (r : Bool) : Prop :=
  ∀ tf, fragSet s d nm = some tf →
    t.2.id = tf.2.id ∨
      (PairsPass s d T r t tf ∧
        ∀ n' ∈ selsDirectSpreads tf.2.sels, CovFF T t.2.id (keyOf d n') r)

/-- the body of `collect_conflicts_between_fragments(n1, n2, r)` passed -/
def FRok (s : Schema) (d : Doc) (T : St) (n1 n2 : String) (r : Bool) : Prop :=
  ∀ t1 t2, fragSet s d n1 = some t1 → fragSet s d n2 = some t2 →
    PairsPass s d T r t1 t2 ∧
      (∀ n2' ∈ selsDirectSpreads t2.2.sels, CovFR T (keyOf d n1) (keyOf d n2') r) ∧
      (∀ n1' ∈ selsDirectSpreads t1.2.sels, CovFR T (keyOf d n1') (keyOf d n2) r)

def Closed (s : Schema) (d : Doc) (T : St) : Prop :=
  (∀ t ∈ d.typedSets s, ∀ nm ∈ d.spreadNames, ∀ r,
    assocGet T.cfp (t.2.id, keyOf d nm) = some r → FFok s d T t nm r) ∧
  (∀ n1 ∈ d.spreadNames, ∀ n2 ∈ d.spreadNames, ∀ r, keyOf d n1 ≠ keyOf d n2 →
    assocGet T.cmp (pairKey (keyOf d n1) (keyOf d n2)) = some r →
      FRok s d T n1 n2 r ∨ FRok s d T n2 n1 r)

/-- `find_conflicts_within_selection_set(t)` found nothing -/
def WithinOK (s : Schema) (d : Doc) (T : St) (t : TSet) : Prop :=
  (∀ pr ∈ Spec.pairsOf (selsFlat s t.1 t.2.sels),
    pr.1.node.responseName = pr.2.node.responseName → PPass s d T false pr.1 pr.2) ∧
  (∀ n ∈ selsDirectSpreads t.2.sels, CovFF T t.2.id (keyOf d n) false) ∧
  (∀ n1 ∈ selsDirectSpreads t.2.sels, ∀ n2 ∈ selsDirectSpreads t.2.sels,
    CovFR T (keyOf d n1) (keyOf d n2) false)

/-! ### spread paths with a length -/

inductive FReachN (d : Doc) : Nat → String → String → Prop where
  | refl (n : String) : FReachN d 0 n n
  | step {k : Nat} {n m j : String} : Edge d n m → FReachN d k m j → FReachN d (k + 1) n j

theorem FReach.toN {d : Doc} {n m : String} (h : FReach d n m) : ∃ k, FReachN d k n m := by
  induction h with
  | refl n => exact ⟨0, FReachN.refl n⟩
  | step he _ ih => obtain ⟨k, hk⟩ := ih; exact ⟨k + 1, FReachN.step he hk⟩

def FragFieldsN (s : Schema) (d : Doc) (k : Nat) (nm : String) (c : Spec.FieldInst) : Prop :=
  ∃ m, FReachN d k nm m ∧ FieldsOfFrag s d m c

/-- member of an expanded set with its cost: 0 for own fields, path length + 1 through a spread -/
def InEN (s : Schema) (d : Doc) (t : TSet) (k : Nat) (c : Spec.FieldInst) : Prop :=
  (k = 0 ∧ c ∈ selsFlat s t.1 t.2.sels) ∨
    ∃ n ∈ selsDirectSpreads t.2.sels, ∃ j, k = j + 1 ∧ FragFieldsN s d j n c

theorem InE.toN {s : Schema} {d : Doc} {t : TSet} {c : Spec.FieldInst}
    (h : InE s d t.1 t.2.sels c) : ∃ k, InEN s d t k c := by
  rcases h with h | ⟨n, hn, m, hr, hf⟩
  · exact ⟨0, Or.inl ⟨rfl, h⟩⟩
  · obtain ⟨j, hj⟩ := hr.toN
    exact ⟨j + 1, Or.inr ⟨n, hn, j, rfl, m, hj, hf⟩⟩

/-! ### outcomes -/

/-- the pair passed in one of the two orders, or it is one and the same field -/
def Out (s : Schema) (d : Doc) (T : St) (q : Bool) (c1 c2 : Spec.FieldInst) : Prop :=
  (PPass s d T q c1 c2 ∨ PPass s d T q c2 c1) ∨ c1 = c2

theorem Out.symm {s : Schema} {d : Doc} {T : St} {q : Bool} {c1 c2 : Spec.FieldInst}
    (h : Out s d T q c1 c2) : Out s d T q c2 c1 := by
  rcases h with (h | h) | h
  · exact Or.inl (Or.inr h)
  · exact Or.inl (Or.inl h)
  · exact Or.inr h.symm

theorem Out.weaken {s : Schema} {d : Doc} {T : St} {q q' : Bool} {c1 c2 : Spec.FieldInst}
    (h : Out s d T q c1 c2) (hq : q = true → q' = true) : Out s d T q' c1 c2 := by
  rcases h with (h | h) | h
  · exact Or.inl (Or.inl (h.weaken hq))
  · exact Or.inl (Or.inr (h.weaken hq))
  · exact Or.inr h

theorem covFF_entry {T : St} {i : Nat} {k : String} {q : Bool} (h : CovFF T i k q) :
    ∃ r, assocGet T.cfp (i, k) = some r ∧ (r = true → q = true) := (flagHas_iff _ _).1 h

theorem cmpHas_entry {T : St} {a b : String} {q : Bool} (h : T.cmpHas a b q = true) :
    ∃ r, assocGet T.cmp (pairKey a b) = some r ∧ (r = true → q = true) := (flagHas_iff _ _).1 h

section pure
variable {s : Schema} {d : Doc} {T : St} (hC : Closed s d T)
  (hW : ∀ t ∈ d.typedSets s, WithinOK s d T t) (hU : TypedIdsUnique s d) (hK : KeysInj d)

theorem spread_name_mem {t : TSet} (ht : t ∈ d.typedSets s) {n : String}
    (hn : n ∈ selsDirectSpreads t.2.sels) : n ∈ d.spreadNames :=
  Doc.allSets_spreads (Doc.typedSets_allSets ht) hn

include hW in
theorem own_pair {t : TSet} (ht : t ∈ d.typedSets s) {c1 c2 : Spec.FieldInst}
    (h1 : c1 ∈ selsFlat s t.1 t.2.sels) (h2 : c2 ∈ selsFlat s t.1 t.2.sels)
    (hrn : c1.node.responseName = c2.node.responseName) : Out s d T false c1 c2 := by
  rcases mem_pairs_or h1 h2 with hp | hp | he
  · exact Or.inl (Or.inl ((hW t ht).1 (c1, c2) hp hrn))
  · exact Or.inl (Or.inr ((hW t ht).1 (c2, c1) hp hrn.symm))
  · exact Or.inr he

include hC hW hU in
/-- fields of a typed set against a fragment the comparison with which is covered -/
theorem ffl : ∀ (L : Nat) (t : TSet) (nm : String) (q : Bool), t ∈ d.typedSets s →
    nm ∈ d.spreadNames → CovFF T t.2.id (keyOf d nm) q →
    ∀ c1 ∈ selsFlat s t.1 t.2.sels, ∀ c2, FragFieldsN s d L nm c2 →
      c1.node.responseName = c2.node.responseName → Out s d T q c1 c2 := by
  intro L
  induction L with
  | zero =>
    intro t nm q ht hnm hcov c1 hc1 c2 hf hrn
    obtain ⟨r, hr, himp⟩ := covFF_entry hcov
    obtain ⟨m, hreach, tf, hfs, hc2⟩ := hf
    cases hreach
    rcases hC.1 t ht nm hnm r hr tf hfs with hid | ⟨hp, _⟩
    · have : t = tf := hU t ht tf (fragSet_typed hfs) hid
      subst this
      exact (own_pair hW ht hc1 hc2 hrn).weaken (fun h => by cases h)
    · exact Or.inl (Or.inl ((hp c1 hc1 c2 hc2 hrn).weaken himp))
  | succ k ih =>
    intro t nm q ht hnm hcov c1 hc1 c2 hf hrn
    obtain ⟨r, hr, himp⟩ := covFF_entry hcov
    obtain ⟨m, hreach, hfm⟩ := hf
    cases hreach with
    | step he hrest =>
      obtain ⟨fr, hfr, hn'⟩ := he
      have hfs : fragSet s d nm = some (s.typeFromAst fr.typeCond, fr.ss) := by
        simp [fragSet, hfr]
      have htf := fragSet_typed hfs
      have hn'm := spread_name_mem htf hn'
      rcases hC.1 t ht nm hnm r hr _ hfs with hid | ⟨_, hnest⟩
      · have : t = (s.typeFromAst fr.typeCond, fr.ss) := hU t ht _ htf hid
        subst this
        exact (ih _ _ false htf hn'm ((hW _ htf).2.1 _ hn') c1 hc1 c2 ⟨m, hrest, hfm⟩ hrn).weaken
          (fun h => by cases h)
      · exact (ih t _ r ht hn'm (hnest _ hn') c1 hc1 c2 ⟨m, hrest, hfm⟩ hrn).weaken himp

end pure

end Gql.Exec
