/-
C02 — the sub-selection memo: every entry equals recomputation; `complete_object_value`.
-/
import Gql.Proofs.ExecSim4

namespace Gql.Exec.Refine
open Gql.Exec Gql.Exec.Impl

theorem memoGet_mem {m : List (MemoKey × Groups)} {k : MemoKey} {g : Groups}
    (h : memoGet m k = some g) : (k, g) ∈ m := by
  unfold memoGet at h
  cases hf : m.find? (fun e => e.1 == k) with
  | none => simp [hf] at h
  | some e =>
    simp only [hf, Option.map_some, Option.some.injEq] at h
    have hm := List.mem_of_find?_eq_some hf
    have hk := List.find?_some hf
    have : e.1 = k := by simpa using hk
    obtain ⟨k', v'⟩ := e
    simp only at this h
    subst this; subst h
    exact hm

theorem nodes_eq_of_serials {heap : List FieldNode} :
    ∀ (a b : List FieldDetails), a.map (·.serial) = b.map (·.serial) →
      (∀ fd ∈ a, heap[fd.serial]? = some fd.node) → (∀ fd ∈ b, heap[fd.serial]? = some fd.node) →
      a.map (·.node) = b.map (·.node)
  | [], [], _, _, _ => rfl
  | [], _ :: _, h, _, _ => by simp at h
  | _ :: _, [], h, _, _ => by simp at h
  | x :: xs, y :: ys, h, ha, hb => by
    simp only [List.map_cons, List.cons.injEq] at h ⊢
    have hx := ha x (List.mem_cons_self ..)
    have hy := hb y (List.mem_cons_self ..)
    rw [h.1, hy] at hx
    refine ⟨(Option.some.inj hx).symm, ?_⟩
    exact nodes_eq_of_serials xs ys h.2 (fun fd hfd => ha fd (List.mem_cons_of_mem _ hfd))
      (fun fd hfd => hb fd (List.mem_cons_of_mem _ hfd))

theorem FdsOk.of_mono {heap ext : List FieldNode} {fds : List FieldDetails}
    (h : FdsOk (heap ++ ext) fds) (hb : ∀ s ∈ fds.map (·.serial), s < heap.length) : FdsOk heap fds := by
  refine ⟨h.1, ?_⟩
  intro fd hfd
  have := h.2 fd hfd
  have hlt := hb fd.serial (List.mem_map_of_mem hfd)
  rwa [List.getElem?_append_left hlt] at this

variable (cx : Ctx) (hops : OpsOk cx.ops)

include hops in
theorem collectSubfieldsM_spec (rt : Name) (hrt : cx.schema.kind rt = .object)
    (fds : List FieldDetails) (st : EState) (hm : MemoInv cx st) (hpre : FdsOk st.heap fds) :
    match Spec.collectFields (toSpec cx) rt (Spec.mergeSelectionSets (fds.map (·.node))) with
    | .ok G => ∃ g st1, collectSubfieldsM cx rt fds st = (.ok g, st1) ∧ nodes g = G ∧
        (keys G).Nodup ∧ GroupsOk st1.heap g ∧ MemoInv cx st1 ∧ (∃ ext, st1.heap = st.heap ++ ext) ∧
        st1.errors = st.errors ∧ st1.positions = st.positions ∧ st1.log = st.log ∧ st1.dmemo = st.dmemo
    | .err k => collectSubfieldsM cx rt fds st = (.err (.raw k), st)
    | .crash c => collectSubfieldsM cx rt fds st = (.crash c, st) := by
  unfold collectSubfieldsM
  simp only
  cases hg : memoGet st.memo (rt, fds.map (·.serial)) with
  | some g =>
    have hmem := memoGet_mem hg
    obtain ⟨_, hinv⟩ := hm _ hmem
    obtain ⟨h1, h2, h3⟩ := hinv hrt fds rfl hpre
    simp only at h1
    rw [h1]
    exact ⟨g, st, rfl, rfl, h2, h3, hm, ⟨[], by simp⟩, rfl, rfl, rfl, rfl⟩
  | none =>
    have hrel := collectSubfields_rel cx hops rt hrt fds st.heap
    revert hrel
    cases hs : Spec.collectFields (toSpec cx) rt (Spec.mergeSelectionSets (fds.map (·.node))) with
    | crash c => simp only [CollectPost]; intro h; rw [h]
    | err k => simp only [CollectPost]; intro h; rw [h]
    | ok G =>
      simp only [CollectPost]
      rintro ⟨g, heap', e1, e2, e3, ⟨ext, e4⟩, e5⟩
      rw [e1]
      refine ⟨g, _, rfl, e2, e3, e5, ?_, ⟨ext, e4⟩, rfl, rfl, rfl, rfl⟩
      -- the memo invariant for the extended memo
      intro e he
      simp only at he
      rcases List.mem_append.1 he with he | he
      · obtain ⟨hb, hinv⟩ := hm e he
        refine ⟨fun s hs' => ?_, ?_⟩
        · have := hb s hs'
          simp only [e4, List.length_append]; omega
        · intro hk fds' hser hok'
          simp only [e4] at hok'
          have hok0 : FdsOk st.heap fds' := FdsOk.of_mono hok' (by rw [← hser]; exact hb)
          obtain ⟨h1, h2, h3⟩ := hinv hk fds' hser hok0
          exact ⟨h1, h2, by simp only [e4]; exact h3.mono ext⟩
      · simp only [List.mem_singleton] at he
        subst he
        refine ⟨fun s hs' => ?_, ?_⟩
        · simp only [List.mem_map] at hs'
          obtain ⟨fd, hfd, rfl⟩ := hs'
          have := (List.getElem?_eq_some_iff.1 (hpre.2 fd hfd)).1
          simp only [e4, List.length_append]; omega
        · intro _ fds' hser hok'
          simp only at hser hok' ⊢
          have hpre' : FdsOk heap' fds := by rw [e4]; exact hpre.mono ext
          have hn : fds'.map (·.node) = fds.map (·.node) :=
            nodes_eq_of_serials fds' fds hser.symm hok'.2 hpre'.2
          rw [hn, hs, e2]
          exact ⟨rfl, e2 ▸ e3, e5⟩

end Gql.Exec.Refine
