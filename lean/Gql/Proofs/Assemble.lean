import Gql.Async.Assemble
/-!
Lemmas about the format's merge (`Gql.Async.updateAt`, `mergeKeys`, `apply`):
frame properties and commutation of merges with disjoint targets.
-/
namespace Gql.Async

/-- The two paths diverge before either of them ends (neither is a prefix of the other). -/
def disjointPaths : Path → Path → Bool
  | a :: p, b :: q => if a = b then disjointPaths p q else true
  | _, _ => false

theorem lookup_setKey_same (k : List Nat) (c : J) (kvs : List (List Nat × J)) (old : J)
    (h : lookup k kvs = some old) : lookup k (setKey k c kvs) = some c := by
  induction kvs with
  | nil => simp [lookup] at h
  | cons x rest ih =>
    obtain ⟨k', v'⟩ := x
    by_cases hk : k' = k
    · simp [setKey, lookup, hk]
    · simp only [lookup, hk, if_false] at h
      simp [setKey, lookup, hk, ih h]

theorem lookup_setKey_other (k k2 : List Nat) (c : J) (kvs : List (List Nat × J)) (hne : k ≠ k2) :
    lookup k2 (setKey k c kvs) = lookup k2 kvs := by
  induction kvs with
  | nil => simp [setKey]
  | cons x rest ih =>
    obtain ⟨k', v'⟩ := x
    by_cases hk : k' = k
    · subst hk
      have : ¬ k' = k2 := hne
      simp [setKey, lookup, this]
    · by_cases hk2 : k' = k2
      · subst hk2
        simp [setKey, lookup, hk]
      · simp [setKey, lookup, hk, hk2, ih]

theorem setKey_setKey_same (k : List Nat) (c1 c2 : J) (kvs : List (List Nat × J)) :
    setKey k c2 (setKey k c1 kvs) = setKey k c2 kvs := by
  induction kvs with
  | nil => simp [setKey]
  | cons x rest ih =>
    obtain ⟨k', v'⟩ := x
    by_cases hk : k' = k
    · simp [setKey, hk]
    · simp [setKey, hk, ih]

theorem setKey_comm (k1 k2 : List Nat) (c1 c2 : J) (kvs : List (List Nat × J)) (hne : k1 ≠ k2) :
    setKey k2 c2 (setKey k1 c1 kvs) = setKey k1 c1 (setKey k2 c2 kvs) := by
  induction kvs with
  | nil => simp [setKey]
  | cons x rest ih =>
    obtain ⟨k', v'⟩ := x
    by_cases hk1 : k' = k1
    · subst hk1
      have : ¬ k' = k2 := hne
      simp [setKey, this]
    · by_cases hk2 : k' = k2
      · subst hk2
        simp [setKey, hk1]
      · simp [setKey, hk1, hk2, ih]

/-- what a successful `updateAt` on a key segment looks like -/
theorem updateAt_key_ok {f : J → Except Fail J} {k : List Nat} {p : Path} {j j' : J}
    (h : updateAt f (.key k :: p) j = .ok j') :
    ∃ kvs child c', j = .obj kvs ∧ lookup k kvs = some child ∧ updateAt f p child = .ok c' ∧
      j' = .obj (setKey k c' kvs) := by
  cases j with
  | obj kvs =>
    simp only [updateAt] at h
    split at h
    · simp at h
    · rename_i child hl
      split at h
      · rename_i c' hc
        refine ⟨kvs, child, c', rfl, hl, hc, ?_⟩
        simpa using h.symm
      · simp at h
  | _ => simp [updateAt] at h

theorem updateAt_idx_ok {f : J → Except Fail J} {i : Nat} {p : Path} {j j' : J}
    (h : updateAt f (.idx i :: p) j = .ok j') :
    ∃ xs child c', j = .arr xs ∧ xs[i]? = some child ∧ updateAt f p child = .ok c' ∧
      j' = .arr (xs.set i c') := by
  cases j with
  | arr xs =>
    simp only [updateAt] at h
    split at h
    · simp at h
    · rename_i child hl
      split at h
      · rename_i c' hc
        refine ⟨xs, child, c', rfl, hl, hc, ?_⟩
        simpa using h.symm
      · simp at h
  | _ => simp [updateAt] at h

theorem updateAt_key_intro {f : J → Except Fail J} {k : List Nat} {p : Path}
    {kvs : List (List Nat × J)} {child c' : J}
    (hl : lookup k kvs = some child) (hc : updateAt f p child = .ok c') :
    updateAt f (.key k :: p) (.obj kvs) = .ok (.obj (setKey k c' kvs)) := by
  simp [updateAt, hl, hc]

theorem updateAt_idx_intro {f : J → Except Fail J} {i : Nat} {p : Path}
    {xs : List J} {child c' : J}
    (hl : xs[i]? = some child) (hc : updateAt f p child = .ok c') :
    updateAt f (.idx i :: p) (.arr xs) = .ok (.arr (xs.set i c')) := by
  simp [updateAt, hl, hc]

/-- **Merges with disjoint targets commute exactly.**  If updating at `p` and then at `q`
succeeds, so does updating at `q` and then at `p`, with the identical result. -/
theorem updateAt_comm (f g : J → Except Fail J) :
    ∀ (p q : Path) (j j1 j12 : J), disjointPaths p q = true →
      updateAt f p j = .ok j1 → updateAt g q j1 = .ok j12 →
      ∃ j2, updateAt g q j = .ok j2 ∧ updateAt f p j2 = .ok j12
  | [], _, _, _, _, hd, _, _ => by simp [disjointPaths] at hd
  | _ :: _, [], _, _, _, hd, _, _ => by simp [disjointPaths] at hd
  | .key k1 :: p, .key k2 :: q, j, j1, j12, hd, h1, h2 => by
    obtain ⟨kvs, child, c1, rfl, hl, hc, rfl⟩ := updateAt_key_ok h1
    obtain ⟨kvs', child2, c2, hobj, hl2, hc2, rfl⟩ := updateAt_key_ok h2
    cases hobj
    by_cases hk : k1 = k2
    · subst hk
      have hd' : disjointPaths p q = true := by simpa [disjointPaths] using hd
      rw [lookup_setKey_same k1 c1 kvs child hl] at hl2
      cases hl2
      obtain ⟨m, hm1, hm2⟩ := updateAt_comm f g p q child c1 c2 hd' hc hc2
      refine ⟨.obj (setKey k1 m kvs), updateAt_key_intro hl hm1, ?_⟩
      have := updateAt_key_intro (f := f) (p := p) (lookup_setKey_same k1 m kvs child hl) hm2
      rw [this, setKey_setKey_same, setKey_setKey_same]
    · rw [lookup_setKey_other k1 k2 c1 kvs hk] at hl2
      refine ⟨.obj (setKey k2 c2 kvs), updateAt_key_intro hl2 hc2, ?_⟩
      have hl' : lookup k1 (setKey k2 c2 kvs) = some child := by
        rw [lookup_setKey_other k2 k1 c2 kvs (Ne.symm hk)]; exact hl
      rw [updateAt_key_intro hl' hc, setKey_comm k1 k2 c1 c2 kvs hk]
  | .idx i1 :: p, .idx i2 :: q, j, j1, j12, hd, h1, h2 => by
    obtain ⟨xs, child, c1, rfl, hl, hc, rfl⟩ := updateAt_idx_ok h1
    obtain ⟨xs', child2, c2, harr, hl2, hc2, rfl⟩ := updateAt_idx_ok h2
    cases harr
    have hi1 : i1 < xs.length := by
      rcases List.getElem?_eq_some_iff.mp hl with ⟨h, _⟩; exact h
    by_cases hi : i1 = i2
    · subst hi
      have hd' : disjointPaths p q = true := by simpa [disjointPaths] using hd
      have : (xs.set i1 c1)[i1]? = some c1 := by simp [hi1]
      rw [this] at hl2
      cases hl2
      obtain ⟨m, hm1, hm2⟩ := updateAt_comm f g p q child c1 c2 hd' hc hc2
      refine ⟨.arr (xs.set i1 m), updateAt_idx_intro hl hm1, ?_⟩
      have hlm : (xs.set i1 m)[i1]? = some m := by simp [hi1]
      rw [updateAt_idx_intro hlm hm2]
      simp [List.set_set]
    · have : (xs.set i1 c1)[i2]? = xs[i2]? := by
        simp [hi]
      rw [this] at hl2
      refine ⟨.arr (xs.set i2 c2), updateAt_idx_intro hl2 hc2, ?_⟩
      have hl' : (xs.set i2 c2)[i1]? = some child := by
        simp [Ne.symm hi, hl]
      rw [updateAt_idx_intro hl' hc, List.set_comm _ _ hi]
  | .key k1 :: p, .idx i2 :: q, j, j1, j12, _, h1, h2 => by
    obtain ⟨kvs, child, c1, rfl, hl, hc, rfl⟩ := updateAt_key_ok h1
    obtain ⟨xs', child2, c2, harr, _, _, _⟩ := updateAt_idx_ok h2
    cases harr
  | .idx i1 :: p, .key k2 :: q, j, j1, j12, _, h1, h2 => by
    obtain ⟨xs, child, c1, rfl, hl, hc, rfl⟩ := updateAt_idx_ok h1
    obtain ⟨kvs', child2, c2, hobj, _, _, _⟩ := updateAt_key_ok h2
    cases hobj

/-! ### `mergeKeys` never overwrites -/

theorem lookup_append_none (k : List Nat) (a b : List (List Nat × J))
    (ha : lookup k a = none) : lookup k (a ++ b) = lookup k b := by
  induction a with
  | nil => rfl
  | cons x rest ih =>
    obtain ⟨k', v'⟩ := x
    by_cases hk : k' = k
    · simp [lookup, hk] at ha
    · simp only [lookup, hk, if_false] at ha
      simp [lookup, hk, ih ha]

theorem lookup_append_some (k : List Nat) (a b : List (List Nat × J)) (v : J)
    (ha : lookup k a = some v) : lookup k (a ++ b) = some v := by
  induction a with
  | nil => simp [lookup] at ha
  | cons x rest ih =>
    obtain ⟨k', v'⟩ := x
    by_cases hk : k' = k
    · simp only [lookup, hk, if_true] at ha
      simp [lookup, hk, ha]
    · simp only [lookup, hk, if_false] at ha
      simp [lookup, hk, ih ha]

/-- A successful `mergeKeys` appends exactly the new entries, in order, and every added key was
absent from the target (and from the entries added before it): no key is ever overwritten. -/
theorem mergeKeys_ok (add tgt r : List (List Nat × J)) (h : mergeKeys tgt add = .ok r) :
    r = tgt ++ add ∧ (∀ kv ∈ add, lookup kv.1 tgt = none) ∧ keysNodup add = true := by
  induction add generalizing tgt with
  | nil =>
    simp only [mergeKeys] at h
    cases h
    simp [keysNodup]
  | cons x rest ih =>
    obtain ⟨k, v⟩ := x
    simp only [mergeKeys] at h
    split at h
    · split at h <;> simp at h
    · rename_i hnone
      obtain ⟨hr, hfresh, hnd⟩ := ih (tgt ++ [(k, v)]) h
      refine ⟨by simp [hr], ?_, ?_⟩
      · intro kv hkv
        rcases List.mem_cons.mp hkv with rfl | hin
        · exact hnone
        · have := hfresh kv hin
          cases hl : lookup kv.1 tgt with
          | none => rfl
          | some w => rw [lookup_append_some kv.1 tgt _ w hl] at this; cases this
      · simp only [keysNodup, hasKey, Bool.and_eq_true, Bool.not_eq_true', hnd, and_true]
        cases hl : lookup k rest with
        | none => rfl
        | some w =>
          exfalso
          -- (k, _) occurs in rest, so it had to be fresh w.r.t. tgt ++ [(k, v)]
          have hmem : ∃ kv ∈ rest, kv.1 = k := by
            clear ih h hfresh hnd hr
            induction rest with
            | nil => simp [lookup] at hl
            | cons y ys ihy =>
              obtain ⟨k'', v''⟩ := y
              by_cases hk : k'' = k
              · exact ⟨(k'', v''), by simp, hk⟩
              · simp only [lookup, hk, if_false] at hl
                obtain ⟨kv, hin, he⟩ := ihy hl
                exact ⟨kv, by simp [hin], he⟩
          obtain ⟨kv, hin, he⟩ := hmem
          have := hfresh kv hin
          rw [he, lookup_append_none k tgt _ hnone] at this
          simp [lookup] at this

/-- the converse: fresh, duplicate-free keys always merge -/
theorem mergeKeys_succeeds (add tgt : List (List Nat × J))
    (hfresh : ∀ kv ∈ add, lookup kv.1 tgt = none) (hnd : keysNodup add = true) :
    mergeKeys tgt add = .ok (tgt ++ add) := by
  induction add generalizing tgt with
  | nil => simp [mergeKeys]
  | cons x rest ih =>
    obtain ⟨k, v⟩ := x
    have hk : lookup k tgt = none := hfresh (k, v) (by simp)
    simp only [keysNodup, hasKey, Bool.and_eq_true, Bool.not_eq_true'] at hnd
    have hkrest : lookup k rest = none := by
      cases hl : lookup k rest with
      | none => rfl
      | some w => simp [hl] at hnd
    simp only [mergeKeys, hk]
    have : ∀ kv ∈ rest, lookup kv.1 (tgt ++ [(k, v)]) = none := by
      intro kv hin
      have h1 := hfresh kv (by simp [hin])
      rw [lookup_append_none kv.1 tgt _ h1]
      by_cases he : k = kv.1
      · exfalso
        -- then `k` occurs in `rest`
        have : lookup k rest ≠ none := by
          clear ih hfresh hnd h1 hk hkrest
          induction rest with
          | nil => simp at hin
          | cons y ys ihy =>
            obtain ⟨k2, v2⟩ := y
            by_cases hk2 : k2 = k
            · simp [lookup, hk2]
            · simp only [lookup, hk2, if_false]
              rcases List.mem_cons.mp hin with rfl | hin'
              · exact absurd he.symm hk2
              · exact ihy hin'
        exact this hkrest
      · simp [lookup, he]
    rw [ih (tgt ++ [(k, v)]) this hnd.2]
    simp

/-! ### `apply` as a targeted update -/

/-- target path and update function of an incremental entry, given the pending ids -/
def IncE.action (pending : List (List Nat × Path)) : IncE → Option (Path × (J → Except Fail J))
  | .defer id sub (.obj add) _ => (pendingPath id pending).map (fun p => (p ++ sub, mergeInto add))
  | .defer _ _ _ _ => none
  | .stream id items _ => (pendingPath id pending).map (fun p => (p, appendInto items))

theorem apply_ok {st s' : State} {e : IncE} (h : apply st e = .ok s') :
    ∃ p f, e.action st.pending = some (p, f) ∧ updateAt f p st.data = .ok s'.data ∧
      s'.pending = st.pending := by
  cases e with
  | defer id sub data errs =>
    simp only [apply] at h
    split at h
    · simp at h
    · rename_i p hp
      cases data with
      | obj add =>
        simp only at h
        split at h
        · rename_i d hd
          cases h
          exact ⟨p ++ sub, mergeInto add, by simp [IncE.action, hp], hd, rfl⟩
        · simp at h
      | _ => simp at h
  | stream id items errs =>
    simp only [apply] at h
    split at h
    · simp at h
    · rename_i p hp
      split at h
      · rename_i d hd
        cases h
        exact ⟨p, appendInto items, by simp [IncE.action, hp], hd, rfl⟩
      · simp at h

theorem apply_of_action {st : State} {e : IncE} {p : Path} {f : J → Except Fail J} {d : J}
    (ha : e.action st.pending = some (p, f)) (hu : updateAt f p st.data = .ok d) :
    ∃ s', apply st e = .ok s' ∧ s'.data = d ∧ s'.pending = st.pending := by
  cases e with
  | defer id sub data errs =>
    cases data with
    | obj add =>
      simp only [IncE.action, Option.map_eq_some_iff] at ha
      obtain ⟨p0, hp0, hpf⟩ := ha
      cases hpf
      exact ⟨{ st with data := d, errors := st.errors ++ errs }, by simp [apply, hp0, hu], rfl, rfl⟩
    | _ => simp [IncE.action] at ha
  | stream id items errs =>
    simp only [IncE.action, Option.map_eq_some_iff] at ha
    obtain ⟨p0, hp0, hpf⟩ := ha
    cases hpf
    exact ⟨{ st with data := d, errors := st.errors ++ errs }, by simp [apply, hp0, hu], rfl, rfl⟩

end Gql.Async

namespace Gql.Async

/-! ### An update and an update strictly below it commute (when the lower target pre-exists) -/

/-- child of a value along one segment -/
def childAt : Seg → J → Option J
  | .key k, .obj kvs => lookup k kvs
  | .idx i, .arr xs => xs[i]?
  | _, _ => none

/-- replace the child along one segment (no-op when absent) -/
def setChild : Seg → J → J → J
  | .key k, c, .obj kvs => .obj (setKey k c kvs)
  | .idx i, c, .arr xs => .arr (xs.set i c)
  | _, _, j => j

/-- `f` (a merge or an append at this node) leaves the pre-existing child `seg` alone and does
not care what that child is. -/
def Preserves (f : J → Except Fail J) (seg : Seg) : Prop :=
  ∀ j j1 c, f j = .ok j1 → childAt seg j = some c →
    childAt seg j1 = some c ∧ ∀ c', f (setChild seg c' j) = .ok (setChild seg c' j1)

theorem updateAt_cons_child {g : J → Except Fail J} {seg : Seg} {r : Path} {j j' : J}
    (h : updateAt g (seg :: r) j = .ok j') :
    ∃ c c', childAt seg j = some c ∧ updateAt g r c = .ok c' ∧ j' = setChild seg c' j := by
  cases seg with
  | key k =>
    obtain ⟨kvs, child, c', rfl, hl, hc, rfl⟩ := updateAt_key_ok h
    exact ⟨child, c', hl, hc, rfl⟩
  | idx i =>
    obtain ⟨xs, child, c', rfl, hl, hc, rfl⟩ := updateAt_idx_ok h
    exact ⟨child, c', hl, hc, rfl⟩

theorem updateAt_cons_intro {g : J → Except Fail J} {seg : Seg} {r : Path} {j c c' : J}
    (hl : childAt seg j = some c) (hc : updateAt g r c = .ok c') :
    updateAt g (seg :: r) j = .ok (setChild seg c' j) := by
  cases seg with
  | key k =>
    cases j with
    | obj kvs => exact updateAt_key_intro hl hc
    | _ => simp [childAt] at hl
  | idx i =>
    cases j with
    | arr xs => exact updateAt_idx_intro hl hc
    | _ => simp [childAt] at hl

theorem childAt_setChild {seg : Seg} {j c c' : J} (h : childAt seg j = some c) :
    childAt seg (setChild seg c' j) = some c' := by
  cases seg with
  | key k =>
    cases j with
    | obj kvs => exact lookup_setKey_same k c' kvs c h
    | _ => simp [childAt] at h
  | idx i =>
    cases j with
    | arr xs =>
      have hlt : i < xs.length := (List.getElem?_eq_some_iff.mp h).1
      simp [childAt, setChild, hlt]
    | _ => simp [childAt] at h

theorem setChild_setChild (seg : Seg) (j c c' : J) :
    setChild seg c' (setChild seg c j) = setChild seg c' j := by
  cases seg with
  | key k => cases j <;> simp [setChild, setKey_setKey_same]
  | idx i => cases j <;> simp [setChild, List.set_set]

/-- **f at `p`, then g strictly below `p` through a child that existed before** = the other way
round, with the identical result. -/
theorem updateAt_comm_below (f g : J → Except Fail J) (seg : Seg) (r : Path)
    (hpres : Preserves f seg) :
    ∀ (p : Path) (j j1 j12 : J),
      updateAt f p j = .ok j1 → updateAt g (p ++ seg :: r) j1 = .ok j12 →
      (∃ t, Spec.getAt p j = some t ∧ (childAt seg t).isSome) →
      ∃ j2, updateAt g (p ++ seg :: r) j = .ok j2 ∧ updateAt f p j2 = .ok j12
  | [], j, j1, j12, h1, h2, hex => by
    simp only [updateAt] at h1
    simp only [List.nil_append] at h2 ⊢
    obtain ⟨t, ht, hsome⟩ := hex
    simp only [Spec.getAt] at ht
    cases ht
    obtain ⟨c, hc⟩ := Option.isSome_iff_exists.mp hsome
    obtain ⟨hc1, hset⟩ := hpres j j1 c h1 hc
    obtain ⟨c0, c', hl, hu, rfl⟩ := updateAt_cons_child h2
    rw [hc1] at hl
    cases hl
    exact ⟨setChild seg c' j, updateAt_cons_intro hc hu, by simpa [updateAt] using hset c'⟩
  | s :: p, j, j1, j12, h1, h2, hex => by
    obtain ⟨c, c1, hl, hu1, rfl⟩ := updateAt_cons_child h1
    simp only [List.cons_append] at h2 ⊢
    obtain ⟨c1', c12, hl2, hu2, rfl⟩ := updateAt_cons_child h2
    rw [childAt_setChild hl] at hl2
    cases hl2
    have hex' : ∃ t, Spec.getAt p c = some t ∧ (childAt seg t).isSome := by
      obtain ⟨t, ht, hs⟩ := hex
      refine ⟨t, ?_, hs⟩
      cases s with
      | key k =>
        cases j with
        | obj kvs => simp only [childAt] at hl; simpa [Spec.getAt, hl] using ht
        | _ => simp [childAt] at hl
      | idx i =>
        cases j with
        | arr xs => simp only [childAt] at hl; simpa [Spec.getAt, hl] using ht
        | _ => simp [childAt] at hl
    obtain ⟨m, hm1, hm2⟩ := updateAt_comm_below f g seg r hpres p c c1 c12 hu1 hu2 hex'
    refine ⟨setChild s m j, updateAt_cons_intro hl hm1, ?_⟩
    rw [updateAt_cons_intro (childAt_setChild hl) hm2, setChild_setChild, setChild_setChild]

theorem setKey_append_left {k : List Nat} {c old : J} (kvs add : List (List Nat × J))
    (h : lookup k kvs = some old) : setKey k c (kvs ++ add) = setKey k c kvs ++ add := by
  induction kvs with
  | nil => simp [lookup] at h
  | cons x rest ih =>
    obtain ⟨k', v⟩ := x
    by_cases hk : k' = k
    · simp [setKey, hk]
    · simp only [lookup, hk, if_false] at h
      simp [setKey, hk, ih h]

theorem lookup_setKey_none {k k2 : List Nat} {c : J} (kvs : List (List Nat × J))
    (h : lookup k2 kvs = none) : lookup k2 (setKey k c kvs) = none := by
  induction kvs with
  | nil => simp [setKey, lookup]
  | cons x rest ih =>
    obtain ⟨k', v⟩ := x
    by_cases hk2 : k' = k2
    · simp [lookup, hk2] at h
    · simp only [lookup, hk2, if_false] at h
      by_cases hk : k' = k
      · simp [setKey, hk, lookup, hk ▸ hk2, h]
      · simp [setKey, hk, lookup, hk2, ih h]

/-- a defer entry's merge leaves every pre-existing field of the target alone -/
theorem mergeInto_preserves (add : List (List Nat × J)) (k : List Nat) :
    Preserves (mergeInto add) (.key k) := by
  intro j j1 c hf hc
  cases j with
  | obj kvs =>
    simp only [childAt] at hc
    simp only [mergeInto] at hf
    split at hf
    · rename_i r hm
      cases hf
      obtain ⟨rfl, hfresh, hnd⟩ := mergeKeys_ok add kvs _ hm
      refine ⟨by simpa [childAt] using lookup_append_some k kvs add c hc, ?_⟩
      intro c'
      have hfresh' : ∀ kv ∈ add, lookup kv.1 (setKey k c' kvs) = none :=
        fun kv hkv => lookup_setKey_none kvs (hfresh kv hkv)
      simp [setChild, mergeInto, mergeKeys_succeeds add _ hfresh' hnd, setKey_append_left kvs add hc]
    · simp at hf
  | _ => simp [childAt] at hc

/-- a stream entry's append leaves every pre-existing item of the list alone -/
theorem appendInto_preserves (items : List J) (i : Nat) : Preserves (appendInto items) (.idx i) := by
  intro j j1 c hf hc
  cases j with
  | arr xs =>
    simp only [childAt] at hc
    simp only [appendInto] at hf
    cases hf
    have hlt : i < xs.length := (List.getElem?_eq_some_iff.mp hc).1
    refine ⟨by simp [childAt, List.getElem?_append_left hlt, hc], ?_⟩
    intro c'
    simp [setChild, appendInto, List.set_append_left _ _ hlt]
  | _ => simp [childAt] at hc

theorem setKey_self' {k : List Nat} {kvs : List (List Nat × J)} {c : J}
    (h : lookup k kvs = some c) : setKey k c kvs = kvs := by
  induction kvs with
  | nil => rfl
  | cons x rest ih =>
    obtain ⟨k', v⟩ := x
    by_cases hk : k' = k
    · simp only [lookup, hk, if_true] at h
      cases h
      simp [setKey, hk]
    · simp only [lookup, hk, if_false] at h
      simp [setKey, hk, ih h]

theorem setChild_self {seg : Seg} {j c : J} (h : childAt seg j = some c) : setChild seg c j = j := by
  cases seg with
  | key k =>
    cases j with
    | obj kvs => simp only [childAt] at h; simp [setChild, setKey_self' h]
    | _ => simp [childAt] at h
  | idx i =>
    cases j with
    | arr xs =>
      simp only [childAt] at h
      have hlt : i < xs.length := (List.getElem?_eq_some_iff.mp h).1
      have he : xs[i] = c := (List.getElem?_eq_some_iff.mp h).2
      simp only [setChild]
      congr 1
      apply List.ext_getElem?
      intro n
      by_cases hn : i = n
      · subst hn; simp [hlt, he]
      · simp [hn]
    | _ => simp [childAt] at h

/-- the converse direction: g strictly below `p` first, then f at `p` = f first, then g. -/
theorem updateAt_comm_above (f g : J → Except Fail J) (seg : Seg) (r : Path)
    (hpres : Preserves f seg) :
    ∀ (p : Path) (j j2 j21 : J),
      updateAt g (p ++ seg :: r) j = .ok j2 → updateAt f p j2 = .ok j21 →
      ∃ j1, updateAt f p j = .ok j1 ∧ updateAt g (p ++ seg :: r) j1 = .ok j21
  | [], j, j2, j21, h1, h2 => by
    simp only [List.nil_append] at h1 ⊢
    simp only [updateAt] at h2 ⊢
    obtain ⟨c, c', hl, hu, rfl⟩ := updateAt_cons_child h1
    obtain ⟨hc21, hset⟩ := hpres _ j21 c' h2 (childAt_setChild hl)
    have hfj := hset c
    rw [setChild_setChild, setChild_self hl] at hfj
    refine ⟨setChild seg c j21, hfj, ?_⟩
    rw [updateAt_cons_intro (childAt_setChild hc21) hu, setChild_setChild, setChild_self hc21]
  | s :: p, j, j2, j21, h1, h2 => by
    simp only [List.cons_append] at h1 ⊢
    obtain ⟨c, c2, hl, hu1, rfl⟩ := updateAt_cons_child h1
    obtain ⟨c2', c21, hl2, hu2, rfl⟩ := updateAt_cons_child h2
    rw [childAt_setChild hl] at hl2
    cases hl2
    obtain ⟨m, hm1, hm2⟩ := updateAt_comm_above f g seg r hpres p c c2 c21 hu1 hu2
    refine ⟨setChild s m j, updateAt_cons_intro hl hm1, ?_⟩
    rw [updateAt_cons_intro (childAt_setChild hl) hm2, setChild_setChild, setChild_setChild]

/-- the update function of any incremental entry preserves every pre-existing child -/
theorem action_preserves {pending : List (List Nat × Path)} {e : IncE} {p : Path}
    {f : J → Except Fail J} (h : e.action pending = some (p, f)) (seg : Seg) : Preserves f seg := by
  have hm : ∀ add, Preserves (mergeInto add) seg := by
    intro add
    cases seg with
    | key k => exact mergeInto_preserves add k
    | idx i =>
      intro j j1 c hf hc
      cases j <;> simp [childAt, mergeInto] at hc hf
  have ha : ∀ items, Preserves (appendInto items) seg := by
    intro items
    cases seg with
    | idx i => exact appendInto_preserves items i
    | key k =>
      intro j j1 c hf hc
      cases j <;> simp [childAt, appendInto] at hc hf
  cases e with
  | defer id sub data errs =>
    cases data with
    | obj add =>
      simp only [IncE.action, Option.map_eq_some_iff] at h
      obtain ⟨p0, _, hpf⟩ := h
      cases hpf
      exact hm add
    | _ => simp [IncE.action] at h
  | stream id items errs =>
    simp only [IncE.action, Option.map_eq_some_iff] at h
    obtain ⟨p0, _, hpf⟩ := h
    cases hpf
    exact ha items

theorem lookup_ne_none_of_mem {kv : List Nat × J} {a : List (List Nat × J)} (h : kv ∈ a) :
    lookup kv.1 a ≠ none := by
  induction a with
  | nil => simp at h
  | cons y ys ih =>
    obtain ⟨k2, v2⟩ := y
    by_cases hk : k2 = kv.1
    · simp [lookup, hk]
    · simp only [lookup, hk, if_false]
      rcases List.mem_cons.mp h with rfl | hin
      · exact absurd rfl hk
      · exact ih hin

theorem exists_mem_of_lookup {k : List Nat} {b : List (List Nat × J)} {w : J}
    (h : lookup k b = some w) : ∃ kv ∈ b, kv.1 = k := by
  induction b with
  | nil => simp [lookup] at h
  | cons y ys ih =>
    obtain ⟨k2, v2⟩ := y
    by_cases hk : k2 = k
    · exact ⟨(k2, v2), by simp, hk⟩
    · simp only [lookup, hk, if_false] at h
      obtain ⟨kv, hin, he⟩ := ih h
      exact ⟨kv, by simp [hin], he⟩

end Gql.Async
