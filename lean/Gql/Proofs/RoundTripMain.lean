import Gql.Proofs.RoundTripParts
/-
`value_to_literal` followed by `coerce_input_literal` gives what `coerce_input_value` gives (C15).
-/
namespace Gql.Values
open Gql

theorem coercedIsNone_true {k : List Nat} {cv : PyVal} {n : List Nat} (h : coercedIsNone k cv n = true) :
    cv = .none := by
  unfold coercedIsNone at h
  unfold PyVal.dictGet at h
  split at h
  · rename_i heq
    split at heq
    · simp only [Option.some.injEq] at heq; exact heq
    · simp [PyVal.dictGet] at heq
  · cases h

section
variable (c : PyConv) (D : Field → R) (tm : TypeMap)

/-- what a declared field contributes on the three sides (value coercion, literal production,
literal coercion), given the induction hypothesis for its value -/
theorem field_roundtrip (kvs : List (List Nat × PyVal)) (f : Field) (x : FieldRes)
    (hx : objG c D tm kvs f = .ok x) (hxn : x ≠ .invalid)
    (ih : ∀ fv, dictGetDefined kvs f.name = some fv → ∀ cv, coerceValue c D tm fv f.type = .ok cv →
      cv ≠ .undefined → ∃ l, valueToLiteral c tm fv f.type = some l ∧ l.asVar = none ∧
        coerceLiteral c D tm none l f.type = .ok cv) :
    (∃ fv cv node, dictGetDefined kvs f.name = some fv ∧ x = .entry f.name cv ∧
        coerceValue c D tm fv f.type = .ok cv ∧ cv ≠ .undefined ∧
        valueToLiteral c tm fv f.type = some node ∧ node.asVar = none ∧
        coerceLiteral c D tm none node f.type = .ok cv ∧
        v2lF c tm kvs f = some (some (f.name, node))) ∨
    (dictGetDefined kvs f.name = none ∧ v2lF c tm kvs f = some none ∧ fieldMissing D f = .ok x) := by
  unfold objG at hx
  split at hx
  · rename_i fv hfv
    left
    cases hc : coerceValue c D tm fv f.type with
    | ok cv =>
      rw [hc] at hx
      have hcu : cv ≠ .undefined := by
        intro h; subst h; simp only [fieldOfCoerced, Out.ok.injEq] at hx; exact hxn hx.symm
      have hxe : x = .entry f.name cv := by
        cases cv <;> simp_all [fieldOfCoerced]
      obtain ⟨node, hnode, hav, hcl⟩ := ih fv hfv cv hc hcu
      refine ⟨fv, cv, node, hfv, hxe, hc, hcu, hnode, hav, hcl, ?_⟩
      unfold v2lF
      split
      · rename_i fv' hfv'
        rw [hfv] at hfv'; cases hfv'
        simp [hnode]
      · rename_i hnone; rw [hfv] at hnone; cases hnone
    | err e => rw [hc] at hx; simp [fieldOfCoerced] at hx
    | crash k => rw [hc] at hx; simp [fieldOfCoerced] at hx
  · rename_i hnone
    right
    refine ⟨hnone, ?_, hx⟩
    have hreq : f.isRequired = false := by
      by_cases hr : f.isRequired = true
      · simp only [fieldMissing, hr, ↓reduceIte, Out.ok.injEq] at hx; exact absurd hx.symm hxn
      · simpa using hr
    unfold v2lF
    split
    · rename_i fv' hfv'; rw [hnone] at hfv'; cases hfv'
    · simp [hreq]

/-- `literal_roundtrip`: a value `coerce_input_value` accepts is turned into a literal by
`value_to_literal`, and `coerce_input_literal` reads that literal back as the same result. -/
theorem valueToLiteral_roundtrip (hL : RoundTripLaws c) (hW : TmWF D tm) (v : PyVal) (t : InType) (path : Path)
    (hwf : v.WF) :
    ∀ cv, coerceValue c D tm v t = .ok cv → cv ≠ .undefined →
      ∃ l, valueToLiteral c tm v t = some l ∧ l.asVar = none ∧ coerceLiteral c D tm none l t = .ok cv := by
  induction v, t, path using validateValue.induct c tm with
  | case1 v path t' hn =>
    intro cv h hu; rw [coerceValue] at h; simp only [hn, ↓reduceIte, Out.ok.injEq] at h; exact absurd h.symm hu
  | case2 v path t' hn ih =>
    intro cv h hu
    rw [coerceValue] at h
    simp only [hn, Bool.false_eq_true, ↓reduceIte] at h
    obtain ⟨l, hl, hav, hcl⟩ := ih hwf cv h hu
    obtain ⟨_, hnull, _⟩ := valueToLiteral_shape c tm v hn t' l hl
    refine ⟨l, by rw [valueToLiteral_nonNull c tm hn, hl], hav, ?_⟩
    rw [coerceLiteral_nonNull c D tm none hav]; simp [hnull, hcl]
  | case3 v path t' hn =>
    intro cv h hu
    rw [coerceValue] at h; simp only [hn, ↓reduceIte, Out.ok.injEq] at h; subst h
    refine ⟨.null, by rw [valueToLiteral_nullish c tm _ hn]; simp [InType.isNonNull], rfl, ?_⟩
    rw [coerceLiteral_null c D tm none _ rfl rfl]; simp [InType.isNonNull]
  | case4 v path t' hn xs hit ih =>
    intro cv h hu
    have hwl := WF_iterItems hwf hit
    rw [coerceValue_list_iter c D tm hn hit, attach_map_pat xs (fun x => coerceValue c D tm x t')] at h
    cases hs : seqItems (xs.map fun x => coerceValue c D tm x t') with
    | ok o =>
      rw [hs] at h
      cases o with
      | none => simp only [wrapList, Out.ok.injEq] at h; exact absurd h.symm hu
      | some cs =>
        simp only [wrapList, Out.ok.injEq] at h; subst h
        obtain ⟨ls, hls, hitems⟩ := list_roundtrip (fun x => coerceValue c D tm x t')
          (fun x => valueToLiteral c tm x t') (fun l => coerceLiteral c D tm none l t') t'.isNonNull hs
          (fun x hx cv' hcv' hcu' => by
            obtain ⟨l, hl, _, hcl⟩ := ih x hx 0 (WFList_mem hwl hx) cv' hcv' hcu'
            exact ⟨l, hl, hcl⟩)
        refine ⟨.list ls, ?_, rfl, ?_⟩
        · rw [valueToLiteral_list_iter c tm hn hit, attach_map_pat xs (fun x => valueToLiteral c tm x t'), hls]
        · rw [coerceLiteral_list_iter c D tm none (l := .list ls) rfl (by simp [Lit.isNull]) rfl,
            attach_map_pat ls (fun it => listItemLiteral none it t'.isNonNull (coerceLiteral c D tm none it t')),
            hitems]
          rfl
    | err e => rw [hs] at h; simp [wrapList] at h
    | crash k => rw [hs] at h; simp [wrapList] at h
  | case5 v path t' hn hit ih =>
    intro cv h hu
    rw [coerceValue_list_single c D tm hn hit] at h
    cases hc : coerceValue c D tm v t' with
    | ok r =>
      rw [hc] at h
      by_cases hr : r = .undefined
      · subst hr; simp only [Out.ok.injEq] at h; exact absurd h.symm hu
      · have hcv : cv = .list [r] := by cases r <;> simp_all
        subst hcv
        obtain ⟨l, hl, hav, hcl⟩ := ih hwf r hc hr
        obtain ⟨_, hnull, hnl⟩ := valueToLiteral_shape c tm v hn t' l hl
        refine ⟨l, by rw [valueToLiteral_list_single c tm hn hit, hl], hav, ?_⟩
        rw [coerceLiteral_list_single c D tm none hav (by simp [hnull]) (hnl hit), hcl]
        cases r <;> simp_all
    | err e => rw [hc] at h; simp at h
    | crash k => rw [hc] at h; simp at h
  | case6 v path n hn =>
    intro cv h hu
    rw [coerceValue] at h; simp only [hn, ↓reduceIte, Out.ok.injEq] at h; subst h
    refine ⟨.null, by rw [valueToLiteral_nullish c tm _ hn]; simp [InType.isNonNull], rfl, ?_⟩
    rw [coerceLiteral_null c D tm none _ rfl rfl]; simp [InType.isNonNull]
  | case7 v path n hn fields oneOf hf kvs hd ih =>
    intro cv h hu
    obtain ⟨hkeys, hwd⟩ := WF_asDict hwf hd
    have hnames := hW.fieldsNodup n fields oneOf hf
    rw [coerceValue_obj' c D tm hn hf hd] at h
    by_cases hunk : hasUnknownDefined kvs fields = true
    · simp only [hunk, ↓reduceIte, Out.ok.injEq] at h; exact absurd h.symm hu
    · have hunk' : hasUnknownDefined kvs fields = false := by simpa using hunk
      simp only [hunk', Bool.false_eq_true, ↓reduceIte] at h
      cases hs : seqFields (fields.map (objG c D tm kvs)) with
      | ok o =>
        rw [hs] at h
        cases o with
        | none => simp only [Out.ok.injEq] at h; exact absurd h.symm hu
        | some es =>
          simp only at h
          have hallok := seqFields_some_all hs
          -- per declared field
          have hfield : ∀ f ∈ fields, ∃ x, objG c D tm kvs f = .ok x ∧ x ≠ .invalid ∧
              ((∃ fv cv' node, dictGetDefined kvs f.name = some fv ∧ x = .entry f.name cv' ∧
                  coerceValue c D tm fv f.type = .ok cv' ∧ cv' ≠ .undefined ∧
                  valueToLiteral c tm fv f.type = some node ∧ node.asVar = none ∧
                  coerceLiteral c D tm none node f.type = .ok cv' ∧
                  v2lF c tm kvs f = some (some (f.name, node))) ∨
               (dictGetDefined kvs f.name = none ∧ v2lF c tm kvs f = some none ∧ fieldMissing D f = .ok x)) := by
            intro f hf'
            obtain ⟨x, hx, hxn⟩ := hallok _ (List.mem_map.2 ⟨f, hf', rfl⟩)
            exact ⟨x, hx, hxn, field_roundtrip c D tm kvs f x hx hxn
              (fun fv hfv => ih f fv hfv (WFDict_mem hwd (dictGetDefined_mem hfv).1))⟩
          -- the literal `value_to_literal` builds
          let φ : Field → Option Lit := fun f =>
            match dictGetDefined kvs f.name with
            | some fv => valueToLiteral c tm fv f.type
            | none => none
          have hφ : ∀ f ∈ fields, litEntryOf (v2lF c tm kvs f) = (φ f).map fun node => (f.name, node) := by
            intro f hf'
            obtain ⟨x, _, _, hcase⟩ := hfield f hf'
            rcases hcase with ⟨fv, cv', node, hfv, _, _, _, hnode, _, _, hv2l⟩ | ⟨hnone, hv2l, _⟩
            · simp only [φ, hfv, hnode, hv2l, litEntryOf, Option.map_some]
            · simp only [φ, hnone, hv2l, litEntryOf, Option.map_none]
          have hlfs : (fields.map (v2lF c tm kvs)).filterMap litEntryOf =
              fields.filterMap fun f' => (φ f').map fun node => (f'.name, node) := by
            rw [List.filterMap_map]
            exact filterMap_congr' (fun f hf' => hφ f hf')
          generalize hlfsdef : (fields.filterMap fun f' => (φ f').map fun node => (f'.name, node)) = lfs at hlfs
          have hv2l : valueToLiteral c tm v (.named n) = some (.obj lfs) := by
            rw [valueToLiteral_obj c tm hn hf (asMapping_of_asDict hd)]
            simp only [hunk', Bool.false_eq_true, ↓reduceIte]
            rw [seqLitFields_of_all, hlfs]
            intro r hr
            obtain ⟨f, hf', rfl⟩ := List.mem_map.1 hr
            obtain ⟨x, _, _, hcase⟩ := hfield f hf'
            rcases hcase with ⟨_, _, _, _, _, _, _, _, _, _, hv⟩ | ⟨_, hv, _⟩ <;> rw [hv] <;> simp
          have hget : ∀ f ∈ fields, litGetLast lfs f.name = φ f := by
            intro f hf'; rw [← hlfsdef]; exact litGetLast_filterMap hnames φ hf'
          -- every literal field is declared
          have hdeclared : lfs.any (fun kv => !fields.any (fun f => f.name = kv.1)) = false := by
            apply List.any_eq_false.2
            intro kv hkv
            rw [← hlfsdef] at hkv
            obtain ⟨f, hf', hm⟩ := List.mem_filterMap.1 hkv
            cases hφf : φ f with
            | none => rw [hφf] at hm; simp at hm
            | some node =>
              rw [hφf] at hm
              simp only [Option.map_some, Option.some.injEq] at hm
              subst hm
              simp only [Bool.not_eq_true, Bool.not_eq_false', List.any_eq_true, decide_eq_true_eq]
              exact ⟨f, hf', rfl⟩
          -- literal coercion of each field = value coercion of each field
          have hG : fields.map (litG c D tm none lfs) = fields.map (objG c D tm kvs) := by
            apply List.map_congr_left
            intro f hf'
            obtain ⟨x, hx, _, hcase⟩ := hfield f hf'
            unfold litG
            rw [hx]
            split
            · rename_i node' hnode'
              rw [hget f hf'] at hnode'
              rcases hcase with ⟨fv, cv', node, hfv, hxe, _, hcu', hnode, hav, hcl, _⟩ | ⟨hnone, _, _⟩
              · simp only [φ, hfv, hnode, Option.some.injEq] at hnode'
                subst hnode'
                have hvar : node.isVar = false := by
                  cases hv : node.isVar with
                  | false => rfl
                  | true => obtain ⟨y, hy⟩ := (Lit.isVar_iff node).1 hv; rw [hav] at hy; cases hy
                simp only [hvar, Bool.false_and, Bool.false_eq_true, ↓reduceIte, hcl, hxe]
                cases cv' <;> simp_all [fieldOfCoerced]
              · simp only [φ, hnone] at hnode'; cases hnode'
            · rename_i hnone'
              rw [hget f hf'] at hnone'
              rcases hcase with ⟨fv, cv', node, hfv, _, _, _, hnode, _, _, _⟩ | ⟨_, _, hmiss⟩
              · simp only [φ, hfv, hnode] at hnone'; cases hnone'
              · exact hmiss
          have hcl0 : coerceLiteral c D tm none (.obj lfs) (.named n) =
              if oneOf then oneOfLiteral lfs es else .ok (.dict es) := by
            rw [coerceLiteral_obj c D tm none (l := .obj lfs) rfl (by simp [Lit.isNull]) hf rfl]
            simp only [hdeclared, Bool.false_eq_true, ↓reduceIte, hG, hs]
          by_cases ho : oneOf = true
          · subst ho
            simp only [↓reduceIte] at h hcl0
            obtain ⟨k, c', hes1, hcn, hcv⟩ := oneOfValue_ok h hu
            subst hcv
            refine ⟨.obj lfs, hv2l, rfl, ?_⟩
            rw [hcl0]
            -- exactly one literal field: as many as entries, since OneOf fields have no defaults
            have hes := seqFields_some hs
            rw [List.filterMap_map] at hes
            have hlen : lfs.length = es.length := by
              rw [← hlfsdef, hes]
              apply filterMap_length_congr
              intro f hf'
              obtain ⟨x, hx, hxn, hcase⟩ := hfield f hf'
              rcases hcase with ⟨fv, cv', node, hfv, hxe, _, _, hnode, _, _, _⟩ | ⟨hnone, _, hmiss⟩
              · simp [φ, hfv, hnode, Function.comp, hx, hxe, entryOf]
              · have hDf := hW.oneOfNoDefaults n fields hf f hf'
                have hxs : x = .skip := by
                  unfold fieldMissing at hmiss
                  split at hmiss
                  · simp only [Out.ok.injEq] at hmiss; exact absurd hmiss.symm hxn
                  · rw [hDf] at hmiss; simp only [Out.ok.injEq] at hmiss; exact hmiss.symm
                simp [φ, hnone, Function.comp, hx, hxs, entryOf]
            rw [hes1] at hlen
            simp only [List.length_singleton] at hlen
            obtain ⟨⟨k', node⟩, hlfs1⟩ : ∃ a, lfs = [a] := by
              cases lfs with
              | nil => simp at hlen
              | cons a tl => cases tl with
                | nil => exact ⟨a, rfl⟩
                | cons _ _ => simp at hlen
            -- that field's literal is not null, because its coerced value is not None
            have hmem : (k', node) ∈ fields.filterMap fun f' => (φ f').map fun nd => (f'.name, nd) := by
              rw [hlfsdef, hlfs1]; simp
            obtain ⟨f0, hf0, hm0⟩ := List.mem_filterMap.1 hmem
            obtain ⟨x0, hx0, _, hcase0⟩ := hfield f0 hf0
            have hnodeNull : node.isNull = false := by
              rcases hcase0 with ⟨fv, cv', node', hfv, hxe, hcvv, hcu', hnode', _, _, _⟩ | ⟨hnone, _, _⟩
              · simp only [φ, hfv, hnode', Option.map_some, Option.some.injEq, Prod.mk.injEq] at hm0
                obtain ⟨rfl, rfl⟩ := hm0
                -- the entry of f0 is the single entry (k, c')
                have hin : (f0.name, cv') ∈ es := by
                  rw [hes]
                  exact List.mem_filterMap.2 ⟨f0, hf0, by simp [Function.comp, hx0, hxe, entryOf]⟩
                rw [hes1] at hin
                simp only [List.mem_singleton, Prod.mk.injEq] at hin
                obtain ⟨_, rfl⟩ := hin
                have hfvn : ¬ fv.isNullish = true := by
                  intro hnl
                  rw [coerceValue_nullish c D tm fv f0.type hnl] at hcvv
                  simp only [Out.ok.injEq] at hcvv
                  split at hcvv
                  · exact hcu' hcvv.symm
                  · exact hcn hcvv.symm
                exact (valueToLiteral_shape c tm fv hfvn f0.type node' hnode').2.1
              · simp only [φ, hnone, Option.map_none] at hm0; cases hm0
            subst hlfs1
            have hnames1 : litNames [(k', node)] = [k'] := by
              rw [litNames_of_nodup (by simp)]; rfl
            have hnn : nodeIsNull [(k', node)] k' = false := by
              unfold nodeIsNull
              rw [litGetLast_of_mem_nodup (by simp) (List.mem_singleton.2 rfl)]
              exact hnodeNull
            have hci : coercedIsNone k c' k' = false := by
              cases hcc : coercedIsNone k c' k' with
              | false => rfl
              | true => exact absurd (coercedIsNone_true hcc) hcn
            simp [oneOfLiteral, hnames1, hes1, hnn, hci]
          · simp only [ho, Bool.false_eq_true, ↓reduceIte, Out.ok.injEq] at h hcl0
            subst h
            exact ⟨.obj lfs, hv2l, rfl, hcl0⟩
      | err e => rw [hs] at h; simp at h
      | crash k => rw [hs] at h; simp at h
  | case8 v path n hn fields oneOf hf hd =>
    intro cv h hu
    rw [coerceValue_notobj c D tm hn hf hd] at h
    simp only [Out.ok.injEq] at h; exact absurd h.symm hu
  | case9 v path n hn s hf hdv =>
    intro cv h hu
    rw [coerceValue] at h
    simp only [hn, Bool.false_eq_true, ↓reduceIte, hf, Out.ok.injEq] at h
    subst h
    obtain ⟨l, hl, hll⟩ := leaf_roundtrip c hL (.scalar s) v hu
    obtain ⟨hav, hnull, _, _⟩ := Lit.scalarKind_shape (leafToLiteral_kind c _ v l hl)
    refine ⟨l, by rw [valueToLiteral]; simp [hn, hf, hl], hav, ?_⟩
    rw [coerceLiteral]; simp [hav, hnull, hf, hll]
  | case10 v path n hn s hf hdv =>
    intro cv h hu
    rw [coerceValue] at h
    simp only [hn, Bool.false_eq_true, ↓reduceIte, hf, Out.ok.injEq] at h
    subst h
    exact absurd ((isDefined_iff _).2 hu) hdv
  | case11 v path n hn e hf hdv =>
    intro cv h hu
    rw [coerceValue] at h
    simp only [hn, Bool.false_eq_true, ↓reduceIte, hf, Out.ok.injEq] at h
    subst h
    obtain ⟨l, hl, hll⟩ := leaf_roundtrip c hL (.enum e) v hu
    obtain ⟨hav, hnull, _, _⟩ := Lit.scalarKind_shape (leafToLiteral_kind c _ v l hl)
    refine ⟨l, by rw [valueToLiteral]; simp [hn, hf, hl], hav, ?_⟩
    rw [coerceLiteral]; simp [hav, hnull, hf, hll]
  | case12 v path n hn e hf hdv =>
    intro cv h hu
    rw [coerceValue] at h
    simp only [hn, Bool.false_eq_true, ↓reduceIte, hf, Out.ok.injEq] at h
    subst h
    exact absurd ((isDefined_iff _).2 hu) hdv
  | case13 v path n hn hf =>
    intro cv h hu
    rw [coerceValue] at h
    simp only [hn, Bool.false_eq_true, ↓reduceIte, hf, Out.ok.injEq] at h
    exact absurd h.symm hu

end
end Gql.Values
