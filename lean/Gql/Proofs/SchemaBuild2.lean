import Gql.Proofs.SchemaBuild1
namespace Gql.Types
open Gql Gql.Generated

/-- The `(description, node)` pair `typeToDef` wraps. -/
def typeToPair : TypeDef → Option DescNode × TypeNode
  | .scalar n d u => (descNode d, ⟨n, specifiedByDirs u, .scalar⟩)
  | .object n d is fs => (descNode d, ⟨n, [], .object is (fs.map fieldToFD)⟩)
  | .interface n d is fs => (descNode d, ⟨n, [], .interface is (fs.map fieldToFD)⟩)
  | .union n d ms => (descNode d, ⟨n, [], .union ms⟩)
  | .enum n d vs => (descNode d, ⟨n, [], .enum (vs.map enumValToEVD)⟩)
  | .input n d oneOf fs =>
      (descNode d, ⟨n, if oneOf then [⟨SchemaConsts.oneOfName, []⟩] else [], .input (fs.map argToIVD)⟩)

theorem typeToDef_eq (t : TypeDef) : typeToDef t = .typeDef (typeToPair t).1 (typeToPair t).2 := by
  cases t <;> rfl

theorem typeToPair_name (t : TypeDef) : (typeToPair t).2.name = t.name := by
  cases t <;> rfl

theorem mapMOut_fields (s : Schema) (fs : List Field) (h : fs.all (wfField s) = true) :
    mapMOut fdToField (fs.map fieldToFD) = .ok fs := by
  apply mapMOut_map_ok
  intro f hf
  have := List.all_eq_true.mp h f hf
  simp only [wfField, wfArgs, Bool.and_eq_true] at this
  exact fdToField_fieldToFD f this.2.1

/-- Round trip of one type definition (no extensions). -/
theorem buildNamedType_typeToPair (s : Schema) (t : TypeDef) (h : wfType s t = true) :
    buildNamedType (typeToPair t).1 (typeToPair t).2 [] = .ok t := by
  cases t with
  | scalar n d u =>
    simp [typeToPair, buildNamedType, specifiedByOf_dirs, extendType, foldSpecifiedBy, descValue_descNode]
  | object n d is fs =>
    simp only [wfType, Bool.and_eq_true] at h
    simp [typeToPair, buildNamedType, extendType, Body.fields, Body.interfaces, mapMOut_fields s fs h.2,
      upsertAll_nil_nodup Field.name fs h.1.2, descValue_descNode]
  | interface n d is fs =>
    simp only [wfType, Bool.and_eq_true] at h
    simp [typeToPair, buildNamedType, extendType, Body.fields, Body.interfaces, mapMOut_fields s fs h.2,
      upsertAll_nil_nodup Field.name fs h.1.2, descValue_descNode]
  | union n d ms =>
    simp [typeToPair, buildNamedType, extendType, Body.members, descValue_descNode]
  | enum n d vs =>
    simp only [wfType, Bool.and_eq_true] at h
    simp [typeToPair, buildNamedType, extendType, Body.values,
      mapMOut_map_ok evdToEnumVal enumValToEVD vs (fun v _ => evdToEnumVal_enumValToEVD v),
      upsertAll_nil_nodup EnumVal.name vs h.1.2, descValue_descNode]
  | input n d o fs =>
    simp only [wfType, wfArgs, Bool.and_eq_true] at h
    simp [typeToPair, buildNamedType, extendType, Body.inputFields,
      mapMOut_map_ok ivdToArg argToIVD fs (fun a _ => ivdToArg_argToIVD a),
      upsertAll_nil_nodup Arg.name fs h.2.1, descValue_descNode, isOneOf_dirs]

theorem buildDirective_directiveToDef (s : Schema) (d : Directive) (h : wfDirective s d = true) :
    buildDirective [] (directiveToDef d) = .ok d := by
  simp only [wfDirective, wfArgs, Bool.and_eq_true] at h
  have hargs := buildArgs_map d.args h.1.1.2.1
  cases hd : d.depr with
  | none =>
    simp [directiveToDef, buildDirective, h.2, deprecationOf_deprDirs, hargs, extendDirective, hd,
      firstExtReason, descValue_descNode]
    cases d; simp_all
  | some r =>
    simp [directiveToDef, buildDirective, h.2, deprecationOf_deprDirs, hargs, extendDirective, hd,
      descValue_descNode]
    cases d; simp_all

end Gql.Types
