import Gql.Proofs.RulesLone
import Gql.Proofs.ValidationSingle
/-!
C12 — `rule_iff_spec` for UniqueOperationNames: a rule with private state that answers SKIP at every operation and
fragment definition.
-/
namespace Gql.Validation.Rules
open Gql.Validation
variable {τ : Type}

def isDef (k : String) : Bool := k == "operation_definition" || k == "fragment_definition"

mutual
  /-- the operation / fragment definitions not nested inside another one, in document order (for a parsed
  document: `document.definitions`) -/
  def outer : ATree → List ATree
    | .node i f v cs => if isDef i.kind then [.node i f v cs] else outerList cs
  def outerList : List ATree → List ATree
    | [] => []
    | t :: ts => outer t ++ outerList ts
end

/-- `enter_operation_definition` / `enter_fragment_definition` of UniqueOperationNames on the node object `n` -/
def opStep (s : RS) (n : ATree) : RS × List RErr :=
  if n.kind == "operation_definition" then
    match n.kid "name" with
    | some nm => ({ s with known := (uniqueStep "UniqueOperationNamesRule" s.known nm).1 }, (uniqueStep "UniqueOperationNamesRule" s.known nm).2)
    | none => (s, [])
  else (s, [])

def foldSt : RS → List ATree → RS × List RErr
  | s, [] => (s, [])
  | s, n :: ns => ((foldSt (opStep s n).1 ns).1, (opStep s n).2 ++ (foldSt (opStep s n).1 ns).2)

theorem foldSt_append (s : RS) (a b : List ATree) :
    foldSt s (a ++ b) = ((foldSt (foldSt s a).1 b).1, (foldSt s a).2 ++ (foldSt (foldSt s a).1 b).2) := by
  induction a generalizing s with
  | nil => simp [foldSt]
  | cons x xs ih => simp [foldSt, ih, List.append_assoc]

theorem uon_step (doc n : ATree) (s : RS) (ti : TI τ) (hfind : doc.find n.info.id = some n) (_hd : isDef n.info.kind = true) :
    (uniqueOperationNames (τ := τ) doc).step s .enter n.info ti = (Action.skip, (opStep s n).1, (opStep s n).2) := by
  simp only [uniqueOperationNames, withNode, hfind, opStep, ATree.kind]
  by_cases hop : (n.info.kind == "operation_definition") = true
  · cases hnm : n.kid "name" <;> simp [hop]
  · simp [hop]

theorem uon_trav (doc : ATree) (D : Driver τ) :
    (∀ t : ATree, (∀ n ∈ t.nodes, doc.find n.info.id = some n) → t.ids.Nodup →
      ∀ (ti : TI τ) (m : Member τ RS RErr), m.rule = uniqueOperationNames doc → m.skipping = .none →
        (Member.trav D ti m t.erase).rule = uniqueOperationNames doc ∧ (Member.trav D ti m t.erase).skipping = .none ∧
        (Member.trav D ti m t.erase).st = (foldSt m.st (outer t)).1 ∧
        (Member.trav D ti m t.erase).errs = m.errs ++ (foldSt m.st (outer t)).2) ∧
    (∀ ts : List ATree, (∀ n ∈ ATree.nodesList ts, doc.find n.info.id = some n) → (ATree.idsList ts).Nodup →
      ∀ (ti : TI τ) (m : Member τ RS RErr), m.rule = uniqueOperationNames doc → m.skipping = .none →
        (Member.travList D ti m (ATree.eraseList ts)).rule = uniqueOperationNames doc ∧
        (Member.travList D ti m (ATree.eraseList ts)).skipping = .none ∧
        (Member.travList D ti m (ATree.eraseList ts)).st = (foldSt m.st (outerList ts)).1 ∧
        (Member.travList D ti m (ATree.eraseList ts)).errs = m.errs ++ (foldSt m.st (outerList ts)).2) := by
  apply ATree.induct
  · intro i f v cs ih hfind hnd ti m hr hs
    simp only [ATree.ids, List.nodup_cons] at hnd
    simp only [ATree.nodes, List.mem_cons, forall_eq_or_imp] at hfind
    rw [ATree.erase, Member.trav, outer]
    have hE : m.rule.hEnter i.kind = isDef i.kind := by rw [hr]; rfl
    have hL : ∀ k, m.rule.hLeave k = false := by intro k; rw [hr]; rfl
    by_cases hd : isDef i.kind = true
    · -- the rule handles the node and answers SKIP
      have hst := uon_step (τ := τ) doc (.node i f v cs) m.st (D.enter ti i) hfind.1 hd
      simp only [ATree.info] at hst
      have hnot : i ∉ Tree.infosList (ATree.eraseList cs) := by
        intro hmem
        rw [ATree.infos_erase.2] at hmem
        obtain ⟨n, hn, hni⟩ := List.mem_map.mp hmem
        have := ATree.id_mem_ids.2 cs n hn
        rw [ATree.id, hni] at this
        exact hnd.1 this
      have hm1 : Member.enter (D.enter ti i) i m =
          ({ m with st := (opStep m.st (.node i f v cs)).1, skipping := .node i,
                    calls := m.calls ++ [⟨.enter, i, D.enter ti i⟩], errs := m.errs ++ (opStep m.st (.node i f v cs)).2 },
           (opStep m.st (.node i f v cs)).2) := by
        unfold Member.enter
        rw [hE, hd, hr, hst]
        simp [hs, Member.skipOf]
      rw [hm1]
      simp only
      rw [(Member.trav_skipping D i).2 _ _ _ rfl hnot]
      simp only [hd, if_true, foldSt, List.append_nil]
      simp [Member.leave, hr]
    · have hd' : isDef i.kind = false := by simpa using hd
      have hm1 : Member.enter (D.enter ti i) i m = (m, []) := by
        unfold Member.enter
        simp [hE, hd']
      rw [hm1]
      simp only [hd', Bool.false_eq_true, if_false]
      obtain ⟨c1, c2, c3, c4⟩ := ih hfind.2 hnd.2 (D.enter ti i) m hr hs
      have hl := Member.leave_unhandled' (tiTravList D (D.enter ti i) (ATree.eraseList cs)) i _ c2 (by rw [c1]; rfl)
      rw [hl]
      exact ⟨c1, c2, c3, c4⟩
  · intro _ _ ti m hr hs
    simp [ATree.eraseList, Member.travList, outerList, foldSt, hr, hs]
  · intro t ts iht ihts hfind hnd ti m hr hs
    simp only [ATree.idsList, List.nodup_append] at hnd
    simp only [ATree.nodesList, List.mem_append] at hfind
    rw [ATree.eraseList, Member.travList, outerList, foldSt_append]
    obtain ⟨a1, a2, a3, a4⟩ := iht (fun n hn => hfind n (Or.inl hn)) hnd.1 ti m hr hs
    obtain ⟨b1, b2, b3, b4⟩ := ihts (fun n hn => hfind n (Or.inr hn)) hnd.2.1 (tiTrav D ti t.erase) _ a1 a2
    refine ⟨b1, b2, ?_, ?_⟩
    · rw [b3, a3]
    · rw [b4, a4, a3]; simp [List.append_assoc]

/-- the names of the named operation definitions among `ns`, in order -/
def opNames (ns : List ATree) : List String :=
  (ns.filter (fun n => n.kind == "operation_definition")).filterMap (fun n => (n.kid "name").map (·.value))

theorem lookupName_snoc (x v : String) (id : Nat) (known : List (String × Nat)) :
    lookupName x (known ++ [(v, id)]) = none ↔ lookupName x known = none ∧ v ≠ x := by
  induction known with
  | nil => simp [lookupName]
  | cons kv rest ih =>
    obtain ⟨k', v'⟩ := kv
    by_cases h : k' = x
    · simp [lookupName, h]
    · simp [lookupName, h, ih]

theorem foldSt_errs_nil (ns : List ATree) : ∀ s : RS,
    (foldSt s ns).2 = [] ↔ (opNames ns).Nodup ∧ ∀ x ∈ opNames ns, lookupName x s.known = none := by
  induction ns with
  | nil => intro s; simp [foldSt, opNames]
  | cons n ns ih =>
    intro s
    rw [foldSt]
    simp only [List.append_eq_nil_iff]
    rw [ih]
    by_cases hop : (n.kind == "operation_definition") = true
    · cases hnm : n.kid "name" with
      | none =>
        have h1 : opStep s n = (s, []) := by simp [opStep, hop, hnm]
        have h2 : opNames (n :: ns) = opNames ns := by simp [opNames, hop, hnm]
        rw [h1, h2]; simp
      | some nm =>
        have h2 : opNames (n :: ns) = nm.value :: opNames ns := by simp [opNames, hop, hnm]
        rw [h2]
        cases hl : lookupName nm.value s.known with
        | some prev =>
          have h1 : (opStep s n).2 ≠ [] := by simp [opStep, hop, hnm, uniqueStep, hl]
          constructor
          · rintro ⟨h, _⟩; exact absurd h h1
          · rintro ⟨_, h⟩
            have := h nm.value (List.mem_cons_self)
            rw [hl] at this; simp at this
        | none =>
          have h1 : opStep s n = ({ s with known := s.known ++ [(nm.value, nm.id)] }, []) := by
            simp [opStep, hop, hnm, uniqueStep, hl]
          rw [h1]
          simp only [List.nodup_cons, List.mem_cons, forall_eq_or_imp, true_and, lookupName_snoc]
          constructor
          · rintro ⟨hnd, h⟩
            refine ⟨⟨?_, hnd⟩, hl, fun x hx => (h x hx).1⟩
            intro hmem
            exact (h _ hmem).2 rfl
          · rintro ⟨⟨hni, hnd⟩, _, h⟩
            refine ⟨hnd, fun x hx => ⟨h x hx, ?_⟩⟩
            intro he
            exact hni (he ▸ hx)
    · have hop' : (n.kind == "operation_definition") = false := by simpa using hop
      have h1 : opStep s n = (s, []) := by simp [opStep, hop']
      have h2 : opNames (n :: ns) = opNames ns := by simp [opNames, hop']
      rw [h1, h2]; simp

namespace Spec
/-- "The named operations of the document have pairwise distinct names" (spec §5.2.1.1); `outer doc` are the
operation / fragment definitions of the document. -/
def uniqueOperationNames (doc : ATree) : Prop := (opNames (outer doc)).Nodup
end Spec

theorem uniqueOperationNames_iff (tbl : TITable) (L : Lookups τ) (doc : ATree) (hu : doc.uniqueIds) :
    validate tbl L none [(uniqueOperationNames doc, RS.init)] doc.erase = [] ↔ Spec.uniqueOperationNames doc := by
  rw [validate_single_eq, List.map_eq_nil_iff]
  have h := (uon_trav doc (realDriver tbl L)).1 doc (fun n hn => ATree.find_of_mem.1 doc hu n hn) hu TI.init
    (Member.start (uniqueOperationNames doc) RS.init) rfl rfl
  rw [h.2.2.2]
  simp only [Member.start, List.nil_append]
  rw [foldSt_errs_nil]
  unfold Spec.uniqueOperationNames
  constructor
  · exact fun h => h.1
  · intro h
    exact ⟨h, fun x _ => rfl⟩

end Gql.Validation.Rules
