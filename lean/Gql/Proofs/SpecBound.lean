import Gql.Proofs.SpecKeep
/-!
The number of loop iterations of a non-editing traversal is at most twice the size of the tree
(nodes + tuples + absent attribute slots), for trees that carry exactly the traversed attributes.
-/
namespace Gql.Syntax
open Gql Gql.Syntax.Spec

variable {σ : Type}

theorem lookup_append_right (pre suf : List (String × Child)) (k : String) (h : k ∉ pre.map Prod.fst) :
    (pre ++ suf).lookup k = suf.lookup k := by
  induction pre with
  | nil => rfl
  | cons hd tl ih =>
    obtain ⟨k', c'⟩ := hd
    simp only [List.map_cons, List.mem_cons, not_or] at h
    simp only [List.cons_append, List.lookup]
    have : (k == k') = false := by simp [h.1]
    rw [this]
    exact ih h.2

def BoundRec (vk : String → List String) (rec : Rec σ) : Prop :=
  ∀ w c key parent anc path r, c.keyed vk = true → rec w c key parent anc path = some r →
    r.w.iters ≤ w.iters + 2 * c.size

theorem items_bound {vk : String → List String} {rec : Rec σ} (hrec : BoundRec vk rec) (parent : Option Val)
    (anc : List Val) (path : List Key) :
    ∀ (suf : List Node) (w : W σ) (i : Nat) (res : Res σ (List Node × Bool)),
      keyedNodes vk suf = true → specItems rec parent anc path w suf i = some res →
      res.w.iters ≤ w.iters + 2 * sizeNodes suf := by
  intro suf
  induction suf with
  | nil => intro w i res _ h; simp [specItems] at h; subst h; simp [Res.w]
  | cons c suf ih =>
    intro w i res hk h
    simp only [keyedNodes, Bool.and_eq_true] at hk
    simp only [specItems] at h
    simp only [sizeNodes]
    cases hr : rec w c (.idx i) parent anc (path ++ [.idx i]) with
    | none => simp [hr] at h
    | some r1 =>
      have h1 := hrec _ _ _ _ _ _ _ hk.1 hr
      rw [hr] at h
      cases r1 with
      | brk w1 => simp at h; subst h; simp only [Res.w] at h1 ⊢; omega
      | done w1 sl =>
        simp only [] at h
        cases hr2 : specItems rec parent anc path w1 suf (i + 1) with
        | none => simp [hr2] at h
        | some r2 =>
          have h2 := ih w1 (i + 1) r2 hk.2 hr2
          rw [hr2] at h
          have : res.w = r2.w := by
            cases r2 with
            | brk w2 => simp at h; subst h; rfl
            | done w2 q => simp at h; subst h; rfl
          rw [this]
          simp only [Res.w] at h1
          omega

theorem keys_bound {vk : String → List String} {rec : Rec σ} (hrec : BoundRec vk rec) (m : Node)
    (anc : List Val) (path : List Key) (hnd : (m.fields.map Prod.fst).Nodup) :
    ∀ (suf pre : List (String × Child)) (w : W σ) (res : Res σ (List (String × Child))),
      m.fields = pre ++ suf → keyedFields vk suf = true →
      specKeys rec m anc path w (suf.map Prod.fst) = some res →
      res.w.iters ≤ w.iters + 2 * sizeFields suf := by
  intro suf
  induction suf with
  | nil => intro pre w res _ _ h; simp [specKeys] at h; subst h; simp [Res.w]
  | cons hd suf ih =>
    intro pre w res hfs hk h
    obtain ⟨k, c⟩ := hd
    simp only [keyedFields, Bool.and_eq_true] at hk
    simp only [List.map_cons, specKeys] at h
    simp only [sizeFields]
    have hattr : m.attr k = c := by
      have hnot : k ∉ pre.map Prod.fst := by
        rw [hfs] at hnd
        simp only [List.map_append, List.map_cons] at hnd
        have := (List.nodup_append.mp hnd).2.2
        intro hk'
        exact this k hk' k (by simp) rfl
      simp [Node.attr, hfs, lookup_append_right pre _ k hnot, List.lookup]
    have tailcase : ∀ (w1 : W σ) (r2 : Res σ (List (String × Child))), w1.iters ≤ w.iters + 2 * c.size →
        specKeys rec m anc path w1 (suf.map Prod.fst) = some r2 → res.w = r2.w →
        res.w.iters ≤ w.iters + (c.size + sizeFields suf) * 2 := by
      intro w1 r2 h1 h2 he
      have := ih (pre ++ [(k, c)]) w1 r2 (by simp [hfs]) hk.2 h2
      rw [he]; omega
    have hgoal : res.w.iters ≤ w.iters + (c.size + sizeFields suf) * 2 := by
      rw [hattr] at h
      cases c with
      | absent =>
        simp only [] at h
        split at h
        · simp at h
        · next _ w2 heq => simp at h; subst h; exact tailcase _ (Res.brk w2) (by simp [Child.size]) heq rfl
        · next _ w2 es heq => simp at h; subst h; exact tailcase _ (Res.done w2 es) (by simp [Child.size]) heq rfl
      | one n =>
        simp only [] at h
        simp only [Child.keyed] at hk
        cases hr : rec w n (.name k) (some (.node m)) anc (path ++ [.name k]) with
        | none => simp [hr] at h
        | some r1 =>
          have h1 := hrec _ _ _ _ _ _ _ hk.1 hr
          rw [hr] at h
          cases r1 with
          | brk w1 => simp at h; subst h; simp only [Res.w, Child.size] at h1 ⊢; omega
          | done w1 sl =>
            simp only [Res.w] at h1
            cases sl <;> simp only [] at h <;>
              (split at h
               · simp at h
               · next _ w2 heq => simp at h; subst h; exact tailcase w1 (Res.brk w2) (by simp only [Child.size]; omega) heq rfl
               · next _ w2 es heq => simp at h; subst h; exact tailcase w1 (Res.done w2 es) (by simp only [Child.size]; omega) heq rfl)
      | many cs =>
        simp only [] at h
        simp only [Child.keyed] at hk
        cases hr : specItems rec (some (.arr cs)) (anc ++ [.node m]) (path ++ [.name k])
            { w with iters := w.iters + 1 } cs 0 with
        | none => simp [hr] at h
        | some r1 =>
          have h1 := items_bound hrec _ _ _ cs _ 0 r1 hk.1 hr
          rw [hr] at h
          cases r1 with
          | brk w1 => simp at h; subst h; simp only [Res.w, Child.size] at h1 ⊢; omega
          | done w1 p =>
            obtain ⟨cs', ch⟩ := p
            simp only [Res.w] at h1
            simp only [] at h
            split at h
            · simp at h
            · next _ w2 heq =>
              simp at h; subst h
              exact tailcase { w1 with iters := w1.iters + 1 } (Res.brk w2) (by simp only [Child.size]; omega) heq rfl
            · next _ w2 es heq =>
              simp at h; subst h
              exact tailcase { w1 with iters := w1.iters + 1 } (Res.done w2 es) (by simp only [Child.size]; omega) heq rfl
    omega


theorem one_le_size (n : Node) : 1 ≤ n.size := by
  obtain ⟨k, s, p, fs⟩ := n
  simp only [Node.size]; omega

theorem node_bound {vk : String → List String} {v : Visitor σ} (hv : NonEditing v) :
    ∀ d, BoundRec vk (specNode vk v d) := by
  intro d
  induction d with
  | zero => intro w c key parent anc path r _ h; simp [specNode] at h
  | succ d ih =>
    intro w c key parent anc path r hkd h
    have hsz := one_le_size c
    simp only [specNode, specBody] at h
    have hne := hv w.s ⟨.enter, c, key, parent, path, anc⟩
    rcases hcall : v w.s ⟨.enter, c, key, parent, path, anc⟩ with ⟨a, s1⟩
    rw [hcall] at hne h
    simp only [] at hne h
    cases a with
    | remove => simp [Action.isEdit] at hne
    | replace r => simp [Action.isEdit] at hne
    | brk => simp at h; subst h; simp only [Res.w]; omega
    | skip => simp at h; subst h; simp only [Res.w]; omega
    | idle =>
      simp only [] at h
      obtain ⟨kd, sr, pl, fs⟩ := c
      simp only [Node.keyed, Bool.and_eq_true, decide_eq_true_eq] at hkd
      obtain ⟨⟨hvk, hnd⟩, hkf⟩ := hkd
      simp only [Node.kind_mk] at h
      rw [hvk] at h
      cases hk : specKeys (specNode vk v d) (Node.mk kd sr pl fs) (anc ++ parent.toList) path
          { s := s1, iters := w.iters + 1, edited := w.edited } (fs.map Prod.fst) with
      | none => simp [hk] at h
      | some rk =>
        have hb := keys_bound ih (Node.mk kd sr pl fs) _ _ (by simpa using hnd) fs [] _ rk (by simp) hkf hk
        rw [hk] at h
        simp only [Node.size]
        cases rk with
        | brk w2 => simp at h; subst h; simp only [Res.w] at hb ⊢; omega
        | done w2 es =>
          simp only [Res.w] at hb
          have hes := keys_keep (node_keep hv d) _ _ _ _ _ _ _ hk
          subst hes
          simp only [List.isEmpty_nil, reduceIte] at h
          rcases hcall2 : v w2.s ⟨.leave, Node.mk kd sr pl fs, key, parent, path, anc⟩ with ⟨a2, s3⟩
          rw [hcall2] at h
          simp only [] at h
          cases a2 <;> simp at h <;> subst h <;> simp only [Res.w] <;> omega

/-- the documented traversal of a non-editing visitor needs at most `2 * size` loop iterations -/
theorem spec_iters_bound {vk : String → List String} {v : Visitor σ} (hv : NonEditing v) (d : Nat)
    (root : Node) (hk : root.keyed vk = true) (s : σ) (out : Outcome σ)
    (h : specVisit vk v d root s = some out) : out.iters ≤ 2 * root.size := by
  unfold specVisit at h
  cases hn : specNode vk v d ⟨s, 0, false⟩ root .none none [] [] with
  | none => simp [hn] at h
  | some r =>
    have hb := node_bound (vk := vk) hv d _ _ _ _ _ _ _ hk hn
    rw [hn] at h
    cases r with
    | brk w => simp at h; subst h; simpa [Res.w] using hb
    | done w sl => cases sl <;> simp at h <;> subst h <;> simpa [Res.w] using hb

end Gql.Syntax
