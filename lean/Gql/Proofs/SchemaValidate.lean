import Gql.Types.SchemaValidate
import Gql.Spec.TypeSystem
/-
Lemmas for C20 (`Gql/Props/C20.lean`).
Part 1: `validate_schema` (repaired code) never raises.
-/
namespace Gql.Types
open Gql

/-- the call returned normally -/
def IsOk {α : Type} (x : Out Unit α) : Prop := ∃ a, x = .ok a

theorem isOk_ok {α : Type} (a : α) : IsOk (Out.ok a : Out Unit α) := ⟨a, rfl⟩

theorem mapOk_isOk {α β : Type} (g : α → β) {x : Out Unit α} (h : IsOk x) : IsOk (Out.mapOk g x) := by
  obtain ⟨a, rfl⟩ := h
  exact ⟨g a, rfl⟩

theorem outFlatMap_isOk {α β : Type} (f : α → Out Unit (List β)) :
    ∀ l : List α, (∀ x ∈ l, IsOk (f x)) → IsOk (outFlatMap f l)
  | [], _ => ⟨[], rfl⟩
  | x :: xs, h => by
    obtain ⟨e, he⟩ := h x (by simp)
    obtain ⟨es, hes⟩ := outFlatMap_isOk f xs (fun y hy => h y (by simp [hy]))
    exact ⟨e ++ es, by simp [outFlatMap, he, hes]⟩

/-! ### the literal validator is only ever handed input types -/

theorem peel_items {s : RawSchema} {a b : Bool} : ∀ {t t' : TRef}, s.isInputType t = true →
    peel a b t = .items t' → s.isInputType t' = true
  | .named n, t', _, hp => by
    unfold peel at hp; split at hp <;> simp at hp
  | .list t, t', h, hp => by
    unfold peel at hp
    simp only [RawSchema.isInputType] at h
    split at hp
    · simp at hp
    · split at hp
      · simp at hp; subst hp; exact h
      · exact peel_items h hp
  | .nonNull t, t', h, hp => by
    unfold peel at hp
    simp only [RawSchema.isInputType] at h
    split at hp
    · simp at hp
    · exact peel_items h hp

theorem peel_named {s : RawSchema} {a b : Bool} : ∀ {t : TRef} {n : Str}, s.isInputType t = true →
    peel a b t = .named n → s.isInputNamed n = true
  | .named m, n, h, hp => by
    unfold peel at hp
    simp only [RawSchema.isInputType] at h
    split at hp <;> simp at hp
    subst hp; exact h
  | .list t, n, h, hp => by
    unfold peel at hp
    simp only [RawSchema.isInputType] at h
    split at hp
    · simp at hp
    · split at hp
      · simp at hp
      · exact peel_named h hp
  | .nonNull t, n, h, hp => by
    unfold peel at hp
    simp only [RawSchema.isInputType] at h
    split at hp
    · simp at hp
    · exact peel_named h hp

/-- `assert_leaf_type` cannot fail on a named input type -/
theorem vLeaf_isOk {s : RawSchema} {n : Str} (sh : Shape) (h : s.isInputNamed n = true) :
    IsOk (vLeaf s n sh) := by
  unfold RawSchema.isInputNamed at h
  unfold vLeaf
  split at h <;> simp_all [IsOk]

theorem vObject_isOk (s : RawSchema) (fields : List InputValue) (oneOf : Bool)
    (entries : List (Str × Bool)) (subs : List (Str × (TRef → Out Unit (List VErr))))
    (h : ∀ k g, lookupLast subs k = some g → ∀ t, s.isInputType t = true → IsOk (g t)) :
    IsOk (vObject s true fields oneOf entries subs) := by
  unfold vObject
  have h1 := outFlatMap_isOk (vObjField s true subs) fields (by
    intro fd _
    unfold vObjField
    split
    · exact isOk_ok _
    · rename_i g hg
      by_cases hi : s.isInputType fd.type = true
      · simp only [hi, Bool.not_true, Bool.and_false]
        exact mapOk_isOk _ (h _ g hg _ hi)
      · simp only [Bool.not_eq_true] at hi
        simp only [hi, Bool.not_false, Bool.and_self]
        exact isOk_ok _)
  obtain ⟨p1, hp1⟩ := h1
  rw [hp1]
  exact isOk_ok _

mutual
theorem vLit_isOk (s : RawSchema) : ∀ (v : Lit) (t : TRef), s.isInputType t = true →
    IsOk (vLit s true v t)
  | .list xs, t, h => by
    unfold vLit
    split
    · rename_i t' hp; exact vLits_isOk s xs t' 0 (peel_items h hp)
    · rename_i n hp; exact vLeaf_isOk _ (peel_named h hp)
    · exact isOk_ok _
  | .obj fs, t, h => by
    unfold vLit
    split
    · rename_i n hp
      split
      · exact vObject_isOk s _ _ _ _ (vEntries_isOk s fs)
      · exact vLeaf_isOk _ (peel_named h hp)
    · exact isOk_ok _
  | .null, t, h => by unfold vLit; split <;> exact isOk_ok _
  | .int i, t, h => by
    unfold vLit; split
    · rename_i n hp; exact vLeaf_isOk _ (peel_named h hp)
    · exact isOk_ok _
  | .float, t, h => by
    unfold vLit; split
    · rename_i n hp; exact vLeaf_isOk _ (peel_named h hp)
    · exact isOk_ok _
  | .str, t, h => by
    unfold vLit; split
    · rename_i n hp; exact vLeaf_isOk _ (peel_named h hp)
    · exact isOk_ok _
  | .bool, t, h => by
    unfold vLit; split
    · rename_i n hp; exact vLeaf_isOk _ (peel_named h hp)
    · exact isOk_ok _
  | .enum v, t, h => by
    unfold vLit; split
    · rename_i n hp; exact vLeaf_isOk _ (peel_named h hp)
    · exact isOk_ok _
theorem vLits_isOk (s : RawSchema) : ∀ (xs : List Lit) (t : TRef) (i : Nat), s.isInputType t = true →
    IsOk (vLits s true xs t i)
  | [], _, _, _ => by unfold vLits; exact isOk_ok _
  | x :: xs, t, i, h => by
    obtain ⟨e, he⟩ := vLit_isOk s x t h
    obtain ⟨es, hes⟩ := vLits_isOk s xs t (i + 1) h
    unfold vLits
    simp only [he, hes]
    exact isOk_ok _
theorem vEntries_isOk (s : RawSchema) : ∀ (fs : List (Str × Lit)) (k : Str)
    (g : TRef → Out Unit (List VErr)), lookupLast (vEntries s true fs) k = some g →
    ∀ t, s.isInputType t = true → IsOk (g t)
  | [], k, g, hl => by simp [vEntries, lookupLast] at hl
  | e :: rest, k, g, hl => by
    unfold vEntries lookupLast at hl
    split at hl
    · rename_i x hx
      simp at hl; subst hl
      exact vEntries_isOk s rest k x hx
    · split at hl
      · simp at hl; subst hl
        exact fun t ht => vLit_isOk s e.2 t ht
      · simp at hl
end


/-! ### `validate_schema` returns normally -/

theorem validateDefault_isOk (s : RawSchema) (iv : InputValue) (c : Str) :
    IsOk (validateDefault s iv c) := by
  unfold validateDefault
  split
  · exact isOk_ok _
  · by_cases hi : s.isInputType iv.type = true
    · simp only [hi, Bool.not_true, Bool.false_eq_true, ↓reduceIte]
      exact mapOk_isOk _ (vLit_isOk s _ _ hi)
    · simp only [Bool.not_eq_true] at hi
      simp only [hi, Bool.not_false, ↓reduceIte]
      exact isOk_ok _

section
variable (s : RawSchema) (dflt : RawSchema → InputValue → Str → Out Unit (List Err))
  (hd : ∀ iv c, IsOk (dflt s iv c))
include hd

theorem validateArg_isOk (base : Str) (a : InputValue) : IsOk (validateArg s dflt base a) :=
  mapOk_isOk _ (hd _ _)

theorem validateDirective_isOk (d : Directive) : IsOk (validateDirective s dflt d) :=
  mapOk_isOk _ (outFlatMap_isOk _ _ (fun a _ => validateArg_isOk s dflt hd _ a))

theorem validateDirectives_isOk : IsOk (validateDirectives s dflt) :=
  outFlatMap_isOk _ _ (fun d _ => validateDirective_isOk s dflt hd d)

theorem validateField_isOk (tn : Str) (f : Field) : IsOk (validateField s dflt tn f) :=
  mapOk_isOk _ (outFlatMap_isOk _ _ (fun a _ => validateArg_isOk s dflt hd _ a))

theorem validateFields_isOk (tn : Str) (fs : List Field) : IsOk (validateFields s dflt tn fs) :=
  mapOk_isOk _ (outFlatMap_isOk _ _ (fun f _ => validateField_isOk s dflt hd tn f))

theorem validateInputField_isOk (tn : Str) (o : Bool) (f : InputValue) :
    IsOk (validateInputField s dflt tn o f) :=
  mapOk_isOk _ (hd _ _)

theorem validateInputFields_isOk (tn : Str) (fs : List InputValue) (o : Bool) :
    IsOk (validateInputFields s dflt tn fs o) :=
  mapOk_isOk _ (outFlatMap_isOk _ _ (fun f _ => validateInputField_isOk s dflt hd tn o f))

theorem validateType_isOk (t : NamedType) (st : VState) : IsOk (validateType s dflt t st) := by
  rcases t with ⟨name, defn⟩
  cases defn <;> simp only [validateType]
  · exact isOk_ok _
  · exact mapOk_isOk _ (validateFields_isOk s dflt hd _ _)
  · exact mapOk_isOk _ (validateFields_isOk s dflt hd _ _)
  · exact isOk_ok _
  · exact isOk_ok _
  · exact mapOk_isOk _ (validateInputFields_isOk s dflt hd _ _ _)

theorem validateTypesLoop_isOk : ∀ (ts : List NamedType) (st : VState),
    IsOk (validateTypesLoop s dflt ts st)
  | [], st => isOk_ok _
  | t :: ts, st => by
    obtain ⟨⟨e, st1⟩, h1⟩ := validateType_isOk s dflt hd t st
    obtain ⟨⟨es, st2⟩, h2⟩ := validateTypesLoop_isOk ts st1
    unfold validateTypesLoop
    simp only [h1, h2]
    exact isOk_ok _

theorem validateSchemaWith_isOk : IsOk (validateSchemaWith dflt s) := by
  obtain ⟨ds, h1⟩ := validateDirectives_isOk s dflt hd
  obtain ⟨⟨ts, st⟩, h2⟩ := validateTypesLoop_isOk s dflt hd s.types ⟨[], [], false⟩
  unfold validateSchemaWith
  simp only [h1, h2]
  exact isOk_ok _
end

theorem validateSchema_isOk (s : RawSchema) : IsOk (validateSchema s) :=
  mapOk_isOk _ (validateSchemaWith_isOk s validateDefault (validateDefault_isOk s))

end Gql.Types
