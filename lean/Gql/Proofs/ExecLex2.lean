import Gql.Proofs.ExecDefs2
/-!
`render_lex` for stage 2: types inside text, descriptions, variable definitions, definitions.
-/
namespace Gql.Text
open Gql.Syntax

/-- A printed type, anywhere in a text. -/
theorem Lexes.ty (t : Ty) (h : t.wf = true) : Lexes true t.print t.kvs := by
  intro pre rest fuel st acc hs
  obtain ⟨toks, hkv, heq⟩ := lexAux_ty t pre rest (fuel + t.kvs.length) st acc h (hs rfl).toStops (by omega)
  exact ⟨toks, st, hkv, by simpa using heq⟩

theorem ty_no10 (t : Ty) (h : t.wf = true) : ∀ c ∈ t.print, c ≠ 10 := by
  induction t with
  | named n => exact name_no10 h
  | list t ih =>
    intro c hc
    simp only [Ty.print, List.mem_append, List.mem_cons, List.not_mem_nil, or_false] at hc
    rcases hc with (rfl | hc) | rfl
    · omega
    · exact ih h c hc
    · omega
  | nonNull t ih =>
    intro c hc
    simp only [Ty.print, List.mem_append, List.mem_cons, List.not_mem_nil, or_false] at hc
    rcases hc with hc | rfl
    · exact ih h c hc
    · omega

section
variable (w : Widths) (hw : 4 ≤ w.object)
variable (hT : tableOK Generated.escapeTable = true) (hC : tableComplete Generated.escapeTable = true)
include hw hT hC

/-- A description (a string value in either form), re-indented. -/
theorem lexes_desc (d : Desc) (h : Exec.descWf d) (k : Nat) :
    LexOpt (indentLF k (Exec.descText w d)) (Exec.descKvs d) := by
  match d, h with
  | none, _ => left; simp [Exec.descText, indentLF, Exec.descKvs]
  | some (s, true), h =>
    right
    simp only [Exec.descText, ↓reduceIte, Exec.descKvs]
    refine ⟨indentLF_ne_nil (by simp [printBlockStringW]), Lexes.block k w.block s h.1 (h.2 rfl)⟩
  | some (s, false), h =>
    right
    simp only [Exec.descText, Bool.false_eq_true, ↓reduceIte, Exec.descKvs]
    rw [indentLF_no10 k _ (printString_no10 hT hC s)]
    exact ⟨by simp [printString, printStringWith], Lexes.string s h.1 hT hC⟩

/-- `wrap("", description, "\n")` in front of a lexable rest. -/
theorem lexes_descPre (d : Desc) (h : Exec.descWf d) (k : Nat) {R : List Nat} {kr : List KV} {s : Bool}
    (hR : Lexes s R kr) :
    Lexes s (indentLF k (wrap [] (Exec.descText w d) [10]) ++ R) (Exec.descKvs d ++ kr) := by
  rw [indentLF_wrap]
  rcases lexes_desc w hw hT hC d h k with ⟨h0, hk0⟩ | ⟨hne, hL⟩
  · rw [h0, hk0]; simpa [wrap] using hR
  · have h1 := Lexes.append_ign hL (sep := indentLF k [10]) (by rw [indentLF_lf]; exact ignorable_lf_spaces k)
      (by rw [indentLF_lf]; simp)
    have h2 := Lexes.append_l h1 hR
    obtain ⟨a, r, har⟩ := List.exists_cons_of_ne_nil hne
    simpa [wrap, har, indentLF, List.append_assoc] using h2

end

end Gql.Text

namespace Gql.Text
open Gql.Syntax

theorem S_eq : S " = " = [32, 61, 32] := by decide

/-- `A` followed by an optional ` = D`. -/
theorem lexes_optEquals {A D : List Nat} {ka kd : List KV} (ha : Lexes true A ka) (hd : LexOpt D kd) :
    Lexes true (A ++ wrap [32, 61, 32] D) (ka ++ (if D.isEmpty then [] else (.equals, none) :: kd)) := by
  rcases hd with ⟨rfl, rfl⟩ | ⟨hne, hD⟩
  · simpa [wrap] using ha
  · have h1 := Lexes.append_ign ha (sep := [32]) (by intro x hx; simp at hx; simp [hx]) (by simp)
    have h2 := Lexes.append_l h1 (Lexes.punct 61 .equals (by decide))
    have h3 := Lexes.append_l h2 (Lexes.ignorable [32] (by intro x hx; simp at hx; simp [hx]))
    have h4 := Lexes.append_l h3 hD
    obtain ⟨b, r, rfl⟩ := List.exists_cons_of_ne_nil hne
    simpa [wrap, List.append_assoc] using h4

section
variable (w : Widths) (hw : 4 ≤ w.object)
variable (hT : tableOK Generated.escapeTable = true) (hC : tableComplete Generated.escapeTable = true)
include hw hT hC

theorem lexes_varDef (vd : VarDef) (h : Exec.varDefWf vd) (k : Nat) :
    Lexes true (indentLF k (Exec.printVarDef w vd)) (Exec.varDefKvs vd) := by
  obtain ⟨hdesc, hname, hty, _, hdf, hds⟩ := h
  -- `$name: Type`
  have hcore : Lexes true (36 :: vd.name ++ S ": " ++ vd.ty.print)
      ((.dollar, none) :: (.name, some vd.name) :: (.colon, none) :: vd.ty.kvs) := by
    have h1 := Lexes.append_l (Lexes.punct 36 .dollar (by decide)) (Lexes.name vd.name hname)
    have h2 := Lexes.append_punct h1 58 .colon (by decide) (by decide)
    have h3 := Lexes.append_l h2 (Lexes.ignorable [32] (by intro x hx; simp at hx; simp [hx]))
    have h4 := Lexes.append_l h3 (Lexes.ty vd.ty hty)
    simpa [S_colon, List.append_assoc] using h4
  have hcore10 : ∀ x ∈ (36 :: vd.name ++ S ": " ++ vd.ty.print), x ≠ 10 := by
    intro x hx
    simp only [S_colon, List.cons_append, List.mem_cons, List.mem_append, List.not_mem_nil, or_false] at hx
    rcases hx with rfl | (hx | rfl | rfl) | hx
    · omega
    · exact name_no10 hname x hx
    · omega
    · omega
    · exact ty_no10 vd.ty hty x hx
  have hD : LexOpt (indentLF k (Exec.dfltText w vd.dflt)) (match vd.dflt with
      | none => []
      | some v => v.kvs) := by
    cases hv : vd.dflt with
    | none => left; simp [Exec.dfltText, indentLF]
    | some v =>
      rw [hv] at hdf
      right
      exact ⟨indentLF_ne_nil (print_ne_nil w hw true v hdf), lexV w hw true hT hC v hdf k⟩
  have hdirs := lexes_dirs w hw hT hC true vd.dirs hds k
  have h1 : Lexes true (indentLF k (36 :: vd.name ++ S ": " ++ vd.ty.print))
      ((.dollar, none) :: (.name, some vd.name) :: (.colon, none) :: vd.ty.kvs) := by
    rw [indentLF_no10 k _ hcore10]; exact hcore
  have h2 := lexes_optEquals h1 hD
  have h3 := lexes_optSpace h2 hdirs
  have h4 := lexes_descPre w hw hT hC vd.desc hdesc k h3
  unfold Exec.printVarDef Exec.varDefKvs
  simp only [indentLF_append, indentLF_wrap, S_eq]
  have hemp : (indentLF k (Exec.dfltText w vd.dflt)).isEmpty = vd.dflt.isNone := by
    rw [indentLF_isEmpty]
    cases hv : vd.dflt with
    | none => simp [Exec.dfltText]
    | some v =>
      rw [hv] at hdf
      have := print_ne_nil w hw true v hdf
      cases hp : Val.print w v with
      | nil => exact absurd hp this
      | cons a r => simp [Exec.dfltText, hp]
  rw [hemp] at h4
  cases hv : vd.dflt with
  | none => simpa [hv, indentLF, indentLF_append, indentLF_wrap, List.append_assoc] using h4
  | some v => simpa [hv, indentLF, indentLF_append, indentLF_wrap, List.append_assoc] using h4

end

end Gql.Text

namespace Gql.Text
open Gql.Syntax

theorem printVarDef_ne_nil (w : Widths) (vd : VarDef) : Exec.printVarDef w vd ≠ [] := by
  unfold Exec.printVarDef
  intro h
  have h1 := List.append_eq_nil_iff.mp h
  have h2 := List.append_eq_nil_iff.mp h1.1
  have h3 := List.append_eq_nil_iff.mp h2.1
  simp at h3

theorem printVarDefs_ne_nil (w : Widths) (vds : List VarDef) : ∀ t ∈ vds.map (Exec.printVarDef w), t ≠ [] := by
  intro t ht
  simp only [List.mem_map] at ht
  obtain ⟨vd, _, rfl⟩ := ht
  exact printVarDef_ne_nil w vd

theorem wrap_of_ne (s x e : List Nat) (h : x ≠ []) : wrap s x e = s ++ x ++ e := by
  cases x with
  | nil => exact absurd rfl h
  | cons a r => simp [wrap]

section
variable (w : Widths) (hw : 4 ≤ w.object)
variable (hT : tableOK Generated.escapeTable = true) (hC : tableComplete Generated.escapeTable = true)
include hw hT hC

theorem lexes_varDefsList (vds : List VarDef) (h : Exec.varDefsWf vds) (k : Nat) (sep : List Nat)
    (hsep : Ignorable sep) (hne : sep ≠ []) :
    Lexes true (joinWith sep ((vds.map (Exec.printVarDef w)).map (indentLF k))) (Exec.varDefsKvsList vds) := by
  induction vds with
  | nil => exact Lexes.nil.weaken true
  | cons vd r ih =>
    have hv := lexes_varDef w hw hT hC vd h.1 k
    have ih' := ih h.2
    cases r with
    | nil => simpa [joinWith, Exec.varDefsKvsList] using hv
    | cons vd' r' =>
      simp only [List.map_cons, joinWith, Exec.varDefsKvsList] at ih' ⊢
      have := Lexes.append_l (Lexes.append_ign hv hsep hne) ih'
      simpa [List.append_assoc] using this

/-- `(vd, vd)` — the one-line layout. -/
theorem lexes_varDefs_line (vds : List VarDef) (hne : vds ≠ []) (h : Exec.varDefsWf vds) (k : Nat) :
    Lexes true (indentLF k (wrap [40] (join (vds.map (Exec.printVarDef w)) [44, 32]) [41]))
      (Exec.varDefsKvs vds) := by
  have hts : vds.map (Exec.printVarDef w) ≠ [] := by simpa using hne
  have hnn := printVarDefs_ne_nil w vds
  rw [join_eq_joinWith _ _ hnn, wrap_of_ne _ _ _ (joinWith_eq_nil hnn hts)]
  have hJ := lexes_varDefsList w hw hT hC vds h k [44, 32]
    (by intro x hx; simp at hx; rcases hx with rfl | rfl <;> simp) (by simp)
  have := lexes_bracket 40 41 .parenL .parenR (by decide) (by decide) (by decide) [] [] _ _
    (by intro x hx; simp at hx) (by intro x hx; simp at hx) hJ
  obtain ⟨a, r, rfl⟩ := List.exists_cons_of_ne_nil hne
  simpa [indentLF_append, indentLF_joinWith, indentLF, List.append_assoc, Exec.varDefsKvs] using this

/-- `(LF vd LF vd LF)` — the multi-line layout of `leave_operation_definition` (not indented). -/
theorem lexes_varDefs_multi (vds : List VarDef) (hne : vds ≠ []) (h : Exec.varDefsWf vds) (k : Nat) :
    Lexes true (indentLF k (wrap [40, 10] (join (vds.map (Exec.printVarDef w)) [10]) [10, 41]))
      (Exec.varDefsKvs vds) := by
  have hts : vds.map (Exec.printVarDef w) ≠ [] := by simpa using hne
  have hnn := printVarDefs_ne_nil w vds
  rw [join_eq_joinWith _ _ hnn, wrap_of_ne _ _ _ (joinWith_eq_nil hnn hts)]
  have hJ := lexes_varDefsList w hw hT hC vds h k (10 :: List.replicate k 32) (ignorable_lf_spaces k) (by simp)
  have := lexes_bracket 40 41 .parenL .parenR (by decide) (by decide) (by decide)
    (10 :: List.replicate k 32) (10 :: List.replicate k 32) _ _ (ignorable_lf_spaces k) (ignorable_lf_spaces k) hJ
  obtain ⟨a, r, rfl⟩ := List.exists_cons_of_ne_nil hne
  simpa [indentLF_append, indentLF_joinWith, indentLF, List.append_assoc, Exec.varDefsKvs] using this

omit hw hT hC in
theorem varDefsOp_nil : Exec.varDefsOp w [] = [] := by
  simp [Exec.varDefsOp, hasMultilineItems, join, joinWith, wrap]

theorem lexes_varDefsOp (vds : List VarDef) (h : Exec.varDefsWf vds) (k : Nat) :
    LexOpt (indentLF k (Exec.varDefsOp w vds)) (Exec.varDefsKvs vds) := by
  by_cases hne : vds = []
  · subst hne; left; simp [varDefsOp_nil, indentLF, Exec.varDefsKvs]
  · right
    have hts : vds.map (Exec.printVarDef w) ≠ [] := by simpa using hne
    have hnn := printVarDefs_ne_nil w vds
    unfold Exec.varDefsOp
    simp only
    split
    · refine ⟨indentLF_ne_nil ?_, lexes_varDefs_multi w hw hT hC vds hne h k⟩
      rw [join_eq_joinWith _ _ hnn, wrap_of_ne _ _ _ (joinWith_eq_nil hnn hts)]; simp
    · refine ⟨indentLF_ne_nil ?_, lexes_varDefs_line w hw hT hC vds hne h k⟩
      rw [join_eq_joinWith _ _ hnn, wrap_of_ne _ _ _ (joinWith_eq_nil hnn hts)]; simp

theorem lexes_varDefsFrag (vds : List VarDef) (h : Exec.varDefsWf vds) (k : Nat) :
    LexOpt (indentLF k (wrap [40] (join (vds.map (Exec.printVarDef w)) [44, 32]) [41])) (Exec.varDefsKvs vds) := by
  by_cases hne : vds = []
  · subst hne; left; simp [join, joinWith, wrap, indentLF, Exec.varDefsKvs]
  · right
    have hts : vds.map (Exec.printVarDef w) ≠ [] := by simpa using hne
    have hnn := printVarDefs_ne_nil w vds
    refine ⟨indentLF_ne_nil ?_, lexes_varDefs_line w hw hT hC vds hne h k⟩
    rw [join_eq_joinWith _ _ hnn, wrap_of_ne _ _ _ (joinWith_eq_nil hnn hts)]; simp

end

end Gql.Text
