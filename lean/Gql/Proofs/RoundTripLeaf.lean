import Gql.Proofs.CoerceLiteralMain
/-
Literal round trip at leaf types (C15): the literal a scalar's / enum's `value_to_literal`
produces is read back by its `coerce_input_literal` as the coerced value.
-/
namespace Gql.Values
open Gql Gql.Generated.ScalarConsts

/-- CPython facts the round trip depends on (hypotheses, spot-checked by the round-trip oracle
of `checks/c15.py` on every generated case). -/
structure RoundTripLaws (c : PyConv) : Prop where
  /-- `int(str(z)) == z` -/
  int_str : ∀ z s, c.strOfInt z = some s → c.intOfStr s = some z
  /-- `float(repr(f)) == f` for finite `f` -/
  float_str : ∀ f, f.isFinite = true → c.floatOfStr (c.strOfFloat f) = some f
  /-- `float(str(z)) == float(z)` -/
  float_int_str : ∀ z s, c.strOfInt z = some s → c.floatOfStr s = c.floatOfInt z
  /-- an int that converts to float is short enough for `str()` -/
  str_of_floatable : ∀ z f, c.floatOfInt z = some f → ∃ s, c.strOfInt z = some s
  /-- `float(z)` exists for 32-bit `z` -/
  float_of_int32 : ∀ z : Int, -(2 ^ 31) ≤ z → z ≤ 2 ^ 31 - 1 → ∃ f, c.floatOfInt z = some f

def Lit.isScalarKind : Lit → Bool
  | .int _ | .float _ | .str _ | .bool _ | .enum _ => true
  | _ => false

theorem Lit.scalarKind_shape {l : Lit} (h : l.isScalarKind = true) :
    l.asVar = none ∧ l.isNull = false ∧ l.asList = none ∧ l.asObj = none := by
  cases l <;> simp_all [Lit.isScalarKind, Lit.asVar, Lit.isNull, Lit.asList, Lit.asObj]

section
variable (c : PyConv)

theorem defaultLit_num_kind {v : PyVal} {l : Lit} (h : defaultLit c v = .ok l) :
    (∃ z, v = .int z) ∨ (∃ f, v = .float f ∧ f.isFinite = true) → (∃ s, l = .int s) ∨ (∃ s, l = .float s) := by
  rintro (⟨z, rfl⟩ | ⟨f, rfl, hf⟩)
  · simp only [defaultLit] at h
    split at h
    · simp at h
    · simp only [Out.ok.injEq] at h; subst h; split <;> simp
  · simp only [defaultLit, hf, Bool.not_true, Bool.false_eq_true, ↓reduceIte, Out.ok.injEq] at h
    subst h; split <;> simp

/-- every literal a built-in scalar's `value_to_literal` returns is of a scalar kind -/
theorem scalar_valueToLiteral_kind (s : Scalar) (v : PyVal) (l : Lit)
    (h : s.valueToLiteral c v = .ok (some l)) : l.isScalarKind = true := by
  cases s <;> simp only [Scalar.valueToLiteral] at h
  · cases v <;> simp only [intValueToLiteral] at h
    all_goals try (simp at h; done)
    all_goals repeat' split at h
    all_goals try (simp at h; done)
    all_goals first
      | (simp at h; done)
      | (simp only [Out.ok.injEq, Option.some.injEq] at h; subst h; rfl)
  · unfold floatValueToLiteral at h
    split at h
    all_goals try (simp at h; done)
    all_goals (simp only [Out.ok.injEq, Option.some.injEq] at h; subst h; rfl)
  · unfold stringValueToLiteral at h
    split at h
    all_goals try (simp at h; done)
    all_goals (simp only [Out.ok.injEq, Option.some.injEq] at h; subst h; rfl)
  · unfold booleanValueToLiteral at h
    split at h
    all_goals try (simp at h; done)
    all_goals (simp only [Out.ok.injEq, Option.some.injEq] at h; subst h; rfl)
  · cases v <;> simp only [idValueToLiteral] at h
    all_goals try (simp at h; done)
    all_goals repeat' split at h
    all_goals first
      | (simp at h; done)
      | (simp only [Out.ok.injEq, Option.some.injEq] at h; subst h; rfl)
      | (simp only [Out.ok.injEq, Option.some.injEq] at h; subst h; split <;> rfl)

theorem leafToLiteral_kind (leaf : Leaf) (v : PyVal) (l : Lit) (h : leafToLiteral c leaf v = some l) :
    l.isScalarKind = true := by
  cases leaf with
  | scalar s =>
    simp only [leafToLiteral] at h
    split at h
    · rename_i r hr; subst h; exact scalar_valueToLiteral_kind c s v l hr
    · simp at h
  | enum e =>
    simp only [leafToLiteral] at h
    cases v <;> simp only [EnumType.valueToLiteral] at h
    all_goals try (simp at h; done)
    split at h
    · simp only [Option.some.injEq] at h; subst h; rfl
    · simp at h

/-- round trip for the five built-in scalars -/
theorem scalar_roundtrip (hL : RoundTripLaws c) (s : Scalar) (v r : PyVal)
    (h : s.coerceValue c v = .ok r) :
    ∃ l, s.valueToLiteral c v = .ok (some l) ∧ s.coerceLiteral c l = .ok r := by
  cases s <;> simp only [Scalar.coerceValue] at h <;> simp only [Scalar.valueToLiteral, Scalar.coerceLiteral]
  · -- Int
    cases v <;> simp only [coerceInt, coerceIntFromInt, coerceIntFromFloat] at h
    all_goals try (simp at h; done)
    · rename_i z
      split at h
      · simp at h
      · rename_i hr
        simp only [Out.ok.injEq] at h; subst h
        have hr' : inIntRange z = true := by simpa using hr
        obtain ⟨hlo, hhi⟩ := (inIntRange_iff z).1 hr'
        obtain ⟨f, hf⟩ := hL.float_of_int32 z hlo hhi
        obtain ⟨s, hs⟩ := hL.str_of_floatable z f hf
        refine ⟨.int s, by simp [intValueToLiteral, hf, hr', hs], ?_⟩
        simp [parseIntLiteral, hL.int_str z s hs, hr']
    · rename_i f
      repeat' split at h
      all_goals try (simp at h; done)
      rename_i hfin hint hr
      simp only [Out.ok.injEq] at h; subst h
      have hr' : inIntRange f.truncInt = true := by simpa using hr
      obtain ⟨hlo, hhi⟩ := (inIntRange_iff _).1 hr'
      obtain ⟨g, hg⟩ := hL.float_of_int32 _ hlo hhi
      obtain ⟨s, hs⟩ := hL.str_of_floatable _ g hg
      have hfin' : f.isFinite = true := by simpa using hfin
      have hint' : f.isIntegral = true := by simpa using hint
      refine ⟨.int s, by simp [intValueToLiteral, hfin', hint', hr', hs], ?_⟩
      simp [parseIntLiteral, hL.int_str _ s hs, hr']
  · -- Float
    cases v <;> simp only [coerceFloat, coerceFloatFromFloat, coerceFloatFromInt] at h
    all_goals try (simp at h; done)
    · rename_i z
      split at h
      · simp at h
      · rename_i num hnum
        cases num <;> simp only [PyFloat.toIntPy] at h
        all_goals try (simp at h; done)
        split at h
        · simp at h
        · simp only [Out.ok.injEq] at h; subst h
          obtain ⟨s, hs⟩ := hL.str_of_floatable z _ hnum
          have hfs := hL.float_int_str z s hs
          rw [hnum] at hfs
          by_cases hi : isIntegerString s = true
          · exact ⟨.int s, by simp [floatValueToLiteral, defaultLit, hs, hi],
              by simp [parseFloatLiteral, hfs, PyFloat.isFinite]⟩
          · exact ⟨.float s, by simp [floatValueToLiteral, defaultLit, hs, hi],
              by simp [parseFloatLiteral, hfs, PyFloat.isFinite]⟩
    · rename_i f
      split at h
      · simp at h
      · rename_i hfin
        simp only [Out.ok.injEq] at h; subst h
        have hfin' : f.isFinite = true := by simpa using hfin
        have hfs := hL.float_str f hfin'
        by_cases hi : isIntegerString (c.strOfFloat f) = true
        · exact ⟨.int (c.strOfFloat f), by simp [floatValueToLiteral, defaultLit, hfin', hi],
            by simp [parseFloatLiteral, hfs, hfin']⟩
        · exact ⟨.float (c.strOfFloat f), by simp [floatValueToLiteral, defaultLit, hfin', hi],
            by simp [parseFloatLiteral, hfs, hfin']⟩
  · -- String
    cases v <;> simp only [coerceString] at h
    all_goals try (simp at h; done)
    rename_i s0
    simp only [Out.ok.injEq] at h; subst h
    exact ⟨.str s0, by simp [stringValueToLiteral, defaultLit], rfl⟩
  · -- Boolean
    cases v <;> simp only [coerceBoolean] at h
    all_goals try (simp at h; done)
    rename_i b0
    simp only [Out.ok.injEq] at h; subst h
    exact ⟨.bool b0, by simp [booleanValueToLiteral, defaultLit], rfl⟩
  · -- ID
    cases v <;> simp only [coerceID, coerceIdFromFloat, strOfIntPy] at h
    all_goals try (simp at h; done)
    · rename_i z
      split at h
      · simp at h
      · rename_i s hs
        simp only [Out.ok.injEq] at h; subst h
        exact ⟨.int s, by simp [idValueToLiteral, strOfIntPy, hs], rfl⟩
    · rename_i f
      repeat' split at h
      all_goals try (simp at h; done)
      rename_i s hs
      simp only [Out.ok.injEq] at h; subst h
      have hfin : f.isFinite = true := by
        cases hf : f.isFinite <;> simp_all
      have hint : f.isIntegral = true := by
        cases hi : f.isIntegral <;> simp_all
      exact ⟨.int s, by simp [idValueToLiteral, coerceIdFromFloat, strOfIntPy, hfin, hint, hs], rfl⟩
    · rename_i s
      simp only [Out.ok.injEq] at h; subst h
      by_cases hi : isIntegerString s = true
      · exact ⟨.int s, by simp [idValueToLiteral, hi], rfl⟩
      · exact ⟨.str s, by simp [idValueToLiteral, hi], rfl⟩

/-- round trip at a leaf type: `leafValue` defined ⇒ `leafToLiteral` gives a literal that
`leafLiteral` reads back as the same value -/
theorem leaf_roundtrip (hL : RoundTripLaws c) (leaf : Leaf) (v : PyVal)
    (hu : leafValue c leaf v ≠ .undefined) :
    ∃ l, leafToLiteral c leaf v = some l ∧ leafLiteral c leaf l = leafValue c leaf v := by
  cases leaf with
  | scalar s =>
    unfold leafValue at hu ⊢
    simp only [Leaf.coerceInputValue] at hu ⊢
    cases hc : s.coerceValue c v with
    | ok r =>
      obtain ⟨l, hl, hcl⟩ := scalar_roundtrip c hL s v r hc
      exact ⟨l, by simp [leafToLiteral, hl], by simp [leafLiteral, Leaf.coerceInputLiteral, hcl]⟩
    | err e => rw [hc] at hu; simp at hu
    | crash k => rw [hc] at hu; simp at hu
  | enum e =>
    unfold leafValue at hu ⊢
    simp only [Leaf.coerceInputValue] at hu ⊢
    cases v <;> simp only [EnumType.coerceInputValue] at hu ⊢
    all_goals try (simp at hu; done)
    rename_i s
    cases hv : e.valueOf s with
    | none => rw [hv] at hu; simp at hu
    | some w =>
      exact ⟨.enum s, by simp [leafToLiteral, EnumType.valueToLiteral, hv],
        by simp [leafLiteral, Leaf.coerceInputLiteral, EnumType.coerceInputLiteral, hv]⟩

end
end Gql.Values
