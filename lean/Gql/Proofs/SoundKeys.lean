/-
C13 — a simple, statically checkable sufficient condition for `MergeOk`: throughout the operation
and the fragment definitions, a response key always selects the same field name.
-/
import Gql.Proofs.SoundGen6

namespace Gql.Exec.Valid
open Gql.Exec Gql.Exec.Refine

mutual
/-- (response key, field name) of every field selection, at every depth -/
def pairsSel : Selection → List (Name × Name)
  | .field alias name _ _ sels => ((match alias with | some a => a | none => name), name) :: pairsSels sels
  | .inline _ _ sels => pairsSels sels
  | .spread _ _ => []
def pairsSels : List Selection → List (Name × Name)
  | [] => []
  | sel :: rest => pairsSel sel ++ pairsSels rest
end

def allPairs (doc : Doc) (op : Operation) : List (Name × Name) :=
  pairsSels op.sels ++ doc.frags.flatMap (fun fr => pairsSels fr.sels)

/-- a response key determines the field name, everywhere in the operation and the fragments -/
def keyNamesConsistent (doc : Doc) (op : Operation) : Bool :=
  (allPairs doc op).all (fun p => (allPairs doc op).all (fun q => p.1 != q.1 || p.2 == q.2))

theorem pairsSels_append (a b : List Selection) : pairsSels (a ++ b) = pairsSels a ++ pairsSels b := by
  induction a with
  | nil => simp [pairsSels]
  | cons h t ih => simp [pairsSels, ih]

/-- the fields of the groups come from the document: their (key, name) and those of their
sub-selections are among `P`, and they sit under their own response key -/
def FromDoc (P : List (Name × Name)) (gs : Spec.Groups) : Prop :=
  ∀ p ∈ gs, ∀ f ∈ p.2, p.1 = f.key ∧ (f.key, f.name) ∈ P ∧ ∀ q ∈ pairsSels f.sels, q ∈ P

theorem FromDoc.appendGroups {P : List (Name × Name)} {gs : Spec.Groups} (h : FromDoc P gs)
    (k : Name) (fs : List FieldNode)
    (hf : ∀ f ∈ fs, k = f.key ∧ (f.key, f.name) ∈ P ∧ ∀ q ∈ pairsSels f.sels, q ∈ P) :
    FromDoc P (Spec.appendGroup gs k fs) := by
  induction gs with
  | nil =>
    intro p hp
    simp only [Spec.appendGroup, List.mem_singleton] at hp
    subst hp
    exact hf
  | cons hd t ih =>
    obtain ⟨k', fs'⟩ := hd
    have ht : FromDoc P t := fun p hp => h p (List.mem_cons_of_mem _ hp)
    have hhd := h (k', fs') (List.mem_cons_self ..)
    intro p hp
    simp only [Spec.appendGroup] at hp
    split at hp
    · rename_i hk
      have hk' : k' = k := by simpa using hk
      rcases List.mem_cons.1 hp with rfl | hp
      · intro f hf'
        rcases List.mem_append.1 hf' with hf' | hf'
        · exact hhd f hf'
        · have := hf f hf'
          exact ⟨hk' ▸ this.1, this.2⟩
      · exact ht p hp
    · rcases List.mem_cons.1 hp with rfl | hp
      · exact hhd
      · exact ih ht p hp

theorem FromDoc.mergeGroups {P : List (Name × Name)} {gs fg : Spec.Groups} (h : FromDoc P gs)
    (hf : FromDoc P fg) : FromDoc P (Spec.mergeGroups gs fg) := by
  induction fg generalizing gs with
  | nil => exact h
  | cons hd t ih =>
    obtain ⟨k, fs⟩ := hd
    exact ih (h.appendGroups k fs (hf (k, fs) (List.mem_cons_self ..)))
      (fun p hp => hf p (List.mem_cons_of_mem _ hp))

def FromDocOut (P : List (Name × Name)) : Out ErrKind (Spec.Groups × List Name) → Prop
  | .ok (gs, _) => FromDoc P gs
  | _ => True

variable (cx : Spec.Ctx) (rt : Name) (P : List (Name × Name))
variable (hfrags : ∀ n fr, cx.doc.frag n = some fr → ∀ q ∈ pairsSels fr.sels, q ∈ P)
variable (srecur : List Selection → List Name → Out ErrKind (Spec.Groups × List Name))
variable (hrec : ∀ sels vis, (∀ q ∈ pairsSels sels, q ∈ P) → FromDocOut P (srecur sels vis))

include hfrags hrec in
mutual
theorem collectOne_fromDoc : (sel : Selection) → ∀ (acc : Spec.Groups) (vis : List Name),
    (∀ q ∈ pairsSel sel, q ∈ P) → FromDoc P acc →
    FromDocOut P (Spec.collectOne cx rt srecur sel acc vis)
  | .field alias name args dirs sels, acc, vis, hp, hacc => by
    unfold Spec.collectOne
    cases Spec.included cx dirs with
    | none => simp [FromDocOut]
    | some b =>
      cases b with
      | false => exact hacc
      | true =>
        simp only [FromDocOut]
        apply hacc.appendGroups
        intro f hf
        simp only [List.mem_singleton] at hf
        subst hf
        refine ⟨rfl, hp _ ?_, fun q hq => hp q ?_⟩
        · cases alias <;> simp [pairsSel, FieldNode.key]
        · simp [pairsSel, hq]
  | .spread name dirs, acc, vis, hp, hacc => by
    unfold Spec.collectOne
    cases Spec.included cx dirs with
    | none => simp [FromDocOut]
    | some b =>
      cases b with
      | false => exact hacc
      | true =>
        simp only
        split
        · exact hacc
        · cases hf : cx.doc.frag name with
          | none => exact hacc
          | some fr =>
            simp only
            split
            · exact hacc
            · have h := hrec fr.sels (name :: vis) (hfrags name fr hf)
              revert h
              cases srecur fr.sels (name :: vis) with
              | crash c => simp [FromDocOut]
              | err e => simp [FromDocOut]
              | ok r => obtain ⟨fg, v'⟩ := r; simp only [FromDocOut]; exact fun h => hacc.mergeGroups h
  | .inline cond dirs sels, acc, vis, hp, hacc => by
    unfold Spec.collectOne
    cases Spec.included cx dirs with
    | none => simp [FromDocOut]
    | some b =>
      cases b with
      | false => exact hacc
      | true =>
        simp only
        have h := collectLoop_fromDoc sels [] vis (by simpa [pairsSel] using hp) (by intro p hp'; cases hp')
        cases cond with
        | none =>
          simp only [Bool.not_true, Bool.false_eq_true, ↓reduceIte]
          revert h
          cases Spec.collectLoop cx rt srecur sels [] vis with
          | crash c => simp [FromDocOut]
          | err e => simp [FromDocOut]
          | ok r => obtain ⟨fg, v'⟩ := r; simp only [FromDocOut]; exact fun h => hacc.mergeGroups h
        | some c =>
          simp only
          by_cases happ : Spec.doesFragmentTypeApply cx.schema rt c = true
          case neg =>
            have happ' : Spec.doesFragmentTypeApply cx.schema rt c = false := by simpa using happ
            simp only [happ', Bool.not_false, ↓reduceIte]
            exact hacc
          case pos =>
            simp only [happ, Bool.not_true, Bool.false_eq_true, ↓reduceIte]
            revert h
            cases Spec.collectLoop cx rt srecur sels [] vis with
            | crash c => simp [FromDocOut]
            | err e => simp [FromDocOut]
            | ok r => obtain ⟨fg, v'⟩ := r; simp only [FromDocOut]; exact fun h => hacc.mergeGroups h

theorem collectLoop_fromDoc : (sels : List Selection) → ∀ (acc : Spec.Groups) (vis : List Name),
    (∀ q ∈ pairsSels sels, q ∈ P) → FromDoc P acc →
    FromDocOut P (Spec.collectLoop cx rt srecur sels acc vis)
  | [], acc, vis, _, hacc => by unfold Spec.collectLoop; exact hacc
  | sel :: rest, acc, vis, hp, hacc => by
    have h := collectOne_fromDoc sel acc vis
      (fun q hq => hp q (by simp [pairsSels, hq])) hacc
    unfold Spec.collectLoop
    revert h
    cases Spec.collectOne cx rt srecur sel acc vis with
    | crash c => simp [FromDocOut]
    | err e => simp [FromDocOut]
    | ok r =>
      obtain ⟨acc', vis'⟩ := r
      simp only [FromDocOut]
      intro h
      exact collectLoop_fromDoc rest acc' vis' (fun q hq => hp q (by simp [pairsSels, hq])) h
end

include hfrags in
theorem collectFieldsFuel_fromDoc : ∀ (n : Nat) (sels : List Selection) (vis : List Name),
    (∀ q ∈ pairsSels sels, q ∈ P) → FromDocOut P (Spec.collectFieldsFuel cx rt n sels vis)
  | 0, _, _, _ => by simp [Spec.collectFieldsFuel, FromDocOut]
  | n + 1, sels, vis, hp => by
    unfold Spec.collectFieldsFuel
    exact collectLoop_fromDoc cx rt P hfrags _ (fun s v h => collectFieldsFuel_fromDoc n s v h)
      sels [] vis hp (by intro p hp'; cases hp')

include hfrags in
theorem collectFields_fromDoc (sels : List Selection) (hp : ∀ q ∈ pairsSels sels, q ∈ P)
    (gs : Spec.Groups) (h : Spec.collectFields cx rt sels = .ok gs) : FromDoc P gs := by
  have h1 := collectFieldsFuel_fromDoc cx rt P hfrags (Spec.fuelOf cx.doc) sels [] hp
  unfold Spec.collectFields at h
  revert h h1
  cases Spec.collectFieldsFuel cx rt (Spec.fuelOf cx.doc) sels [] with
  | crash c => simp
  | err e => simp
  | ok r =>
    obtain ⟨g', v⟩ := r
    simp only [FromDocOut, Out.ok.injEq]
    rintro rfl h1
    exact h1

end Gql.Exec.Valid

namespace Gql.Exec.Valid
open Gql.Exec

theorem frag_pairs_mem (doc : Doc) (op : Operation) (n : Name) (fr : FragDef)
    (h : doc.frag n = some fr) : ∀ q ∈ pairsSels fr.sels, q ∈ allPairs doc op := by
  intro q hq
  unfold Doc.frag at h
  have hm := List.mem_reverse.1 (List.mem_of_find?_eq_some h)
  simp only [allPairs, List.mem_append, List.mem_flatMap]
  exact Or.inr ⟨fr, hm, hq⟩

theorem pairsSels_merge {fs : List FieldNode} {q : Name × Name}
    (h : q ∈ pairsSels (Spec.mergeSelectionSets fs)) : ∃ f ∈ fs, q ∈ pairsSels f.sels := by
  unfold Spec.mergeSelectionSets at h
  induction fs with
  | nil => simp [pairsSels] at h
  | cons f rest ih =>
    simp only [List.flatMap_cons, pairsSels_append, List.mem_append] at h
    rcases h with h | h
    · exact ⟨f, List.mem_cons_self .., h⟩
    · obtain ⟨f', hf', hq⟩ := ih h
      exact ⟨f', List.mem_cons_of_mem _ hf', hq⟩

/-- **A checkable instance of the merge hypothesis**: if a response key always selects the same
field name throughout the operation and the fragment definitions, `MergeOk` holds. -/
theorem mergeOk_of_keyNames (cx : Spec.Ctx) (op : Operation)
    (h : keyNamesConsistent cx.doc op = true) : MergeOk cx op := by
  have hfr := fun n fr hf => frag_pairs_mem cx.doc op n fr hf
  have hreach : ∀ rt sels, ReachSel cx op rt sels → ∀ q ∈ pairsSels sels, q ∈ allPairs cx.doc op := by
    intro rt sels hr
    induction hr with
    | root _ => intro q hq; simp [allPairs, hq]
    | @step rt0 sels0 groups k fs rt' _ hcol hmem _ ih =>
      have hfd := collectFields_fromDoc cx rt0 (allPairs cx.doc op) hfr sels0 ih groups hcol
      intro q hq
      obtain ⟨f, hf, hqf⟩ := pairsSels_merge hq
      exact (hfd (k, fs) hmem f hf).2.2 q hqf
  intro rt sels hr gs hcol
  have hfd := collectFields_fromDoc cx rt (allPairs cx.doc op) hfr sels (hreach rt sels hr) gs hcol
  intro p hp f hf f' hf'
  obtain ⟨hk, hm, _⟩ := hfd p hp f hf
  obtain ⟨hk', hm', _⟩ := hfd p hp f' hf'
  unfold keyNamesConsistent at h
  simp only [List.all_eq_true, Bool.or_eq_true, bne_iff_ne, ne_eq, beq_iff_eq] at h
  rcases h _ hm _ hm' with hne | heq
  · exact absurd (hk.symm.trans hk') hne
  · exact heq

end Gql.Exec.Valid
