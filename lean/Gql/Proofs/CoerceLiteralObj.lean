import Gql.Proofs.CoerceLiteral
/-
The object case of literal coercion/validation agreement (C15): one declared field, and the
OneOf post-checks.
-/
namespace Gql.Values
open Gql

section
variable (c : PyConv) (D : Field → R) (tm : TypeMap) (vars : Option VarValues)

theorem nullish_defined_is_none {v : PyVal} (h1 : v.isNullish = true) (h2 : isDefined v = true) : v = .none := by
  cases v <;> simp_all [PyVal.isNullish, isDefined]

theorem fieldVarErrors_not_var {oneOf : Bool} {path : Path} {fv : Lit} (h : fv.isVar = false) :
    fieldVarErrors vars oneOf path fv = [] := by
  simp [fieldVarErrors, h]

/-- What one declared field contributes on both sides. `E` are the extra OneOf reports for a
variable without (non-null) runtime value, `V` the remaining validation errors. -/
theorem lit_field_agree (hEN : ∀ n e, tm.find n = some (.enum e) → ∀ k, e.valueOf k ≠ some .none)
    (hD : DefaultsTotal D) (oneOf : Bool) (fs : List (List Nat × Lit)) (path : Path) (f : Field)
    (hnoDef : oneOf = true → D f = .ok .undefined ∧ f.type.isNonNull = false)
    (hconst : vars = none → ∀ fv, litGetLast fs f.name = some fv → fv.isConst = true)
    (ih : ∀ fv, litGetLast fs f.name = some fv → VarOK vars fv f.type →
      ∃ cv, coerceLiteral c D tm vars fv f.type = .ok cv ∧
        (validateLiteral c tm vars fv f.type (path ++ [.key f.name]) = [] ↔ cv ≠ .undefined)) :
    ∃ x E V, litG c D tm vars fs f = .ok x ∧ litH c tm vars oneOf fs path f = E ++ V ∧
      (x = .invalid ↔ V ≠ []) ∧ (oneOf = false → E = []) ∧
      (x ≠ .invalid → oneOf = true →
        (litGetLast fs f.name = none → x = .skip ∧ E = []) ∧
        (∀ fv, litGetLast fs f.name = some fv →
          (E = [] ∧ ∃ cv, x = .entry f.name cv ∧ (cv = .none ↔ fv.isNull = true)) ∨
          (E ≠ [] ∧ (x = .skip ∨ x = .entry f.name .none)))) := by
  unfold litG litH
  split
  · rename_i fv hfv
    by_cases hvar : fv.isVar = true
    · -- a variable as field value
      obtain ⟨x', hx'⟩ := (Lit.isVar_iff fv).1 hvar
      have hs : vars.isNone = false := by
        cases hvars : vars with
        | none => have := hconst hvars fv hfv; rw [Lit.not_const_of_var hx'] at this; cases this
        | some _ => rfl
      have hsome : vars.isSome = true := by cases vars <;> simp_all
      have hlv := litVarValue_of_asVar (vars := vars) hx'
      by_cases hdef : isDefined (varGet vars x') = true
      · -- with a runtime value
        obtain ⟨cv, hcv, hv⟩ := ih fv hfv (fun x hx => by rw [hx'] at hx; cases hx; exact Or.inl hdef)
        obtain ⟨x, hx, hxi, hxe⟩ := fieldOfCoerced_ok' f.name cv
        refine ⟨x, fieldVarErrors vars oneOf path fv, validateLiteral c tm vars fv f.type (path ++ [.key f.name]), ?_, ?_, ?_, ?_, ?_⟩
        · simp [hvar, hlv, hdef, hcv, hx]
        · simp [hvar, hlv, hdef, hsome]
        · rw [hxi]
          constructor
          · intro hu h0; exact (hv.1 h0) hu
          · intro h0; by_cases hu : cv = .undefined
            · exact hu
            · exact absurd (hv.2 hu) h0
        · intro ho; simp [fieldVarErrors, ho]
        · intro hxn ho
          refine ⟨(by intro h; rw [hfv] at h; cases h), ?_⟩
          intro fv' hfv'
          rw [hfv] at hfv'; cases hfv'
          have hcu : cv ≠ .undefined := fun hu => hxn (hxi.2 hu)
          have hxent := hxe hcu
          have hnn := (hnoDef ho).2
          rw [coerceLiteral_var c D tm vars f.type hx'] at hcv
          simp only [hnn, Bool.and_false, Bool.false_eq_true, ↓reduceIte, Out.ok.injEq] at hcv
          by_cases hnl : (varGet vars x').isNullish = true
          · right
            have hvn : varGet vars x' = .none := nullish_defined_is_none hnl hdef
            refine ⟨by simp [fieldVarErrors, hvar, ho, hlv, hnl], Or.inr ?_⟩
            rw [hxent, ← hcv, hvn]
          · left
            refine ⟨by simp [fieldVarErrors, hvar, ho, hlv, hnl], cv, hxent, ?_⟩
            have : fv.isNull = false := by cases fv <;> simp_all [Lit.asVar, Lit.isNull]
            rw [this, ← hcv]
            constructor
            · intro h; rw [h] at hnl; simp [PyVal.isNullish] at hnl
            · intro h; cases h
      · -- without a runtime value: the field counts as not provided
        have hdef' : isDefined (varGet vars x') = false := by simpa using hdef
        have hval := nullish_of_undefined hdef'
        obtain ⟨x, hx, hxi, hxs⟩ := fieldMissing_ok' hD f
        by_cases ho : oneOf = true
        · obtain ⟨hDf, hnn⟩ := hnoDef ho
          have hreq : f.isRequired = false := by simp [Field.isRequired, hnn]
          refine ⟨x, [path], [], ?_, ?_, ?_, ?_, ?_⟩
          · simp [hvar, hlv, hdef', hx]
          · simp [hvar, hlv, hdef', hsome, ho, fieldVarErrors, hval, PyVal.isNullish,
              validateLiteral_var c tm vars f.type _ hx', hs, hnn]
          · rw [hxi, hreq]; simp
          · intro h; rw [ho] at h; cases h
          · intro _ _
            refine ⟨(by intro h; rw [hfv] at h; cases h), ?_⟩
            intro fv' hfv'
            exact Or.inr ⟨by simp, Or.inl (hxs hreq hDf)⟩
        · have ho' : oneOf = false := by simpa using ho
          by_cases hreq : f.isRequired = true
          · have hnn : f.type.isNonNull = true := by
              simp only [Field.isRequired, Bool.and_eq_true] at hreq; exact hreq.1
            refine ⟨x, [], [path ++ [.key f.name]], ?_, ?_, ?_, ?_, ?_⟩
            · simp [hvar, hlv, hdef', hx]
            · simp [hvar, hlv, hdef', hsome, ho', hreq, fieldVarErrors,
                validateLiteral_var c tm vars f.type _ hx', hs, hnn, hval, PyVal.isNullish]
            · rw [hxi]; simp [hreq]
            · intro _; rfl
            · intro _ h; rw [ho'] at h; cases h
          · have hreq' : f.isRequired = false := by simpa using hreq
            refine ⟨x, [], [], ?_, ?_, ?_, ?_, ?_⟩
            · simp [hvar, hlv, hdef', hx]
            · simp [hvar, hlv, hdef', hsome, ho', hreq']
            · rw [hxi, hreq']; simp
            · intro _; rfl
            · intro _ h; rw [ho'] at h; cases h
    · -- an ordinary literal as field value
      have hvar' : fv.isVar = false := by simpa using hvar
      have hav : fv.asVar = none := by
        cases h : fv.asVar with
        | none => rfl
        | some x => have := (Lit.isVar_iff fv).2 ⟨x, h⟩; rw [hvar'] at this; cases this
      obtain ⟨cv, hcv, hv⟩ := ih fv hfv (VarOK_of_not_var hav)
      obtain ⟨x, hx, hxi, hxe⟩ := fieldOfCoerced_ok' f.name cv
      refine ⟨x, [], validateLiteral c tm vars fv f.type (path ++ [.key f.name]), ?_, ?_, ?_, ?_, ?_⟩
      · simp [hvar', hcv, hx]
      · simp [hvar', fieldVarErrors]
      · rw [hxi]
        constructor
        · intro hu h0; exact (hv.1 h0) hu
        · intro h0; by_cases hu : cv = .undefined
          · exact hu
          · exact absurd (hv.2 hu) h0
      · intro _; rfl
      · intro hxn ho
        refine ⟨(by intro h; rw [hfv] at h; cases h), ?_⟩
        intro fv' hfv'
        rw [hfv] at hfv'; cases hfv'
        have hcu : cv ≠ .undefined := fun hu => hxn (hxi.2 hu)
        left
        refine ⟨rfl, cv, hxe hcu, ?_⟩
        by_cases hnull : fv.isNull = true
        · rw [coerceLiteral_null c D tm vars f.type hav hnull] at hcv
          simp only [(hnoDef ho).2, Bool.false_eq_true, ↓reduceIte, Out.ok.injEq] at hcv
          simp [hnull, ← hcv]
        · have := coerceLiteral_ne_none c D tm vars hEN fv hav hnull f.type cv hcv
          simp [hnull, this]
  · rename_i hnone
    obtain ⟨x, hx, hxi, hxs⟩ := fieldMissing_ok' hD f
    refine ⟨x, [], if f.isRequired then [path] else [], hx, by simp, ?_, (fun _ => rfl), ?_⟩
    · rw [hxi]
      by_cases hr : f.isRequired = true <;> simp [hr]
    · intro hxn ho
      refine ⟨fun _ => ⟨?_, rfl⟩, (by intro fv h; rw [hnone] at h; cases h)⟩
      have hreq : f.isRequired = false := by
        by_cases hr : f.isRequired = true
        · exact absurd (hxi.2 hr) hxn
        · simpa using hr
      exact hxs hreq (hnoDef ho).1

end
end Gql.Values
