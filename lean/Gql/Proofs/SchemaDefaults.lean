import Gql.Proofs.SchemaIff
/-
Lemmas for C20, part 4: the default-value family.  At an input type, in a schema whose input
object fields all have input types, `validate_input_literal` reports nothing exactly when the
literal coerces to the type per the specification's input coercion rules.
-/
namespace Gql.Types
open Gql

/-- every input object field has an input type -/
def WellTypedInputs (s : RawSchema) : Prop :=
  ∀ t ∈ s.types, ∀ fs o, t.defn = .input fs o → ∀ f ∈ fs, s.isInputType f.type = true

theorem wellTyped_lookup {s : RawSchema} (hw : WellTypedInputs s) {n : Str} {fs : List InputValue}
    {o : Bool} (h : s.lookup n = some (.input fs o)) : ∀ f ∈ fs, s.isInputType f.type = true := by
  unfold RawSchema.lookup at h
  cases hf : s.types.find? (fun t => t.name == n) with
  | none => simp [hf] at h
  | some t =>
    simp only [hf, Option.map_some, Option.some.injEq] at h
    exact hw t (List.mem_of_find?_eq_some hf) fs o h

/-! ### `peel` against the specification's `expected` -/

theorem peel_null_iff (l : Bool) : ∀ t : TRef,
    (Spec.expected true l t).isSome = true ↔ peel true l t ≠ .nullAtNonNull
  | .named n => by simp [Spec.expected, peel]
  | .list t => by simp [Spec.expected, peel]
  | .nonNull t => by simp [Spec.expected, peel]

theorem peel_null_cases (l : Bool) : ∀ t : TRef,
    peel true l t = .nullAtNonNull ∨ peel true l t = .done
  | .named n => by simp [peel]
  | .list t => by simp [peel]
  | .nonNull t => by simp [peel]

/-- for a non-null literal the two walks agree -/
theorem expected_eq_peel (l : Bool) : ∀ t : TRef,
    (∃ t', peel false l t = .items t' ∧ Spec.expected false l t = some (.list t') ∧ l = true) ∨
    (∃ n, peel false l t = .named n ∧ Spec.expected false l t = some (.named n))
  | .named n => by simp [Spec.expected, peel]
  | .list t => by
    cases l
    · simpa [Spec.expected, peel] using expected_eq_peel false t
    · simp [Spec.expected, peel]
  | .nonNull t => by simpa [Spec.expected, peel] using expected_eq_peel l t

/-! ### leaves -/

/-- what the last branches of the literal validator accept at a named type, for a literal that is
not an object at an input object type -/
def leafOk (s : RawSchema) (n : Str) (v : Lit) : Bool :=
  match s.lookup n with
  | some (.scalar k) => Spec.scalarCoerces k v
  | some (.enum vs) => (match v with | .enum e => vs.contains e | _ => false)
  | _ => false

theorem vLeaf_nil (s : RawSchema) (n : Str) (v : Lit) :
    vLeaf s n v.shape = .ok [] ↔ leafOk s n v = true := by
  unfold vLeaf leafOk
  cases h : s.lookup n with
  | none => simp
  | some d =>
    cases d with
    | scalar k =>
      simp only [← scalarAccepts_eq]
      cases scalarAccepts k v.shape <;> simp
    | enum vs =>
      cases v <;> simp [Lit.shape]
    | input fs o => simp
    | object _ _ => simp
    | interface _ _ => simp
    | union _ => simp


/-! ### the input-object branch -/

/-- the validator of an entry's value and the specification's answer for it go together -/
def EntryRel (s : RawSchema) : Option (TRef → Out Unit (List VErr)) → Option (TRef → Bool) → Prop
  | none, none => True
  | some g, some ok => ∀ t, s.isInputType t = true → (g t = .ok [] ↔ ok t = true)
  | _, _ => False

theorem vObject_nil_iff (s : RawSchema) (fields : List InputValue) (oneOf : Bool)
    (entries : List (Str × Bool)) (subs : List (Str × (TRef → Out Unit (List VErr)))) :
    vObject s true fields oneOf entries subs = .ok [] ↔
      (∀ fd ∈ fields, vObjField s true subs fd = .ok []) ∧ vObjUnknown fields entries = [] ∧
        vObjOneOf fields oneOf entries = [] := by
  unfold vObject
  rw [← outFlatMap_eq_ok_nil]
  cases outFlatMap (vObjField s true subs) fields <;> simp [and_assoc]

theorem req_bool (a : Bool) (d : Option Lit) (l : Bool) :
    (a && d.isNone && !l) = false ↔ (d.isSome || l || !a) = true := by
  cases a <;> cases d <;> cases l <;> simp

theorem vObjField_nil (s : RawSchema) (subs : List (Str × (TRef → Out Unit (List VErr))))
    (oks : List (Str × (TRef → Bool))) (fd : InputValue) (hi : s.isInputType fd.type = true)
    (hrel : EntryRel s (lookupLast subs fd.name) (Spec.entryOf oks fd.name)) :
    vObjField s true subs fd = .ok [] ↔
      (match Spec.entryOf oks fd.name with
       | some ok => ok fd.type
       | none => fd.default.isSome || fd.legacyDefault || !fd.type.isNonNull) = true := by
  unfold vObjField
  cases h1 : lookupLast subs fd.name with
  | none =>
    cases h2 : Spec.entryOf oks fd.name with
    | none =>
      simp only [Out.ok.injEq]
      rw [ite_singleton_nil]
      unfold InputValue.isRequired
      exact req_bool _ _ _
    | some ok => simp [h1, h2, EntryRel] at hrel
  | some g =>
    cases h2 : Spec.entryOf oks fd.name with
    | none => simp [h1, h2, EntryRel] at hrel
    | some ok =>
      rw [h1, h2] at hrel
      simp only [hi, Bool.not_true, Bool.and_false, Bool.false_eq_true, ↓reduceIte]
      rw [mapOk_eq_ok_nil]
      simp only [List.map_eq_nil_iff, exists_eq_right]
      exact hrel fd.type hi

theorem vObjUnknown_nil (fields : List InputValue) : ∀ fs : List (Str × Lit),
    vObjUnknown fields (fs.map (fun e => (e.1, e.2.isNull))) = [] ↔
      fs.all (fun e => fields.any (fun fd => fd.name = e.1)) = true
  | [] => by simp [vObjUnknown]
  | e :: fs => by
    have ih := vObjUnknown_nil fields fs
    unfold vObjUnknown at ih ⊢
    simp only [List.map_cons, List.flatMap_cons, List.append_eq_nil_iff, ih, List.all_cons,
      Bool.and_eq_true]
    refine and_congr_left fun _ => ?_
    cases h : fields.any (fun fd => fd.name == e.1) <;> simp_all

theorem isNull_eq (v : Lit) : v.isNull = Spec.litIsNull v := by cases v <;> rfl

theorem vObjOneOf_nil (fields : List InputValue) (oneOf : Bool) (fs : List (Str × Lit))
    (hall : fs.all (fun e => fields.any (fun fd => fd.name = e.1)) = true) :
    vObjOneOf fields oneOf (fs.map (fun e => (e.1, e.2.isNull))) = [] ↔
      (!oneOf || Spec.oneNonNullEntry fs) = true := by
  unfold vObjOneOf
  have hfilter : (fs.map (fun e => (e.1, e.2.isNull))).filter
      (fun e => fields.any (fun fd => fd.name == e.1)) = fs.map (fun e => (e.1, e.2.isNull)) := by
    rw [List.filter_eq_self]
    intro e he
    obtain ⟨e0, he0, rfl⟩ := List.mem_map.mp he
    have := (List.all_eq_true.mp hall) e0 he0
    simpa using this
  rw [hfilter]
  cases oneOf
  · simp
  · rcases fs with _ | ⟨e, _ | ⟨e2, rest⟩⟩
    · simp [Spec.oneNonNullEntry]
    · simp only [List.map_cons, List.map_nil, ↓reduceIte, Bool.not_true, Bool.false_or, isNull_eq,
        Spec.oneNonNullEntry]
      cases Spec.litIsNull e.2 <;> simp
    · simp [Spec.oneNonNullEntry]

theorem vObject_nil (s : RawSchema) (fields : List InputValue) (oneOf : Bool)
    (fs : List (Str × Lit)) (subs : List (Str × (TRef → Out Unit (List VErr))))
    (oks : List (Str × (TRef → Bool)))
    (hfields : ∀ fd ∈ fields, s.isInputType fd.type = true)
    (hrel : ∀ k, EntryRel s (lookupLast subs k) (Spec.entryOf oks k)) :
    vObject s true fields oneOf (fs.map (fun e => (e.1, e.2.isNull))) subs = .ok [] ↔
      Spec.objectCoerces fields oneOf fs oks = true := by
  unfold Spec.objectCoerces
  rw [vObject_nil_iff, vObjUnknown_nil]
  simp only [Bool.and_eq_true, List.all_eq_true (l := fields)]
  constructor
  · rintro ⟨h1, h2, h3⟩
    refine ⟨⟨h2, fun fd hfd => ?_⟩, (vObjOneOf_nil fields oneOf fs h2).mp h3⟩
    exact (vObjField_nil s subs oks fd (hfields fd hfd) (hrel fd.name)).mp (h1 fd hfd)
  · rintro ⟨⟨h2, h1⟩, h3⟩
    refine ⟨fun fd hfd => ?_, h2, (vObjOneOf_nil fields oneOf fs h2).mpr h3⟩
    exact (vObjField_nil s subs oks fd (hfields fd hfd) (hrel fd.name)).mpr (h1 fd hfd)


/-! ### the induction through list and object literals -/

theorem leafOk_scalarOnly (s : RawSchema) (n : Str) (v : Lit) (hv : ∀ e, v ≠ .enum e) :
    leafOk s n v =
      (match s.lookup n with | some (.scalar k) => Spec.scalarCoerces k v | _ => false) := by
  unfold leafOk
  cases s.lookup n with
  | none => rfl
  | some d =>
    cases d <;> try rfl
    cases v <;> first | rfl | exact absurd rfl (hv _)

theorem leafOk_enum (s : RawSchema) (n : Str) (e : Str) :
    leafOk s n (.enum e) =
      (match s.lookup n with
       | some (.enum vs) => vs.contains e
       | some (.scalar k) => Spec.scalarCoerces k (.enum e)
       | _ => false) := by
  unfold leafOk
  cases s.lookup n with
  | none => rfl
  | some d => cases d <;> rfl

section
variable (s : RawSchema) (hw : WellTypedInputs s)
include hw

/-- a number / string / boolean literal -/
theorem vLit_nil_leaf (v : Lit) (t : TRef) (hv : ∀ e, v ≠ .enum e)
    (hm : vLit s true v t = match peel false false t with | .named n => vLeaf s n v.shape | _ => .ok [])
    (hs : Spec.coercible s v t = Spec.leafCoercible s v (Spec.expected false false t)) :
    vLit s true v t = .ok [] ↔ Spec.coercible s v t = true := by
  rw [hm, hs]
  rcases expected_eq_peel false t with ⟨t', _, _, hl⟩ | ⟨n, hp, he⟩
  · cases hl
  · rw [hp, he]
    simp only [Spec.leafCoercible]
    rw [vLeaf_nil, leafOk_scalarOnly s n v hv]
    cases s.lookup n with
    | none => exact Iff.rfl
    | some d => cases d <;> exact Iff.rfl

mutual
theorem vLit_nil : ∀ (v : Lit) (t : TRef), s.isInputType t = true →
    (vLit s true v t = .ok [] ↔ Spec.coercible s v t = true)
  | .null, t, _ => by
    unfold vLit Spec.coercible
    rw [peel_null_iff]
    rcases peel_null_cases false t with h | h <;> simp [h]
  | .list xs, t, h => by
    unfold vLit Spec.coercible
    rcases expected_eq_peel true t with ⟨t', hp, he, _⟩ | ⟨n, hp, he⟩
    · simp only [hp, he]
      exact vLits_nil xs t' 0 (peel_items h hp)
    · simp only [hp, he]
      rw [show Shape.list = (Lit.list []).shape from rfl, vLeaf_nil,
        leafOk_scalarOnly s n _ (by intro e; simp)]
      cases s.lookup n with
      | none => rfl
      | some d => cases d <;> rfl
  | .obj fs, t, h => by
    unfold vLit Spec.coercible
    rcases expected_eq_peel false t with ⟨t', _, _, hl⟩ | ⟨n, hp, he⟩
    · cases hl
    · simp only [hp, he]
      cases hl : s.lookup n with
      | none =>
        simp only
        rw [show Shape.obj = (Lit.obj []).shape from rfl, vLeaf_nil, leafOk_scalarOnly s n _ (by intro e; simp), hl]
      | some d =>
        cases d with
        | input fields oneOf =>
          simp only
          exact vObject_nil s fields oneOf fs _ _ (wellTyped_lookup hw hl) (vEntries_rel fs)
        | scalar k =>
          simp only
          rw [show Shape.obj = (Lit.obj []).shape from rfl, vLeaf_nil, leafOk_scalarOnly s n _ (by intro e; simp), hl]
        | object _ _ =>
          simp only
          rw [show Shape.obj = (Lit.obj []).shape from rfl, vLeaf_nil, leafOk_scalarOnly s n _ (by intro e; simp), hl]
        | interface _ _ =>
          simp only
          rw [show Shape.obj = (Lit.obj []).shape from rfl, vLeaf_nil, leafOk_scalarOnly s n _ (by intro e; simp), hl]
        | union _ =>
          simp only
          rw [show Shape.obj = (Lit.obj []).shape from rfl, vLeaf_nil, leafOk_scalarOnly s n _ (by intro e; simp), hl]
        | enum _ =>
          simp only
          rw [show Shape.obj = (Lit.obj []).shape from rfl, vLeaf_nil, leafOk_scalarOnly s n _ (by intro e; simp), hl]
  | .enum ev, t, _ => by
    unfold vLit Spec.coercible
    rcases expected_eq_peel false t with ⟨t', _, _, hl⟩ | ⟨n, hp, he⟩
    · cases hl
    · simp only [hp, he]
      rw [show Shape.enum ev = (Lit.enum ev).shape from rfl, vLeaf_nil, leafOk_enum]
      cases s.lookup n with
      | none => exact Iff.rfl
      | some d => cases d <;> exact Iff.rfl
  | .int i, t, _ =>
    vLit_nil_leaf s hw (.int i) t (by intro e; simp) (by unfold vLit; rfl) (by unfold Spec.coercible; rfl)
  | .float, t, _ =>
    vLit_nil_leaf s hw .float t (by intro e; simp) (by unfold vLit; rfl) (by unfold Spec.coercible; rfl)
  | .str, t, _ =>
    vLit_nil_leaf s hw .str t (by intro e; simp) (by unfold vLit; rfl) (by unfold Spec.coercible; rfl)
  | .bool, t, _ =>
    vLit_nil_leaf s hw .bool t (by intro e; simp) (by unfold vLit; rfl) (by unfold Spec.coercible; rfl)
theorem vLits_nil : ∀ (xs : List Lit) (t : TRef) (i : Nat), s.isInputType t = true →
    (vLits s true xs t i = .ok [] ↔ Spec.allCoercible s xs t = true)
  | [], _, _, _ => by unfold vLits Spec.allCoercible; simp
  | x :: xs, t, i, h => by
    have h1 := vLit_nil x t h
    have h2 := vLits_nil xs t (i + 1) h
    obtain ⟨e, he⟩ := vLit_isOk s x t h
    obtain ⟨es, hes⟩ := vLits_isOk s xs t (i + 1) h
    unfold vLits Spec.allCoercible
    rw [he] at h1
    rw [hes] at h2
    simp only [he, hes, Out.ok.injEq, List.append_eq_nil_iff, List.map_eq_nil_iff, Bool.and_eq_true]
    simp only [Out.ok.injEq] at h1 h2
    rw [h1, h2]
theorem vEntries_rel : ∀ (fs : List (Str × Lit)) (k : Str),
    EntryRel s (lookupLast (vEntries s true fs) k) (Spec.entryOf (Spec.entryCoercible s fs) k)
  | [], k => by unfold vEntries Spec.entryCoercible; simp [lookupLast, Spec.entryOf, EntryRel]
  | e :: rest, k => by
    have ih := vEntries_rel rest k
    unfold vEntries Spec.entryCoercible
    unfold lookupLast Spec.entryOf
    cases h1 : lookupLast (vEntries s true rest) k with
    | some g =>
      cases h2 : Spec.entryOf (Spec.entryCoercible s rest) k with
      | some ok => simpa [h1, h2] using ih
      | none => simp [h1, h2, EntryRel] at ih
    | none =>
      cases h2 : Spec.entryOf (Spec.entryCoercible s rest) k with
      | some ok => simp [h1, h2, EntryRel] at ih
      | none =>
        by_cases hk : e.1 = k
        · simp only [hk, beq_self_eq_true, ↓reduceIte, Option.or_some, Option.none_or, EntryRel]
          exact fun t ht => vLit_nil e.2 t ht
        · have hk' : (e.1 == k) = false := by simpa using hk
          simp [hk, hk', EntryRel]
end
end


/-- The default-value family: at an input type `validate_default_value` reports nothing exactly
when the default (if any) coerces to the declared type. -/
theorem defaultsAgree (s : RawSchema) (hw : WellTypedInputs s) : DefaultsAgree s validateDefault := by
  intro a c hi
  unfold validateDefault Spec.defaultOk
  cases a.default with
  | none => simp
  | some v =>
    simp only [hi, Bool.not_true, Bool.false_eq_true, ↓reduceIte]
    rw [mapOk_eq_ok_nil]
    simp only [List.map_eq_nil_iff, exists_eq_right]
    exact vLit_nil s hw v a.type hi

end Gql.Types
