import Gql.Proofs.OverlapPure3
/-! C14, named fragments, completeness (4): analysing a run that reports nothing.  Invariant: every
memo entry whose comparison is not in progress is closed (its body passed, relative to the current
tables); tables only grow; pass predicates are monotone in the tables. -/
namespace Gql.Exec
open Overlap

/-- comparisons in progress (entries already written, body not finished) -/
structure Prog where
  ff : List (Nat × String × Bool)
  fr : List ((String × String) × Bool)

def ClosedX (s : Schema) (d : Doc) (σ : St) (P : Prog) : Prop :=
  (∀ t ∈ d.typedSets s, ∀ nm ∈ d.spreadNames, ∀ r,
    assocGet σ.cfp (t.2.id, keyOf d nm) = some r →
      (t.2.id, keyOf d nm, r) ∈ P.ff ∨ FFok s d σ t nm r) ∧
  (∀ n1 ∈ d.spreadNames, ∀ n2 ∈ d.spreadNames, ∀ r, keyOf d n1 ≠ keyOf d n2 →
    assocGet σ.cmp (pairKey (keyOf d n1) (keyOf d n2)) = some r →
      (pairKey (keyOf d n1) (keyOf d n2), r) ∈ P.fr ∨ FRok s d σ n1 n2 r ∨ FRok s d σ n2 n1 r)

theorem closedX_nil {s : Schema} {d : Doc} {σ : St} (h : ClosedX s d σ ⟨[], []⟩) : Closed s d σ :=
  ⟨fun t ht nm hnm r hr => (h.1 t ht nm hnm r hr).resolve_left (by simp),
   fun n1 h1 n2 h2 r hk hr => (h.2 n1 h1 n2 h2 r hk hr).resolve_left (by simp)⟩

theorem PairsPass.mono {s : Schema} {d : Doc} {T T' : St} (hT : TLe T T') {q : Bool} {t1 t2 : TSet}
    (h : PairsPass s d T q t1 t2) : PairsPass s d T' q t1 t2 :=
  fun c1 h1 c2 h2 hrn => (h c1 h1 c2 h2 hrn).mono hT

theorem FFok.mono {s : Schema} {d : Doc} {T T' : St} (hT : TLe T T') {t : TSet} {nm : String}
    {r : Bool} (h : FFok s d T t nm r) : FFok s d T' t nm r := by
  intro tf hfs
  rcases h tf hfs with h | ⟨h1, h2⟩
  · exact Or.inl h
  · exact Or.inr ⟨h1.mono hT, fun n hn => (h2 n hn).mono hT⟩

theorem FRok.mono {s : Schema} {d : Doc} {T T' : St} (hT : TLe T T') {n1 n2 : String}
    {r : Bool} (h : FRok s d T n1 n2 r) : FRok s d T' n1 n2 r := by
  intro t1 t2 h1 h2
  obtain ⟨a, b, c⟩ := h t1 t2 h1 h2
  exact ⟨a.mono hT, fun n hn => (b n hn).mono hT, fun n hn => (c n hn).mono hT⟩

/-- tables unchanged (only the field cache may differ) -/
theorem closedX_same {s : Schema} {d : Doc} {σ σ' : St} {P : Prog} (h : ClosedX s d σ P)
    (e1 : σ'.cfp = σ.cfp) (e2 : σ'.cmp = σ.cmp) : ClosedX s d σ' P := by
  have hT : TLe σ σ' := ⟨fun i k q hh => by simpa [St.cfpHas, e1] using hh,
    fun a b q hh => by simpa [St.cmpHas, e2] using hh⟩
  refine ⟨fun t ht nm hnm r hr => ?_, fun n1 h1 n2 h2 r hk hr => ?_⟩
  · rw [e1] at hr
    rcases h.1 t ht nm hnm r hr with x | x
    · exact Or.inl x
    · exact Or.inr (x.mono hT)
  · rw [e2] at hr
    rcases h.2 n1 h1 n2 h2 r hk hr with x | x | x
    · exact Or.inl x
    · exact Or.inr (Or.inl (x.mono hT))
    · exact Or.inr (Or.inr (x.mono hT))

theorem tle_same {σ σ' : St} (e1 : σ'.cfp = σ.cfp) (e2 : σ'.cmp = σ.cmp) : TLe σ σ' :=
  ⟨fun i k q hh => by simpa [St.cfpHas, e1] using hh,
    fun a b q hh => by simpa [St.cmpHas, e2] using hh⟩

/-! ### writing a memo entry -/

theorem flagHas_set_mono {o : Option Bool} {e q : Bool} (hno : flagHas o e = false)
    (h : flagHas o q = true) : flagHas (some e) q = true := by
  cases o with
  | none => simp [flagHas] at h
  | some r =>
    obtain ⟨hr, he⟩ := flagHas_false_of_some hno
    subst hr he
    cases q <;> simp [flagHas] at h ⊢

theorem tle_cfpAdd {σ : St} {i : Nat} {k : String} {e : Bool} (hno : σ.cfpHas i k e = false) :
    TLe σ (σ.cfpAdd i k e) := by
  refine ⟨fun i' k' q hh => ?_, fun a b q hh => hh⟩
  by_cases hk : (i, k) = (i', k')
  · cases hk
    simp only [St.cfpHas, St.cfpAdd, assocGet_assocSet_same] at hh ⊢
    exact flagHas_set_mono hno hh
  · simp only [St.cfpHas, St.cfpAdd, assocGet_assocSet_other _ _ _ _ hk] at hh ⊢
    exact hh

theorem tle_cmpAdd {σ : St} {a b : String} {e : Bool} (hno : σ.cmpHas a b e = false) :
    TLe σ (σ.cmpAdd a b e) := by
  refine ⟨fun i' k' q hh => hh, fun a' b' q hh => ?_⟩
  by_cases hk : pairKey a b = pairKey a' b'
  · simp only [St.cmpHas, St.cmpAdd, ← hk, assocGet_assocSet_same] at hh ⊢
    exact flagHas_set_mono hno hh
  · simp only [St.cmpHas, St.cmpAdd, assocGet_assocSet_other _ _ _ _ hk] at hh ⊢
    exact hh

/-- after writing `(i, k) ↦ e` the new entry is in progress, the others are as before -/
theorem closedX_cfpAdd {s : Schema} {d : Doc} {σ : St} {P : Prog} (h : ClosedX s d σ P)
    {i : Nat} {k : String} {e : Bool} (hno : σ.cfpHas i k e = false) :
    ClosedX s d (σ.cfpAdd i k e) ⟨(i, k, e) :: P.ff, P.fr⟩ := by
  have hT := tle_cfpAdd hno
  refine ⟨fun t ht nm hnm r hr => ?_, fun n1 h1 n2 h2 r hk hr => ?_⟩
  · by_cases hkey : (i, k) = (t.2.id, keyOf d nm)
    · simp only [St.cfpAdd, hkey, assocGet_assocSet_same, Option.some.injEq] at hr
      subst hr
      simp only [Prod.mk.injEq] at hkey
      exact Or.inl (by simp [hkey.1, hkey.2])
    · simp only [St.cfpAdd, assocGet_assocSet_other _ _ _ _ hkey] at hr
      rcases h.1 t ht nm hnm r hr with x | x
      · exact Or.inl (List.mem_cons_of_mem _ x)
      · exact Or.inr (x.mono hT)
  · have hr' : assocGet σ.cmp (pairKey (keyOf d n1) (keyOf d n2)) = some r := hr
    rcases h.2 n1 h1 n2 h2 r hk hr' with x | x | x
    · exact Or.inl x
    · exact Or.inr (Or.inl (x.mono hT))
    · exact Or.inr (Or.inr (x.mono hT))

theorem closedX_cmpAdd {s : Schema} {d : Doc} {σ : St} {P : Prog} (h : ClosedX s d σ P)
    {a b : String} {e : Bool} (hno : σ.cmpHas a b e = false) :
    ClosedX s d (σ.cmpAdd a b e) ⟨P.ff, (pairKey a b, e) :: P.fr⟩ := by
  have hT := tle_cmpAdd hno
  refine ⟨fun t ht nm hnm r hr => ?_, fun n1 h1 n2 h2 r hk hr => ?_⟩
  · have hr' : assocGet σ.cfp (t.2.id, keyOf d nm) = some r := hr
    rcases h.1 t ht nm hnm r hr' with x | x
    · exact Or.inl x
    · exact Or.inr (x.mono hT)
  · by_cases hkey : pairKey a b = pairKey (keyOf d n1) (keyOf d n2)
    · simp only [St.cmpAdd, hkey, assocGet_assocSet_same, Option.some.injEq] at hr
      subst hr
      exact Or.inl (by simp [hkey])
    · simp only [St.cmpAdd, assocGet_assocSet_other _ _ _ _ hkey] at hr
      rcases h.2 n1 h1 n2 h2 r hk hr with x | x | x
      · exact Or.inl (List.mem_cons_of_mem _ x)
      · exact Or.inr (Or.inl (x.mono hT))
      · exact Or.inr (Or.inr (x.mono hT))

/-- the comparison `(i, k) ↦ e` has finished: if its entry is still `e`, its body passed -/
theorem closedX_finishFF {s : Schema} {d : Doc} {σ : St} {ff : List (Nat × String × Bool)}
    {fr : List ((String × String) × Bool)} {i : Nat} {k : String} {e : Bool}
    (h : ClosedX s d σ ⟨(i, k, e) :: ff, fr⟩)
    (hbody : ∀ t ∈ d.typedSets s, ∀ nm ∈ d.spreadNames, t.2.id = i → keyOf d nm = k →
      FFok s d σ t nm e) : ClosedX s d σ ⟨ff, fr⟩ := by
  refine ⟨fun t ht nm hnm r hr => ?_, h.2⟩
  rcases h.1 t ht nm hnm r hr with x | x
  · rcases List.mem_cons.1 x with x | x
    · simp only [Prod.mk.injEq] at x
      obtain ⟨x1, x2, x3⟩ := x
      subst x3
      exact Or.inr (hbody t ht nm hnm x1 x2)
    · exact Or.inl x
  · exact Or.inr x

theorem closedX_finishFR {s : Schema} {d : Doc} {σ : St} {ff : List (Nat × String × Bool)}
    {fr : List ((String × String) × Bool)} {kk : String × String} {e : Bool}
    (h : ClosedX s d σ ⟨ff, (kk, e) :: fr⟩)
    (hbody : ∀ n1 ∈ d.spreadNames, ∀ n2 ∈ d.spreadNames,
      pairKey (keyOf d n1) (keyOf d n2) = kk → FRok s d σ n1 n2 e ∨ FRok s d σ n2 n1 e) :
    ClosedX s d σ ⟨ff, fr⟩ := by
  refine ⟨h.1, fun n1 h1 n2 h2 r hk hr => ?_⟩
  rcases h.2 n1 h1 n2 h2 r hk hr with x | x
  · rcases List.mem_cons.1 x with x | x
    · simp only [Prod.mk.injEq] at x
      obtain ⟨x1, x2⟩ := x
      subst x2
      exact Or.inr (hbody n1 h1 n2 h2 x1)
    · exact Or.inl x
  · exact Or.inr x

end Gql.Exec
