/-
C13 — the general soundness chain (`SoundGen3`–`SoundGen5`) under the weaker merge hypothesis
`MergeOkT`: the selection sets are followed only to the object types a field's sub-selections can
be executed on (possible types of the field's return type).  Same proofs; the reach hypothesis
carries the subtype fact.
-/
import Gql.Proofs.SoundMerge2

namespace Gql.Exec.Valid
open Gql.Exec Gql.Exec.Refine

theorem mem_groups_cons {gs : Spec.Groups} {p : Name × List FieldNode} (hp : p ∈ gs)
    {f0 : FieldNode} {rest : List FieldNode} (h : p.2 = f0 :: rest) : (p.1, f0 :: rest) ∈ gs := by
  obtain ⟨k, fs⟩ := p
  simp only at h
  subst h
  exact hp

/-- how the reach hypothesis is handed down: for a position of named type `n` -/
def ReachAt (g : GCtx) (op : Operation) (n : Name) (fields : List FieldNode) : Prop :=
  ∀ rt', g.cx.schema.kind rt' = .object → Sub g.cx.schema rt' n →
    ReachSelT g.cx op rt' (Spec.mergeSelectionSets fields)

/-- for the groups collected on the runtime type `rt` -/
def ReachGroups (g : GCtx) (op : Operation) (rt : Name) (groups : Spec.Groups) : Prop :=
  ∀ p ∈ groups, ∀ f0 rest, p.2 = f0 :: rest → ∀ fd, g.cx.schema.getField rt f0.name = some fd →
    ReachAt g op fd.type.baseName p.2

theorem ReachGroups.of_step {g : GCtx} {op : Operation} {rt : Name} {sels : List Selection}
    {gs : Spec.Groups} (hr : ReachSelT g.cx op rt sels) (hcol : Spec.collectFields g.cx rt sels = .ok gs) :
    ReachGroups g op rt gs := by
  intro p hp f0 rest hp2 fd hgf rt' hk' hs'
  rw [hp2]
  exact ReachSelT.step (k := p.1) hr hcol (mem_groups_cons hp hp2) hgf hk' hs'

variable (g : GCtx) (op : Operation) (hvok : VarsOk g.env g.cx.vars) (hval : ValuesOk g)
variable (hyps : SoundHyps g.cx.ops g.cx.schema)

include hvok hval hyps in
theorem groups_sound_T (rt : Name) (fs : List FieldDef) (f : Name → ArgMap → RVal)
    (hfs : g.cx.schema.objectFields rt = some fs)
    (hconf : ∀ fd ∈ fs, ∀ args, Conforms g.cx.ops g.cx.schema fd.type (f fd.name args))
    (hchild : ∀ (name : Name) (args : ArgMap) (t : TypeRef) (fields : List FieldNode) (pos : List PSeg),
      Conforms g.cx.ops g.cx.schema t (f name args) → FieldsWT g t fields →
      ReachAt g op t.baseName fields →
      ResG g.cx t fields (f name args) (Spec.completeValue g.cx t fields pos (f name args))) :
    ∀ (groups : Spec.Groups) (pos : List PSeg), AllOn g rt groups → Uniform groups →
      ReachGroups g op rt groups →
      (Spec.executeGroups g.cx rt
          (fun name args t fields pos => Spec.completeValue g.cx t fields pos (f name args)) pos
          groups).errs = [] ∧
      ∃ kvs, (Spec.executeGroups g.cx rt
          (fun name args t fields pos => Spec.completeValue g.cx t fields pos (f name args)) pos
          groups).out = some kvs ∧
        shapeGroups g.cx rt (fun name args t fields j => shapeOk g.cx t fields (f name args) j)
          groups kvs = true
  | [], pos, _, _, _ => by simp [Spec.executeGroups, Spec.R.pure, shapeGroups]
  | (k, fields) :: rest, pos, hall, huni, hreach => by
    obtain ⟨ih1, kvs', ih2, ih3⟩ := groups_sound_T rt fs f hfs hconf hchild rest pos
      (fun p hp => hall p (List.mem_cons_of_mem _ hp)) (fun p hp => huni p (List.mem_cons_of_mem _ hp))
      (fun p hp => hreach p (List.mem_cons_of_mem _ hp))
    obtain ⟨hne, hon⟩ := hall (k, fields) (List.mem_cons_self ..)
    have hu := huni (k, fields) (List.mem_cons_self ..)
    have hr := hreach (k, fields) (List.mem_cons_self ..)
    cases fields with
    | nil => exact absurd rfl hne
    | cons f0 frest =>
      simp only [Spec.executeGroups, shapeGroups]
      rcases hon f0 (List.mem_cons_self ..) with ⟨hty, _⟩ | ⟨hty, fd, hgf, hargs, hexc, hsub⟩
      · -- the meta field
        have hty' : (f0.name == "__typename") = true := by simp [hty]
        have hstr := hyps.stringId (rt.toList.map Char.toNat)
        simp only [Spec.executeField, hty', ↓reduceIte, Spec.coerceResult, hstr, Spec.absorb,
          Spec.R.pure, Option.map_some, List.nil_append, ih1, ih2, true_and]
        simp [cpsOfName, ih3]
      · have hty' : ¬ (f0.name == "__typename") = true := by simpa using hty
        obtain ⟨hmem, hname⟩ := getField_mem hgf hfs
        obtain ⟨a, ha⟩ := arguments_coerce g.cx g.env hvok hval fd.args f0.args hargs hexc
          (fun x hx d hd' => hyps.defaultsOk rt f0.name fd hgf x hx d hd') fd.args (fun _ h => h) []
        have hwt : FieldsWT g fd.type (f0 :: frest) := by
          refine ⟨by simp, ?_⟩
          intro f' hf'
          have hn : f'.name = f0.name := hu f' hf' f0 (List.mem_cons_self ..)
          rcases hon f' hf' with ⟨hty2, _⟩ | ⟨_, fd', hgf', _, _, hsub'⟩
          · exact absurd (hn ▸ hty2) hty
          · rw [hn, hgf] at hgf'
            cases hgf'
            exact hsub'
        have hc := hchild f0.name a fd.type (f0 :: frest) (pos ++ [PSeg.key k])
          (hname ▸ hconf fd hmem a) hwt (hr f0 frest rfl fd hgf)
        obtain ⟨hce, j, hco, hcs⟩ := hc
        simp only [Spec.executeField, hty', Bool.false_eq_true, ↓reduceIte, hgf, ha, Spec.absorb,
          hco, hce, Option.map_some, List.nil_append, ih1, ih2, true_and]
        simp [ih3, ha, hcs]


end Gql.Exec.Valid

namespace Gql.Exec.Valid
open Gql.Exec Gql.Exec.Refine

variable (g : GCtx) (op : Operation) (hvok : VarsOk g.env g.cx.vars) (hval : ValuesOk g)
variable (hfr : FragsOk g) (hyps : SoundHyps g.cx.ops g.cx.schema) (hmerge : MergeOkT g.cx op)

include hvok hval hfr hyps hmerge in
/-- the object case, given the statement for all children -/
theorem object_sound_T (n : Name) (nn : Bool) (tn : TN) (f : Name → ArgMap → RVal)
    (fields : List FieldNode) (pos : List PSeg)
    (hconf : Conforms g.cx.ops g.cx.schema (.named n nn) (.obj tn f))
    (hwt : FieldsWT g (.named n nn) fields)
    (hreach : ReachAt g op n fields)
    (hchild : ∀ (name : Name) (args : ArgMap) (t : TypeRef) (fields : List FieldNode) (pos : List PSeg),
      Conforms g.cx.ops g.cx.schema t (f name args) → FieldsWT g t fields →
      ReachAt g op t.baseName fields →
      ResG g.cx t fields (f name args) (Spec.completeValue g.cx t fields pos (f name args))) :
    ResG g.cx (.named n nn) fields (.obj tn f)
      (Spec.completeNamed g.cx (.named n nn) fields pos none tn
        (fun name args t fields pos => Spec.completeValue g.cx t fields pos (f name args))) := by
  simp only [Conforms] at hconf
  obtain ⟨rt, fs, hrt, hfs, hc⟩ := hconf
  obtain ⟨hsub, hobj⟩ := sub_of_runtime hrt
  have hnl : isLeaf g.cx.schema n = false := by
    rcases runtimeType_kind hrt with ⟨hk, _⟩ | ⟨hk, _⟩ <;> simp [isLeaf, hk]
  have hsels : SelsOk g n (Spec.mergeSelectionSets fields) := by
    apply selsOk_merge
    intro f' hf'
    have := hwt.2 f' hf'
    simpa [TypeRef.baseName, hnl] using this
  obtain ⟨gs, hcol, hall⟩ := collectFields_typed g hvok hval hfr hyps rt hobj _ n hsels hsub
  have huni := hmerge rt _ (hreach rt hobj hsub) gs hcol
  obtain ⟨g1, kvs, g2, g3⟩ := groups_sound_T g op hvok hval hyps rt fs f hfs hc hchild gs pos hall huni
    (ReachGroups.of_step (hreach rt hobj hsub) hcol)
  have hexec : Spec.executeSelectionSet g.cx rt (Spec.mergeSelectionSets fields) pos
      (fun name args t fields pos => Spec.completeValue g.cx t fields pos (f name args)) =
      { out := some (Json.obj kvs), errs := [], log := (Spec.executeGroups g.cx rt
          (fun name args t fields pos => Spec.completeValue g.cx t fields pos (f name args)) pos
          gs).log } := by
    unfold Spec.executeSelectionSet
    rw [hcol]
    simp [g1, g2]
  have hshape : shapeOk g.cx (.named n nn) fields (.obj tn f) (Json.obj kvs) = true := by
    unfold shapeOk
    simp only [hrt, hcol, g3]
  unfold Spec.completeNamed
  rcases runtimeType_kind hrt with ⟨hk, hrt'⟩ | ⟨hk, hres⟩
  · subst hrt'
    simp only [hk, hexec]
    exact ⟨rfl, _, rfl, hshape⟩
  · simp only [hk, hres, hexec]
    exact ⟨rfl, _, rfl, hshape⟩

include hvok hval hfr hyps hmerge in
mutual
theorem complete_sound_T : (d : RVal) → ∀ (t : TypeRef) (fields : List FieldNode) (pos : List PSeg),
    Conforms g.cx.ops g.cx.schema t d → FieldsWT g t fields →
    ReachAt g op t.baseName fields →
    ResG g.cx t fields d (Spec.completeValue g.cx t fields pos d)
  | .raise tag p, t, fields, pos, hc, _, _ => by simp [Conforms] at hc
  | .null, t, fields, pos, hc, _, _ => by
    simp only [Conforms] at hc
    unfold Spec.completeValue Spec.completeNull
    simp only [hc, Bool.false_eq_true, ↓reduceIte]
    exact ⟨rfl, .null, rfl, by simp [shapeOk, hc]⟩
  | .leaf l, t, fields, pos, hc, _, _ => by
    cases t with
    | list t' nn => simp [Conforms] at hc
    | named n nn =>
      simp only [Conforms] at hc
      obtain ⟨hk, j, hj, hnn⟩ := hc
      unfold Spec.completeValue Spec.completeNamed
      simp only [hk, Spec.coerceResult, hj]
      have hshape := hyps.serializeShape n l j hj hnn
      cases j with
      | null => exact absurd rfl hnn
      | _ => exact ⟨rfl, _, rfl, by simp [shapeOk, hk, hshape]⟩
  | .obj tn f, t, fields, pos, hc, hwt, hreach => by
    cases t with
    | list t' nn => simp [Conforms] at hc
    | named n nn =>
      unfold Spec.completeValue
      exact object_sound_T g op hvok hval hfr hyps hmerge n nn tn f fields pos hc hwt hreach
        (fun name args t' fields' pos' hc' hwt' hr' =>
          complete_sound_T (f name args) t' fields' pos' hc' hwt' hr')
  | .list items, t, fields, pos, hc, hwt, hreach => by
    cases t with
    | named n nn => simp [Conforms] at hc
    | list t' nn =>
      simp only [Conforms] at hc
      have hwt' : FieldsWT g t' fields := hwt
      obtain ⟨h1, js, h2, h3⟩ := items_sound_T items t' fields pos 0 hc hwt' hreach
      unfold Spec.completeValue
      simp only [h1, h2, Option.map_some]
      exact ⟨rfl, _, rfl, by simp [shapeOk, h3]⟩

theorem items_sound_T : (items : List RVal) → ∀ (t : TypeRef) (fields : List FieldNode)
    (pos : List PSeg) (i : Nat), ConformsL g.cx.ops g.cx.schema t items → FieldsWT g t fields →
    ReachAt g op t.baseName fields →
    ResItemsG g.cx t fields items (Spec.completeItems g.cx t fields pos i items)
  | [], t, fields, pos, i, _, _, _ => by
    unfold Spec.completeItems
    exact ⟨rfl, [], rfl, by simp [shapeItems]⟩
  | x :: xs, t, fields, pos, i, hc, hwt, hreach => by
    simp only [ConformsL] at hc
    obtain ⟨h1, j, h2, h3⟩ := complete_sound_T x t fields (pos ++ [.idx i]) hc.1 hwt hreach
    obtain ⟨g1, js, g2, g3⟩ := items_sound_T xs t fields pos (i + 1) hc.2 hwt hreach
    unfold Spec.completeItems
    simp only [Spec.absorb, h2, h1, g1, g2, Option.map_some, List.append_nil]
    exact ⟨rfl, _, rfl, by simp [shapeItems, h3, g3]⟩
end


end Gql.Exec.Valid

namespace Gql.Exec.Valid
open Gql.Exec Gql.Exec.Refine

/-- the general request-level statement (variables, fragments, directives, merged keys) -/
theorem soundness_T (ops : Ops) (s : Schema) (doc : Doc) (hyps : SoundHyps ops s)
    (op : Operation) (opName : Option Name) (vars : Vars) (root : RVal) (rt : Name)
    (hsel : Spec.getOperation doc.ops opName = some op)
    (hvalid : validOp s doc op = true)
    (hvok : VarsOk op.vars vars) (htyped : VarsTyped s op.vars vars)
    (hops : OpsSoundV ops s op.vars vars)
    (hexc : mayHitNullViaDefault s doc op vars = false)
    (hmerge : MergeOkT { ops := ops, schema := s, doc := doc, vars := vars } op)
    (hroot : Spec.rootType s op.kind = some rt)
    (hconf : Conforms ops s (.named rt true) root) :
    (Spec.executeRequest ops s doc opName vars root).errors = [] ∧
    shapeResponse ops s doc op vars root (Spec.executeRequest ops s doc opName vars root).data = true := by
  have hrt : rootTypeOf s op.kind = some rt := hroot
  have hk : s.kind rt = .object := rootTypeOf_object hrt
  obtain ⟨hsels, hfr⟩ := invariants_of_valid ops s doc op vars rt hrt hvalid hexc
  let g := gctxOf ops s doc op vars
  have hval : ValuesOk g := hops htyped
  cases root with
  | null => simp [Conforms, TypeRef.nonNull] at hconf
  | raise tag p => simp [Conforms] at hconf
  | leaf l => simp [Conforms, hk] at hconf
  | list items => simp [Conforms] at hconf
  | obj tn f =>
    simp only [Conforms] at hconf
    obtain ⟨rt', fs, hrt', hfs, hc⟩ := hconf
    have heq : rt' = rt := by
      unfold runtimeType at hrt'
      simp only [hk, Option.some.injEq] at hrt'
      exact hrt'.symm
    subst heq
    obtain ⟨gs, hcol, hall⟩ := collectFields_typed g hvok hval hfr hyps rt' hk op.sels rt' hsels (Or.inl rfl)
    have hreach0 : ReachSelT g.cx op rt' op.sels := ReachSelT.root hroot
    have huni := hmerge rt' op.sels hreach0 gs hcol
    obtain ⟨g1, kvs, g2, g3⟩ := groups_sound_T g op hvok hval hyps rt' fs f hfs hc
      (fun name args t fields pos hc' hwt' hr' =>
        complete_sound_T g op hvok hval hfr hyps hmerge (f name args) t fields pos hc' hwt' hr')
      gs [] hall huni (ReachGroups.of_step hreach0 hcol)
    have hcol' : Spec.collectFields { ops := ops, schema := s, doc := doc, vars := vars } rt' op.sels
        = .ok gs := hcol
    have hchild : Spec.childOf ({ ops := ops, schema := s, doc := doc, vars := vars } : Spec.Ctx) (.obj tn f) =
        (fun name args t fields pos => Spec.completeValue
          ({ ops := ops, schema := s, doc := doc, vars := vars } : Spec.Ctx) t fields pos (f name args)) := rfl
    have g1' : (Spec.executeGroups { ops := ops, schema := s, doc := doc, vars := vars } rt'
        (fun name args t fields pos => Spec.completeValue
          ({ ops := ops, schema := s, doc := doc, vars := vars } : Spec.Ctx) t fields pos (f name args)) [] gs).errs = [] := g1
    have g2' : (Spec.executeGroups { ops := ops, schema := s, doc := doc, vars := vars } rt'
        (fun name args t fields pos => Spec.completeValue
          ({ ops := ops, schema := s, doc := doc, vars := vars } : Spec.Ctx) t fields pos (f name args)) [] gs).out = some kvs := g2
    have g3' : shapeGroups { ops := ops, schema := s, doc := doc, vars := vars } rt'
        (fun name args t fields j => shapeOk
          ({ ops := ops, schema := s, doc := doc, vars := vars } : Spec.Ctx) t fields (f name args) j) gs kvs = true := g3
    unfold Spec.executeRequest shapeResponse
    simp only [hsel, hroot]
    rw [hcol', hchild]
    simp only [g1', g2', true_and]
    simpa [RVal.child, hcol'] using g3'


end Gql.Exec.Valid
