import Gql.Proofs.PublisherDom
/-!
Publisher level, continued:
* when every announced node is absent from the table (`AnnFresh`), announced ids are handed out
  in strictly increasing order — hence pairwise distinct (P1, "announced at most once");
* an announced id stays in the table until a `completed` entry for it is emitted (P4b's
  bookkeeping half): announced ⊆ completed ∪ live.
-/
namespace Gql.Async
open Gql.Spec.Protocol

/-- Strictly increasing and below `b`. -/
def SortedBelow (A : List Nat) (b : Nat) : Prop := A.Pairwise (· < ·) ∧ ∀ a ∈ A, a < b

theorem SortedBelow.mono {A : List Nat} {b b' : Nat} (h : SortedBelow A b) (hb : b ≤ b') :
    SortedBelow A b' := ⟨h.1, fun a ha => Nat.lt_of_lt_of_le (h.2 a ha) hb⟩

theorem SortedBelow.append_range {A : List Nat} {b : Nat} (h : SortedBelow A b) (k : Nat) :
    SortedBelow (A ++ List.range' b k) (b + k) := by
  induction k generalizing A b with
  | zero => simpa using h
  | succ k ih =>
    have h1 : SortedBelow (A ++ [b]) (b + 1) := by
      refine ⟨?_, ?_⟩
      · rw [List.pairwise_append]
        refine ⟨h.1, by simp, ?_⟩
        intro a ha c hc; simp at hc; subst hc; exact h.2 a ha
      · intro a ha
        rcases List.mem_append.mp ha with ha | ha
        · exact Nat.lt_succ_of_lt (h.2 a ha)
        · simp at ha; omega
    have := ih h1
    simpa [List.range'_succ, Nat.add_assoc, Nat.add_comm 1 k] using this

theorem toPending_fold_fresh (π : PubStatic) (ns : List Node) (p : Pub) (acc : List Pending)
    (hn : ns.Nodup) (hf : ∀ n ∈ ns, alookup p.ids n = none) :
    ((ns.foldl (fun (acc : Pub × List Pending) n =>
      let (p, i) := ensureId acc.1 n
      (p, acc.2 ++ [{ id := i, path := π.path n, label := π.label n }])) (p, acc)).2.map (·.id)
      = acc.map (·.id) ++ List.range' p.nextId ns.length) ∧
    (ns.foldl (fun (acc : Pub × List Pending) n =>
      let (p, i) := ensureId acc.1 n
      (p, acc.2 ++ [{ id := i, path := π.path n, label := π.label n }])) (p, acc)).1.nextId
      = p.nextId + ns.length := by
  induction ns generalizing p acc with
  | nil => simp
  | cons n ns ih =>
    have hnone := hf n (by simp)
    have he : ensureId p n = ({ ids := aset p.ids n p.nextId, nextId := p.nextId + 1 }, p.nextId) := by
      simp [ensureId, hnone]
    simp only [List.foldl_cons, he]
    have hn' := (List.nodup_cons.mp hn)
    have hf' : ∀ m ∈ ns, alookup ({ ids := aset p.ids n p.nextId, nextId := p.nextId + 1 } : Pub).ids m = none := by
      intro m hm
      have hne : n ≠ m := fun e => hn'.1 (e ▸ hm)
      show alookup (aset p.ids n p.nextId) m = none
      rw [alookup_aset_ne _ _ _ _ hne]
      exact hf m (List.mem_cons_of_mem _ hm)
    obtain ⟨i1, i2⟩ := ih { ids := aset p.ids n p.nextId, nextId := p.nextId + 1 }
      (acc ++ [{ id := p.nextId, path := π.path n, label := π.label n }]) hn'.2 hf'
    refine ⟨?_, ?_⟩
    · rw [i1]; simp [List.range'_succ]
    · rw [i2]; simp; omega

theorem toPending_fresh (π : PubStatic) (p : Pub) (gs ss : List Nat)
    (hn : (nodesOf gs ss).Nodup) (hf : ∀ n ∈ nodesOf gs ss, alookup p.ids n = none) :
    (toPendingResults π p gs ss).2.map (·.id) = List.range' p.nextId (nodesOf gs ss).length ∧
    (toPendingResults π p gs ss).1.nextId = p.nextId + (nodesOf gs ss).length := by
  have := toPending_fold_fresh π (nodesOf gs ss) p [] hn hf
  simpa [toPendingResults, nodesOf] using this

theorem dropId_nextId (p : Pub) (n : Node) : (dropId p n).nextId = p.nextId := rfl

theorem ensureId_nextId_le (p : Pub) (n : Node) : p.nextId ≤ (ensureId p n).1.nextId := by
  unfold ensureId; split <;> simp

theorem ensureId_dom_sub (p : Pub) (n : Node) (D : List Node) (h : DomSub p D) :
    DomSub (ensureId p n).1 (n :: D) := by
  intro m i hm
  rcases ensureId_dom p n m i hm with h1 | h1
  · exact List.mem_cons_of_mem _ (h _ _ h1)
  · simp [h1]

theorem dropEnsure_dom_sub (p : Pub) (n : Node) (D : List Node) (h : DomSub p D) :
    DomSub (dropId (ensureId p n).1 n) (D.filter (fun x => decide (x ≠ n))) := by
  intro m i hm
  obtain ⟨h1, h2⟩ := dropId_dom _ n m i hm
  rcases ensureId_dom p n m i h1 with h3 | h3
  · simp [h _ _ h3, h2]
  · exact absurd h3 h2

/-- What an event adds to `pending`, when its announcements are fresh. -/
theorem handleEvent_ann (π : PubStatic) (p : Pub) (c : PCtx) (e : WQEvent) (D : List Node)
    (A : List Nat) (hd : DomSub p D) (ha : annOk D e) (hs : SortedBelow A p.nextId) :
    ∃ new, (handleEvent π p c e).2.pending.map (·.id) = c.pending.map (·.id) ++ new ∧
      SortedBelow (A ++ new) (handleEvent π p c e).1.nextId := by
  -- the two announcing shapes
  have announce : ∀ (p1 : Pub) (D1 : List Node) (c1 : PCtx) (ng ns : List Nat),
      DomSub p1 D1 → p.nextId ≤ p1.nextId → c1.pending = c.pending →
      (nodesOf ng ns).Nodup → (∀ n ∈ nodesOf ng ns, n ∉ D1) →
      ∃ new, ({ c1 with pending := c1.pending ++ (toPendingResults π p1 ng ns).2 } : PCtx).pending.map (·.id)
          = c.pending.map (·.id) ++ new ∧
        SortedBelow (A ++ new) (toPendingResults π p1 ng ns).1.nextId := by
    intro p1 D1 c1 ng ns hd1 hle hc hn hf
    have hfree : ∀ n ∈ nodesOf ng ns, alookup p1.ids n = none := by
      intro n hn'
      cases hl : alookup p1.ids n with
      | none => rfl
      | some i => exact absurd (hd1 _ _ hl) (hf n hn')
    obtain ⟨t1, t2⟩ := toPending_fresh π p1 ng ns hn hfree
    refine ⟨List.range' p1.nextId (nodesOf ng ns).length, ?_, ?_⟩
    · simp [hc, t1]
    · rw [t2]; exact (hs.mono hle).append_range _
  cases e with
  | groupValues g vals =>
    exact ⟨[], by simp [handleEvent], by simpa [handleEvent] using hs.mono (ensureId_nextId_le p _)⟩
  | groupSuccess g ng ns =>
    simp only [handleEvent]
    split
    · exact ⟨[], by simp, by simpa [dropId_nextId] using hs.mono (ensureId_nextId_le p _)⟩
    · exact announce _ _ _ ng ns (dropEnsure_dom_sub p _ D hd)
        (by simpa [dropId_nextId] using ensureId_nextId_le p _) rfl ha.1 ha.2
  | groupFailure g =>
    exact ⟨[], by simp [handleEvent], by simpa [handleEvent, dropId_nextId] using hs.mono (ensureId_nextId_le p _)⟩
  | streamValues s vals ng ns =>
    simp only [handleEvent]
    split
    · exact ⟨[], by simp, by simpa using hs.mono (ensureId_nextId_le p _)⟩
    · exact announce _ _ _ ng ns (ensureId_dom_sub p _ D hd) (ensureId_nextId_le p _) rfl ha.1 ha.2
  | streamSuccess s =>
    exact ⟨[], by simp [handleEvent], by simpa [handleEvent, dropId_nextId] using hs.mono (ensureId_nextId_le p _)⟩
  | streamFailure s =>
    exact ⟨[], by simp [handleEvent], by simpa [handleEvent, dropId_nextId] using hs.mono (ensureId_nextId_le p _)⟩
  | termination => exact ⟨[], by simp [handleEvent], by simpa [handleEvent] using hs⟩

/-- A batch. -/
theorem handleBatch_ann (π : PubStatic) (evs : List WQEvent) (p : Pub) (D : List Node) (A : List Nat)
    (hd : DomSub p D) (hf : AnnFresh D evs) (hs : SortedBelow A p.nextId) :
    SortedBelow (A ++ (handleBatch π p evs).2.pending.map (·.id)) (handleBatch π p evs).1.nextId := by
  unfold handleBatch
  simp only
  have key : ∀ (evs : List WQEvent) (p : Pub) (c : PCtx) (D : List Node),
      DomSub p D → AnnFresh D evs → SortedBelow (A ++ c.pending.map (·.id)) p.nextId →
      SortedBelow (A ++ (evs.foldl (fun (acc : Pub × PCtx) e => handleEvent π acc.1 acc.2 e) (p, c)).2.pending.map (·.id))
        (evs.foldl (fun (acc : Pub × PCtx) e => handleEvent π acc.1 acc.2 e) (p, c)).1.nextId := by
    intro evs
    induction evs with
    | nil => intro p c D _ _ h; exact h
    | cons e evs ih =>
      intro p c D hd hf hs
      simp only [List.foldl_cons]
      obtain ⟨new, h1, h2⟩ := handleEvent_ann π p c e D _ hd hf.1 hs
      have h3 : SortedBelow (A ++ (handleEvent π p c e).2.pending.map (·.id))
          (handleEvent π p c e).1.nextId := by
        rw [h1, ← List.append_assoc]; exact h2
      exact ih _ _ (domStep D e) (handleEvent_dom π p c e D hd) hf.2 h3
  exact key evs p {} D hd hf (by simpa using hs)

theorem publish_ann (π : PubStatic) (bs : List (List WQEvent)) (p : Pub) (D : List Node) (A : List Nat)
    (hd : DomSub p D) (hf : AnnFresh D bs.flatten) (hs : SortedBelow A p.nextId) :
    SortedBelow (A ++ announcedIds (publish π p bs).2) (publish π p bs).1.nextId := by
  induction bs generalizing p D A with
  | nil => simpa [publish, announcedIds] using hs
  | cons b bs ih =>
    simp only [List.flatten_cons, annFresh_append] at hf
    have h1 := handleBatch_ann π b p D A hd hf.1 hs
    have h2 := ih (handleBatch π p b).1 _ _ (handleBatch_dom π b p D hd) hf.2 h1
    simpa [publish, announcedIds, List.append_assoc] using h2

/-! ### announced ⊆ completed ∪ live -/

theorem ensureId_keep (p : Pub) (n : Node) (i : Nat) (h : live p i) : live (ensureId p n).1 i := by
  obtain ⟨m, hm⟩ := h
  unfold ensureId
  cases hl : alookup p.ids n with
  | some j => exact ⟨m, hm⟩
  | none =>
    refine ⟨m, ?_⟩
    simp only
    by_cases e : n = m
    · subst e; rw [hl] at hm; cases hm
    · rw [alookup_aset_ne _ _ _ _ e]; exact hm

theorem dropEnsure_keep (p : Pub) (n : Node) (i : Nat) (hp : PubInv p) (h : live p i) :
    live (dropId (ensureId p n).1 n) i ∨ i = (ensureId p n).2 := by
  obtain ⟨h1, _, h3, _, _⟩ := ensureId_spec p n hp
  obtain ⟨m, hm⟩ := ensureId_keep p n i h
  by_cases e : n = m
  · subst e; right; rw [h3] at hm; cases hm; rfl
  · left; exact ⟨m, by unfold dropId; simp only; rw [alookup_aerase_ne _ _ _ e]; exact hm⟩

/-- An id in the table stays there unless this event emits a `completed` entry for it. -/
theorem handleEvent_keep (π : PubStatic) (p : Pub) (c : PCtx) (e : WQEvent) (i : Nat)
    (hp : PubInv p) (h : live p i) :
    live (handleEvent π p c e).1 i ∨ i ∈ (handleEvent π p c e).2.completed.map (·.id) := by
  cases e with
  | groupValues g vals => left; simpa [handleEvent] using ensureId_keep p _ i h
  | groupSuccess g ng ns =>
    simp only [handleEvent]
    rcases dropEnsure_keep p (.group g) i hp h with h1 | h1
    · left; split
      · exact h1
      · exact toPending_keeps π _ ng ns i h1
    · right; split <;> simp [h1]
  | groupFailure g =>
    simp only [handleEvent]
    rcases dropEnsure_keep p (.group g) i hp h with h1 | h1
    · exact Or.inl h1
    · right; simp [h1]
  | streamValues s vals ng ns =>
    simp only [handleEvent]
    left; split
    · exact ensureId_keep p _ i h
    · exact toPending_keeps π _ ng ns i (ensureId_keep p _ i h)
  | streamSuccess s =>
    simp only [handleEvent]
    rcases dropEnsure_keep p (.stream s) i hp h with h1 | h1
    · exact Or.inl h1
    · right; simp [h1]
  | streamFailure s =>
    simp only [handleEvent]
    rcases dropEnsure_keep p (.stream s) i hp h with h1 | h1
    · exact Or.inl h1
    · right; simp [h1]
  | termination => left; simpa [handleEvent] using h

/-- Announced so far ⊆ completed so far ∪ table, through a batch. -/
theorem handleBatch_open (π : PubStatic) (evs : List WQEvent) (p : Pub) (A C : List Nat)
    (hp : PubInv p) (h : ∀ i ∈ A, i ∈ C ∨ live p i) :
    ∀ i ∈ A ++ (handleBatch π p evs).2.pending.map (·.id),
      i ∈ C ++ (handleBatch π p evs).2.completed.map (·.id) ∨ live (handleBatch π p evs).1 i := by
  unfold handleBatch
  simp only
  have key : ∀ (evs : List WQEvent) (p : Pub) (c : PCtx), PubInv p →
      (∀ i ∈ A ++ c.pending.map (·.id), i ∈ C ++ c.completed.map (·.id) ∨ live p i) →
      ∀ i ∈ A ++ (evs.foldl (fun (acc : Pub × PCtx) e => handleEvent π acc.1 acc.2 e) (p, c)).2.pending.map (·.id),
        i ∈ C ++ (evs.foldl (fun (acc : Pub × PCtx) e => handleEvent π acc.1 acc.2 e) (p, c)).2.completed.map (·.id) ∨
        live (evs.foldl (fun (acc : Pub × PCtx) e => handleEvent π acc.1 acc.2 e) (p, c)).1 i := by
    intro evs
    induction evs with
    | nil => intro p c _ h; exact h
    | cons e evs ih =>
      intro p c hp h
      simp only [List.foldl_cons]
      have d := handleEvent_delta π p c e hp
      obtain ⟨newp, ep, hlp⟩ := d.pend
      obtain ⟨newc, ec, _, _⟩ := d.comp
      have old : ∀ i, (i ∈ C ++ c.completed.map (·.id) ∨ live p i) →
          i ∈ C ++ (handleEvent π p c e).2.completed.map (·.id) ∨ live (handleEvent π p c e).1 i := by
        intro i hi
        rcases hi with h1 | h1
        · left; rw [ec]
          simp only [List.map_append, List.mem_append] at h1 ⊢
          rcases h1 with h1 | h1
          · exact Or.inl h1
          · exact Or.inr (Or.inl h1)
        · rcases handleEvent_keep π p c e i hp h1 with h2 | h2
          · exact Or.inr h2
          · left; simp [h2]
      have step : ∀ i ∈ A ++ (handleEvent π p c e).2.pending.map (·.id),
          i ∈ C ++ (handleEvent π p c e).2.completed.map (·.id) ∨ live (handleEvent π p c e).1 i := by
        intro i hi
        rw [ep] at hi
        simp only [List.map_append, List.mem_append] at hi
        rcases hi with hi | hi | hi
        · exact old i (h i (by simp [hi]))
        · exact old i (h i (by simp [hi]))
        · obtain ⟨a, ha, rfl⟩ := List.mem_map.mp hi
          exact Or.inr (hlp a ha)
      exact ih _ _ d.inv step
  exact key evs p {} hp (by simpa using h)

end Gql.Async
