import Gql.Proofs.Collect
import Gql.Proofs.Plan
import Gql.Proofs.Cut
/-!
The bridge between `collect_fields`, `build_execution_plan` and the cut model, for one object:
the grouped field set collected with live defer usages is split by the plan into the part executed
with the enclosing piece and the deferred parts; read as a `Cut.obj` (`cutOfPlan`) this is a
well-formed cut whose reference object has exactly the response keys that the non-incremental
collection has, each once.
-/
namespace Gql.Async

open Plan Collect

/-- the collected grouped field set as the plan's input -/
def toPlan (g : List (Nat × List FD)) : GroupedFieldSet Nat :=
  g.map (fun e => (e.1, e.2.map (fun fd => ({ node := fd.node, deferUsage := fd.du } : FieldDetails))))

theorem toPlan_keys (g : List (Nat × List FD)) : (toPlan g).map Prod.fst = g.map Prod.fst := by
  simp [toPlan, List.map_map, Function.comp_def]

/-- response key number `k` as a JSON key -/
def keyOf (k : Nat) : List Nat := [k]

def cutFields (sub : Nat → Cut) (part : GroupedFieldSet Nat) : List (List Nat × Cut) :=
  part.map (fun e => (keyOf e.1, sub e.1))

/-- One object as a cut: the planned grouped field set is delivered with the enclosing piece, each
new grouped field set by its own deferred piece; `sub k` is (the cut of) the value of key `k`. -/
def cutOfPlan (sub : Nat → Cut) (plan : ExecutionPlan Nat) : Cut :=
  .obj (cutFields sub plan.groupedFieldSet)
    (plan.newGroupedFieldSets.map (fun sg => cutFields sub sg.2))

theorem keys_refGroups : ∀ gs : List (List (List Nat × Cut)),
    (refGroups gs).map Prod.fst = (gs.map (fun g => g.map Prod.fst)).flatten
  | [] => rfl
  | g :: rest => by simp [refGroups, keys_refFields, keys_refGroups rest]

theorem cutFields_keys (sub : Nat → Cut) (part : GroupedFieldSet Nat) :
    (cutFields sub part).map Prod.fst = (part.map Prod.fst).map keyOf := by
  simp [cutFields, List.map_map, Function.comp_def]

theorem wfCutFields_cutFields (sub : Nat → Cut) (hsub : ∀ k, (sub k).wf = true) :
    ∀ part : GroupedFieldSet Nat, wfCutFields (cutFields sub part) = true
  | [] => rfl
  | e :: rest => by
    simp only [cutFields, List.map_cons, wfCutFields, hsub, Bool.true_and]
    exact wfCutFields_cutFields sub hsub rest

theorem wfCutGroups_map (sub : Nat → Cut) (hsub : ∀ k, (sub k).wf = true) :
    ∀ sets : List (DeferUsageSet × GroupedFieldSet Nat),
      wfCutGroups (sets.map (fun sg => cutFields sub sg.2)) = true
  | [] => rfl
  | sg :: rest => by
    simp only [List.map_cons, wfCutGroups, wfCutFields_cutFields sub hsub, Bool.true_and]
    exact wfCutGroups_map sub hsub rest

/-- the response keys of the reference object of `cutOfPlan`, in delivery order -/
theorem cutOfPlan_ref_keys (sub : Nat → Cut) (plan : ExecutionPlan Nat) :
    (refFields (cutFields sub plan.groupedFieldSet) ++
      refGroups (plan.newGroupedFieldSets.map (fun sg => cutFields sub sg.2))).map Prod.fst =
    (((parts plan).flatten).map Prod.fst).map keyOf := by
  simp only [List.map_append, keys_refFields, keys_refGroups, cutFields_keys, parts,
    List.flatten_cons, List.map_map]
  congr 1
  induction plan.newGroupedFieldSets with
  | nil => rfl
  | cons sg rest ih => simp [cutFields_keys, Function.comp_def]

theorem keyOf_injective : Function.Injective keyOf := fun a b h => by simpa [keyOf] using h

/-- **Bridge.**  Collect with live defer usages, plan, read the plan as a cut of this object:
the cut is well formed, its pieces reassemble to its reference, and the reference object has
exactly the response keys of the non-incremental collection, each exactly once. -/
theorem collect_plan_cut (table : Nat → List Sel) (base base' : Nat) (sels : List Sel)
    (hc : Consistent table sels) (ha : Acyclic sels)
    (parentOf : Nat → Option Nat) (fuel : Nat) (parent : DeferUsageSet)
    (sub : Nat → Cut) (hsub : ∀ k, (sub k).wf = true) :
    let plan := buildExecutionPlan parentOf fuel (toPlan (collectFields base sels).grouped) parent
    let c := cutOfPlan sub plan
    c.wf = true ∧ foldPieces c.initial c.pieces = .ok c.ref ∧
    ∃ kvs, c.ref = .obj kvs ∧ (kvs.map Prod.fst).Nodup ∧
      ∀ k, keyOf k ∈ kvs.map Prod.fst ↔
        k ∈ (collectFields base' (stripSels sels)).grouped.map Prod.fst := by
  intro plan c
  have hgood := collectFields_good base sels
  have hnd : ((toPlan (collectFields base sels).grouped).map Prod.fst).Nodup := by
    rw [toPlan_keys]; exact hgood.1
  obtain ⟨_, hperm⟩ := (show (∀ part ∈ parts plan, part.Sublist _) ∧ _ from
    ⟨fun part hp => by
        have inv := build_inv parentOf fuel parent _ hnd
        simp only [parts, List.mem_cons, List.mem_map] at hp
        rcases hp with rfl | ⟨sg, hsg, rfl⟩
        · exact inv.sub_planned
        · exact inv.sub_new sg hsg,
      by simpa [parts] using (build_inv parentOf fuel parent _ hnd).perm⟩)
  have hkeysPerm : ((collectFields base sels).grouped.map Prod.fst).Perm
      (((parts plan).flatten).map Prod.fst) := by
    rw [← toPlan_keys]; exact hperm.map Prod.fst
  have hrefkeys := cutOfPlan_ref_keys sub plan
  have hndref : ((((parts plan).flatten).map Prod.fst).map keyOf).Nodup :=
    List.Pairwise.map keyOf (fun a b hab he => hab (keyOf_injective he)) (hkeysPerm.nodup_iff.mp hgood.1)
  have hwf : c.wf = true := by
    simp only [c, cutOfPlan, Cut.wf, Bool.and_eq_true, decide_eq_true_eq]
    exact ⟨⟨by rw [hrefkeys]; exact hndref, wfCutFields_cutFields sub hsub _⟩,
      wfCutGroups_map sub hsub _⟩
  refine ⟨hwf, cut_reassembles c hwf, _, rfl, by rw [hrefkeys]; exact hndref, ?_⟩
  intro k
  rw [hrefkeys]
  constructor
  · intro h
    obtain ⟨k', hk', he⟩ := List.mem_map.mp h
    have : k' = k := keyOf_injective he
    subst this
    have hk : k' ∈ (collectFields base sels).grouped.map Prod.fst := hkeysPerm.symm.subset hk'
    obtain ⟨n, hn⟩ := (mem_keys_iff_has hgood k').mp hk
    exact (mem_keys_iff_has (collectFields_good base' _) k').mpr
      ⟨n, (collect_same table base base' sels hc ha k' n).mp hn⟩
  · intro h
    obtain ⟨n, hn⟩ := (mem_keys_iff_has (collectFields_good base' _) k).mp h
    have hk : k ∈ (collectFields base sels).grouped.map Prod.fst :=
      (mem_keys_iff_has hgood k).mpr ⟨n, (collect_same table base base' sels hc ha k n).mpr hn⟩
    exact List.mem_map.mpr ⟨k, hkeysPerm.subset hk, rfl⟩

end Gql.Async
