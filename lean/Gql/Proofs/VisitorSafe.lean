import Gql.Syntax.Visitor
/-!
C11-1: no decision of a visitor makes `visit` raise.  An invariant of the loop (`Inv`) that
every iteration preserves for *every* visitor — edits included — and under which no crash-capable
operation (`stack.idx`, `path[-1]`, `path.pop()`, `parent[key]`, `keys[idx]`, `node.pop(i)`,
`node[i] = …`, `cls(**values)`) can fail.
-/
namespace Gql.Syntax
open Gql

variable {σ : Type}

/-! ### edits of a tuple level -/

/-- replays `edit_offset` bookkeeping on indices only: every key is a tuple index, indices never
go down, a removed index is not touched again; returns the lower bound for the next index -/
def arrScan (L : Nat) : Nat → Edits → Option Nat
  | lo, [] => some lo
  | lo, (.idx i, .rm) :: r => if lo ≤ i ∧ i < L then arrScan L (i + 1) r else none
  | lo, (.idx i, .val (.node _)) :: r => if lo ≤ i ∧ i < L then arrScan L i r else none
  | _, _ => none

def ArrOK (L j : Nat) (es : Edits) : Prop := ∃ b, arrScan L 0 es = some b ∧ b ≤ j

theorem applyArr_ok (L : Nat) : ∀ (es : Edits) (lo b off : Nat) (cur : List Node),
    arrScan L lo es = some b → off ≤ lo → cur.length + off = L →
    ∃ r, applyArr es cur off = .ok r := by
  intro es
  induction es with
  | nil => intro lo b off cur _ _ _; exact ⟨cur, rfl⟩
  | cons e es ih =>
    intro lo b off cur h hoff hlen
    obtain ⟨k, ev⟩ := e
    cases k with
    | none => simp [arrScan] at h
    | name s => simp [arrScan] at h
    | idx i =>
      cases ev with
      | rm =>
        simp only [arrScan] at h
        split at h
        · next hc =>
          have h1 : ¬ i < off := by omega
          have h2 : i - off < cur.length := by omega
          simp only [applyArr, h1, h2, reduceIte]
          exact ih (i + 1) b (off + 1) (cur.eraseIdx (i - off)) h (by omega)
            (by rw [List.length_eraseIdx]; simp [h2]; omega)
        · simp at h
      | val x =>
        cases x with
        | arr ns => simp [arrScan] at h
        | node n =>
          simp only [arrScan] at h
          split at h
          · next hc =>
            have h1 : ¬ i < off := by omega
            have h2 : i - off < cur.length := by omega
            simp only [applyArr, h1, h2, reduceIte]
            exact ih i b off (cur.set (i - off) n) h (by omega) (by simp; omega)
          · simp at h

def nextBound (e : EVal) (j : Nat) : Nat :=
  match e with
  | .rm => j + 1
  | _ => j

theorem arrScan_append (L : Nat) : ∀ (es : Edits) (lo b i : Nat) (e : EVal),
    arrScan L lo es = some b → b ≤ i → i < L → (∀ ns, e ≠ .val (.arr ns)) →
    arrScan L lo (es ++ [(.idx i, e)]) = some (nextBound e i) := by
  intro es
  induction es with
  | nil =>
    intro lo b i e h hb hi he
    simp [arrScan] at h
    subst h
    cases e with
    | rm => simp [arrScan, hb, hi, nextBound]
    | val x => cases x with
      | node n => simp [arrScan, hb, hi, nextBound]
      | arr ns => exact absurd rfl (he ns)
  | cons hd es ih =>
    intro lo b i e h hb hi he
    obtain ⟨k, ev⟩ := hd
    cases k with
    | none => simp [arrScan] at h
    | name s => simp [arrScan] at h
    | idx j =>
      cases ev with
      | rm =>
        simp only [arrScan, List.cons_append] at h ⊢
        split at h
        · next hc => simp only [hc, and_self, reduceIte]; exact ih _ _ _ _ h hb hi he
        · simp at h
      | val x =>
        cases x with
        | arr ns => simp [arrScan] at h
        | node n =>
          simp only [arrScan, List.cons_append] at h ⊢
          split at h
          · next hc => simp only [hc, and_self, reduceIte]; exact ih _ _ _ _ h hb hi he
          · simp at h

theorem ArrOK.mono {L j j' : Nat} {es : Edits} (h : ArrOK L j es) (hj : j ≤ j') : ArrOK L j' es := by
  obtain ⟨b, h1, h2⟩ := h
  exact ⟨b, h1, by omega⟩

theorem ArrOK.append {L j : Nat} {es : Edits} (h : ArrOK L j es) (hj : j < L) (e : EVal)
    (he : ∀ ns, e ≠ .val (.arr ns)) : ArrOK L (nextBound e j) (es ++ [(.idx j, e)]) := by
  obtain ⟨b, h1, h2⟩ := h
  exact ⟨_, arrScan_append L es 0 b j e h1 h2 hj he, Nat.le_refl _⟩

/-! ### edits of a node level -/

def NodeEditsOK (m : Node) (es : Edits) : Prop :=
  ∀ e ∈ es, ∃ s, e.1 = .name s ∧ s ∈ m.fields.map Prod.fst

theorem setField_ok (c : Child) (s : String) : ∀ (fs : List (String × Child)), s ∈ fs.map Prod.fst →
    ∃ fs', setField fs s c = .ok fs' ∧ fs'.map Prod.fst = fs.map Prod.fst := by
  intro fs
  induction fs with
  | nil => intro h; simp at h
  | cons hd tl ih =>
    intro h
    obtain ⟨k', c'⟩ := hd
    simp only [setField]
    split
    · next hk => exact ⟨_, rfl, by simp⟩
    · next hk =>
      have : s ∈ tl.map Prod.fst := by
        simp only [List.map_cons, List.mem_cons] at h
        rcases h with h | h
        · exact absurd h.symm hk
        · exact h
      obtain ⟨tl', h1, h2⟩ := ih this
      refine ⟨(k', c') :: tl', ?_, by simp [h2]⟩
      show (setField tl s c >>= fun r' => Out.ok ((k', c') :: r')) = _
      rw [h1]; rfl

theorem applyNode_ok : ∀ (es : Edits) (fs : List (String × Child)),
    (∀ e ∈ es, ∃ s, e.1 = .name s ∧ s ∈ fs.map Prod.fst) → ∃ r, applyNode es fs = .ok r := by
  intro es
  induction es with
  | nil => intro fs _; exact ⟨fs, rfl⟩
  | cons e es ih =>
    intro fs h
    obtain ⟨k, ev⟩ := e
    obtain ⟨s, hs, hmem⟩ := h (k, ev) List.mem_cons_self
    simp only at hs
    subst hs
    obtain ⟨fs', h1, h2⟩ := setField_ok ev.toChild s fs hmem
    obtain ⟨r, hr⟩ := ih fs' (by
      intro e he
      obtain ⟨s', hs', hm'⟩ := h e (List.mem_cons_of_mem _ he)
      exact ⟨s', hs', by rw [h2]; exact hm'⟩)
    refine ⟨r, ?_⟩
    show (setField fs s ev.toChild >>= fun fs' => applyNode es fs') = _
    rw [h1]; exact hr

theorem rebuild_ok (m : Node) (es : Edits) (h : NodeEditsOK m es) : ∃ m', rebuild m es = .ok m' := by
  obtain ⟨r, hr⟩ := applyNode_ok es m.fields h
  refine ⟨Node.mk m.kind 0 m.payload r, ?_⟩
  show (applyNode es m.fields >>= fun fs => Out.ok (Node.mk m.kind 0 m.payload fs)) = _
  rw [hr]; rfl

theorem lookup_mem (fs : List (String × Child)) (k : String) (c : Child) (h : fs.lookup k = some c) :
    k ∈ fs.map Prod.fst := by
  induction fs with
  | nil => simp at h
  | cons hd tl ih =>
    obtain ⟨k', c'⟩ := hd
    simp only [List.lookup] at h
    split at h
    · next hk => simp at hk; simp [hk]
    · simp only [List.map_cons, List.mem_cons]; exact Or.inr (ih h)

theorem attr_mem (m : Node) (k : String) (h : m.attr k ≠ .absent) : k ∈ m.fields.map Prod.fst := by
  unfold Node.attr at h
  cases hl : m.fields.lookup k with
  | none => simp [hl] at h
  | some c => exact lookup_mem _ _ _ hl


/-! ### the loop invariant -/

def isArr : Val → Bool
  | .arr _ => true
  | .node _ => false

def LevelOK (inArray : Bool) (keys : Keys) (parent : Val) : Prop :=
  match parent with
  | .arr ns => inArray = true ∧ keys = .items ns
  | .node _ => inArray = false ∧ ∃ ks, keys = .names ks

def EditsOK (parent : Val) (j : Nat) (es : Edits) : Prop :=
  match parent with
  | .arr ns => ArrOK ns.length j es
  | .node m => NodeEditsOK m es

def KeyOK (fidx : Nat) (p : Val) (k : Key) : Prop :=
  match p with
  | .arr _ => k = .idx fidx
  | .node m => ∃ s, k = .name s ∧ s ∈ m.fields.map Prod.fst

/-- the saved levels: `stack`, `ancestors` and `path` have matching depths; each frame is a
consistent level whose pending edits can be applied and extended at its current index -/
def FramesOK : List Frame → List Val → List Key → Val → Prop
  | [_], [], [], _ => True
  | fr :: fs, p :: ps, k :: ks, cur =>
    (isArr p = true → isArr cur = false) ∧ LevelOK fr.inArray fr.keys p ∧ fr.idx < fr.keys.length ∧
      KeyOK fr.idx p k ∧ EditsOK p fr.idx fr.edits ∧ FramesOK fs ps ks p
  | _, _, _, _ => False

def Inv (st : St σ) : Prop :=
  (st.stack = [] ∧ st.idx = 0 ∧ st.keys.length = 1 ∧ st.parent = none ∧ (∃ y, st.node = some (.node y)) ∧
      st.ranc = [] ∧ st.rpath = []) ∨
  (∃ pv, st.parent = some pv ∧ LevelOK st.inArray st.keys pv ∧ st.idx ≤ st.keys.length ∧
      EditsOK pv st.idx st.edits ∧ FramesOK st.stack st.ranc st.rpath pv)

theorem inv_init (root : Node) (s : σ) : Inv (St.init root s) :=
  Or.inl ⟨rfl, rfl, rfl, rfl, ⟨root, rfl⟩, rfl, rfl⟩

theorem FramesOK.stack_ne {fs : List Frame} {ps : List Val} {ks : List Key} {cur : Val}
    (h : FramesOK fs ps ks cur) : fs ≠ [] := by
  intro hfs; subst hfs; simp [FramesOK] at h

theorem EditsOK.mono {p : Val} {j j' : Nat} {es : Edits} (h : EditsOK p j es) (hj : j ≤ j') : EditsOK p j' es := by
  cases p with
  | arr ns => exact ArrOK.mono h hj
  | node m => exact h

theorem EditsOK.nil (p : Val) (j : Nat) : EditsOK p j [] := by
  cases p with
  | arr ns => exact ⟨0, rfl, Nat.zero_le _⟩
  | node m => intro e he; simp at he

/-- appending the edit of the child at index/key `k` keeps the level's edits applicable -/
theorem EditsOK.append {p : Val} {j : Nat} {es : Edits} {k : Key} (h : EditsOK p j es) (hk : KeyOK j p k)
    (hj : ∀ ns, p = .arr ns → j < ns.length) (e : EVal) (he : isArr p = true → ∀ ns, e ≠ .val (.arr ns)) :
    EditsOK p (j + 1) (es ++ [(k, e)]) := by
  cases p with
  | arr ns =>
    simp only [KeyOK] at hk
    subst hk
    have := ArrOK.append h (hj ns rfl) e (he rfl)
    exact ArrOK.mono this (by unfold nextBound; split <;> omega)
  | node m =>
    obtain ⟨s, hs, hmem⟩ := hk
    intro x hx
    rcases List.mem_append.mp hx with hx | hx
    · exact h x hx
    · simp at hx; subst hx; exact ⟨s, hs, hmem⟩


theorem EditsOK.append_val {p : Val} {j : Nat} {es : Edits} {k : Key} (h : EditsOK p j es) (hk : KeyOK j p k)
    (hj : ∀ ns, p = .arr ns → j < ns.length) (r : Node) :
    EditsOK p j (es ++ [(k, .val (.node r))]) := by
  cases p with
  | arr ns =>
    simp only [KeyOK] at hk
    subst hk
    exact ArrOK.append h (hj ns rfl) (.val (.node r)) (by intro ns h; simp at h)
  | node m =>
    obtain ⟨s, hs, hmem⟩ := hk
    intro x hx
    rcases List.mem_append.mp hx with hx | hx
    · exact h x hx
    · simp at hx; subst hx; exact ⟨s, hs, hmem⟩

/-- what is known about a fetched state that is about to enter a node or tuple -/
def Entering (st : St σ) (nd : Val) : Prop :=
  (st.stack = [] ∧ st.parent = none ∧ st.ranc = [] ∧ st.rpath = []) ∨
  (∃ pv k rp, st.parent = some pv ∧ truthy st.parent = true ∧ LevelOK st.inArray st.keys pv ∧
      st.idx < st.keys.length ∧ EditsOK pv st.idx st.edits ∧ st.rpath = k :: rp ∧ st.key = k ∧ KeyOK st.idx pv k ∧
      FramesOK st.stack st.ranc rp pv ∧ (isArr pv = true → isArr nd = false))

theorem push_inv (root : Node) (vk : String → List String) (st : St σ) (nd : Val) (noAction : Bool)
    (h : Entering st nd) :
    ∃ st', tail root vk st false false nd noAction = .ok (.cont st') ∧ Inv st' := by
  refine ⟨_, by simp only [tail, Bool.and_false, Bool.false_eq_true, reduceIte]; rfl, ?_⟩
  refine Or.inr ⟨nd, rfl, ?_, Nat.zero_le _, EditsOK.nil _ _, ?_⟩
  · cases nd with
    | arr ns => exact ⟨rfl, rfl⟩
    | node n => exact ⟨rfl, _, rfl⟩
  · rcases h with ⟨h1, h2, h3, h4⟩ | ⟨pv, k, rp, h1, h2, h3, h4, h5, h6, _, h7, h8, h9⟩
    · simp [h1, h2, h3, h4, truthy, FramesOK]
    · rw [h1] at h2
      simp only [h1, h2, reduceIte, h6, FramesOK]
      exact ⟨h9, h3, h4, h7, h5, h8⟩


/-- the outcome of an iteration is acceptable: no crash, and the invariant holds again -/
def Good (r : O (Next σ)) : Prop :=
  match r with
  | .ok (.cont st') => Inv st'
  | .ok (.stop _ _) => True
  | _ => False

theorem finish_good (root : Node) (st : St σ) : Good (.ok (finish root st)) := by
  unfold finish
  split <;> trivial

theorem push_good (root : Node) (vk : String → List String) (st : St σ) (nd : Val) (noAction : Bool)
    (h : Entering st nd) : Good (tail root vk st false false nd noAction) := by
  obtain ⟨st', h1, h2⟩ := push_inv root vk st nd noAction h
  rw [h1]; exact h2

theorem enter_safe (root : Node) (vk : String → List String) (v : Visitor σ) (st1 : St σ) (nd : Val)
    (h : Entering st1 nd) (hnode : st1.node = some nd) :
    Good (process false root vk v st1 false false) := by
  cases nd with
  | arr ns =>
    simp only [process, hnode]
    exact push_good _ _ _ _ _ h
  | node n =>
    simp only [process, hnode, Bool.false_eq_true, reduceIte]
    rcases hcall : v st1.vs ⟨.enter, n, st1.key, st1.parent, st1.rpath.reverse, st1.ranc.reverse⟩ with ⟨a, vs⟩
    simp only []
    cases a with
    | brk => exact finish_good _ _
    | idle =>
      exact push_good _ _ _ _ _ h
    | skip =>
      rcases h with ⟨h1, h2, h3, h4⟩ | ⟨pv, k, rp, h1, h2, h3, h4, h5, h6, h6', h7, h8, h9⟩
      · simp only [h1, Bool.not_false, List.isEmpty_nil, Bool.and_self, reduceIte]
        exact finish_good _ _
      · have hs : st1.stack.isEmpty = false := by
          cases hst : st1.stack with
          | nil => exact absurd hst h8.stack_ne
          | cons a b => rfl
        simp only [hs, Bool.and_false, Bool.false_eq_true, reduceIte, h6]
        exact Or.inr ⟨pv, h1, h3, by simp only []; omega, h5.mono (Nat.le_succ _), h8⟩
    | remove =>
      rcases h with ⟨h1, h2, h3, h4⟩ | ⟨pv, k, rp, h1, h2, h3, h4, h5, h6, h6', h7, h8, h9⟩
      · simp only [h1, Bool.not_false, List.isEmpty_nil, Bool.and_self, reduceIte]
        exact finish_good _ _
      · have hs : st1.stack.isEmpty = false := by
          cases hst : st1.stack with
          | nil => exact absurd hst h8.stack_ne
          | cons a b => rfl
        simp only [hs, Bool.and_false, Bool.false_eq_true, reduceIte, h6]
        refine Or.inr ⟨pv, h1, h3, by simp only []; omega, ?_, h8⟩
        simp only [h6']
        refine h5.append h7 ?_ .rm (by intro _ ns hh; simp at hh)
        intro ns hp
        subst hp
        simp only [LevelOK] at h3
        rw [h3.2] at h4
        exact h4
    | replace r =>
      have hE : Entering { st1 with vs := vs, edits := st1.edits ++ [(st1.key, EVal.val (.node r))],
                                     node := some (.node r) } (.node r) := by
        rcases h with ⟨h1, h2, h3, h4⟩ | ⟨pv, k, rp, h1, h2, h3, h4, h5, h6, h6', h7, h8, h9⟩
        · exact Or.inl ⟨h1, h2, h3, h4⟩
        · refine Or.inr ⟨pv, k, rp, h1, h2, h3, h4, ?_, h6, h6', h7, h8, by intro _; rfl⟩
          simp only [h6']
          refine h5.append_val h7 ?_ r
          intro ns hp
          subst hp
          simp only [LevelOK] at h3
          rw [h3.2] at h4
          exact h4
      exact push_good _ _ _ _ _ hE


/-- what is known about a state whose level has just been popped (`is_leaving`); `j` is the
index up to which the restored edits are known to be applicable -/
def Popped (st : St σ) (nv : Val) (j : Nat) : Prop :=
  st.stack = [] ∨
  (∃ p k ks, st.parent = some p ∧ st.rpath = k :: ks ∧ st.key = k ∧ LevelOK st.inArray st.keys p ∧
      st.idx < st.keys.length ∧ KeyOK st.idx p k ∧ FramesOK st.stack st.ranc ks p ∧
      (isArr p = true → isArr nv = false) ∧ EditsOK p j st.edits)

theorem pop_good (root : Node) (vk : String → List String) (st : St σ) (nv : Val) (e : Bool)
    (h : Popped st nv st.idx) : Good (tail root vk st true e nv true) := by
  simp only [tail, reduceIte]
  rcases h with h | ⟨p, k, ks, h1, h2, h3, h4, h5, h6, h7, h8, h9⟩
  · simp only [h, List.isEmpty_nil, reduceIte]
    exact finish_good _ _
  · have hs : st.stack.isEmpty = false := by
      cases hst : st.stack with
      | nil => exact absurd hst h7.stack_ne
      | cons a b => rfl
    simp only [hs, Bool.false_eq_true, reduceIte]
    refine Or.inr ⟨p, h1, h4, by simp only []; omega, ?_, by simp only [h2, List.tail_cons]; exact h7⟩
    simp only []
    have hj : ∀ ns, p = .arr ns → st.idx < ns.length := by
      intro ns hp
      subst hp
      simp only [LevelOK] at h4
      rw [h4.2] at h5
      exact h5
    split
    · rw [h3]
      refine h9.append h6 hj _ ?_
      intro hp ns hh
      have := h8 hp
      simp only [EVal.val.injEq] at hh
      subst hh
      simp [isArr] at this
    · exact h9.mono (Nat.le_succ _)

theorem pop_good_edited (root : Node) (vk : String → List String) (st : St σ) (nv : Val) (e : Bool)
    (h : Popped st nv (st.idx + 1)) : Good (tail root vk st true e nv false) := by
  simp only [tail, reduceIte, Bool.false_and, Bool.false_eq_true]
  rcases h with h | ⟨p, k, ks, h1, h2, h3, h4, h5, h6, h7, h8, h9⟩
  · simp only [h, List.isEmpty_nil, reduceIte]
    exact finish_good _ _
  · have hs : st.stack.isEmpty = false := by
      cases hst : st.stack with
      | nil => exact absurd hst h7.stack_ne
      | cons a b => rfl
    simp only [hs, Bool.false_eq_true, reduceIte]
    exact Or.inr ⟨p, h1, h4, by simp only []; omega, h9, by simp only [h2, List.tail_cons]; exact h7⟩

/-- a leave-edit (`REMOVE` or a node) recorded at the popped level -/
theorem Popped.edit {st : St σ} {nv : Val} (h : Popped st nv st.idx) (x : EVal) (hx : ∀ ns, x ≠ .val (.arr ns))
    (vs : σ) (nd : Option Val) :
    Popped { st with vs := vs, node := nd, edits := st.edits ++ [(st.key, x)] } nv (st.idx + 1) := by
  rcases h with h | ⟨p, k, ks, h1, h2, h3, h4, h5, h6, h7, h8, h9⟩
  · exact Or.inl h
  · refine Or.inr ⟨p, k, ks, h1, h2, h3, h4, h5, h6, h7, h8, ?_⟩
    simp only [h3]
    refine h9.append h6 ?_ x (fun _ => hx)
    intro ns hp
    subst hp
    simp only [LevelOK] at h4
    rw [h4.2] at h5
    exact h5

theorem leave_safe (root : Node) (vk : String → List String) (v : Visitor σ) (st1 : St σ) (nv : Val) (e : Bool)
    (h : Popped st1 nv st1.idx) (hnode : st1.node = some nv) :
    Good (process false root vk v st1 true e) := by
  cases nv with
  | arr ns =>
    simp only [process, hnode]
    exact pop_good _ _ _ _ _ h
  | node n =>
    simp only [process, hnode, reduceIte]
    rcases hcall : v st1.vs ⟨.leave, n, st1.key, st1.parent, st1.rpath.reverse, st1.ranc.reverse⟩ with ⟨a, vs⟩
    simp only []
    cases a with
    | brk => exact finish_good _ _
    | idle => exact pop_good _ _ _ _ _ h
    | skip => exact pop_good _ _ _ _ _ h
    | remove => exact pop_good_edited _ _ _ _ _ (h.edit .rm (by intro ns hh; simp at hh) vs _)
    | replace r => exact pop_good_edited _ _ _ _ _ (h.edit (.val (.node r)) (by intro ns hh; simp at hh) vs _)


theorem step_of_fetch_got (root : Node) (vk : String → List String) (v : Visitor σ) (st st1 : St σ) (l e : Bool)
    (h : fetch st = .ok (.got st1 l e)) :
    step false root vk v st = process false root vk v st1 l e := by
  simp only [step, h]

theorem step_safe (root : Node) (vk : String → List String) (v : Visitor σ) (st : St σ) (h : Inv st) :
    Good (step false root vk v st) := by
  rcases h with ⟨h1, h2, h3, h4, ⟨y, h5⟩, h6, h7⟩ | ⟨pv, hpar, hlev, hidx, hed, hfr⟩
  · -- the very first iteration
    have hf : fetch st = .ok (.got st false false) := by
      have : (st.idx == st.keys.length) = false := by simp [h2, h3]
      simp [fetch, this, h4, truthy]
    rw [step_of_fetch_got root vk v st st false false hf]
    exact enter_safe root vk v st (.node y) (Or.inl ⟨h1, h4, h6, h7⟩) h5
  · by_cases hl : st.idx = st.keys.length
    · -- leaving the current level
      have hl' : (st.idx == st.keys.length) = true := by simp [hl]
      -- the (possibly rebuilt) value of the level that is left
      have hnode : ∃ nv, (if (!st.edits.isEmpty) = true then applyEdits st.inArray (some pv) st.edits
          else Out.ok (some pv)) = .ok (some nv) ∧ isArr nv = isArr pv := by
        split
        · cases pv with
          | arr ns =>
            simp only [LevelOK] at hlev
            simp only [EditsOK] at hed
            obtain ⟨b, hb, _⟩ := hed
            obtain ⟨r, hr⟩ := applyArr_ok ns.length st.edits 0 b 0 ns hb (Nat.le_refl _) rfl
            refine ⟨.arr r, ?_, rfl⟩
            simp only [applyEdits, hlev.1, reduceIte, hr]
            rfl
          | node m =>
            simp only [LevelOK] at hlev
            simp only [EditsOK] at hed
            obtain ⟨m', hm'⟩ := rebuild_ok m st.edits hed
            refine ⟨.node m', ?_, rfl⟩
            simp only [applyEdits, hlev.1, Bool.false_eq_true, reduceIte, hm']
            rfl
        · exact ⟨pv, rfl, rfl⟩
      obtain ⟨nv, hnv, hkind⟩ := hnode
      cases hst : st.stack with
      | nil => exact absurd hst hfr.stack_ne
      | cons fr fs =>
        rw [hst] at hfr
        cases hra : st.ranc with
        | nil =>
          rw [hra] at hfr
          cases hrp : st.rpath with
          | cons k ks => rw [hrp] at hfr; cases fs <;> simp [FramesOK] at hfr
          | nil =>
            rw [hrp] at hfr
            cases fs with
            | cons f2 fs2 => simp [FramesOK] at hfr
            | nil =>
              have hf : fetch st = .ok (.got { st with idx := fr.idx, keys := fr.keys, edits := fr.edits, inArray := fr.inArray, stack := [], node := some nv, key := .none, parent := none, ranc := [] }
                  true (!st.edits.isEmpty)) := by
                simp only [fetch, hl', reduceIte, Bool.true_and, hra, hrp, lastKey, popAnc, hpar, hst]
                show (Out.ok Key.none >>= fun key => _) = _
                simp only [Out.bind_ok]
                rw [hnv]
                rfl
              rw [step_of_fetch_got root vk v st _ true _ hf]
              exact leave_safe root vk v _ nv _ (Or.inl rfl) rfl
        | cons p ps =>
          rw [hra] at hfr
          cases hrp : st.rpath with
          | nil => rw [hrp] at hfr; cases fs <;> simp [FramesOK] at hfr
          | cons k ks =>
            rw [hrp] at hfr
            simp only [FramesOK] at hfr
            obtain ⟨hA, hL, hI, hK, hE, hF⟩ := hfr
            have hf : fetch st = .ok (.got { st with idx := fr.idx, keys := fr.keys, edits := fr.edits, inArray := fr.inArray, stack := fs, node := some nv, key := k, parent := some p, ranc := ps }
                true (!st.edits.isEmpty)) := by
              simp only [fetch, hl', reduceIte, Bool.true_and, hra, hrp, lastKey, popAnc, hpar, hst]
              show (Out.ok k >>= fun key => _) = _
              simp only [Out.bind_ok]
              rw [hnv]
              rfl
            rw [step_of_fetch_got root vk v st _ true _ hf]
            refine leave_safe root vk v _ nv _ (Or.inr ⟨p, k, ks, rfl, hrp, rfl, hL, hI, hK, hF, ?_, hE⟩) rfl
            intro hp
            rw [hkind]
            exact hA hp
    · -- descending to the next child
      have hl' : (st.idx == st.keys.length) = false := by simp [hl]
      have hlt : st.idx < st.keys.length := by omega
      cases pv with
      | arr ns =>
        simp only [LevelOK] at hlev
        obtain ⟨hin, hkeys⟩ := hlev
        have hlt' : st.idx < ns.length := by rw [hkeys] at hlt; exact hlt
        have hne : ns ≠ [] := by intro hh; subst hh; simp at hlt'
        have htr : truthy (some (Val.arr ns)) = true := by
          cases ns with
          | nil => exact absurd rfl hne
          | cons a b => rfl
        have hget : ns[st.idx]? = some ns[st.idx] := List.getElem?_eq_getElem hlt'
        have hf : fetch st = .ok (.got { st with key := .idx st.idx, node := some (.node ns[st.idx]), rpath := .idx st.idx :: st.rpath } false false) := by
          simp [fetch, hl', hpar, htr, hin, hget]
        rw [step_of_fetch_got root vk v st _ false false hf]
        refine enter_safe root vk v _ (.node ns[st.idx]) (Or.inr ⟨.arr ns, .idx st.idx, st.rpath, hpar, by rw [hpar]; exact htr,
          ⟨hin, hkeys⟩, hlt, hed, rfl, rfl, rfl, hfr, by intro _; rfl⟩) rfl
      | node m =>
        simp only [LevelOK] at hlev
        obtain ⟨hin, ks, hkeys⟩ := hlev
        have hlt' : st.idx < ks.length := by rw [hkeys] at hlt; exact hlt
        have hget : ks[st.idx]? = some ks[st.idx] := List.getElem?_eq_getElem hlt'
        have hl'' : (st.idx == (Keys.names ks).length) = false := by rw [← hkeys]; exact hl'
        cases hattr : m.attr ks[st.idx] with
        | absent =>
          have hf : fetch st = .ok (.cont { st with key := .name ks[st.idx], node := none, idx := st.idx + 1 }) := by
            simp [fetch, hkeys, hl'', hpar, truthy, hin, hget, hattr]
          simp only [step, hf]
          exact Or.inr ⟨.node m, hpar, ⟨hin, ks, hkeys⟩, by simp only []; omega, hed, hfr⟩
        | one c =>
          have hf : fetch st = .ok (.got { st with key := .name ks[st.idx], node := some (.node c), rpath := .name ks[st.idx] :: st.rpath } false false) := by
            simp [fetch, hkeys, hl'', hpar, truthy, hin, hget, hattr]
          rw [step_of_fetch_got root vk v st _ false false hf]
          refine enter_safe root vk v _ (.node c) (Or.inr ⟨.node m, .name ks[st.idx], st.rpath, hpar, by rw [hpar]; rfl,
            ⟨hin, ks, hkeys⟩, hlt, hed, rfl, rfl, ⟨_, rfl, attr_mem m _ (by rw [hattr]; simp)⟩, hfr, by intro hh; simp [isArr] at hh⟩) rfl
        | many cs =>
          have hf : fetch st = .ok (.got { st with key := .name ks[st.idx], node := some (.arr cs), rpath := .name ks[st.idx] :: st.rpath } false false) := by
            simp [fetch, hkeys, hl'', hpar, truthy, hin, hget, hattr]
          rw [step_of_fetch_got root vk v st _ false false hf]
          refine enter_safe root vk v _ (.arr cs) (Or.inr ⟨.node m, .name ks[st.idx], st.rpath, hpar, by rw [hpar]; rfl,
            ⟨hin, ks, hkeys⟩, hlt, hed, rfl, rfl, ⟨_, rfl, attr_mem m _ (by rw [hattr]; simp)⟩, hfr, by intro hh; simp [isArr] at hh⟩) rfl


theorem iter_safe (root : Node) (vk : String → List String) (v : Visitor σ) :
    ∀ (k : Nat) (st : St σ), Inv st → Good (iter false root vk v k st) := by
  intro k
  induction k with
  | zero => intro st h; exact h
  | succ k ih =>
    intro st h
    have hs := step_safe root vk v st h
    simp only [iter]
    cases hstep : step false root vk v st with
    | ok nx =>
      rw [hstep] at hs
      cases nx with
      | cont st' => exact ih st' hs
      | stop r s => trivial
    | err e => rw [hstep] at hs; exact hs.elim
    | crash c => rw [hstep] at hs; exact hs.elim

/-- no visitor decision makes `visit` raise, however long it runs -/
theorem visitFuel_no_crash (root : Node) (vk : String → List String) (v : Visitor σ) (s : σ) (fuel : Nat) :
    visitFuel root vk v s fuel = none ∨ ∃ r s', visitFuel root vk v s fuel = some (.ok (r, s')) := by
  have h := iter_safe root vk v fuel (St.init root s) (inv_init root s)
  unfold visitFuel
  cases hi : iter false root vk v fuel (St.init root s) with
  | ok nx =>
    cases nx with
    | cont st' => exact Or.inl rfl
    | stop r s' => exact Or.inr ⟨r, s', rfl⟩
  | err e => rw [hi] at h; exact h.elim
  | crash c => rw [hi] at h; exact h.elim

end Gql.Syntax
