import Gql.Request.Pipeline
/-
Lemmas for the `graphql_impl` / `located_error` models: formatted library errors satisfy the
response-format spec; an already located error passes unchanged through every enclosing handler.
-/
namespace Gql.Request
open Gql.Spec

theorem wfLocation_mk (l c : Int) (hl : 1 ≤ l) (hc : 1 ≤ c) :
    wfLocation (.obj [("line", .int l), ("column", .int c)]) = true := by
  simp [wfLocation, allowedKeys, J.keys, J.get?, List.lookup, hl, hc]

theorem all_wfLocation (ls : List (Int × Int)) (h : ∀ lc ∈ ls, 1 ≤ lc.1 ∧ 1 ≤ lc.2) :
    (ls.map locToJ).all wfLocation = true := by
  simp only [List.all_map, List.all_eq_true]
  intro lc hlc
  exact wfLocation_mk _ _ (h lc hlc).1 (h lc hlc).2

theorem all_wfPathSeg (p : List PathSeg) (h : ∀ s ∈ p, ∀ i, s = .idx i → 0 ≤ i) :
    (p.map PathSeg.toJ).all wfPathSeg = true := by
  simp only [List.all_map, List.all_eq_true]
  intro s hs
  cases s with
  | key => rfl
  | idx i => simp [PathSeg.toJ, wfPathSeg, h _ hs i rfl]

/-- a well-formed library error formats to a well-formed error entry; without a path it is also a
well-formed *request* error (`pre = true`) -/
theorem wfError_formatted (e : GErr) (h : e.WF) (pre : Bool) (hp : pre = true → e.path = none) :
    wfError pre e.formatted = true := by
  obtain ⟨hm, hl, hpth⟩ := h
  obtain ⟨m, locs, path, ext⟩ := e
  simp only at hm hl hpth hp
  subst hm
  cases locs with
  | none =>
    cases path with
    | none => cases ext <;> simp [GErr.formatted, wfError, allowedKeys, J.keys, J.get?, List.lookup]
    | some p =>
      have hpre : pre = false := by cases pre <;> simp_all
      subst hpre
      have := all_wfPathSeg p (hpth p rfl)
      cases ext <;> simp [GErr.formatted, wfError, allowedKeys, J.keys, J.get?, List.lookup] <;>
        simpa using this
  | some ls =>
    have hls := all_wfLocation ls (hl ls rfl)
    cases path with
    | none =>
      cases ext <;> simp [GErr.formatted, wfError, allowedKeys, J.keys, J.get?, List.lookup] <;>
        simpa using hls
    | some p =>
      have hpre : pre = false := by cases pre <;> simp_all
      subst hpre
      have := all_wfPathSeg p (hpth p rfl)
      cases ext <;> simp [GErr.formatted, wfError, allowedKeys, J.keys, J.get?, List.lookup] <;>
        exact ⟨by simpa using hls, by simpa using this⟩

/-- an errors-only result with a non-empty list of well-formed path-less errors is a well-formed
response, also under the stricter request-error reading -/
theorem wfResponse_errorsOnly (es : List GErr) (hne : es ≠ []) (h : ∀ e ∈ es, e.WF ∧ e.path = none)
    (pre : Bool) : wfResponse pre (Resp.formatted ⟨false, some es⟩) = true := by
  have hall : (es.map GErr.formatted).all (wfError pre) = true := by
    simp only [List.all_map, List.all_eq_true]
    intro e he
    exact wfError_formatted e (h e he).1 pre (fun _ => (h e he).2)
  have hne' : (es.map GErr.formatted).isEmpty = false := by
    cases es with
    | nil => exact absurd rfl hne
    | cons a t => rfl
  simp [Resp.formatted, wfResponse, allowedKeys, J.keys, J.get?, List.lookup, hall, hne']

/-- `pre = true` only adds constraints -/
theorem wfError_pre_imp (j : J) (h : wfError true j = true) : wfError false j = true := by
  cases j with
  | obj kvs =>
    simp only [wfError, Bool.and_eq_true] at h ⊢
    obtain ⟨⟨⟨⟨h1, h2⟩, h3⟩, h4⟩, h5⟩ := h
    refine ⟨⟨⟨⟨h1, h2⟩, h3⟩, ?_⟩, h5⟩
    revert h4
    cases J.get? kvs "path" with
    | none => simp
    | some v => cases v <;> simp
  | _ => simp [wfError] at h

/-! ### located errors through the chain of enclosing fields -/

theorem chain_located (hardened : Bool) (chain : List Bool) (p path : List PathSeg) :
    ∃ g, handleFieldErrorChain hardened chain { gqlPath := some (some p) } path = .collected g ∧
      g.path = some p := by
  induction chain generalizing path with
  | nil => exact ⟨_, rfl, rfl⟩
  | cons nn outer ih =>
    cases nn with
    | false => exact ⟨_, rfl, rfl⟩
    | true =>
      obtain ⟨g, hg, hp⟩ := ih path.dropLast
      exact ⟨g, by simpa [handleFieldErrorChain, locatedError, mkError] using hg, hp⟩

/-- the path under which an exception surfaces: its own if it is an already located `GraphQLError`,
else the path of the field whose resolver raised -/
def surfacePath (e : Exn) (path : List PathSeg) : List PathSeg :=
  match e.isException, e.gqlPath with
  | true, some (some p) => p
  | _, _ => path

theorem locatedInner_some {e : Exn} {path : List PathSeg} {g : GErr} (h : locatedInner e path = some g) :
    g = mkError path (e.extensions = .good) := by
  unfold locatedInner at h
  split at h
  · simp only [Option.some.injEq] at h; exact h.symm
  · simp at h

theorem attrsOk_of_wellTyped {e : Exn} (hw : e.WellTyped) : attrsOk e = true := by
  obtain ⟨h1, h2, h3, h4, h5, h6⟩ := hw
  rcases h2 with h2 | h2 <;> rcases h3 with h3 | h3 <;> rcases h4 with h4 | h4 <;>
    rcases h5 with h5 | h5 <;> rcases h6 with h6 | h6 <;>
    simp [attrsOk, msgOk, h1, h2, h3, h4, h5, h6, attrOk]

/-- what `located_error` does with an exception that is not an already located `GraphQLError` -/
theorem locatedError_fresh (hardened : Bool) (e : Exn) (path : List PathSeg) (hpath : path ≠ [])
    (hexc : e.isException = true) (hg : ∀ p, e.gqlPath ≠ some (some p))
    (hok : hardened = true ∨ attrsOk e = true) :
    ∃ g, locatedError hardened e path = .ret g ∧ g.path = some path := by
  have hmk : ∀ b, (mkError path b).path = some path := by intro b; simp [mkError, hpath]
  unfold locatedError
  simp only [hexc, ↓reduceIte]
  cases hgp : e.gqlPath with
  | some op =>
    cases op with
    | some p => exact absurd hgp (hg p)
    | none =>
      cases hin : locatedInner e path with
      | some g => exact ⟨g, rfl, by rw [locatedInner_some hin]; exact hmk _⟩
      | none =>
        rcases hok with hh | hw
        · subst hh; exact ⟨_, rfl, hmk _⟩
        · simp [locatedInner, hw] at hin
  | none =>
    cases hin : locatedInner e path with
    | some g => exact ⟨g, rfl, by rw [locatedInner_some hin]; exact hmk _⟩
    | none =>
      rcases hok with hh | hw
      · subst hh; exact ⟨_, rfl, hmk _⟩
      · simp [locatedInner, hw] at hin

/-- a non-exception is first wrapped into a `TypeError` -/
theorem locatedError_nonException (hardened : Bool) (e : Exn) (path : List PathSeg)
    (h : e.isException = false) : locatedError hardened e path = locatedError hardened {} path := by
  simp [locatedError, h]

theorem chain_collects (hardened : Bool) (e : Exn) (nn : Bool) (outer : List Bool) (path : List PathSeg)
    (hpath : path ≠ []) (hok : hardened = true ∨ e.WellTyped) :
    ∃ g, handleFieldErrorChain hardened (nn :: outer) e path = .collected g ∧
      g.path = some (surfacePath e path) := by
  -- the error `located_error` returns at the field itself
  have hloc : ∃ g, locatedError hardened e path = .ret g ∧ g.path = some (surfacePath e path) := by
    cases hexc : e.isException with
    | false =>
      rw [locatedError_nonException hardened e path hexc]
      have : surfacePath e path = path := by simp [surfacePath, hexc]
      rw [this]
      exact locatedError_fresh hardened {} path hpath rfl (by intro p; simp)
        (Or.inr (by simp [attrsOk, msgOk, attrOk]))
    | true =>
      cases hg : e.gqlPath with
      | some op =>
        cases op with
        | some p =>
          refine ⟨{ (mkError p false) with path := some p }, ?_, ?_⟩
          · simp [locatedError, hexc, hg]
          · simp [surfacePath, hexc, hg]
        | none =>
          have : surfacePath e path = path := by simp [surfacePath, hexc, hg]
          rw [this]
          exact locatedError_fresh hardened e path hpath hexc (by intro p; simp [hg])
            (hok.imp id attrsOk_of_wellTyped)
      | none =>
        have : surfacePath e path = path := by simp [surfacePath, hexc, hg]
        rw [this]
        exact locatedError_fresh hardened e path hpath hexc (by intro p; simp [hg])
          (hok.imp id attrsOk_of_wellTyped)
  obtain ⟨g, hg, hp⟩ := hloc
  cases nn with
  | false => exact ⟨g, by simp [handleFieldErrorChain, hg], hp⟩
  | true =>
    obtain ⟨g', hg', hp'⟩ := chain_located hardened outer (surfacePath e path) path.dropLast
    refine ⟨g', ?_, hp'⟩
    simp only [handleFieldErrorChain, hg, ↓reduceIte, hp]
    exact hg'

end Gql.Request
