import Gql.Types.Sort
import Gql.Proofs.SchemaBuild1
namespace Gql.Types
open Gql Gql.Generated

theorem nodupNames_iff (ns : List Str) : nodupNames ns = true ↔ ns.Nodup := by
  induction ns with
  | nil => simp [nodupNames]
  | cons n ns ih =>
    simp only [nodupNames_cons, Bool.and_eq_true, Bool.not_eq_eq_eq_not, Bool.not_true, List.nodup_cons, ih]
    constructor
    · rintro ⟨h1, h2⟩
      refine ⟨?_, h2⟩
      intro hm
      have : ns.contains n = true := by rw [List.contains_iff_mem]; exact hm
      rw [this] at h1; exact Bool.noConfusion h1
    · rintro ⟨h1, h2⟩
      refine ⟨?_, h2⟩
      cases hc : ns.contains n with
      | false => rfl
      | true => rw [List.contains_iff_mem] at hc; exact absurd hc h1

theorem lookupBy_isSome_of_mem {α : Type} (key : α → Str) (l : List α) (x : α) (hx : x ∈ l) :
    (lookupBy key (key x) l).isSome = true := by
  unfold lookupBy
  rw [List.find?_isSome]
  exact ⟨x, hx, by simp⟩

theorem lookupBy_of_nodup {α : Type} (key : α → Str) (l : List α) (h : (l.map key).Nodup) (x : α) (hx : x ∈ l) :
    lookupBy key (key x) l = some x := by
  induction l with
  | nil => cases hx
  | cons y ys ih =>
    simp only [List.map_cons, List.nodup_cons] at h
    unfold lookupBy
    by_cases hk : key y = key x
    · have : y = x := by
        rcases List.mem_cons.mp hx with e | e
        · exact e.symm
        · exfalso; apply h.1; rw [hk]; exact List.mem_map.mpr ⟨x, e, rfl⟩
      subst this
      simp [List.find?]
    · have hx' : x ∈ ys := by
        rcases List.mem_cons.mp hx with e | e
        · subst e; exact absurd rfl hk
        · exact e
      have hb : (key y == key x) = false := by simp [hk]
      have := ih h.2 hx'
      unfold lookupBy at this
      simp only [List.find?, hb]
      exact this

/-- `new` is a rearrangement of `old` with every element replaced by `g` of it (`g` keeps names). -/
structure Rearranged {α : Type} (key : α → Str) (g : α → α) (old new : List α) : Prop where
  perm : new.Perm (old.map g)
  key_g : ∀ x, key (g x) = key x
  nodup : (old.map key).Nodup

theorem Rearranged.lookup {α : Type} {key : α → Str} {g : α → α} {old new : List α}
    (r : Rearranged key g old new) (o : α) (ho : o ∈ old) : lookupBy key (key o) new = some (g o) := by
  have hmem : g o ∈ new := r.perm.mem_iff.mpr (List.mem_map.mpr ⟨o, ho, rfl⟩)
  have hnd : (new.map key).Nodup := by
    have hp : (new.map key).Perm ((old.map g).map key) := r.perm.map key
    rw [hp.nodup_iff]
    have : (old.map g).map key = old.map key := by
      rw [List.map_map]; apply List.map_congr_left; intro x _; exact r.key_g x
    rw [this]; exact r.nodup
  have := lookupBy_of_nodup key new hnd (g o) hmem
  rwa [r.key_g] at this

theorem Rearranged.removed {α : Type} {key : α → Str} {g : α → α} {old new : List α}
    (r : Rearranged key g old new) : removedBy key old new = [] := by
  unfold removedBy
  rw [List.filter_eq_nil_iff]
  intro o ho
  simp [r.lookup o ho]

theorem Rearranged.added {α : Type} {key : α → Str} {g : α → α} {old new : List α}
    (r : Rearranged key g old new) : addedBy key old new = [] := by
  unfold addedBy
  rw [List.filter_eq_nil_iff]
  intro n hn
  obtain ⟨o, ho, rfl⟩ := List.mem_map.mp (r.perm.mem_iff.mp hn)
  have := lookupBy_isSome_of_mem key old o ho
  rw [r.key_g]
  simp [Option.isSome_iff_ne_none.mp this]

theorem Rearranged.persisted {α : Type} {key : α → Str} {g : α → α} {old new : List α}
    (r : Rearranged key g old new) : persistedBy key old new = old.map (fun o => (o, g o)) := by
  unfold persistedBy
  have : ∀ l : List α, (∀ o ∈ l, o ∈ old) →
      l.filterMap (fun o => (lookupBy key (key o) new).map (fun n => (o, n))) = l.map (fun o => (o, g o)) := by
    intro l
    induction l with
    | nil => intro _; rfl
    | cons x xs ih =>
      intro hsub
      rw [List.filterMap_cons, r.lookup x (hsub x (by simp))]
      simp only [Option.map_some, List.map_cons]
      rw [ih (fun o ho => hsub o (by simp [ho]))]
  exact this old (fun _ h => h)

theorem Rearranged.refl {α : Type} (key : α → Str) (l : List α) (h : (l.map key).Nodup) :
    Rearranged key id l l := ⟨by simp, fun _ => rfl, h⟩

/-- Name lists (`list_diff` over interfaces / union members): a permutation adds and removes nothing. -/
theorem removedBy_id_perm (old new : List Str) (h : new.Perm old) : removedBy id old new = [] := by
  unfold removedBy
  rw [List.filter_eq_nil_iff]
  intro o ho
  have := lookupBy_isSome_of_mem id new o (h.mem_iff.mpr ho)
  simp only [id] at this ⊢
  simp [Option.isSome_iff_ne_none.mp this]

theorem addedBy_id_perm (old new : List Str) (h : new.Perm old) : addedBy id old new = [] := by
  unfold addedBy
  rw [List.filter_eq_nil_iff]
  intro o ho
  have := lookupBy_isSome_of_mem id old o (h.mem_iff.mp ho)
  simp only [id] at this ⊢
  simp [Option.isSome_iff_ne_none.mp this]

theorem safeInputChange_refl (t : TypeRef) : safeInputChange t t = true := by
  induction t with
  | named n => simp [safeInputChange]
  | list t ih => simp [safeInputChange, ih]
  | nonNull t ih => simp [safeInputChange, ih]

theorem safeOutputChange_refl (t : TypeRef) : safeOutputChange t t = true := by
  induction t with
  | named n => simp [safeOutputChange]
  | list t ih => simp [safeOutputChange, ih]
  | nonNull t ih => simp [safeOutputChange, ih]

theorem argPairChanges_self (p d : List Str) (a : Arg) : argPairChanges p d a a = [] := by
  simp [argPairChanges, safeInputChange_refl]
  cases (defaultKey a) <;> simp

end Gql.Types
