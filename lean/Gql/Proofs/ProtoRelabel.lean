import Gql.Proofs.ProtoFinal
/-!
The payload stream depends on the labels only through the `label` field of the `pending`
entries: two label/path environments with the same group paths produce payload streams whose
`pending` entries are built from the same (node, id) pairs, and whose other fields are equal.
Used to carry P5 from unlabelled streams (`Labels`) to streams whose labels do not occur in the
nesting relation.
-/
namespace Gql.Async
open Gql.Spec.Protocol

/-- The `pending` entry of a node with its id. -/
def mkEntry (π : PubStatic) (x : Node × Nat) : Pending :=
  { id := x.2, path := π.path x.1, label := π.label x.1 }

/-- `_to_pending_results` without the labels: the (node, id) pairs. -/
def toPendingNodes (p : Pub) (ns : List Node) : Pub × List (Node × Nat) :=
  ns.foldl (fun (acc : Pub × List (Node × Nat)) n => ((ensureId acc.1 n).1, acc.2 ++ [(n, (ensureId acc.1 n).2)])) (p, [])

theorem toPending_fold_nodes (π : PubStatic) (ns : List Node) (p : Pub) (acc : List Pending)
    (accN : List (Node × Nat)) :
    (ns.foldl (fun (acc : Pub × List Pending) n =>
      let (p, i) := ensureId acc.1 n
      (p, acc.2 ++ [{ id := i, path := π.path n, label := π.label n }])) (p, acc)) =
    ((ns.foldl (fun (acc : Pub × List (Node × Nat)) n =>
        ((ensureId acc.1 n).1, acc.2 ++ [(n, (ensureId acc.1 n).2)])) (p, accN)).1,
     acc ++ ((ns.foldl (fun (acc : Pub × List (Node × Nat)) n =>
        ((ensureId acc.1 n).1, acc.2 ++ [(n, (ensureId acc.1 n).2)])) (p, accN)).2.drop accN.length).map (mkEntry π)) := by
  induction ns generalizing p acc accN with
  | nil => simp
  | cons n ns ih =>
    simp only [List.foldl_cons]
    rw [ih (ensureId p n).1 _ (accN ++ [(n, (ensureId p n).2)])]
    have hpre : ∀ (l : List Node) (q : Pub) (a : List (Node × Nat)),
        ∃ new, (l.foldl (fun (acc : Pub × List (Node × Nat)) n =>
          ((ensureId acc.1 n).1, acc.2 ++ [(n, (ensureId acc.1 n).2)])) (q, a)).2 = a ++ new := by
      intro l
      induction l with
      | nil => intro q a; exact ⟨[], by simp⟩
      | cons m l ihl =>
        intro q a
        simp only [List.foldl_cons]
        obtain ⟨new, hnew⟩ := ihl (ensureId q m).1 (a ++ [(m, (ensureId q m).2)])
        exact ⟨(m, (ensureId q m).2) :: new, by rw [hnew]; simp⟩
    obtain ⟨new, hnew⟩ := hpre ns (ensureId p n).1 (accN ++ [(n, (ensureId p n).2)])
    rw [hnew]
    simp [mkEntry, List.drop_append]

theorem toPending_nodes (π : PubStatic) (p : Pub) (gs ss : List Nat) :
    toPendingResults π p gs ss =
      ((toPendingNodes p (nodesOf gs ss)).1, (toPendingNodes p (nodesOf gs ss)).2.map (mkEntry π)) := by
  have := toPending_fold_nodes π (nodesOf gs ss) p [] []
  simpa [toPendingResults, toPendingNodes, nodesOf] using this

/-- The (node, id) pairs an event announces in table `p`. -/
def evNodes (p : Pub) : WQEvent → List (Node × Nat)
  | .groupSuccess g ng ns =>
    if ng.isEmpty ∧ ns.isEmpty then []
    else (toPendingNodes (dropId (ensureId p (.group g)).1 (.group g)) (nodesOf ng ns)).2
  | .streamValues s _ ng ns =>
    if ng.isEmpty ∧ ns.isEmpty then []
    else (toPendingNodes (ensureId p (.stream s)).1 (nodesOf ng ns)).2
  | _ => []

/-- Two contexts built from the same (node, id) pairs under two environments. -/
structure CtxRel (π π' : PubStatic) (N : List (Node × Nat)) (c c' : PCtx) : Prop where
  pend : c.pending = N.map (mkEntry π)
  pend' : c'.pending = N.map (mkEntry π')
  incr : c.incremental = c'.incremental
  comp : c.completed = c'.completed
  next : c.hasNext = c'.hasNext

theorem bestId_gpath (π π' : PubStatic) (hg : π.gpath = π'.gpath) (p : Pub) (i g : Nat) (v : GVal) :
    bestIdAndSubPath π p i g v = bestIdAndSubPath π' p i g v := by
  unfold bestIdAndSubPath
  rw [hg]

theorem handleEvent_fst (π π' : PubStatic) (p : Pub) (c c' : PCtx) (e : WQEvent) :
    (handleEvent π p c e).1 = (handleEvent π' p c' e).1 := by
  cases e with
  | groupValues g vals => rfl
  | groupSuccess g ng ns =>
    simp only [handleEvent]
    split
    · rfl
    · simp only [toPending_nodes]
  | groupFailure g => rfl
  | streamValues s vals ng ns =>
    simp only [handleEvent]
    split
    · rfl
    · simp only [toPending_nodes]
  | streamSuccess s => rfl
  | streamFailure s => rfl
  | termination => rfl

theorem handleEvent_rel (π π' : PubStatic) (hg : π.gpath = π'.gpath) (p : Pub) (c c' : PCtx)
    (N : List (Node × Nat)) (e : WQEvent) (h : CtxRel π π' N c c') :
    CtxRel π π' (N ++ evNodes p e) (handleEvent π p c e).2 (handleEvent π' p c' e).2 := by
  obtain ⟨h1, h2, h3, h4, h5⟩ := h
  cases e with
  | groupValues g vals =>
    simp only [handleEvent, evNodes, List.append_nil]
    refine ⟨h1, h2, ?_, h4, h5⟩
    simp only [h3, bestId_gpath π π' hg]
  | groupSuccess g ng ns =>
    simp only [handleEvent, evNodes]
    split
    · simp only [List.append_nil]
      exact ⟨h1, h2, h3, by simp only [h4], h5⟩
    · simp only [toPending_nodes]
      exact ⟨by simp [h1], by simp [h2], h3, by simp only [h4], h5⟩
  | groupFailure g =>
    simp only [handleEvent, evNodes, List.append_nil]
    exact ⟨h1, h2, h3, by simp only [h4], h5⟩
  | streamValues s vals ng ns =>
    simp only [handleEvent, evNodes]
    split
    · simp only [List.append_nil]
      exact ⟨h1, h2, by simp only [h3], h4, h5⟩
    · simp only [toPending_nodes]
      exact ⟨by simp [h1], by simp [h2], by simp only [h3], h4, h5⟩
  | streamSuccess s =>
    simp only [handleEvent, evNodes, List.append_nil]
    exact ⟨h1, h2, h3, by simp only [h4], h5⟩
  | streamFailure s =>
    simp only [handleEvent, evNodes, List.append_nil]
    exact ⟨h1, h2, h3, by simp only [h4], h5⟩
  | termination =>
    simp only [handleEvent, evNodes, List.append_nil]
    exact ⟨h1, h2, h3, h4, rfl⟩

/-- Two payloads built from the same (node, id) pairs. -/
structure PlRel (π π' : PubStatic) (N : List (Node × Nat)) (pl pl' : Payload) : Prop where
  pend : pl.pending = N.map (mkEntry π)
  pend' : pl'.pending = N.map (mkEntry π')
  comp : pl.completed = pl'.completed

theorem handleBatch_rel (π π' : PubStatic) (hg : π.gpath = π'.gpath) (p : Pub) (evs : List WQEvent) :
    (handleBatch π p evs).1 = (handleBatch π' p evs).1 ∧
    ∃ N, PlRel π π' N (handleBatch π p evs).2 (handleBatch π' p evs).2 := by
  unfold handleBatch
  simp only
  have key : ∀ (evs : List WQEvent) (p : Pub) (c c' : PCtx) (N : List (Node × Nat)), CtxRel π π' N c c' →
      (evs.foldl (fun (acc : Pub × PCtx) e => handleEvent π acc.1 acc.2 e) (p, c)).1 =
        (evs.foldl (fun (acc : Pub × PCtx) e => handleEvent π' acc.1 acc.2 e) (p, c')).1 ∧
      ∃ N', CtxRel π π' N'
        (evs.foldl (fun (acc : Pub × PCtx) e => handleEvent π acc.1 acc.2 e) (p, c)).2
        (evs.foldl (fun (acc : Pub × PCtx) e => handleEvent π' acc.1 acc.2 e) (p, c')).2 := by
    intro evs
    induction evs with
    | nil => intro p c c' N h; exact ⟨rfl, N, h⟩
    | cons e evs ih =>
      intro p c c' N h
      simp only [List.foldl_cons]
      have e1 := handleEvent_fst π π' p c c' e
      have r1 := handleEvent_rel π π' hg p c c' N e h
      have h2 := ih (handleEvent π p c e).1 (handleEvent π p c e).2 (handleEvent π' p c' e).2 _ r1
      have e2 : handleEvent π' p c' e = ((handleEvent π p c e).1, (handleEvent π' p c' e).2) := by rw [e1]
      rw [e2]
      exact h2
  obtain ⟨e1, N, r⟩ := key evs p {} {} [] ⟨rfl, rfl, rfl, rfl, rfl⟩
  exact ⟨e1, N, ⟨r.pend, r.pend', r.comp⟩⟩

/-- Two payload streams built from the same (node, id) pairs, payload by payload. -/
inductive PsRel (π π' : PubStatic) : List Payload → List Payload → Prop where
  | nil : PsRel π π' [] []
  | cons {pl pl' : Payload} {ps ps' : List Payload} (N : List (Node × Nat)) :
      PlRel π π' N pl pl' → PsRel π π' ps ps' → PsRel π π' (pl :: ps) (pl' :: ps')

theorem publish_rel (π π' : PubStatic) (hg : π.gpath = π'.gpath) (bs : List (List WQEvent)) (p : Pub) :
    PsRel π π' (publish π p bs).2 (publish π' p bs).2 := by
  induction bs generalizing p with
  | nil => exact PsRel.nil
  | cons b bs ih =>
    obtain ⟨e1, N, r⟩ := handleBatch_rel π π' hg p b
    simp only [publish]
    rw [← e1]
    exact PsRel.cons N r (ih _)

theorem payloads_rel (σ : Static) (π π' : PubStatic) (hg : π.gpath = π'.gpath) (fuel : Nat)
    (work : Option Work) (h : List Tick) :
    PsRel π π' (payloads σ π fuel work h) (payloads σ π' fuel work h) := by
  rw [(payloads_eq σ π fuel work h).1, (payloads_eq σ π' fuel work h).1]
  have e0 : (initialPayload π (init σ work).2.1 (init σ work).2.2).1 =
      (initialPayload π' (init σ work).2.1 (init σ work).2.2).1 := by
    simp only [initialPayload, toPending_nodes]
  refine PsRel.cons (toPendingNodes {} (nodesOf (init σ work).2.1 (init σ work).2.2)).2 ?_ ?_
  · exact ⟨by simp only [initialPayload, toPending_nodes], by simp only [initialPayload, toPending_nodes], rfl⟩
  · rw [← e0]
    exact publish_rel π π' hg _ _

/-! ### what the relation gives -/

theorem PsRel.length {π π' : PubStatic} {ps ps' : List Payload} (h : PsRel π π' ps ps') :
    ps'.length = ps.length := by
  induction h with
  | nil => rfl
  | cons N _ _ ih => simp [ih]

theorem PsRel.take {π π' : PubStatic} {ps ps' : List Payload} (h : PsRel π π' ps ps') (k : Nat) :
    PsRel π π' (ps.take k) (ps'.take k) := by
  induction h generalizing k with
  | nil => simpa using PsRel.nil
  | cons N r _ ih =>
    cases k with
    | zero => simpa using PsRel.nil
    | succ k => simpa using PsRel.cons N r (ih k)

theorem PsRel.completed {π π' : PubStatic} {ps ps' : List Payload} (h : PsRel π π' ps ps') :
    completedIds ps' = completedIds ps := by
  induction h with
  | nil => rfl
  | cons N r _ ih => simp only [completedIds, List.flatMap_cons] at ih ⊢; rw [ih, r.comp]

/-- Every `pending` entry of the one stream has a partner in the other, built from the same
(node, id) pair. -/
theorem PsRel.entry {π π' : PubStatic} {ps ps' : List Payload} (h : PsRel π π' ps ps')
    (a : Pending) (ha : a ∈ pendEntries ps) :
    ∃ x, a = mkEntry π x ∧ mkEntry π' x ∈ pendEntries ps' := by
  induction h with
  | nil => simp [pendEntries] at ha
  | cons N r _ ih =>
    simp only [pendEntries, List.flatMap_cons, List.mem_append] at ha ⊢
    rcases ha with ha | ha
    · rw [r.pend] at ha
      obtain ⟨x, hx, rfl⟩ := List.mem_map.mp ha
      exact ⟨x, rfl, Or.inl (by rw [r.pend']; exact List.mem_map_of_mem hx)⟩
    · obtain ⟨x, e, hx⟩ := ih ha
      exact ⟨x, e, Or.inr hx⟩

/-! ### P5 at the payload level with labelled streams -/

/-- Groups are labelled by their own number; the label of a stream (if it has one) does not
occur in the nesting relation — it is neither a nested group nor the parent of one.  (In a
validated document the labels of `@defer` and `@stream` are pairwise distinct; the direct harness
labels stream `s` with `100 + s`.) -/
structure LabelsS (σ : Static) (π : PubStatic) : Prop where
  g : ∀ g, π.glabel g = some g
  s : ∀ s l, π.slabel s = some l → σ.parent l = none ∧ ∀ x, σ.parent x ≠ some l

theorem Labels.toS {π : PubStatic} (L : Labels π) (σ : Static) : LabelsS σ π :=
  ⟨L.g, fun s l h => by rw [L.s] at h; cases h⟩

theorem Anc.has_child {σ : Static} {a x : Nat} (h : Anc σ a x) : ∃ z, σ.parent z = some a := by
  induction h with
  | parent hp => exact ⟨_, hp⟩
  | step _ _ ih => exact ih

/-- `payload_nesting` for labelled streams. -/
theorem payload_nesting_S (σ : Static) (π : PubStatic) (L : LabelsS σ π) (fuel : Nat) (work : Option Work)
    (h : List Tick) (hok : envOk σ fuel work h = true) (k : Nat)
    (hk : k < (payloads σ π fuel work h).length) :
    ∀ a ∈ pendEntries ((payloads σ π fuel work h).take (k + 1)),
    ∀ b ∈ pendEntries ((payloads σ π fuel work h).take (k + 1)),
    ∀ ga gb, a.label = some ga → b.label = some gb →
      a.id ∉ completedIds ((payloads σ π fuel work h).take (k + 1)) → ¬ Anc σ ga gb := by
  intro a ha b hb ga gb hla hlb hnc hanc
  have L' : Labels ({ π with slabel := fun _ => none } : PubStatic) := ⟨L.g, fun _ => rfl⟩
  have rel0 := payloads_rel σ π { π with slabel := fun _ => none } rfl fuel work h
  have rel := rel0.take (k + 1)
  obtain ⟨x, ea, hx⟩ := rel.entry a ha
  obtain ⟨y, eb, hy⟩ := rel.entry b hb
  -- `a` is a group entry labelled `ga`
  have hxa : (mkEntry { π with slabel := fun _ => none } x).label = some ga := by
    obtain ⟨n, i⟩ := x
    cases n with
    | group g => rw [ea] at hla; exact hla
    | stream s =>
      rw [ea] at hla
      obtain ⟨z, hz⟩ := hanc.has_child
      exact absurd hz ((L.s s ga hla).2 z)
  have hyb : (mkEntry { π with slabel := fun _ => none } y).label = some gb := by
    obtain ⟨n, i⟩ := y
    cases n with
    | group g => rw [eb] at hlb; exact hlb
    | stream s =>
      rw [eb] at hlb
      obtain ⟨p, hp, _⟩ := hanc.inv
      rw [(L.s s gb hlb).1] at hp; cases hp
  have hid : (mkEntry { π with slabel := fun _ => none } x).id = a.id := by rw [ea]; rfl
  have hk' : k < (payloads σ { π with slabel := fun _ => none } fuel work h).length := by
    rw [rel0.length]; exact hk
  have hnc' : (mkEntry { π with slabel := fun _ => none } x).id ∉
      completedIds ((payloads σ { π with slabel := fun _ => none } fuel work h).take (k + 1)) := by
    rw [hid, rel.completed]; exact hnc
  exact payload_nesting σ _ L' fuel work h hok k hk' _ hx _ hy ga gb hxa hyb hnc' hanc

end Gql.Async
