import Gql.Proofs.ExecDocParse2
import Gql.Proofs.ExecPrint

/-! C08, stage 2: the printer model (`printAst`) on the parser's tree of a stage-2 executable document
(`Exec.xdocAst`) is the typed printer `Exec.printXDoc`. -/

namespace Gql.Text
open Gql Gql.Syntax

theorem prDesc (w : Widths) (d : Desc) :
    pr w (Exec.descAst d) = .ok (match d with | none => .none | some _ => .text (Exec.descText w d)) := by
  match d with
  | none => simp [Exec.descAst, pr]
  | some (s, b) =>
    cases b <;> simp [Exec.descAst, Exec.descText, pr, prFields, leave, baseClass, reqRaw, optBool, fld]

theorem prTy (w : Widths) (t : Ty) : pr w t.toAst = .ok (.text t.print) := printAst_ty w t

theorem prDflt (w : Widths) (d : Option Val) :
    pr w (Exec.dfltAst d) = .ok (match d with | none => .none | some v => .text (Val.print w v)) := by
  cases d with
  | none => simp [Exec.dfltAst, pr]
  | some v => simpa [Exec.dfltAst] using prV w v

theorem prVarDef (w : Widths) (vd : VarDef) : pr w (Exec.varDefAst vd) = .ok (.text (Exec.printVarDef w vd)) := by
  obtain ⟨desc, name, ty, dflt, dirs⟩ := vd
  have h1 := prDesc w desc
  have h2 := prTy w ty
  have h3 := prDflt w dflt
  have h4 := pr_dirsAst w dirs
  simp only [Exec.varDefAst, pr, prFields, h1, h2, h3, h4, Out.bind_ok, Out.pure_eq]
  cases desc <;> cases dflt <;> by_cases hds : dirs = [] <;>
    simp [pr, prFields, leave, baseClass, reqText, reqRaw, optText, optTexts, fld, Val.nameNode, hds,
      Exec.printVarDef, Exec.printDirs, Exec.descText, Exec.dfltText, wrap, join, joinWith, S_colon]

theorem prVarDefs (w : Widths) (vds : List VarDef) :
    prList w (vds.map Exec.varDefAst) = .ok (vds.map (Exec.printVarDef w)) := by
  induction vds with
  | nil => simp [prList]
  | cons d r ih => simp [prList, prVarDef, ih]

theorem pr_optL_varDefs (w : Widths) (vds : List VarDef) :
    pr w (optL (vds.map Exec.varDefAst)) =
      .ok (if vds = [] then .none else .texts (vds.map (Exec.printVarDef w))) := by
  cases vds with
  | nil => simp [optL, pr]
  | cons d r =>
    have := prVarDefs w (d :: r)
    simp only [List.map_cons] at this
    simp [optL, pr, this]

theorem prXDef (w : Widths) (fa : Bool) (d : XDef) (h : Exec.xdefWf fa d) :
    pr w (Exec.xdefAst fa d) = .ok (.text (Exec.printXDef w d)) := by
  cases d with
  | op desc ot n vds ds ss =>
    have hD := pr_dirsAst w ds
    have hS := prSS w ss
    have hV := pr_optL_varDefs w vds
    have hQ := prDesc w desc
    simp only [Exec.xdefAst, pr, prFields, hD, hS, hV, hQ, Out.bind_ok, Out.pure_eq]
    cases desc <;> by_cases hn : n = [] <;> by_cases hd : ds = [] <;> by_cases hv : vds = [] <;>
      simp [pr, prFields, leave, baseClass, reqText, reqRaw, optText, optTexts, fld, Val.nameNode, optName, hn, hd, hv,
        Exec.printXDef, Exec.printDirs, Exec.varDefsOp, Exec.descText]
  | frag desc n vds tc ds ss =>
    have hD := pr_dirsAst w ds
    have hS := prSS w ss
    have hV := pr_optL_varDefs w vds
    have hQ := prDesc w desc
    have hfa : vds = [] ∨ fa = true := by
      simp only [Exec.xdefWf] at h
      exact h.2.2.2.1
    cases fa with
    | false =>
      have hv : vds = [] := by simpa using hfa
      subst hv
      simp only [Exec.xdefAst, pr, prFields, prList, hD, hS, hQ, Out.bind_ok, Out.pure_eq, namedType,
        Bool.false_eq_true, ↓reduceIte]
      cases desc <;> by_cases hd : ds = [] <;>
        simp [pr, prFields, prList, leave, baseClass, reqText, reqRaw, optText, optTexts, fld, Val.nameNode, hd,
          Exec.printXDef, Exec.printDirs, Exec.descText]
    | true =>
      simp only [Exec.xdefAst, pr, prFields, prList, hD, hS, hV, hQ, Out.bind_ok, Out.pure_eq, namedType,
        ↓reduceIte]
      cases desc <;> by_cases hd : ds = [] <;> by_cases hv : vds = [] <;>
        simp [pr, prFields, prList, leave, baseClass, reqText, reqRaw, optText, optTexts, fld, Val.nameNode, hd, hv,
          Exec.printXDef, Exec.printDirs, Exec.descText]

theorem prXDefs (w : Widths) (fa : Bool) (defs : List XDef) (h : Exec.xdefsWf fa defs) :
    prList w (defs.map (Exec.xdefAst fa)) = .ok (defs.map (Exec.printXDef w)) := by
  induction defs with
  | nil => simp [prList]
  | cons d r ih => simp [prList, prXDef w fa d h.1, ih h.2]

/-- The printer model on the parser's tree of a stage-2 executable document prints `Exec.printXDoc`. -/
theorem printAst_xdoc (w : Widths) (fa : Bool) (defs : List XDef) (h : Exec.xdefsWf fa defs) :
    printAst w (Exec.xdocAst fa defs) = .ok (Exec.printXDoc w defs) := by
  have := prXDefs w fa defs h
  simp [printAst, Exec.xdocAst, pr, prFields, leave, baseClass, optTexts, fld, this, Exec.printXDoc]

end Gql.Text
