import Gql.Proofs.RulesFuel
/-!
C12 — the remaining two fuelled loops of the context getters / rules never exhaust their fuel:
`get_recursively_referenced_fragments` (`refsLoop`, fuel = #fragment definitions + 1) and
`NoFragmentCyclesRule.detect_cycle_recursive` (`detectCycle`, fuel = #fragment definitions + 2).

Both arguments use the same measure: a list `L` that contains every name of a *defined* fragment that has not been
collected yet (`Cover`).  Each push on the worklist / each recursive call goes with a newly collected name of a
defined fragment, which can be struck from `L`.
-/
namespace Gql.Validation.Rules

/-- `L` lists every name `n` with `get_fragment(n)` not `None` that is not yet in `seen`. -/
def Cover (doc : ATree) (L : List String) (seen : List String) : Prop :=
  ∀ n, (getFragment doc n).isSome = true → n ∉ seen → n ∈ L

theorem Cover.mono {doc : ATree} {L seen seen' : List String} (h : Cover doc L seen)
    (hs : ∀ n, n ∈ seen → n ∈ seen') : Cover doc L seen' :=
  fun n hd hn => h n hd (fun hm => hn (hs n hm))

theorem Cover.remove {doc : ATree} {L seen : List String} (m : String) (h : Cover doc L seen) :
    Cover doc (L.filter (fun x => x != m)) (seen ++ [m]) := by
  intro n hd hn
  have h1 : n ∉ seen := fun hm => hn (List.mem_append.mpr (Or.inl hm))
  have h2 : n ≠ m := fun he => hn (List.mem_append.mpr (Or.inr (by simp [he])))
  exact List.mem_filter.mpr ⟨h n hd h1, by simpa using h2⟩

theorem length_filter_ne_lt (m : String) : ∀ L : List String, m ∈ L →
    (L.filter (fun x => x != m)).length < L.length
  | [], h => by simp at h
  | x :: xs, h => by
    by_cases hx : x = m
    · subst hx
      have := List.length_filter_le (fun y => y != x) xs
      simp; omega
    · have hm : m ∈ xs := by
        rcases List.mem_cons.mp h with h' | h'
        · exact absurd h'.symm hx
        · exact h'
      have := length_filter_ne_lt m xs hm
      simp [hx]; omega

theorem getFragment_name {doc : ATree} {n : String} {f : ATree} (h : getFragment doc n = some f) :
    f.nameValue = some n := by
  unfold getFragment at h
  have := List.find?_some h
  simpa using this

/-- the names of the fragment definitions of the document (with repetitions) -/
def fragNames (doc : ATree) : List String := (fragDefs doc).filterMap (fun f => f.nameValue)

theorem getFragment_mem_names {doc : ATree} {n : String} (h : (getFragment doc n).isSome = true) :
    n ∈ fragNames doc := by
  obtain ⟨f, hf⟩ := Option.isSome_iff_exists.mp h
  have hm : f ∈ fragDefs doc := by
    have := List.mem_of_find?_eq_some (by unfold getFragment at hf; exact hf)
    exact List.mem_reverse.mp this
  exact List.mem_filterMap.mpr ⟨f, hm, getFragment_name hf⟩

theorem fragNames_length_le (doc : ATree) : (fragNames doc).length ≤ (fragDefs doc).length :=
  List.length_filterMap_le _ _

theorem cover_fragNames (doc : ATree) (seen : List String) : Cover doc (fragNames doc) seen :=
  fun _ hd _ => getFragment_mem_names hd

/-! ## `get_recursively_referenced_fragments` -/

theorem refsInner_cover (doc : ATree) : ∀ (sps : List ATree) (names : List String) (frs sets : List ATree)
    (L : List String), Cover doc L names →
    ∃ L', Cover doc L' (refsInner doc sps names frs sets).1 ∧
      (refsInner doc sps names frs sets).2.2.length + L'.length ≤ sets.length + L.length := by
  intro sps
  induction sps with
  | nil => intro names frs sets L h; exact ⟨L, by simpa [refsInner] using h, by simp [refsInner]⟩
  | cons sp rest ih =>
    intro names frs sets L h
    rw [refsInner]
    cases hn : sp.nameValue with
    | none => exact ih names frs sets L h
    | some n =>
      simp only []
      by_cases hc : names.contains n = true
      · rw [if_pos hc]; exact ih names frs sets L h
      · rw [if_neg hc]
        have hnot : n ∉ names := by simpa using hc
        have hsub : ∀ x, x ∈ names → x ∈ names ++ [n] := fun x hx => List.mem_append.mpr (Or.inl hx)
        cases hg : getFragment doc n with
        | none => exact ih (names ++ [n]) frs sets L (h.mono hsub)
        | some f =>
          simp only []
          cases hk : f.kid "selection_set" with
          | none => simp only []; exact ih (names ++ [n]) (frs ++ [f]) sets L (h.mono hsub)
          | some ss =>
            simp only []
            obtain ⟨L', h1, h2⟩ := ih (names ++ [n]) (frs ++ [f]) (sets ++ [ss]) _ (h.remove n)
            refine ⟨L', h1, ?_⟩
            have := length_filter_ne_lt n L (h n (by simp [hg]) hnot)
            simp at h2 ⊢; omega

/-- The `while nodes_to_visit:` loop never runs out of fuel when the fuel covers the worklist plus the defined
fragment names not collected yet. -/
theorem refsLoop_fuel (doc : ATree) : ∀ (fuel : Nat) (stack : List ATree) (names : List String) (frs : List ATree)
    (L : List String), Cover doc L names → stack.length + L.length ≤ fuel →
    (refsLoop doc fuel stack names frs).2 = false := by
  intro fuel
  induction fuel with
  | zero =>
    intro stack names frs L _ hl
    cases stack with
    | nil => rfl
    | cons s st => simp at hl
  | succ k ih =>
    intro stack names frs L hc hl
    cases stack with
    | nil => rfl
    | cons s st =>
      rw [refsLoop]
      obtain ⟨L', h1, h2⟩ := refsInner_cover doc (getSpreads s).1 names frs [] L hc
      have h3 := ih ((refsInner doc (getSpreads s).1 names frs []).2.2.reverse ++ st)
        (refsInner doc (getSpreads s).1 names frs []).1 (refsInner doc (getSpreads s).1 names frs []).2.1 L' h1
        (by simp at hl h2 ⊢; omega)
      simp [h3, spreads_fuel_enough]

/-- `context.get_recursively_referenced_fragments(operation)` terminates: the fuel flag is never set. -/
theorem recFrags_fuel_enough (doc op : ATree) : (getRecFrags doc op).2 = false := by
  unfold getRecFrags
  split
  · exact refsLoop_fuel doc _ _ _ _ (fragNames doc) (cover_fragNames doc []) (by
      have := fragNames_length_le doc; simp; omega)
  · rfl

/-! ## `detect_cycle_recursive` -/

/-- `fragment` is what `get_fragment` returns for its own name (true of every fragment the recursion reaches). -/
def NamedDefined (doc f : ATree) : Prop := ∀ fname, f.nameValue = some fname → (getFragment doc fname).isSome = true

theorem detectLoop_ok (doc : ATree) (recur : ATree → List String → List ATree → List (String × Nat) → CycleOut)
    (L : List String)
    (hrec : ∀ f v p ix, NamedDefined doc f → Cover doc L v →
      (recur f v p ix).ranOut = false ∧ ∀ n ∈ v, n ∈ (recur f v p ix).visited) :
    ∀ (sps : List ATree) (visited : List String) (path : List ATree) (index : List (String × Nat)),
      Cover doc L visited →
      (detectLoop doc recur sps visited path index).ranOut = false ∧
        ∀ n ∈ visited, n ∈ (detectLoop doc recur sps visited path index).visited := by
  intro sps
  induction sps with
  | nil => intro visited path index _; simp [detectLoop]
  | cons sp rest ih =>
    intro visited path index hc
    rw [detectLoop]
    cases hn : sp.nameValue with
    | none => simp
    | some sname =>
      simp only
      cases hl : lookupName sname index with
      | some ci =>
        simp only
        have := ih visited path index hc
        exact ⟨by simp [this.1], this.2⟩
      | none =>
        simp only
        cases hg : getFragment doc sname with
        | none =>
          simp only
          have := ih visited path index hc
          exact ⟨by simp [this.1], this.2⟩
        | some f =>
          simp only
          have hnd : NamedDefined doc f := by
            intro fname hf
            have := getFragment_name hg
            rw [this] at hf
            cases hf
            simp [hg]
          have h1 := hrec f visited (path ++ [sp]) index hnd hc
          have h2 := ih (recur f visited (path ++ [sp]) index).visited path index (hc.mono h1.2)
          exact ⟨by simp [h1.1, h2.1], fun n hn' => h2.2 n (h1.2 n hn')⟩

/-- `detect_cycle_recursive` does not exhaust its fuel: one unit per defined fragment name not visited yet, one for
the last call (which finds its fragment visited), one more if the fragment of the first call is not what
`get_fragment` returns for its name (a shadowed or nested definition). -/
theorem detectCycle_ok (doc : ATree) : ∀ (fuel : Nat) (fragment : ATree) (visited : List String) (path : List ATree)
    (index : List (String × Nat)) (L : List String), Cover doc L visited →
    ((NamedDefined doc fragment ∧ L.length + 1 ≤ fuel) ∨ L.length + 2 ≤ fuel) →
    (detectCycle doc fuel fragment visited path index).ranOut = false ∧
      ∀ n ∈ visited, n ∈ (detectCycle doc fuel fragment visited path index).visited := by
  intro fuel
  induction fuel with
  | zero => intro fragment visited path index L _ hf; omega
  | succ k ih =>
    intro fragment visited path index L hc hf
    rw [detectCycle]
    cases hn : fragment.nameValue with
    | none => simp
    | some fname =>
      simp only
      by_cases hv : visited.contains fname = true
      · rw [if_pos hv]; simp
      · rw [if_neg hv]
        have hnot : fname ∉ visited := by simpa using hv
        have hsub : ∀ x, x ∈ visited → x ∈ visited ++ [fname] := fun x hx => List.mem_append.mpr (Or.inl hx)
        cases hk : fragment.kid "selection_set" with
        | none => simpa using hsub
        | some ss =>
          simp only
          by_cases he : (getSpreads ss).1.isEmpty = true
          · rw [if_pos he]
            exact ⟨spreads_fuel_enough ss, hsub⟩
          · rw [if_neg he]
            -- a list covering the names not in `visited ++ [fname]`, short enough for the recursive calls
            have hL : ∃ L', Cover doc L' (visited ++ [fname]) ∧ L'.length + 1 ≤ k := by
              by_cases hd : (getFragment doc fname).isSome = true
              · refine ⟨_, hc.remove fname, ?_⟩
                have := length_filter_ne_lt fname L (hc fname hd hnot)
                rcases hf with ⟨_, h⟩ | h <;> omega
              · refine ⟨L, hc.mono hsub, ?_⟩
                rcases hf with ⟨h, _⟩ | h
                · exact absurd (h fname hn) hd
                · omega
            obtain ⟨L', hc', hk'⟩ := hL
            have := detectLoop_ok doc (detectCycle doc k) L'
              (fun f v p ix hnd hcv => ih f v p ix L' hcv (Or.inl ⟨hnd, hk'⟩))
              (getSpreads ss).1 (visited ++ [fname]) path ((fname, path.length) :: index) hc'
            exact ⟨by simp [this.1, spreads_fuel_enough], fun n hn' => this.2 n (hsub n hn')⟩

/-- A top-level `detect_cycle_recursive(fragment)` (any fragment node, any `visited_frags`) never exhausts the fuel
the rule gives it. -/
theorem detectCycle_fuel_enough (doc fragment : ATree) (visited : List String) (path : List ATree)
    (index : List (String × Nat)) :
    (detectCycle doc (cycleFuel doc) fragment visited path index).ranOut = false :=
  (detectCycle_ok doc (cycleFuel doc) fragment visited path index (fragNames doc) (cover_fragNames doc visited)
    (Or.inr (by have := fragNames_length_le doc; unfold cycleFuel; omega))).1

end Gql.Validation.Rules
