import Gql.Proofs.SchemaReach
import Gql.Proofs.SchemaAssemble
/-
Lemmas for C20, part 8: `InputObjectNonNullCircularRefsValidator` — a depth-first search with a
visited set shared between calls — reports an error exactly when some input object reaches itself
through unbreakable references.
-/
namespace Gql.Types
open Gql

/-- types on the validator's current path (`field_path_index_by_type_name`) -/
def nnKeys (st : NNState) : List Str := st.index.map (·.1)

/-- visited and no longer on the path: completely explored -/
def Black (st : NNState) (x : Str) : Prop := x ∈ st.visited ∧ x ∉ nnKeys st

def ClosedP (s : RawSchema) (P : Str → Prop) : Prop := ∀ a, P a → ∀ b, Edge s a b → P b
def AcyclicP (s : RawSchema) (P : Str → Prop) : Prop := ∀ a, P a → ¬ ReachPlus s a a

/-- a reported error names an input object that reaches itself -/
def CycleErr (s : RawSchema) (e : Err) : Prop :=
  e.kind = .nonNullCycle ∧ ReachPlus s e.subj e.subj ∧ s.isInputObject e.subj = true

theorem ClosedP.congr {s : RawSchema} {P Q : Str → Prop} (h : ∀ x, P x ↔ Q x) (hc : ClosedP s P) :
    ClosedP s Q := fun a ha b e => (h b).mp (hc a ((h a).mpr ha) b e)

theorem AcyclicP.congr {s : RawSchema} {P Q : Str → Prop} (h : ∀ x, P x ↔ Q x) (hc : AcyclicP s P) :
    AcyclicP s Q := fun a ha => hc a ((h a).mpr ha)

theorem closedP_reach {s : RawSchema} {P : Str → Prop} (hc : ClosedP s P) {a b : Str} (ha : P a)
    (h : ReachStar s a b) : P b := by
  induction h with
  | refl => exact ha
  | step e _ ih => exact ih (hc _ ha _ e)

/-- what one call (or one loop iteration, or a whole loop) of the validator does to the state -/
structure Step (s : RawSchema) (st r : NNState) (extra : Prop) : Prop where
  index_eq : r.index = st.index
  vis_mono : ∀ x ∈ st.visited, x ∈ r.visited
  oof : r.outOfFuel = false
  errs : ∃ new, r.errs = st.errs ++ new ∧ (∀ e ∈ new, CycleErr s e) ∧
    (new = [] → ClosedP s (Black st) → AcyclicP s (Black st) →
      ClosedP s (Black r) ∧ AcyclicP s (Black r) ∧ extra)

theorem Step.black_mono {s : RawSchema} {st r : NNState} {e : Prop} (h : Step s st r e) {x : Str}
    (hx : Black st x) : Black r x := by
  refine ⟨h.vis_mono x hx.1, ?_⟩
  unfold nnKeys; rw [h.index_eq]; exact hx.2

theorem Step.rfl' {s : RawSchema} {st : NNState} {e : Prop} (ho : st.outOfFuel = false) (he : e) :
    Step s st st e :=
  ⟨rfl, fun _ h => h, ho, [], by simp, by simp, fun _ hc ha => ⟨hc, ha, he⟩⟩

theorem edge_iff {s : RawSchema} {tn m : Str} {fields : List InputValue} {o : Bool}
    (hl : s.lookup tn = some (.input fields o)) :
    Edge s tn m ↔ ∃ f ∈ fields, nonNullInputTarget s f = some m := by
  unfold Edge
  rw [unbreakableRefs_eq s tn fields o hl, List.mem_filterMap]

theorem target_isInputObject {s : RawSchema} {f : InputValue} {m : Str}
    (h : nonNullInputTarget s f = some m) : s.isInputObject m = true := by
  unfold nonNullInputTarget at h
  split at h
  · split at h
    · rename_i hm; simp at h; subst h; exact hm
    · simp at h
  · simp at h

theorem filter_keys_ne (l : List (Str × Nat)) (tn : Str) (h : tn ∉ l.map (·.1)) :
    l.filter (fun e => !(e.1 == tn)) = l := by
  rw [List.filter_eq_self]
  intro e he
  have : e.1 ≠ tn := fun heq => h (heq ▸ List.mem_map.mpr ⟨e, he, rfl⟩)
  simpa using this

theorem nnCall_step (s : RawSchema) : ∀ (fuel : Nat) (tn : Str) (st : NNState),
    nnUnvisited s st < fuel → st.outOfFuel = false →
    (∀ x ∈ nnKeys st, x ∈ st.visited) → (∀ x ∈ nnKeys st, ReachStar s x tn) → tn ∉ nnKeys st →
    Step s st (nnCall s fuel tn st) (s.isInputObject tn = true → Black (nnCall s fuel tn st) tn)
  | 0, _, _, h, _, _, _, _ => by omega
  | fuel + 1, tn, st, hfuel, hoof, hkv, hreach, htn => by
    unfold nnCall
    by_cases hv : st.visited.contains tn = true
    · simp only [hv, ↓reduceIte]
      exact Step.rfl' hoof (fun _ => ⟨by simpa using hv, htn⟩)
    · simp only [hv, Bool.false_eq_true, ↓reduceIte]
      have hv' : tn ∉ st.visited := by simpa using hv
      split
      · rename_i fields oneOf hl
        suffices key : ∀ st1 : NNState, st1.visited = tn :: st.visited → st1.outOfFuel = false →
            (∃ p, st1.index = (tn, p) :: st.index) → st1.errs = st.errs →
            Step s st
              { (fields.foldl (nnField s (nnCall s fuel) tn) st1) with
                index := (fields.foldl (nnField s (nnCall s fuel) tn) st1).index.filter
                  (fun e => !(e.1 == tn)) }
              (s.isInputObject tn = true → Black
                { (fields.foldl (nnField s (nnCall s fuel) tn) st1) with
                  index := (fields.foldl (nnField s (nnCall s fuel) tn) st1).index.filter
                    (fun e => !(e.1 == tn)) } tn) from key _ rfl hoof ⟨_, rfl⟩ rfl
        intro st1 hvis1 hoof1 hidx1 herrs1
        obtain ⟨p1, hidx1⟩ := hidx1
        have hkeys1 : nnKeys st1 = tn :: nnKeys st := by unfold nnKeys; rw [hidx1]; rfl
        have hlt : nnUnvisited s st1 < nnUnvisited s st := by
          obtain ⟨t, ht, hn, _⟩ := lookup_mem hl
          unfold nnUnvisited
          apply countP_lt_of_mem _ _ _ tn
          · intro x hx
            simp only [hvis1, List.contains_eq_mem, List.mem_cons, Bool.not_eq_eq_eq_not, Bool.not_true,
              decide_eq_false_iff_not, not_or] at hx ⊢
            exact hx.2
          · exact List.mem_map.mpr ⟨t, ht, hn⟩
          · simpa using hv
          · simp [hvis1]
        have hblack1 : ∀ x, Black st x ↔ Black st1 x := by
          intro x
          unfold Black
          rw [hvis1, hkeys1]
          simp only [List.mem_cons, not_or]
          constructor
          · rintro ⟨h1, h2⟩; exact ⟨Or.inr h1, fun hx => hv' (hx ▸ h1), h2⟩
          · rintro ⟨h1 | h1, h2, h3⟩
            · exact absurd h1 h2
            · exact ⟨h1, h3⟩
        -- the loop over the fields
        have hfold : ∀ (fs : List InputValue) (acc : NNState), (∀ f ∈ fs, f ∈ fields) →
            nnUnvisited s acc < fuel → acc.outOfFuel = false → nnKeys acc = tn :: nnKeys st →
            (∀ x ∈ nnKeys acc, x ∈ acc.visited) →
            Step s acc (fs.foldl (nnField s (nnCall s fuel) tn) acc)
              (∀ m ∈ fs.filterMap (nonNullInputTarget s),
                Black (fs.foldl (nnField s (nnCall s fuel) tn) acc) m) := by
          intro fs
          induction fs with
          | nil => intro acc _ _ ho _ _; exact Step.rfl' ho (by simp)
          | cons f fs ih =>
            intro acc hmem hU ho hk hkv'
            simp only [List.foldl_cons]
            -- one iteration
            have hone : Step s acc (nnField s (nnCall s fuel) tn acc f)
                (∀ m, nonNullInputTarget s f = some m → Black (nnField s (nnCall s fuel) tn acc f) m) := by
              unfold nnField
              cases htar : nonNullInputTarget s f with
              | none => exact Step.rfl' ho (by simp)
              | some m =>
                have hedge : Edge s tn m := (edge_iff hl).mpr ⟨f, hmem f (by simp), htar⟩
                simp only
                cases hfind : List.find? (fun e => e.1 == m) acc.index with
                | some e =>
                  have hmk : m ∈ nnKeys acc := by
                    have h1 := List.find?_some hfind
                    have h2 := List.mem_of_find?_eq_some hfind
                    have : e.1 = m := by simpa using h1
                    exact List.mem_map.mpr ⟨e, h2, this⟩
                  have hmr : ReachStar s m tn := by
                    rw [hk] at hmk
                    rcases List.mem_cons.mp hmk with rfl | hmk
                    · exact .refl _
                    · exact hreach m hmk
                  refine ⟨rfl, fun _ h => h, ho, [⟨.nonNullCycle, m⟩], rfl, ?_, by simp⟩
                  intro e' he'
                  simp only [List.mem_singleton] at he'
                  subst he'
                  exact ⟨rfl, ReachPlus.of_star_edge hmr hedge, target_isInputObject htar⟩
                | none =>
                  have hmk : m ∉ nnKeys acc := by
                    intro hm
                    obtain ⟨e, he, hem⟩ := List.mem_map.mp hm
                    have := List.find?_eq_none.mp hfind e he
                    simp [hem] at this
                  have hcall := nnCall_step s fuel m { acc with path := acc.path ++ [dot tn f.name] }
                    hU ho hkv' (by
                      intro x hx
                      have hx' : x ∈ tn :: nnKeys st := hk ▸ hx
                      rcases List.mem_cons.mp hx' with rfl | hx'
                      · exact .step hedge (.refl _)
                      · exact (hreach x hx').tail hedge) hmk
                  refine ⟨hcall.index_eq, hcall.vis_mono, hcall.oof, ?_⟩
                  obtain ⟨new, h1, h2, h3⟩ := hcall.errs
                  refine ⟨new, h1, h2, fun hn hc ha => ?_⟩
                  obtain ⟨c1, c2, c3⟩ := h3 hn hc ha
                  refine ⟨c1, c2, ?_⟩
                  intro m' hm'
                  simp only [Option.some.injEq] at hm'
                  subst hm'
                  exact c3 (target_isInputObject htar)
            -- the remaining iterations
            have hrest := ih (nnField s (nnCall s fuel) tn acc f) (fun g hg => hmem g (by simp [hg]))
              (Nat.lt_of_le_of_lt (nnUnvisited_mono s hone.vis_mono) hU) hone.oof
              (by unfold nnKeys; rw [hone.index_eq]; exact hk)
              (by
                intro x hx
                have : x ∈ nnKeys acc := by unfold nnKeys at hx ⊢; rw [hone.index_eq] at hx; exact hx
                exact hone.vis_mono x (hkv' x this))
            refine ⟨hrest.index_eq.trans hone.index_eq, fun x hx => hrest.vis_mono x (hone.vis_mono x hx),
              hrest.oof, ?_⟩
            obtain ⟨n1, e1, c1, k1⟩ := hone.errs
            obtain ⟨n2, e2, c2, k2⟩ := hrest.errs
            refine ⟨n1 ++ n2, by rw [e2, e1, List.append_assoc], ?_, ?_⟩
            · intro e he
              rcases List.mem_append.mp he with h | h
              · exact c1 e h
              · exact c2 e h
            · intro hn hc ha
              obtain ⟨hn1, hn2⟩ := List.append_eq_nil_iff.mp hn
              obtain ⟨a1, a2, a3⟩ := k1 hn1 hc ha
              obtain ⟨b1, b2, b3⟩ := k2 hn2 a1 a2
              refine ⟨b1, b2, ?_⟩
              intro m hm
              simp only [List.filterMap_cons] at hm
              cases htar : nonNullInputTarget s f with
              | none => rw [htar] at hm; exact b3 m hm
              | some m0 =>
                rw [htar] at hm
                rcases List.mem_cons.mp hm with rfl | hm
                · exact hrest.black_mono (a3 _ htar)
                · exact b3 m hm
        have hU1 : nnUnvisited s st1 < fuel := by omega
        have hkv1 : ∀ x ∈ nnKeys st1, x ∈ st1.visited := by
          intro x hx
          rw [hkeys1] at hx
          rw [hvis1]
          rcases List.mem_cons.mp hx with rfl | hx
          · simp
          · exact List.mem_cons_of_mem _ (hkv x hx)
        have hf := hfold fields st1 (fun _ h => h) hU1 hoof1 hkeys1 hkv1
        generalize hA : fields.foldl (nnField s (nnCall s fuel) tn) st1 = a at hf ⊢
        -- popping `tn` restores the path index
        have hidx : a.index.filter (fun e => !(e.1 == tn)) = st.index := by
          rw [hf.index_eq, hidx1]
          simp only [List.filter_cons, beq_self_eq_true, Bool.not_true, Bool.false_eq_true, ↓reduceIte]
          exact filter_keys_ne st.index tn htn
        have hka : nnKeys a = tn :: nnKeys st := by unfold nnKeys; rw [hf.index_eq]; exact hkeys1
        have htna : tn ∈ a.visited := hf.vis_mono tn (by rw [hvis1]; simp)
        have hblackr : ∀ x, Black { a with index := a.index.filter (fun e => !(e.1 == tn)) } x ↔
            (Black a x ∨ x = tn) := by
          intro x
          unfold Black nnKeys
          simp only [hidx]
          have hka' : a.index.map (·.1) = tn :: st.index.map (·.1) := hka
          rw [hka']
          simp only [List.mem_cons, not_or]
          constructor
          · rintro ⟨h1, h2⟩
            by_cases hx : x = tn
            · exact Or.inr hx
            · exact Or.inl ⟨h1, hx, h2⟩
          · rintro (⟨h1, _, h3⟩ | rfl)
            · exact ⟨h1, h3⟩
            · exact ⟨htna, htn⟩
        refine ⟨hidx, ?_, hf.oof, ?_⟩
        · intro x hx
          exact hf.vis_mono x (by rw [hvis1]; exact List.mem_cons_of_mem _ hx)
        · obtain ⟨new, e1, c1, k1⟩ := hf.errs
          refine ⟨new, by rw [← herrs1]; exact e1, c1, fun hn hc ha => ?_⟩
          obtain ⟨d1, d2, d3⟩ := k1 hn (hc.congr hblack1) (ha.congr hblack1)
          have htn_not_black : ¬ Black a tn := by
            intro hb
            apply hb.2
            rw [hka]; simp
          refine ⟨?_, ?_, fun _ => (hblackr tn).mpr (Or.inr rfl)⟩
          · intro x hx b e
            rcases (hblackr x).mp hx with hx | rfl
            · exact (hblackr b).mpr (Or.inl (d1 x hx b e))
            · obtain ⟨f, hf', htar⟩ := (edge_iff hl).mp e
              exact (hblackr b).mpr (Or.inl (d3 b (List.mem_filterMap.mpr ⟨f, hf', htar⟩)))
          · intro x hx hcyc
            rcases (hblackr x).mp hx with hx | rfl
            · exact d2 x hx hcyc
            · obtain ⟨b, e, hr⟩ := hcyc
              obtain ⟨f, hf', htar⟩ := (edge_iff hl).mp e
              have hb : Black a b := d3 b (List.mem_filterMap.mpr ⟨f, hf', htar⟩)
              exact htn_not_black (closedP_reach d1 hb hr)
      · exact Step.rfl' hoof (by
          intro hi
          obtain ⟨fields, o, hl⟩ := isInputObject_lookup hi
          rename_i hne
          exact absurd hl (hne fields o))


/-! ### the validator over the whole type map -/

theorem black_top (vis : List Str) (x : Str) : Black ⟨vis, [], [], [], false⟩ x ↔ x ∈ vis := by
  simp [Black, nnKeys]

theorem nnThread_spec (s : RawSchema) : ∀ (ts : List NamedType) (vis : List Str),
    (∀ e ∈ nnThread s ts vis, CycleErr s e) ∧
    (nnThread s ts vis = [] → ClosedP s (· ∈ vis) → AcyclicP s (· ∈ vis) →
      ∀ t ∈ ts, ∀ fs o, t.defn = .input fs o → ¬ ReachPlus s t.name t.name)
  | [], vis => by simp [nnThread]
  | t :: ts, vis => by
    rcases t with ⟨name, defn⟩
    have hnot : ∀ d, (∀ fs o, d ≠ TypeDef.input fs o) →
        nnThread s (⟨name, d⟩ :: ts) vis = nnThread s ts vis := by
      intro d hd
      cases d <;> first | rfl | exact absurd rfl (hd _ _)
    cases defn with
    | input fs0 o0 =>
      have hstep := nnCall_step s (nnFuel s) name ⟨vis, [], [], [], false⟩
        (by unfold nnFuel; have := nnUnvisited_le s ⟨vis, [], [], [], false⟩; omega) rfl
        (by simp [nnKeys]) (by simp [nnKeys]) (by simp [nnKeys])
      generalize hr : nnCall s (nnFuel s) name ⟨vis, [], [], [], false⟩ = r at hstep
      have ih := nnThread_spec s ts r.visited
      have hunf : nnThread s (⟨name, .input fs0 o0⟩ :: ts) vis = r.errs ++ nnThread s ts r.visited := by
        simp only [nnThread, hr]
      rw [hunf]
      obtain ⟨new, e1, c1, k1⟩ := hstep.errs
      have e1' : r.errs = new := by simpa using e1
      have hidx : r.index = [] := hstep.index_eq
      have hblack : ∀ x, Black r x ↔ x ∈ r.visited := by
        intro x; simp [Black, nnKeys, hidx]
      constructor
      · intro e he
        rcases List.mem_append.mp he with h | h
        · exact c1 e (e1' ▸ h)
        · exact ih.1 e h
      · intro hnil hc ha t ht fs o hdef
        obtain ⟨hn1, hn2⟩ := List.append_eq_nil_iff.mp hnil
        obtain ⟨d1, d2, d3⟩ := k1 (e1' ▸ hn1) (hc.congr (fun x => (black_top vis x).symm))
          (ha.congr (fun x => (black_top vis x).symm))
        rcases List.mem_cons.mp ht with rfl | ht
        · simp only at hdef ⊢
          by_cases hi : s.isInputObject name = true
          · exact d2 name (d3 hi)
          · intro ⟨b, e, _⟩
            obtain ⟨fields, o', hl⟩ := edge_source e
            exact hi (by simp [RawSchema.isInputObject, hl])
        · exact ih.2 hn2 (d1.congr hblack) (d2.congr hblack) t ht fs o hdef
    | scalar k =>
      rw [hnot _ (by intro _ _ h; cases h)]
      have ih := nnThread_spec s ts vis
      refine ⟨ih.1, fun hnil hc ha t ht fs o hdef => ?_⟩
      rcases List.mem_cons.mp ht with rfl | ht
      · cases hdef
      · exact ih.2 hnil hc ha t ht fs o hdef
    | object is fs1 =>
      rw [hnot _ (by intro _ _ h; cases h)]
      have ih := nnThread_spec s ts vis
      refine ⟨ih.1, fun hnil hc ha t ht fs o hdef => ?_⟩
      rcases List.mem_cons.mp ht with rfl | ht
      · cases hdef
      · exact ih.2 hnil hc ha t ht fs o hdef
    | interface is fs1 =>
      rw [hnot _ (by intro _ _ h; cases h)]
      have ih := nnThread_spec s ts vis
      refine ⟨ih.1, fun hnil hc ha t ht fs o hdef => ?_⟩
      rcases List.mem_cons.mp ht with rfl | ht
      · cases hdef
      · exact ih.2 hnil hc ha t ht fs o hdef
    | union ms =>
      rw [hnot _ (by intro _ _ h; cases h)]
      have ih := nnThread_spec s ts vis
      refine ⟨ih.1, fun hnil hc ha t ht fs o hdef => ?_⟩
      rcases List.mem_cons.mp ht with rfl | ht
      · cases hdef
      · exact ih.2 hnil hc ha t ht fs o hdef
    | enum vs =>
      rw [hnot _ (by intro _ _ h; cases h)]
      have ih := nnThread_spec s ts vis
      refine ⟨ih.1, fun hnil hc ha t ht fs o hdef => ?_⟩
      rcases List.mem_cons.mp ht with rfl | ht
      · cases hdef
      · exact ih.2 hnil hc ha t ht fs o hdef

/-- The unbreakable-cycle family: the non-null circular-reference validator, run over the type map
with its shared visited set, reports nothing exactly when no input object type of the schema
reaches itself through Non-Null (non-list) input-object fields. -/
theorem nnThread_iff (s : RawSchema) :
    nnThread s s.types [] = [] ↔
      ∀ t ∈ s.types, ∀ fs o, t.defn = .input fs o → Spec.noUnbreakableCycle s t.name = true := by
  have hspec := nnThread_spec s s.types []
  constructor
  · intro hnil t ht fs o hdef
    rw [noUnbreakableCycle_iff]
    exact hspec.2 hnil (fun a ha => by simp at ha) (fun a ha => by simp at ha) t ht fs o hdef
  · intro hall
    cases hE : nnThread s s.types [] with
    | nil => rfl
    | cons e es =>
      exfalso
      obtain ⟨_, hcyc, hi⟩ := hspec.1 e (by rw [hE]; simp)
      obtain ⟨fields, o, hl⟩ := isInputObject_lookup hi
      obtain ⟨t, ht, hn, hd⟩ := lookup_mem hl
      have := hall t ht fields o hd
      rw [hn, noUnbreakableCycle_iff] at this
      exact this hcyc

end Gql.Types
