/-
C02 — CollectFields refinement: fuel level, root collection and sub-selection collection.
-/
import Gql.Proofs.ExecCollect2

namespace Gql.Exec.Refine
open Gql.Exec Gql.Exec.Impl

theorem appendGroup_of_not_mem (b : SG) (k : Name) (fs : List FieldNode) (h : k ∉ keys b) :
    Spec.appendGroup b k fs = b ++ [(k, fs)] := by
  induction b with
  | nil => rfl
  | cons hd t ih =>
    obtain ⟨k', g⟩ := hd
    have hne : ¬ (k' == k) = true := by
      intro he
      have : k' = k := by simpa using he
      subst this
      exact h (by simp [keys])
    have ht : k ∉ keys t := fun hm => h (by simp [keys] at hm ⊢; exact Or.inr hm)
    simp [Spec.appendGroup, hne, ih ht]

theorem mergeGroups_disjoint (b a : SG) (hnd : (keys a).Nodup)
    (hdis : ∀ k ∈ keys a, k ∉ keys b) : Spec.mergeGroups b a = b ++ a := by
  induction a generalizing b with
  | nil => simp [Spec.mergeGroups]
  | cons hd t ih =>
    obtain ⟨k, fs⟩ := hd
    have hk : k ∉ keys b := hdis k (by simp [keys])
    have hnd' : (keys t).Nodup := by
      simp only [keys, List.map_cons, List.nodup_cons] at hnd; exact hnd.2
    have hkt : k ∉ keys t := by
      simp only [keys, List.map_cons, List.nodup_cons] at hnd; exact hnd.1
    rw [mergeGroups_cons, appendGroup_of_not_mem b k fs hk, ih (b ++ [(k, fs)]) hnd']
    · simp
    · intro k' hk' hmem
      simp only [keys, List.map_append, List.map_cons, List.map_nil, List.mem_append,
        List.mem_singleton] at hmem
      rcases hmem with hmem | hmem
      · exact hdis k' (by simp only [keys, List.map_cons, List.mem_cons]; exact Or.inr hk') hmem
      · subst hmem; exact hkt hk'

theorem mergeGroups_nil_left (a : SG) (hnd : (keys a).Nodup) : Spec.mergeGroups [] a = a := by
  rw [mergeGroups_disjoint [] a hnd (by simp [keys])]
  rfl

variable (cx : Impl.Ctx) (hops : OpsOk cx.ops) (rt : Name) (hrt : cx.schema.kind rt = .object)

include hops hrt in
theorem recRel_fuel : ∀ n, RecRel cx rt (collectFuel cx rt n) (Spec.collectFieldsFuel (toSpec cx) rt n)
  | 0 => by
    intro sels st vis _ _
    simp [collectFuel, Spec.collectFieldsFuel, CRel]
  | n + 1 => by
    intro sels st vis h3 h4
    unfold collectFuel Spec.collectFieldsFuel
    exact collectSels_rel cx hops rt hrt _ _ (recRel_fuel n) sels st [] vis (nodes st.groups)
      (by rw [mergeGroups_nil]) (by simp [keys]) h3 h4

/-- what the executors need to know about one collection -/
def CollectPost (heap : List FieldNode) (ir : Out Exn (Groups × List FieldNode))
    (sr : Out ErrKind SG) : Prop :=
  match sr with
  | .ok G =>
    ∃ g heap', ir = .ok (g, heap') ∧ nodes g = G ∧ (keys G).Nodup ∧
      (∃ ext, heap' = heap ++ ext) ∧ GroupsOk heap' g
  | .err k => ir = .err (.raw k)
  | .crash c => ir = .crash c

include hops hrt in
theorem collectRoot_rel (sels : List Selection) (heap : List FieldNode) :
    CollectPost heap (collectRoot cx rt sels heap) (Spec.collectFields (toSpec cx) rt sels) := by
  unfold collectRoot Spec.collectFields
  have h := recRel_fuel cx hops rt hrt (fuelOf cx.doc) sels
    { groups := [], visited := [], heap := heap } [] (by simp [VisRel]) (by intro p hp; cases hp)
  revert h
  simp only [show Spec.fuelOf (toSpec cx).doc = fuelOf cx.doc from rfl]
  cases hs : Spec.collectFieldsFuel (toSpec cx) rt (fuelOf cx.doc) sels [] with
  | crash c => simp only [CRel, CollectPost]; intro h; rw [h]
  | err e => simp only [CRel, CollectPost]; intro h; rw [h]
  | ok r =>
    obtain ⟨G, vis⟩ := r
    simp only [CRel, CollectPost]
    rintro ⟨st', e1, e2, e3, _, e5, e6⟩
    rw [e1]
    refine ⟨st'.groups, st'.heap, rfl, ?_, e3, e5, e6⟩
    rw [e2]
    exact mergeGroups_nil_left G e3

theorem collectLoop_append (scx : Spec.Ctx) (srecur) (a b : List Selection) (acc : SG) (vis : List Name) :
    Spec.collectLoop scx rt srecur (a ++ b) acc vis =
      match Spec.collectLoop scx rt srecur a acc vis with
      | .ok (acc', vis') => Spec.collectLoop scx rt srecur b acc' vis'
      | .err e => .err e
      | .crash c => .crash c := by
  induction a generalizing acc vis with
  | nil => simp [Spec.collectLoop]
  | cons hd t ih =>
    simp only [List.cons_append, Spec.collectLoop]
    cases hc : Spec.collectOne scx rt srecur hd acc vis with
    | crash c => rfl
    | err e => rfl
    | ok r => obtain ⟨a', v'⟩ := r; simp only; exact ih a' v'

include hops hrt in
theorem collectSubLoop_rel (fds : List FieldDetails) : ∀ (st : CState) (acc : SG) (vis : List Name),
    nodes st.groups = Spec.mergeGroups [] acc → (keys acc).Nodup → VisRel cx rt st.visited vis →
    GroupsOk st.heap st.groups →
    CRel cx rt [] st (collectSubLoop cx rt fds st)
      (Spec.collectLoop (toSpec cx) rt (Spec.collectFieldsFuel (toSpec cx) rt cx.doc.frags.length)
        (Spec.mergeSelectionSets (fds.map (·.node))) acc vis) := by
  induction fds with
  | nil =>
    intro st acc vis h1 h2 h3 h4
    simp only [collectSubLoop, List.map_nil, Spec.mergeSelectionSets, List.flatMap_nil, Spec.collectLoop]
    exact CRel.same h1 h2 h3 h4
  | cons fd rest ih =>
    intro st acc vis h1 h2 h3 h4
    simp only [collectSubLoop, List.map_cons, Spec.mergeSelectionSets, List.flatMap_cons]
    rw [collectLoop_append]
    have h := collectSels_rel cx hops rt hrt _ _ (recRel_fuel cx hops rt hrt cx.doc.frags.length)
      fd.node.sels st acc vis [] h1 h2 h3 h4
    have hfuel : collectFuel cx rt (fuelOf cx.doc) fd.node.sels st =
        collectSels cx rt (collectFuel cx rt cx.doc.frags.length) fd.node.sels st := rfl
    rw [hfuel]
    revert h
    cases hs : Spec.collectLoop (toSpec cx) rt (Spec.collectFieldsFuel (toSpec cx) rt cx.doc.frags.length)
        fd.node.sels acc vis with
    | crash c => simp only [CRel]; intro h; rw [h]
    | err e => simp only [CRel]; intro h; rw [h]
    | ok r =>
      obtain ⟨acc', vis'⟩ := r
      simp only [CRel]
      rintro ⟨st', e1, e2, e3, e4, ⟨ext, e5⟩, e6⟩
      rw [e1]
      have ih2 := ih st' acc' vis' e2 e3 e4 e6
      simp only [Spec.mergeSelectionSets] at ih2
      revert ih2
      cases hs2 : Spec.collectLoop (toSpec cx) rt (Spec.collectFieldsFuel (toSpec cx) rt cx.doc.frags.length)
          (List.flatMap (fun x => x.sels) (List.map (fun x => x.node) rest)) acc' vis' with
      | crash c => simp [CRel]
      | err e => simp [CRel]
      | ok r2 =>
        obtain ⟨acc2, vis2⟩ := r2
        simp only [CRel]
        rintro ⟨st2, f1, f2, f3, f4, ⟨ext2, f5⟩, f6⟩
        exact ⟨st2, f1, f2, f3, f4, ⟨ext ++ ext2, by rw [f5, e5, List.append_assoc]⟩, f6⟩

include hops hrt in
theorem collectSubfields_rel (fds : List FieldDetails) (heap : List FieldNode) :
    CollectPost heap (collectSubfields cx rt fds heap)
      (Spec.collectFields (toSpec cx) rt (Spec.mergeSelectionSets (fds.map (·.node)))) := by
  unfold collectSubfields Spec.collectFields
  have h := collectSubLoop_rel cx hops rt hrt fds { groups := [], visited := [], heap := heap } [] []
    rfl (by simp [keys]) (by simp [VisRel]) (by intro p hp; cases hp)
  have hfuel : Spec.collectFieldsFuel (toSpec cx) rt (Spec.fuelOf (toSpec cx).doc)
      (Spec.mergeSelectionSets (fds.map (·.node))) [] =
      Spec.collectLoop (toSpec cx) rt (Spec.collectFieldsFuel (toSpec cx) rt cx.doc.frags.length)
        (Spec.mergeSelectionSets (fds.map (·.node))) [] [] := rfl
  rw [hfuel]
  revert h
  cases hs : Spec.collectLoop (toSpec cx) rt (Spec.collectFieldsFuel (toSpec cx) rt cx.doc.frags.length)
      (Spec.mergeSelectionSets (fds.map (·.node))) [] [] with
  | crash c => simp only [CRel, CollectPost]; intro h; rw [h]
  | err e => simp only [CRel, CollectPost]; intro h; rw [h]
  | ok r =>
    obtain ⟨G, vis⟩ := r
    simp only [CRel, CollectPost]
    rintro ⟨st', e1, e2, e3, _, e5, e6⟩
    rw [e1]
    refine ⟨st'.groups, st'.heap, rfl, ?_, e3, e5, e6⟩
    rw [e2]
    exact mergeGroups_nil_left G e3

end Gql.Exec.Refine
