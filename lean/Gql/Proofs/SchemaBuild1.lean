import Gql.Types.SchemaAst
namespace Gql.Types
open Gql Gql.Generated

theorem lookupArg_single (n : Str) (v : Value) : lookupArg n [(n, v)] = some v := by
  simp [lookupArg]

theorem findDir_head (n : Str) (args : List (Str × Value)) (rest : List DirApp) :
    findDir n (⟨n, args⟩ :: rest) = some ⟨n, args⟩ := by
  simp [findDir, List.find?]

theorem deprecationOf_deprDirs (r : Option Str) : deprecationOf (deprDirs r) = .ok r := by
  cases r with
  | none => simp [deprDirs, deprecationOf, findDir]
  | some r =>
    by_cases h : r = SchemaConsts.defaultDeprecationReason
    · simp [deprDirs, h, deprecationOf, findDir_head, lookupArg]
    · simp [deprDirs, h, deprecationOf, findDir_head, lookupArg_single]

theorem specifiedByOf_dirs (u : Option Str) : specifiedByOf (specifiedByDirs u) = .ok u := by
  cases u with
  | none => simp [specifiedByDirs, specifiedByOf, findDir]
  | some u => simp [specifiedByDirs, specifiedByOf, findDir_head, lookupArg_single]

theorem isOneOf_dirs (o : Bool) :
    isOneOf (if o then [⟨SchemaConsts.oneOfName, []⟩] else []) = o := by
  cases o <;> simp [isOneOf, findDir]

theorem descValue_descNode (d : Option Str) : descValue (descNode d) = d := by
  cases d <;> simp [descValue, descNode]

theorem ivdToArg_argToIVD (a : Arg) : ivdToArg (argToIVD a) = .ok a := by
  simp [ivdToArg, argToIVD, deprecationOf_deprDirs, descValue_descNode]

theorem mapMOut_map_ok {α β : Type} (f : α → B β) (g : β → α) (xs : List β)
    (h : ∀ x ∈ xs, f (g x) = .ok x) : mapMOut f (xs.map g) = .ok xs := by
  induction xs with
  | nil => simp [mapMOut]
  | cons x xs ih =>
    have hx := h x (by simp)
    have hxs := ih (fun y hy => h y (by simp [hy]))
    simp [mapMOut, hx, hxs]

theorem nodupNames_cons (n : Str) (ns : List Str) :
    nodupNames (n :: ns) = (!ns.contains n && nodupNames ns) := by simp [nodupNames]

theorem upsert_not_mem {α : Type} (key : α → Str) (ys : List α) (x : α)
    (h : ∀ y ∈ ys, key y ≠ key x) : upsert key ys x = ys ++ [x] := by
  induction ys with
  | nil => simp [upsert]
  | cons y ys ih =>
    have hy := h y (by simp)
    simp [upsert, hy, ih (fun z hz => h z (by simp [hz]))]

theorem upsertAll_append {α : Type} (key : α → Str) (xs : List α) :
    ∀ ys : List α, nodupNames (xs.map key) = true → (∀ y ∈ ys, ∀ x ∈ xs, key y ≠ key x) →
      upsertAll key ys xs = ys ++ xs := by
  induction xs with
  | nil => intro ys _ _; simp [upsertAll]
  | cons x xs ih =>
    intro ys hnd hdis
    simp only [List.map_cons, nodupNames_cons, Bool.and_eq_true, Bool.not_eq_eq_eq_not, Bool.not_true] at hnd
    have h1 : upsert key ys x = ys ++ [x] := upsert_not_mem key ys x (fun y hy => hdis y hy x (by simp))
    have : upsertAll key ys (x :: xs) = upsertAll key (upsert key ys x) xs := by simp [upsertAll]
    rw [this, h1, ih (ys ++ [x]) hnd.2]
    · simp
    · intro y hy z hz
      simp only [List.mem_append, List.mem_singleton] at hy
      rcases hy with hy | hy
      · exact hdis y hy z (by simp [hz])
      · subst hy
        intro heq
        have hc : (xs.map key).contains (key y) = true := by
          rw [List.contains_iff_mem]
          exact List.mem_map.mpr ⟨z, hz, heq.symm⟩
        rw [hc] at hnd
        exact Bool.noConfusion hnd.1

theorem upsertAll_nil_nodup {α : Type} (key : α → Str) (xs : List α)
    (h : nodupNames (xs.map key) = true) : upsertAll key [] xs = xs := by
  have := upsertAll_append key xs [] h (by simp)
  simpa using this

theorem buildArgs_map (as : List Arg) (h : nodupNames (as.map Arg.name) = true) :
    buildArgs (as.map argToIVD) = .ok as := by
  simp [buildArgs, mapMOut_map_ok ivdToArg argToIVD as (fun a _ => ivdToArg_argToIVD a),
    upsertAll_nil_nodup Arg.name as h]

theorem fdToField_fieldToFD (f : Field) (h : nodupNames (f.args.map Arg.name) = true) :
    fdToField (fieldToFD f) = .ok f := by
  simp [fdToField, fieldToFD, buildArgs_map f.args h, deprecationOf_deprDirs, descValue_descNode]

theorem evdToEnumVal_enumValToEVD (v : EnumVal) : evdToEnumVal (enumValToEVD v) = .ok v := by
  simp [evdToEnumVal, enumValToEVD, deprecationOf_deprDirs, descValue_descNode]

end Gql.Types
