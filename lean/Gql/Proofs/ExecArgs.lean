/-
C02 — `get_argument_values` (with the memo of coerced defaults) computes CoerceArgumentValues.
-/
import Gql.Proofs.ExecSim2

namespace Gql.Exec.Refine
open Gql.Exec Gql.Exec.Impl

/-- the specification's verdict for one argument definition -/
def specHere (scx : Spec.Ctx) (args : List (Name × Value)) (a : ArgDef) : Option (Option PyVal) :=
  let argumentValue := lookupArg args a.name
  let hasValue : Bool :=
    match argumentValue with
    | none => false
    | some (.var x) => (scx.vars.lookup x).isSome
    | some _ => true
  if !hasValue && a.default.isSome then
    match a.default with
    | some d => (scx.ops.coerceLiteral scx.schema [] a.type d).map some
    | none => none
  else
    match argumentValue with
    | none => if a.type.nonNull then none else some none
    | some v =>
      if !hasValue then (if a.type.nonNull then none else some none)
      else (scx.ops.coerceLiteral scx.schema scx.vars a.type v).map some

theorem spec_coerce_cons (scx : Spec.Ctx) (args : List (Name × Value)) (a : ArgDef)
    (rest : List ArgDef) (acc : ArgMap) :
    Spec.coerceArgumentValues scx args (a :: rest) acc =
      match specHere scx args a with
      | some (some v) => Spec.coerceArgumentValues scx args rest (acc.set a.name v)
      | some none => Spec.coerceArgumentValues scx args rest acc
      | none => none := rfl

def argOut (acc : ArgMap) (name : Name) : Option (Option PyVal) → Out Exn ArgMap
  | some (some v) => .ok (acc.set name v)
  | some none => .ok acc
  | none => .err (.raw .argCoercion)

theorem DInv.push {cx : Ctx} {dm : DMemo} (h : DInv cx dm) (owner field : Name) (i : Nat)
    (fdef : FieldDef) (a : ArgDef) (lit : Value) (v : PyVal)
    (hf : cx.schema.getField owner field = some fdef) (ha : fdef.args[i]? = some a)
    (hd : a.default = some lit) (hv : cx.ops.coerceLiteral cx.schema [] a.type lit = some v) :
    DInv cx (dm ++ [((owner, field, i), v)]) := by
  intro e he fdef' a' lit' hf' ha' hd'
  rcases List.mem_append.1 he with he | he
  · exact h e he fdef' a' lit' hf' ha' hd'
  · simp only [List.mem_singleton] at he
    subst he
    simp only at hf' ha'
    rw [hf] at hf'
    cases hf'
    rw [ha] at ha'
    cases ha'
    rw [hd] at hd'
    cases hd'
    exact hv

theorem dmemoGet_mem {dm : DMemo} {k : DKey} {v : PyVal} (h : dmemoGet dm k = some v) :
    (k, v) ∈ dm := by
  unfold dmemoGet at h
  cases hf : dm.find? (fun e => e.1 == k) with
  | none => simp [hf] at h
  | some e =>
    simp only [hf, Option.map_some, Option.some.injEq] at h
    have hm := List.mem_of_find?_eq_some hf
    have hk := List.find?_some hf
    have : e.1 = k := by simpa using hk
    obtain ⟨k', v'⟩ := e
    simp only at this h
    subst this; subst h
    exact hm

/-- one argument: `useDefault` under the invariant -/
theorem useDefault_eq (cx : Ctx) (owner field : Name) (i : Nat) (fdef : FieldDef) (a : ArgDef)
    (hf : cx.schema.getField owner field = some fdef) (ha : fdef.args[i]? = some a)
    (acc : ArgMap) (st : EState) (hd : DInv cx st.dmemo) :
    ∃ dm', DInv cx dm' ∧
      useDefault cx (owner, field, i) a acc st =
        (argOut acc a.name (match a.default with
          | some d => (cx.ops.coerceLiteral cx.schema [] a.type d).map some
          | none => some none), { st with dmemo := dm' }) := by
  unfold useDefault
  cases hdef : a.default with
  | none => exact ⟨st.dmemo, hd, rfl⟩
  | some lit =>
    simp only
    cases hg : dmemoGet st.dmemo (owner, field, i) with
    | some v =>
      have := hd _ (dmemoGet_mem hg) fdef a lit hf ha hdef
      simp only at this
      exact ⟨st.dmemo, hd, by simp [this, argOut]⟩
    | none =>
      cases hc : cx.ops.coerceLiteral cx.schema [] a.type lit with
      | none => exact ⟨st.dmemo, hd, by simp [argOut]⟩
      | some v =>
        exact ⟨_, DInv.push hd owner field i fdef a lit v hf ha hdef hc, by simp [argOut]⟩

theorem coerceArgument_eq (cx : Ctx) (hops : OpsOk cx.ops) (owner field : Name) (i : Nat)
    (fdef : FieldDef) (a : ArgDef)
    (hf : cx.schema.getField owner field = some fdef) (ha : fdef.args[i]? = some a)
    (args : List (Name × Value)) (acc : ArgMap) (st : EState) (hd : DInv cx st.dmemo) :
    ∃ dm', DInv cx dm' ∧
      coerceArgument cx (owner, field, i) args a acc st =
        (argOut acc a.name (specHere (toSpec cx) args a), { st with dmemo := dm' }) := by
  obtain ⟨dm', hdm', hud⟩ := useDefault_eq cx owner field i fdef a hf ha acc st hd
  unfold coerceArgument specHere
  simp only [toSpec_vars, toSpec_ops, toSpec_schema]
  cases hl : lookupArg args a.name with
  | none =>
    simp only [Bool.not_false, Bool.true_and]
    cases hreq : a.required with
    | true =>
      have h1 : a.type.nonNull = true ∧ a.default.isNone = true := by
        simpa [ArgDef.required] using hreq
      have h2 : a.default = none := by simpa using h1.2
      exact ⟨st.dmemo, hd, by simp [M.throw, h2, h1.1, argOut]⟩
    | false =>
      refine ⟨dm', hdm', ?_⟩
      simp only [Bool.false_eq_true, ↓reduceIte, hud]
      cases hdef : a.default with
      | some d => simp
      | none =>
        have : a.type.nonNull = false := by simpa [ArgDef.required, hdef] using hreq
        simp [this]
  | some v =>
    cases v with
    | var x =>
      cases hx : cx.vars.lookup x with
      | none =>
        simp only [hx, Option.isNone_none, Option.isSome_none, Bool.not_false, Bool.true_and]
        cases hreq : a.required with
        | true =>
          have h1 : a.type.nonNull = true ∧ a.default.isNone = true := by
            simpa [ArgDef.required] using hreq
          have h2 : a.default = none := by simpa using h1.2
          have := hops.missing_var cx.schema cx.vars a.type x hx h1.1
          exact ⟨st.dmemo, hd, by simp [this, M.throw, h2, h1.1, argOut]⟩
        | false =>
          refine ⟨dm', hdm', ?_⟩
          simp only [Bool.not_false, Bool.and_self, ↓reduceIte, hud]
          cases hdef : a.default with
          | some d => simp
          | none =>
            have : a.type.nonNull = false := by simpa [ArgDef.required, hdef] using hreq
            simp [this]
      | some w =>
        refine ⟨st.dmemo, hd, ?_⟩
        simp only [hx, Option.isNone_some, Option.isSome_some, Bool.false_and, Bool.false_eq_true,
          ↓reduceIte, Bool.not_true]
        cases hc : cx.ops.coerceLiteral cx.schema cx.vars a.type (.var x) <;>
          simp [M.pure, M.throw, argOut]
    | _ =>
      refine ⟨st.dmemo, hd, ?_⟩
      simp only [Bool.false_and, Bool.false_eq_true, ↓reduceIte, Bool.not_true]
      cases hc : cx.ops.coerceLiteral cx.schema cx.vars a.type _ <;>
        simp [M.pure, M.throw, argOut, hc]

theorem getArgumentValues_eq (cx : Ctx) (hops : OpsOk cx.ops) (owner field : Name)
    (fdef : FieldDef) (hf : cx.schema.getField owner field = some fdef)
    (args : List (Name × Value)) :
    ∀ (rest : List ArgDef) (i : Nat) (acc : ArgMap) (st : EState),
      fdef.args.drop i = rest → DInv cx st.dmemo →
      ∃ dm', DInv cx dm' ∧
        getArgumentValues cx owner field args i rest acc st =
          ((match Spec.coerceArgumentValues (toSpec cx) args rest acc with
            | some m => .ok m
            | none => .err (.raw .argCoercion)), { st with dmemo := dm' }) := by
  intro rest
  induction rest with
  | nil =>
    intro i acc st _ hd
    exact ⟨st.dmemo, hd, rfl⟩
  | cons a rest ih =>
    intro i acc st hdrop hd
    have ha : fdef.args[i]? = some a := by
      have := congrArg List.head? hdrop
      simpa [List.head?_drop] using this
    have hdrop' : fdef.args.drop (i + 1) = rest := by
      have := congrArg List.tail hdrop
      simpa [List.tail_drop] using this
    obtain ⟨dm1, hdm1, h1⟩ := coerceArgument_eq cx hops owner field i fdef a hf ha args acc st hd
    rw [spec_coerce_cons]
    unfold getArgumentValues
    simp only [M.bind, h1]
    cases hh : specHere (toSpec cx) args a with
    | none => exact ⟨dm1, hdm1, by simp [argOut]⟩
    | some o =>
      cases o with
      | none =>
        simp only [argOut]
        obtain ⟨dm2, hdm2, h2⟩ := ih (i + 1) acc { st with dmemo := dm1 } hdrop' hdm1
        exact ⟨dm2, hdm2, h2⟩
      | some v =>
        simp only [argOut]
        obtain ⟨dm2, hdm2, h2⟩ := ih (i + 1) (acc.set a.name v) { st with dmemo := dm1 } hdrop' hdm1
        exact ⟨dm2, hdm2, h2⟩

end Gql.Exec.Refine
