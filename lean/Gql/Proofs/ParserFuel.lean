import Gql.Proofs.ParserTotal
/-
Fuel irrelevance: above the bound, the answer of the parser model does not depend on the fuel.

`Agree k p q`: `p` and `q` return the same outcome from every crash-free state smaller than `k`.
For every fuel-indexed function `f` of the model, `Agree (min n m) (f n) (f m)`; the proofs follow the
structure of the functions, exactly like the `Good` proofs (tactic `pagree`).
-/
namespace Gql.Syntax
open Gql Gql.Text

def Agree {α : Type} (k : Nat) (p q : P α) : Prop :=
  ∀ s : PS, s.rest.NoCrash → size s < k → p s = q s

theorem Agree.refl {α} {k : Nat} (p : P α) : Agree k p p := fun _ _ _ => rfl

theorem Agree.anti {α} {k j : Nat} {p q : P α} (h : Agree k p q) (hj : j ≤ k) : Agree j p q :=
  fun s hs hn => h s hs (Nat.lt_of_lt_of_le hn hj)

/-- sequencing: the first parts agree, the first part does not grow the input, and the
continuations agree (`j` = the bound under which they are compared after the first part) -/
theorem agree_bind {α β} {R : Nat → Nat → Prop} {k j : Nat} {p q : P α} {f g : α → P β}
    (hpq : Agree k p q)
    (hp : ∀ s : PS, s.rest.NoCrash → size s < k → PPost R s (p s))
    (hj : ∀ a b : Nat, R a b → b < k → a < j)
    (hfg : ∀ a, Agree j (f a) (g a)) : Agree k (p >>= f) (q >>= g) := by
  intro s hs hn
  rw [bind_apply, bind_apply, ← hpq s hs hn]
  have h := hp s hs hn
  cases hps : p s with
  | ok x =>
    obtain ⟨a, s'⟩ := x
    rw [hps] at h
    simp at h
    exact hfg a s' h.1 (hj _ _ h.2 hn)
  | err e => rfl
  | crash c => rfl

theorem Agree.bind {α β} {k : Nat} {p q : P α} {f g : α → P β} (hpq : Agree k p q) (hp : Good k p)
    (hfg : ∀ a, Agree k (f a) (g a)) : Agree k (p >>= f) (q >>= g) :=
  agree_bind hpq hp (fun _ _ h1 h2 => Nat.lt_of_le_of_lt h1 h2) hfg

/-- after a consuming first part the continuations are compared one unit of fuel lower -/
theorem Agree.step {α β} {k : Nat} {p q : P α} {f g : α → P β} (hpq : Agree (k + 1) p q)
    (hp : GoodC (k + 1) p) (hfg : ∀ a, Agree k (f a) (g a)) : Agree (k + 1) (p >>= f) (q >>= g) :=
  agree_bind hpq hp (fun _ _ h1 h2 => by omega) hfg

theorem Agree.ite {α} {k : Nat} {c : Prop} [Decidable c] {t t' e e' : P α} (ht : Agree k t t')
    (he : Agree k e e') : Agree k (if c then t else e) (if c then t' else e') := by
  split <;> assumption

/-! ### proof search -/

syntax "pagree_leaf" : tactic
syntax "pagree" : tactic

macro_rules | `(tactic| pagree_leaf) => `(tactic| (with_reducible assumption))
macro_rules | `(tactic| pagree_leaf) => `(tactic| (with_reducible exact Agree.refl _))

/-- side goal of `Agree.bind`: the left first part is good at the comparison bound `min n m` -/
macro "pgood_min" : tactic =>
  `(tactic| first
    | pgood
    | (refine Good.anti (n := _) ?_ (Nat.min_le_left _ _); pgood))

macro_rules
  | `(tactic| pagree) => `(tactic| first
      | pagree_leaf
      | ((with_reducible intro _); (try dsimp only); pagree)
      | ((with_reducible refine Agree.bind ?_ ?_ ?_) <;> first | pagree | pgood_min)
      | ((with_reducible apply Agree.ite) <;> pagree)
      | (split <;> pagree))

/-! ### loops -/

theorem untilClose_agree {k : Nat} (cfg : Cfg) (close : TokKind) {item item' : P Ast}
    (hi : Agree k item item') (hc : GoodC k item) :
    ∀ (m m' : Nat) (acc : List Ast), min m m' ≤ k →
      Agree (min m m') (untilClose cfg close item m acc) (untilClose cfg close item' m' acc) := by
  intro m
  induction m with
  | zero => intro m' acc _ s _ hn; simp at hn
  | succ m ih =>
    intro m' acc hm
    cases m' with
    | zero => intro s _ hn; simp at hn
    | succ m' =>
      rw [Nat.succ_min_succ] at hm ⊢
      unfold untilClose
      refine Agree.bind (Agree.refl _) (expectOptionalToken_good cfg close) (fun closed => ?_)
      refine Agree.ite (Agree.refl _) ?_
      exact Agree.step (hi.anti hm) (hc.anti hm) (fun x => ih m' _ (by omega))

theorem delimitedLoop_agree {k : Nat} (cfg : Cfg) (d : TokKind) {item item' : P Ast}
    (hi : Agree k item item') (hc : GoodC k item) :
    ∀ (m m' : Nat) (acc : List Ast), min m m' ≤ k →
      Agree (min m m') (delimitedLoop cfg d item m acc) (delimitedLoop cfg d item' m' acc) := by
  intro m
  induction m with
  | zero => intro m' acc _ s _ hn; simp at hn
  | succ m ih =>
    intro m' acc hm
    cases m' with
    | zero => intro s _ hn; simp at hn
    | succ m' =>
      rw [Nat.succ_min_succ] at hm ⊢
      unfold delimitedLoop
      refine Agree.step (hi.anti hm) (hc.anti hm) (fun x => ?_)
      refine Agree.bind (Agree.refl _) (expectOptionalToken_good cfg d) (fun more => ?_)
      exact Agree.ite (ih m' _ (by omega)) (Agree.refl _)

theorem parseAny_agree {n m : Nat} (cfg : Cfg) (o c : TokKind) (ho : o ≠ .eof) {item item' : P Ast}
    (hi : Agree (min n m) item item') (hc : GoodC n item) :
    Agree (min n m + 1) (parseAny cfg n o item c) (parseAny cfg m o item' c) := by
  unfold parseAny
  exact Agree.step (Agree.refl _) (expectToken_goodC cfg o ho)
    (fun _ => untilClose_agree cfg c hi (hc.anti (Nat.min_le_left _ _)) n m [] (Nat.le_refl _))

theorem parseMany_agree_step {n m : Nat} (cfg : Cfg) (o c : TokKind) (ho : o ≠ .eof) {item item' : P Ast}
    (hi : Agree (min n m) item item') (hc : GoodC n item) :
    Agree (min n m + 1) (parseMany cfg n o item c) (parseMany cfg m o item' c) := by
  unfold parseMany
  have hc' := hc.anti (Nat.min_le_left n m)
  exact Agree.step (Agree.refl _) (expectToken_goodC cfg o ho)
    (fun _ => Agree.bind hi hc'.toGood (fun x => untilClose_agree cfg c hi hc' n m [x] (Nat.le_refl _)))

theorem parseMany_agree {n m : Nat} (cfg : Cfg) (o c : TokKind) (ho : o ≠ .eof) {item item' : P Ast}
    (hi : Agree (min n m) item item') (hc : GoodC n item) :
    Agree (min n m) (parseMany cfg n o item c) (parseMany cfg m o item' c) :=
  (parseMany_agree_step cfg o c ho hi hc).anti (Nat.le_succ _)

theorem parseOptionalMany_agree {n m : Nat} (cfg : Cfg) (o c : TokKind) {item item' : P Ast}
    (hi : Agree (min n m) item item') (hc : GoodC n item) :
    Agree (min n m) (parseOptionalMany cfg n o item c) (parseOptionalMany cfg m o item' c) := by
  unfold parseOptionalMany
  have hc' := hc.anti (Nat.min_le_left n m)
  refine Agree.bind (Agree.refl _) (expectOptionalToken_good cfg o) (fun opened => ?_)
  refine Agree.ite ?_ (Agree.refl _)
  refine Agree.bind hi hc'.toGood (fun x => ?_)
  exact Agree.bind (untilClose_agree cfg c hi hc' n m [x] (Nat.le_refl _))
    ((untilClose_good cfg c hc n [x] (Nat.le_refl _)).anti (Nat.min_le_left _ _)) (fun _ => Agree.refl _)

theorem parseDelimitedMany_agree {n m : Nat} (cfg : Cfg) (d : TokKind) {item item' : P Ast}
    (hi : Agree (min n m) item item') (hc : GoodC n item) :
    Agree (min n m) (parseDelimitedMany cfg n d item) (parseDelimitedMany cfg m d item') := by
  unfold parseDelimitedMany
  exact Agree.bind (Agree.refl _) (expectOptionalToken_good cfg d)
    (fun _ => delimitedLoop_agree cfg d hi (hc.anti (Nat.min_le_left _ _)) n m [] (Nat.le_refl _))

/-- side goals of the loop lemmas: the item consumes, at the left fuel -/
macro "pgoodC_left" : tactic => `(tactic| first | pgood | assumption)

macro_rules | `(tactic| pagree_leaf) => `(tactic| ((with_reducible apply parseOptionalMany_agree) <;> first | pagree | pgoodC_left))
macro_rules | `(tactic| pagree_leaf) => `(tactic| ((with_reducible apply parseMany_agree _ _ _ (by decide)) <;> first | pagree | pgoodC_left))
macro_rules | `(tactic| pagree_leaf) => `(tactic| ((with_reducible apply parseDelimitedMany_agree) <;> first | pagree | pgoodC_left))

/-! ### values and types -/

theorem parseObjectField_agree {k : Nat} (cfg : Cfg) {v v' : P Ast} (hv : Agree k v v') (hg : Good k v) :
    Agree k (parseObjectField cfg v) (parseObjectField cfg v') := by
  unfold parseObjectField; pagree

theorem dispatchValue_agree {n m : Nat} (cfg : Cfg) (c : Bool) {v v' : P Ast}
    (hv : Agree (min n m) v v') (hc : GoodC n v) (mth : String) :
    Agree (min n m + 1) (dispatchValue cfg n c v mth) (dispatchValue cfg m c v' mth) := by
  unfold dispatchValue
  refine Agree.ite ?_ (Agree.ite ?_ (Agree.refl _))
  · exact Agree.bind (parseAny_agree cfg .bracketL .bracketR (by decide) hv hc)
      ((parseAny_goodC cfg .bracketL .bracketR (by decide) hc).toGood.anti (by omega)) (fun _ => Agree.refl _)
  · exact Agree.bind
      (parseAny_agree cfg .braceL .braceR (by decide)
        (parseObjectField_agree cfg hv (hc.toGood.anti (Nat.min_le_left _ _)))
        (parseObjectField_goodC cfg hc.toGood))
      ((parseAny_goodC cfg .braceL .braceR (by decide) (parseObjectField_goodC cfg hc.toGood)).toGood.anti (by omega))
      (fun _ => Agree.refl _)

theorem valueLit_agree (cfg : Cfg) (c : Bool) :
    ∀ n m : Nat, Agree (min n m) (valueLit n cfg c) (valueLit m cfg c) := by
  intro n
  induction n with
  | zero => intro m s _ hn; simp at hn
  | succ n ih =>
    intro m
    cases m with
    | zero => intro s _ hn; simp at hn
    | succ m =>
      rw [Nat.succ_min_succ]
      unfold valueLit
      refine Agree.bind (Agree.refl _) cur_good (fun t => ?_)
      cases valueMethodOf t.kind with
      | some mth => exact dispatchValue_agree cfg c (ih m) (valueLit_goodC cfg c n) mth
      | none => exact Agree.refl _
macro_rules | `(tactic| pagree_leaf) => `(tactic| (with_reducible exact valueLit_agree _ _ _ _))

theorem expectOptional_bind_eq {α} (cfg : Cfg) (k : TokKind) (f : Bool → P α) (s : PS) :
    (expectOptionalToken cfg k >>= f) s =
      if s.cur.kind = k then (advanceLexer cfg >>= fun _ => f true) s else f false s := by
  simp only [expectOptionalToken, bind_apply, P.cur]
  by_cases h : s.cur.kind = k
  · simp only [if_pos h, bind_apply, pure_apply]
    cases advanceLexer cfg s with
    | ok x => rfl
    | err e => rfl
    | crash c => rfl
  · simp only [if_neg h, pure_apply]

/-- `expect_optional_token(kind)` followed by continuations: on the `True` branch a token has been
consumed, so the continuations are compared one unit lower -/
theorem expectOptional_bind_agree {α} {k : Nat} (cfg : Cfg) (tk : TokKind) (htk : tk ≠ .eof)
    {f g : Bool → P α} (ht : Agree k (f true) (g true)) (hf : Agree (k + 1) (f false) (g false)) :
    Agree (k + 1) (expectOptionalToken cfg tk >>= f) (expectOptionalToken cfg tk >>= g) := by
  intro s hs hn
  rw [expectOptional_bind_eq, expectOptional_bind_eq]
  split
  · next h =>
    have hk : ¬ s.cur.kind = .eof := by rw [h]; exact htk
    have hp := advanceLexer_post cfg s hs
    rw [bind_apply, bind_apply]
    cases hr : advanceLexer cfg s with
    | ok x =>
      obtain ⟨a, s'⟩ := x
      rw [hr] at hp
      simp at hp
      exact ht s' hp.1 (by have := hp.2.2 hk; omega)
    | err e => rfl
    | crash c => rfl
  · exact hf s hs hn

theorem typeRef_agree (cfg : Cfg) : ∀ n m : Nat, Agree (min n m) (typeRef n cfg) (typeRef m cfg) := by
  intro n
  induction n with
  | zero => intro m s _ hn; simp at hn
  | succ n ih =>
    intro m
    cases m with
    | zero => intro s _ hn; simp at hn
    | succ m =>
      rw [Nat.succ_min_succ]
      unfold typeRef
      have ihm := ih m
      have hg := (typeRef_goodC cfg n).toGood.anti (Nat.min_le_left n m)
      apply expectOptional_bind_agree cfg .bracketL (by decide)
      · simp only [↓reduceIte]
        pagree
      · simp only [Bool.false_eq_true, ↓reduceIte]
        exact Agree.refl _
macro_rules | `(tactic| pagree_leaf) => `(tactic| (with_reducible exact typeRef_agree _ _ _))

/-! ### the fuel-indexed parse functions -/
theorem parseArgument_agree (cfg : Cfg) (n m : Nat) (cls : String) (c : Bool) :
    Agree (min n m) (parseArgument cfg n cls c) (parseArgument cfg m cls c) := by
  unfold parseArgument; pagree
macro_rules | `(tactic| pagree_leaf) => `(tactic| (with_reducible apply parseArgument_agree))
theorem parseArguments_agree (cfg : Cfg) (n m : Nat) (c : Bool) :
    Agree (min n m) (parseArguments cfg n c) (parseArguments cfg m c) := by
  unfold parseArguments; pagree
macro_rules | `(tactic| pagree_leaf) => `(tactic| (with_reducible apply parseArguments_agree))
theorem parseFragmentArguments_agree (cfg : Cfg) (n m : Nat) :
    Agree (min n m) (parseFragmentArguments cfg n) (parseFragmentArguments cfg m) := by
  unfold parseFragmentArguments; pagree
macro_rules | `(tactic| pagree_leaf) => `(tactic| (with_reducible apply parseFragmentArguments_agree))
theorem parseDirective_agree (cfg : Cfg) (n m : Nat) (c : Bool) :
    Agree (min n m) (parseDirective cfg n c) (parseDirective cfg m c) := by
  unfold parseDirective; pagree
macro_rules | `(tactic| pagree_leaf) => `(tactic| (with_reducible apply parseDirective_agree))
theorem directivesLoop_agree (cfg : Cfg) (n m : Nat) (c : Bool) :
    ∀ (j j' : Nat) (acc : List Ast), min j j' ≤ min n m →
      Agree (min j j') (directivesLoop cfg n c j acc) (directivesLoop cfg m c j' acc) := by
  intro j
  induction j with
  | zero => intro j' acc _ s _ hn; simp at hn
  | succ j ih =>
    intro j' acc hj
    cases j' with
    | zero => intro s _ hn; simp at hn
    | succ j' =>
      rw [Nat.succ_min_succ] at hj ⊢
      unfold directivesLoop
      refine Agree.bind (Agree.refl _) (peek_good .at) (fun at_ => ?_)
      refine Agree.ite ?_ (Agree.refl _)
      exact Agree.step ((parseDirective_agree cfg n m c).anti hj)
        ((parseDirective_goodC cfg c).anti (by have := Nat.min_le_left n m; omega)) (fun d => ih j' _ (by omega))

theorem parseDirectives_agree (cfg : Cfg) (n m : Nat) (c : Bool) :
    Agree (min n m) (parseDirectives cfg n c) (parseDirectives cfg m c) := by
  unfold parseDirectives
  exact Agree.bind (directivesLoop_agree cfg n m c n m [] (Nat.le_refl _))
    ((directivesLoop_good cfg c n [] (Nat.le_refl _)).anti (Nat.min_le_left _ _)) (fun _ => Agree.refl _)
macro_rules | `(tactic| pagree_leaf) => `(tactic| (with_reducible apply parseDirectives_agree))
theorem parseVariableDefinition_agree (cfg : Cfg) (n m : Nat) :
    Agree (min n m) (parseVariableDefinition cfg n) (parseVariableDefinition cfg m) := by
  unfold parseVariableDefinition; pagree
macro_rules | `(tactic| pagree_leaf) => `(tactic| (with_reducible apply parseVariableDefinition_agree))
theorem parseVariableDefinitions_agree (cfg : Cfg) (n m : Nat) :
    Agree (min n m) (parseVariableDefinitions cfg n) (parseVariableDefinitions cfg m) := by
  unfold parseVariableDefinitions; pagree
macro_rules | `(tactic| pagree_leaf) => `(tactic| (with_reducible apply parseVariableDefinitions_agree))
theorem parseField_agree (cfg : Cfg) (n m : Nat) {ss ss' : P Ast} (hss : Agree (min n m) ss ss')
    (hg : Good (min n m) ss) : Agree (min n m) (parseField cfg n ss) (parseField cfg m ss') := by
  unfold parseField; pagree

theorem parseFragment_agree (cfg : Cfg) (n m : Nat) {ss ss' : P Ast} (hss : Agree (min n m) ss ss')
    (hg : Good (min n m) ss) : Agree (min n m) (parseFragment cfg n ss) (parseFragment cfg m ss') := by
  unfold parseFragment; pagree

theorem parseSelection_agree (cfg : Cfg) (n m : Nat) {ss ss' : P Ast} (hss : Agree (min n m) ss ss')
    (hg : Good (min n m) ss) : Agree (min n m) (parseSelection cfg n ss) (parseSelection cfg m ss') := by
  unfold parseSelection
  have h1 := parseField_agree cfg n m hss hg
  have h2 := parseFragment_agree cfg n m hss hg
  pagree

theorem selectionSet_agree (cfg : Cfg) :
    ∀ n m : Nat, Agree (min n m) (selectionSet n cfg) (selectionSet m cfg) := by
  intro n
  induction n with
  | zero => intro m s _ hn; simp at hn
  | succ n ih =>
    intro m
    cases m with
    | zero => intro s _ hn; simp at hn
    | succ m =>
      rw [Nat.succ_min_succ]
      unfold selectionSet
      have hg := (selectionSet_goodC cfg n).toGood
      have hsel := parseSelection_goodC cfg hg
      exact Agree.bind
        (parseMany_agree_step cfg .braceL .braceR (by decide)
          (parseSelection_agree cfg n m (ih m) (hg.anti (Nat.min_le_left _ _))) hsel)
        ((parseMany_goodC cfg .braceL .braceR (by decide) hsel).toGood.anti (by have := Nat.min_le_left n m; omega))
        (fun _ => Agree.refl _)
macro_rules | `(tactic| pagree_leaf) => `(tactic| (with_reducible exact selectionSet_agree _ _ _))
theorem parseOperationDefinition_agree (cfg : Cfg) (n m : Nat) :
    Agree (min n m) (parseOperationDefinition cfg n) (parseOperationDefinition cfg m) := by
  unfold parseOperationDefinition; pagree
macro_rules | `(tactic| pagree_leaf) => `(tactic| (with_reducible apply parseOperationDefinition_agree))
theorem parseFragmentDefinition_agree (cfg : Cfg) (n m : Nat) :
    Agree (min n m) (parseFragmentDefinition cfg n) (parseFragmentDefinition cfg m) := by
  unfold parseFragmentDefinition; pagree
macro_rules | `(tactic| pagree_leaf) => `(tactic| (with_reducible apply parseFragmentDefinition_agree))
theorem parseSchemaDefinition_agree (cfg : Cfg) (n m : Nat) :
    Agree (min n m) (parseSchemaDefinition cfg n) (parseSchemaDefinition cfg m) := by
  unfold parseSchemaDefinition; pagree
macro_rules | `(tactic| pagree_leaf) => `(tactic| (with_reducible apply parseSchemaDefinition_agree))
theorem parseScalarTypeDefinition_agree (cfg : Cfg) (n m : Nat) :
    Agree (min n m) (parseScalarTypeDefinition cfg n) (parseScalarTypeDefinition cfg m) := by
  unfold parseScalarTypeDefinition; pagree
macro_rules | `(tactic| pagree_leaf) => `(tactic| (with_reducible apply parseScalarTypeDefinition_agree))
theorem parseImplementsInterfaces_agree (cfg : Cfg) (n m : Nat) :
    Agree (min n m) (parseImplementsInterfaces cfg n) (parseImplementsInterfaces cfg m) := by
  unfold parseImplementsInterfaces; pagree
macro_rules | `(tactic| pagree_leaf) => `(tactic| (with_reducible apply parseImplementsInterfaces_agree))
theorem parseInputValueDef_agree (cfg : Cfg) (n m : Nat) :
    Agree (min n m) (parseInputValueDef cfg n) (parseInputValueDef cfg m) := by
  unfold parseInputValueDef; pagree
macro_rules | `(tactic| pagree_leaf) => `(tactic| (with_reducible apply parseInputValueDef_agree))
theorem parseArgumentDefs_agree (cfg : Cfg) (n m : Nat) :
    Agree (min n m) (parseArgumentDefs cfg n) (parseArgumentDefs cfg m) := by
  unfold parseArgumentDefs; pagree
macro_rules | `(tactic| pagree_leaf) => `(tactic| (with_reducible apply parseArgumentDefs_agree))
theorem parseFieldDefinition_agree (cfg : Cfg) (n m : Nat) :
    Agree (min n m) (parseFieldDefinition cfg n) (parseFieldDefinition cfg m) := by
  unfold parseFieldDefinition; pagree
macro_rules | `(tactic| pagree_leaf) => `(tactic| (with_reducible apply parseFieldDefinition_agree))
theorem parseFieldsDefinition_agree (cfg : Cfg) (n m : Nat) :
    Agree (min n m) (parseFieldsDefinition cfg n) (parseFieldsDefinition cfg m) := by
  unfold parseFieldsDefinition; pagree
macro_rules | `(tactic| pagree_leaf) => `(tactic| (with_reducible apply parseFieldsDefinition_agree))
theorem parseObjectLikeDefinition_agree (cfg : Cfg) (n m : Nat) (kw cls : String) :
    Agree (min n m) (parseObjectLikeDefinition cfg n kw cls) (parseObjectLikeDefinition cfg m kw cls) := by
  unfold parseObjectLikeDefinition; pagree
macro_rules | `(tactic| pagree_leaf) => `(tactic| (with_reducible apply parseObjectLikeDefinition_agree))
theorem parseUnionMemberTypes_agree (cfg : Cfg) (n m : Nat) :
    Agree (min n m) (parseUnionMemberTypes cfg n) (parseUnionMemberTypes cfg m) := by
  unfold parseUnionMemberTypes; pagree
macro_rules | `(tactic| pagree_leaf) => `(tactic| (with_reducible apply parseUnionMemberTypes_agree))
theorem parseUnionTypeDefinition_agree (cfg : Cfg) (n m : Nat) :
    Agree (min n m) (parseUnionTypeDefinition cfg n) (parseUnionTypeDefinition cfg m) := by
  unfold parseUnionTypeDefinition; pagree
macro_rules | `(tactic| pagree_leaf) => `(tactic| (with_reducible apply parseUnionTypeDefinition_agree))
theorem parseEnumValueDefinition_agree (cfg : Cfg) (n m : Nat) :
    Agree (min n m) (parseEnumValueDefinition cfg n) (parseEnumValueDefinition cfg m) := by
  unfold parseEnumValueDefinition; pagree
macro_rules | `(tactic| pagree_leaf) => `(tactic| (with_reducible apply parseEnumValueDefinition_agree))
theorem parseEnumValuesDefinition_agree (cfg : Cfg) (n m : Nat) :
    Agree (min n m) (parseEnumValuesDefinition cfg n) (parseEnumValuesDefinition cfg m) := by
  unfold parseEnumValuesDefinition; pagree
macro_rules | `(tactic| pagree_leaf) => `(tactic| (with_reducible apply parseEnumValuesDefinition_agree))
theorem parseEnumTypeDefinition_agree (cfg : Cfg) (n m : Nat) :
    Agree (min n m) (parseEnumTypeDefinition cfg n) (parseEnumTypeDefinition cfg m) := by
  unfold parseEnumTypeDefinition; pagree
macro_rules | `(tactic| pagree_leaf) => `(tactic| (with_reducible apply parseEnumTypeDefinition_agree))
theorem parseInputFieldsDefinition_agree (cfg : Cfg) (n m : Nat) :
    Agree (min n m) (parseInputFieldsDefinition cfg n) (parseInputFieldsDefinition cfg m) := by
  unfold parseInputFieldsDefinition; pagree
macro_rules | `(tactic| pagree_leaf) => `(tactic| (with_reducible apply parseInputFieldsDefinition_agree))
theorem parseInputObjectTypeDefinition_agree (cfg : Cfg) (n m : Nat) :
    Agree (min n m) (parseInputObjectTypeDefinition cfg n) (parseInputObjectTypeDefinition cfg m) := by
  unfold parseInputObjectTypeDefinition; pagree
macro_rules | `(tactic| pagree_leaf) => `(tactic| (with_reducible apply parseInputObjectTypeDefinition_agree))
theorem parseDirectiveDefinition_agree (cfg : Cfg) (n m : Nat) :
    Agree (min n m) (parseDirectiveDefinition cfg n) (parseDirectiveDefinition cfg m) := by
  unfold parseDirectiveDefinition; pagree
macro_rules | `(tactic| pagree_leaf) => `(tactic| (with_reducible apply parseDirectiveDefinition_agree))
theorem parseSchemaExtension_agree (cfg : Cfg) (n m : Nat) :
    Agree (min n m) (parseSchemaExtension cfg n) (parseSchemaExtension cfg m) := by
  unfold parseSchemaExtension; pagree
macro_rules | `(tactic| pagree_leaf) => `(tactic| (with_reducible apply parseSchemaExtension_agree))
theorem parseScalarTypeExtension_agree (cfg : Cfg) (n m : Nat) :
    Agree (min n m) (parseScalarTypeExtension cfg n) (parseScalarTypeExtension cfg m) := by
  unfold parseScalarTypeExtension; pagree
macro_rules | `(tactic| pagree_leaf) => `(tactic| (with_reducible apply parseScalarTypeExtension_agree))
theorem parseObjectLikeExtension_agree (cfg : Cfg) (n m : Nat) (kw cls : String) :
    Agree (min n m) (parseObjectLikeExtension cfg n kw cls) (parseObjectLikeExtension cfg m kw cls) := by
  unfold parseObjectLikeExtension; pagree
macro_rules | `(tactic| pagree_leaf) => `(tactic| (with_reducible apply parseObjectLikeExtension_agree))
theorem parseUnionTypeExtension_agree (cfg : Cfg) (n m : Nat) :
    Agree (min n m) (parseUnionTypeExtension cfg n) (parseUnionTypeExtension cfg m) := by
  unfold parseUnionTypeExtension; pagree
macro_rules | `(tactic| pagree_leaf) => `(tactic| (with_reducible apply parseUnionTypeExtension_agree))
theorem parseEnumTypeExtension_agree (cfg : Cfg) (n m : Nat) :
    Agree (min n m) (parseEnumTypeExtension cfg n) (parseEnumTypeExtension cfg m) := by
  unfold parseEnumTypeExtension; pagree
macro_rules | `(tactic| pagree_leaf) => `(tactic| (with_reducible apply parseEnumTypeExtension_agree))
theorem parseInputObjectTypeExtension_agree (cfg : Cfg) (n m : Nat) :
    Agree (min n m) (parseInputObjectTypeExtension cfg n) (parseInputObjectTypeExtension cfg m) := by
  unfold parseInputObjectTypeExtension; pagree
macro_rules | `(tactic| pagree_leaf) => `(tactic| (with_reducible apply parseInputObjectTypeExtension_agree))
theorem parseDirectiveDefinitionExtension_agree (cfg : Cfg) (n m : Nat) :
    Agree (min n m) (parseDirectiveDefinitionExtension cfg n) (parseDirectiveDefinitionExtension cfg m) := by
  unfold parseDirectiveDefinitionExtension; pagree
macro_rules | `(tactic| pagree_leaf) => `(tactic| (with_reducible apply parseDirectiveDefinitionExtension_agree))
theorem dispatchExtension_agree (cfg : Cfg) (n m : Nat) (mth : String) :
    Agree (min n m) (dispatchExtension cfg n mth) (dispatchExtension cfg m mth) := by
  unfold dispatchExtension; pagree
macro_rules | `(tactic| pagree_leaf) => `(tactic| (with_reducible apply dispatchExtension_agree))
theorem parseTypeSystemExtension_agree (cfg : Cfg) (n m : Nat) :
    Agree (min n m) (parseTypeSystemExtension cfg n) (parseTypeSystemExtension cfg m) := by
  unfold parseTypeSystemExtension; pagree
macro_rules | `(tactic| pagree_leaf) => `(tactic| (with_reducible apply parseTypeSystemExtension_agree))
theorem dispatchDefinition_agree (cfg : Cfg) (n m : Nat) (mth : String) :
    Agree (min n m) (dispatchDefinition cfg n mth) (dispatchDefinition cfg m mth) := by
  unfold dispatchDefinition; pagree
macro_rules | `(tactic| pagree_leaf) => `(tactic| (with_reducible apply dispatchDefinition_agree))
theorem parseDefinition_agree (cfg : Cfg) (n m : Nat) :
    Agree (min n m) (parseDefinition cfg n) (parseDefinition cfg m) := by
  unfold parseDefinition; pagree
macro_rules | `(tactic| pagree_leaf) => `(tactic| (with_reducible apply parseDefinition_agree))
theorem parseDocument_agree (cfg : Cfg) (n m : Nat) :
    Agree (min n m) (parseDocument cfg n) (parseDocument cfg m) := by
  unfold parseDocument
  exact Agree.bind
    (parseMany_agree cfg .sof .eof (by decide) (parseDefinition_agree cfg n m) (parseDefinition_goodC cfg))
    ((parseMany_good cfg .sof .eof (by decide) (parseDefinition_goodC cfg)).anti (Nat.min_le_left _ _))
    (fun _ => Agree.refl _)

theorem runEntry_agree (e : Entry) (cfg : Cfg) (n m : Nat) :
    Agree (min n m) (runEntry e cfg n) (runEntry e cfg m) := by
  have h1 := parseDocument_agree cfg n m
  cases e <;> simp only [runEntry] <;> pagree

/-- **Fuel irrelevance.**  Above the bound `Stream.length + 2` the outcome of every entry point is the
same for every amount of fuel: the fuel is a device of the model (CPython's recursion limit), not
part of the answer. -/
theorem parseStreamWith_fuel_irrelevant (e : Entry) (cfg : Cfg) (strm : Stream) (f1 f2 : Nat)
    (hs : strm.NoCrash) (h1 : strm.length + 2 ≤ f1) (h2 : strm.length + 2 ≤ f2) :
    parseStreamWith e cfg strm f1 = parseStreamWith e cfg strm f2 := by
  have h := runEntry_agree e cfg f1 f2 (initState strm) hs (by rw [size_initState]; omega)
  unfold parseStreamWith
  rw [h]

end Gql.Syntax
