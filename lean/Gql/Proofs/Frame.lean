import Gql.Proofs.WorkQueue
/-!
Frame lemmas of the `WorkQueue` model: which functions leave the root sets, the pump log and
the `stopped` flag alone.
-/
namespace Gql.Async

/-- `q'` has the same root groups, root streams, pump log and `stopped` flag as `q`. -/
structure RootFrame (q q' : WQ) : Prop where
  rg : q'.rootGroups = q.rootGroups
  rs : q'.rootStreams = q.rootStreams
  st : q'.stopped = q.stopped
  pm : q'.pumps = q.pumps

theorem RootFrame.refl (q : WQ) : RootFrame q q := ⟨rfl, rfl, rfl, rfl⟩

theorem RootFrame.trans {a b c : WQ} (h1 : RootFrame a b) (h2 : RootFrame b c) : RootFrame a c :=
  ⟨h2.rg.trans h1.rg, h2.rs.trans h1.rs, h2.st.trans h1.st, h2.pm.trans h1.pm⟩

theorem push_frame (q : WQ) (e : GraphEvent) : RootFrame q (push q e) := by
  unfold push; split <;> exact ⟨rfl, rfl, rfl, rfl⟩

theorem startTask_frame (σ : Static) (q : WQ) (t : Nat) : RootFrame q (startTask σ q t) := by
  unfold startTask
  split
  · exact RootFrame.refl q
  · simp only
    split
    · exact RootFrame.trans (b := { q with taskNodes := aset q.taskNodes t {}, started := q.started ++ [t] })
        ⟨rfl, rfl, rfl, rfl⟩ (push_frame _ _)
    · exact RootFrame.trans (b := { q with taskNodes := aset q.taskNodes t {}, started := q.started ++ [t] })
        ⟨rfl, rfl, rfl, rfl⟩ (push_frame _ _)
    · exact ⟨rfl, rfl, rfl, rfl⟩
    · exact ⟨rfl, rfl, rfl, rfl⟩
    · exact ⟨rfl, rfl, rfl, rfl⟩

theorem foldl_frame {α : Type} (f : WQ → α → WQ) (l : List α) (q : WQ)
    (h : ∀ q a, RootFrame q (f q a)) : RootFrame q (l.foldl f q) := by
  induction l generalizing q with
  | nil => exact RootFrame.refl q
  | cons a l ih => exact (h q a).trans (ih _)

/-- The same for folds whose accumulator carries the queue in its first component. -/
theorem foldl_frame1 {α β : Type} (f : WQ × β → α → WQ × β) (l : List α) (acc : WQ × β)
    (h : ∀ acc a, RootFrame acc.1 (f acc a).1) : RootFrame acc.1 (l.foldl f acc).1 := by
  induction l generalizing acc with
  | nil => exact RootFrame.refl _
  | cons a l ih => exact (h acc a).trans (ih _)

theorem startGroup_frame (σ : Static) (q : WQ) (g : Nat) : RootFrame q (startGroup σ q g) := by
  unfold startGroup
  split
  · exact foldl_frame _ _ _ (startTask_frame σ)
  · exact RootFrame.refl q

theorem attachGroup_frame (σ : Static) (hpt : Bool) (g : Nat) (r : WQ × List Nat) :
    RootFrame r.1 (attachGroup σ hpt g r).1 := by
  unfold attachGroup
  simp only
  split
  · split <;> exact ⟨rfl, rfl, rfl, rfl⟩
  · split <;> exact ⟨rfl, rfl, rfl, rfl⟩

theorem addGroup_frame (σ : Static) (gs : List Nat) (hpt : Bool) (fuel g : Nat)
    (acc : WQ × List Nat × List Nat) : RootFrame acc.1 (addGroup σ gs hpt fuel g acc).1 := by
  induction fuel generalizing g acc with
  | zero => exact RootFrame.refl _
  | succ n ih =>
    unfold addGroup
    split
    · exact RootFrame.refl _
    · simp only
      refine RootFrame.trans ?_ (attachGroup_frame σ hpt g _)
      split
      · split
        · exact ih _ (acc.1, acc.2.1, g :: acc.2.2)
        · exact RootFrame.refl _
      · exact RootFrame.refl _

theorem addGroups_frame (σ : Static) (q : WQ) (gs : List Nat) (hpt : Bool) :
    RootFrame q (addGroups σ q gs hpt).1 := by
  unfold addGroups
  exact foldl_frame1 _ gs (q, [], []) (fun acc g => addGroup_frame σ gs hpt _ g acc)

theorem addTaskStep_frame (σ : Static) (t : Nat) (q : WQ) (g : Nat) :
    RootFrame q (addTaskStep σ t q g) := by
  unfold addTaskStep
  split
  · simp only
    split
    · exact RootFrame.trans (b := { q with groupNodes := aset q.groupNodes g _ })
        ⟨rfl, rfl, rfl, rfl⟩ (startTask_frame σ _ t)
    · exact ⟨rfl, rfl, rfl, rfl⟩
  · exact RootFrame.refl q

theorem addTask_frame (σ : Static) (q : WQ) (t : Nat) : RootFrame q (addTask σ q t) :=
  foldl_frame _ _ _ (addTaskStep_frame σ t)

theorem addStreams_frame (q : WQ) (ss : List Nat) (pt : Option Nat) :
    RootFrame q (addStreams q ss pt).1 := by
  unfold addStreams
  split
  · exact RootFrame.refl q
  · split <;> exact ⟨rfl, rfl, rfl, rfl⟩

theorem integrateWork_frame (σ : Static) (q : WQ) (w : Option Work) (pt : Option Nat) :
    RootFrame q (integrateWork σ q w pt).1 := by
  unfold integrateWork
  split
  · exact RootFrame.refl q
  · simp only
    have h1 : RootFrame q (if (‹Work›).groups.isEmpty then (q, ([] : List Nat))
        else addGroups σ q (‹Work›).groups pt.isSome).1 := by
      split
      · exact RootFrame.refl q
      · exact addGroups_frame σ q _ _
    have h2 := foldl_frame (addTask σ) (‹Work›).tasks _ (addTask_frame σ) |> h1.trans
    split
    · exact h2
    · exact h2.trans (addStreams_frame _ _ _)

theorem prune_frame (fuel : Nat) (gs : List Nat) (st : WQ × List Nat) :
    RootFrame st.1 (prune fuel gs st).1 := by
  induction fuel generalizing gs st with
  | zero => exact RootFrame.refl _
  | succ n ih =>
    unfold prune
    refine foldl_frame1 _ gs st ?_
    intro st g
    split
    · exact RootFrame.refl _
    · split
      · exact RootFrame.refl _
      · exact RootFrame.trans (b := { st.1 with groupNodes := aerase st.1.groupNodes g })
          ⟨rfl, rfl, rfl, rfl⟩ (ih _ (_, st.2))

theorem pruneEmpty_frame (q : WQ) (gs : List Nat) : RootFrame q (pruneEmpty q gs).1 :=
  prune_frame _ gs (q, [])

theorem removeTask_frame (σ : Static) (q : WQ) (t : Nat) : RootFrame q (removeTask σ q t) := by
  unfold removeTask; exact ⟨rfl, rfl, rfl, rfl⟩

theorem dropOrphanTask_frame (σ : Static) (q : WQ) (t : Nat) : RootFrame q (dropOrphanTask σ q t) := by
  unfold dropOrphanTask
  split
  · exact removeTask_frame σ q t
  · exact RootFrame.refl q

theorem removeGroup_frame (σ : Static) (fuel : Nat) (q : WQ) (g : Nat) (n : GroupNode) :
    RootFrame q (removeGroup σ fuel q g n) := by
  induction fuel generalizing q g n with
  | zero => exact RootFrame.refl q
  | succ k ih =>
    unfold removeGroup
    simp only
    refine RootFrame.trans (b := { q with groupNodes := aerase q.groupNodes g }) ⟨rfl, rfl, rfl, rfl⟩ ?_
    refine (foldl_frame _ n.tasks _ (dropOrphanTask_frame σ)).trans ?_
    refine foldl_frame _ n.children _ ?_
    intro q c
    split
    · exact ih _ _ _
    · exact RootFrame.refl q

theorem collectTask_frame (σ : Static) (acc : WQ × List GVal × List Nat) (t : Nat) :
    RootFrame acc.1 (collectTask σ acc t).1 := by
  unfold collectTask
  split
  · exact removeTask_frame σ _ t
  · exact RootFrame.refl _

theorem setTaskValue_frame (q : WQ) (t : Nat) (v : GVal) : RootFrame q (setTaskValue q t v) := by
  unfold setTaskValue; split <;> exact ⟨rfl, rfl, rfl, rfl⟩

/-! ### how the roots *do* change -/

theorem startNewWork_roots (σ : Static) (q : WQ) (ngs nss : List Nat) :
    (startNewWork σ q ngs nss).rootGroups = ngs.foldl oinsert q.rootGroups ∧
    (startNewWork σ q ngs nss).rootStreams = nss.foldl oinsert q.rootStreams ∧
    (startNewWork σ q ngs nss).stopped = q.stopped ∧
    (startNewWork σ q ngs nss).pumps = q.pumps ++ nss := by
  unfold startNewWork
  simp only
  have h1 : ∀ (l : List Nat) (q : WQ),
      (l.foldl (fun q g => startGroup σ { q with rootGroups := oinsert q.rootGroups g } g) q).rootGroups
        = l.foldl oinsert q.rootGroups ∧
      (l.foldl (fun q g => startGroup σ { q with rootGroups := oinsert q.rootGroups g } g) q).rootStreams
        = q.rootStreams ∧
      (l.foldl (fun q g => startGroup σ { q with rootGroups := oinsert q.rootGroups g } g) q).stopped
        = q.stopped ∧
      (l.foldl (fun q g => startGroup σ { q with rootGroups := oinsert q.rootGroups g } g) q).pumps
        = q.pumps := by
    intro l
    induction l with
    | nil => intro q; exact ⟨rfl, rfl, rfl, rfl⟩
    | cons g l ih =>
      intro q
      simp only [List.foldl_cons]
      have f := startGroup_frame σ { q with rootGroups := oinsert q.rootGroups g } g
      obtain ⟨a, b, c, d⟩ := ih (startGroup σ { q with rootGroups := oinsert q.rootGroups g } g)
      exact ⟨by rw [a, f.rg], by rw [b, f.rs], by rw [c, f.st], by rw [d, f.pm]⟩
  have h2 : ∀ (l : List Nat) (q : WQ),
      (l.foldl (fun q s => startStream { q with rootStreams := oinsert q.rootStreams s } s) q).rootGroups
        = q.rootGroups ∧
      (l.foldl (fun q s => startStream { q with rootStreams := oinsert q.rootStreams s } s) q).rootStreams
        = l.foldl oinsert q.rootStreams ∧
      (l.foldl (fun q s => startStream { q with rootStreams := oinsert q.rootStreams s } s) q).stopped
        = q.stopped ∧
      (l.foldl (fun q s => startStream { q with rootStreams := oinsert q.rootStreams s } s) q).pumps
        = q.pumps ++ l := by
    intro l
    induction l with
    | nil => intro q; exact ⟨rfl, rfl, rfl, by simp⟩
    | cons s l ih =>
      intro q
      simp only [List.foldl_cons]
      obtain ⟨a, b, c, d⟩ := ih (startStream { q with rootStreams := oinsert q.rootStreams s } s)
      exact ⟨by rw [a]; rfl, by rw [b]; rfl, by rw [c]; rfl, by rw [d]; simp [startStream]⟩
  obtain ⟨a1, b1, c1, d1⟩ := h1 ngs q
  obtain ⟨a2, b2, c2, d2⟩ := h2 nss (ngs.foldl (fun q g => startGroup σ { q with rootGroups := oinsert q.rootGroups g } g) q)
  exact ⟨by rw [a2, a1], by rw [b2, b1], by rw [c2, c1], by rw [d2, d1]⟩

theorem mem_foldl_oinsert (l xs : List Nat) (x : Nat) :
    x ∈ l.foldl oinsert xs ↔ x ∈ xs ∨ x ∈ l := by
  induction l generalizing xs with
  | nil => simp
  | cons a l ih =>
    simp only [List.foldl_cons, ih, List.mem_cons]
    unfold oinsert
    split
    · constructor
      · rintro (h | h)
        · exact Or.inl h
        · exact Or.inr (Or.inr h)
      · rintro (h | h | h)
        · exact Or.inl h
        · subst h; exact Or.inl ‹_›
        · exact Or.inr h
    · simp only [List.mem_append, List.mem_singleton]
      constructor
      · rintro ((h | h) | h)
        · exact Or.inl h
        · exact Or.inr (Or.inl h)
        · exact Or.inr (Or.inr h)
      · rintro (h | h | h)
        · exact Or.inl (Or.inl h)
        · exact Or.inl (Or.inr h)
        · exact Or.inr h

theorem mem_oerase (xs : List Nat) (x y : Nat) : y ∈ oerase xs x ↔ y ∈ xs ∧ y ≠ x := by
  unfold oerase; simp

end Gql.Async
