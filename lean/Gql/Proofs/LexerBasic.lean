import Gql.Text.Lexer
/-!
# Basic facts about the index-based lexer model (`Gql/Text/Lexer.lean`)

Self-contained (imports only the model).  Main results:

* `lex_no_crash`   : `readNextToken` never crashes (every subscript `body[i]` is guarded, every
                     escape sequence has positive size);
* `lex_progress`   : a token returned from a position `pos ≤ |body|` starts at or after `pos`; a
                     non-EOF token has `start < stop ≤ |body|`; the EOF token is `(|body|, |body|)`;
* `lexAll_no_crash`: the fuel `|body| + 2` of `lexAll` is never exhausted.
-/
namespace Gql.Text
open Gql

/-- Post-condition of a lexer action: no crash, and `P` holds of a returned value. -/
def Post {α : Type} (P : α → Prop) : LexOut α → Prop
  | .ok a => P a
  | .err _ => True
  | .crash _ => False

theorem Post.bind {α β : Type} {P : α → Prop} {Q : β → Prop} {x : LexOut α} {f : α → LexOut β}
    (hx : Post P x) (hf : ∀ a, P a → Post Q (f a)) : Post Q (x >>= f) := by
  cases x with
  | ok a => exact hf a hx
  | err e => trivial
  | crash c => exact hx.elim

theorem Post.mono {α : Type} {P Q : α → Prop} {x : LexOut α} (hx : Post P x)
    (h : ∀ a, P a → Q a) : Post Q x := by
  cases x with
  | ok a => exact h a hx
  | err e => trivial
  | crash c => exact hx.elim

theorem Post.noCrash {α : Type} {P : α → Prop} {x : LexOut α} (hx : Post P x) : ¬ x.isCrash := by
  cases x <;> simp_all [Post, Out.isCrash]

theorem Post.of_ok {α : Type} {P : α → Prop} {x : LexOut α} {a : α} (hx : Post P x)
    (h : x = .ok a) : P a := by
  subst h; exact hx

@[simp] theorem post_ok {α : Type} (P : α → Prop) (a : α) : Post P (.ok a : LexOut α) = P a := rfl
@[simp] theorem post_pure {α : Type} (P : α → Prop) (a : α) : Post P (pure a : LexOut α) = P a := rfl
@[simp] theorem post_err {α : Type} (P : α → Prop) (e : LexErr) : Post P (.err e : LexOut α) = True := rfl

theorem index_ok (body : List Nat) (pos : Nat) (h : pos < body.length) :
    (Out.index body pos : LexOut Nat) = .ok body[pos] := by
  simp [Out.index, h]

theorem isSupplementary_lt (body : List Nat) (i : Nat) (h : isSupplementary body i = true) :
    i + 1 < body.length := by
  unfold isSupplementary at h
  split at h
  · rename_i a b h1 h2
    have := (List.getElem?_eq_some_iff.mp h2).1
    exact this
  · simp at h

/-! ### loops -/

theorem readCommentLoop_post (body : List Nat) (pos : Nat) (hp : pos ≤ body.length) :
    Post (fun p => pos ≤ p ∧ p ≤ body.length) (readCommentLoop body pos) := by
  fun_induction readCommentLoop body pos
  all_goals simp_all [index_ok]
  next ih2 ih1 =>
  split
  · simp; omega
  split
  · exact (ih2 (by omega)).mono (fun a ha => by omega)
  split
  · rename_i hs
    have := isSupplementary_lt _ _ hs
    exact (ih1 (by omega)).mono (fun a ha => by omega)
  · simp; omega

theorem digitsLoop_post (body : List Nat) (pos : Nat) (hp : pos ≤ body.length) :
    Post (fun p => pos ≤ p ∧ p ≤ body.length) (digitsLoop body pos) := by
  fun_induction digitsLoop body pos
  all_goals simp_all [index_ok]
  next ih =>
  split
  · exact (ih (by omega)).mono (fun a ha => by omega)
  · simp; omega

theorem readNameLoop_post (body : List Nat) (pos : Nat) (hp : pos ≤ body.length) :
    Post (fun p => pos ≤ p ∧ p ≤ body.length) (readNameLoop body pos) := by
  fun_induction readNameLoop body pos
  all_goals simp_all [index_ok]
  next ih =>
  split
  · exact (ih (by omega)).mono (fun a ha => by omega)
  · simp; omega
theorem varWidthLoop_post (body : List Nat) (position maxSize size point : Nat)
    (hm : position + maxSize ≤ body.length) (hs : 3 ≤ size):
    Post (fun r => 5 ≤ r.2 ∧ r.2 ≤ maxSize) (varWidthLoop body position maxSize size point) := by
  fun_induction varWidthLoop body position maxSize size point
  all_goals simp_all [index_ok]
  next ih =>
  rw [index_ok _ _ (by omega)]
  simp
  split
  · split
    · simp
    · rename_i h1 h2 h3; have h4 := fun h => h3 (Or.inl h); simp; omega
  · split
    · exact ih _ (by omega)
    · simp

theorem readEscapedUnicodeVariableWidth_post (body : List Nat) (position : Nat) (hp : position ≤ body.length) :
    Post (fun r => 5 ≤ r.2 ∧ position + r.2 ≤ body.length) (readEscapedUnicodeVariableWidth body position) := by
  unfold readEscapedUnicodeVariableWidth
  refine (varWidthLoop_post body position _ 3 0 ?_ (by omega)).mono ?_
  · omega
  · intro a ha; omega

theorem read16_some_lt (body : List Nat) (p v : Nat) (h : read16 body p = some v) : p + 3 < body.length := by
  unfold read16 at h
  split at h
  · rename_i h1 h2 h3 h4
    cases h5 : charAt body (p + 3) with
    | none => simp [h5, readHexDigit] at h4
    | some c => exact (List.getElem?_eq_some_iff.mp h5).1
  · simp at h

theorem readEscapedUnicodeFixedWidth_post (body : List Nat) (position : Nat) :
    Post (fun r => 6 ≤ r.2 ∧ position + r.2 ≤ body.length) (readEscapedUnicodeFixedWidth body position) := by
  unfold readEscapedUnicodeFixedWidth
  split
  · simp
  · rename_i code h
    have := read16_some_lt _ _ _ h
    split
    · simp; omega
    · split
      · split
        · rename_i t ht
          have := read16_some_lt _ _ _ ht
          split
          · simp; omega
          · simp
        · simp
      · simp

theorem readEscapedCharacter_post (body : List Nat) (position : Nat) :
    Post (fun r => 2 ≤ r.2 ∧ position + r.2 ≤ body.length) (readEscapedCharacter body position) := by
  unfold readEscapedCharacter
  split
  · rename_i v h
    cases h5 : charAt body (position + 1) with
    | none => simp [h5, escapedChar] at h
    | some c => have := (List.getElem?_eq_some_iff.mp h5).1; simp; omega
  · simp

/-- What every non-EOF token satisfies. -/
def TokPost (body : List Nat) (start : Nat) (t : Token) : Prop :=
  t.start = start ∧ start < t.stop ∧ t.stop ≤ body.length ∧ t.kind ≠ .eof

theorem readStringLoop_post (body : List Nat) (st : LexState) (start pos chunkStart : Nat)
    (acc : List Nat) (hp : start < pos) :
    Post (fun t => TokPost body start t ∧ t.kind = .string) (readStringLoop body st start pos chunkStart acc) := by
  fun_induction readStringLoop body st start pos chunkStart acc
  all_goals simp_all [index_ok]
  next h ih3 ih2 ih1 =>
  split
  · simp [TokPost, mkToken]; omega
  split
  · split
    · split
      · refine (readEscapedUnicodeVariableWidth_post body _ (by omega)).bind ?_
        intro a ha
        split
        · omega
        · exact ih3 _ _ (by omega) (by omega)
      · refine (readEscapedUnicodeFixedWidth_post body _).bind ?_
        intro a ha
        split
        · omega
        · exact ih3 _ _ (by omega) (by omega)
    · refine (readEscapedCharacter_post body _).bind ?_
      intro a ha
      split
      · omega
      · exact ih3 _ _ (by omega) (by omega)
  split
  · simp
  split
  · exact ih2 (by omega)
  split
  · exact ih1 (by omega)
  · simp

theorem slice_length (body : List Nat) (a b : Nat) :
    (slice body a b).length = min (b - a) (body.length - a) := by
  simp [slice]

theorem slice_eq_lt (body : List Nat) (a b : Nat) (l : List Nat) (h : slice body a b = l)
    (hl : l.length = b - a) (hab : a < b) : b ≤ body.length := by
  have := slice_length body a b
  rw [h] at this
  omega

theorem readBlockStringLoop_post (body : List Nat) (st : LexState) (start pos chunkStart lineStart : Nat)
    (curLine : List Nat) (blockLines : List (List Nat)) (hp : start < pos) :
    Post (fun r => TokPost body start r.1 ∧ r.1.kind = .blockString)
      (readBlockStringLoop body st start pos chunkStart lineStart curLine blockLines) := by
  fun_induction readBlockStringLoop body st start pos chunkStart lineStart curLine blockLines
  all_goals simp_all [index_ok]
  next h ih4 ih3 ih2 ih1 =>
  split
  · rename_i hc
    have := slice_eq_lt _ _ _ _ hc.2 (by simp) (by omega)
    simp [TokPost, mkToken]; omega
  split
  · exact ih4 (by omega)
  split
  · apply ih3
    split <;> omega
  split
  · exact ih2 (by omega)
  split
  · exact ih1 (by omega)
  · simp

/-! ### `read_number` in stages -/

/-- IntegerPart after the optional sign: returns the position after it. -/
def numIntPart (body : List Nat) (p : Nat) : LexOut Nat :=
  if charAt body p = some 48 then
    if isDigitOpt (charAt body (p + 1)) then .err ⟨.digitAfterZero, p + 1⟩ else pure (p + 1)
  else readDigits body p (charAt body p)

def numFracPart (body : List Nat) (p : Nat) : LexOut (Nat × Bool) :=
  if charAt body p = some 46 then do
    let q ← readDigits body (p + 1) (charAt body (p + 1))
    pure (q, true)
  else pure (p, false)

def numExpPart (body : List Nat) (p : Nat) : LexOut (Nat × Bool) :=
  if charAt body p = some 69 ∨ charAt body p = some 101 then do
    let p' := if charAt body (p + 1) = some 43 ∨ charAt body (p + 1) = some 45 then p + 2 else p + 1
    let q ← readDigits body p' (charAt body p')
    pure (q, true)
  else pure (p, false)

def numFinish (body : List Nat) (st : LexState) (start p : Nat) (isFloat : Bool) : LexOut Token :=
  if charAt body p = some 46 ∨ isNameStartOpt (charAt body p) then .err ⟨.expectedDigit, p⟩
  else pure (mkToken st (if isFloat then .float else .int) start p (some (slice body start p)))

def readNumberStaged (body : List Nat) (st : LexState) (start : Nat) (first : Nat) : LexOut Token := do
  let p0 := if first = 45 then start + 1 else start
  let p1 ← numIntPart body p0
  let (p2, f1) ← numFracPart body p1
  let (p3, f2) ← numExpPart body p2
  numFinish body st start p3 (f1 || f2)

/-- Position after the maximal run of digits starting at `pos`. -/
def digEnd (body : List Nat) (pos : Nat) : Nat :=
  if h : pos < body.length then
    if isDigit body[pos] then digEnd body (pos + 1) else pos
  else pos
termination_by body.length - pos

theorem digitsLoop_eq (body : List Nat) (pos : Nat) : digitsLoop body pos = .ok (digEnd body pos) := by
  fun_induction digEnd body pos
  all_goals (unfold digitsLoop; simp_all [index_ok])
  intro h; omega

theorem digEnd_ge (body : List Nat) (pos : Nat) : pos ≤ digEnd body pos := by
  fun_induction digEnd body pos <;> omega

theorem digEnd_le (body : List Nat) (pos : Nat) (h : pos ≤ body.length) : digEnd body pos ≤ body.length := by
  fun_induction digEnd body pos <;> omega

theorem readDigits_eq (body : List Nat) (s : Nat) (c : Option Nat) :
    readDigits body s c = if isDigitOpt c then .ok (digEnd body (s + 1)) else .err ⟨.expectedDigit, s⟩ := by
  unfold readDigits
  cases isDigitOpt c <;> simp [digitsLoop_eq]

theorem charAt_some_lt {body : List Nat} {i c : Nat} (h : charAt body i = some c) : i < body.length :=
  (List.getElem?_eq_some_iff.mp h).1

theorem isDigitOpt_charAt_lt {body : List Nat} {i : Nat} (h : isDigitOpt (charAt body i) = true) :
    i < body.length := by
  cases hc : charAt body i with
  | none => simp [hc, isDigitOpt] at h
  | some c => exact charAt_some_lt hc

theorem readDigits_post (body : List Nat) (s : Nat) :
    Post (fun p => s < p ∧ p ≤ body.length) (readDigits body s (charAt body s)) := by
  rw [readDigits_eq]
  split
  · rename_i h
    have := isDigitOpt_charAt_lt h
    have := digEnd_ge body (s + 1)
    have := digEnd_le body (s + 1) (by omega)
    simp; omega
  · simp

theorem readNumber_post (body : List Nat) (st : LexState) (start first : Nat)
    (h : charAt body start = some first) :
    Post (fun t => TokPost body start t ∧ (t.kind = .int ∨ t.kind = .float))
      (readNumber body st start first) := by
  unfold readNumber
  extract_lets pos0 ch0 fl0 jpFin fl1 jpExpD jpExp jpFrac jpInt pos1 ch1
  have hlen := charAt_some_lt h
  have hFin : ∀ r p f, start < p → p ≤ body.length →
      Post (fun t => TokPost body start t ∧ (t.kind = .int ∨ t.kind = .float)) (jpFin r p (charAt body p) f) := by
    intro r p f h1 h2
    simp only [jpFin]
    split
    · simp
    · cases f <;> simp [TokPost, mkToken] <;> omega
  have hExpD : ∀ r p, start < p →
      Post (fun t => TokPost body start t ∧ (t.kind = .int ∨ t.kind = .float)) (jpExpD r p (charAt body p)) := by
    intro r p h1
    simp only [jpExpD]
    refine (readDigits_post body p).bind ?_
    intro q hq
    exact hFin () _ _ (by omega) hq.2
  have hExp : ∀ r p f, start < p → p ≤ body.length →
      Post (fun t => TokPost body start t ∧ (t.kind = .int ∨ t.kind = .float)) (jpExp r p (charAt body p) f) := by
    intro r p f h1 h2
    simp only [jpExp]
    split
    · split
      · exact hExpD () _ (by omega)
      · exact hExpD () _ (by omega)
    · exact hFin () _ _ h1 h2
  have hFrac : ∀ r p, start < p → p ≤ body.length →
      Post (fun t => TokPost body start t ∧ (t.kind = .int ∨ t.kind = .float)) (jpFrac r p (charAt body p)) := by
    intro r p h1 h2
    simp only [jpFrac]
    split
    · refine (readDigits_post body _).bind ?_
      intro q hq
      exact hExp () _ _ (by omega) hq.2
    · exact hExp () _ _ h1 h2
  have hInt : ∀ r p, start ≤ p →
      Post (fun t => TokPost body start t ∧ (t.kind = .int ∨ t.kind = .float)) (jpInt r p (charAt body p)) := by
    intro r p h1
    simp only [jpInt]
    split
    · rename_i h48
      have := charAt_some_lt h48
      split
      · simp
      · exact hFrac () _ (by omega) (by omega)
    · refine (readDigits_post body _).bind ?_
      intro q hq
      exact hFrac () _ (by omega) hq.2
  split
  · exact hInt () _ (by simp [pos1, pos0])
  · have : ch0 = charAt body pos0 := by simp [ch0, pos0, h]
    rw [this]
    exact hInt () _ (by simp [pos0])

/-- Post-condition of `read_next_token` started at `pos ≤ |body|`. -/
def NextPost (body : List Nat) (pos : Nat) (r : Token × LexState) : Prop :=
  pos ≤ r.1.start ∧
  ((r.1.kind ≠ .eof ∧ r.1.start < r.1.stop ∧ r.1.stop ≤ body.length) ∨
   (r.1.kind = .eof ∧ r.1.start = body.length ∧ r.1.stop = body.length))

theorem NextPost.of_tok {body : List Nat} {pos : Nat} {t : Token} {st : LexState}
    (h : TokPost body pos t) : NextPost body pos (t, st) := by
  obtain ⟨h1, h2, h3, h4⟩ := h
  refine ⟨by simp [h1], Or.inl ⟨h4, ?_, h3⟩⟩
  simp [h1]; exact h2

theorem NextPost.mono {body : List Nat} {pos pos' : Nat} {r : Token × LexState}
    (h : NextPost body pos' r) (hle : pos ≤ pos') : NextPost body pos r :=
  ⟨by have := h.1; omega, h.2⟩

theorem readComment_post (body : List Nat) (st : LexState) (start : Nat) (h : start < body.length) :
    Post (fun t => TokPost body start t ∧ t.kind = .comment) (readComment body st start) := by
  unfold readComment
  refine (readCommentLoop_post body (start + 1) (by omega)).bind ?_
  intro p hp
  simp [TokPost, mkToken]; omega

theorem readName_post (body : List Nat) (st : LexState) (start : Nat) (h : start < body.length) :
    Post (fun t => TokPost body start t ∧ t.kind = .name) (readName body st start) := by
  unfold readName
  refine (readNameLoop_post body (start + 1) (by omega)).bind ?_
  intro p hp
  simp [TokPost, mkToken]; omega

theorem readString_post (body : List Nat) (st : LexState) (start : Nat) :
    Post (fun t => TokPost body start t ∧ t.kind = .string) (readString body st start) :=
  readStringLoop_post body st start (start + 1) (start + 1) [] (by omega)

theorem readBlockString_post (body : List Nat) (st : LexState) (start : Nat) :
    Post (fun r => TokPost body start r.1 ∧ r.1.kind = .blockString) (readBlockString body st start) :=
  readBlockStringLoop_post body st start (start + 3) (start + 3) _ [] [] (by omega)

theorem punctKind_ne_eof' (c : Nat) : punctKind c ≠ some .eof := by
  grind (splits := 20) [punctKind]

theorem punctKind_ne_eof {c : Nat} {k : TokKind} (h : punctKind c = some k) : k ≠ .eof := by
  intro hk; subst hk; exact punctKind_ne_eof' c h

theorem Post.ite {α : Type} {P : α → Prop} {c : Prop} [Decidable c] {x y : LexOut α}
    (hx : c → Post P x) (hy : ¬ c → Post P y) : Post P (if c then x else y) := by
  by_cases h : c
  · rw [if_pos h]; exact hx h
  · rw [if_neg h]; exact hy h

theorem readNextToken_post (body : List Nat) (st : LexState) (pos : Nat) (hp : pos ≤ body.length) :
    Post (NextPost body pos) (readNextToken body st pos) := by
  fun_induction readNextToken body st pos
  · rename_i st pos h ih3 ih2 ih1
    rw [index_ok _ _ h, Out.bind_ok]
    have hc0 : charAt body pos = some body[pos] := by simp [charAt, h]
    generalize body[pos] = c at hc0 ⊢
    refine Post.ite (fun _ => ?_) (fun _ => ?_)
    · exact (ih3 (by omega)).mono (fun r hr => hr.mono (by omega))
    refine Post.ite (fun _ => ?_) (fun _ => ?_)
    · exact (ih2 (by omega)).mono (fun r hr => hr.mono (by omega))
    refine Post.ite (fun _ => ?_) (fun _ => ?_)
    · refine Post.ite (fun hc => ?_) (fun _ => ?_)
      · have := charAt_some_lt hc
        exact (ih1 (by omega)).mono (fun r hr => hr.mono (by omega))
      · exact (ih2 (by omega)).mono (fun r hr => hr.mono (by omega))
    refine Post.ite (fun _ => ?_) (fun _ => ?_)
    · refine (readComment_post body st pos h).bind ?_
      intro t ht
      exact NextPost.of_tok ht.1
    refine Post.ite (fun _ => ?_) (fun _ => ?_)
    · refine Post.ite (fun _ => ?_) (fun _ => ?_)
      · exact (readBlockString_post body st pos).mono (fun r hr => NextPost.of_tok hr.1)
      · refine (readString_post body st pos).bind ?_
        intro t ht
        exact NextPost.of_tok ht.1
    cases hk : punctKind c with
    | some k =>
      refine NextPost.of_tok ?_
      simp [TokPost, mkToken, punctKind_ne_eof hk]; omega
    | none =>
    simp only []
    refine Post.ite (fun _ => ?_) (fun _ => ?_)
    · refine (readNumber_post body st pos _ hc0).bind ?_
      intro t ht
      exact NextPost.of_tok ht.1
    refine Post.ite (fun _ => ?_) (fun _ => ?_)
    · refine (readName_post body st pos h).bind ?_
      intro t ht
      exact NextPost.of_tok ht.1
    extract_lets dotErr
    refine Post.ite (fun hc => ?_) (fun _ => ?_)
    · have := charAt_some_lt hc.2.2
      refine NextPost.of_tok ?_
      simp [TokPost, mkToken]; omega
    split
    · refine Post.ite (fun _ => ?_) (fun _ => ?_)
      · refine (show Post (fun _ => True) (dotDigitsLoop body (pos + 1)) from
          (digitsLoop_post body (pos + 1) (by omega)).mono (fun _ _ => trivial)).bind ?_
        intro _ _; simp
      · simp
    · repeat' split
      all_goals simp
  · simp [NextPost, mkToken]; omega

/-! ### The three exported facts -/

/-- `read_next_token` never raises anything but `GraphQLSyntaxError`, from any position and
any line state (positions beyond the end included: the loop guard fails and EOF is returned). -/
theorem lex_no_crash (body : List Nat) (st : LexState) (pos : Nat) :
    ¬ (readNextToken body st pos).isCrash := by
  by_cases hp : pos ≤ body.length
  · exact (readNextToken_post body st pos hp).noCrash
  · unfold readNextToken
    have : ¬ pos < body.length := by omega
    simp [this, Out.isCrash]

/-- Progress: a token read at `pos ≤ |body|` starts at or after `pos`; a non-EOF token is
non-empty and inside the text; the EOF token is `(|body|, |body|)`. -/
theorem lex_progress (body : List Nat) (st st' : LexState) (pos : Nat) (t : Token)
    (hp : pos ≤ body.length) (h : readNextToken body st pos = .ok (t, st')) :
    pos ≤ t.start ∧
    (t.kind ≠ .eof → t.start < t.stop ∧ t.stop ≤ body.length) ∧
    (t.kind = .eof → t.start = body.length ∧ t.stop = body.length) := by
  have := (readNextToken_post body st pos hp).of_ok h
  obtain ⟨h1, h2⟩ := this
  refine ⟨h1, ?_, ?_⟩
  · intro hk
    rcases h2 with h2 | h2
    · exact h2.2
    · exact absurd h2.1 hk
  · intro hk
    rcases h2 with h2 | h2
    · exact absurd hk h2.1
    · exact h2.2

theorem lexAllAux_post (body : List Nat) (fuel : Nat) (st : LexState) (pos : Nat) (acc : List Token)
    (hp : pos ≤ body.length) (hf : body.length - pos + 1 ≤ fuel) :
    Post (fun _ => True) (lexAllAux body fuel st pos acc) := by
  induction fuel generalizing st pos acc with
  | zero => omega
  | succ fuel ih =>
    unfold lexAllAux
    refine (readNextToken_post body st pos hp).bind ?_
    intro r hr
    obtain ⟨h1, h2⟩ := hr
    refine Post.ite (fun _ => by simp) (fun hk => ?_)
    rcases h2 with h2 | h2
    · refine Post.ite (fun _ => ?_) (fun _ => ?_)
      · exact ih _ _ _ h2.2.2 (by omega)
      · exact ih _ _ _ h2.2.2 (by omega)
    · exact absurd h2.1 hk

/-- The fuel `|body| + 2` of `lexAll` is never exhausted and nothing else crashes:
`lexAll` returns the token list or the first syntax error. -/
theorem lexAll_no_crash (body : List Nat) : ¬ (lexAll body).isCrash :=
  (lexAllAux_post body _ {} 0 [] (by omega) (by omega)).noCrash

end Gql.Text
