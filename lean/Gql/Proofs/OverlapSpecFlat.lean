import Gql.Proofs.OverlapFlat
import Gql.Proofs.OverlapPairSet
/-! C14, documents without fragment spreads, specification side: `SpecConflict` holds iff some
same-name pair *within* one selection set has a "between" conflict (`BConf`): the pair itself is
unmergeable, or one field of each sub-selection, with one response name, is (recursively). -/
namespace Gql.Exec
open Overlap

/-- no fragment spread anywhere in the document -/
def Doc.NoSpreads (d : Doc) : Prop := d.spreadNames = []

/-- the specification never stops at a scalar/enum pair of which both fields have sub-selections
(the ScalarLeafs rule holds) -/
def LeafNoSub (s : Schema) (d : Doc) : Prop :=
  ∀ st0 ∈ Spec.initStates s d, ∀ st, Spec.Reach s d st0 st →
    Spec.leafStop s st = true → (st.a.node.hasSub && st.b.node.hasSub) = false

/-- "Between" conflict of two field instances (what `find_conflict` looks for, stated on the
specification's notions). -/
inductive BConf (s : Schema) : Bool → Spec.FieldInst → Spec.FieldInst → Prop where
  | here {full : Bool} {a b : Spec.FieldInst} :
      Spec.direct s ⟨a, b, full⟩ = true → BConf s full a b
  | sub {full : Bool} {a b c1 c2 : Spec.FieldInst} :
      a.node.hasSub = true → b.node.hasSub = true →
      c1 ∈ selsFlat s (subP s a) a.node.sub → c2 ∈ selsFlat s (subP s b) b.node.sub →
      c1.node.responseName = c2.node.responseName →
      BConf s (Spec.deeper s ⟨a, b, full⟩) c1 c2 → BConf s full a b

/-- some same-name pair within one selection set of the document has a between-conflict -/
def WConf (s : Schema) (d : Doc) : Prop :=
  ∃ t ∈ d.typedSets s, ∃ pr ∈ Spec.sameNamePairs (selsFlat s t.1 t.2.sels), BConf s true pr.1 pr.2

/-! ### pairs -/

theorem Spec.pairsOf_mem {α : Type} {xs : List α} {p : α × α} (h : p ∈ Spec.pairsOf xs) :
    p.1 ∈ xs ∧ p.2 ∈ xs := by
  induction xs with
  | nil => simp [Spec.pairsOf] at h
  | cons x xs ih =>
    simp only [Spec.pairsOf, List.mem_append, List.mem_map] at h
    rcases h with ⟨y, hy, rfl⟩ | h
    · exact ⟨List.mem_cons_self, List.mem_cons_of_mem _ hy⟩
    · exact ⟨List.mem_cons_of_mem _ (ih h).1, List.mem_cons_of_mem _ (ih h).2⟩

theorem Spec.pairsOf_append {α : Type} (A B : List α) (p : α × α) :
    p ∈ Spec.pairsOf (A ++ B) ↔
      p ∈ Spec.pairsOf A ∨ (p.1 ∈ A ∧ p.2 ∈ B) ∨ p ∈ Spec.pairsOf B := by
  induction A with
  | nil => simp [Spec.pairsOf]
  | cons x xs ih =>
    simp only [List.cons_append, Spec.pairsOf, List.mem_append, List.mem_map, ih, List.mem_cons]
    constructor
    · rintro (⟨y, hy, rfl⟩ | h | h | h)
      · rcases hy with hy | hy
        · exact Or.inl (Or.inl ⟨y, hy, rfl⟩)
        · exact Or.inr (Or.inl ⟨Or.inl rfl, hy⟩)
      · exact Or.inl (Or.inr h)
      · exact Or.inr (Or.inl ⟨Or.inr h.1, h.2⟩)
      · exact Or.inr (Or.inr h)
    · rintro ((⟨y, hy, rfl⟩ | h) | ⟨h1 | h1, h2⟩ | h)
      · exact Or.inl ⟨y, Or.inl hy, rfl⟩
      · exact Or.inr (Or.inl h)
      · exact Or.inl ⟨p.2, Or.inr h2, by cases p; simp_all⟩
      · exact Or.inr (Or.inr (Or.inl ⟨h1, h2⟩))
      · exact Or.inr (Or.inr (Or.inr h))

theorem Spec.mem_sameNamePairs {fs : List Spec.FieldInst} {p : Spec.FieldInst × Spec.FieldInst} :
    p ∈ Spec.sameNamePairs fs ↔
      p ∈ Spec.pairsOf fs ∧ p.1.node.responseName = p.2.node.responseName := by
  simp [Spec.sameNamePairs, List.mem_filter]

/-! ### reachability with a length -/

inductive Spec.ReachN (s : Schema) (d : Doc) : Nat → Spec.State → Spec.State → Prop where
  | refl (st : Spec.State) : Spec.ReachN s d 0 st st
  | step {n : Nat} {a b c : Spec.State} :
      Spec.Step s d a b → Spec.ReachN s d n b c → Spec.ReachN s d (n + 1) a c

theorem Spec.ReachN.toReach {s : Schema} {d : Doc} {n : Nat} {a b : Spec.State}
    (h : Spec.ReachN s d n a b) : Spec.Reach s d a b := by
  induction h with
  | refl st => exact Spec.Reach.refl st
  | step hs _ ih => exact Spec.Reach.step hs ih

theorem Spec.Reach.toReachN {s : Schema} {d : Doc} {a b : Spec.State}
    (h : Spec.Reach s d a b) : ∃ n, Spec.ReachN s d n a b := by
  induction h with
  | refl st => exact ⟨0, Spec.ReachN.refl st⟩
  | step hs _ ih => obtain ⟨n, hn⟩ := ih; exact ⟨n + 1, Spec.ReachN.step hs hn⟩

theorem Spec.Reach.trans {s : Schema} {d : Doc} {a b c : Spec.State}
    (h1 : Spec.Reach s d a b) (h2 : Spec.Reach s d b c) : Spec.Reach s d a c := by
  induction h1 with
  | refl st => exact h2
  | step hs _ ih => exact Spec.Reach.step hs (ih h2)

theorem Spec.reachN_covers {s : Schema} {d : Doc} {n : Nat} {a a' : Spec.State}
    (hr : Spec.ReachN s d n a a') :
    ∀ {t : Spec.State}, Spec.Covers t a → Spec.direct s a' = true →
      ∃ t', Spec.ReachN s d n t t' ∧ Spec.direct s t' = true := by
  induction hr with
  | refl st => exact fun {t} hc hd => ⟨t, Spec.ReachN.refl t, Spec.direct_covers hc hd⟩
  | step hst _ ih =>
    intro t hc hd
    obtain ⟨t1, ht1, hc1⟩ := Spec.step_covers hc hst
    obtain ⟨t', hr', hd'⟩ := ih hc1 hd
    exact ⟨t', Spec.ReachN.step ht1 hr', hd'⟩

/-! ### the specification's sets on a document without spreads -/

theorem Doc.allSets_spreadNames {d : Doc} {ss : SelSet} (h : ss ∈ d.allSets) :
    selsSpreadNames ss.sels ⊆ d.spreadNames := by
  obtain ⟨df, hdf, h⟩ := Doc.mem_allSets h
  intro a ha
  simp only [Doc.spreadNames, List.mem_flatMap]
  refine ⟨df, hdf, ?_⟩
  rcases h with rfl | h
  · exact ha
  · exact (selsSubSets_facts _ _ h).2.2 ha

theorem Doc.NoSpreads.set {d : Doc} (hn : d.NoSpreads) {ss : SelSet} (h : ss ∈ d.allSets) :
    selsSpreadNames ss.sels = [] := by
  have := Doc.allSets_spreadNames h
  rw [hn] at this
  exact List.eq_nil_of_subset_nil this

theorem Doc.NoSpreads.typed {s : Schema} {d : Doc} (hn : d.NoSpreads)
    {t : Option String × SelSet} (h : t ∈ d.typedSets s) : selsSpreadNames t.2.sels = [] :=
  hn.set (Doc.typedSets_allSets h)

theorem DocInst.sub_nospread {s : Schema} {d : Doc} (hn : d.NoSpreads) {a : Spec.FieldInst}
    (h : DocInst s d a) :
    selsSpreadNames (if a.node.hasSub = true then a.node.sub else []) = [] := by
  by_cases hs : a.node.hasSub = true
  · simp only [hs, if_true]
    exact hn.typed (h.sub hs)
  · simp [hs, selsSpreadNames]

theorem mergedFields_nospread {s : Schema} {d : Doc} (hn : d.NoSpreads) {a b : Spec.FieldInst}
    (ha : DocInst s d a) (hb : DocInst s d b) :
    Spec.mergedFields s d a b =
      selsFlat s (subP s a) (if a.node.hasSub = true then a.node.sub else []) ++
        selsFlat s (subP s b) (if b.node.hasSub = true then b.node.sub else []) := by
  simp only [Spec.mergedFields, subP]
  rw [expandWith_nospread s d _ _ _ (ha.sub_nospread hn)]
  simp only
  rw [expandWith_nospread s d _ _ _ (hb.sub_nospread hn)]

theorem mem_initStates {s : Schema} {d : Doc} (hn : d.NoSpreads) {st0 : Spec.State} :
    st0 ∈ Spec.initStates s d ↔
      ∃ t ∈ d.typedSets s, ∃ pr ∈ Spec.sameNamePairs (selsFlat s t.1 t.2.sels),
        st0 = ⟨pr.1, pr.2, true⟩ := by
  simp only [Spec.initStates, ← Doc.typedSets_spec, List.mem_flatMap, List.mem_map]
  constructor
  · rintro ⟨ps, ⟨t, ht, rfl⟩, pr, hpr, rfl⟩
    simp only [expandWith_nospread s d _ _ _ (hn.typed ht)] at hpr
    exact ⟨t, ht, pr, hpr, rfl⟩
  · rintro ⟨t, ht, pr, hpr, rfl⟩
    refine ⟨_, ⟨t, ht, rfl⟩, pr, ?_, rfl⟩
    simp only [expandWith_nospread s d _ _ _ (hn.typed ht)]
    exact hpr

theorem flat_if_mem {s : Schema} {p : Option String} {b : Bool} {xs : List Sel}
    {c : Spec.FieldInst} (h : c ∈ selsFlat s p (if b = true then xs else [])) :
    b = true ∧ c ∈ selsFlat s p xs := by
  cases b
  · simp [selsFlat] at h
  · simpa using h

/-- the successors of a pair of document fields -/
theorem mem_succs {s : Schema} {d : Doc} (hn : d.NoSpreads) {a b : Spec.FieldInst} {full : Bool}
    (ha : DocInst s d a) (hb : DocInst s d b) {st1 : Spec.State}
    (h : st1 ∈ Spec.succs s d ⟨a, b, full⟩) :
    ∃ c1 c2, st1 = ⟨c1, c2, Spec.deeper s ⟨a, b, full⟩⟩ ∧
      c1.node.responseName = c2.node.responseName ∧
      ((a.node.hasSub = true ∧ (c1, c2) ∈ Spec.pairsOf (selsFlat s (subP s a) a.node.sub)) ∨
       (a.node.hasSub = true ∧ b.node.hasSub = true ∧ c1 ∈ selsFlat s (subP s a) a.node.sub ∧
          c2 ∈ selsFlat s (subP s b) b.node.sub) ∨
       (b.node.hasSub = true ∧ (c1, c2) ∈ Spec.pairsOf (selsFlat s (subP s b) b.node.sub))) := by
  simp only [Spec.succs] at h
  split at h
  · cases h
  · obtain ⟨pr, hpr, rfl⟩ := List.mem_map.1 h
    rw [mergedFields_nospread hn ha hb, Spec.mem_sameNamePairs, Spec.pairsOf_append] at hpr
    obtain ⟨hp, hrn⟩ := hpr
    refine ⟨pr.1, pr.2, rfl, hrn, ?_⟩
    rcases hp with hp | ⟨h1, h2⟩ | hp
    · have := flat_if_mem (Spec.pairsOf_mem hp).1
      refine Or.inl ⟨this.1, ?_⟩
      simpa [this.1] using hp
    · have x1 := flat_if_mem h1
      have x2 := flat_if_mem h2
      exact Or.inr (Or.inl ⟨x1.1, x2.1, x1.2, x2.2⟩)
    · have := flat_if_mem (Spec.pairsOf_mem hp).1
      refine Or.inr (Or.inr ⟨this.1, ?_⟩)
      simpa [this.1] using hp

/-- a between pair is a successor, unless the specification stops at leaves -/
theorem succs_of_between {s : Schema} {d : Doc} (hn : d.NoSpreads) {a b c1 c2 : Spec.FieldInst}
    {full : Bool} (ha : DocInst s d a) (hb : DocInst s d b)
    (hsa : a.node.hasSub = true) (hsb : b.node.hasSub = true)
    (h1 : c1 ∈ selsFlat s (subP s a) a.node.sub) (h2 : c2 ∈ selsFlat s (subP s b) b.node.sub)
    (hrn : c1.node.responseName = c2.node.responseName)
    (hleaf : Spec.leafStop s ⟨a, b, full⟩ = false) :
    (⟨c1, c2, Spec.deeper s ⟨a, b, full⟩⟩ : Spec.State) ∈ Spec.succs s d ⟨a, b, full⟩ := by
  simp only [Spec.succs, hleaf, Bool.and_false, Bool.false_eq_true, if_false]
  refine List.mem_map.2 ⟨(c1, c2), ?_, rfl⟩
  rw [mergedFields_nospread hn ha hb, Spec.mem_sameNamePairs, Spec.pairsOf_append]
  refine ⟨Or.inr (Or.inl ⟨?_, ?_⟩), hrn⟩
  · simpa [hsa] using h1
  · simpa [hsb] using h2

/-! ### `WConf` ↔ `SpecConflict` -/

theorem DocInst.of_pair {s : Schema} {d : Doc} {t : Option String × SelSet}
    (ht : t ∈ d.typedSets s) {pr : Spec.FieldInst × Spec.FieldInst}
    (hpr : pr ∈ Spec.sameNamePairs (selsFlat s t.1 t.2.sels)) :
    DocInst s d pr.1 ∧ DocInst s d pr.2 := by
  have := Spec.pairsOf_mem (Spec.mem_sameNamePairs.1 hpr).1
  exact ⟨⟨t, ht, this.1⟩, ⟨t, ht, this.2⟩⟩

/-- a between-conflict of a reachable pair is a specification conflict -/
theorem BConf.toReach {s : Schema} {d : Doc} (hn : d.NoSpreads) (hl : LeafNoSub s d)
    {full : Bool} {a b : Spec.FieldInst} (h : BConf s full a b) :
    ∀ {st0 : Spec.State}, st0 ∈ Spec.initStates s d → Spec.Reach s d st0 ⟨a, b, full⟩ →
      DocInst s d a → DocInst s d b →
      ∃ st, Spec.Reach s d ⟨a, b, full⟩ st ∧ Spec.direct s st = true := by
  induction h with
  | here hd => exact fun _ _ _ _ => ⟨_, Spec.Reach.refl _, hd⟩
  | @sub full a b c1 c2 hsa hsb h1 h2 hrn _ ih =>
    intro st0 h0 hr ha hb
    have hleaf : Spec.leafStop s ⟨a, b, full⟩ = false := by
      cases hls : Spec.leafStop s ⟨a, b, full⟩ with
      | false => rfl
      | true =>
        have := hl st0 h0 _ hr hls
        simp [hsa, hsb] at this
    have hstep := succs_of_between hn ha hb hsa hsb h1 h2 hrn hleaf
    obtain ⟨st, hrs, hd⟩ := ih h0 (hr.trans (Spec.Reach.step hstep (Spec.Reach.refl _)))
      (ha.child hsa h1) (hb.child hsb h2)
    exact ⟨st, Spec.Reach.step hstep hrs, hd⟩

/-- a chain from a pair of document fields gives a between-conflict of that pair, or a
strictly shorter chain from a same-name pair within one selection set of the document -/
theorem chain_split {s : Schema} {d : Doc} (hn : d.NoSpreads) :
    ∀ (n : Nat) (a b : Spec.FieldInst) (full : Bool) (st : Spec.State),
      DocInst s d a → DocInst s d b → Spec.ReachN s d n ⟨a, b, full⟩ st →
      Spec.direct s st = true →
      BConf s full a b ∨
        ∃ m, m < n ∧ ∃ t ∈ d.typedSets s, ∃ pr ∈ Spec.sameNamePairs (selsFlat s t.1 t.2.sels),
          ∃ st', Spec.ReachN s d m ⟨pr.1, pr.2, true⟩ st' ∧ Spec.direct s st' = true := by
  intro n
  induction n with
  | zero =>
    intro a b full st _ _ hr hd
    cases hr
    exact Or.inl (BConf.here hd)
  | succ n ih =>
    intro a b full st ha hb hr hd
    cases hr with
    | step hstep htail =>
      obtain ⟨c1, c2, rfl, hrn, hcase⟩ := mem_succs hn ha hb hstep
      rcases hcase with ⟨hsa, hp⟩ | ⟨hsa, hsb, h1, h2⟩ | ⟨hsb, hp⟩
      · -- both from the sub-selection of `a`: a pair within that selection set
        obtain ⟨st', hr', hd'⟩ :=
          Spec.reachN_covers htail (t := ⟨c1, c2, true⟩) ⟨rfl, rfl, fun _ => rfl⟩ hd
        refine Or.inr ⟨n, Nat.lt_succ_self n, _, ha.sub hsa, (c1, c2), ?_, st', hr', hd'⟩
        exact Spec.mem_sameNamePairs.2 ⟨hp, hrn⟩
      · rcases ih c1 c2 _ st (ha.child hsa h1) (hb.child hsb h2) htail hd with hb' | ⟨m, hm, rest⟩
        · exact Or.inl (BConf.sub hsa hsb h1 h2 hrn hb')
        · exact Or.inr ⟨m, Nat.lt_succ_of_lt hm, rest⟩
      · obtain ⟨st', hr', hd'⟩ :=
          Spec.reachN_covers htail (t := ⟨c1, c2, true⟩) ⟨rfl, rfl, fun _ => rfl⟩ hd
        refine Or.inr ⟨n, Nat.lt_succ_self n, _, hb.sub hsb, (c1, c2), ?_, st', hr', hd'⟩
        exact Spec.mem_sameNamePairs.2 ⟨hp, hrn⟩

theorem wconf_of_chain {s : Schema} {d : Doc} (hn : d.NoSpreads) :
    ∀ (n : Nat) (t : Option String × SelSet), t ∈ d.typedSets s →
      ∀ pr ∈ Spec.sameNamePairs (selsFlat s t.1 t.2.sels), ∀ st,
        Spec.ReachN s d n ⟨pr.1, pr.2, true⟩ st → Spec.direct s st = true → WConf s d := by
  intro n
  induction n using Nat.strongRecOn with
  | _ n ih =>
    intro t ht pr hpr st hr hd
    obtain ⟨ha, hb⟩ := DocInst.of_pair ht hpr
    rcases chain_split hn n pr.1 pr.2 true st ha hb hr hd with hb' | ⟨m, hm, t', ht', pr', hpr', st', hr', hd'⟩
    · exact ⟨t, ht, pr, hpr, hb'⟩
    · exact ih m hm t' ht' pr' hpr' st' hr' hd'

/-- On documents without fragment spreads the specification rejects exactly when some same-name
pair within one selection set has a between-conflict. -/
theorem wconf_iff_specConflict {s : Schema} {d : Doc} (hn : d.NoSpreads) (hl : LeafNoSub s d) :
    WConf s d ↔ Spec.SpecConflict s d := by
  constructor
  · rintro ⟨t, ht, pr, hpr, hb⟩
    obtain ⟨ha, hb'⟩ := DocInst.of_pair ht hpr
    have h0 : (⟨pr.1, pr.2, true⟩ : Spec.State) ∈ Spec.initStates s d :=
      (mem_initStates hn).2 ⟨t, ht, pr, hpr, rfl⟩
    obtain ⟨st, hr, hd⟩ := hb.toReach hn hl h0 (Spec.Reach.refl _) ha hb'
    exact ⟨_, h0, st, hr, hd⟩
  · rintro ⟨st0, h0, st, hr, hd⟩
    obtain ⟨t, ht, pr, hpr, rfl⟩ := (mem_initStates hn).1 h0
    obtain ⟨n, hrn⟩ := hr.toReachN
    exact wconf_of_chain hn n t ht pr hpr st hrn hd

end Gql.Exec
