import Gql.Proofs.ParserGood
/-
Totality of the parser model, part 2: every parse function is `Good`/`GoodC` (see
`Gql/Proofs/ParserGood.lean`), the `getattr` dispatch never falls through given the generated tables,
and therefore every entry point on every crash-free stream returns a node or a syntax error.
-/
namespace Gql.Syntax
open Gql Gql.Text

/-! ### arguments, directives, variable definitions -/

theorem parseArgument_goodC {n : Nat} (cfg : Cfg) (cls : String) (c : Bool) :
    GoodC n (parseArgument cfg n cls c) := by
  unfold parseArgument; pgood
macro_rules | `(tactic| pgood_leaf) => `(tactic| (with_reducible exact parseArgument_goodC _ _ _))

theorem parseArguments_good {n : Nat} (cfg : Cfg) (c : Bool) : Good n (parseArguments cfg n c) := by
  unfold parseArguments; pgood
macro_rules | `(tactic| pgood_leaf) => `(tactic| (with_reducible exact parseArguments_good _ _))

theorem parseFragmentArguments_good {n : Nat} (cfg : Cfg) : Good n (parseFragmentArguments cfg n) := by
  unfold parseFragmentArguments; pgood
macro_rules | `(tactic| pgood_leaf) => `(tactic| (with_reducible exact parseFragmentArguments_good _))

theorem parseDirective_goodC {n : Nat} (cfg : Cfg) (c : Bool) : GoodC n (parseDirective cfg n c) := by
  unfold parseDirective; pgood

theorem directivesLoop_good {n : Nat} (cfg : Cfg) (c : Bool) :
    ∀ (k : Nat) (acc : List Ast), k ≤ n → Good k (directivesLoop cfg n c k acc) := by
  intro k
  induction k with
  | zero => intro acc _ s _ hn; omega
  | succ k ih =>
    intro acc hk
    unfold directivesLoop
    apply Good.bind (peek_good .at)
    intro at_
    refine Good.ite ?_ (Good.pure _)
    exact (GoodC.step ((parseDirective_goodC cfg c).anti hk) (fun d => ih _ (by omega))).toGood

theorem parseDirectives_good {n : Nat} (cfg : Cfg) (c : Bool) : Good n (parseDirectives cfg n c) := by
  unfold parseDirectives
  exact Good.bind (directivesLoop_good cfg c n [] (Nat.le_refl _)) (fun _ => Good.pure _)
macro_rules | `(tactic| pgood_leaf) => `(tactic| (with_reducible exact parseDirectives_good _ _))

theorem parseVariableDefinition_goodC {n : Nat} (cfg : Cfg) : GoodC n (parseVariableDefinition cfg n) := by
  unfold parseVariableDefinition; pgood
macro_rules | `(tactic| pgood_leaf) => `(tactic| (with_reducible exact parseVariableDefinition_goodC _))

theorem parseVariableDefinitions_good {n : Nat} (cfg : Cfg) : Good n (parseVariableDefinitions cfg n) := by
  unfold parseVariableDefinitions; pgood
macro_rules | `(tactic| pgood_leaf) => `(tactic| (with_reducible exact parseVariableDefinitions_good _))

/-! ### selections -/

theorem parseFragmentName_goodC {n : Nat} (cfg : Cfg) : GoodC n (parseFragmentName cfg) := by
  unfold parseFragmentName; pgood
macro_rules | `(tactic| pgood_leaf) => `(tactic| (with_reducible exact parseFragmentName_goodC _))

theorem parseField_goodC {n : Nat} (cfg : Cfg) {ss : P Ast} (hss : Good n ss) :
    GoodC n (parseField cfg n ss) := by
  unfold parseField; pgood

theorem parseFragment_goodC {n : Nat} (cfg : Cfg) {ss : P Ast} (hss : Good n ss) :
    GoodC n (parseFragment cfg n ss) := by
  unfold parseFragment; pgood

theorem parseSelection_goodC {n : Nat} (cfg : Cfg) {ss : P Ast} (hss : Good n ss) :
    GoodC n (parseSelection cfg n ss) := by
  unfold parseSelection
  have h1 := parseField_goodC cfg hss
  have h2 := parseFragment_goodC cfg hss
  pgood

theorem selectionSet_goodC (cfg : Cfg) : ∀ n, GoodC n (selectionSet n cfg) := by
  intro n
  induction n with
  | zero => intro s _ hn; omega
  | succ n ih =>
    unfold selectionSet
    exact GoodC.bindL (parseMany_goodC cfg .braceL .braceR (by decide) (parseSelection_goodC cfg ih.toGood))
      (fun _ => Good.pure _)
macro_rules | `(tactic| pgood_leaf) => `(tactic| (with_reducible exact selectionSet_goodC _ _))

/-! ### executable definitions -/

theorem parseOperationType_goodC {n : Nat} (cfg : Cfg) : GoodC n (parseOperationType cfg) := by
  unfold parseOperationType; pgood
macro_rules | `(tactic| pgood_leaf) => `(tactic| (with_reducible exact parseOperationType_goodC _))

theorem parseOperationDefinition_goodC {n : Nat} (cfg : Cfg) : GoodC n (parseOperationDefinition cfg n) := by
  unfold parseOperationDefinition; pgood
macro_rules | `(tactic| pgood_leaf) => `(tactic| (with_reducible exact parseOperationDefinition_goodC _))

theorem parseTypeCondition_goodC {n : Nat} (cfg : Cfg) : GoodC n (parseTypeCondition cfg) := by
  unfold parseTypeCondition; pgood
macro_rules | `(tactic| pgood_leaf) => `(tactic| (with_reducible exact parseTypeCondition_goodC _))

theorem parseFragmentDefinition_goodC {n : Nat} (cfg : Cfg) : GoodC n (parseFragmentDefinition cfg n) := by
  unfold parseFragmentDefinition; pgood
macro_rules | `(tactic| pgood_leaf) => `(tactic| (with_reducible exact parseFragmentDefinition_goodC _))

/-! ### type system definitions -/

theorem parseOperationTypeDefinition_goodC {n : Nat} (cfg : Cfg) :
    GoodC n (parseOperationTypeDefinition cfg) := by
  unfold parseOperationTypeDefinition; pgood
macro_rules | `(tactic| pgood_leaf) => `(tactic| (with_reducible exact parseOperationTypeDefinition_goodC _))

theorem parseSchemaDefinition_goodC {n : Nat} (cfg : Cfg) : GoodC n (parseSchemaDefinition cfg n) := by
  unfold parseSchemaDefinition; pgood

theorem parseScalarTypeDefinition_goodC {n : Nat} (cfg : Cfg) : GoodC n (parseScalarTypeDefinition cfg n) := by
  unfold parseScalarTypeDefinition; pgood

theorem parseImplementsInterfaces_good {n : Nat} (cfg : Cfg) : Good n (parseImplementsInterfaces cfg n) := by
  unfold parseImplementsInterfaces; pgood
macro_rules | `(tactic| pgood_leaf) => `(tactic| (with_reducible exact parseImplementsInterfaces_good _))

theorem parseInputValueDef_goodC {n : Nat} (cfg : Cfg) : GoodC n (parseInputValueDef cfg n) := by
  unfold parseInputValueDef; pgood
macro_rules | `(tactic| pgood_leaf) => `(tactic| (with_reducible exact parseInputValueDef_goodC _))

theorem parseArgumentDefs_good {n : Nat} (cfg : Cfg) : Good n (parseArgumentDefs cfg n) := by
  unfold parseArgumentDefs; pgood
macro_rules | `(tactic| pgood_leaf) => `(tactic| (with_reducible exact parseArgumentDefs_good _))

theorem parseFieldDefinition_goodC {n : Nat} (cfg : Cfg) : GoodC n (parseFieldDefinition cfg n) := by
  unfold parseFieldDefinition; pgood
macro_rules | `(tactic| pgood_leaf) => `(tactic| (with_reducible exact parseFieldDefinition_goodC _))

theorem parseFieldsDefinition_good {n : Nat} (cfg : Cfg) : Good n (parseFieldsDefinition cfg n) := by
  unfold parseFieldsDefinition; pgood
macro_rules | `(tactic| pgood_leaf) => `(tactic| (with_reducible exact parseFieldsDefinition_good _))

theorem parseObjectLikeDefinition_goodC {n : Nat} (cfg : Cfg) (kw cls : String) :
    GoodC n (parseObjectLikeDefinition cfg n kw cls) := by
  unfold parseObjectLikeDefinition; pgood

theorem parseUnionMemberTypes_good {n : Nat} (cfg : Cfg) : Good n (parseUnionMemberTypes cfg n) := by
  unfold parseUnionMemberTypes; pgood
macro_rules | `(tactic| pgood_leaf) => `(tactic| (with_reducible exact parseUnionMemberTypes_good _))

theorem parseUnionTypeDefinition_goodC {n : Nat} (cfg : Cfg) : GoodC n (parseUnionTypeDefinition cfg n) := by
  unfold parseUnionTypeDefinition; pgood

theorem parseEnumValueName_goodC {n : Nat} (cfg : Cfg) : GoodC n (parseEnumValueName cfg) := by
  unfold parseEnumValueName; pgood
macro_rules | `(tactic| pgood_leaf) => `(tactic| (with_reducible exact parseEnumValueName_goodC _))

theorem parseEnumValueDefinition_goodC {n : Nat} (cfg : Cfg) : GoodC n (parseEnumValueDefinition cfg n) := by
  unfold parseEnumValueDefinition; pgood
macro_rules | `(tactic| pgood_leaf) => `(tactic| (with_reducible exact parseEnumValueDefinition_goodC _))

theorem parseEnumValuesDefinition_good {n : Nat} (cfg : Cfg) : Good n (parseEnumValuesDefinition cfg n) := by
  unfold parseEnumValuesDefinition; pgood
macro_rules | `(tactic| pgood_leaf) => `(tactic| (with_reducible exact parseEnumValuesDefinition_good _))

theorem parseEnumTypeDefinition_goodC {n : Nat} (cfg : Cfg) : GoodC n (parseEnumTypeDefinition cfg n) := by
  unfold parseEnumTypeDefinition; pgood

theorem parseInputFieldsDefinition_good {n : Nat} (cfg : Cfg) : Good n (parseInputFieldsDefinition cfg n) := by
  unfold parseInputFieldsDefinition; pgood
macro_rules | `(tactic| pgood_leaf) => `(tactic| (with_reducible exact parseInputFieldsDefinition_good _))

theorem parseInputObjectTypeDefinition_goodC {n : Nat} (cfg : Cfg) :
    GoodC n (parseInputObjectTypeDefinition cfg n) := by
  unfold parseInputObjectTypeDefinition; pgood

theorem parseDirectiveLocation_goodC {n : Nat} (cfg : Cfg) : GoodC n (parseDirectiveLocation cfg) := by
  unfold parseDirectiveLocation; pgood
macro_rules | `(tactic| pgood_leaf) => `(tactic| (with_reducible exact parseDirectiveLocation_goodC _))

theorem parseDirectiveDefinition_goodC {n : Nat} (cfg : Cfg) : GoodC n (parseDirectiveDefinition cfg n) := by
  unfold parseDirectiveDefinition; pgood

/-! ### type system extensions -/

theorem parseSchemaExtension_goodC {n : Nat} (cfg : Cfg) : GoodC n (parseSchemaExtension cfg n) := by
  unfold parseSchemaExtension; pgood

theorem parseScalarTypeExtension_goodC {n : Nat} (cfg : Cfg) : GoodC n (parseScalarTypeExtension cfg n) := by
  unfold parseScalarTypeExtension; pgood

theorem parseObjectLikeExtension_goodC {n : Nat} (cfg : Cfg) (kw cls : String) :
    GoodC n (parseObjectLikeExtension cfg n kw cls) := by
  unfold parseObjectLikeExtension; pgood

theorem parseUnionTypeExtension_goodC {n : Nat} (cfg : Cfg) : GoodC n (parseUnionTypeExtension cfg n) := by
  unfold parseUnionTypeExtension; pgood

theorem parseEnumTypeExtension_goodC {n : Nat} (cfg : Cfg) : GoodC n (parseEnumTypeExtension cfg n) := by
  unfold parseEnumTypeExtension; pgood

theorem parseInputObjectTypeExtension_goodC {n : Nat} (cfg : Cfg) :
    GoodC n (parseInputObjectTypeExtension cfg n) := by
  unfold parseInputObjectTypeExtension; pgood

theorem parseDirectiveDefinitionExtension_goodC {n : Nat} (cfg : Cfg) :
    GoodC n (parseDirectiveDefinitionExtension cfg n) := by
  unfold parseDirectiveDefinitionExtension; pgood
macro_rules | `(tactic| pgood_leaf) => `(tactic| (with_reducible exact parseDirectiveDefinitionExtension_goodC _))

/-! ### the `getattr` dispatch -/

theorem lookupKw_mem {tbl : List (String × String)} {v : Option (List Nat)} {m : String}
    (h : lookupKw tbl v = some m) : m ∈ tbl.map (·.2) := by
  unfold lookupKw at h
  cases v with
  | none => simp at h
  | some v =>
    simp only [Option.map_eq_some_iff] at h
    obtain ⟨p, hp, rfl⟩ := h
    exact List.mem_map.mpr ⟨p, List.mem_of_find?_eq_some hp, rfl⟩

theorem methodFor_mem {tbl : List (String × String)} {v : Option (List Nat)} {m : String}
    (h : methodFor tbl v = some m) : m ∈ tbl.map (·.2) := by
  unfold methodFor at h
  split at h
  · next m' hm' =>
    split at h
    · simp at h
    · simp only [Option.some.injEq] at h; subst h; exact lookupKw_mem hm'
  · simp at h

theorem dispatchExtension_goodC {n : Nat} (cfg : Cfg) (m : String) (hm : m ∈ knownExtensionMethods) :
    GoodC n (dispatchExtension cfg n m) := by
  simp only [knownExtensionMethods, List.mem_cons, List.not_mem_nil, or_false] at hm
  rcases hm with rfl | rfl | rfl | rfl | rfl | rfl | rfl <;>
    simp (config := { decide := true }) only [dispatchExtension, ↓reduceIte]
  · exact parseSchemaExtension_goodC cfg
  · exact parseScalarTypeExtension_goodC cfg
  · exact parseObjectLikeExtension_goodC cfg _ _
  · exact parseObjectLikeExtension_goodC cfg _ _
  · exact parseUnionTypeExtension_goodC cfg
  · exact parseEnumTypeExtension_goodC cfg
  · exact parseInputObjectTypeExtension_goodC cfg

/-- T1 obligation: every method the generated extension table names is known to the model -/
theorem extensionTable_known :
    ∀ m ∈ Generated.ParserTables.typeExtensionMethods.map (·.2), m ∈ knownExtensionMethods := by
  decide

theorem dispatchExtension_tbl {n : Nat} (cfg : Cfg) {v : Option (List Nat)} {m : String}
    (h : methodFor Generated.ParserTables.typeExtensionMethods v = some m) :
    GoodC n (dispatchExtension cfg n m) :=
  dispatchExtension_goodC cfg m (extensionTable_known m (methodFor_mem h))
macro_rules | `(tactic| pgood_leaf) => `(tactic| ((with_reducible apply dispatchExtension_tbl); assumption))

theorem parseTypeSystemExtension_goodC {n : Nat} (cfg : Cfg) : GoodC n (parseTypeSystemExtension cfg n) := by
  unfold parseTypeSystemExtension; pgood

theorem dispatchDefinition_goodC {n : Nat} (cfg : Cfg) (m : String) (hm : m ∈ knownDefinitionMethods) :
    GoodC n (dispatchDefinition cfg n m) := by
  simp only [knownDefinitionMethods, List.mem_cons, List.not_mem_nil, or_false] at hm
  rcases hm with rfl | rfl | rfl | rfl | rfl | rfl | rfl | rfl | rfl | rfl | rfl <;>
    simp (config := { decide := true }) only [dispatchDefinition, ↓reduceIte]
  · exact parseSchemaDefinition_goodC cfg
  · exact parseScalarTypeDefinition_goodC cfg
  · exact parseObjectLikeDefinition_goodC cfg _ _
  · exact parseObjectLikeDefinition_goodC cfg _ _
  · exact parseUnionTypeDefinition_goodC cfg
  · exact parseEnumTypeDefinition_goodC cfg
  · exact parseInputObjectTypeDefinition_goodC cfg
  · exact parseDirectiveDefinition_goodC cfg
  · exact parseOperationDefinition_goodC cfg
  · exact parseFragmentDefinition_goodC cfg
  · exact parseTypeSystemExtension_goodC cfg

/-- T1 obligation: every method the three generated definition tables name is known to the model -/
theorem definitionTables_known :
    ∀ m ∈ (Generated.ParserTables.typeSystemDefinitionMethods ++
            Generated.ParserTables.executableDefinitionMethods ++
            Generated.ParserTables.otherDefinitionMethods).map (·.2), m ∈ knownDefinitionMethods := by
  decide

theorem dispatchDefinition_tbl1 {n : Nat} (cfg : Cfg) {v : Option (List Nat)} {m : String}
    (h : methodFor Generated.ParserTables.typeSystemDefinitionMethods v = some m) :
    GoodC n (dispatchDefinition cfg n m) := by
  refine dispatchDefinition_goodC cfg m (definitionTables_known m ?_)
  have := methodFor_mem h
  simp only [List.map_append, List.mem_append]
  exact Or.inl (Or.inl this)

theorem dispatchDefinition_tbl2 {n : Nat} (cfg : Cfg) {v : Option (List Nat)} {m : String}
    (h : methodFor Generated.ParserTables.executableDefinitionMethods v = some m) :
    GoodC n (dispatchDefinition cfg n m) := by
  refine dispatchDefinition_goodC cfg m (definitionTables_known m ?_)
  have := methodFor_mem h
  simp only [List.map_append, List.mem_append]
  exact Or.inl (Or.inr this)

theorem dispatchDefinition_tbl3 {n : Nat} (cfg : Cfg) {v : Option (List Nat)} {m : String}
    (h : methodFor Generated.ParserTables.otherDefinitionMethods v = some m) :
    GoodC n (dispatchDefinition cfg n m) := by
  refine dispatchDefinition_goodC cfg m (definitionTables_known m ?_)
  have := methodFor_mem h
  simp only [List.map_append, List.mem_append]
  exact Or.inr this

macro_rules | `(tactic| pgood_leaf) => `(tactic| ((with_reducible apply dispatchDefinition_tbl1); assumption))
macro_rules | `(tactic| pgood_leaf) => `(tactic| ((with_reducible apply dispatchDefinition_tbl2); assumption))
macro_rules | `(tactic| pgood_leaf) => `(tactic| ((with_reducible apply dispatchDefinition_tbl3); assumption))

theorem parseDefinition_goodC {n : Nat} (cfg : Cfg) : GoodC n (parseDefinition cfg n) := by
  unfold parseDefinition; pgood

theorem parseDocument_good {n : Nat} (cfg : Cfg) : Good n (parseDocument cfg n) := by
  unfold parseDocument
  exact Good.bind (parseMany_good cfg .sof .eof (by decide) (parseDefinition_goodC cfg)) (fun _ => Good.pure _)

theorem parseSchemaCoordinateBody_good {n : Nat} (cfg : Cfg) : Good n (parseSchemaCoordinateBody cfg) := by
  unfold parseSchemaCoordinateBody; pgood

/-! ### entry points -/

theorem runEntry_good {n : Nat} (e : Entry) (cfg : Cfg) : Good n (runEntry e cfg n) := by
  have h1 := parseDocument_good (n := n) cfg
  have h2 := parseSchemaCoordinateBody_good (n := n) cfg
  cases e <;> simp only [runEntry] <;> pgood

theorem size_initState (strm : Stream) : size (initState strm) = strm.length + 1 := by
  simp [size, initState, sofToken]

/-- **Totality of the parser model.**  On a stream that holds no lexer crash and with fuel above
`Stream.length + 1` every entry point returns a node or a syntax error: no crash of any class, in
particular no exhausted fuel. -/
theorem parseStreamWith_total (e : Entry) (cfg : Cfg) (strm : Stream) (fuel : Nat)
    (hs : strm.NoCrash) (hf : strm.length + 2 ≤ fuel) :
    ¬ (parseStreamWith e cfg strm fuel).isCrash = true := by
  have h := runEntry_good (n := fuel) e cfg (initState strm) hs (by rw [size_initState]; omega)
  unfold parseStreamWith
  cases hr : runEntry e cfg fuel (initState strm) with
  | ok x => obtain ⟨a, s⟩ := x; simp [Out.isCrash]
  | err x => simp [Out.isCrash]
  | crash c => rw [hr] at h; exact absurd h (by simp)

end Gql.Syntax
