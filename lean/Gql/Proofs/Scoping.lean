import Gql.Proofs.CoerceLiteralMain
/-
The variable scoping rule of experimental fragment arguments (C15): what `scopeVars` looks up.
-/
namespace Gql.Values
open Gql

theorem dictGet_append (a b : List (List Nat × PyVal)) (k : List Nat) :
    PyVal.dictGet (a ++ b) k = (match PyVal.dictGet a k with
      | some v => some v
      | none => PyVal.dictGet b k) := by
  induction a with
  | nil => simp [PyVal.dictGet]
  | cons hd tl ih =>
    obtain ⟨k0, v0⟩ := hd
    simp only [List.cons_append, PyVal.dictGet]
    by_cases h : k0 = k
    · simp [h]
    · simp [h, ih]

theorem dictGet_map_keys (ks : List (List Nat)) (g : List Nat → PyVal) (x : List Nat) :
    PyVal.dictGet (ks.map fun k => (k, g k)) x = if x ∈ ks then some (g x) else none := by
  induction ks with
  | nil => simp [PyVal.dictGet]
  | cons k tl ih =>
    simp only [List.map_cons, PyVal.dictGet, List.mem_cons]
    by_cases h : k = x
    · subst h; simp
    · have h' : ¬ x = k := fun hc => h hc.symm
      simp [h, h', ih]

theorem dictGet_filter_not (l : List (List Nat × PyVal)) (S : List (List Nat)) (x : List Nat) (hx : x ∉ S) :
    PyVal.dictGet (l.filter fun kv => !S.contains kv.1) x = PyVal.dictGet l x := by
  induction l with
  | nil => rfl
  | cons hd tl ih =>
    obtain ⟨k0, v0⟩ := hd
    simp only [List.filter_cons]
    by_cases hc : k0 ∈ S
    · have h1 : (!S.contains k0) = false := by simp [hc]
      have hk : k0 ≠ x := fun h => hx (h ▸ hc)
      simp only [h1, Bool.false_eq_true, ↓reduceIte]
      have h2 : PyVal.dictGet ((k0, v0) :: tl) x = PyVal.dictGet tl x := by
        simp only [PyVal.dictGet, hk, ↓reduceIte]
      rw [h2]; exact ih
    · have h1 : (!S.contains k0) = true := by simp [hc]
      simp only [h1, ↓reduceIte]
      by_cases hk : k0 = x
      · simp only [PyVal.dictGet, hk, ↓reduceIte]
      · simp only [PyVal.dictGet, hk, ↓reduceIte]; exact ih

/-- The scoping rule: inside a fragment, a name the fragment declares is looked up in the
fragment's coerced values only — it shadows an operation variable of the same name even when the
fragment variable has no value; every other name is an operation variable. -/
theorem varGet_scopeVars (vars : Option VarValues) (fv : FragVarValues) (x : List Nat) :
    varGet (scopeVars vars (some fv)) x = if x ∈ fv.sources then fragLookup fv x else varGet vars x := by
  unfold scopeVars varGet
  simp only
  rw [dictGet_append, dictGet_map_keys fv.sources (fragLookup fv) x]
  by_cases hx : x ∈ fv.sources
  · simp [hx]
  · simp only [hx, ↓reduceIte]
    cases vars with
    | none => simp [PyVal.dictGet]
    | some vv => simp only; rw [dictGet_filter_not vv.coerced fv.sources x hx]

theorem scopeVars_none (vars : Option VarValues) : scopeVars vars none = vars := rfl

/-- validation is static exactly when neither map is given -/
theorem scopeVars_isNone (vars : Option VarValues) (fvars : Option FragVarValues) :
    (scopeVars vars fvars).isNone = (vars.isNone && fvars.isNone) := by
  cases fvars <;> cases vars <;> rfl

end Gql.Values
