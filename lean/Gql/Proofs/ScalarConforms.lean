import Gql.Proofs.Values
/-
Leaf clause of "a coerced result conforms to the type" (C15), shared by Props and lemmas.
-/
namespace Gql.Values
open Gql Gql.Generated.ScalarConsts

/-- the leaf part of "conforms": 32-bit Int, finite Float, text, boolean -/
def ScalarConforms : Scalar → PyVal → Prop
  | .int, r => ∃ n : Int, r = .int n ∧ -(2 ^ 31) ≤ n ∧ n ≤ 2 ^ 31 - 1
  | .float, r => ∃ neg m e, r = .float (.fin neg m e)
  | .string, r => ∃ s, r = .str s
  | .boolean, r => ∃ b, r = .bool b
  | .id, r => ∃ s, r = .str s

/-- C15-2 (leaf clause, values): whatever Python value is supplied, a built-in scalar's input
coercion yields a 32-bit Int / a finite Float (a `float`, also for an `int` input) / text / a
bool — or rejects. -/
theorem scalar_value_conforms' (c : PyConv) (s : Scalar) (v r : PyVal)
    (h : s.coerceValue c v = .ok r) : ScalarConforms s r := by
  cases s <;> simp only [Scalar.coerceValue] at h <;> simp only [ScalarConforms]
  · cases v <;> simp only [coerceInt, coerceIntFromInt, coerceIntFromFloat] at h
    all_goals try (simp at h; done)
    all_goals repeat' split at h
    all_goals try (simp at h; done)
    all_goals (rename_i hr; simp only [Out.ok.injEq] at h; subst h; exact ⟨_, rfl, not_inIntRange (by simpa using hr)⟩)
  · cases v <;> simp only [coerceFloat, coerceFloatFromFloat, coerceFloatFromInt] at h
    all_goals try (simp at h; done)
    · split at h
      · simp at h
      · rename_i num _
        cases num <;> simp only [PyFloat.toIntPy] at h
        all_goals try (simp at h; done)
        split at h
        · simp at h
        · simp only [Out.ok.injEq] at h; subst h; exact ⟨_, _, _, rfl⟩
    · rename_i f
      split at h
      · simp at h
      · simp only [Out.ok.injEq] at h; subst h
        cases f <;> simp_all [PyFloat.isFinite]
  · cases v <;> simp only [coerceString] at h
    all_goals try (simp at h; done)
    simp only [Out.ok.injEq] at h; subst h; exact ⟨_, rfl⟩
  · cases v <;> simp only [coerceBoolean] at h
    all_goals try (simp at h; done)
    simp only [Out.ok.injEq] at h; subst h; exact ⟨_, rfl⟩
  · cases v <;> simp only [coerceID, coerceIdFromFloat, strOfIntPy] at h
    all_goals try (simp at h; done)
    all_goals repeat' split at h
    all_goals try (simp at h; done)
    all_goals (simp only [Out.ok.injEq] at h; subst h; exact ⟨_, rfl⟩)

/-- C15-2 (leaf clause, literals): the same for literals. For Float this is the theorem that did
**not** hold on the code as found: `parse_float_literal` returned `float('1e1000') = inf`
(witness below); it holds for the repaired code (repo_patches/float_literal_finite.diff). -/
theorem scalar_literal_conforms' (c : PyConv) (s : Scalar) (l : Lit) (r : PyVal)
    (h : s.coerceLiteral c l = .ok r) : ScalarConforms s r := by
  cases s <;> simp only [Scalar.coerceLiteral] at h <;> simp only [ScalarConforms]
  · cases l <;> simp only [parseIntLiteral] at h
    all_goals try (simp at h; done)
    repeat' split at h
    all_goals try (simp at h; done)
    rename_i hr; simp only [Out.ok.injEq] at h; subst h; exact ⟨_, rfl, not_inIntRange (by simpa using hr)⟩
  · cases l <;> simp only [parseFloatLiteral] at h
    all_goals try (simp at h; done)
    all_goals repeat' split at h
    all_goals try (simp at h; done)
    all_goals (rename_i f _ hf; simp only [Out.ok.injEq] at h; subst h; cases f <;> simp_all [PyFloat.isFinite])
  · cases l <;> simp only [parseStringLiteral] at h
    all_goals try (simp at h; done)
    simp only [Out.ok.injEq] at h; subst h; exact ⟨_, rfl⟩
  · cases l <;> simp only [parseBooleanLiteral] at h
    all_goals try (simp at h; done)
    simp only [Out.ok.injEq] at h; subst h; exact ⟨_, rfl⟩
  · cases l <;> simp only [parseIDLiteral] at h
    all_goals try (simp at h; done)
    all_goals (simp only [Out.ok.injEq] at h; subst h; exact ⟨_, rfl⟩)


theorem scalarConforms_ne_none {s : Scalar} {r : PyVal} (h : ScalarConforms s r) :
    r ≠ .none ∧ r ≠ .undefined := by
  cases s <;> simp only [ScalarConforms] at h
  · obtain ⟨n, rfl, _⟩ := h; simp
  · obtain ⟨_, _, _, rfl⟩ := h; simp
  · obtain ⟨_, rfl⟩ := h; simp
  · obtain ⟨_, rfl⟩ := h; simp
  · obtain ⟨_, rfl⟩ := h; simp

end Gql.Values
