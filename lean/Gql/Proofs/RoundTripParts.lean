import Gql.Proofs.RoundTripBasics
import Gql.Proofs.Conforms
/-
Building blocks of the literal round trip through lists and input objects (C15).
-/
namespace Gql.Values
open Gql

theorem attach_map_pat {α β : Type} (xs : List α) (f : α → β) :
    (xs.attach.map fun ⟨x, _⟩ => f x) = xs.map f := by
  have : (fun (i : {y // y ∈ xs}) => match i with | ⟨x, _⟩ => f x) = fun i => f i.val := by
    funext ⟨x, h⟩; rfl
  rw [this]
  exact List.attach_map_val (f := f)

theorem seqItems_cons_inv {r : R} {rs : List R} {cs : List PyVal} (h : seqItems (r :: rs) = .ok (some cs)) :
    ∃ cv cs', r = .ok cv ∧ cv ≠ .undefined ∧ seqItems rs = .ok (some cs') ∧ cs = cv :: cs' := by
  unfold seqItems at h
  split at h
  · simp at h
  · rename_i cv hne
    split at h
    · rename_i cs' hcs'
      simp only [Out.ok.injEq, Option.some.injEq] at h
      exact ⟨cv, cs', rfl, fun hc => hne (by rw [hc]), hcs', h.symm⟩
    · rename_i hno
      cases hs : seqItems rs with
      | ok o =>
        cases o with
        | none => rw [hs] at h; simp at h
        | some cs' => exact absurd hs (hno cs')
      | err e => rw [hs] at h; simp at h
      | crash k => rw [hs] at h; simp at h
  · simp at h
  · simp at h

theorem listItemLiteral_ok (vars : Option VarValues) (it : Lit) (nn : Bool) {cv : PyVal} (h : cv ≠ .undefined) :
    listItemLiteral vars it nn (.ok cv) = .ok cv := by
  cases cv <;> simp_all [listItemLiteral]

/-- the list case, abstractly: `f` = coerce an item value, `g` = its literal, `h` = coerce that literal -/
theorem list_roundtrip {xs : List PyVal} {cs : List PyVal} (f : PyVal → R) (g : PyVal → Option Lit) (h : Lit → R)
    (nn : Bool) (hcs : seqItems (xs.map f) = .ok (some cs))
    (hstep : ∀ x ∈ xs, ∀ cv, f x = .ok cv → cv ≠ .undefined → ∃ l, g x = some l ∧ h l = .ok cv) :
    ∃ ls, seqLits (xs.map g) = some ls ∧
      seqItems (ls.map fun l => listItemLiteral none l nn (h l)) = .ok (some cs) := by
  induction xs generalizing cs with
  | nil =>
    simp only [List.map_nil, seqItems, Out.ok.injEq, Option.some.injEq] at hcs
    subst hcs
    exact ⟨[], rfl, rfl⟩
  | cons x xs ih =>
    simp only [List.map_cons] at hcs
    obtain ⟨cv, cs', hfx, hcu, hrest, rfl⟩ := seqItems_cons_inv hcs
    obtain ⟨l, hgl, hhl⟩ := hstep x (by simp) cv hfx hcu
    obtain ⟨ls, hls, hitems⟩ := ih hrest (fun y hy => hstep y (by simp [hy]))
    refine ⟨l :: ls, by simp [seqLits, hgl, hls], ?_⟩
    simp only [List.map_cons, hhl, listItemLiteral_ok none l nn hcu]
    exact seqItems_cons_some hcu hitems

theorem filterMap_congr' {α β : Type} {l : List α} {φ ψ : α → Option β} (h : ∀ a ∈ l, φ a = ψ a) :
    l.filterMap φ = l.filterMap ψ := by
  induction l with
  | nil => rfl
  | cons a as ih =>
    simp only [List.filterMap_cons, h a (by simp)]
    rw [ih (fun b hb => h b (by simp [hb]))]

theorem filterMap_length_congr {α β γ : Type} {l : List α} (φ : α → Option β) (ψ : α → Option γ)
    (h : ∀ a ∈ l, (φ a).isSome = (ψ a).isSome) : (l.filterMap φ).length = (l.filterMap ψ).length := by
  induction l with
  | nil => rfl
  | cons a as ih =>
    have ha := h a (by simp)
    have ih' := ih (fun b hb => h b (by simp [hb]))
    simp only [List.filterMap_cons]
    cases hφ : φ a <;> cases hψ : ψ a <;> simp_all

theorem filterMap_keys_sublist' {β : Type} {fields : List Field} (φ : Field → Option (List Nat × β))
    (hφ : ∀ f k b, φ f = some (k, b) → k = f.name) :
    ((fields.filterMap φ).map (·.1)).Sublist (fields.map (·.name)) := by
  induction fields with
  | nil => simp
  | cons hd tl ih =>
    simp only [List.filterMap_cons, List.map_cons]
    cases h : φ hd with
    | none => exact List.Sublist.cons _ ih
    | some kv =>
      obtain ⟨k, b⟩ := kv
      have := hφ hd k b h
      subst this
      simp only [List.map_cons]
      exact List.Sublist.cons_cons _ ih

/-- looking a declared field up in the literal fields built from the declared fields -/
theorem litGetLast_filterMap {fields : List Field} (hnd : (fields.map (·.name)).Nodup) (φ : Field → Option Lit)
    {f : Field} (hf : f ∈ fields) :
    litGetLast (fields.filterMap fun f' => (φ f').map fun node => (f'.name, node)) f.name = φ f := by
  have hkeys : ((fields.filterMap fun f' => (φ f').map fun node => (f'.name, node)).map (·.1)).Nodup := by
    apply List.Nodup.sublist _ hnd
    apply filterMap_keys_sublist'
    intro f' k b h
    cases hφ : φ f' with
    | none => rw [hφ] at h; simp at h
    | some node => rw [hφ] at h; simp only [Option.map_some, Option.some.injEq, Prod.mk.injEq] at h; exact h.1.symm
  cases hφf : φ f with
  | some node =>
    apply litGetLast_of_mem_nodup hkeys
    exact List.mem_filterMap.2 ⟨f, hf, by simp [hφf]⟩
  | none =>
    apply litGetLast_none
    intro v hv
    obtain ⟨f', hf', h⟩ := List.mem_filterMap.1 hv
    cases hφ' : φ f' with
    | none => rw [hφ'] at h; simp at h
    | some node =>
      rw [hφ'] at h
      simp only [Option.map_some, Option.some.injEq, Prod.mk.injEq] at h
      have : f' = f := nodup_name_eq hnd hf' hf h.1
      subst this
      rw [hφf] at hφ'; cases hφ'

end Gql.Values
