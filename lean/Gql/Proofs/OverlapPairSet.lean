import Gql.Exec.Overlap
import Gql.Exec.SpecMerge
/-! Lemmas for C14: the two pair sets (`PairSet`, `OrderedPairSet`) and why a hit is harmless. -/
namespace Gql.Exec
open Overlap

/-- `has(…, flag)` answers `True` exactly when an entry exists whose flag is *not stronger* than
the queried one: an entry made under `False` (not mutually exclusive) answers both queries, an
entry made under `True` answers only `True` queries. -/
theorem flagHas_iff (stored : Option Bool) (q : Bool) :
    flagHas stored q = true ↔ ∃ r, stored = some r ∧ (r = true → q = true) := by
  cases stored with
  | none => simp [flagHas]
  | some r => cases r <;> cases q <;> simp [flagHas]

theorem pairKey_comm (a b : String) : pairKey a b = pairKey b a := by
  unfold pairKey
  by_cases h1 : a < b
  · have h2 : ¬ b < a := String.lt_asymm h1
    simp [h1, h2]
  · by_cases h2 : b < a
    · simp [h1, h2]
    · have : a = b := String.le_antisymm h2 h1
      simp [this]

theorem assocGet_assocSet_same {κ β : Type} [BEq κ] [LawfulBEq κ] (m : List (κ × β)) (k : κ)
    (v : β) : assocGet (assocSet m k v) k = some v := by
  induction m with
  | nil => simp [assocSet, assocGet]
  | cons e es ih =>
    simp only [assocSet]
    by_cases h : (e.1 == k) = true
    · simp [h, assocGet]
    · have h' : (e.1 == k) = false := by simpa using h
      simp only [assocGet] at ih
      simp [h', assocGet, List.find?, ih]

theorem assocGet_assocSet_other {κ β : Type} [BEq κ] [LawfulBEq κ] (m : List (κ × β)) (k k' : κ)
    (v : β) (hne : k ≠ k') : assocGet (assocSet m k v) k' = assocGet m k' := by
  induction m with
  | nil =>
    have : (k == k') = false := by simpa using hne
    simp [assocSet, assocGet, List.find?, this]
  | cons e es ih =>
    simp only [assocSet]
    by_cases h : (e.1 == k) = true
    · have hek : e.1 = k := by simpa using h
      have h1 : (k == k') = false := by simpa using hne
      have h2 : (e.1 == k') = false := by rw [hek]; exact h1
      simp [h, assocGet, List.find?, h1, h2]
    · have h' : (e.1 == k) = false := by simpa using h
      simp only [assocGet] at ih
      by_cases h3 : (e.1 == k') = true
      · simp [h', assocGet, List.find?, h3]
      · have h3' : (e.1 == k') = false := by simpa using h3
        simp [h', assocGet, List.find?, h3', ih]

/-- `PairSet.has(a, b, x) == PairSet.has(b, a, x)` -/
theorem cmpHas_comm (σ : St) (a b : String) (q : Bool) : σ.cmpHas a b q = σ.cmpHas b a q := by
  simp [St.cmpHas, pairKey_comm a b]

/-- After `add(a, b, r)`, `has(a, b, q)` (in either order) holds iff `r → q`. -/
theorem cmpHas_cmpAdd (σ : St) (a b : String) (r q : Bool) :
    (σ.cmpAdd a b r).cmpHas a b q = true ↔ (r = true → q = true) := by
  simp [St.cmpHas, St.cmpAdd, assocGet_assocSet_same, flagHas_iff]

theorem cfpHas_cfpAdd (σ : St) (a : Nat) (b : String) (r q : Bool) :
    (σ.cfpAdd a b r).cfpHas a b q = true ↔ (r = true → q = true) := by
  simp [St.cfpHas, St.cfpAdd, assocGet_assocSet_same, flagHas_iff]

/-- The comparison is only ever skipped (`has` = true) under a flag at least as weak as a stored
one, and the entry is only ever overwritten by a *stronger* comparison (`True → False`):
if `has(q)` fails although an entry `r` exists, then `r = True` and `q = False`. -/
theorem flagHas_false_of_some {r q : Bool} (h : flagHas (some r) q = false) :
    r = true ∧ q = false := by
  cases r <;> cases q <;> simp [flagHas] at h ⊢

namespace Spec

/-- `t` asks for at least what `s` asks for: same pair, and full merging if `s` does. -/
def Covers (t s : State) : Prop := t.a = s.a ∧ t.b = s.b ∧ (s.full = true → t.full = true)

theorem direct_covers {sc : Schema} {s t : State} (h : Covers t s) (hd : direct sc s = true) :
    direct sc t = true := by
  obtain ⟨ha, hb, hf⟩ := h
  cases s with
  | mk sa sb sfull =>
    cases t with
    | mk ta tb tfull =>
      simp only at ha hb hf
      subst ha hb
      cases sfull
      · cases tfull
        · exact hd
        · simp only [direct, typesOf, Bool.false_and, Bool.or_false, Bool.true_and] at hd ⊢
          simp only [Bool.or_eq_true] at hd ⊢
          exact Or.inl hd
      · have := hf rfl
        subst this
        exact hd

theorem step_covers {sc : Schema} {d : Doc} {s t s' : State} (h : Covers t s)
    (hs : Step sc d s s') : ∃ t', Step sc d t t' ∧ Covers t' s' := by
  obtain ⟨ha, hb, hf⟩ := h
  cases s with
  | mk sa sb sfull =>
    cases t with
    | mk ta tb tfull =>
      simp only at ha hb hf
      subst ha hb
      cases sfull
      · cases tfull
        · exact ⟨s', hs, rfl, rfl, fun h => h⟩
        · -- s is shape-only, t is full
          simp only [Step, succs] at hs
          by_cases hc : (!deeper sc ⟨ta, tb, false⟩ && leafStop sc ⟨ta, tb, false⟩) = true
          · rw [if_pos hc] at hs; cases hs
          · rw [if_neg hc] at hs
            obtain ⟨p, hp, rfl⟩ := List.mem_map.1 hs
            refine ⟨⟨p.1, p.2, deeper sc ⟨ta, tb, true⟩⟩, ?_, rfl, rfl, by simp [deeper]⟩
            simp only [Step, succs]
            have hc' : ¬ (!deeper sc ⟨ta, tb, true⟩ && leafStop sc ⟨ta, tb, true⟩) = true := by
              intro h2
              apply hc
              simp only [deeper, leafStop, typesOf, Bool.false_and, Bool.not_false, Bool.true_and,
                Bool.and_eq_true] at h2 ⊢
              exact h2.2
            rw [if_neg hc']
            exact List.mem_map.2 ⟨p, hp, rfl⟩
      · have := hf rfl
        subst this
        exact ⟨s', hs, rfl, rfl, fun h => h⟩

/-- Everything a shape-only / exclusive comparison of a pair can find, the non-exclusive
comparison of the same pair finds too.  This is what makes it sound that a pair-set entry made
with `are_mutually_exclusive = False` also answers a query with `True`. -/
theorem reach_covers {sc : Schema} {d : Doc} {s s' : State} (hr : Reach sc d s s') :
    ∀ {t : State}, Covers t s → direct sc s' = true →
      ∃ t', Reach sc d t t' ∧ direct sc t' = true := by
  induction hr with
  | refl st => exact fun {t} hc hd => ⟨t, Reach.refl t, direct_covers hc hd⟩
  | step hst _ ih =>
    intro t hc hd
    obtain ⟨t1, ht1, hc1⟩ := step_covers hc hst
    obtain ⟨t', hr', hd'⟩ := ih hc1 hd
    exact ⟨t', Reach.step ht1 hr', hd'⟩

end Spec
end Gql.Exec
