import Gql.Proofs.WorkQueue
import Gql.Proofs.Publisher
/-!
The whole pipeline (`Sys`): clause P7 for every history, and the publisher invariants carried
through `Sys.start` / `Sys.tick` / `Sys.run`.
-/
namespace Gql.Async
open Gql.Spec.Protocol

theorem handleEvent_hasNext (π : PubStatic) (p : Pub) (c : PCtx) (e : WQEvent) :
    (handleEvent π p c e).2.hasNext = (c.hasNext && !e.isTerm) := by
  cases e <;> simp [handleEvent, WQEvent.isTerm]
  all_goals (split <;> simp)

theorem handleBatch_fold_hasNext (π : PubStatic) (evs : List WQEvent) (p : Pub) (c : PCtx) :
    (evs.foldl (fun (acc : Pub × PCtx) e => handleEvent π acc.1 acc.2 e) (p, c)).2.hasNext =
      (c.hasNext && !evs.any WQEvent.isTerm) := by
  induction evs generalizing p c with
  | nil => simp
  | cons e evs ih =>
    simp only [List.foldl_cons, List.any_cons]
    rw [ih, handleEvent_hasNext]
    cases c.hasNext <;> cases e.isTerm <;> simp

theorem handleBatch_hasNext (π : PubStatic) (p : Pub) (evs : List WQEvent) :
    (handleBatch π p evs).2.hasNext = !evs.any WQEvent.isTerm := by
  unfold handleBatch
  simp only
  rw [handleBatch_fold_hasNext]
  rfl

theorem noTerm_any {evs : List WQEvent} (h : NoTerm evs) : evs.any WQEvent.isTerm = false := by
  simp only [List.any_eq_false]
  intro e he
  simp [h e he]

theorem publish_hasNext (π : PubStatic) (bs : List (List WQEvent)) (p : Pub) :
    (publish π p bs).2.map (·.hasNext) = bs.map (fun b => !b.any WQEvent.isTerm) := by
  induction bs generalizing p with
  | nil => simp [publish]
  | cons b bs ih =>
    simp only [publish, List.map_cons]
    rw [ih, handleBatch_hasNext]

theorem publish_append (π : PubStatic) (a b : List (List WQEvent)) (p : Pub) :
    (publish π p (a ++ b)).2 = (publish π p a).2 ++ (publish π (publish π p a).1 b).2 := by
  induction a generalizing p with
  | nil => simp [publish]
  | cons x a ih => simp [publish, ih]

theorem publish_allNext (π : PubStatic) (bs : List (List WQEvent)) (p : Pub) (h : AllNoTerm bs) :
    ∀ pl ∈ (publish π p bs).2, pl.hasNext = true := by
  intro pl hpl
  have hm := publish_hasNext π bs p
  have : pl.hasNext ∈ (publish π p bs).2.map (·.hasNext) := List.mem_map_of_mem hpl
  rw [hm] at this
  obtain ⟨b, hb, e⟩ := List.mem_map.mp this
  rw [noTerm_any (h b hb)] at e
  simpa using e.symm

/-- Every payload so far has `hasNext = true`, or the queue is stopped and exactly the last
payload has `hasNext = false`. -/
def OutShape (stopped : Bool) (out : List Payload) : Prop :=
  (∀ p ∈ out, p.hasNext = true) ∨
  (stopped = true ∧ ∃ pre last, out = pre ++ [last] ∧ (∀ p ∈ pre, p.hasNext = true) ∧
    last.hasNext = false)

theorem outShape_extend (π : PubStatic) (p : Pub) (stopped0 stopped1 : Bool) (out : List Payload)
    (new : List (List WQEvent)) (h0 : OutShape stopped0 out)
    (hshape : SettleShape stopped1 new)
    (hstop : stopped0 = true → new = [] ∧ stopped1 = true) :
    OutShape stopped1 (out ++ (publish π p new).2) := by
  rcases h0 with h0 | ⟨hs, pre, last, e1, e2, e3⟩
  · rcases hshape with hn | ⟨hst, pre', last', lp, e1, e2, e3, e4⟩
    · left
      intro pl hpl
      rcases List.mem_append.mp hpl with h | h
      · exact h0 pl h
      · exact publish_allNext π new p hn pl h
    · right
      refine ⟨hst, out ++ (publish π p pre').2, (handleBatch π (publish π p pre').1 last').2, ?_, ?_, ?_⟩
      · rw [e1, publish_append]; simp [publish]
      · intro pl hpl
        rcases List.mem_append.mp hpl with h | h
        · exact h0 pl h
        · exact publish_allNext π pre' p e2 pl h
      · rw [handleBatch_hasNext, e3]; simp [WQEvent.isTerm]
  · obtain ⟨hnew, hst⟩ := hstop hs
    subst hnew
    right
    exact ⟨hst, pre, last, by simp [publish, e1], e2, e3⟩

theorem start_outShape (σ : Static) (π : PubStatic) (fuel : Nat) (work : Option Work) :
    OutShape (Sys.start σ π fuel work).1.wq.stopped (Sys.start σ π fuel work).1.out := by
  unfold Sys.start
  simp only
  obtain ⟨new, h1, h2, _⟩ := settle_spec σ fuel fuel (startRoots σ (init σ work).1) []
  simp only [List.nil_append] at h1
  rw [h1]
  have h0 : OutShape false [(initialPayload π (init σ work).2.1 (init σ work).2.2).2] := by
    left; intro p hp; simp at hp; subst hp; rfl
  have := outShape_extend π (initialPayload π (init σ work).2.1 (init σ work).2.2).1 false _ _ new h0 h2
    (fun h => by simp at h)
  simpa using this

theorem tick_outShape (σ : Static) (π : PubStatic) (fuel : Nat) (s : Sys) (t : Tick)
    (h : OutShape s.wq.stopped s.out) :
    OutShape (Sys.tick σ π fuel s t).1.wq.stopped (Sys.tick σ π fuel s t).1.out := by
  unfold Sys.tick
  simp only
  obtain ⟨new, h1, h2, h3⟩ := settle_spec σ fuel fuel (t.foldl push s.wq) []
  simp only [List.nil_append] at h1
  rw [h1]
  rw [foldl_push_stopped] at h3
  exact outShape_extend π s.pub _ _ s.out new h h2 h3

theorem run_outShape (σ : Static) (π : PubStatic) (fuel : Nat) (h : List Tick) (s : Sys)
    (hs : OutShape s.wq.stopped s.out) :
    OutShape (Sys.run σ π fuel s h).wq.stopped (Sys.run σ π fuel s h).out := by
  induction h generalizing s with
  | nil => exact hs
  | cons t r ih => exact ih _ (tick_outShape σ π fuel s t hs)

theorem outShape_hasNextOk (st : Bool) (out : List Payload) (h : OutShape st out) : HasNextOk out := by
  have key : ∀ (pre : List Payload) (last : Payload), (∀ p ∈ pre, p.hasNext = true) →
      HasNextOk (pre ++ [last]) := by
    intro pre last hp
    induction pre with
    | nil => simp [HasNextOk]
    | cons a pre ih =>
      have ih' := ih (fun p hp' => hp p (List.mem_cons_of_mem _ hp'))
      cases hpre : pre ++ [last] with
      | nil => simp at hpre
      | cons b r =>
        rw [List.cons_append, hpre]
        exact ⟨hp a (by simp), hpre ▸ ih'⟩
  rcases h with h | ⟨_, pre, last, e1, e2, _⟩
  · cases hl : out.reverse with
    | nil => simp at hl; subst hl; simp [HasNextOk]
    | cons last rpre =>
      have : out = rpre.reverse ++ [last] := by
        have := congrArg List.reverse hl; simpa using this
      rw [this]
      apply key
      intro p hp
      exact h p (by rw [this]; simp [List.mem_reverse.mp hp] )
  · rw [e1]; exact key pre last e2

/-! ### the id table along a run -/

theorem publish_inv (π : PubStatic) (bs : List (List WQEvent)) (p : Pub) (R : List Nat)
    (hp : PubInv p) (hr : Ret p R) (hn : R.Nodup) :
    PubInv (publish π p bs).1 ∧ Ret (publish π p bs).1 (R ++ completedIds (publish π p bs).2) ∧
    (R ++ completedIds (publish π p bs).2).Nodup := by
  induction bs generalizing p R with
  | nil => simpa [publish, completedIds] using ⟨hp, hr, hn⟩
  | cons b bs ih =>
    obtain ⟨h1, h2, h3, _, _⟩ := handleBatch_spec π p R b hp hr hn
    obtain ⟨i1, i2, i3⟩ := ih (handleBatch π p b).1 _ h1 h2 h3
    simp only [publish]
    refine ⟨i1, ?_, ?_⟩
    · simpa [completedIds, List.append_assoc] using i2
    · simpa [completedIds, List.append_assoc] using i3

theorem noReuse_append (R : List Nat) (a b : List Payload) :
    NoReuse R (a ++ b) ↔ NoReuse R a ∧ NoReuse (R ++ completedIds a) b := by
  induction a generalizing R with
  | nil => simp [NoReuse, completedIds]
  | cons p a ih =>
    simp only [List.cons_append, NoReuse, ih, completedIds, List.flatMap_cons, List.append_assoc]
    constructor
    · rintro ⟨h1, h2, h3⟩; exact ⟨⟨h1, h2⟩, h3⟩
    · rintro ⟨⟨h1, h2⟩, h3⟩; exact ⟨h1, h2, h3⟩

theorem publish_noReuse (π : PubStatic) (bs : List (List WQEvent)) (p : Pub) (R : List Nat)
    (hp : PubInv p) (hr : Ret p R) (hn : R.Nodup) : NoReuse R (publish π p bs).2 := by
  induction bs generalizing p R with
  | nil => simp [publish, NoReuse]
  | cons b bs ih =>
    obtain ⟨h1, h2, h3, h4, _⟩ := handleBatch_spec π p R b hp hr hn
    simp only [publish, NoReuse]
    exact ⟨h4, ih _ _ h1 h2 h3⟩

theorem noLateData_append (R : List Nat) (a b : List Payload) :
    NoLateData R (a ++ b) ↔ NoLateData R a ∧ NoLateData (R ++ completedIds a) b := by
  induction a generalizing R with
  | nil => simp [NoLateData, completedIds]
  | cons p a ih =>
    simp only [List.cons_append, NoLateData, ih, completedIds, List.flatMap_cons, List.append_assoc]
    constructor
    · rintro ⟨h1, h2, h3⟩; exact ⟨⟨h1, h2⟩, h3⟩
    · rintro ⟨⟨h1, h2⟩, h3⟩; exact ⟨h1, h2, h3⟩

theorem publish_noLateData (π : PubStatic) (bs : List (List WQEvent)) (p : Pub) (R : List Nat)
    (hp : PubInv p) (hr : Ret p R) (hn : R.Nodup) : NoLateData R (publish π p bs).2 := by
  induction bs generalizing p R with
  | nil => simp [publish, NoLateData]
  | cons b bs ih =>
    obtain ⟨h1, h2, h3, _, h5⟩ := handleBatch_spec π p R b hp hr hn
    simp only [publish, NoLateData]
    exact ⟨h5, ih _ _ h1 h2 h3⟩

/-- The id bookkeeping invariant of the whole system. -/
structure IdsInv (s : Sys) : Prop where
  inv : PubInv s.pub
  ret : Ret s.pub (completedIds s.out)
  nodup : (completedIds s.out).Nodup
  noReuse : NoReuse [] s.out
  noLate : NoLateData [] s.out

theorem idsInv_extend (π : PubStatic) (s : Sys) (q : WQ) (bs : List (List WQEvent)) (h : IdsInv s) :
    IdsInv { wq := q, pub := (publish π s.pub bs).1, out := s.out ++ (publish π s.pub bs).2 } := by
  obtain ⟨i1, i2, i3⟩ := publish_inv π bs s.pub _ h.inv h.ret h.nodup
  have hc : completedIds (s.out ++ (publish π s.pub bs).2) =
      completedIds s.out ++ completedIds (publish π s.pub bs).2 := by simp [completedIds]
  refine ⟨i1, by simpa [hc] using i2, by simpa [hc] using i3, ?_, ?_⟩
  · rw [noReuse_append]
    exact ⟨h.noReuse, by simpa using publish_noReuse π bs s.pub _ h.inv h.ret h.nodup⟩
  · rw [noLateData_append]
    exact ⟨h.noLate, by simpa using publish_noLateData π bs s.pub _ h.inv h.ret h.nodup⟩

theorem start_idsInv (σ : Static) (π : PubStatic) (fuel : Nat) (work : Option Work) :
    IdsInv (Sys.start σ π fuel work).1 := by
  unfold Sys.start
  simp only
  have hp0 := (toPending_spec π {} (init σ work).2.1 (init σ work).2.2 pubInv_empty).1
  let s0 : Sys := ⟨(settle σ fuel fuel (startRoots σ (init σ work).1) []).1,
      (initialPayload π (init σ work).2.1 (init σ work).2.2).1,
      [(initialPayload π (init σ work).2.1 (init σ work).2.2).2]⟩
  have h0 : IdsInv s0 := by
    refine ⟨hp0, ?_, ?_, ?_, ?_⟩
    · intro r hr; simp [s0, completedIds, initialPayload] at hr
    · simp [s0, completedIds, initialPayload]
    · simp [s0, NoReuse]
    · simp [s0, NoLateData, initialPayload]
  exact idsInv_extend π s0 _ _ h0

theorem tick_idsInv (σ : Static) (π : PubStatic) (fuel : Nat) (s : Sys) (t : Tick) (h : IdsInv s) :
    IdsInv (Sys.tick σ π fuel s t).1 := by
  unfold Sys.tick
  exact idsInv_extend π s _ _ h

theorem run_idsInv (σ : Static) (π : PubStatic) (fuel : Nat) (h : List Tick) (s : Sys)
    (hs : IdsInv s) : IdsInv (Sys.run σ π fuel s h) := by
  induction h generalizing s with
  | nil => exact hs
  | cons t r ih => exact ih _ (tick_idsInv σ π fuel s t hs)

end Gql.Async
