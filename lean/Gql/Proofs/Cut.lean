import Gql.Async.Cut
import Gql.Proofs.Assemble
import Gql.Proofs.Order
/-!
`assemble_eq_reference`: folding the pieces of a well-formed cut into its initial data, in the
canonical parent-before-child order, gives exactly the reference — and therefore no `apply` on the
way overwrites a key or misses its target.
-/
namespace Gql.Async

/-! ### association-list facts -/

theorem lookup_none_of_not_mem {k : List Nat} {kvs : List (List Nat × J)}
    (h : k ∉ kvs.map Prod.fst) : lookup k kvs = none := by
  induction kvs with
  | nil => rfl
  | cons x rest ih =>
    obtain ⟨k', v⟩ := x
    simp only [List.map_cons, List.mem_cons, not_or] at h
    have : ¬ k' = k := fun e => h.1 e.symm
    simp [lookup, this, ih h.2]

theorem keysNodup_of_nodup {kvs : List (List Nat × J)} (h : (kvs.map Prod.fst).Nodup) :
    keysNodup kvs = true := by
  induction kvs with
  | nil => rfl
  | cons x rest ih =>
    obtain ⟨k, v⟩ := x
    simp only [List.map_cons, List.nodup_cons] at h
    simp [keysNodup, hasKey, lookup_none_of_not_mem h.1, ih h.2]

theorem setKey_self {k : List Nat} {kvs : List (List Nat × J)} {c : J}
    (h : lookup k kvs = some c) : setKey k c kvs = kvs := by
  induction kvs with
  | nil => rfl
  | cons x rest ih =>
    obtain ⟨k', v⟩ := x
    by_cases hk : k' = k
    · simp only [lookup, hk, if_true] at h
      cases h
      simp [setKey, hk]
    · simp only [lookup, hk, if_false] at h
      simp [setKey, hk, ih h]

theorem lookup_mid {k : List Nat} {pre post : List (List Nat × J)} {v : J}
    (h : k ∉ pre.map Prod.fst) : lookup k (pre ++ (k, v) :: post) = some v := by
  rw [lookup_append_none k pre _ (lookup_none_of_not_mem h)]
  simp [lookup]

theorem setKey_mid {k : List Nat} {pre post : List (List Nat × J)} {v w : J}
    (h : k ∉ pre.map Prod.fst) : setKey k w (pre ++ (k, v) :: post) = pre ++ (k, w) :: post := by
  induction pre with
  | nil => simp [setKey]
  | cons x rest ih =>
    obtain ⟨k', v'⟩ := x
    simp only [List.map_cons, List.mem_cons, not_or] at h
    have : ¬ k' = k := fun e => h.1 e.symm
    simp [setKey, this, ih h.2]

theorem set_mid {α : Type} (pre post : List α) (v w : α) :
    (pre ++ v :: post).set pre.length w = pre ++ w :: post := by
  induction pre with
  | nil => rfl
  | cons x rest ih => simp [ih]

/-! ### folding -/

theorem foldPieces_append (j : J) (a b : List Piece) :
    foldPieces j (a ++ b) =
      match foldPieces j a with
      | .ok j' => foldPieces j' b
      | .error f => .error f := by
  induction a generalizing j with
  | nil => rfl
  | cons e rest ih =>
    simp only [List.cons_append, foldPieces]
    cases e.apply j with
    | ok j' => exact ih j'
    | error f => rfl

theorem foldPieces_append_ok {j j1 j2 : J} {a b : List Piece}
    (h1 : foldPieces j a = .ok j1) (h2 : foldPieces j1 b = .ok j2) :
    foldPieces j (a ++ b) = .ok j2 := by
  rw [foldPieces_append, h1]; exact h2

theorem under_apply_key (k : List Nat) (kvs : List (List Nat × J)) (c c1 : J) (e : Piece)
    (hl : lookup k kvs = some c) (he : e.apply c = .ok c1) :
    (e.under [.key k]).apply (.obj kvs) = .ok (.obj (setKey k c1 kvs)) := by
  cases e with
  | merge t d => exact updateAt_key_intro hl he
  | append t d => exact updateAt_key_intro hl he

theorem under_apply_idx (i : Nat) (xs : List J) (c c1 : J) (e : Piece)
    (hl : xs[i]? = some c) (he : e.apply c = .ok c1) :
    (e.under [.idx i]).apply (.arr xs) = .ok (.arr (xs.set i c1)) := by
  cases e with
  | merge t d => exact updateAt_idx_intro hl he
  | append t d => exact updateAt_idx_intro hl he

/-- locality: the pieces of the child at key `k` only rewrite that child -/
theorem fold_under_key (k : List Nat) :
    ∀ (ps : List Piece) (kvs : List (List Nat × J)) (c c' : J),
      lookup k kvs = some c → foldPieces c ps = .ok c' →
      foldPieces (.obj kvs) (ps.map (Piece.under [.key k])) = .ok (.obj (setKey k c' kvs))
  | [], kvs, c, c', hl, h => by
    simp only [foldPieces] at h
    cases h
    simp [foldPieces, setKey_self hl]
  | e :: rest, kvs, c, c', hl, h => by
    simp only [foldPieces] at h
    cases he : e.apply c with
    | error f => simp [he] at h
    | ok c1 =>
      simp only [he] at h
      simp only [List.map_cons, foldPieces, under_apply_key k kvs c c1 e hl he]
      have := fold_under_key k rest (setKey k c1 kvs) c1 c' (lookup_setKey_same k c1 kvs c hl) h
      rw [this, setKey_setKey_same]

theorem fold_under_idx (i : Nat) :
    ∀ (ps : List Piece) (xs : List J) (c c' : J),
      xs[i]? = some c → foldPieces c ps = .ok c' →
      foldPieces (.arr xs) (ps.map (Piece.under [.idx i])) = .ok (.arr (xs.set i c'))
  | [], xs, c, c', hl, h => by
    simp only [foldPieces] at h
    cases h
    have : xs.set i c = xs := by
      apply List.ext_getElem? ; intro n
      by_cases hn : i = n
      · subst hn; simp [List.getElem?_set]; rcases List.getElem?_eq_some_iff.mp hl with ⟨hlt, he⟩; simp [hlt, he]
      · simp [hn]
    simp [foldPieces, this]
  | e :: rest, xs, c, c', hl, h => by
    simp only [foldPieces] at h
    cases he : e.apply c with
    | error f => simp [he] at h
    | ok c1 =>
      simp only [he] at h
      simp only [List.map_cons, foldPieces, under_apply_idx i xs c c1 e hl he]
      have hlt : i < xs.length := (List.getElem?_eq_some_iff.mp hl).1
      have hl1 : (xs.set i c1)[i]? = some c1 := by simp [hlt]
      have := fold_under_idx i rest (xs.set i c1) c1 c' hl1 h
      rw [this, List.set_set]

/-! ### keys and lengths of the derived lists -/

theorem keys_refFields : ∀ fs : List (List Nat × Cut), (refFields fs).map Prod.fst = fs.map Prod.fst
  | [] => rfl
  | (k, c) :: rest => by simp [refFields, keys_refFields rest]

theorem keys_initFields : ∀ fs : List (List Nat × Cut), (initFields fs).map Prod.fst = fs.map Prod.fst
  | [] => rfl
  | (k, c) :: rest => by simp [initFields, keys_initFields rest]

theorem length_refItems : ∀ cs : List Cut, (refItems cs).length = lenItems cs
  | [] => rfl
  | c :: rest => by simp [refItems, lenItems, length_refItems rest]

theorem length_initItems : ∀ cs : List Cut, (initItems cs).length = lenItems cs
  | [] => rfl
  | c :: rest => by simp [initItems, lenItems, length_initItems rest]

/-! ### the theorem -/

mutual
theorem cut_reassembles : ∀ c : Cut, c.wf = true → foldPieces c.initial c.pieces = .ok c.ref
  | .leaf j, _ => rfl
  | .obj now later, h => by
    simp only [Cut.wf, Bool.and_eq_true, decide_eq_true_eq] at h
    obtain ⟨⟨hnd, hwn⟩, hwl⟩ := h
    have h1 := fields_reassemble now [] hwn (by simpa using hnd.sublist (List.Sublist.map _ (List.sublist_append_left _ _)))
    have h2 := groups_reassemble later (refFields now) hwl hnd
    simp only [List.nil_append] at h1
    simp only [Cut.initial, Cut.pieces, Cut.ref]
    exact foldPieces_append_ok h1 h2
  | .arr now later, h => by
    simp only [Cut.wf, Bool.and_eq_true] at h
    have h1 := items_reassemble now [] h.1
    have h2 := batches_reassemble later (refItems now) h.2
    simp only [List.nil_append, List.length_nil] at h1
    simp only [Cut.initial, Cut.pieces, Cut.ref]
    rw [length_refItems] at h2
    exact foldPieces_append_ok h1 h2
theorem fields_reassemble : ∀ (fs : List (List Nat × Cut)) (pre : List (List Nat × J)),
    wfCutFields fs = true → ((pre ++ refFields fs).map Prod.fst).Nodup →
    foldPieces (.obj (pre ++ initFields fs)) (fieldPieces fs) = .ok (.obj (pre ++ refFields fs))
  | [], pre, _, _ => by simp [initFields, refFields, fieldPieces, foldPieces]
  | (k, c) :: rest, pre, h, hnd => by
    simp only [wfCutFields, Bool.and_eq_true] at h
    have hk : k ∉ pre.map Prod.fst := by
      simp only [refFields, List.map_append, List.map_cons] at hnd
      have := (List.nodup_append.mp hnd).2.2
      intro hin
      exact this k hin k (by simp) rfl
    have hc := cut_reassembles c h.1
    have hstep := fold_under_key k c.pieces (pre ++ (k, c.initial) :: initFields rest) c.initial c.ref
      (lookup_mid hk) hc
    rw [setKey_mid hk] at hstep
    have hnd' : (((pre ++ [(k, c.ref)]) ++ refFields rest).map Prod.fst).Nodup := by
      simpa [refFields, List.append_assoc] using hnd
    have hrest := fields_reassemble rest (pre ++ [(k, c.ref)]) h.2 hnd'
    simp only [List.append_assoc, List.singleton_append] at hrest
    simp only [initFields, refFields, fieldPieces]
    exact foldPieces_append_ok hstep hrest
theorem groups_reassemble : ∀ (gs : List (List (List Nat × Cut))) (pre : List (List Nat × J)),
    wfCutGroups gs = true → ((pre ++ refGroups gs).map Prod.fst).Nodup →
    foldPieces (.obj pre) (groupPieces gs) = .ok (.obj (pre ++ refGroups gs))
  | [], pre, _, _ => by simp [refGroups, groupPieces, foldPieces]
  | g :: rest, pre, h, hnd => by
    simp only [wfCutGroups, Bool.and_eq_true] at h
    simp only [refGroups, List.map_append] at hnd
    have hpg : ((pre ++ refFields g).map Prod.fst).Nodup := by
      have : (pre.map Prod.fst ++ (refFields g).map Prod.fst).Sublist
          (pre.map Prod.fst ++ ((refFields g).map Prod.fst ++ (refGroups rest).map Prod.fst)) :=
        List.Sublist.append (List.Sublist.refl _) (List.sublist_append_left _ _)
      simpa using hnd.sublist this
    -- the defer piece of this group merges fresh keys into the object
    have hfresh : ∀ kv ∈ initFields g, lookup kv.1 pre = none := by
      intro kv hkv
      apply lookup_none_of_not_mem
      intro hin
      have hkg : kv.1 ∈ (refFields g).map Prod.fst := by
        rw [keys_refFields, ← keys_initFields]; exact List.mem_map_of_mem hkv
      simp only [List.map_append] at hpg
      exact (List.nodup_append.mp hpg).2.2 kv.1 hin kv.1 hkg rfl
    have hgnd : keysNodup (initFields g) = true := by
      apply keysNodup_of_nodup
      rw [keys_initFields, ← keys_refFields]
      simp only [List.map_append] at hpg
      exact (List.nodup_append.mp hpg).2.1
    have hmerge : (Piece.merge [] (initFields g)).apply (.obj pre) = .ok (.obj (pre ++ initFields g)) := by
      simp [Piece.apply, updateAt, mergeInto, mergeKeys_succeeds (initFields g) pre hfresh hgnd]
    have hfields := fields_reassemble g pre h.1 hpg
    have hnd' : (((pre ++ refFields g) ++ refGroups rest).map Prod.fst).Nodup := by
      simpa [List.append_assoc] using hnd
    have hrest := groups_reassemble rest (pre ++ refFields g) h.2 hnd'
    simp only [groupPieces, foldPieces, hmerge, refGroups]
    rw [← List.append_assoc]
    exact foldPieces_append_ok hfields hrest
theorem items_reassemble : ∀ (cs : List Cut) (pre : List J), wfCutItems cs = true →
    foldPieces (.arr (pre ++ initItems cs)) (itemPieces pre.length cs) = .ok (.arr (pre ++ refItems cs))
  | [], pre, _ => by simp [initItems, refItems, itemPieces, foldPieces]
  | c :: rest, pre, h => by
    simp only [wfCutItems, Bool.and_eq_true] at h
    have hc := cut_reassembles c h.1
    have hl : (pre ++ c.initial :: initItems rest)[pre.length]? = some c.initial := by simp
    have hstep := fold_under_idx pre.length c.pieces _ c.initial c.ref hl hc
    rw [set_mid] at hstep
    have hrest := items_reassemble rest (pre ++ [c.ref]) h.2
    simp only [List.append_assoc, List.singleton_append, List.length_append, List.length_cons,
      List.length_nil, Nat.zero_add] at hrest
    simp only [initItems, refItems, itemPieces]
    exact foldPieces_append_ok hstep hrest
theorem batches_reassemble : ∀ (bs : List (List Cut)) (pre : List J), wfCutBatches bs = true →
    foldPieces (.arr pre) (batchPieces pre.length bs) = .ok (.arr (pre ++ refBatches bs))
  | [], pre, _ => by simp [refBatches, batchPieces, foldPieces]
  | b :: rest, pre, h => by
    simp only [wfCutBatches, Bool.and_eq_true] at h
    have happ : (Piece.append [] (initItems b)).apply (.arr pre) = .ok (.arr (pre ++ initItems b)) := by
      simp [Piece.apply, updateAt, appendInto]
    have hitems := items_reassemble b pre h.1
    have hrest := batches_reassemble rest (pre ++ refItems b) h.2
    simp only [List.length_append, length_refItems] at hrest
    simp only [batchPieces, foldPieces, happ, refBatches]
    rw [← List.append_assoc]
    exact foldPieces_append_ok hitems hrest
end

/-! ### any order of the pieces -/

def Piece.act : Piece → Option (Path × Act)
  | .merge t d => some (t, .merge d)
  | .append t items => some (t, .append items)

theorem foldPieces_runD : ∀ {ps : List Piece} {j r : J}, foldPieces j ps = .ok r →
    runD Piece.act j ps = some r
  | [], j, r, h => by simp only [foldPieces] at h; cases h; rfl
  | e :: rest, j, r, h => by
    simp only [foldPieces] at h
    cases he : e.apply j with
    | error f => simp [he] at h
    | ok j1 =>
      simp only [he] at h
      have hs : stepD Piece.act j e = some j1 := by
        cases e with
        | merge t d => exact stepD_of (a := .merge d) rfl he
        | append t items => exact stepD_of (a := .append items) rfl he
      simp [runD, hs, foldPieces_runD h]

/-- **`assemble_eq_reference`, every order.**  Any reordering of the pieces of a well-formed cut
that keeps the batches of each list in order and can be folded at all yields the reference
(as a JSON value, key order ignored). -/
theorem cut_reassembles_any_order (c : Cut) (hwf : c.wf = true) (ps : List Piece) (b : J)
    (hperm : c.pieces.Perm ps)
    (hstreams : ∀ p, streamsOf Piece.act p c.pieces = streamsOf Piece.act p ps)
    (hb : foldPieces c.initial ps = .ok b) : SameValue c.ref b :=
  runD_perm ps c.pieces c.initial c.ref b hperm hstreams
    (foldPieces_runD (cut_reassembles c hwf)) (foldPieces_runD hb)

end Gql.Async
