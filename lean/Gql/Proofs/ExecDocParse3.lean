import Gql.Proofs.ExecParse3
/-!
C08, stage 3: `parse_definition` on the tokens of a printed type-system definition, and documents.
-/
namespace Gql.Syntax
open Gql Gql.Text
open Gql.Generated

/-- The next token is not the keyword `s`. -/
def NotKw (r : Stream) (s : String) : Prop :=
  ∀ c, ¬((PSat c r).cur.kind = .name ∧ valueIs (PSat c r).cur s = true)

theorem notKw_feed (s : String) (toks : List Token) (kvs : List KV) (r : Stream)
    (hkv : toks.map Token.kv = kvs) (h : kvs = [] → NotKw r s)
    (h2 : ∀ k ks, kvs = k :: ks → k.1 = .name → k.2 ≠ some (S s)) : NotKw (feed toks r) s := by
  cases toks with
  | nil => simp at hkv; exact h hkv
  | cons t ts =>
    intro c hc
    simp only [feed, PSat_cons] at hc
    have := h2 t.kv (ts.map Token.kv) (by rw [← hkv]; simp) hc.1
    apply this
    have hv := hc.2
    simp only [valueIs, beq_iff_eq] at hv
    simpa [Token.kv, strCps, S] using hv

/-- What may follow a definition that does not end with a block. -/
structure DefNext (r : Stream) : Prop where
  kind : headKind r = .eof ∨ headKind r = .string ∨ headKind r = .blockString ∨ headKind r = .name
  nimpl : NotKw r "implements"

theorem DefNext.ne {r : Stream} (h : DefNext r) :
    headKind r ≠ .at ∧ headKind r ≠ .parenL ∧ headKind r ≠ .braceL ∧ headKind r ≠ .equals ∧
    headKind r ≠ .amp ∧ headKind r ≠ .pipe := by
  rcases h.kind with h | h | h | h <;> rw [h] <;> decide

theorem delimKvs_length (d : TokKind) (ns : List (List Nat)) : ns.length ≤ (Exec.delimKvs d ns).length := by
  induction ns with
  | nil => simp
  | cons a r ih =>
    cases r with
    | nil => simp [Exec.delimKvs]
    | cons b r' => simp [Exec.delimKvs] at ih ⊢; omega

section
variable (cfg : Cfg) (hm : cfg.maxTokens = none)
include hm

theorem delimLoop_ok (delim : TokKind) (hd : delim ≠ .eof) (p : P Ast) (f : List Nat → Ast)
    (ns : List (List Nat))
    (hp : ∀ nm ∈ ns, ∀ (t : Token) (r : Stream) (c : Nat), t.kind = .name → t.value = some nm → r.Ready →
      ∃ c', p { cur := t, rest := r, count := c } = .ok (f nm, PSat c' r))
    (hne : ns ≠ []) :
    ∀ (m : Nat) (toks : List Token) (r : Stream) (cnt : Nat) (acc : List Ast), ns.length ≤ m →
      toks.map Token.kv = Exec.delimKvs delim ns → NonEof toks → r.Ready → headKind r ≠ delim →
      ∃ c', delimitedLoop cfg delim p m acc (PSat cnt (feed toks r)) = .ok (acc ++ ns.map f, PSat c' r) := by
  induction ns with
  | nil => exact absurd rfl hne
  | cons a rest ih =>
    intro m toks r cnt acc hmm hkv hnet hr hnd
    obtain ⟨m, rfl⟩ : ∃ m', m = m' + 1 := ⟨m - 1, by simp at hmm; omega⟩
    cases rest with
    | nil =>
      simp only [Exec.delimKvs, List.map_eq_cons_iff, List.map_eq_nil_iff] at hkv
      obtain ⟨tA, ts, rfl, hkA, rfl⟩ := hkv
      obtain ⟨hAk, hAv⟩ := tok_of_kv hkA
      obtain ⟨c1, h1⟩ := hp a (by simp) tA r cnt hAk hAv hr
      have hno : expectOptionalToken cfg delim (PSat c1 r) = .ok (false, PSat c1 r) :=
        expectOptionalToken_no cfg delim _ (by rw [PSat_cur_kind _ _ hr]; exact hnd)
      refine ⟨c1, ?_⟩
      simp only [feed, PSat_cons, delimitedLoop, bind_eq, h1, hno, Bool.false_eq_true, ↓reduceIte, pure_eq']
      simp
    | cons b rest' =>
      simp only [Exec.delimKvs, List.map_eq_cons_iff] at hkv
      obtain ⟨tA, ts, rfl, hkA, tD, ts2, rfl, hkD, hkrest⟩ := hkv
      obtain ⟨hAk, hAv⟩ := tok_of_kv hkA
      obtain ⟨hDk, _⟩ := tok_of_kv hkD
      have hDne : tD.kind ≠ .eof := by rw [hDk]; exact hd
      have hne2 : NonEof ts2 := hnet.tail.tail
      have hR : (feed ts2 r).Ready := feed_ready _ _ hne2 hr
      obtain ⟨c1, h1⟩ := hp a (by simp) tA (.cons tD (feed ts2 r)) cnt hAk hAv (by simp [Stream.Ready, hDne])
      obtain ⟨c2, h2⟩ := expectOptionalToken_yes cfg hm delim tD (feed ts2 r) c1 hDk hDne hR
      obtain ⟨c3, h3⟩ := ih (fun nm hnm => hp nm (by simp at hnm ⊢; exact Or.inr hnm)) (by simp) m ts2 r c2
        (acc ++ [f a]) (by simp at hmm ⊢; omega) hkrest hne2 hr hnd
      refine ⟨c3, ?_⟩
      simp only [feed, PSat_cons] at h1 h2 ⊢
      simp only [delimitedLoop, bind_eq, h1, PSat_cons, h2, ↓reduceIte, h3]
      simp

theorem delimMany_ok (delim : TokKind) (hd : delim ≠ .eof) (hdn : delim ≠ .name) (p : P Ast) (f : List Nat → Ast)
    (ns : List (List Nat))
    (hp : ∀ nm ∈ ns, ∀ (t : Token) (r : Stream) (c : Nat), t.kind = .name → t.value = some nm → r.Ready →
      ∃ c', p { cur := t, rest := r, count := c } = .ok (f nm, PSat c' r))
    (hne : ns ≠ []) (n : Nat) (toks : List Token) (r : Stream) (cnt : Nat) (hn : ns.length ≤ n)
    (hkv : toks.map Token.kv = Exec.delimKvs delim ns) (hnet : NonEof toks) (hr : r.Ready)
    (hnd : headKind r ≠ delim) :
    ∃ c', parseDelimitedMany cfg n delim p (PSat cnt (feed toks r)) = .ok (ns.map f, PSat c' r) := by
  obtain ⟨c', h⟩ := delimLoop_ok cfg hm delim hd p f ns hp hne n toks r cnt [] hn hkv hnet hr hnd
  refine ⟨c', ?_⟩
  have hfirst : (PSat cnt (feed toks r)).cur.kind ≠ delim := by
    obtain ⟨a, rest, rfl⟩ := List.exists_cons_of_ne_nil hne
    cases rest with
    | nil =>
      simp only [Exec.delimKvs, List.map_eq_cons_iff] at hkv
      obtain ⟨tA, ts, rfl, hkA, _⟩ := hkv
      simp only [feed, PSat_cons, (tok_of_kv hkA).1]; exact fun h => hdn h.symm
    | cons b rest' =>
      simp only [Exec.delimKvs, List.map_eq_cons_iff] at hkv
      obtain ⟨tA, ts, rfl, hkA, _⟩ := hkv
      simp only [feed, PSat_cons, (tok_of_kv hkA).1]; exact fun h => hdn h.symm
  simp only [parseDelimitedMany, bind_eq, expectOptionalToken_no cfg delim _ hfirst, h]
  simp

theorem parseImpl_ok (ifs : List (List Nat)) (n : Nat) (toks : List Token) (r : Stream) (cnt : Nat)
    (hn : (Exec.implKvs ifs).length < n) (hkv : toks.map Token.kv = Exec.implKvs ifs) (hne : NonEof toks)
    (hr : r.Ready) (h1 : ifs = [] → NotKw r "implements") (h2 : headKind r ≠ .amp) :
    ∃ c', parseImplementsInterfaces cfg n (PSat cnt (feed toks r)) =
      .ok ((if ifs = [] then none else some (ifs.map namedType)), PSat c' r) := by
  by_cases hx : ifs = []
  · subst hx
    simp only [Exec.implKvs, List.isEmpty_nil, ↓reduceIte, List.map_eq_nil_iff] at hkv
    subst hkv
    refine ⟨cnt, ?_⟩
    simp only [feed, parseImplementsInterfaces, bind_eq, expectOptionalKeyword_no cfg "implements" _ (h1 rfl cnt),
      Bool.false_eq_true, ↓reduceIte, pure_eq']
  · have hemp : ifs.isEmpty = false := by cases ifs <;> simp_all
    simp only [Exec.implKvs, hemp, Bool.false_eq_true, ↓reduceIte] at hkv hn
    rw [List.map_eq_cons_iff] at hkv
    obtain ⟨tK, ts, rfl, hkK, hkns⟩ := hkv
    obtain ⟨hKk, hKv⟩ := tok_of_kv hkK
    have hl := delimKvs_length .amp ifs
    simp only [List.length_cons] at hn
    obtain ⟨c1, h1'⟩ := expectOptionalKeyword_yes cfg hm "implements" tK (feed ts r) cnt hKk
      ((valueIs_iff hKv "implements").mpr rfl) (feed_ready _ _ hne.tail hr)
    obtain ⟨c2, h2'⟩ := delimMany_ok cfg hm .amp (by decide) (by decide) (parseNamedType cfg) namedType ifs
      (fun nm _ t r c hk hv hr => parseNamedType_ok cfg hm t nm r c hk hv hr) hx n ts r c1 (by omega) hkns
      hne.tail hr h2
    refine ⟨c2, ?_⟩
    simp only [feed, PSat_cons] at h1' ⊢
    simp only [parseImplementsInterfaces, bind_eq, h1', ↓reduceIte, h2', pure_eq', hx]

theorem parseUnionMembers_ok (ts : List (List Nat)) (n : Nat) (toks : List Token) (r : Stream) (cnt : Nat)
    (hn : (Exec.unionKvs ts).length < n) (hkv : toks.map Token.kv = Exec.unionKvs ts) (hne : NonEof toks)
    (hr : r.Ready) (h1 : ts = [] → headKind r ≠ .equals) (h2 : headKind r ≠ .pipe) :
    ∃ c', parseUnionMemberTypes cfg n (PSat cnt (feed toks r)) =
      .ok ((if ts = [] then none else some (ts.map namedType)), PSat c' r) := by
  by_cases hx : ts = []
  · subst hx
    simp only [Exec.unionKvs, List.isEmpty_nil, ↓reduceIte, List.map_eq_nil_iff] at hkv
    subst hkv
    refine ⟨cnt, ?_⟩
    have hk : (PSat cnt r).cur.kind ≠ .equals := by rw [PSat_cur_kind _ _ hr]; exact h1 rfl
    simp only [feed, parseUnionMemberTypes, bind_eq, expectOptionalToken_no cfg .equals _ hk,
      Bool.false_eq_true, ↓reduceIte, pure_eq']
  · have hemp : ts.isEmpty = false := by cases ts <;> simp_all
    simp only [Exec.unionKvs, hemp, Bool.false_eq_true, ↓reduceIte] at hkv hn
    rw [List.map_eq_cons_iff] at hkv
    obtain ⟨tK, tks, rfl, hkK, hkns⟩ := hkv
    obtain ⟨hKk, _⟩ := tok_of_kv hkK
    have hl := delimKvs_length .pipe ts
    simp only [List.length_cons] at hn
    obtain ⟨c1, h1'⟩ := expectOptionalToken_yes cfg hm .equals tK (feed tks r) cnt hKk (by rw [hKk]; decide)
      (feed_ready _ _ hne.tail hr)
    obtain ⟨c2, h2'⟩ := delimMany_ok cfg hm .pipe (by decide) (by decide) (parseNamedType cfg) namedType ts
      (fun nm _ t r c hk hv hr => parseNamedType_ok cfg hm t nm r c hk hv hr) hx n tks r c1 (by omega) hkns
      hne.tail hr h2
    refine ⟨c2, ?_⟩
    simp only [feed, PSat_cons] at h1' ⊢
    simp only [parseUnionMemberTypes, bind_eq, h1', ↓reduceIte, h2', pure_eq', hx]

end


/-! ### definitions -/

theorem mk_schemaNode (a b c : Ast) :
    mkNode "SchemaDefinitionNode" [("description", a), ("directives", b), ("operation_types", c)] =
    .node "SchemaDefinitionNode" [("description", a), ("directives", b), ("operation_types", c)] := rfl

theorem mk_scalarNode (a b c : Ast) :
    mkNode "ScalarTypeDefinitionNode" [("description", a), ("name", b), ("directives", c)] =
    .node "ScalarTypeDefinitionNode" [("name", b), ("description", a), ("directives", c)] := rfl

theorem mk_objNode (iface : Bool) (a b c d e : Ast) :
    mkNode (Exec.objCls iface) [("description", a), ("name", b), ("interfaces", c), ("directives", d),
      ("fields", e)] =
    .node (Exec.objCls iface) [("name", b), ("description", a), ("directives", d), ("interfaces", c),
      ("fields", e)] := by
  cases iface <;> rfl

theorem mk_unionNode (a b c d : Ast) :
    mkNode "UnionTypeDefinitionNode" [("description", a), ("name", b), ("directives", c), ("types", d)] =
    .node "UnionTypeDefinitionNode" [("name", b), ("description", a), ("directives", c), ("types", d)] := rfl

theorem mk_enumNode (a b c d : Ast) :
    mkNode "EnumTypeDefinitionNode" [("description", a), ("name", b), ("directives", c), ("values", d)] =
    .node "EnumTypeDefinitionNode" [("name", b), ("description", a), ("directives", c), ("values", d)] := rfl

theorem mk_inputNode (a b c d : Ast) :
    mkNode "InputObjectTypeDefinitionNode" [("description", a), ("name", b), ("directives", c), ("fields", d)] =
    .node "InputObjectTypeDefinitionNode" [("name", b), ("description", a), ("directives", c), ("fields", d)] := rfl

theorem mk_directiveNode (a b c d e f : Ast) :
    mkNode "DirectiveDefinitionNode" [("description", a), ("name", b), ("arguments", c), ("directives", d),
      ("repeatable", e), ("locations", f)] =
    .node "DirectiveDefinitionNode" [("name", b), ("locations", f), ("description", a), ("arguments", c),
      ("directives", d), ("repeatable", e)] := rfl

/-- The keyword string of an object-like definition. -/
def objKwS (iface : Bool) : String := if iface then "interface" else "type"

theorem objKw_S (iface : Bool) : Exec.objKw iface = S (objKwS iface) := by cases iface <;> rfl

/-- The parser method `parse_definition` dispatches to for a type-system definition. -/
def tdefParser (cfg : Cfg) (n : Nat) : TDef → P Ast
  | .schema .. => parseSchemaDefinition cfg n
  | .scalar .. => parseScalarTypeDefinition cfg n
  | .object iface .. => parseObjectLikeDefinition cfg n (objKwS iface) (Exec.objCls iface)
  | .union .. => parseUnionTypeDefinition cfg n
  | .enum .. => parseEnumTypeDefinition cfg n
  | .input .. => parseInputObjectTypeDefinition cfg n
  | .directive .. => parseDirectiveDefinition cfg n

theorem fdsKvs_flatten (xs : List FDef) :
    Exec.fdsKvs xs = ((xs.map (fun a => (Exec.fdAst a, Exec.fdKvs a))).map (·.2)).flatten := by
  induction xs with
  | nil => rfl
  | cons a r ih => simp [Exec.fdsKvs, ih]

theorem evsKvs_flatten (xs : List EVDef) :
    Exec.evsKvs xs = ((xs.map (fun a => (Exec.evAst a, Exec.evKvs a))).map (·.2)).flatten := by
  induction xs with
  | nil => rfl
  | cons a r ih => simp [Exec.evsKvs, ih]

theorem otsKvs_flatten (xs : List (List Nat × List Nat)) :
    Exec.otsKvs xs = ((xs.map (fun a => (Exec.otAst a, Exec.otKvs a))).map (·.2)).flatten := by
  induction xs with
  | nil => rfl
  | cons a r ih => simp [Exec.otsKvs, ih]

theorem fdKvs_head (f : FDef) : ItemHead (Exec.fdKvs f) := by
  unfold Exec.fdKvs
  simp only [List.append_assoc, List.cons_append]
  exact itemHead_desc_name f.desc f.name _

theorem evKvs_head (e : EVDef) : ItemHead (Exec.evKvs e) := by
  unfold Exec.evKvs
  exact itemHead_desc_name e.desc e.name _

theorem otKvs_head (ot : List Nat × List Nat) : ItemHead (Exec.otKvs ot) := ⟨_, _, rfl, Or.inl rfl⟩

theorem fdsKvs_mem_length (xs : List FDef) : ∀ a ∈ xs, (Exec.fdKvs a).length ≤ (Exec.fdsKvs xs).length := by
  induction xs with
  | nil => intro a ha; simp at ha
  | cons b r ih =>
    intro a ha
    rcases List.mem_cons.mp ha with rfl | ha
    · simp [Exec.fdsKvs]
    · have := ih a ha
      simp [Exec.fdsKvs]; omega

theorem evsKvs_mem_length (xs : List EVDef) : ∀ a ∈ xs, (Exec.evKvs a).length ≤ (Exec.evsKvs xs).length := by
  induction xs with
  | nil => intro a ha; simp at ha
  | cons b r ih =>
    intro a ha
    rcases List.mem_cons.mp ha with rfl | ha
    · simp [Exec.evsKvs]
    · have := ih a ha
      simp [Exec.evsKvs]; omega

theorem fdsKvs_length (xs : List FDef) : xs.length ≤ (Exec.fdsKvs xs).length := by
  induction xs with
  | nil => simp
  | cons a r ih =>
    have := itemHead_length (fdKvs_head a)
    simp [Exec.fdsKvs]; omega

theorem evsKvs_length (xs : List EVDef) : xs.length ≤ (Exec.evsKvs xs).length := by
  induction xs with
  | nil => simp
  | cons a r ih =>
    have := itemHead_length (evKvs_head a)
    simp [Exec.evsKvs]; omega

theorem otsKvs_length (xs : List (List Nat × List Nat)) : xs.length ≤ (Exec.otsKvs xs).length := by
  induction xs with
  | nil => simp
  | cons a r ih => simp [Exec.otsKvs, Exec.otKvs]; omega

theorem bracketKvs_length (o c : TokKind) (inner : List KV) (e : Bool) :
    (Exec.bracketKvs o c inner e).length ≤ inner.length + 2 := by
  cases e <;> simp [Exec.bracketKvs]

theorem bracketKvs_inner_length (o c : TokKind) (inner : List KV) (e : Bool) (h : e = false) :
    inner.length < (Exec.bracketKvs o c inner e).length := by
  subst h; simp [Exec.bracketKvs]; omega

theorem location_any (t : Token) (l : List Nat) (hv : t.value = some l) (h : Exec.isLocation l) :
    ParserTables.directiveLocations.any (fun s => valueIs t s) = true := by
  unfold Exec.isLocation at h
  simp only [List.mem_map] at h
  obtain ⟨s, hs, rfl⟩ := h
  rw [List.any_eq_true]
  exact ⟨s, hs, by simp [valueIs, hv]⟩


section
variable (cfg : Cfg) (hm : cfg.maxTokens = none)
include hm

/-- description and keyword of a definition -/
theorem descKw_steps (desc : Desc) (kw : String) (tdesc : List Token) (tK : Token) (rest : Stream) (cnt : Nat)
    (hkdesc : tdesc.map Token.kv = Exec.descKvs desc) (hkK : tK.kv = (.name, some (S kw))) (hrest : rest.Ready) :
    ∃ c1 c2, parseDescription cfg (PSat cnt (feed tdesc (.cons tK rest))) =
        .ok (Exec.descAst desc, { cur := tK, rest := rest, count := c1 }) ∧
      expectKeyword cfg kw { cur := tK, rest := rest, count := c1 } = .ok ((), PSat c2 rest) := by
  obtain ⟨hKk, hKv⟩ := tok_of_kv hkK
  obtain ⟨c1, h1⟩ := parseDesc_ok cfg hm desc tdesc (.cons tK rest) cnt hkdesc
    (by simp [Stream.Ready, hKk]) (fun _ => by simp [headKind, hKk])
  obtain ⟨c2, h2⟩ := expectKeyword_ok cfg hm kw tK rest c1 hKk ((valueIs_iff hKv kw).mpr rfl) hrest
  exact ⟨c1, c2, h1, h2⟩

theorem fdItems_ok (n : Nat) (xs : List FDef) (h : ∀ f ∈ xs, Exec.fdWf f) (hn : (Exec.fdsKvs xs).length < n) :
    ∀ it ∈ xs.map (fun a => (Exec.fdAst a, Exec.fdKvs a)),
      ItemOk (parseFieldDefinition cfg n) it.1 it.2 ∧ ItemHead it.2 := by
  intro it hit
  simp only [List.mem_map] at hit
  obtain ⟨a, ha, rfl⟩ := hit
  have := fdsKvs_mem_length xs a ha
  exact ⟨parseFd_ok cfg hm n a (h a ha) (by omega), fdKvs_head a⟩

theorem evItems_ok (n : Nat) (xs : List EVDef) (h : ∀ f ∈ xs, Exec.evWf f) (hn : (Exec.evsKvs xs).length < n) :
    ∀ it ∈ xs.map (fun a => (Exec.evAst a, Exec.evKvs a)),
      ItemOk (parseEnumValueDefinition cfg n) it.1 it.2 ∧ ItemHead it.2 := by
  intro it hit
  simp only [List.mem_map] at hit
  obtain ⟨a, ha, rfl⟩ := hit
  have := evsKvs_mem_length xs a ha
  exact ⟨parseEv_ok cfg hm n a (h a ha) (by omega), evKvs_head a⟩

theorem otItems_ok (xs : List (List Nat × List Nat))
    (h : ∀ ot ∈ xs, Exec.isOpType ot.1 ∧ validName ot.2 = true) :
    ∀ it ∈ xs.map (fun a => (Exec.otAst a, Exec.otKvs a)),
      ItemOk (parseOperationTypeDefinition cfg) it.1 it.2 ∧ ItemHead it.2 := by
  intro it hit
  simp only [List.mem_map] at hit
  obtain ⟨a, ha, rfl⟩ := hit
  exact ⟨parseOt_ok cfg hm a (h a ha), otKvs_head a⟩

theorem parseFdBlock_ok (xs : List FDef) (h : ∀ f ∈ xs, Exec.fdWf f) (n : Nat) (toks : List Token) (r : Stream)
    (cnt : Nat) (hn : (Exec.fdsKvs xs).length < n)
    (hkv : toks.map Token.kv = Exec.bracketKvs .braceL .braceR (Exec.fdsKvs xs) xs.isEmpty)
    (hne : NonEof toks) (hr : r.Ready) (hnop : xs = [] → headKind r ≠ .braceL) :
    ∃ c', parseFieldsDefinition cfg n (PSat cnt (feed toks r)) =
      .ok ((if xs = [] then none else some (xs.map Exec.fdAst)), PSat c' r) := by
  have hl := fdsKvs_length xs
  obtain ⟨c', hp⟩ := optMany_ok cfg hm .braceL .braceR (by decide) (Or.inl rfl) (parseFieldDefinition cfg n)
    (xs.map (fun a => (Exec.fdAst a, Exec.fdKvs a))) (fdItems_ok cfg hm n xs h hn) n toks r cnt
    (by simp; omega) (by rw [← fdsKvs_flatten]; simpa using hkv) hne hr (by simpa using hnop)
  refine ⟨c', ?_⟩
  rw [parseFieldsDefinition, hp]
  cases xs <;> simp [Function.comp_def]

theorem parseEvBlock_ok (xs : List EVDef) (h : ∀ f ∈ xs, Exec.evWf f) (n : Nat) (toks : List Token) (r : Stream)
    (cnt : Nat) (hn : (Exec.evsKvs xs).length < n)
    (hkv : toks.map Token.kv = Exec.bracketKvs .braceL .braceR (Exec.evsKvs xs) xs.isEmpty)
    (hne : NonEof toks) (hr : r.Ready) (hnop : xs = [] → headKind r ≠ .braceL) :
    ∃ c', parseEnumValuesDefinition cfg n (PSat cnt (feed toks r)) =
      .ok ((if xs = [] then none else some (xs.map Exec.evAst)), PSat c' r) := by
  have hl := evsKvs_length xs
  obtain ⟨c', hp⟩ := optMany_ok cfg hm .braceL .braceR (by decide) (Or.inl rfl) (parseEnumValueDefinition cfg n)
    (xs.map (fun a => (Exec.evAst a, Exec.evKvs a))) (evItems_ok cfg hm n xs h hn) n toks r cnt
    (by simp; omega) (by rw [← evsKvs_flatten]; simpa using hkv) hne hr (by simpa using hnop)
  refine ⟨c', ?_⟩
  rw [parseEnumValuesDefinition, hp]
  cases xs <;> simp [Function.comp_def]

end


theorem endsBlock_isEmpty {α : Type} (xs : List α) (h : (!xs.isEmpty) = false) : xs = [] := by
  cases xs <;> simp_all

section
variable (cfg : Cfg) (hm : cfg.maxTokens = none)
include hm

theorem parseTDef_scalar (n : Nat) (desc : Desc) (nm : List Nat) (ds : List Dir)
    (h : Exec.tdefWf cfg.dirOnDir (.scalar desc nm ds)) (toks : List Token) (r : Stream) (cnt : Nat)
    (hn : (Exec.tdefKvs (.scalar desc nm ds)).length < n)
    (hkv : toks.map Token.kv = Exec.tdefKvs (.scalar desc nm ds)) (hne : NonEof toks) (hr : r.Ready)
    (hnx : DefNext r) :
    ∃ c', parseScalarTypeDefinition cfg n (PSat cnt (feed toks r)) =
      .ok (Exec.tdefAst cfg.dirOnDir (.scalar desc nm ds), PSat c' r) := by
  obtain ⟨hdesc, hnm, hds⟩ := h
  obtain ⟨hnat, hnpar, _⟩ := hnx.ne
  simp only [Exec.tdefKvs] at hkv hn
  rw [List.map_eq_append_iff] at hkv
  obtain ⟨tdesc, t2, rfl, hkdesc, hk2⟩ := hkv
  simp only [List.map_eq_cons_iff] at hk2
  obtain ⟨tK, t3, rfl, hkK, tN, tds, rfl, hkN, hkds⟩ := hk2
  obtain ⟨hNk, hNv⟩ := tok_of_kv hkN
  have hne2 : NonEof (tK :: tN :: tds) := hne.append_right
  have hRd : (feed tds r).Ready := feed_ready _ _ hne2.tail.tail hr
  have hNne : tN.kind ≠ .eof := by rw [hNk]; decide
  simp only [List.length_append, List.length_cons] at hn
  obtain ⟨c1, c2, h1, h2⟩ := descKw_steps cfg hm desc "scalar" tdesc tK (.cons tN (feed tds r)) cnt hkdesc hkK
    (by simp [Stream.Ready, hNne])
  obtain ⟨c3, h3⟩ := parseName_ok cfg hm tN nm (feed tds r) c2 hNk hNv hRd
  obtain ⟨cd, hD⟩ := parseDirectives_raw cfg hm true ds hds n tds r c3 (by omega) hkds hne2.tail.tail hr hnat hnpar
  refine ⟨cd, ?_⟩
  simp only [feed_append, feed, PSat_cons] at h1 h2 h3 ⊢
  simp only [parseScalarTypeDefinition, bind_eq, h1, h2, h3, hD, pure_eq', mk_scalarNode, dirsAst_opt]
  simp [Exec.tdefAst, Val.nameNode]

theorem parseTDef_union (n : Nat) (desc : Desc) (nm : List Nat) (ds : List Dir) (ts : List (List Nat))
    (h : Exec.tdefWf cfg.dirOnDir (.union desc nm ds ts)) (toks : List Token) (r : Stream) (cnt : Nat)
    (hn : (Exec.tdefKvs (.union desc nm ds ts)).length < n)
    (hkv : toks.map Token.kv = Exec.tdefKvs (.union desc nm ds ts)) (hne : NonEof toks) (hr : r.Ready)
    (hnx : DefNext r) :
    ∃ c', parseUnionTypeDefinition cfg n (PSat cnt (feed toks r)) =
      .ok (Exec.tdefAst cfg.dirOnDir (.union desc nm ds ts), PSat c' r) := by
  obtain ⟨hdesc, hnm, hds, hts⟩ := h
  obtain ⟨hnat, hnpar, _, hneq, _, hnpipe⟩ := hnx.ne
  simp only [Exec.tdefKvs] at hkv hn
  rw [List.map_eq_append_iff] at hkv
  obtain ⟨t12, tun, rfl, hk12, hkun⟩ := hkv
  rw [List.map_eq_append_iff] at hk12
  obtain ⟨tdesc, t2, rfl, hkdesc, hk2⟩ := hk12
  simp only [List.map_eq_cons_iff] at hk2
  obtain ⟨tK, t3, rfl, hkK, tN, tds, rfl, hkN, hkds⟩ := hk2
  obtain ⟨hNk, hNv⟩ := tok_of_kv hkN
  have hne2 : NonEof (tK :: tN :: tds) := hne.append_left.append_right
  have hne3 : NonEof tun := hne.append_right
  have hRu : (feed tun r).Ready := feed_ready _ _ hne3 hr
  have hRd : (feed tds (feed tun r)).Ready := feed_ready _ _ hne2.tail.tail hRu
  have hNne : tN.kind ≠ .eof := by rw [hNk]; decide
  have hku : headKind (feed tun r) = if ts.isEmpty then headKind r else .equals := by
    rw [headKind_feed tun _ r hkun]
    unfold Exec.unionKvs
    cases ts.isEmpty <;> simp [firstK]
  have hku' : headKind (feed tun r) ≠ .at ∧ headKind (feed tun r) ≠ .parenL := by
    rw [hku]; split
    · exact ⟨hnat, hnpar⟩
    · exact ⟨by decide, by decide⟩
  simp only [List.length_append, List.length_cons] at hn
  obtain ⟨c1, c2, h1, h2⟩ := descKw_steps cfg hm desc "union" tdesc tK (.cons tN (feed tds (feed tun r))) cnt
    hkdesc hkK (by simp [Stream.Ready, hNne])
  obtain ⟨c3, h3⟩ := parseName_ok cfg hm tN nm (feed tds (feed tun r)) c2 hNk hNv hRd
  obtain ⟨cd, hD⟩ := parseDirectives_raw cfg hm true ds hds n tds (feed tun r) c3 (by omega) hkds hne2.tail.tail
    hRu hku'.1 hku'.2
  obtain ⟨cu, hU⟩ := parseUnionMembers_ok cfg hm ts n tun r cd (by omega) hkun hne3 hr (fun _ => hneq) hnpipe
  refine ⟨cu, ?_⟩
  simp only [feed_append, feed, PSat_cons] at h1 h2 h3 ⊢
  simp only [parseUnionTypeDefinition, bind_eq, h1, h2, h3, hD, hU, pure_eq', mk_unionNode, dirsAst_opt,
    optL_map_opt]
  simp [Exec.tdefAst, Val.nameNode, Exec.dirsAst]

end


section
variable (cfg : Cfg) (hm : cfg.maxTokens = none)
include hm

theorem parseTDef_enum (n : Nat) (desc : Desc) (nm : List Nat) (ds : List Dir) (xs : List EVDef)
    (h : Exec.tdefWf cfg.dirOnDir (.enum desc nm ds xs)) (toks : List Token) (r : Stream) (cnt : Nat)
    (hn : (Exec.tdefKvs (.enum desc nm ds xs)).length < n)
    (hkv : toks.map Token.kv = Exec.tdefKvs (.enum desc nm ds xs)) (hne : NonEof toks) (hr : r.Ready)
    (hnx : xs = [] → DefNext r) :
    ∃ c', parseEnumTypeDefinition cfg n (PSat cnt (feed toks r)) =
      .ok (Exec.tdefAst cfg.dirOnDir (.enum desc nm ds xs), PSat c' r) := by
  obtain ⟨hdesc, hnm, hds, hxs⟩ := h
  simp only [Exec.tdefKvs] at hkv hn
  rw [List.map_eq_append_iff] at hkv
  obtain ⟨t12, tb, rfl, hk12, hkb⟩ := hkv
  rw [List.map_eq_append_iff] at hk12
  obtain ⟨tdesc, t2, rfl, hkdesc, hk2⟩ := hk12
  simp only [List.map_eq_cons_iff] at hk2
  obtain ⟨tK, t3, rfl, hkK, tN, tds, rfl, hkN, hkds⟩ := hk2
  obtain ⟨hNk, hNv⟩ := tok_of_kv hkN
  have hne2 : NonEof (tK :: tN :: tds) := hne.append_left.append_right
  have hne3 : NonEof tb := hne.append_right
  have hRb : (feed tb r).Ready := feed_ready _ _ hne3 hr
  have hRd : (feed tds (feed tb r)).Ready := feed_ready _ _ hne2.tail.tail hRb
  have hNne : tN.kind ≠ .eof := by rw [hNk]; decide
  have hkb' : headKind (feed tb r) ≠ .at ∧ headKind (feed tb r) ≠ .parenL := by
    rw [headKind_feed tb _ r hkb, firstK_bracket]
    cases hx : xs.isEmpty with
    | true =>
      have hx' : xs = [] := by cases xs <;> simp_all
      simp only [↓reduceIte]
      exact ⟨(hnx hx').ne.1, (hnx hx').ne.2.1⟩
    | false => simp
  have hil : xs.isEmpty = false → (Exec.evsKvs xs).length <
      (Exec.bracketKvs .braceL .braceR (Exec.evsKvs xs) xs.isEmpty).length :=
    fun hx => bracketKvs_inner_length _ _ _ _ hx
  have hil0 : (Exec.evsKvs xs).length ≤ (Exec.bracketKvs .braceL .braceR (Exec.evsKvs xs) xs.isEmpty).length := by
    cases hx : xs.isEmpty with
    | true =>
      have hx' : xs = [] := by cases xs <;> simp_all
      subst hx'; simp [Exec.evsKvs]
    | false => simp [Exec.bracketKvs] <;> omega
  simp only [List.length_append, List.length_cons] at hn
  obtain ⟨c1, c2, h1, h2⟩ := descKw_steps cfg hm desc "enum" tdesc tK (.cons tN (feed tds (feed tb r))) cnt
    hkdesc hkK (by simp [Stream.Ready, hNne])
  obtain ⟨c3, h3⟩ := parseName_ok cfg hm tN nm (feed tds (feed tb r)) c2 hNk hNv hRd
  obtain ⟨cd, hD⟩ := parseDirectives_raw cfg hm true ds hds n tds (feed tb r) c3 (by omega) hkds hne2.tail.tail
    hRb hkb'.1 hkb'.2
  obtain ⟨cb, hB⟩ := parseEvBlock_ok cfg hm  xs hxs n tb r cd (by omega) hkb hne3 hr
    (fun hx => (hnx hx).ne.2.2.1)
  refine ⟨cb, ?_⟩
  simp only [feed_append, feed, PSat_cons] at h1 h2 h3 ⊢
  simp only [parseEnumTypeDefinition, bind_eq, h1, h2, h3, hD, hB, pure_eq', mk_enumNode, dirsAst_opt,
    optL_map_opt]
  simp [Exec.tdefAst, Val.nameNode, Exec.dirsAst]

theorem parseTDef_input (n : Nat) (desc : Desc) (nm : List Nat) (ds : List Dir) (xs : List VarDef)
    (h : Exec.tdefWf cfg.dirOnDir (.input desc nm ds xs)) (toks : List Token) (r : Stream) (cnt : Nat)
    (hn : (Exec.tdefKvs (.input desc nm ds xs)).length < n)
    (hkv : toks.map Token.kv = Exec.tdefKvs (.input desc nm ds xs)) (hne : NonEof toks) (hr : r.Ready)
    (hnx : xs = [] → DefNext r) :
    ∃ c', parseInputObjectTypeDefinition cfg n (PSat cnt (feed toks r)) =
      .ok (Exec.tdefAst cfg.dirOnDir (.input desc nm ds xs), PSat c' r) := by
  obtain ⟨hdesc, hnm, hds, hxs⟩ := h
  simp only [Exec.tdefKvs] at hkv hn
  rw [List.map_eq_append_iff] at hkv
  obtain ⟨t12, tb, rfl, hk12, hkb⟩ := hkv
  rw [List.map_eq_append_iff] at hk12
  obtain ⟨tdesc, t2, rfl, hkdesc, hk2⟩ := hk12
  simp only [List.map_eq_cons_iff] at hk2
  obtain ⟨tK, t3, rfl, hkK, tN, tds, rfl, hkN, hkds⟩ := hk2
  obtain ⟨hNk, hNv⟩ := tok_of_kv hkN
  have hne2 : NonEof (tK :: tN :: tds) := hne.append_left.append_right
  have hne3 : NonEof tb := hne.append_right
  have hRb : (feed tb r).Ready := feed_ready _ _ hne3 hr
  have hRd : (feed tds (feed tb r)).Ready := feed_ready _ _ hne2.tail.tail hRb
  have hNne : tN.kind ≠ .eof := by rw [hNk]; decide
  have hkb' : headKind (feed tb r) ≠ .at ∧ headKind (feed tb r) ≠ .parenL := by
    rw [headKind_feed tb _ r hkb, firstK_bracket]
    cases hx : xs.isEmpty with
    | true =>
      have hx' : xs = [] := by cases xs <;> simp_all
      simp only [↓reduceIte]
      exact ⟨(hnx hx').ne.1, (hnx hx').ne.2.1⟩
    | false => simp
  have hil : xs.isEmpty = false → (Exec.ivdsKvs xs).length <
      (Exec.bracketKvs .braceL .braceR (Exec.ivdsKvs xs) xs.isEmpty).length :=
    fun hx => bracketKvs_inner_length _ _ _ _ hx
  have hil0 : (Exec.ivdsKvs xs).length ≤ (Exec.bracketKvs .braceL .braceR (Exec.ivdsKvs xs) xs.isEmpty).length := by
    cases hx : xs.isEmpty with
    | true =>
      have hx' : xs = [] := by cases xs <;> simp_all
      subst hx'; simp [Exec.ivdsKvs]
    | false => simp [Exec.bracketKvs] <;> omega
  simp only [List.length_append, List.length_cons] at hn
  obtain ⟨c1, c2, h1, h2⟩ := descKw_steps cfg hm desc "input" tdesc tK (.cons tN (feed tds (feed tb r))) cnt
    hkdesc hkK (by simp [Stream.Ready, hNne])
  obtain ⟨c3, h3⟩ := parseName_ok cfg hm tN nm (feed tds (feed tb r)) c2 hNk hNv hRd
  obtain ⟨cd, hD⟩ := parseDirectives_raw cfg hm true ds hds n tds (feed tb r) c3 (by omega) hkds hne2.tail.tail
    hRb hkb'.1 hkb'.2
  obtain ⟨cb, hB⟩ := parseIvdList_ok cfg hm .braceL .braceR (by decide) (Or.inl rfl) xs hxs n tb r cd (by omega) hkb hne3 hr
    (fun hx => (hnx hx).ne.2.2.1)
  refine ⟨cb, ?_⟩
  simp only [feed_append, feed, PSat_cons] at h1 h2 h3 ⊢
  simp only [parseInputObjectTypeDefinition, parseInputFieldsDefinition, bind_eq, h1, h2, h3, hD, hB, pure_eq', mk_inputNode, dirsAst_opt,
    optL_map_opt]
  simp [Exec.tdefAst, Val.nameNode, Exec.dirsAst]

end


theorem dirsKvs_head_at (ds : List Dir) : ∀ k ks, Exec.dirsKvs ds = k :: ks → k.1 = .at := by
  intro k ks h
  cases ds with
  | nil => simp [Exec.dirsKvs] at h
  | cons d r =>
    simp only [Exec.dirsKvs, Exec.dirKvs, List.cons_append] at h
    have := (List.cons.inj h).1
    rw [← this]

theorem bracketKvs_head (o c : TokKind) (inner : List KV) (e : Bool) :
    ∀ k ks, Exec.bracketKvs o c inner e = k :: ks → k.1 = o := by
  intro k ks h
  cases e with
  | true => simp [Exec.bracketKvs] at h
  | false =>
    simp only [Exec.bracketKvs, Bool.false_eq_true, ↓reduceIte, List.cons_append] at h
    have := (List.cons.inj h).1
    rw [← this]

section
variable (cfg : Cfg) (hm : cfg.maxTokens = none)
include hm

theorem parseTDef_object (n : Nat) (iface : Bool) (desc : Desc) (nm : List Nat) (ifs : List (List Nat))
    (ds : List Dir) (xs : List FDef)
    (h : Exec.tdefWf cfg.dirOnDir (.object iface desc nm ifs ds xs)) (toks : List Token) (r : Stream) (cnt : Nat)
    (hn : (Exec.tdefKvs (.object iface desc nm ifs ds xs)).length < n)
    (hkv : toks.map Token.kv = Exec.tdefKvs (.object iface desc nm ifs ds xs)) (hne : NonEof toks) (hr : r.Ready)
    (hnx : xs = [] → DefNext r) :
    ∃ c', parseObjectLikeDefinition cfg n (objKwS iface) (Exec.objCls iface) (PSat cnt (feed toks r)) =
      .ok (Exec.tdefAst cfg.dirOnDir (.object iface desc nm ifs ds xs), PSat c' r) := by
  obtain ⟨hdesc, hnm, hifs, hds, hxs⟩ := h
  simp only [Exec.tdefKvs, objKw_S] at hkv hn
  rw [List.map_eq_append_iff] at hkv
  obtain ⟨t123, tb, rfl, hk123, hkb⟩ := hkv
  rw [List.map_eq_append_iff] at hk123
  obtain ⟨t12, tds, rfl, hk12, hkds⟩ := hk123
  rw [List.map_eq_append_iff] at hk12
  obtain ⟨tdesc, t2, rfl, hkdesc, hk2⟩ := hk12
  simp only [List.map_eq_cons_iff] at hk2
  obtain ⟨tK, t3, rfl, hkK, tN, timpl, rfl, hkN, hkimpl⟩ := hk2
  obtain ⟨hNk, hNv⟩ := tok_of_kv hkN
  have hne2 : NonEof (tK :: tN :: timpl) := hne.append_left.append_left.append_right
  have hne_ds : NonEof tds := hne.append_left.append_right
  have hne3 : NonEof tb := hne.append_right
  have hRb : (feed tb r).Ready := feed_ready _ _ hne3 hr
  have hRd : (feed tds (feed tb r)).Ready := feed_ready _ _ hne_ds hRb
  have hRi : (feed timpl (feed tds (feed tb r))).Ready := feed_ready _ _ hne2.tail.tail hRd
  have hNne : tN.kind ≠ .eof := by rw [hNk]; decide
  have hkbK : headKind (feed tb r) = if xs.isEmpty then headKind r else .braceL := by
    rw [headKind_feed tb _ r hkb, firstK_bracket]
  have hkb' : headKind (feed tb r) ≠ .at ∧ headKind (feed tb r) ≠ .parenL ∧ headKind (feed tb r) ≠ .amp := by
    rw [hkbK]
    cases hx : xs.isEmpty with
    | true =>
      have hx' : xs = [] := by cases xs <;> simp_all
      simp only [↓reduceIte]
      exact ⟨(hnx hx').ne.1, (hnx hx').ne.2.1, (hnx hx').ne.2.2.2.2.1⟩
    | false => simp
  have hkd' : headKind (feed tds (feed tb r)) ≠ .amp := by
    rw [headKind_feed tds _ _ hkds, firstK_dirs]; split
    · exact hkb'.2.2
    · decide
  have hnkb : NotKw (feed tb r) "implements" := by
    refine notKw_feed "implements" tb _ r hkb ?_ ?_
    · intro h0
      have hx' : xs = [] := by
        cases xs with
        | nil => rfl
        | cons a b => simp [Exec.bracketKvs] at h0
      exact (hnx hx').nimpl
    · intro k ks h0 hk
      rw [bracketKvs_head _ _ _ _ k ks h0] at hk; cases hk
  have hnkd : NotKw (feed tds (feed tb r)) "implements" := by
    refine notKw_feed "implements" tds _ _ hkds (fun _ => hnkb) ?_
    intro k ks h0 hk
    rw [dirsKvs_head_at ds k ks h0] at hk; cases hk
  have hil0 : (Exec.fdsKvs xs).length ≤ (Exec.bracketKvs .braceL .braceR (Exec.fdsKvs xs) xs.isEmpty).length := by
    cases hx : xs.isEmpty with
    | true =>
      have hx' : xs = [] := by cases xs <;> simp_all
      subst hx'; simp [Exec.fdsKvs]
    | false => simp [Exec.bracketKvs] <;> omega
  simp only [List.length_append, List.length_cons] at hn
  obtain ⟨c1, c2, h1, h2⟩ := descKw_steps cfg hm desc (objKwS iface) tdesc tK
    (.cons tN (feed timpl (feed tds (feed tb r)))) cnt hkdesc hkK (by simp [Stream.Ready, hNne])
  obtain ⟨c3, h3⟩ := parseName_ok cfg hm tN nm (feed timpl (feed tds (feed tb r))) c2 hNk hNv hRi
  obtain ⟨ci, hI⟩ := parseImpl_ok cfg hm ifs n timpl (feed tds (feed tb r)) c3 (by omega) hkimpl hne2.tail.tail hRd
    (fun _ => hnkd) hkd'
  obtain ⟨cd, hD⟩ := parseDirectives_raw cfg hm true ds hds n tds (feed tb r) ci (by omega) hkds hne_ds
    hRb hkb'.1 hkb'.2.1
  obtain ⟨cb, hB⟩ := parseFdBlock_ok cfg hm xs hxs n tb r cd (by omega) hkb hne3 hr
    (fun hx => (hnx hx).ne.2.2.1)
  refine ⟨cb, ?_⟩
  simp only [feed_append, feed, PSat_cons] at h1 h2 h3 ⊢
  simp only [parseObjectLikeDefinition, bind_eq, h1, h2, h3, hI, hD, hB, pure_eq', mk_objNode, dirsAst_opt,
    optL_map_opt]
  simp [Exec.tdefAst, Val.nameNode, Exec.dirsAst]

theorem parseTDef_schema (n : Nat) (desc : Desc) (ds : List Dir) (ots : List (List Nat × List Nat))
    (h : Exec.tdefWf cfg.dirOnDir (.schema desc ds ots)) (toks : List Token) (r : Stream) (cnt : Nat)
    (hn : (Exec.tdefKvs (.schema desc ds ots)).length < n)
    (hkv : toks.map Token.kv = Exec.tdefKvs (.schema desc ds ots)) (hne : NonEof toks) (hr : r.Ready) :
    ∃ c', parseSchemaDefinition cfg n (PSat cnt (feed toks r)) =
      .ok (Exec.tdefAst cfg.dirOnDir (.schema desc ds ots), PSat c' r) := by
  obtain ⟨hdesc, hds, hone, hots⟩ := h
  have hemp : ots.isEmpty = false := by cases ots <;> simp_all
  simp only [Exec.tdefKvs] at hkv hn
  rw [List.map_eq_append_iff] at hkv
  obtain ⟨t12, tb, rfl, hk12, hkb⟩ := hkv
  rw [List.map_eq_append_iff] at hk12
  obtain ⟨tdesc, t2, rfl, hkdesc, hk2⟩ := hk12
  simp only [List.map_eq_cons_iff] at hk2
  obtain ⟨tK, tds, rfl, hkK, hkds⟩ := hk2
  have hne2 : NonEof (tK :: tds) := hne.append_left.append_right
  have hne3 : NonEof tb := hne.append_right
  have hRb : (feed tb r).Ready := feed_ready _ _ hne3 hr
  have hRd : (feed tds (feed tb r)).Ready := feed_ready _ _ hne2.tail hRb
  have hkb' : headKind (feed tb r) = .braceL := by
    rw [headKind_feed tb _ r hkb, firstK_bracket, hemp]; rfl
  have hl := otsKvs_length ots
  have hil := bracketKvs_inner_length .braceL .braceR (Exec.otsKvs ots) ots.isEmpty hemp
  simp only [List.length_append, List.length_cons] at hn
  obtain ⟨c1, c2, h1, h2⟩ := descKw_steps cfg hm desc "schema" tdesc tK (feed tds (feed tb r)) cnt
    hkdesc hkK hRd
  obtain ⟨cd, hD⟩ := parseDirectives_raw cfg hm true ds hds n tds (feed tb r) c2 (by omega) hkds hne2.tail
    hRb (by rw [hkb']; decide) (by rw [hkb']; decide)
  obtain ⟨cb, hB⟩ := many_ok cfg hm .braceL .braceR (by decide) (Or.inl rfl) (parseOperationTypeDefinition cfg)
    (ots.map (fun a => (Exec.otAst a, Exec.otKvs a))) (by simpa using hone) (otItems_ok cfg hm ots hots) n tb r cd
    (by simp; omega) (by rw [← otsKvs_flatten]; simpa using hkb) hne3 hr
  refine ⟨cb, ?_⟩
  simp only [feed_append, feed, PSat_cons] at h1 h2 ⊢
  simp only [parseSchemaDefinition, bind_eq, h1, h2, hD, hB, pure_eq', mk_schemaNode, dirsAst_opt]
  simp [Exec.tdefAst, Function.comp_def]

end


section
variable (cfg : Cfg) (hm : cfg.maxTokens = none)
include hm

theorem parseLocation_ok (l : List Nat) (hl : Exec.isLocation l) (t : Token) (r : Stream) (c : Nat)
    (hk : t.kind = .name) (hv : t.value = some l) (hr : r.Ready) :
    ∃ c', parseDirectiveLocation cfg { cur := t, rest := r, count := c } = .ok (Val.nameNode l, PSat c' r) := by
  obtain ⟨c', h⟩ := parseName_ok cfg hm t l r c hk hv hr
  refine ⟨c', ?_⟩
  simp only [parseDirectiveLocation, bind_eq, P.cur, h, location_any t l hv hl, ↓reduceIte, pure_eq']
  rfl

theorem parseTDef_directive (n : Nat) (desc : Desc) (nm : List Nat) (args : List VarDef) (ds : List Dir)
    (rep : Bool) (locs : List (List Nat))
    (h : Exec.tdefWf cfg.dirOnDir (.directive desc nm args ds rep locs)) (toks : List Token) (r : Stream)
    (cnt : Nat) (hn : (Exec.tdefKvs (.directive desc nm args ds rep locs)).length < n)
    (hkv : toks.map Token.kv = Exec.tdefKvs (.directive desc nm args ds rep locs)) (hne : NonEof toks)
    (hr : r.Ready) (hnx : DefNext r) :
    ∃ c', parseDirectiveDefinition cfg n (PSat cnt (feed toks r)) =
      .ok (Exec.tdefAst cfg.dirOnDir (.directive desc nm args ds rep locs), PSat c' r) := by
  obtain ⟨hdesc, hnm, hargs, hds, hdd, hlne, hlocs⟩ := h
  simp only [Exec.tdefKvs] at hkv hn
  rw [List.map_eq_append_iff] at hkv
  obtain ⟨t1234, tE, rfl, hk1234, hkE⟩ := hkv
  rw [List.map_eq_append_iff] at hk1234
  obtain ⟨t123, tD, rfl, hk123, hkD⟩ := hk1234
  rw [List.map_eq_append_iff] at hk123
  obtain ⟨t12, tds, rfl, hk12, hkds⟩ := hk123
  rw [List.map_eq_append_iff] at hk12
  obtain ⟨tdesc, tB, rfl, hkdesc, hkB⟩ := hk12
  simp only [List.map_eq_cons_iff] at hkB hkE
  obtain ⟨tK, t3, rfl, hkK, tAt, t4, rfl, hkAt, tN, targs, rfl, hkN, hkargs⟩ := hkB
  obtain ⟨tOn, tlocs, rfl, hkOn, hklocs⟩ := hkE
  obtain ⟨hNk, hNv⟩ := tok_of_kv hkN
  obtain ⟨hAtk, _⟩ := tok_of_kv hkAt
  obtain ⟨hOnk, hOnv⟩ := tok_of_kv hkOn
  have hNne : tN.kind ≠ .eof := by rw [hNk]; decide
  have hAtne : tAt.kind ≠ .eof := by rw [hAtk]; decide
  have hOnne : tOn.kind ≠ .eof := by rw [hOnk]; decide
  have hneE : NonEof (tOn :: tlocs) := hne.append_right
  have hneD : NonEof tD := hne.append_left.append_right
  have hne_ds : NonEof tds := hne.append_left.append_left.append_right
  have hneB : NonEof (tK :: tAt :: tN :: targs) := hne.append_left.append_left.append_left.append_right
  have hRl : (feed tlocs r).Ready := feed_ready _ _ hneE.tail hr
  have hRE : (feed (tOn :: tlocs) r).Ready := feed_ready _ _ hneE hr
  have hRD : (feed tD (feed (tOn :: tlocs) r)).Ready := feed_ready _ _ hneD hRE
  have hRC : (feed tds (feed tD (feed (tOn :: tlocs) r))).Ready := feed_ready _ _ hne_ds hRD
  have hRA : (feed targs (feed tds (feed tD (feed (tOn :: tlocs) r)))).Ready :=
    feed_ready _ _ hneB.tail.tail.tail hRC
  have hkD' : headKind (feed tD (feed (tOn :: tlocs) r)) = .name := by
    rw [headKind_feed tD _ _ hkD]
    cases rep <;> simp [firstK, headKind_feed_cons, hOnk]
  have hkC' : headKind (feed tds (feed tD (feed (tOn :: tlocs) r))) ≠ .parenL := by
    rw [headKind_feed tds _ _ hkds, firstK_dirs, hkD']; split <;> decide
  have hlw : ∀ l ∈ locs, Exec.isLocation l := hlocs
  have hal : (Exec.ivdsKvs args).length ≤ (Exec.argDefsKvs args).length := by
    unfold Exec.argDefsKvs Exec.bracketKvs
    cases args <;> simp [Exec.ivdsKvs]; omega
  have hll := delimKvs_length .pipe locs
  simp only [List.length_append, List.length_cons] at hn
  obtain ⟨c1, c2, h1, h2⟩ := descKw_steps cfg hm desc "directive" tdesc tK
    (.cons tAt (.cons tN (feed targs (feed tds (feed tD (feed (tOn :: tlocs) r)))))) cnt hkdesc hkK
    (by simp [Stream.Ready, hAtne])
  obtain ⟨c3, h3⟩ := expectToken_ok cfg hm .at tAt (.cons tN (feed targs (feed tds (feed tD (feed (tOn :: tlocs) r)))))
    c2 hAtk hAtne (by simp [Stream.Ready, hNne])
  obtain ⟨c4, h4⟩ := parseName_ok cfg hm tN nm (feed targs (feed tds (feed tD (feed (tOn :: tlocs) r)))) c3 hNk hNv
    hRA
  obtain ⟨c5, h5⟩ := parseIvdList_ok cfg hm .parenL .parenR (by decide) (Or.inr rfl) args hargs n targs
    (feed tds (feed tD (feed (tOn :: tlocs) r))) c4 (by omega) hkargs hneB.tail.tail.tail hRC (fun _ => hkC')
  -- directives on the directive definition (experimental flag)
  have hDirs : ∃ cd, (if cfg.dirOnDir then parseDirectives cfg n true else (pure none : P (Option (List Ast))))
      (PSat c5 (feed tds (feed tD (feed (tOn :: tlocs) r)))) =
      .ok ((if cfg.dirOnDir then (if ds = [] then none else some (ds.map Exec.dirAst)) else none),
        PSat cd (feed tD (feed (tOn :: tlocs) r))) := by
    cases hf : cfg.dirOnDir with
    | true =>
      obtain ⟨cd, hD⟩ := parseDirectives_raw cfg hm true ds hds n tds (feed tD (feed (tOn :: tlocs) r)) c5
        (by omega) hkds hne_ds hRD (by rw [hkD']; decide) (by rw [hkD']; decide)
      exact ⟨cd, by simpa using hD⟩
    | false =>
      have hds0 : ds = [] := by
        rcases hdd with h | h
        · exact h
        · rw [hf] at h; cases h
      subst hds0
      simp only [Exec.dirsKvs, List.map_eq_nil_iff] at hkds
      subst hkds
      exact ⟨c5, by simp [feed, pure_eq']⟩
  obtain ⟨cd, hD⟩ := hDirs
  have hdirsAst : optListO (if cfg.dirOnDir then (if ds = [] then none else some (ds.map Exec.dirAst)) else none) =
      (if cfg.dirOnDir then Exec.dirsAst ds else .none) := by
    cases cfg.dirOnDir
    · simp [optListO]
    · simp [dirsAst_opt]
  -- repeatable
  have hRep : ∃ cr, expectOptionalKeyword cfg "repeatable" (PSat cd (feed tD (feed (tOn :: tlocs) r))) =
      .ok (rep, { cur := tOn, rest := feed tlocs r, count := cr }) := by
    cases rep with
    | false =>
      simp only [Bool.false_eq_true, ↓reduceIte, List.map_eq_nil_iff] at hkD
      subst hkD
      refine ⟨cd, ?_⟩
      rw [feed, feed, PSat_cons, expectOptionalKeyword_no cfg "repeatable" _ (by
        intro hc
        have := (valueIs_iff hOnv "repeatable").mp hc.2
        revert this; decide)]
    | true =>
      simp only [↓reduceIte, List.map_eq_cons_iff, List.map_eq_nil_iff] at hkD
      obtain ⟨tR, tE', rfl, hkR, rfl⟩ := hkD
      obtain ⟨hRk, hRv⟩ := tok_of_kv hkR
      obtain ⟨cr, hr'⟩ := expectOptionalKeyword_yes cfg hm "repeatable" tR (feed (tOn :: tlocs) r) cd hRk
        ((valueIs_iff hRv "repeatable").mpr rfl) hRE
      exact ⟨cr, by simpa [feed] using hr'⟩
  obtain ⟨cr, hR⟩ := hRep
  obtain ⟨c6, h6⟩ := expectKeyword_ok cfg hm "on" tOn (feed tlocs r) cr hOnk ((valueIs_iff hOnv "on").mpr rfl) hRl
  obtain ⟨c7, h7⟩ := delimMany_ok cfg hm .pipe (by decide) (by decide) (parseDirectiveLocation cfg) Val.nameNode locs
    (fun l hl t r c hk hv hr => parseLocation_ok cfg hm l (hlw l hl) t r c hk hv hr) hlne n tlocs r c6 (by omega)
    hklocs hneE.tail hr hnx.ne.2.2.2.2.2
  refine ⟨c7, ?_⟩
  simp only [feed_append, feed, PSat_cons] at h1 h2 h3 h4 h5 hD hR ⊢
  simp only [parseDirectiveDefinition, parseArgumentDefs, bind_eq, h1, h2, h3, h4, h5, hD, hR, h6, h7, pure_eq',
    mk_directiveNode, hdirsAst, optL_map_opt]
  simp [Exec.tdefAst, Val.nameNode]

end


/-! ### `parse_definition` -/

def tdefDesc : TDef → Desc
  | .schema desc .. => desc
  | .scalar desc .. => desc
  | .object _ desc .. => desc
  | .union desc .. => desc
  | .enum desc .. => desc
  | .input desc .. => desc
  | .directive desc .. => desc

def tdefKw : TDef → List Nat
  | .schema .. => S "schema"
  | .scalar .. => S "scalar"
  | .object iface .. => Exec.objKw iface
  | .union .. => S "union"
  | .enum .. => S "enum"
  | .input .. => S "input"
  | .directive .. => S "directive"

def tdefMethod : TDef → String
  | .schema .. => "schema_definition"
  | .scalar .. => "scalar_type_definition"
  | .object iface .. => if iface then "interface_type_definition" else "object_type_definition"
  | .union .. => "union_type_definition"
  | .enum .. => "enum_type_definition"
  | .input .. => "input_object_type_definition"
  | .directive .. => "directive_definition"

theorem tdefKvs_shape (d : TDef) :
    ∃ rest, Exec.tdefKvs d = Exec.descKvs (tdefDesc d) ++ ((.name, some (tdefKw d)) :: rest) := by
  cases d <;> simp only [Exec.tdefKvs, tdefDesc, tdefKw, List.append_assoc, List.cons_append] <;> exact ⟨_, rfl⟩

theorem tdef_methodFor (d : TDef) :
    methodFor ParserTables.typeSystemDefinitionMethods (some (tdefKw d)) = some (tdefMethod d) := by
  cases d with
  | object iface => cases iface <;> (simp only [tdefKw, tdefMethod, Exec.objKw]; decide)
  | _ => simp only [tdefKw, tdefMethod] <;> decide

theorem tdef_dispatch (cfg : Cfg) (n : Nat) (d : TDef) :
    dispatchDefinition cfg n (tdefMethod d) = tdefParser cfg n d := by
  cases d with
  | object iface => cases iface <;> simp [dispatchDefinition, tdefMethod, tdefParser, objKwS, Exec.objCls]
  | _ => simp [dispatchDefinition, tdefMethod, tdefParser]

/-- `parse_definition` when the current token is a NAME keyword of a type-system definition. -/
theorem parseDefinition_ts (cfg : Cfg) (n : Nat) (s : PS) (v : List Nat) (m : String) (hk : s.cur.kind = .name)
    (hv : s.cur.value = some v)
    (h1 : methodFor ParserTables.typeSystemDefinitionMethods (some v) = some m) :
    parseDefinition cfg n s = dispatchDefinition cfg n m s := by
  simp [parseDefinition, bind_eq, peek_eq, peekDescription, P.cur, pure_eq', hk, hv, h1]

/-- `parse_definition` when a description precedes a NAME keyword of a type-system definition. -/
theorem parseDefinition_desc_ts (cfg : Cfg) (n : Nat) (tD tK : Token) (rest : Stream) (cnt : Nat) (v : List Nat)
    (m : String) (hD : tD.kind = .string ∨ tD.kind = .blockString) (hk : tK.kind = .name)
    (hv : tK.value = some v)
    (h1 : methodFor ParserTables.typeSystemDefinitionMethods (some v) = some m) :
    parseDefinition cfg n { cur := tD, rest := .cons tK rest, count := cnt } =
      dispatchDefinition cfg n m { cur := tD, rest := .cons tK rest, count := cnt } := by
  have hne : tD.kind ≠ .eof := by rcases hD with h | h <;> rw [h] <;> decide
  have hnb : (tD.kind == TokKind.braceL) = false := by rcases hD with h | h <;> rw [h] <;> rfl
  have hpd : (tD.kind == TokKind.string || tD.kind == TokKind.blockString) = true := by
    rcases hD with h | h <;> rw [h] <;> rfl
  simp [parseDefinition, bind_eq, peek_eq, peekDescription, P.cur, pure_eq', hnb, hpd, lookahead, hne, hk, hv, h1]

section
variable (cfg : Cfg) (hm : cfg.maxTokens = none)
include hm

theorem parseTDefBody_ok (n : Nat) (d : TDef) (h : Exec.tdefWf cfg.dirOnDir d) (toks : List Token) (r : Stream)
    (cnt : Nat) (hn : (Exec.tdefKvs d).length < n) (hkv : toks.map Token.kv = Exec.tdefKvs d) (hne : NonEof toks)
    (hr : r.Ready) (hnx : Exec.endsBlock (.t d) = false → DefNext r) :
    ∃ c', tdefParser cfg n d (PSat cnt (feed toks r)) = .ok (Exec.tdefAst cfg.dirOnDir d, PSat c' r) := by
  cases d with
  | schema desc ds ots => exact parseTDef_schema cfg hm n desc ds ots h toks r cnt hn hkv hne hr
  | scalar desc nm ds => exact parseTDef_scalar cfg hm n desc nm ds h toks r cnt hn hkv hne hr (hnx rfl)
  | object iface desc nm ifs ds xs =>
    exact parseTDef_object cfg hm n iface desc nm ifs ds xs h toks r cnt hn hkv hne hr
      (fun hx => hnx (by subst hx; rfl))
  | union desc nm ds ts => exact parseTDef_union cfg hm n desc nm ds ts h toks r cnt hn hkv hne hr (hnx rfl)
  | enum desc nm ds xs =>
    exact parseTDef_enum cfg hm n desc nm ds xs h toks r cnt hn hkv hne hr (fun hx => hnx (by subst hx; rfl))
  | input desc nm ds xs =>
    exact parseTDef_input cfg hm n desc nm ds xs h toks r cnt hn hkv hne hr (fun hx => hnx (by subst hx; rfl))
  | directive desc nm args ds rep locs =>
    exact parseTDef_directive cfg hm n desc nm args ds rep locs h toks r cnt hn hkv hne hr (hnx rfl)

/-- `parse_definition` on the tokens of a printed type-system definition. -/
theorem parseTDef_ok (n : Nat) (d : TDef) (h : Exec.tdefWf cfg.dirOnDir d) (toks : List Token) (r : Stream)
    (cnt : Nat) (hn : (Exec.tdefKvs d).length < n) (hkv : toks.map Token.kv = Exec.tdefKvs d) (hne : NonEof toks)
    (hr : r.Ready) (hnx : Exec.endsBlock (.t d) = false → DefNext r) :
    ∃ c', parseDefinition cfg n (PSat cnt (feed toks r)) = .ok (Exec.tdefAst cfg.dirOnDir d, PSat c' r) := by
  obtain ⟨c', hp⟩ := parseTDefBody_ok cfg hm n d h toks r cnt hn hkv hne hr hnx
  refine ⟨c', ?_⟩
  obtain ⟨rest, hsh⟩ := tdefKvs_shape d
  rw [hsh] at hkv
  rw [← tdef_dispatch] at hp
  rcases descKvs_cases (tdefDesc d) with h0 | ⟨k, h0, hk⟩
  · rw [h0, List.nil_append, List.map_eq_cons_iff] at hkv
    obtain ⟨t0, ts, rfl, ht0, _⟩ := hkv
    rw [parseDefinition_ts cfg n _ (tdefKw d) (tdefMethod d) (by simp [feed, (tok_of_kv ht0).1])
      (by simp [feed, (tok_of_kv ht0).2]) (tdef_methodFor d)]
    exact hp
  · rw [h0] at hkv
    simp only [List.cons_append, List.nil_append, List.map_eq_cons_iff] at hkv
    obtain ⟨tD, ts, rfl, htD, tK, ts2, rfl, htK, _⟩ := hkv
    have hDk : tD.kind = .string ∨ tD.kind = .blockString := by
      rw [(tok_of_kv htD).1]; exact hk
    simp only [feed, PSat_cons] at hp ⊢
    rw [parseDefinition_desc_ts cfg n tD tK _ cnt (tdefKw d) (tdefMethod d) hDk (tok_of_kv htK).1
      (tok_of_kv htK).2 (tdef_methodFor d)]
    exact hp

end


/-! ### type-system extensions -/

theorem truthyO_opt {α : Type} (f : α → Ast) (xs : List α) :
    truthyO (if xs = [] then none else some (xs.map f)) = !xs.isEmpty := by
  cases xs <;> simp [truthyO]

theorem mk_schemaExtNode (a b : Ast) :
    mkNode "SchemaExtensionNode" [("directives", a), ("operation_types", b)] =
    .node "SchemaExtensionNode" [("directives", a), ("operation_types", b)] := rfl

theorem mk_scalarExtNode (a b : Ast) :
    mkNode "ScalarTypeExtensionNode" [("name", a), ("directives", b)] =
    .node "ScalarTypeExtensionNode" [("name", a), ("directives", b)] := rfl

theorem mk_objExtNode (iface : Bool) (a b c d : Ast) :
    mkNode (Exec.objExtCls iface) [("name", a), ("interfaces", b), ("directives", c), ("fields", d)] =
    .node (Exec.objExtCls iface) [("name", a), ("directives", c), ("interfaces", b), ("fields", d)] := by
  cases iface <;> rfl

theorem mk_unionExtNode (a b c : Ast) :
    mkNode "UnionTypeExtensionNode" [("name", a), ("directives", b), ("types", c)] =
    .node "UnionTypeExtensionNode" [("name", a), ("directives", b), ("types", c)] := rfl

theorem mk_enumExtNode (a b c : Ast) :
    mkNode "EnumTypeExtensionNode" [("name", a), ("directives", b), ("values", c)] =
    .node "EnumTypeExtensionNode" [("name", a), ("directives", b), ("values", c)] := rfl

theorem mk_inputExtNode (a b c : Ast) :
    mkNode "InputObjectTypeExtensionNode" [("name", a), ("directives", b), ("fields", c)] =
    .node "InputObjectTypeExtensionNode" [("name", a), ("directives", b), ("fields", c)] := rfl

section
variable (cfg : Cfg) (hm : cfg.maxTokens = none)
include hm

/-- `extend` and the second keyword -/
theorem extKw_steps (kw : String) (tE tK : Token) (rest : Stream) (cnt : Nat)
    (hkE : tE.kv = (.name, some (S "extend"))) (hkK : tK.kv = (.name, some (S kw))) (hrest : rest.Ready) :
    ∃ c1 c2, expectKeyword cfg "extend" { cur := tE, rest := .cons tK rest, count := cnt } =
        .ok ((), { cur := tK, rest := rest, count := c1 }) ∧
      expectKeyword cfg kw { cur := tK, rest := rest, count := c1 } = .ok ((), PSat c2 rest) := by
  obtain ⟨hEk, hEv⟩ := tok_of_kv hkE
  obtain ⟨hKk, hKv⟩ := tok_of_kv hkK
  obtain ⟨c1, h1⟩ := expectKeyword_ok cfg hm "extend" tE (.cons tK rest) cnt hEk ((valueIs_iff hEv _).mpr rfl)
    (by simp [Stream.Ready, hKk])
  obtain ⟨c2, h2⟩ := expectKeyword_ok cfg hm kw tK rest c1 hKk ((valueIs_iff hKv kw).mpr rfl) hrest
  exact ⟨c1, c2, h1, h2⟩

theorem parseEDef_scalar (n : Nat) (nm : List Nat) (ds : List Dir) (h : Exec.edefWf (.scalar nm ds))
    (toks : List Token) (r : Stream) (cnt : Nat) (hn : (Exec.edefKvs (.scalar nm ds)).length < n)
    (hkv : toks.map Token.kv = Exec.edefKvs (.scalar nm ds)) (hne : NonEof toks) (hr : r.Ready)
    (hnx : DefNext r) :
    ∃ c', parseScalarTypeExtension cfg n (PSat cnt (feed toks r)) =
      .ok (Exec.edefAst (.scalar nm ds), PSat c' r) := by
  obtain ⟨hnm, hds, hdne⟩ := h
  obtain ⟨hnat, hnpar, _⟩ := hnx.ne
  simp only [Exec.edefKvs, EDef.base, Exec.tdefKvs, Exec.descKvs, List.nil_append, List.map_eq_cons_iff] at hkv
  simp only [Exec.edefKvs, EDef.base, Exec.tdefKvs, Exec.descKvs, List.nil_append, List.length_cons] at hn
  obtain ⟨tE, t1, rfl, hkE, tK, t3, rfl, hkK, tN, tds, rfl, hkN, hkds⟩ := hkv
  obtain ⟨hNk, hNv⟩ := tok_of_kv hkN
  have hRd : (feed tds r).Ready := feed_ready _ _ hne.tail.tail.tail hr
  have hNne : tN.kind ≠ .eof := by rw [hNk]; decide
  have hem : ds.isEmpty = false := by cases ds <;> simp_all
  obtain ⟨c1, c2, h1, h2⟩ := extKw_steps cfg hm "scalar" tE tK (.cons tN (feed tds r)) cnt hkE hkK
    (by simp [Stream.Ready, hNne])
  obtain ⟨c3, h3⟩ := parseName_ok cfg hm tN nm (feed tds r) c2 hNk hNv hRd
  obtain ⟨cd, hD⟩ := parseDirectives_raw cfg hm true ds hds n tds r c3 (by omega) hkds hne.tail.tail.tail hr
    hnat hnpar
  refine ⟨cd, ?_⟩
  simp only [feed, PSat_cons] at h1 h2 h3 ⊢
  simp only [parseScalarTypeExtension, bind_eq, h1, h2, h3, hD, truthyO_opt, hem, Bool.not_false, Bool.not_true,
    Bool.false_eq_true, ↓reduceIte, pure_eq', mk_scalarExtNode, dirsAst_opt]
  simp [Exec.edefAst, Val.nameNode]

theorem parseEDef_union (n : Nat) (nm : List Nat) (ds : List Dir) (ts : List (List Nat))
    (h : Exec.edefWf (.union nm ds ts)) (toks : List Token) (r : Stream) (cnt : Nat)
    (hn : (Exec.edefKvs (.union nm ds ts)).length < n)
    (hkv : toks.map Token.kv = Exec.edefKvs (.union nm ds ts)) (hne : NonEof toks) (hr : r.Ready)
    (hnx : DefNext r) :
    ∃ c', parseUnionTypeExtension cfg n (PSat cnt (feed toks r)) =
      .ok (Exec.edefAst (.union nm ds ts), PSat c' r) := by
  obtain ⟨hnm, hds, hts, hsome⟩ := h
  obtain ⟨hnat, hnpar, _, hneq, _, hnpipe⟩ := hnx.ne
  simp only [Exec.edefKvs, EDef.base, Exec.tdefKvs, Exec.descKvs, List.nil_append] at hkv hn
  rw [List.map_eq_cons_iff] at hkv
  obtain ⟨tE, t1, rfl, hkE, hkv⟩ := hkv
  rw [List.map_eq_append_iff] at hkv
  obtain ⟨t2, tun, rfl, hk2, hkun⟩ := hkv
  simp only [List.map_eq_cons_iff] at hk2
  obtain ⟨tK, t3, rfl, hkK, tN, tds, rfl, hkN, hkds⟩ := hk2
  obtain ⟨hNk, hNv⟩ := tok_of_kv hkN
  have hne2 : NonEof (tK :: tN :: tds) := hne.tail.append_left
  have hne3 : NonEof tun := hne.tail.append_right
  have hRu : (feed tun r).Ready := feed_ready _ _ hne3 hr
  have hRd : (feed tds (feed tun r)).Ready := feed_ready _ _ hne2.tail.tail hRu
  have hNne : tN.kind ≠ .eof := by rw [hNk]; decide
  have hku : headKind (feed tun r) = if ts.isEmpty then headKind r else .equals := by
    rw [headKind_feed tun _ r hkun]
    unfold Exec.unionKvs
    cases ts.isEmpty <;> simp [firstK]
  have hku' : headKind (feed tun r) ≠ .at ∧ headKind (feed tun r) ≠ .parenL := by
    rw [hku]; split
    · exact ⟨hnat, hnpar⟩
    · exact ⟨by decide, by decide⟩
  have hcond : (!ds.isEmpty || !ts.isEmpty) = true := by
    rcases hsome with h' | h'
    · cases ds <;> simp_all
    · cases ts <;> simp_all
  simp only [List.length_cons, List.length_append] at hn
  obtain ⟨c1, c2, h1, h2⟩ := extKw_steps cfg hm "union" tE tK (.cons tN (feed tds (feed tun r))) cnt hkE hkK
    (by simp [Stream.Ready, hNne])
  obtain ⟨c3, h3⟩ := parseName_ok cfg hm tN nm (feed tds (feed tun r)) c2 hNk hNv hRd
  obtain ⟨cd, hD⟩ := parseDirectives_raw cfg hm true ds hds n tds (feed tun r) c3 (by omega) hkds hne2.tail.tail
    hRu hku'.1 hku'.2
  obtain ⟨cu, hU⟩ := parseUnionMembers_ok cfg hm ts n tun r cd (by omega) hkun hne3 hr (fun _ => hneq) hnpipe
  refine ⟨cu, ?_⟩
  simp only [feed_append, feed, PSat_cons] at h1 h2 h3 ⊢
  simp only [parseUnionTypeExtension, bind_eq, h1, h2, h3, hD, hU, truthyO_opt, hcond, Bool.not_true,
    Bool.false_eq_true, ↓reduceIte, pure_eq', mk_unionExtNode, dirsAst_opt, optL_map_opt]
  simp [Exec.edefAst, Val.nameNode, Exec.dirsAst]

theorem parseEDef_enum (n : Nat) (nm : List Nat) (ds : List Dir) (xs : List EVDef)
    (h : Exec.edefWf (.enum nm ds xs)) (toks : List Token) (r : Stream) (cnt : Nat)
    (hn : (Exec.edefKvs (.enum nm ds xs)).length < n)
    (hkv : toks.map Token.kv = Exec.edefKvs (.enum nm ds xs)) (hne : NonEof toks) (hr : r.Ready)
    (hnx : xs = [] → DefNext r) :
    ∃ c', parseEnumTypeExtension cfg n (PSat cnt (feed toks r)) =
      .ok (Exec.edefAst (.enum nm ds xs), PSat c' r) := by
  obtain ⟨hnm, hds, hxs, hsome⟩ := h
  simp only [Exec.edefKvs, EDef.base, Exec.tdefKvs, Exec.descKvs, List.nil_append] at hkv hn
  rw [List.map_eq_cons_iff] at hkv
  obtain ⟨tE, t1, rfl, hkE, hkv⟩ := hkv
  rw [List.map_eq_append_iff] at hkv
  obtain ⟨t2, tb, rfl, hk2, hkb⟩ := hkv
  simp only [List.map_eq_cons_iff] at hk2
  obtain ⟨tK, t3, rfl, hkK, tN, tds, rfl, hkN, hkds⟩ := hk2
  obtain ⟨hNk, hNv⟩ := tok_of_kv hkN
  have hne2 : NonEof (tK :: tN :: tds) := hne.tail.append_left
  have hne3 : NonEof tb := hne.tail.append_right
  have hRb : (feed tb r).Ready := feed_ready _ _ hne3 hr
  have hRd : (feed tds (feed tb r)).Ready := feed_ready _ _ hne2.tail.tail hRb
  have hNne : tN.kind ≠ .eof := by rw [hNk]; decide
  have hkb' : headKind (feed tb r) ≠ .at ∧ headKind (feed tb r) ≠ .parenL := by
    rw [headKind_feed tb _ r hkb, firstK_bracket]
    cases hx : xs.isEmpty with
    | true =>
      have hx' : xs = [] := by cases xs <;> simp_all
      simp only [↓reduceIte]
      exact ⟨(hnx hx').ne.1, (hnx hx').ne.2.1⟩
    | false => simp
  have hil0 : (Exec.evsKvs xs).length ≤ (Exec.bracketKvs .braceL .braceR (Exec.evsKvs xs) xs.isEmpty).length := by
    cases hx : xs.isEmpty with
    | true =>
      have hx' : xs = [] := by cases xs <;> simp_all
      subst hx'; simp [Exec.evsKvs]
    | false => simp [Exec.bracketKvs] <;> omega
  have hcond : (!ds.isEmpty || !xs.isEmpty) = true := by
    rcases hsome with h' | h'
    · cases ds <;> simp_all
    · cases xs <;> simp_all
  simp only [List.length_cons, List.length_append] at hn
  obtain ⟨c1, c2, h1, h2⟩ := extKw_steps cfg hm "enum" tE tK (.cons tN (feed tds (feed tb r))) cnt hkE hkK
    (by simp [Stream.Ready, hNne])
  obtain ⟨c3, h3⟩ := parseName_ok cfg hm tN nm (feed tds (feed tb r)) c2 hNk hNv hRd
  obtain ⟨cd, hD⟩ := parseDirectives_raw cfg hm true ds hds n tds (feed tb r) c3 (by omega) hkds hne2.tail.tail
    hRb hkb'.1 hkb'.2
  obtain ⟨cb, hB⟩ := parseEvBlock_ok cfg hm  xs hxs n tb r cd (by omega) hkb hne3 hr
    (fun hx => (hnx hx).ne.2.2.1)
  refine ⟨cb, ?_⟩
  simp only [feed_append, feed, PSat_cons] at h1 h2 h3 ⊢
  simp only [parseEnumTypeExtension, bind_eq, h1, h2, h3, hD, hB, truthyO_opt, hcond, Bool.not_true,
    Bool.false_eq_true, ↓reduceIte, pure_eq', mk_enumExtNode, dirsAst_opt, optL_map_opt]
  simp [Exec.edefAst, Val.nameNode, Exec.dirsAst]

theorem parseEDef_input (n : Nat) (nm : List Nat) (ds : List Dir) (xs : List VarDef)
    (h : Exec.edefWf (.input nm ds xs)) (toks : List Token) (r : Stream) (cnt : Nat)
    (hn : (Exec.edefKvs (.input nm ds xs)).length < n)
    (hkv : toks.map Token.kv = Exec.edefKvs (.input nm ds xs)) (hne : NonEof toks) (hr : r.Ready)
    (hnx : xs = [] → DefNext r) :
    ∃ c', parseInputObjectTypeExtension cfg n (PSat cnt (feed toks r)) =
      .ok (Exec.edefAst (.input nm ds xs), PSat c' r) := by
  obtain ⟨hnm, hds, hxs, hsome⟩ := h
  simp only [Exec.edefKvs, EDef.base, Exec.tdefKvs, Exec.descKvs, List.nil_append] at hkv hn
  rw [List.map_eq_cons_iff] at hkv
  obtain ⟨tE, t1, rfl, hkE, hkv⟩ := hkv
  rw [List.map_eq_append_iff] at hkv
  obtain ⟨t2, tb, rfl, hk2, hkb⟩ := hkv
  simp only [List.map_eq_cons_iff] at hk2
  obtain ⟨tK, t3, rfl, hkK, tN, tds, rfl, hkN, hkds⟩ := hk2
  obtain ⟨hNk, hNv⟩ := tok_of_kv hkN
  have hne2 : NonEof (tK :: tN :: tds) := hne.tail.append_left
  have hne3 : NonEof tb := hne.tail.append_right
  have hRb : (feed tb r).Ready := feed_ready _ _ hne3 hr
  have hRd : (feed tds (feed tb r)).Ready := feed_ready _ _ hne2.tail.tail hRb
  have hNne : tN.kind ≠ .eof := by rw [hNk]; decide
  have hkb' : headKind (feed tb r) ≠ .at ∧ headKind (feed tb r) ≠ .parenL := by
    rw [headKind_feed tb _ r hkb, firstK_bracket]
    cases hx : xs.isEmpty with
    | true =>
      have hx' : xs = [] := by cases xs <;> simp_all
      simp only [↓reduceIte]
      exact ⟨(hnx hx').ne.1, (hnx hx').ne.2.1⟩
    | false => simp
  have hil0 : (Exec.ivdsKvs xs).length ≤ (Exec.bracketKvs .braceL .braceR (Exec.ivdsKvs xs) xs.isEmpty).length := by
    cases hx : xs.isEmpty with
    | true =>
      have hx' : xs = [] := by cases xs <;> simp_all
      subst hx'; simp [Exec.ivdsKvs]
    | false => simp [Exec.bracketKvs] <;> omega
  have hcond : (!ds.isEmpty || !xs.isEmpty) = true := by
    rcases hsome with h' | h'
    · cases ds <;> simp_all
    · cases xs <;> simp_all
  simp only [List.length_cons, List.length_append] at hn
  obtain ⟨c1, c2, h1, h2⟩ := extKw_steps cfg hm "input" tE tK (.cons tN (feed tds (feed tb r))) cnt hkE hkK
    (by simp [Stream.Ready, hNne])
  obtain ⟨c3, h3⟩ := parseName_ok cfg hm tN nm (feed tds (feed tb r)) c2 hNk hNv hRd
  obtain ⟨cd, hD⟩ := parseDirectives_raw cfg hm true ds hds n tds (feed tb r) c3 (by omega) hkds hne2.tail.tail
    hRb hkb'.1 hkb'.2
  obtain ⟨cb, hB⟩ := parseIvdList_ok cfg hm .braceL .braceR (by decide) (Or.inl rfl) xs hxs n tb r cd (by omega) hkb hne3 hr
    (fun hx => (hnx hx).ne.2.2.1)
  refine ⟨cb, ?_⟩
  simp only [feed_append, feed, PSat_cons] at h1 h2 h3 ⊢
  simp only [parseInputObjectTypeExtension, parseInputFieldsDefinition, bind_eq, h1, h2, h3, hD, hB, truthyO_opt, hcond, Bool.not_true,
    Bool.false_eq_true, ↓reduceIte, pure_eq', mk_inputExtNode, dirsAst_opt, optL_map_opt]
  simp [Exec.edefAst, Val.nameNode, Exec.dirsAst]

end


section
variable (cfg : Cfg) (hm : cfg.maxTokens = none)
include hm

theorem parseEDef_object (n : Nat) (iface : Bool) (nm : List Nat) (ifs : List (List Nat))
    (ds : List Dir) (xs : List FDef)
    (h : Exec.edefWf (.object iface nm ifs ds xs)) (toks : List Token) (r : Stream) (cnt : Nat)
    (hn : (Exec.edefKvs (.object iface nm ifs ds xs)).length < n)
    (hkv : toks.map Token.kv = Exec.edefKvs (.object iface nm ifs ds xs)) (hne : NonEof toks) (hr : r.Ready)
    (hnx : xs = [] → DefNext r) :
    ∃ c', parseObjectLikeExtension cfg n (objKwS iface) (Exec.objExtCls iface) (PSat cnt (feed toks r)) =
      .ok (Exec.edefAst (.object iface nm ifs ds xs), PSat c' r) := by
  obtain ⟨hnm, hifs, hds, hxs, hsome⟩ := h
  simp only [Exec.edefKvs, EDef.base, Exec.tdefKvs, Exec.descKvs, List.nil_append, objKw_S] at hkv hn
  rw [List.map_eq_cons_iff] at hkv
  obtain ⟨tE, t1, rfl, hkE, hkv⟩ := hkv
  rw [List.map_eq_append_iff] at hkv
  obtain ⟨t12, tb, rfl, hk12, hkb⟩ := hkv
  rw [List.map_eq_append_iff] at hk12
  obtain ⟨t2, tds, rfl, hk2, hkds⟩ := hk12
  simp only [List.map_eq_cons_iff] at hk2
  obtain ⟨tK, t3, rfl, hkK, tN, timpl, rfl, hkN, hkimpl⟩ := hk2
  obtain ⟨hNk, hNv⟩ := tok_of_kv hkN
  have hne2 : NonEof (tK :: tN :: timpl) := hne.tail.append_left.append_left
  have hne_ds : NonEof tds := hne.tail.append_left.append_right
  have hne3 : NonEof tb := hne.tail.append_right
  have hRb : (feed tb r).Ready := feed_ready _ _ hne3 hr
  have hRd : (feed tds (feed tb r)).Ready := feed_ready _ _ hne_ds hRb
  have hRi : (feed timpl (feed tds (feed tb r))).Ready := feed_ready _ _ hne2.tail.tail hRd
  have hNne : tN.kind ≠ .eof := by rw [hNk]; decide
  have hkbK : headKind (feed tb r) = if xs.isEmpty then headKind r else .braceL := by
    rw [headKind_feed tb _ r hkb, firstK_bracket]
  have hkb' : headKind (feed tb r) ≠ .at ∧ headKind (feed tb r) ≠ .parenL ∧ headKind (feed tb r) ≠ .amp := by
    rw [hkbK]
    cases hx : xs.isEmpty with
    | true =>
      have hx' : xs = [] := by cases xs <;> simp_all
      simp only [↓reduceIte]
      exact ⟨(hnx hx').ne.1, (hnx hx').ne.2.1, (hnx hx').ne.2.2.2.2.1⟩
    | false => simp
  have hkd' : headKind (feed tds (feed tb r)) ≠ .amp := by
    rw [headKind_feed tds _ _ hkds, firstK_dirs]; split
    · exact hkb'.2.2
    · decide
  have hnkb : NotKw (feed tb r) "implements" := by
    refine notKw_feed "implements" tb _ r hkb ?_ ?_
    · intro h0
      have hx' : xs = [] := by
        cases xs with
        | nil => rfl
        | cons a b => simp [Exec.bracketKvs] at h0
      exact (hnx hx').nimpl
    · intro k ks h0 hk
      rw [bracketKvs_head _ _ _ _ k ks h0] at hk; cases hk
  have hnkd : NotKw (feed tds (feed tb r)) "implements" := by
    refine notKw_feed "implements" tds _ _ hkds (fun _ => hnkb) ?_
    intro k ks h0 hk
    rw [dirsKvs_head_at ds k ks h0] at hk; cases hk
  have hil0 : (Exec.fdsKvs xs).length ≤ (Exec.bracketKvs .braceL .braceR (Exec.fdsKvs xs) xs.isEmpty).length := by
    cases hx : xs.isEmpty with
    | true =>
      have hx' : xs = [] := by cases xs <;> simp_all
      subst hx'; simp [Exec.fdsKvs]
    | false => simp [Exec.bracketKvs] <;> omega
  have hcond : (!ifs.isEmpty || !ds.isEmpty || !xs.isEmpty) = true := by
    rcases hsome with h' | h' | h'
    · cases ifs <;> simp_all
    · cases ds <;> simp_all
    · cases xs <;> simp_all
  simp only [List.length_append, List.length_cons] at hn
  obtain ⟨c1, c2, h1, h2⟩ := extKw_steps cfg hm (objKwS iface) tE tK
    (.cons tN (feed timpl (feed tds (feed tb r)))) cnt hkE hkK (by simp [Stream.Ready, hNne])
  obtain ⟨c3, h3⟩ := parseName_ok cfg hm tN nm (feed timpl (feed tds (feed tb r))) c2 hNk hNv hRi
  obtain ⟨ci, hI⟩ := parseImpl_ok cfg hm ifs n timpl (feed tds (feed tb r)) c3 (by omega) hkimpl hne2.tail.tail hRd
    (fun _ => hnkd) hkd'
  obtain ⟨cd, hD⟩ := parseDirectives_raw cfg hm true ds hds n tds (feed tb r) ci (by omega) hkds hne_ds
    hRb hkb'.1 hkb'.2.1
  obtain ⟨cb, hB⟩ := parseFdBlock_ok cfg hm xs hxs n tb r cd (by omega) hkb hne3 hr
    (fun hx => (hnx hx).ne.2.2.1)
  refine ⟨cb, ?_⟩
  simp only [feed_append, feed, PSat_cons] at h1 h2 h3 ⊢
  simp only [parseObjectLikeExtension, bind_eq, h1, h2, h3, hI, hD, hB, truthyO_opt, hcond, Bool.not_true,
    Bool.false_eq_true, ↓reduceIte, pure_eq', mk_objExtNode, dirsAst_opt, optL_map_opt]
  simp [Exec.edefAst, Val.nameNode, Exec.dirsAst]

theorem parseEDef_schema (n : Nat) (ds : List Dir) (ots : List (List Nat × List Nat))
    (h : Exec.edefWf (.schema ds ots)) (toks : List Token) (r : Stream) (cnt : Nat)
    (hn : (Exec.edefKvs (.schema ds ots)).length < n)
    (hkv : toks.map Token.kv = Exec.edefKvs (.schema ds ots)) (hne : NonEof toks) (hr : r.Ready)
    (hnx : ots = [] → DefNext r) :
    ∃ c', parseSchemaExtension cfg n (PSat cnt (feed toks r)) =
      .ok (Exec.edefAst (.schema ds ots), PSat c' r) := by
  obtain ⟨hds, hots, hsome⟩ := h
  simp only [Exec.edefKvs, EDef.base, Exec.tdefKvs, Exec.descKvs, List.nil_append] at hkv hn
  rw [List.map_eq_cons_iff] at hkv
  obtain ⟨tE, t1, rfl, hkE, hkv⟩ := hkv
  rw [List.map_eq_append_iff] at hkv
  obtain ⟨t2, tb, rfl, hk2, hkb⟩ := hkv
  simp only [List.map_eq_cons_iff] at hk2
  obtain ⟨tK, tds, rfl, hkK, hkds⟩ := hk2
  have hne2 : NonEof (tK :: tds) := hne.tail.append_left
  have hne3 : NonEof tb := hne.tail.append_right
  have hRb : (feed tb r).Ready := feed_ready _ _ hne3 hr
  have hRd : (feed tds (feed tb r)).Ready := feed_ready _ _ hne2.tail hRb
  have hkb' : headKind (feed tb r) ≠ .at ∧ headKind (feed tb r) ≠ .parenL := by
    rw [headKind_feed tb _ r hkb, firstK_bracket]
    cases hx : ots.isEmpty with
    | true =>
      have hx' : ots = [] := by cases ots <;> simp_all
      simp only [↓reduceIte]
      exact ⟨(hnx hx').ne.1, (hnx hx').ne.2.1⟩
    | false => simp
  have hl := otsKvs_length ots
  have hil0 : (Exec.otsKvs ots).length ≤ (Exec.bracketKvs .braceL .braceR (Exec.otsKvs ots) ots.isEmpty).length := by
    cases hx : ots.isEmpty with
    | true =>
      have hx' : ots = [] := by cases ots <;> simp_all
      subst hx'; simp [Exec.otsKvs]
    | false => simp [Exec.bracketKvs] <;> omega
  have hcond : (!ds.isEmpty || !ots.isEmpty) = true := by
    rcases hsome with h' | h'
    · cases ds <;> simp_all
    · cases ots <;> simp_all
  simp only [List.length_cons, List.length_append] at hn
  obtain ⟨c1, c2, h1, h2⟩ := extKw_steps cfg hm "schema" tE tK (feed tds (feed tb r)) cnt hkE hkK hRd
  obtain ⟨cd, hD⟩ := parseDirectives_raw cfg hm true ds hds n tds (feed tb r) c2 (by omega) hkds hne2.tail
    hRb hkb'.1 hkb'.2
  obtain ⟨cb, hB⟩ := optMany_ok cfg hm .braceL .braceR (by decide) (Or.inl rfl) (parseOperationTypeDefinition cfg)
    (ots.map (fun a => (Exec.otAst a, Exec.otKvs a))) (otItems_ok cfg hm ots hots) n tb r cd
    (by simp; omega) (by rw [← otsKvs_flatten]; simpa using hkb) hne3 hr
    (by intro hx; exact (hnx (by simpa using hx)).ne.2.2.1)
  have hBo : truthyO (if ots.map (fun a => (Exec.otAst a, Exec.otKvs a)) = [] then none
      else some ((ots.map (fun a => (Exec.otAst a, Exec.otKvs a))).map (·.1))) = !ots.isEmpty := by
    cases ots <;> simp [truthyO]
  have hBl : optListO (if ots.map (fun a => (Exec.otAst a, Exec.otKvs a)) = [] then none
      else some ((ots.map (fun a => (Exec.otAst a, Exec.otKvs a))).map (·.1))) = optL (ots.map Exec.otAst) := by
    cases ots <;> simp [optListO, optL, Function.comp_def]
  have hcond' : (!(!ds.isEmpty) && !(!ots.isEmpty)) = false := by
    cases hd : ds.isEmpty <;> cases ho : ots.isEmpty <;> simp_all
  refine ⟨cb, ?_⟩
  simp only [feed_append, feed, PSat_cons] at h1 h2 ⊢
  simp only [parseSchemaExtension, bind_eq, h1, h2, hD, hB, truthyO_opt, hBo, hcond', Bool.false_eq_true,
    ↓reduceIte, pure_eq', mk_schemaExtNode, dirsAst_opt, hBl]
  simp [Exec.edefAst]

end


def edefKw : EDef → List Nat
  | .schema .. => S "schema"
  | .scalar .. => S "scalar"
  | .object iface .. => Exec.objKw iface
  | .union .. => S "union"
  | .enum .. => S "enum"
  | .input .. => S "input"

def edefMethod : EDef → String
  | .schema .. => "schema_extension"
  | .scalar .. => "scalar_type_extension"
  | .object iface .. => if iface then "interface_type_extension" else "object_type_extension"
  | .union .. => "union_type_extension"
  | .enum .. => "enum_type_extension"
  | .input .. => "input_object_type_extension"

def edefParser (cfg : Cfg) (n : Nat) : EDef → P Ast
  | .schema .. => parseSchemaExtension cfg n
  | .scalar .. => parseScalarTypeExtension cfg n
  | .object iface .. => parseObjectLikeExtension cfg n (objKwS iface) (Exec.objExtCls iface)
  | .union .. => parseUnionTypeExtension cfg n
  | .enum .. => parseEnumTypeExtension cfg n
  | .input .. => parseInputObjectTypeExtension cfg n

theorem edefKvs_shape (d : EDef) :
    ∃ rest, Exec.edefKvs d = (.name, some (S "extend")) :: (.name, some (edefKw d)) :: rest := by
  cases d <;>
    simp only [Exec.edefKvs, EDef.base, Exec.tdefKvs, Exec.descKvs, edefKw, List.nil_append, List.append_assoc,
      List.cons_append] <;> exact ⟨_, rfl⟩

theorem edef_methodFor (d : EDef) :
    methodFor ParserTables.typeExtensionMethods (some (edefKw d)) = some (edefMethod d) := by
  cases d with
  | object iface => cases iface <;> (simp only [edefKw, edefMethod, Exec.objKw]; decide)
  | _ => simp only [edefKw, edefMethod] <;> decide

theorem edef_dispatch (cfg : Cfg) (n : Nat) (d : EDef) :
    dispatchExtension cfg n (edefMethod d) = edefParser cfg n d := by
  cases d with
  | object iface => cases iface <;> simp [dispatchExtension, edefMethod, edefParser, objKwS, Exec.objExtCls]
  | _ => simp [dispatchExtension, edefMethod, edefParser]

/-- `parse_definition` on `extend KEYWORD …`. -/
theorem parseDefinition_ext (cfg : Cfg) (n : Nat) (tE tK : Token) (rest : Stream) (cnt : Nat) (v : List Nat)
    (m : String) (hEk : tE.kind = .name) (hEv : tE.value = some (S "extend")) (hk : tK.kind = .name)
    (hv : tK.value = some v) (h1 : methodFor ParserTables.typeExtensionMethods (some v) = some m) :
    parseDefinition cfg n { cur := tE, rest := .cons tK rest, count := cnt } =
      dispatchExtension cfg n m { cur := tE, rest := .cons tK rest, count := cnt } := by
  have m1 : methodFor ParserTables.typeSystemDefinitionMethods (some (S "extend")) = none := by decide
  have m2 : methodFor ParserTables.executableDefinitionMethods (some (S "extend")) = none := by decide
  have m3 : methodFor ParserTables.otherDefinitionMethods (some (S "extend")) = some "type_system_extension" := by
    decide
  have hne : tE.kind ≠ .eof := by rw [hEk]; decide
  simp [parseDefinition, bind_eq, peek_eq, peekDescription, P.cur, pure_eq', hEk, hEv, m1, m2, m3,
    dispatchDefinition, parseTypeSystemExtension, lookahead, hne, hk, hv, h1]

section
variable (cfg : Cfg) (hm : cfg.maxTokens = none)
include hm

theorem parseEDefBody_ok (n : Nat) (d : EDef) (h : Exec.edefWf d) (toks : List Token) (r : Stream)
    (cnt : Nat) (hn : (Exec.edefKvs d).length < n) (hkv : toks.map Token.kv = Exec.edefKvs d) (hne : NonEof toks)
    (hr : r.Ready) (hnx : Exec.endsBlock (.e d) = false → DefNext r) :
    ∃ c', edefParser cfg n d (PSat cnt (feed toks r)) = .ok (Exec.edefAst d, PSat c' r) := by
  cases d with
  | schema ds ots =>
    exact parseEDef_schema cfg hm n ds ots h toks r cnt hn hkv hne hr (fun hx => hnx (by subst hx; rfl))
  | scalar nm ds => exact parseEDef_scalar cfg hm n nm ds h toks r cnt hn hkv hne hr (hnx rfl)
  | object iface nm ifs ds xs =>
    exact parseEDef_object cfg hm n iface nm ifs ds xs h toks r cnt hn hkv hne hr
      (fun hx => hnx (by subst hx; rfl))
  | union nm ds ts => exact parseEDef_union cfg hm n nm ds ts h toks r cnt hn hkv hne hr (hnx rfl)
  | enum nm ds xs =>
    exact parseEDef_enum cfg hm n nm ds xs h toks r cnt hn hkv hne hr (fun hx => hnx (by subst hx; rfl))
  | input nm ds xs =>
    exact parseEDef_input cfg hm n nm ds xs h toks r cnt hn hkv hne hr (fun hx => hnx (by subst hx; rfl))

/-- `parse_definition` on the tokens of a printed type-system extension. -/
theorem parseEDef_ok (n : Nat) (d : EDef) (h : Exec.edefWf d) (toks : List Token) (r : Stream)
    (cnt : Nat) (hn : (Exec.edefKvs d).length < n) (hkv : toks.map Token.kv = Exec.edefKvs d) (hne : NonEof toks)
    (hr : r.Ready) (hnx : Exec.endsBlock (.e d) = false → DefNext r) :
    ∃ c', parseDefinition cfg n (PSat cnt (feed toks r)) = .ok (Exec.edefAst d, PSat c' r) := by
  obtain ⟨c', hp⟩ := parseEDefBody_ok cfg hm n d h toks r cnt hn hkv hne hr hnx
  refine ⟨c', ?_⟩
  obtain ⟨rest, hsh⟩ := edefKvs_shape d
  rw [hsh] at hkv
  rw [← edef_dispatch] at hp
  simp only [List.map_eq_cons_iff] at hkv
  obtain ⟨tE, ts, rfl, htE, tK, ts2, rfl, htK, _⟩ := hkv
  simp only [feed, PSat_cons] at hp ⊢
  rw [parseDefinition_ext cfg n tE tK _ cnt (edefKw d) (edefMethod d) (tok_of_kv htE).1 (tok_of_kv htE).2
    (tok_of_kv htK).1 (tok_of_kv htK).2 (edef_methodFor d)]
  exact hp

end

end Gql.Syntax
