/-
C13 — soundness, first stage: completion of a conforming value, and the request level.
-/
import Gql.Proofs.SoundExec2

namespace Gql.Exec.Valid
open Gql.Exec Gql.Exec.Refine

variable (cx : Spec.Ctx)

theorem mergeSelectionSets_single (node : FieldNode) :
    Spec.mergeSelectionSets [node] = node.sels := by
  simp [Spec.mergeSelectionSets]

theorem runtimeType_kind {s : Schema} {n : Name} {tn : TN} {rt : Name}
    (h : runtimeType s n tn = some rt) : s.kind n = .object ∧ rt = n ∨
      s.kind n = .abstract ∧ Spec.resolveAbstractType s n tn = .ok rt := by
  unfold runtimeType at h
  cases hk : s.kind n with
  | object => simp only [hk, Option.some.injEq] at h; exact Or.inl ⟨rfl, h.symm⟩
  | abstract =>
    simp only [hk] at h
    cases hr : Spec.resolveAbstractType s n tn with
    | error k => simp [hr] at h
    | ok rt' => simp only [hr, Option.some.injEq] at h; subst h; exact Or.inr ⟨rfl, rfl⟩
  | leaf => simp [hk] at h
  | input => simp [hk] at h
  | unknown => simp [hk] at h

/-- the object case, given the statement for all children -/
theorem object_sound (hyps : SoundHyps cx.ops cx.schema) (n : Name) (nn : Bool) (tn : TN)
    (f : Name → ArgMap → RVal) (node : FieldNode) (pos : List PSeg)
    (hconf : Conforms cx.ops cx.schema (.named n nn) (.obj tn f))
    (hwt : NodeWT cx.schema cx.doc n node)
    (hchild : ∀ (name : Name) (args : ArgMap) (t : TypeRef) (node : FieldNode) (pos : List PSeg),
      Conforms cx.ops cx.schema t (f name args) → NodeWT cx.schema cx.doc t.baseName node →
      Res cx t node (f name args) (Spec.completeValue cx t [node] pos (f name args))) :
    Res cx (.named n nn) node (.obj tn f)
      (Spec.completeNamed cx (.named n nn) [node] pos none tn
        (fun name args t fields pos => Spec.completeValue cx t fields pos (f name args))) := by
  simp only [Conforms] at hconf
  obtain ⟨rt, fs, hrt, hfs, hc⟩ := hconf
  obtain ⟨hagree, hobj⟩ := fieldsAgree_of_runtime hyps hrt
  have hnl : isLeaf cx.schema n = false := by
    rcases runtimeType_kind hrt with ⟨hk, _⟩ | ⟨hk, _⟩ <;> simp [isLeaf, hk]
  unfold NodeWT at hwt
  simp only [hnl, Bool.false_eq_true, ↓reduceIte] at hwt
  obtain ⟨hplain, hdist, hvalid⟩ := hwt
  have hdist' := hdist
  simp only [distinctSels, Bool.and_eq_true] at hdist'
  have hnd : (node.sels.map keyOfSel).Nodup := (nodupNames_iff _).1 hdist'.1
  have hcol := collectFields_plain cx rt node.sels hplain hnd
  obtain ⟨g1, kvs, g2, g3⟩ := groups_sound cx hyps n rt fs f hagree hfs hc hchild node.sels pos
    hplain hdist'.2 hvalid
  have hexec : Spec.executeSelectionSet cx rt (Spec.mergeSelectionSets [node]) pos
      (fun name args t fields pos => Spec.completeValue cx t fields pos (f name args)) =
      { out := some (Json.obj kvs), errs := [], log := (Spec.executeGroups cx rt
          (fun name args t fields pos => Spec.completeValue cx t fields pos (f name args)) pos
          (groupsOf node.sels)).log } := by
    unfold Spec.executeSelectionSet
    rw [mergeSelectionSets_single, hcol]
    simp [g1, g2]
  have hshape : shapeOk cx (.named n nn) [node] (.obj tn f) (Json.obj kvs) = true := by
    unfold shapeOk
    simp only [hrt, mergeSelectionSets_single, hcol, g3]
  unfold Spec.completeNamed
  rcases runtimeType_kind hrt with ⟨hk, hrt'⟩ | ⟨hk, hres⟩
  · subst hrt'
    simp only [hk, hexec]
    exact ⟨rfl, _, rfl, hshape⟩
  · simp only [hk, hres, hexec]
    exact ⟨rfl, _, rfl, hshape⟩

end Gql.Exec.Valid

namespace Gql.Exec.Valid
open Gql.Exec Gql.Exec.Refine

variable (cx : Spec.Ctx)

/-- list items: no errors, all values, item shapes -/
def ResItems (cx : Spec.Ctx) (t : TypeRef) (node : FieldNode) (items : List RVal)
    (r : Spec.R (List Json)) : Prop :=
  r.errs = [] ∧ ∃ js, r.out = some js ∧ shapeItems cx t [node] items js = true

mutual
theorem complete_sound (hyps : SoundHyps cx.ops cx.schema) : (d : RVal) → ∀ (t : TypeRef)
    (node : FieldNode) (pos : List PSeg), Conforms cx.ops cx.schema t d →
    NodeWT cx.schema cx.doc t.baseName node →
    Res cx t node d (Spec.completeValue cx t [node] pos d)
  | .raise tag p, t, node, pos, hc, _ => by simp [Conforms] at hc
  | .null, t, node, pos, hc, _ => by
    simp only [Conforms] at hc
    unfold Spec.completeValue Spec.completeNull
    simp only [hc, Bool.false_eq_true, ↓reduceIte]
    exact ⟨rfl, .null, rfl, by simp [shapeOk, hc]⟩
  | .leaf l, t, node, pos, hc, _ => by
    cases t with
    | list t' nn => simp [Conforms] at hc
    | named n nn =>
      simp only [Conforms] at hc
      obtain ⟨hk, j, hj, hnn⟩ := hc
      unfold Spec.completeValue Spec.completeNamed
      simp only [hk, Spec.coerceResult, hj]
      have hshape := hyps.serializeShape n l j hj hnn
      cases j with
      | null => exact absurd rfl hnn
      | _ => exact ⟨rfl, _, rfl, by simp [shapeOk, hk, hshape]⟩
  | .obj tn f, t, node, pos, hc, hwt => by
    cases t with
    | list t' nn => simp [Conforms] at hc
    | named n nn =>
      unfold Spec.completeValue
      exact object_sound cx hyps n nn tn f node pos hc hwt
        (fun name args t' node' pos' hc' hwt' => complete_sound hyps (f name args) t' node' pos' hc' hwt')
  | .list items, t, node, pos, hc, hwt => by
    cases t with
    | named n nn => simp [Conforms] at hc
    | list t' nn =>
      simp only [Conforms] at hc
      obtain ⟨h1, js, h2, h3⟩ := items_sound hyps items t' node pos 0 hc hwt
      unfold Spec.completeValue
      simp only [h1, h2, Option.map_some]
      exact ⟨rfl, _, rfl, by simp [shapeOk, h3]⟩

theorem items_sound (hyps : SoundHyps cx.ops cx.schema) : (items : List RVal) → ∀ (t : TypeRef)
    (node : FieldNode) (pos : List PSeg) (i : Nat), ConformsL cx.ops cx.schema t items →
    NodeWT cx.schema cx.doc t.baseName node →
    ResItems cx t node items (Spec.completeItems cx t [node] pos i items)
  | [], t, node, pos, i, _, _ => by
    unfold Spec.completeItems
    exact ⟨rfl, [], rfl, by simp [shapeItems]⟩
  | x :: xs, t, node, pos, i, hc, hwt => by
    simp only [ConformsL] at hc
    obtain ⟨h1, j, h2, h3⟩ := complete_sound hyps x t node (pos ++ [.idx i]) hc.1 hwt
    obtain ⟨g1, js, g2, g3⟩ := items_sound hyps xs t node pos (i + 1) hc.2 hwt
    unfold Spec.completeItems
    simp only [Spec.absorb, h2, h1, g1, g2, Option.map_some, List.append_nil]
    exact ⟨rfl, _, rfl, by simp [shapeItems, h3, g3]⟩
end

end Gql.Exec.Valid
