import Gql.Async.Publisher
/-!
Invariants of the id table of the `IncrementalPublisher` model, for *arbitrary* streams of work
queue events (nothing is assumed about the scheduler here).
-/
namespace Gql.Async
open Gql.Spec.Protocol

/-! ### association list lemmas -/

theorem alookup_aset {κ β : Type} [DecidableEq κ] (m : List (κ × β)) (k k' : κ) (v : β) :
    alookup (aset m k v) k' = if k = k' then some v else alookup m k' := by
  induction m with
  | nil => simp [aset, alookup]
  | cons h t ih =>
    obtain ⟨a, b⟩ := h
    by_cases h1 : a = k
    · subst h1; by_cases h2 : a = k' <;> simp [aset, alookup, h2]
    · by_cases h2 : a = k'
      · subst h2
        have : ¬ k = a := fun h => h1 h.symm
        simp [aset, alookup, h1, this]
      · simp [aset, alookup, h1, h2, ih]

theorem alookup_aerase {κ β : Type} [DecidableEq κ] (m : List (κ × β)) (k k' : κ) :
    alookup (aerase m k) k' = if k = k' then none else alookup m k' := by
  induction m with
  | nil => simp [aerase, alookup]
  | cons h t ih =>
    obtain ⟨a, b⟩ := h
    have ih' : alookup (t.filter fun p => !decide (p.1 = k)) k' =
        if k = k' then none else alookup t k' := ih
    show alookup (((a, b) :: t).filter fun p => !decide (p.1 = k)) k' = _
    by_cases h1 : a = k
    · subst h1
      rw [List.filter_cons_of_neg (by simp), ih']
      by_cases h2 : a = k' <;> simp [alookup, h2]
    · rw [List.filter_cons_of_pos (by simp [h1])]
      by_cases h2 : a = k'
      · subst h2
        have : ¬ k = a := fun h => h1 h.symm
        simp [alookup, this]
      · simp [alookup, h2, ih']

theorem alookup_aset_self {κ β : Type} [DecidableEq κ] (m : List (κ × β)) (k : κ) (v : β) :
    alookup (aset m k v) k = some v := by rw [alookup_aset]; simp

theorem alookup_aset_ne {κ β : Type} [DecidableEq κ] (m : List (κ × β)) (k k' : κ) (v : β)
    (h : k ≠ k') : alookup (aset m k v) k' = alookup m k' := by rw [alookup_aset]; simp [h]

theorem alookup_aerase_self {κ β : Type} [DecidableEq κ] (m : List (κ × β)) (k : κ) :
    alookup (aerase m k) k = none := by rw [alookup_aerase]; simp

theorem alookup_aerase_ne {κ β : Type} [DecidableEq κ] (m : List (κ × β)) (k k' : κ)
    (h : k ≠ k') : alookup (aerase m k) k' = alookup m k' := by rw [alookup_aerase]; simp [h]

theorem foldl_inv' {α β : Type} (P : β → Prop) (f : β → α → β) (l : List α) (b : β)
    (h0 : P b) (hs : ∀ b a, P b → P (f b a)) : P (l.foldl f b) := by
  induction l generalizing b with
  | nil => exact h0
  | cons a l ih => exact ih _ (hs b a h0)

/-! ### the id table -/

/-- `i` is the id of some node in the table. -/
def live (p : Pub) (i : Nat) : Prop := ∃ n, alookup p.ids n = some i

structure PubInv (p : Pub) : Prop where
  bound : ∀ n i, alookup p.ids n = some i → i < p.nextId
  inj : ∀ m n i, alookup p.ids m = some i → alookup p.ids n = some i → m = n

/-- Ids only ever come from the table or from the counter. -/
structure Ext (p p' : Pub) : Prop where
  mono : p.nextId ≤ p'.nextId
  fresh : ∀ j, live p' j → live p j ∨ p.nextId ≤ j

theorem Ext.refl (p : Pub) : Ext p p := ⟨Nat.le_refl _, fun _ h => Or.inl h⟩

theorem Ext.trans {a b c : Pub} (h1 : Ext a b) (h2 : Ext b c) : Ext a c := by
  refine ⟨Nat.le_trans h1.mono h2.mono, fun j hj => ?_⟩
  rcases h2.fresh j hj with h | h
  · exact h1.fresh j h
  · exact Or.inr (Nat.le_trans h1.mono h)

/-- Retired ids: below the counter and not in the table. -/
def Ret (p : Pub) (R : List Nat) : Prop := ∀ r ∈ R, r < p.nextId ∧ ¬ live p r

theorem Ret.ext {p p' : Pub} {R : List Nat} (h : Ret p R) (e : Ext p p') : Ret p' R := by
  intro r hr
  obtain ⟨h1, h2⟩ := h r hr
  refine ⟨Nat.lt_of_lt_of_le h1 e.mono, fun hl => ?_⟩
  rcases e.fresh r hl with h3 | h3
  · exact h2 h3
  · omega

theorem pubInv_empty : PubInv {} := ⟨fun _ _ h => by simp [alookup] at h, fun _ _ _ h => by simp [alookup] at h⟩

/-- `_ensure_id` -/
theorem ensureId_spec (p : Pub) (n : Node) (hp : PubInv p) :
    PubInv (ensureId p n).1 ∧ Ext p (ensureId p n).1 ∧
    alookup (ensureId p n).1.ids n = some (ensureId p n).2 ∧
    (live p (ensureId p n).2 ∨ p.nextId ≤ (ensureId p n).2) ∧
    (∀ m j, alookup p.ids m = some j → alookup (ensureId p n).1.ids m = some j) := by
  unfold ensureId
  cases h : alookup p.ids n with
  | some i =>
    exact ⟨hp, Ext.refl p, h, Or.inl ⟨n, h⟩, fun _ _ x => x⟩
  | none =>
    simp only
    refine ⟨⟨?_, ?_⟩, ⟨Nat.le_succ _, ?_⟩, ?_, Or.inr (Nat.le_refl _), ?_⟩
    · intro m i hm
      show i < p.nextId + 1
      by_cases e : n = m
      · subst e; rw [alookup_aset_self] at hm; cases hm; omega
      · rw [alookup_aset_ne _ _ _ _ e] at hm; have := hp.bound m i hm; omega
    · intro m m' i hm hm'
      by_cases e : n = m <;> by_cases e' : n = m'
      · rw [← e, ← e']
      · subst e; rw [alookup_aset_self] at hm; rw [alookup_aset_ne _ _ _ _ e'] at hm'
        cases hm; have := hp.bound m' _ hm'; omega
      · subst e'; rw [alookup_aset_self] at hm'; rw [alookup_aset_ne _ _ _ _ e] at hm
        cases hm'; have := hp.bound m _ hm; omega
      · rw [alookup_aset_ne _ _ _ _ e] at hm; rw [alookup_aset_ne _ _ _ _ e'] at hm'
        exact hp.inj m m' i hm hm'
    · intro j ⟨m, hm⟩
      by_cases e : n = m
      · subst e; rw [alookup_aset_self] at hm; cases hm; right; exact Nat.le_refl _
      · rw [alookup_aset_ne _ _ _ _ e] at hm; exact Or.inl ⟨m, hm⟩
    · exact alookup_aset_self _ _ _
    · intro m j hm
      by_cases e : n = m
      · subst e; rw [h] at hm; cases hm
      · rw [alookup_aset_ne _ _ _ _ e]; exact hm

/-- `del self._ids[node]` right after `_ensure_id(node)` returned `i`: `i` is retired. -/
theorem dropId_spec (p : Pub) (n : Node) (i : Nat) (hp : PubInv p) (hi : alookup p.ids n = some i) :
    PubInv (dropId p n) ∧ Ext p (dropId p n) ∧ i < (dropId p n).nextId ∧ ¬ live (dropId p n) i := by
  unfold dropId
  refine ⟨⟨?_, ?_⟩, ⟨Nat.le_refl _, ?_⟩, hp.bound n i hi, ?_⟩
  · intro m j hm
    by_cases e : n = m
    · subst e; rw [alookup_aerase_self] at hm; cases hm
    · rw [alookup_aerase_ne _ _ _ e] at hm; exact hp.bound m j hm
  · intro m m' j hm hm'
    by_cases e : n = m
    · subst e; rw [alookup_aerase_self] at hm; cases hm
    · by_cases e' : n = m'
      · subst e'; rw [alookup_aerase_self] at hm'; cases hm'
      · rw [alookup_aerase_ne _ _ _ e] at hm; rw [alookup_aerase_ne _ _ _ e'] at hm'
        exact hp.inj m m' j hm hm'
  · intro j ⟨m, hm⟩
    by_cases e : n = m
    · subst e; rw [alookup_aerase_self] at hm; cases hm
    · rw [alookup_aerase_ne _ _ _ e] at hm; exact Or.inl ⟨m, hm⟩
  · intro ⟨m, hm⟩
    by_cases e : n = m
    · subst e; rw [alookup_aerase_self] at hm; cases hm
    · rw [alookup_aerase_ne _ _ _ e] at hm; exact e (hp.inj n m i hi hm)

/-- The fold of `_to_pending_results`. -/
theorem toPending_fold_spec (π : PubStatic) (ns : List Node) (p : Pub) (acc : List Pending)
    (hp : PubInv p) (hacc : ∀ a ∈ acc, live p a.id) :
    let r := ns.foldl (fun (acc : Pub × List Pending) n =>
      let (p, i) := ensureId acc.1 n
      (p, acc.2 ++ [{ id := i, path := π.path n, label := π.label n }])) (p, acc)
    PubInv r.1 ∧ Ext p r.1 ∧ (∀ a ∈ r.2, live r.1 a.id) ∧ ∃ new, r.2 = acc ++ new := by
  induction ns generalizing p acc with
  | nil => exact ⟨hp, Ext.refl p, hacc, [], by simp⟩
  | cons n ns ih =>
    obtain ⟨h1, h2, h3, _, h5⟩ := ensureId_spec p n hp
    simp only [List.foldl_cons]
    have hacc' : ∀ a ∈ acc ++ [({ id := (ensureId p n).2, path := π.path n, label := π.label n } : Pending)],
        live (ensureId p n).1 a.id := by
      intro a ha
      rcases List.mem_append.mp ha with ha | ha
      · obtain ⟨m, hm⟩ := hacc a ha
        exact ⟨m, h5 m _ hm⟩
      · simp at ha; subst ha; exact ⟨n, h3⟩
    obtain ⟨i1, i2, i3, new, i4⟩ := ih (ensureId p n).1 _ h1 hacc'
    refine ⟨i1, h2.trans i2, i3, ({ id := (ensureId p n).2, path := π.path n, label := π.label n } : Pending) :: new, ?_⟩
    rw [i4]; simp

theorem toPending_spec (π : PubStatic) (p : Pub) (gs ss : List Nat) (hp : PubInv p) :
    PubInv (toPendingResults π p gs ss).1 ∧ Ext p (toPendingResults π p gs ss).1 ∧
    (∀ a ∈ (toPendingResults π p gs ss).2, live (toPendingResults π p gs ss).1 a.id) := by
  obtain ⟨h1, h2, h3, _⟩ := toPending_fold_spec π (gs.map Node.group ++ ss.map Node.stream) p [] hp
    (by simp)
  exact ⟨h1, h2, h3⟩

/-- What one event adds to the payload under construction. -/
structure Delta (p p' : Pub) (c c' : PCtx) : Prop where
  inv : PubInv p'
  ext : Ext p p'
  pend : ∃ new, c'.pending = c.pending ++ new ∧ ∀ a ∈ new, live p' a.id
  incr : ∃ new, c'.incremental = c.incremental ++ new ∧ ∀ x ∈ new, live p' x.id
  comp : ∃ new, c'.completed = c.completed ++ new ∧ new.length ≤ 1 ∧
    ∀ x ∈ new, (live p x.id ∨ p.nextId ≤ x.id) ∧ x.id < p'.nextId ∧ ¬ live p' x.id

/-- ensure + drop, shared by the four completing events. -/
theorem complete_delta (p : Pub) (c : PCtx) (n : Node) (failed : Bool) (hp : PubInv p) :
    Delta p (dropId (ensureId p n).1 n)
      c { c with completed := c.completed ++ [{ id := (ensureId p n).2, failed := failed }] } := by
  obtain ⟨h1, h2, h3, h4, _⟩ := ensureId_spec p n hp
  obtain ⟨d1, d2, d3, d4⟩ := dropId_spec _ n _ h1 h3
  refine ⟨d1, h2.trans d2, ⟨[], by simp⟩, ⟨[], by simp⟩, ⟨[_], rfl, by simp, ?_⟩⟩
  intro x hx
  simp at hx; subst hx
  exact ⟨h4, d3, d4⟩

theorem Delta.then_pending {p p1 p2 : Pub} {c c1 : PCtx} (d : Delta p p1 c c1) (pend : List Pending)
    (h1 : PubInv p2) (h2 : Ext p1 p2) (h3 : ∀ a ∈ pend, live p2 a.id)
    (hkeep : ∀ j, live p1 j → live p2 j) :
    Delta p p2 c { c1 with pending := c1.pending ++ pend } := by
  obtain ⟨new, e, hl⟩ := d.pend
  obtain ⟨newi, ei, hi⟩ := d.incr
  obtain ⟨newc, ec, hlen, hc⟩ := d.comp
  refine ⟨h1, d.ext.trans h2, ⟨new ++ pend, by simp [e], ?_⟩, ⟨newi, ei, fun x hx => hkeep _ (hi x hx)⟩,
    ⟨newc, ec, hlen, ?_⟩⟩
  · intro a ha
    rcases List.mem_append.mp ha with ha | ha
    · exact hkeep _ (hl a ha)
    · exact h3 a ha
  · intro x hx
    obtain ⟨a1, a2, a3⟩ := hc x hx
    refine ⟨a1, Nat.lt_of_lt_of_le a2 h2.mono, fun hl => ?_⟩
    rcases h2.fresh _ hl with h | h
    · exact a3 h
    · omega

theorem toPending_fold_keeps (π : PubStatic) (ns : List Node) (p : Pub) (acc : List Pending) (j : Nat)
    (hl : live p j) :
    live (ns.foldl (fun (acc : Pub × List Pending) n =>
      let (p, i) := ensureId acc.1 n
      (p, acc.2 ++ [{ id := i, path := π.path n, label := π.label n }])) (p, acc)).1 j := by
  induction ns generalizing p acc with
  | nil => exact hl
  | cons n ns ih =>
    simp only [List.foldl_cons]
    apply ih
    obtain ⟨m, hm⟩ := hl
    cases h : alookup p.ids n with
    | some i => simpa [ensureId, h] using ⟨m, hm⟩
    | none =>
      refine ⟨m, ?_⟩
      simp only [ensureId, h]
      by_cases e : n = m
      · subst e; rw [h] at hm; cases hm
      · rw [alookup_aset_ne _ _ _ _ e]; exact hm

/-- Ids handed out by `_to_pending_results` keep earlier table entries. -/
theorem toPending_keeps (π : PubStatic) (p : Pub) (gs ss : List Nat) (j : Nat)
    (hl : live p j) : live (toPendingResults π p gs ss).1 j :=
  toPending_fold_keeps π _ p [] j hl

/-- `_get_best_id_and_sub_path` returns the group's own id or the id of another group in the table. -/
theorem bestId_live (π : PubStatic) (p : Pub) (i : Nat) (g : Nat) (v : GVal) (hi : live p i) :
    live p (bestIdAndSubPath π p i g v).1 := by
  unfold bestIdAndSubPath
  refine foldl_inv' (fun acc : Nat × Nat => live p acc.2) _ _ _ hi ?_
  intro acc dg hacc
  simp only
  split
  · exact hacc
  · split
    · exact hacc
    · split
      · exact ⟨_, ‹alookup p.ids (Node.group dg) = some _›⟩
      · exact hacc

/-- `_handle_work_queue_event` -/
theorem handleEvent_delta (π : PubStatic) (p : Pub) (c : PCtx) (e : WQEvent) (hp : PubInv p) :
    Delta p (handleEvent π p c e).1 c (handleEvent π p c e).2 := by
  cases e with
  | groupValues g vals =>
    obtain ⟨h1, h2, h3, _, _⟩ := ensureId_spec p (.group g) hp
    refine ⟨h1, h2, ⟨[], by simp [handleEvent]⟩, ⟨_, rfl, ?_⟩, ⟨[], by simp [handleEvent]⟩⟩
    intro x hx
    obtain ⟨v, _, rfl⟩ := List.mem_map.mp hx
    exact bestId_live π _ _ g v ⟨_, h3⟩
  | groupSuccess g ng ns =>
    have d := complete_delta p c (.group g) false hp
    simp only [handleEvent]
    split
    · exact d
    · obtain ⟨t1, t2, t3⟩ := toPending_spec π (dropId (ensureId p (.group g)).1 (.group g)) ng ns d.inv
      exact d.then_pending _ t1 t2 t3 (fun j h => toPending_keeps π _ ng ns j h)
  | groupFailure g => exact complete_delta p c (.group g) true hp
  | streamValues s vals ng ns =>
    obtain ⟨h1, h2, h3, _, _⟩ := ensureId_spec p (.stream s) hp
    have d : Delta p (ensureId p (.stream s)).1 c
        { c with incremental := c.incremental ++
          [Incr.stream (ensureId p (.stream s)).2 (vals.map (fun v => (v.idx, v.item)))] } :=
      ⟨h1, h2, ⟨[], by simp⟩, ⟨_, rfl, fun x hx => by simp at hx; subst hx; exact ⟨_, h3⟩⟩, ⟨[], by simp⟩⟩
    simp only [handleEvent]
    split
    · exact d
    · obtain ⟨t1, t2, t3⟩ := toPending_spec π (ensureId p (.stream s)).1 ng ns h1
      exact d.then_pending _ t1 t2 t3 (fun j h => toPending_keeps π _ ng ns j h)
  | streamSuccess s => exact complete_delta p c (.stream s) false hp
  | streamFailure s => exact complete_delta p c (.stream s) true hp
  | termination =>
    exact ⟨hp, Ext.refl p, ⟨[], by simp [handleEvent]⟩, ⟨[], by simp [handleEvent]⟩, ⟨[], by simp [handleEvent]⟩⟩

/-- The invariant of a batch under construction, relative to the ids `R` retired by earlier
payloads. -/
structure BatchInv (R : List Nat) (p : Pub) (c : PCtx) : Prop where
  inv : PubInv p
  ret : Ret p (R ++ c.completed.map (·.id))
  nodup : (R ++ c.completed.map (·.id)).Nodup
  fresh : ∀ a ∈ c.pending, a.id ∉ R
  noLate : ∀ x ∈ c.incremental, x.id ∉ R

theorem BatchInv.step {R : List Nat} {p : Pub} {c : PCtx} (π : PubStatic) (e : WQEvent)
    (h : BatchInv R p c) : BatchInv R (handleEvent π p c e).1 (handleEvent π p c e).2 := by
  have d := handleEvent_delta π p c e h.inv
  obtain ⟨newp, ep, hp⟩ := d.pend
  obtain ⟨newi, ei, hi⟩ := d.incr
  obtain ⟨newc, ec, hlen, hc⟩ := d.comp
  have hret : Ret (handleEvent π p c e).1 (R ++ c.completed.map (·.id)) := h.ret.ext d.ext
  refine ⟨d.inv, ?_, ?_, ?_, ?_⟩
  · rw [ec]; intro r hr
    simp only [List.map_append, List.mem_append] at hr
    rcases hr with hr | hr | hr
    · exact hret r (by simp [hr])
    · exact hret r (by simp [hr])
    · obtain ⟨x, hx, rfl⟩ := List.mem_map.mp hr
      exact (hc x hx).2
  · rw [ec]
    match newc, hlen, hc with
    | [], _, _ => simpa using h.nodup
    | [x], _, hc =>
      have hx := hc x (by simp)
      have hnot : x.id ∉ R ++ c.completed.map (·.id) := by
        intro hm
        obtain ⟨b1, b2⟩ := h.ret x.id hm
        rcases hx.1 with h1 | h1
        · exact b2 h1
        · omega
      simp only [List.map_append, List.map_cons, List.map_nil, ← List.append_assoc]
      rw [List.nodup_append]
      refine ⟨h.nodup, by simp, ?_⟩
      intro a ha b hb
      simp at hb; subst hb
      intro hab; subst hab; exact hnot ha
    | _ :: _ :: _, hlen, _ => simp at hlen
  · rw [ep]; intro a ha
    rcases List.mem_append.mp ha with ha | ha
    · exact h.fresh a ha
    · intro hR
      exact (hret a.id (by simp [hR])).2 (hp a ha)
  · rw [ei]; intro x hx
    rcases List.mem_append.mp hx with hx | hx
    · exact h.noLate x hx
    · intro hR
      exact (hret x.id (by simp [hR])).2 (hi x hx)

theorem BatchInv.fold {R : List Nat} (π : PubStatic) (evs : List WQEvent) {p : Pub} {c : PCtx}
    (h : BatchInv R p c) :
    BatchInv R (evs.foldl (fun (acc : Pub × PCtx) e => handleEvent π acc.1 acc.2 e) (p, c)).1
      (evs.foldl (fun (acc : Pub × PCtx) e => handleEvent π acc.1 acc.2 e) (p, c)).2 := by
  induction evs generalizing p c with
  | nil => exact h
  | cons e evs ih => simp only [List.foldl_cons]; exact ih (h.step π e)

/-- `_handle_batch`: the payload's completed ids are new and distinct, its announced ids are
not retired, and the table invariant is kept. -/
theorem handleBatch_spec (π : PubStatic) (p : Pub) (R : List Nat) (evs : List WQEvent)
    (hp : PubInv p) (hr : Ret p R) (hn : R.Nodup) :
    PubInv (handleBatch π p evs).1 ∧
    Ret (handleBatch π p evs).1 (R ++ (handleBatch π p evs).2.completed.map (·.id)) ∧
    (R ++ (handleBatch π p evs).2.completed.map (·.id)).Nodup ∧
    (∀ a ∈ (handleBatch π p evs).2.pending, a.id ∉ R) ∧
    ∀ x ∈ (handleBatch π p evs).2.incremental, x.id ∉ R := by
  have h0 : BatchInv R p {} := ⟨hp, by simpa using hr, by simpa using hn, by simp, by simp⟩
  have h := h0.fold π evs
  exact ⟨h.inv, h.ret, h.nodup, h.fresh, h.noLate⟩

/-- The whole payload stream of `publish`. -/
theorem publish_spec (π : PubStatic) (batches : List (List WQEvent)) (p : Pub) (R : List Nat)
    (hp : PubInv p) (hr : Ret p R) (hn : R.Nodup) :
    (R ++ completedIds (publish π p batches).2).Nodup ∧
    ∀ pre pl post, (publish π p batches).2 = pre ++ pl :: post →
      ∀ a ∈ pl.pending, a.id ∉ R ++ completedIds pre := by
  induction batches generalizing p R with
  | nil => simp [publish, completedIds, hn]
  | cons b bs ih =>
    obtain ⟨h1, h2, h3, h4, _⟩ := handleBatch_spec π p R b hp hr hn
    obtain ⟨i1, i2⟩ := ih (handleBatch π p b).1 _ h1 h2 h3
    simp only [publish]
    constructor
    · simpa [completedIds, List.append_assoc] using i1
    · intro pre pl post hsplit a ha
      cases pre with
      | nil =>
        simp only [List.nil_append, List.cons.injEq] at hsplit
        rw [← hsplit.1] at ha
        simpa [completedIds] using h4 a ha
      | cons q pre' =>
        simp only [List.cons_append, List.cons.injEq] at hsplit
        have := i2 pre' pl post hsplit.2 a ha
        rw [← hsplit.1]
        simpa [completedIds, List.append_assoc] using this

end Gql.Async
