import Gql.Validation.Framework
/-!
Lemmas for C12-1 (`parallel_alone`): inside `TypeInfoVisitor(ParallelVisitor(members))` without an
error limit, every member evolves as `Member.trav` — a function of that member, the TypeInfo driver and
the tree alone — and the TypeInfo evolves as `tiTrav`, a function of the tree alone.
-/
namespace Gql.Validation
variable {τ σ ε : Type}

/-! ### generic facts about `run0` -/

theorem run0_inv {σ : Type} (v : V0 σ) (I : σ → Prop)
    (hE : ∀ s i, I s → I (v.enter s i).2) (hL : ∀ s i, I s → I (v.leave s i).2) :
    (∀ t s, I s → I (run0 v s t).1) ∧ (∀ ts s, I s → I (run0List v s ts).1) := by
  apply Tree.induct
  · intro i cs ih s hs
    rw [run0]
    have h1 : I (if v.hEnter s i.kind then v.enter s i else (Action.idle, s)).2 := by
      split
      · exact hE s i hs
      · exact hs
    generalize (if v.hEnter s i.kind then v.enter s i else (Action.idle, s)) = r at h1
    obtain ⟨a, s1⟩ := r
    cases a with
    | brk => exact h1
    | skip => exact h1
    | idle =>
      dsimp only
      have h2 := ih s1 h1
      generalize run0List v s1 cs = r2 at h2
      obtain ⟨s2, b⟩ := r2
      cases b with
      | true => simpa using h2
      | false =>
        simp only [Bool.false_eq_true, if_false]
        split
        · exact hL s2 i h2
        · exact h2
  · intro s hs; rw [run0List]; exact hs
  · intro t ts iht ihts s hs
    rw [run0List]
    have h1 := iht s hs
    generalize run0 v s t = r at h1
    obtain ⟨s1, b⟩ := r
    cases b with
    | true => simpa using h1
    | false => simpa using ihts s1 h1

/-! ### the sink without a limit -/

theorem Sink.reportAll_none (snk : Sink ε) (es : List ε) (h : snk.aborted = false) :
    snk.reportAll none es = ⟨snk.errs ++ es, false⟩ := by
  induction es generalizing snk with
  | nil => cases snk; simp_all [Sink.reportAll]
  | cons e es ih =>
    simp only [Sink.reportAll, List.foldl_cons]
    have : Sink.report none snk e = ⟨snk.errs ++ [e], false⟩ := by
      cases snk; simp_all [Sink.report]
    rw [this]
    have := ih ⟨snk.errs ++ [e], false⟩ rfl
    simp only [Sink.reportAll] at this
    rw [this]; simp

theorem memberLoop_none (f : Member τ σ ε → Member τ σ ε × List ε) (ms : List (Member τ σ ε)) (snk : Sink ε)
    (h : snk.aborted = false) :
    memberLoop none f ms snk = (ms.map (fun m => (f m).1), ⟨snk.errs ++ ms.flatMap (fun m => (f m).2), false⟩) := by
  induction ms generalizing snk with
  | nil => cases snk; simp_all [memberLoop]
  | cons m ms ih =>
    rw [memberLoop]
    simp only [h, Bool.false_eq_true, if_false]
    rw [Sink.reportAll_none snk _ h]
    rw [ih _ rfl]
    simp [List.append_assoc]

/-! ### the evolution of the TypeInfo and of one member under a full traversal -/

mutual
  /-- TypeInfo after the complete traversal of a subtree (what `TypeInfoVisitor` does when the inner
  visitor never answers SKIP/BREAK — the case of `ParallelVisitor` over non-editing members). -/
  def tiTrav (D : Driver τ) : TI τ → Tree → TI τ
    | ti, .node i cs => D.leave (tiTravList D (D.enter ti i) cs) i
  def tiTravList (D : Driver τ) : TI τ → List Tree → TI τ
    | ti, [] => ti
    | ti, t :: ts => tiTravList D (tiTrav D ti t) ts
end

mutual
  /-- One member over the complete traversal of a subtree: it only ever looks at itself. -/
  def Member.trav (D : Driver τ) : TI τ → Member τ σ ε → Tree → Member τ σ ε
    | ti, m, .node i cs =>
      let ti1 := D.enter ti i
      let m1 := (Member.enter ti1 i m).1
      let m2 := Member.travList D ti1 m1 cs
      (Member.leave (tiTravList D ti1 cs) i m2).1
  def Member.travList (D : Driver τ) : TI τ → Member τ σ ε → List Tree → Member τ σ ε
    | _, m, [] => m
    | ti, m, t :: ts => Member.travList D (tiTrav D ti t) (Member.trav D ti m t) ts
end

/-- `skipping[i]` is a node only if the member has an `enter` handler for that node's kind (it was set
by that handler). -/
def Member.WF (m : Member τ σ ε) : Prop := ∀ j, m.skipping = .node j → m.rule.hEnter j.kind = true

theorem Member.start_WF (r : Rule τ σ ε) (s0 : σ) : (Member.start r s0).WF := by
  intro j h; simp [Member.start] at h

theorem Member.enter_WF (ti : TI τ) (i : Info) (m : Member τ σ ε) (h : m.WF) : (Member.enter ti i m).1.WF := by
  unfold Member.enter
  split
  · rename_i hc
    intro j hj
    simp only at hj
    generalize (m.rule.step m.st Phase.enter i ti).1 = a at hj
    cases a <;> simp [Member.skipOf] at hj
    subst hj; exact hc.2
  · exact h

theorem Member.leave_WF (ti : TI τ) (i : Info) (m : Member τ σ ε) (h : m.WF) : (Member.leave ti i m).1.WF := by
  unfold Member.leave
  split
  · split
    · intro j hj
      simp only at hj
      split at hj <;> simp at hj
    · exact h
  · split
    · intro j hj; simp at hj
    · exact h
  · exact h

theorem Member.enter_unhandled (ti : TI τ) (i : Info) (m : Member τ σ ε) (h : m.rule.hEnter i.kind = false) :
    Member.enter ti i m = (m, []) := by
  simp [Member.enter, h]

theorem Member.leave_unhandled (ti : TI τ) (i : Info) (m : Member τ σ ε) (hw : m.WF)
    (he : m.rule.hEnter i.kind = false) (hl : m.rule.hLeave i.kind = false) :
    Member.leave ti i m = (m, []) := by
  unfold Member.leave
  split
  · simp [hl]
  · rename_i j hj
    split
    · rename_i hji
      have := hw j hj
      rw [hji] at this
      simp [he] at this
    · rfl
  · rfl

theorem any_false_of {α : Type} (p : α → Bool) (xs : List α) (h : xs.any p = false) : ∀ x ∈ xs, p x = false := by
  intro x hx
  cases hp : p x with
  | false => rfl
  | true =>
    have : xs.any p = true := List.any_eq_true.mpr ⟨x, hx, hp⟩
    simp [h] at this

theorem map_id_of {α : Type} (f : α → α) (xs : List α) (h : ∀ x ∈ xs, f x = x) : xs.map f = xs := by
  induction xs with
  | nil => rfl
  | cons x xs ih =>
    simp only [List.map_cons]
    rw [h x (List.mem_cons_self), ih (fun y hy => h y (List.mem_cons_of_mem _ hy))]

theorem tiVisitor_enter_pos (D : Driver τ) {σ' : Type} (v : V τ σ') (s : TI τ × σ') (i : Info)
    (h : v.hEnter s.2 i.kind = true) :
    (tiVisitor D v).enter s i =
      ((v.enter s.2 (D.enter s.1 i) i).1,
        (if (v.enter s.2 (D.enter s.1 i) i).1 = Action.idle then D.enter s.1 i else D.leave (D.enter s.1 i) i,
         (v.enter s.2 (D.enter s.1 i) i).2)) := by
  simp [tiVisitor, h]

theorem tiVisitor_enter_neg (D : Driver τ) {σ' : Type} (v : V τ σ') (s : TI τ × σ') (i : Info)
    (h : v.hEnter s.2 i.kind = false) :
    (tiVisitor D v).enter s i = (Action.idle, (D.enter s.1 i, s.2)) := by
  simp [tiVisitor, h]

theorem tiVisitor_leave_pos (D : Driver τ) {σ' : Type} (v : V τ σ') (s : TI τ × σ') (i : Info)
    (h : v.hLeave s.2 i.kind = true) :
    (tiVisitor D v).leave s i = ((v.leave s.2 s.1 i).1, (D.leave s.1 i, (v.leave s.2 s.1 i).2)) := by
  simp [tiVisitor, h]

theorem tiVisitor_leave_neg (D : Driver τ) {σ' : Type} (v : V τ σ') (s : TI τ × σ') (i : Info)
    (h : v.hLeave s.2 i.kind = false) :
    (tiVisitor D v).leave s i = (Action.idle, (D.leave s.1 i, s.2)) := by
  simp [tiVisitor, h]

theorem parallel_handles_false (max : Option Nat) (ps : PState τ σ ε) (k : String)
    (h : (parallel max).hEnter ps k = false) :
    ∀ m ∈ ps.members, m.rule.hEnter k = false ∧ m.rule.hLeave k = false := by
  intro m hm
  have := any_false_of _ _ h m hm
  simpa [Bool.or_eq_false_iff] using this

/-- One `enter` of `TypeInfoVisitor(ParallelVisitor)` without limit. -/
theorem par_enter_step (D : Driver τ) (ti : TI τ) (ms : List (Member τ σ ε)) (snk : Sink ε) (i : Info)
    (h : snk.aborted = false) :
    ∃ es, (tiVisitor D (parallel none)).enter (ti, ⟨ms, snk⟩) i =
      (Action.idle, (D.enter ti i, ⟨ms.map (fun m => (Member.enter (D.enter ti i) i m).1), ⟨snk.errs ++ es, false⟩⟩)) := by
  cases hc : (parallel (τ := τ) (σ := σ) (ε := ε) none).hEnter ⟨ms, snk⟩ i.kind with
  | true =>
    rw [tiVisitor_enter_pos D _ _ _ hc]
    simp only [parallel, memberLoop_none _ _ _ h]
    exact ⟨ms.flatMap (fun m => (Member.enter (D.enter ti i) i m).2), by simp⟩
  | false =>
    rw [tiVisitor_enter_neg D _ _ _ hc]
    refine ⟨[], ?_⟩
    have hno' := parallel_handles_false none ⟨ms, snk⟩ i.kind hc
    rw [map_id_of]
    · cases snk; simp_all
    · intro m hm
      rw [Member.enter_unhandled _ _ _ (hno' m hm).1]

/-- One `leave` of `TypeInfoVisitor(ParallelVisitor)` without limit. -/
theorem par_leave_step (D : Driver τ) (ti : TI τ) (ms : List (Member τ σ ε)) (snk : Sink ε) (i : Info)
    (h : snk.aborted = false) (hw : ∀ m ∈ ms, m.WF) :
    ∃ es, (tiVisitor D (parallel none)).leave (ti, ⟨ms, snk⟩) i =
      (Action.idle, (D.leave ti i, ⟨ms.map (fun m => (Member.leave ti i m).1), ⟨snk.errs ++ es, false⟩⟩)) := by
  cases hc : (parallel (τ := τ) (σ := σ) (ε := ε) none).hLeave ⟨ms, snk⟩ i.kind with
  | true =>
    rw [tiVisitor_leave_pos D _ _ _ hc]
    simp only [parallel, memberLoop_none _ _ _ h]
    exact ⟨ms.flatMap (fun m => (Member.leave ti i m).2), by simp⟩
  | false =>
    rw [tiVisitor_leave_neg D _ _ _ hc]
    refine ⟨[], ?_⟩
    have hno' := parallel_handles_false none ⟨ms, snk⟩ i.kind hc
    rw [map_id_of]
    · cases snk; simp_all
    · intro m hm
      rw [Member.leave_unhandled _ _ _ (hw m hm) (hno' m hm).1 (hno' m hm).2]

theorem Member.trav_WF (D : Driver τ) :
    (∀ t (ti : TI τ) (m : Member τ σ ε), m.WF → (Member.trav D ti m t).WF) ∧
    (∀ ts (ti : TI τ) (m : Member τ σ ε), m.WF → (Member.travList D ti m ts).WF) := by
  apply Tree.induct
  · intro i cs ih ti m hm
    rw [Member.trav]
    exact Member.leave_WF _ _ _ (ih _ _ (Member.enter_WF _ _ _ hm))
  · intro ti m hm; rw [Member.travList]; exact hm
  · intro t ts iht ihts ti m hm
    rw [Member.travList]
    exact ihts _ _ (iht _ _ hm)

/-- **Members evolve independently.**  Without a limit, the traversal of `TypeInfoVisitor(ParallelVisitor(ms))`
never stops, drives the TypeInfo as `tiTrav`, and maps every member through `Member.trav`; the sink only grows. -/
theorem par_run (D : Driver τ) :
    (∀ t (ti : TI τ) (ms : List (Member τ σ ε)) (snk : Sink ε), snk.aborted = false → (∀ m ∈ ms, m.WF) →
      ∃ es, run0 (tiVisitor D (parallel none)) (ti, ⟨ms, snk⟩) t =
        ((tiTrav D ti t, ⟨ms.map (fun m => Member.trav D ti m t), ⟨snk.errs ++ es, false⟩⟩), false)) ∧
    (∀ ts (ti : TI τ) (ms : List (Member τ σ ε)) (snk : Sink ε), snk.aborted = false → (∀ m ∈ ms, m.WF) →
      ∃ es, run0List (tiVisitor D (parallel none)) (ti, ⟨ms, snk⟩) ts =
        ((tiTravList D ti ts, ⟨ms.map (fun m => Member.travList D ti m ts), ⟨snk.errs ++ es, false⟩⟩), false)) := by
  apply Tree.induct
  · intro i cs ih ti ms snk h hw
    obtain ⟨es1, h1⟩ := par_enter_step D ti ms snk i h
    have hw1 : ∀ m ∈ ms.map (fun m => (Member.enter (D.enter ti i) i m).1), m.WF := by
      intro m hm
      obtain ⟨m0, hm0, rfl⟩ := List.mem_map.mp hm
      exact Member.enter_WF _ _ _ (hw m0 hm0)
    obtain ⟨es2, h2⟩ := ih (D.enter ti i) _ ⟨snk.errs ++ es1, false⟩ rfl hw1
    have hw2 : ∀ m ∈ (ms.map (fun m => (Member.enter (D.enter ti i) i m).1)).map
        (fun m => Member.travList D (D.enter ti i) m cs), m.WF := by
      intro m hm
      obtain ⟨m0, hm0, rfl⟩ := List.mem_map.mp hm
      exact (Member.trav_WF D).2 _ _ _ (hw1 m0 hm0)
    obtain ⟨es3, h3⟩ := par_leave_step D (tiTravList D (D.enter ti i) cs) _ ⟨snk.errs ++ es1 ++ es2, false⟩ i rfl hw2
    refine ⟨es1 ++ es2 ++ es3, ?_⟩
    rw [run0]
    have hE : (tiVisitor D (parallel (τ := τ) (σ := σ) (ε := ε) none)).hEnter (ti, ⟨ms, snk⟩) i.kind = true := rfl
    simp only [hE, if_true, h1, h2, Bool.false_eq_true, if_false]
    have hL : ∀ s, (tiVisitor D (parallel (τ := τ) (σ := σ) (ε := ε) none)).hLeave s i.kind = true := fun _ => rfl
    simp only [hL, if_true, h3]
    simp [tiTrav, Member.trav, List.map_map, Function.comp_def, List.append_assoc]
  · intro ti ms snk h _
    exact ⟨[], by cases snk; simp_all [run0List, tiTravList, Member.travList]⟩
  · intro t ts iht ihts ti ms snk h hw
    obtain ⟨es1, h1⟩ := iht ti ms snk h hw
    have hw1 : ∀ m ∈ ms.map (fun m => Member.trav D ti m t), m.WF := by
      intro m hm
      obtain ⟨m0, hm0, rfl⟩ := List.mem_map.mp hm
      exact (Member.trav_WF D).1 _ _ _ (hw m0 hm0)
    obtain ⟨es2, h2⟩ := ihts (tiTrav D ti t) _ ⟨snk.errs ++ es1, false⟩ rfl hw1
    refine ⟨es1 ++ es2, ?_⟩
    rw [run0List]
    simp only [h1, Bool.false_eq_true, if_false, h2]
    simp [tiTravList, Member.travList, List.map_map, Function.comp_def, List.append_assoc]

end Gql.Validation
