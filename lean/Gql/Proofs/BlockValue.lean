import Gql.Proofs.BlockDedent
import Gql.Spec.Lex
/-!
# `dedent_block_string_lines` is the specification's `BlockStringValue()` (steps 2–6)

The implementation computes `common_indent` (sys.maxsize when no later line has a non-blank
character), the first and the last non-blank line in one pass, slices every later line and then
slices the list; the specification computes a nullable `commonIndent`, removes it when not null,
and strips blank lines from both ends.  The two agree on every list of lines (the
maxsize-vs-null difference is unobservable: then all later lines are blank, so they are trailing
blank lines and removed).
-/
open Gql Gql.Text
namespace Gql.Text
open Gql.Spec.Lex (isBlank minOpt dedentLines WhiteSpace)

/-! ### blank lines -/

theorem lws_eq_spec (x : List Nat) : leadingWhiteSpace x = Gql.Spec.Lex.leadingWhiteSpace x := by
  induction x with
  | nil => rfl
  | cons c r ih =>
    unfold Gql.Spec.Lex.leadingWhiteSpace at ih ⊢
    simp only [leadingWhiteSpace, List.takeWhile_cons]
    by_cases h : c = 32 ∨ c = 9
    · have : decide (WhiteSpace c) = true := decide_eq_true (by unfold WhiteSpace; omega)
      rw [if_pos h, this, ih]; rfl
    · have : decide (WhiteSpace c) = false := decide_eq_false (by unfold WhiteSpace; omega)
      rw [if_neg h, this]; rfl

theorem lws_le (x : List Nat) : leadingWhiteSpace x ≤ x.length := by
  induction x with
  | nil => simp [leadingWhiteSpace]
  | cons c r ih => simp only [leadingWhiteSpace]; split <;> simp <;> omega

/-- A line that contains only white space. -/
def Blank (x : List Nat) : Prop := leadingWhiteSpace x = x.length

instance : DecidablePred Blank := fun x => by unfold Blank; exact inferInstance

theorem blank_cons (c : Nat) (r : List Nat) : Blank (c :: r) ↔ (c = 32 ∨ c = 9) ∧ Blank r := by
  unfold Blank
  simp only [leadingWhiteSpace, List.length_cons]
  have := lws_le r
  by_cases h : c = 32 ∨ c = 9
  · rw [if_pos h]; simp [h]
  · rw [if_neg h]; simp [h]

theorem isBlank_iff (x : List Nat) : isBlank x = true ↔ Blank x := by
  induction x with
  | nil => simp [isBlank, Blank, leadingWhiteSpace]
  | cons c r ih =>
    rw [blank_cons, ← ih]
    have hw : decide (WhiteSpace c) = true ↔ (c = 32 ∨ c = 9) := by
      rw [decide_eq_true_iff]; unfold WhiteSpace; omega
    simp only [isBlank, List.all_cons, Bool.and_eq_true, hw]

theorem blank_nil : Blank [] := rfl

theorem blank_drop (x : List Nat) (c : Nat) (h : Blank x) : Blank (x.drop c) := by
  induction x generalizing c with
  | nil => simpa using h
  | cons a r ih =>
    cases c with
    | zero => simpa using h
    | succ c => simp only [List.drop_succ_cons]; exact ih c ((blank_cons a r).mp h).2

theorem not_blank_drop (x : List Nat) (c : Nat) (h : ¬ Blank x) (hc : c ≤ leadingWhiteSpace x) :
    ¬ Blank (x.drop c) := by
  induction x generalizing c with
  | nil => exact absurd blank_nil h
  | cons a r ih =>
    cases c with
    | zero => simpa using h
    | succ c =>
      simp only [List.drop_succ_cons]
      simp only [leadingWhiteSpace] at hc
      by_cases hw : a = 32 ∨ a = 9
      · rw [if_pos hw] at hc
        apply ih c
        · intro hb; exact h ((blank_cons a r).mpr ⟨hw, hb⟩)
        · omega
      · rw [if_neg hw] at hc; omega

/-- Remove the blank lines at the end. -/
def rtrim (Y : List (List Nat)) : List (List Nat) := (Y.reverse.dropWhile isBlank).reverse
/-- Remove the blank lines at both ends (specification steps 5 and 6). -/
def trim (X : List (List Nat)) : List (List Nat) := rtrim (X.dropWhile isBlank)

theorem rtrim_nil : rtrim [] = [] := rfl

theorem rtrim_cons (x : List Nat) (r : List (List Nat)) :
    rtrim (x :: r) = if rtrim r ≠ [] then x :: rtrim r else if isBlank x then [] else [x] := by
  unfold rtrim
  rw [List.reverse_cons, List.dropWhile_append]
  by_cases h : (r.reverse.dropWhile isBlank) = []
  · have h' : ¬ ((r.reverse.dropWhile isBlank).reverse ≠ []) := by simp [h]
    rw [if_neg h', h]
    simp only [List.isEmpty_nil, if_true, List.dropWhile_cons, List.dropWhile_nil]
    by_cases hb : isBlank x = true
    · simp [hb]
    · simp [hb]
  · have h' : (r.reverse.dropWhile isBlank).reverse ≠ [] := by simpa using h
    rw [if_pos h']
    have : (r.reverse.dropWhile isBlank).isEmpty = false := by
      cases hh : r.reverse.dropWhile isBlank with
      | nil => exact absurd hh h
      | cons _ _ => rfl
    rw [this]
    simp

theorem lastNB_bounds (X : List (List Nat)) (i j : Nat) (h : lastNB X i = some j) :
    i ≤ j ∧ j < i + X.length := by
  induction X generalizing i with
  | nil => simp [lastNB] at h
  | cons x r ih =>
    simp only [lastNB] at h
    cases hr : lastNB r (i + 1) with
    | some k =>
      rw [hr] at h; simp only [Option.some.injEq] at h; subst h
      have := ih (i + 1) hr; simp; omega
    | none =>
      rw [hr] at h; simp only [] at h
      split at h
      · simp at h
      · simp at h; subst h; simp

/-- The slice `[: last_non_empty_line + 1]` removes exactly the trailing blank lines. -/
theorem take_lastNB (Y : List (List Nat)) (i : Nat) :
    Y.take (match lastNB Y i with | some j => j + 1 - i | none => 0) = rtrim Y := by
  induction Y generalizing i with
  | nil => cases h : lastNB [] i <;> simp [rtrim_nil]
  | cons x r ih =>
    rw [rtrim_cons]
    have ihr := ih (i + 1)
    simp only [lastNB]
    cases hr : lastNB r (i + 1) with
    | some k =>
      rw [hr] at ihr
      simp only [] at ihr ⊢
      obtain ⟨h1, h2⟩ := lastNB_bounds r (i + 1) k hr
      have e : k + 1 - i = (k + 1 - (i + 1)) + 1 := by omega
      rw [e, List.take_succ_cons, ihr]
      have : rtrim r ≠ [] := by
        rw [← ihr]
        cases r with
        | nil => simp at h2; omega
        | cons a r' =>
          have : k + 1 - (i + 1) = (k - (i + 1)) + 1 := by omega
          rw [this, List.take_succ_cons]; simp
      rw [if_pos this]
    | none =>
      rw [hr] at ihr
      simp only [] at ihr ⊢
      have hnil : rtrim r = [] := by rw [← ihr]; rfl
      rw [hnil]
      simp only [ne_eq, not_true_eq_false, if_false]
      by_cases hb : leadingWhiteSpace x = x.length
      · rw [if_pos hb, if_pos ((isBlank_iff x).mpr hb)]; rfl
      · rw [if_neg hb, if_neg (fun h => hb ((isBlank_iff x).mp h))]
        simp

theorem firstNB_allBlank (A : List (List Nat)) (hA : AllBlank A) (i : Nat) : firstNB A i = none := by
  induction A generalizing i with
  | nil => rfl
  | cons a A ih =>
    have ha : leadingWhiteSpace a = a.length := hA a (by simp)
    have hA' : AllBlank A := fun y hy => hA y (by simp [hy])
    simp [firstNB, ih hA', ha]

theorem lastNB_blank_prefix (B : List (List Nat)) (hB : AllBlank B) (Y : List (List Nat)) (i : Nat) :
    lastNB (B ++ Y) i = lastNB Y (i + B.length) := by
  induction B generalizing i with
  | nil => simp
  | cons b B ih =>
    have hb : leadingWhiteSpace b = b.length := hB b (by simp)
    have hB' : AllBlank B := fun y hy => hB y (by simp [hy])
    simp only [List.cons_append, lastNB, List.length_cons]
    rw [ih hB' (i + 1)]
    have e : i + 1 + B.length = i + (B.length + 1) := by omega
    rw [e]
    cases lastNB Y (i + (B.length + 1)) with
    | some j => rfl
    | none => simp [hb]

theorem allBlank_takeWhile (X : List (List Nat)) : AllBlank (X.takeWhile isBlank) := by
  induction X with
  | nil => intro x hx; simp at hx
  | cons a X ih =>
    intro x hx
    rw [List.takeWhile_cons] at hx
    by_cases ha : isBlank a = true
    · rw [if_pos ha] at hx
      rcases List.mem_cons.mp hx with h | h
      · subst h; exact (isBlank_iff x).mp ha
      · exact ih x h
    · rw [if_neg ha] at hx; simp at hx

theorem dropWhile_head_not (X : List (List Nat)) (y : List Nat) (Y' : List (List Nat))
    (h : X.dropWhile isBlank = y :: Y') : ¬ isBlank y = true := by
  induction X with
  | nil => simp at h
  | cons a X ih =>
    rw [List.dropWhile_cons] at h
    by_cases ha : isBlank a = true
    · rw [if_pos ha] at h; exact ih h
    · rw [if_neg ha] at h
      have := (List.cons.inj h).1; subst this; exact ha

/-- The implementation's slice `[first_non_empty_line : last_non_empty_line + 1]`. -/
def idxTrim (X : List (List Nat)) : List (List Nat) :=
  (X.drop (match firstNB X 0 with | some a => a | none => 0)).take
    ((match lastNB X 0 with | some j => j + 1 | none => 0) - (match firstNB X 0 with | some a => a | none => 0))

theorem idxTrim_eq_trim (X : List (List Nat)) : idxTrim X = trim X := by
  unfold idxTrim trim
  have hsplit := (List.takeWhile_append_dropWhile (p := isBlank) (l := X)).symm
  have hB := allBlank_takeWhile X
  generalize X.takeWhile isBlank = B at hsplit hB
  cases hY : X.dropWhile isBlank with
  | nil =>
    rw [hY, List.append_nil] at hsplit
    subst hsplit
    rw [firstNB_allBlank X hB, lastNB_allBlank X hB]
    simp [rtrim_nil]
  | cons y Y' =>
    have hy : ¬ leadingWhiteSpace y = y.length := by
      intro h
      exact dropWhile_head_not X y Y' hY ((isBlank_iff y).mpr h)
    rw [hY] at hsplit
    rw [hsplit, firstNB_blank_prefix B hB y hy Y' 0, lastNB_blank_prefix B hB (y :: Y') 0]
    simp only [Nat.zero_add, List.drop_left]
    have := take_lastNB (y :: Y') B.length
    cases hl : lastNB (y :: Y') B.length with
    | some j => rw [hl] at this; exact this
    | none => rw [hl] at this; simpa using this

/-! ### the blank pattern is all `first/last_non_empty_line` depend on -/

theorem firstNB_map (g : List Nat → List Nat) (X : List (List Nat))
    (h : ∀ x ∈ X, (leadingWhiteSpace (g x) = (g x).length ↔ leadingWhiteSpace x = x.length)) (i : Nat) :
    firstNB (X.map g) i = firstNB X i := by
  induction X generalizing i with
  | nil => rfl
  | cons a X ih =>
    have ha := h a (by simp)
    have hX : ∀ x ∈ X, _ := fun x hx => h x (by simp [hx])
    simp only [List.map_cons, firstNB]
    by_cases hb : leadingWhiteSpace a = a.length
    · rw [if_pos hb, if_pos (ha.mpr hb)]; exact ih hX (i + 1)
    · rw [if_neg hb, if_neg (fun hh => hb (ha.mp hh))]

theorem lastNB_map (g : List Nat → List Nat) (X : List (List Nat))
    (h : ∀ x ∈ X, (leadingWhiteSpace (g x) = (g x).length ↔ leadingWhiteSpace x = x.length)) (i : Nat) :
    lastNB (X.map g) i = lastNB X i := by
  induction X generalizing i with
  | nil => rfl
  | cons a X ih =>
    have ha := h a (by simp)
    have hX : ∀ x ∈ X, _ := fun x hx => h x (by simp [hx])
    simp only [List.map_cons, lastNB]
    rw [ih hX (i + 1)]
    cases lastNB X (i + 1) with
    | some j => rfl
    | none =>
      simp only []
      by_cases hb : leadingWhiteSpace a = a.length
      · rw [if_pos hb, if_pos (ha.mpr hb)]
      · rw [if_neg hb, if_neg (fun hh => hb (ha.mp hh))]

/-- `line[common_indent:]` with `common_indent = sys.maxsize` modelled as `none`. -/
def cut (ci : Option Nat) (x : List Nat) : List Nat :=
  match ci with
  | some c => x.drop c
  | none => []

theorem dropIndent_map (ci : Option Nat) (X : List (List Nat)) (i : Nat) (hi : i ≠ 0) :
    dropIndent ci X i = X.map (cut ci) := by
  induction X generalizing i with
  | nil => rfl
  | cons a X ih =>
    simp only [dropIndent, List.map_cons]
    rw [if_pos hi, ih (i + 1) (by omega)]
    rfl

theorem dropIndent_cons0 (ci : Option Nat) (a : List Nat) (X : List (List Nat)) :
    dropIndent ci (a :: X) 0 = a :: X.map (cut ci) := by
  simp only [dropIndent]
  rw [if_neg (by simp), dropIndent_map ci X 1 (by omega)]

/-! ### common indentation as an optional minimum -/

def cmin (ci : Option Nat) (X : List (List Nat)) : Option Nat :=
  X.foldl (fun ci line =>
    if leadingWhiteSpace line < line.length then minOpt ci (leadingWhiteSpace line) else ci) ci

theorem commonI_eq_cmin (X : List (List Nat)) (i : Nat) (hi : i ≠ 0) (ci : Option Nat) :
    commonI X i ci = cmin ci X := by
  induction X generalizing i ci with
  | nil => rfl
  | cons a X ih =>
    simp only [commonI, cmin, List.foldl_cons]
    have := lws_le a
    by_cases hb : leadingWhiteSpace a = a.length
    · rw [if_pos hb, if_neg (show ¬ leadingWhiteSpace a < a.length by omega)]
      exact ih (i + 1) (by omega) ci
    · rw [if_neg hb, if_pos hi, if_pos (show leadingWhiteSpace a < a.length by omega)]
      rw [ih (i + 1) (by omega)]
      cases ci with
      | none => rfl
      | some c =>
        show cmin (if leadingWhiteSpace a < c then some (leadingWhiteSpace a) else some c) X =
          cmin (some (if leadingWhiteSpace a < c then leadingWhiteSpace a else c)) X
        by_cases hlt : leadingWhiteSpace a < c
        · rw [if_pos hlt, if_pos hlt]
        · rw [if_neg hlt, if_neg hlt]

theorem cmin_none (X : List (List Nat)) (ci : Option Nat) (h : cmin ci X = none) :
    ci = none ∧ AllBlank X := by
  induction X generalizing ci with
  | nil => exact ⟨h, fun x hx => by simp at hx⟩
  | cons a X ih =>
    simp only [cmin, List.foldl_cons] at h
    have hl := lws_le a
    by_cases hb : leadingWhiteSpace a < a.length
    · rw [if_pos hb] at h
      have := (ih _ h).1
      cases ci <;> simp [minOpt] at this
    · rw [if_neg hb] at h
      obtain ⟨h1, h2⟩ := ih _ h
      refine ⟨h1, ?_⟩
      intro x hx
      rcases List.mem_cons.mp hx with hh | hh
      · subst hh; omega
      · exact h2 x hh

theorem cmin_some (X : List (List Nat)) (ci : Option Nat) (c : Nat) (h : cmin ci X = some c) :
    (∀ x ∈ X, leadingWhiteSpace x ≠ x.length → c ≤ leadingWhiteSpace x) ∧ (∀ c0, ci = some c0 → c ≤ c0) := by
  induction X generalizing ci with
  | nil =>
    simp only [cmin, List.foldl_nil] at h
    exact ⟨fun x hx => by simp at hx, fun c0 h0 => by rw [h] at h0; cases h0; omega⟩
  | cons a X ih =>
    simp only [cmin, List.foldl_cons] at h
    have hl := lws_le a
    by_cases hb : leadingWhiteSpace a < a.length
    · rw [if_pos hb] at h
      obtain ⟨h1, h2⟩ := ih _ h
      have hmin : c ≤ leadingWhiteSpace a ∧ ∀ c0, ci = some c0 → c ≤ c0 := by
        cases ci with
        | none =>
          have := h2 (leadingWhiteSpace a) rfl
          exact ⟨this, fun c0 h0 => by cases h0⟩
        | some c1 =>
          simp only [minOpt] at h2
          by_cases hlt : leadingWhiteSpace a < c1
          · have := h2 (leadingWhiteSpace a) (by rw [if_pos hlt])
            exact ⟨this, fun c0 h0 => by cases h0; omega⟩
          · have := h2 c1 (by rw [if_neg hlt])
            exact ⟨by omega, fun c0 h0 => by cases h0; omega⟩
      refine ⟨?_, hmin.2⟩
      intro x hx hnb
      rcases List.mem_cons.mp hx with hh | hh
      · subst hh; exact hmin.1
      · exact h1 x hh hnb
    · rw [if_neg hb] at h
      obtain ⟨h1, h2⟩ := ih _ h
      refine ⟨?_, h2⟩
      intro x hx hnb
      rcases List.mem_cons.mp hx with hh | hh
      · subst hh; omega
      · exact h1 x hh hnb

theorem cut_blank_iff (ci : Option Nat) (t : List (List Nat)) (h : cmin none t = ci) :
    ∀ x ∈ t, (leadingWhiteSpace (cut ci x) = (cut ci x).length ↔ leadingWhiteSpace x = x.length) := by
  intro x hx
  cases ci with
  | none =>
    have := (cmin_none t none h).2 x hx
    simp [cut, this, leadingWhiteSpace]
  | some c =>
    have hb := (cmin_some t none c h).1 x hx
    simp only [cut]
    constructor
    · intro hd
      by_cases hx' : leadingWhiteSpace x = x.length
      · exact hx'
      · exact absurd hd (not_blank_drop x c hx' (hb hx'))
    · intro hx'; exact blank_drop x c hx'

theorem rtrim_allBlank (Z : List (List Nat)) (h : AllBlank Z) : rtrim Z = [] := by
  have := take_lastNB Z 0
  rw [lastNB_allBlank Z h] at this
  simpa using this.symm

theorem dropWhile_allBlank (Z : List (List Nat)) (h : AllBlank Z) : Z.dropWhile isBlank = [] := by
  induction Z with
  | nil => rfl
  | cons a Z ih =>
    rw [List.dropWhile_cons, if_pos ((isBlank_iff a).mpr (h a (by simp)))]
    exact ih (fun x hx => h x (by simp [hx]))

theorem trim_cons_allBlank (a : List Nat) (Z : List (List Nat)) (h : AllBlank Z) :
    trim (a :: Z) = if isBlank a then [] else [a] := by
  unfold trim
  rw [List.dropWhile_cons]
  by_cases ha : isBlank a = true
  · rw [if_pos ha, if_pos ha, dropWhile_allBlank Z h]; rfl
  · rw [if_neg ha, if_neg ha, rtrim_cons, rtrim_allBlank Z h]
    simp [ha]

/-- `dedent_block_string_lines` computes steps 2–6 of the specification's `BlockStringValue()`. -/
theorem dedent_eq_spec (lines : List (List Nat)) :
    dedentBlockStringLines lines = dedentLines lines := by
  cases lines with
  | nil => rfl
  | cons a t =>
    -- the implementation side
    have hM : dedentBlockStringLines (a :: t) = idxTrim (a :: t.map (cut (cmin none t))) := by
      unfold dedentBlockStringLines
      rw [dedentScan_eq]
      simp only []
      have hci : commonI (a :: t) 0 none = cmin none t := by
        simp only [commonI]
        split
        · exact commonI_eq_cmin t 1 (by omega) none
        · simp only [ne_eq, not_true_eq_false, if_false]
          exact commonI_eq_cmin t 1 (by omega) none
      rw [hci, dropIndent_cons0]
      have hpat := cut_blank_iff (cmin none t) t rfl
      have hf : firstNB (a :: t.map (cut (cmin none t))) 0 = firstNB (a :: t) 0 := by
        simp only [firstNB]; rw [firstNB_map _ _ hpat]
      have hl : lastNB (a :: t.map (cut (cmin none t))) 0 = lastNB (a :: t) 0 := by
        simp only [lastNB]; rw [lastNB_map _ _ hpat]
      unfold idxTrim
      rw [hf, hl]
      cases firstNB (a :: t) 0 <;> cases lastNB (a :: t) 0 <;> rfl
    -- the specification side
    have hS : dedentLines (a :: t) =
        trim (match cmin none t with
              | some c => a :: t.map (fun l => l.drop c)
              | none => a :: t) := by
      unfold dedentLines trim rtrim
      simp only [List.tail_cons]
      have : (List.foldl (fun ci line =>
              if Gql.Spec.Lex.leadingWhiteSpace line < line.length then
                minOpt ci (Gql.Spec.Lex.leadingWhiteSpace line) else ci) none t) = cmin none t := by
        unfold cmin
        congr 1; funext ci line; rw [← lws_eq_spec]
      rw [this]
      cases cmin none t <;> rfl
    rw [hM, hS, idxTrim_eq_trim]
    cases hc : cmin none t with
    | some c => rfl
    | none =>
      have hAll := (cmin_none t none hc).2
      have hAll' : AllBlank (t.map (cut none)) := by
        intro x hx; simp [cut] at hx; rw [hx.2]; rfl
      rw [trim_cons_allBlank a _ hAll', trim_cons_allBlank a _ hAll]
end Gql.Text
