/-
C13 — statically valid arguments always coerce (CoerceArgumentValues succeeds), with variables:
under the postcondition of CoerceVariableValues (`VarsOk`), the law `OpsSoundV` of the value
layer, and when the run-time exception of the specification does not apply at the argument
(`excArgs = false`).
-/
import Gql.Exec.ValidDoc
import Gql.Exec.Shape

namespace Gql.Exec.Valid
open Gql.Exec

/-- What CoerceVariableValues guarantees about the variable values it hands to execution: a
variable whose declared type is Non-Null, or that has a default value, has a runtime value. -/
def VarsOk (env : List VarDef) (vars : Vars) : Prop :=
  ∀ vd ∈ env, (vd.type.nonNull = true ∨ vd.default.isSome = true) →
    (vars.lookup vd.name).isSome = true

mutual
/-- a coerced value is of the input type `t` (what CoerceVariableValues produces for a variable
declared with type `t`) -/
def pyConforms (s : Schema) : TypeRef → PyVal → Prop
  | t, .null => t.nonNull = false
  | t, .list xs =>
    match t with
    | .list t' _ => pyConformsL s t' xs
    | .named _ _ => False
  | t, v =>
    match t with
    | .named n _ => s.kind n = .leaf ∨ s.kind n = .input
    | .list _ _ => (match v with | .list _ => True | _ => False)
def pyConformsL (s : Schema) (t : TypeRef) : List PyVal → Prop
  | [] => True
  | x :: xs => pyConforms s t x ∧ pyConformsL s t xs
end

/-- every variable value is of the declared type of its variable -/
def VarsTyped (s : Schema) (env : List VarDef) (vars : Vars) : Prop :=
  ∀ vd ∈ env, ∀ w, vars.lookup vd.name = some w → pyConforms s vd.type w

/-- What soundness needs from the value layer (C15), for the variable environment `env` and the
variable values `vars` of a request: when the variable values are of their declared types, a
value that passes the static check (ValuesOfCorrectType + VariablesInAllowedPosition) at a
position of type `t`, where the run-time exception does not apply, and that is not itself a
variable without runtime value (CoerceArgumentValues handles that case before coercing), is
coercible.  Missing variables *inside* list and object literals are the value layer's business
(list item → null, object field → absent/default). -/
def OpsSoundV (ops : Ops) (s : Schema) (env : List VarDef) (vars : Vars) : Prop :=
  VarsTyped s env vars →
  ∀ (t : TypeRef) (d : Bool) (v : Value), validValue s env t d v = true →
    excValue s env vars t v = false →
    (∀ x, v = .var x → (vars.lookup x).isSome = true) →
    ops.coerceLiteral s vars t v ≠ none

/-- the closed-literal instance used by stage 1 -/
def OpsSound (ops : Ops) (s : Schema) : Prop :=
  ∀ (t : TypeRef) (d : Bool) (v : Value), validValue s [] t d v = true →
    ∀ vars : Vars, ops.coerceLiteral s vars t v ≠ none

/-- schema validity as far as arguments go: argument defaults are coercible -/
def DefaultsOk (ops : Ops) (s : Schema) : Prop :=
  ∀ (o f : Name) (fd : FieldDef), s.getField o f = some fd → ∀ a ∈ fd.args, ∀ d, a.default = some d →
    ops.coerceLiteral s [] a.type d ≠ none

theorem lookupArg_mem {args : List (Name × Value)} {n : Name} {v : Value}
    (h : lookupArg args n = some v) : (n, v) ∈ args := by
  unfold lookupArg at h
  cases hf : args.reverse.find? (fun p => p.1 == n) with
  | none => simp [hf] at h
  | some p =>
    simp only [hf, Option.map_some, Option.some.injEq] at h
    have hm := List.mem_reverse.1 (List.mem_of_find?_eq_some hf)
    have hk := List.find?_some hf
    have : p.1 = n := by simpa using hk
    obtain ⟨a, b⟩ := p
    simp only at this h
    subst this; subst h
    exact hm

theorem lookupArg_of_contains {args : List (Name × Value)} {n : Name}
    (h : (args.map (·.1)).contains n = true) : ∃ v, lookupArg args n = some v := by
  simp only [List.contains_eq_mem, List.mem_map, decide_eq_true_eq] at h
  obtain ⟨p, hp, hn⟩ := h
  unfold lookupArg
  cases hf : args.reverse.find? (fun q => q.1 == n) with
  | some q => exact ⟨q.2, rfl⟩
  | none =>
    have := List.find?_eq_none.1 hf p (List.mem_reverse.2 hp)
    simp [hn] at this

theorem validValue_var_false (s : Schema) (t : TypeRef) (d : Bool) (x : Name) :
    validValue s [] t d (.var x) = false := by
  unfold validValue
  simp

/-- the variable is declared, and its usage at a position of type `t` is allowed -/
theorem validValue_var {s : Schema} {env : List VarDef} {t : TypeRef} {d : Bool} {x : Name}
    (h : validValue s env t d (.var x) = true) :
    ∃ vd, env.find? (fun vd => vd.name == x) = some vd ∧ allowedUsage vd.type vd.default t d = true := by
  unfold validValue at h
  cases hf : env.find? (fun vd => vd.name == x) with
  | none => simp [hf] at h
  | some vd => exact ⟨vd, rfl, by simpa [hf] using h⟩

/-- a variable used at a Non-Null position without location default is of a Non-Null type or has
a (non-null) default -/
theorem allowed_nonNull {vt : TypeRef} {vdft : Option Value} {t : TypeRef}
    (h : allowedUsage vt vdft t false = true) (ht : t.nonNull = true) :
    vt.nonNull = true ∨ vdft.isSome = true := by
  unfold allowedUsage at h
  cases hv : vt.nonNull with
  | true => exact Or.inl rfl
  | false =>
    right
    simp only [ht, hv, Bool.not_false, Bool.and_self, ↓reduceIte, Bool.not_true, Bool.and_true] at h
    cases vdft with
    | none => simp at h
    | some d => rfl

variable (scx : Spec.Ctx) (env : List VarDef)

/-- one argument definition under valid arguments -/
theorem argument_coerces (hvok : VarsOk env scx.vars)
    (hops : ∀ (t : TypeRef) (d : Bool) (v : Value), validValue scx.schema env t d v = true →
      excValue scx.schema env scx.vars t v = false →
      (∀ x, v = .var x → (scx.vars.lookup x).isSome = true) →
      scx.ops.coerceLiteral scx.schema scx.vars t v ≠ none)
    (defs : List ArgDef) (args : List (Name × Value))
    (hv : validArgs scx.schema env defs args = true)
    (hexc : excArgs scx.schema env scx.vars defs args = false)
    (a : ArgDef) (ha : a ∈ defs)
    (hdef : ∀ d, a.default = some d → scx.ops.coerceLiteral scx.schema [] a.type d ≠ none)
    (rest : List ArgDef) (acc : ArgMap)
    (ih : ∀ acc', ∃ m, Spec.coerceArgumentValues scx args rest acc' = some m) :
    ∃ m, Spec.coerceArgumentValues scx args (a :: rest) acc = some m := by
  unfold validArgs at hv
  simp only [Bool.and_eq_true, List.all_eq_true] at hv
  obtain ⟨⟨_, hall⟩, hreq⟩ := hv
  unfold Spec.coerceArgumentValues
  cases hl : lookupArg args a.name with
  | none =>
    simp only [Bool.not_false, Bool.true_and]
    cases hd : a.default with
    | some d =>
      simp only [Option.isSome_some, ↓reduceIte]
      cases hc : scx.ops.coerceLiteral scx.schema [] a.type d with
      | none => exact absurd hc (hdef d hd)
      | some v => simpa using ih _
    | none =>
      simp only [Option.isSome_none, Bool.false_eq_true, ↓reduceIte]
      cases hnn : a.type.nonNull with
      | false => simpa using ih _
      | true =>
        have hr := hreq a ha
        have : a.required = true := by simp [ArgDef.required, hnn, hd]
        simp only [this, Bool.not_true, Bool.false_or] at hr
        obtain ⟨v, hv'⟩ := lookupArg_of_contains hr
        rw [hl] at hv'; cases hv'
  | some v =>
    have hmem := lookupArg_mem hl
    have hp := hall _ hmem
    simp only [Bool.and_eq_true, List.all_eq_true, Bool.or_eq_true, bne_iff_ne, ne_eq] at hp
    have hval := hp.2 a ha
    have hval' : validValue scx.schema env a.type a.default.isSome v = true := by
      rcases hval with h | h
      · exact absurd rfl h
      · exact h
    have hexc' : excValue scx.schema env scx.vars a.type v = false := by
      unfold excArgs at hexc
      have h1 := List.any_eq_false.1 hexc _ hmem
      simp only [List.any_eq_true, Bool.and_eq_true, beq_iff_eq, not_exists, not_and,
        Bool.not_eq_true] at h1
      exact h1 a ha rfl
    cases hvar : v with
    | var x =>
      subst hvar
      cases hx : scx.vars.lookup x with
      | none =>
        -- a variable without runtime value: default, or no entry; never at a required position
        simp only [hx, Option.isSome_none, Bool.not_false, Bool.true_and]
        cases hd : a.default with
        | some d =>
          simp only [Option.isSome_some, ↓reduceIte]
          cases hc : scx.ops.coerceLiteral scx.schema [] a.type d with
          | none => exact absurd hc (hdef d hd)
          | some w => simpa using ih _
        | none =>
          simp only [Option.isSome_none, Bool.false_eq_true, ↓reduceIte]
          cases hnn : a.type.nonNull with
          | false => simpa using ih _
          | true =>
            obtain ⟨vd, hfind, hallow⟩ := validValue_var hval'
            rw [hd] at hallow
            have hvd : vd ∈ env := List.mem_of_find?_eq_some hfind
            have hname : vd.name = x := by simpa using List.find?_some hfind
            have := hvok vd hvd (allowed_nonNull hallow hnn)
            rw [hname, hx] at this
            cases this
      | some w =>
        simp only [hx, Option.isSome_some, Bool.not_true, Bool.false_and, Bool.false_eq_true, ↓reduceIte]
        cases hc : scx.ops.coerceLiteral scx.schema scx.vars a.type (.var x) with
        | none => exact absurd hc (hops _ _ _ hval' hexc' (by intro y hy; cases hy; simp [hx]))
        | some r => simpa using ih _
    | _ =>
      subst hvar
      simp only [Bool.not_true, Bool.false_and, Bool.false_eq_true, ↓reduceIte]
      first
        | (cases hc : scx.ops.coerceLiteral scx.schema scx.vars a.type _ with
           | none => exact absurd hc (hops _ _ _ hval' hexc' (by intro y hy; cases hy))
           | some w => simpa using ih _)

theorem arguments_coerce (hvok : VarsOk env scx.vars)
    (hops : ∀ (t : TypeRef) (d : Bool) (v : Value), validValue scx.schema env t d v = true →
      excValue scx.schema env scx.vars t v = false →
      (∀ x, v = .var x → (scx.vars.lookup x).isSome = true) →
      scx.ops.coerceLiteral scx.schema scx.vars t v ≠ none)
    (defs : List ArgDef) (args : List (Name × Value))
    (hv : validArgs scx.schema env defs args = true)
    (hexc : excArgs scx.schema env scx.vars defs args = false)
    (hdef : ∀ a ∈ defs, ∀ d, a.default = some d → scx.ops.coerceLiteral scx.schema [] a.type d ≠ none) :
    ∀ (rest : List ArgDef), (∀ a ∈ rest, a ∈ defs) → ∀ acc, ∃ m,
      Spec.coerceArgumentValues scx args rest acc = some m
  | [], _, acc => ⟨acc, rfl⟩
  | a :: rest, hsub, acc =>
    argument_coerces scx env hvok hops defs args hv hexc a (hsub a (List.mem_cons_self ..))
      (hdef a (hsub a (List.mem_cons_self ..)))
      rest acc (fun acc' => arguments_coerce hvok hops defs args hv hexc hdef rest
        (fun b hb => hsub b (List.mem_cons_of_mem _ hb)) acc')

end Gql.Exec.Valid

namespace Gql.Exec.Valid
open Gql.Exec

mutual
theorem excValue_nil (s : Schema) (vars : Vars) : (v : Value) → ∀ t, excValue s [] vars t v = false
  | .var x, t => by simp [excValue]
  | .int _, t => by cases t <;> simp [excValue]
  | .flt _, t => by cases t <;> simp [excValue]
  | .str _, t => by cases t <;> simp [excValue]
  | .bool _, t => by cases t <;> simp [excValue]
  | .null, t => by cases t <;> simp [excValue]
  | .enum _, t => by cases t <;> simp [excValue]
  | .list vs, t => by
    cases t with
    | named n nn => simp [excValue]
    | list t' nn => simp only [excValue]; exact excItems_nil s vars vs t'
  | .obj fs, t => by
    unfold excValue
    split
    · exact excFields_nil s vars fs _
    · rfl
theorem excItems_nil (s : Schema) (vars : Vars) : (vs : List Value) → ∀ t, excItems s [] vars t vs = false
  | [], t => by simp [excItems]
  | v :: vs, t => by simp [excItems, excValue_nil s vars v t, excItems_nil s vars vs t]
theorem excFields_nil (s : Schema) (vars : Vars) : (fs : List (Name × Value)) → ∀ defs,
    excFields s [] vars defs fs = false
  | [], defs => by simp [excFields]
  | (n, v) :: fs, defs => by
    unfold excFields
    rw [excFields_nil s vars fs defs]
    cases defs.find? (fun d => d.name == n) with
    | none => rfl
    | some d => simp [excValue_nil s vars v d.type]
end

theorem excArgs_nil (s : Schema) (vars : Vars) (defs : List ArgDef) (args : List (Name × Value)) :
    excArgs s [] vars defs args = false := by
  unfold excArgs
  simp [excValue_nil]

end Gql.Exec.Valid
