/-
C13 — statically valid, variable-free arguments always coerce (CoerceArgumentValues succeeds).
-/
import Gql.Exec.ValidDoc
import Gql.Exec.Shape

namespace Gql.Exec.Valid
open Gql.Exec

/-- what soundness needs from the value layer (C15): a literal that passes the static check
without variables is coercible, under any variable values -/
def OpsSound (ops : Ops) (s : Schema) : Prop :=
  ∀ (t : TypeRef) (d : Bool) (v : Value), validValue s [] t d v = true →
    ∀ vars : Vars, ops.coerceLiteral s vars t v ≠ none

/-- schema validity as far as arguments go: argument defaults are coercible -/
def DefaultsOk (ops : Ops) (s : Schema) : Prop :=
  ∀ (o f : Name) (fd : FieldDef), s.getField o f = some fd → ∀ a ∈ fd.args, ∀ d, a.default = some d →
    ops.coerceLiteral s [] a.type d ≠ none

theorem lookupArg_mem {args : List (Name × Value)} {n : Name} {v : Value}
    (h : lookupArg args n = some v) : (n, v) ∈ args := by
  unfold lookupArg at h
  cases hf : args.reverse.find? (fun p => p.1 == n) with
  | none => simp [hf] at h
  | some p =>
    simp only [hf, Option.map_some, Option.some.injEq] at h
    have hm := List.mem_reverse.1 (List.mem_of_find?_eq_some hf)
    have hk := List.find?_some hf
    have : p.1 = n := by simpa using hk
    obtain ⟨a, b⟩ := p
    simp only at this h
    subst this; subst h
    exact hm

theorem lookupArg_of_contains {args : List (Name × Value)} {n : Name}
    (h : (args.map (·.1)).contains n = true) : ∃ v, lookupArg args n = some v := by
  simp only [List.contains_eq_mem, List.mem_map, decide_eq_true_eq] at h
  obtain ⟨p, hp, hn⟩ := h
  unfold lookupArg
  cases hf : args.reverse.find? (fun q => q.1 == n) with
  | some q => exact ⟨q.2, rfl⟩
  | none =>
    have := List.find?_eq_none.1 hf p (List.mem_reverse.2 hp)
    simp [hn] at this

theorem validValue_var_false (s : Schema) (t : TypeRef) (d : Bool) (x : Name) :
    validValue s [] t d (.var x) = false := by
  unfold validValue
  simp

variable (scx : Spec.Ctx)

/-- one argument definition under valid, variable-free arguments -/
theorem argument_coerces (hops : OpsSound scx.ops scx.schema)
    (defs : List ArgDef) (args : List (Name × Value))
    (hv : validArgs scx.schema [] defs args = true) (a : ArgDef) (ha : a ∈ defs)
    (hdef : ∀ d, a.default = some d → scx.ops.coerceLiteral scx.schema [] a.type d ≠ none)
    (rest : List ArgDef) (acc : ArgMap)
    (ih : ∀ acc', ∃ m, Spec.coerceArgumentValues scx args rest acc' = some m) :
    ∃ m, Spec.coerceArgumentValues scx args (a :: rest) acc = some m := by
  unfold validArgs at hv
  simp only [Bool.and_eq_true, List.all_eq_true] at hv
  obtain ⟨⟨_, hall⟩, hreq⟩ := hv
  unfold Spec.coerceArgumentValues
  cases hl : lookupArg args a.name with
  | none =>
    simp only [Bool.not_false, Bool.true_and]
    cases hd : a.default with
    | some d =>
      simp only [Option.isSome_some, ↓reduceIte]
      cases hc : scx.ops.coerceLiteral scx.schema [] a.type d with
      | none => exact absurd hc (hdef d hd)
      | some v => simpa using ih _
    | none =>
      simp only [Option.isSome_none, Bool.false_eq_true, ↓reduceIte]
      cases hnn : a.type.nonNull with
      | false => simpa using ih _
      | true =>
        have hr := hreq a ha
        have : a.required = true := by simp [ArgDef.required, hnn, hd]
        simp only [this, Bool.not_true, Bool.false_or] at hr
        obtain ⟨v, hv'⟩ := lookupArg_of_contains hr
        rw [hl] at hv'; cases hv'
  | some v =>
    have hmem := lookupArg_mem hl
    have hp := hall _ hmem
    simp only [Bool.and_eq_true, List.all_eq_true, Bool.or_eq_true, bne_iff_ne, ne_eq] at hp
    have hval := hp.2 a ha
    have hval' : validValue scx.schema [] a.type a.default.isSome v = true := by
      rcases hval with h | h
      · exact absurd rfl h
      · exact h
    cases v with
    | var x => rw [validValue_var_false] at hval'; cases hval'
    | _ =>
      simp only [Bool.not_true, Bool.false_and, Bool.false_eq_true, ↓reduceIte]
      first
        | (cases hc : scx.ops.coerceLiteral scx.schema scx.vars a.type _ with
           | none => exact absurd hc (hops _ _ _ hval' _)
           | some w => simpa using ih _)

theorem arguments_coerce (hops : OpsSound scx.ops scx.schema)
    (defs : List ArgDef) (args : List (Name × Value))
    (hv : validArgs scx.schema [] defs args = true)
    (hdef : ∀ a ∈ defs, ∀ d, a.default = some d → scx.ops.coerceLiteral scx.schema [] a.type d ≠ none) :
    ∀ (rest : List ArgDef), (∀ a ∈ rest, a ∈ defs) → ∀ acc, ∃ m,
      Spec.coerceArgumentValues scx args rest acc = some m
  | [], _, acc => ⟨acc, rfl⟩
  | a :: rest, hsub, acc =>
    argument_coerces scx hops defs args hv a (hsub a (List.mem_cons_self ..)) (hdef a (hsub a (List.mem_cons_self ..)))
      rest acc (fun acc' => arguments_coerce hops defs args hv hdef rest
        (fun b hb => hsub b (List.mem_cons_of_mem _ hb)) acc')

end Gql.Exec.Valid
