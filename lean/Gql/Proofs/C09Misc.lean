import Gql.Text.Strip
import Gql.Proofs.LexerBasic
/-!
# Token counter of `advance_lexer`, rejection behaviour of `strip_ignored_characters`,
ordering of token spans
-/
open Gql Gql.Text
namespace Gql.Text

/-- Number of significant tokens of a token stream (the tokens before `<EOF>`). -/
def sigCount : List Token → Nat
  | [] => 0
  | t :: rest => if t.kind = .eof then 0 else sigCount rest + 1

theorem advanceAll_none (ts : List Token) (c : Nat) :
    advanceAll none ts c = .ok (c + sigCount ts) := by
  induction ts generalizing c with
  | nil => simp [advanceAll, sigCount]
  | cons t rest ih =>
    simp only [advanceAll, sigCount]
    split
    · simp
    · rw [ih]; congr 1; omega

theorem advanceAll_some_ok (n : Nat) (ts : List Token) (c : Nat) (hc : c ≤ n) :
    (c + sigCount ts ≤ n → advanceAll (some n) ts c = .ok (c + sigCount ts)) ∧
    (n < c + sigCount ts → ∃ p, advanceAll (some n) ts c = .err p) := by
  induction ts generalizing c with
  | nil => simp [advanceAll, sigCount]; omega
  | cons t rest ih =>
    simp only [advanceAll, sigCount]
    split
    · simp; omega
    · by_cases hgt : c + 1 > n
      · simp only [hgt, if_true]
        constructor
        · intro h; omega
        · intro _; exact ⟨_, rfl⟩
      · simp only [hgt, if_false]
        have := ih (c + 1) (by omega)
        constructor
        · intro h; rw [this.1 (by omega)]; congr 1; omega
        · intro h; exact this.2 (by omega)

/-- Token spans in order: each token starts at or after `lo`, is non-empty and inside the text,
the next one starts at or after its end, and the list ends with `<EOF>` at `(len, len)`. -/
def SpanChain (len : Nat) : Nat → List Token → Prop
  | _, [] => False
  | lo, [t] => t.kind = .eof ∧ lo ≤ t.start ∧ t.start = len ∧ t.stop = len
  | lo, t :: rest => t.kind ≠ .eof ∧ t.kind ≠ .comment ∧ lo ≤ t.start ∧ t.start < t.stop ∧ t.stop ≤ len ∧
      SpanChain len t.stop rest

theorem lexAllAux_spans (body : List Nat) (fuel : Nat) (st : LexState) (pos : Nat) (acc ts : List Token)
    (hp : pos ≤ body.length) (h : lexAllAux body fuel st pos acc = .ok ts) :
    ∃ rest, ts = acc ++ rest ∧ SpanChain body.length pos rest := by
  induction fuel generalizing st pos acc with
  | zero => simp [lexAllAux] at h
  | succ k ih =>
    rw [lexAllAux] at h
    have hpost := readNextToken_post body st pos hp
    cases hr : readNextToken body st pos with
    | ok r =>
      obtain ⟨t, st'⟩ := r
      rw [hr] at h hpost
      obtain ⟨h1, h2⟩ := hpost
      dsimp only at h1 h2
      simp only [Out.bind_ok] at h
      by_cases he : t.kind = .eof
      · rw [if_pos he] at h
        have : ts = acc ++ [t] := by
          have := h; simp only [Out.pure_eq] at this; exact (Out.ok.inj this).symm
        refine ⟨[t], this, ?_⟩
        rcases h2 with h2 | h2
        · exact absurd he h2.1
        · exact ⟨he, h1, h2.2.1, h2.2.2⟩
      · rw [if_neg he] at h
        rcases h2 with h2 | h2
        · by_cases hc : t.kind = .comment
          · rw [if_pos hc] at h
            obtain ⟨rest, hts, hch⟩ := ih st' t.stop acc h2.2.2 h
            refine ⟨rest, hts, ?_⟩
            -- the chain may start later
            have hmono : ∀ (l : List Token) (a b : Nat), a ≤ b → SpanChain body.length b l → SpanChain body.length a l := by
              intro l a b hab hl
              match l, hl with
              | [t'], hl => exact ⟨hl.1, by have := hl.2.1; omega, hl.2.2⟩
              | t' :: t'' :: l', hl =>
                exact ⟨hl.1, hl.2.1, by have := hl.2.2.1; omega, hl.2.2.2⟩
            exact hmono rest pos t.stop (by have := h2.2.1; omega) hch
          · rw [if_neg hc] at h
            obtain ⟨rest, hts, hch⟩ := ih st' t.stop (acc ++ [t]) h2.2.2 h
            refine ⟨t :: rest, by rw [hts]; simp, ?_⟩
            match rest, hch with
            | t' :: rest', hch => exact ⟨he, hc, h1, h2.2.1, h2.2.2, hch⟩
        · exact absurd h2.1 he
    | err e => rw [hr] at h; simp at h
    | crash c => rw [hr] at h; simp at h

end Gql.Text
