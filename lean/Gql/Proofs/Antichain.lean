import Gql.Proofs.AnnounceRun
/-!
P5 as a state invariant: no proper ancestor of a root group has a node in the graph — the
enclosing fragments of a pending (announced) fragment are all finished or pruned; in
particular the roots form an antichain of the parent order.
-/
namespace Gql.Async
open Gql.Spec.Protocol

/-- `a` is a proper ancestor of `x` along `σ.parent`. -/
inductive Anc (σ : Static) : Nat → Nat → Prop where
  | parent {a x : Nat} : σ.parent x = some a → Anc σ a x
  | step {a p x : Nat} : σ.parent x = some p → Anc σ a p → Anc σ a x

theorem Anc.inv {σ : Static} {a x : Nat} (h : Anc σ a x) :
    ∃ p, σ.parent x = some p ∧ (a = p ∨ Anc σ a p) := by
  cases h with
  | parent hp => exact ⟨a, hp, Or.inl rfl⟩
  | step hp ha => exact ⟨_, hp, Or.inr ha⟩

/-- No proper ancestor of `x` has a node. -/
def NoAnc (σ : Static) (q : WQ) (x : Nat) : Prop := ∀ a, Anc σ a x → ¬ hasNode q a

theorem NoAnc.sub {σ : Static} {q q' : WQ} {x : Nat} (h : NoAnc σ q x) (s : SubGraph q q') :
    NoAnc σ q' x := fun a ha hn => h a ha (s.hasNode hn)

/-- The roots' ancestors are gone. -/
def Anti (σ : Static) (q : WQ) : Prop := ∀ r ∈ q.rootGroups, NoAnc σ q r

/-- The introduced groups are closed under `parent`, and parents are older (E6). -/
def Closed (σ : Static) (e : EnvSt) : Prop :=
  ∀ g ∈ e.introG, ∀ p, σ.parent g = some p → p < g ∧ p ∈ e.introG

theorem Closed.anc {σ : Static} {e : EnvSt} (c : Closed σ e) {a x : Nat} (hx : x ∈ e.introG)
    (h : Anc σ a x) : a ∈ e.introG := by
  induction h with
  | parent hp => exact (c _ hx _ hp).2
  | step hp _ ih => exact ih (c _ hx _ hp).2

/-- After `prune`, every promoted group and every deleted node has no ancestor left in the
graph, provided the groups it started from had none. -/
theorem prune_anc (σ : Static) (qin qout : WQ) (gs new : List Nat) (po : PruneOut qin gs qout new)
    (tl : TreeLike σ qin) (sub : SubGraph qin qout)
    (hlt : ∀ p c, hasChild qin p c → p < c) (hgs : ∀ y ∈ gs, NoAnc σ qin y) :
    ∀ x, (x ∈ new ∨ (hasNode qin x ∧ ¬ hasNode qout x)) → NoAnc σ qout x := by
  intro x
  induction x using Nat.strongRecOn with
  | _ x ih =>
    intro hx
    -- where `x` comes from
    have hsrc : x ∈ gs ∨ ∃ p, hasChild qin p x ∧ alookup qout.groupNodes p = none := by
      rcases hx with h | ⟨h1, h2⟩
      · exact po.src x h
      · exact po.del x h1 h2
    rcases hsrc with h | ⟨p, hp1, hp2⟩
    · exact (hgs x h).sub sub
    · have hpar := tl.parent p x hp1
      have hdel : hasNode qin p ∧ ¬ hasNode qout p := by
        refine ⟨⟨_, hp1.choose_spec.1⟩, ?_⟩
        intro ⟨m, hm⟩; rw [hp2] at hm; cases hm
      have ihp := ih p (hlt p x hp1) (Or.inr hdel)
      intro a ha
      obtain ⟨p', e1, h'⟩ := ha.inv
      rw [hpar] at e1; cases e1
      rcases h' with rfl | h'
      · exact hdel.2
      · exact ihp a h'

theorem Anti.shrink {σ : Static} {q q' : WQ} (h : Anti σ q) (s : SubGraph q q')
    (hr : ∀ x, x ∈ q'.rootGroups → x ∈ q.rootGroups) : Anti σ q' :=
  fun r hr' => (h r (hr r hr')).sub s

/-! ### new nodes are fresh -/

theorem attachGroup_nodes (σ : Static) (hpt : Bool) (g : Nat) (r : WQ × List Nat) (k : Nat)
    (h : hasNode (attachGroup σ hpt g r).1 k) : k = g ∨ hasNode r.1 k := by
  obtain ⟨m, hm⟩ := h
  rcases attachGroup_lookup σ hpt g r k m hm with ⟨h1, _⟩ | ⟨h1, _⟩ | ⟨_, m0, h0, _⟩
  · exact Or.inl h1
  · exact Or.inl h1
  · exact Or.inr ⟨m0, h0⟩

theorem attachSeq_nodes (σ : Static) (hpt : Bool) (S : List Nat) (r : WQ × List Nat) (k : Nat)
    (h : hasNode (attachSeq σ hpt S r).1 k) : k ∈ S ∨ hasNode r.1 k := by
  induction S generalizing r with
  | nil => exact Or.inr h
  | cons g S ih =>
    have : attachSeq σ hpt (g :: S) r = attachSeq σ hpt S (attachGroup σ hpt g r) := rfl
    rw [this] at h
    rcases ih _ h with h1 | h1
    · exact Or.inl (List.mem_cons_of_mem _ h1)
    · rcases attachGroup_nodes σ hpt g r k h1 with h2 | h2
      · exact Or.inl (by simp [h2])
      · exact Or.inr h2

theorem integrateWork_nodes (σ : Static) (q : WQ) (w : Work) (pt : Option Nat) (k : Nat)
    (h : hasNode (integrateWork σ q (some w) pt).1 k) : k ∈ w.groups ∨ hasNode q k := by
  unfold integrateWork at h
  simp only at h
  have h1 : ∀ k, hasNode (if w.groups.isEmpty then (q, ([] : List Nat))
      else addGroups σ q w.groups pt.isSome).1 k → k ∈ w.groups ∨ hasNode q k := by
    intro k hk
    split at hk
    · exact Or.inr hk
    · obtain ⟨S, hS, _, hsub⟩ := addGroups_seq σ q w.groups pt.isSome
      rw [hS] at hk
      rcases attachSeq_nodes σ _ S (q, []) k hk with h | h
      · exact Or.inl (hsub k h)
      · exact Or.inr h
  have h2 := (tasks_fold_shrink σ w.tasks
    (if w.groups.isEmpty then (q, ([] : List Nat)) else addGroups σ q w.groups pt.isSome).1).1
  apply h1 k
  apply h2.sub.hasNode
  split at h
  · exact h
  · -- `_add_streams` does not touch the group nodes
    obtain ⟨m, hm⟩ := h
    refine ⟨m, ?_⟩
    unfold addStreams at hm
    split at hm
    · exact hm
    · split at hm <;> exact hm

/-- Integrating a well-formed work keeps the roots' ancestors out of the graph. -/
theorem integrateWork_anti (σ : Static) (e : EnvSt) (q : WQ) (w : Work) (pt : Option Nat)
    (g : Good σ e q) (c : Closed σ e) (ok : WorkOk σ e q w) (a : Anti σ q) :
    Anti σ (integrateWork σ q (some w) pt).1 := by
  intro r hr x hx hn
  rw [(integrateWork_frame σ q (some w) pt).rg] at hr
  rcases integrateWork_nodes σ q w pt x hn with h | h
  · exact ok.gfresh x h (c.anc (g.known.roots r hr) hx)
  · exact a r hr x hx h

theorem closed_intro (σ : Static) (e : EnvSt) (w : Work) (c : Closed σ e) (ok : WorkOk σ e q w)
    (hp : ∀ g ∈ w.groups, ∀ p, σ.parent g = some p → p ∈ w.groups ∨ p ∈ e.introG) :
    Closed σ (e.intro (some w)) := by
  intro g hg p hpg
  simp only [EnvSt.intro, List.mem_append] at hg ⊢
  rcases hg with hg | hg
  · refine ⟨ok.plt g hg p hpg, ?_⟩
    rcases hp g hg p hpg with h | h
    · exact Or.inl h
    · exact Or.inr h
  · exact ⟨(c g hg p hpg).1, Or.inr (c g hg p hpg).2⟩

end Gql.Async

namespace Gql.Async
open Gql.Spec.Protocol

theorem hasChild_lt (σ : Static) (e : EnvSt) (q : WQ) (g : Good σ e q) (c : Closed σ e) :
    ∀ p x, hasChild q p x → p < x := by
  intro p x hc
  exact (c x (g.known.children p x hc) p (g.forest.parent p x hc)).1

/-- The groups promoted by `_finish_group_success` have no ancestor left in the graph. -/
theorem finishGroupSuccess_anc (σ : Static) (e : EnvSt) (q : WQ) (g : Nat) (n : GroupNode)
    (gd : Good σ e q) (c : Closed σ e) (hn : alookup q.groupNodes g = some n) (hg : NoAnc σ q g) :
    ∀ x ∈ (finishGroupSuccess σ q g n).2.2.1, NoAnc σ (finishGroupSuccess σ q g n).1 x := by
  have h1 : Shrink q ({ q with groupNodes := aerase q.groupNodes g } : WQ) := erase_shrink q g
  have hgone1 : alookup ({ q with groupNodes := aerase q.groupNodes g } : WQ).groupNodes g = none :=
    alookup_aerase_self _ _
  have h2 := collect_shrink σ n.tasks
    (({ q with groupNodes := aerase q.groupNodes g } : WQ), ([] : List GVal), ([] : List Nat))
  have h12 := h1.trans h2
  have hgone2 := h2.sub.none hgone1
  have tl : TreeLike σ (n.tasks.foldl (collectTask σ)
      (({ q with groupNodes := aerase q.groupNodes g } : WQ), ([] : List GVal), ([] : List Nat))).1 :=
    gd.forest.treeLike.sub h12.sub
  have hdet : ∀ x ∈ n.children, Detached (n.tasks.foldl (collectTask σ)
      (({ q with groupNodes := aerase q.groupNodes g } : WQ), ([] : List GVal), ([] : List Nat))).1 x := by
    intro x hx p hc
    have e1 := gd.forest.parent p x (h12.sub.hasChild hc)
    have e2 := gd.forest.parent g x ⟨n, hn, hx⟩
    rw [e1] at e2; cases e2
    obtain ⟨m, hm, _⟩ := hc
    rw [hgone2] at hm; cases hm
  obtain ⟨new, en, po⟩ := prune_spec σ _ n.children _ [] tl (gd.forest.nodup g n hn) hdet
  have hnew : (pruneEmpty (n.tasks.foldl (collectTask σ)
      (({ q with groupNodes := aerase q.groupNodes g } : WQ), ([] : List GVal), ([] : List Nat))).1 n.children).2 = new := by
    simpa [pruneEmpty] using en
  have hsub : SubGraph (n.tasks.foldl (collectTask σ)
      (({ q with groupNodes := aerase q.groupNodes g } : WQ), ([] : List GVal), ([] : List Nat))).1
      (pruneEmpty (n.tasks.foldl (collectTask σ)
      (({ q with groupNodes := aerase q.groupNodes g } : WQ), ([] : List GVal), ([] : List Nat))).1 n.children).1 :=
    prune_sub _ n.children _
  have hgs : ∀ y ∈ n.children, NoAnc σ (n.tasks.foldl (collectTask σ)
      (({ q with groupNodes := aerase q.groupNodes g } : WQ), ([] : List GVal), ([] : List Nat))).1 y := by
    intro y hy a ha hna
    obtain ⟨p, e1, h'⟩ := ha.inv
    have e2 := gd.forest.parent g y ⟨n, hn, hy⟩
    rw [e2] at e1; cases e1
    rcases h' with rfl | h'
    · obtain ⟨m, hm⟩ := hna
      rw [hgone2] at hm; cases hm
    · exact hg a h' (h12.sub.hasNode hna)
  have key := prune_anc σ _ _ n.children new po tl hsub
    (fun p x hc => hasChild_lt σ e q gd c p x (h12.sub.hasChild hc)) hgs
  intro x hx
  unfold finishGroupSuccess at hx ⊢
  simp only at hx ⊢
  rw [hnew] at hx
  intro a ha hna
  exact key x (Or.inl hx) a ha (by obtain ⟨m, hm⟩ := hna; exact ⟨m, hm⟩)

/-- The ancestor half of the loop invariant of `_task_success`. -/
def SuccAnti (σ : Static) (acc : WQ × List WQEvent × List Nat × List Nat) : Prop :=
  Anti σ acc.1 ∧ ∀ x ∈ acc.2.2.1, NoAnc σ acc.1 x

theorem successStep_anti (σ : Static) (e : EnvSt) (D : List Node)
    (acc : WQ × List WQEvent × List Nat × List Nat) (g : Nat) (c : Closed σ e)
    (h : SuccAll σ e D acc) (ha : SuccAnti σ acc) : SuccAnti σ (successStep σ acc g) := by
  unfold successStep
  cases hl : alookup acc.1.groupNodes g with
  | none => simpa [hl] using ha
  | some n =>
    simp only [hl]
    have sh0 : Shrink acc.1 ({ acc.1 with groupNodes := aset acc.1.groupNodes g { n with pending := n.pending - 1 } } : WQ) :=
      ⟨subGraph_aset acc.1 g n _ hl rfl, tsub_of_eq rfl⟩
    have fr0 : RootFrame acc.1 ({ acc.1 with groupNodes := aset acc.1.groupNodes g { n with pending := n.pending - 1 } } : WQ) :=
      ⟨rfl, rfl, rfl, rfl⟩
    have g0 : Good σ e ({ acc.1 with groupNodes := aset acc.1.groupNodes g { n with pending := n.pending - 1 } } : WQ) :=
      h.good.frame sh0 fr0
    have a0 : Anti σ ({ acc.1 with groupNodes := aset acc.1.groupNodes g { n with pending := n.pending - 1 } } : WQ) :=
      ha.1.shrink sh0.sub (fun x hx => hx)
    split
    · rename_i hfin
      have fo := finishGroupSuccess_out σ e _ g { n with pending := n.pending - 1 } g0
        (by simp only; exact alookup_aset_self _ _ _)
      have hanc := finishGroupSuccess_anc σ e _ g { n with pending := n.pending - 1 } g0 c
        (by simp only; exact alookup_aset_self _ _ _) (a0 g hfin.1)
      refine ⟨?_, ?_⟩
      · refine a0.shrink fo.shrink.sub ?_
        intro x hx
        rw [fo.rg, mem_oerase] at hx
        exact hx.1
      · intro x hx
        simp only at hx
        rcases List.mem_append.mp hx with hx | hx
        · exact (ha.2 x hx).sub (sh0.trans fo.shrink).sub
        · exact hanc x hx
    · exact ⟨a0, fun x hx => (ha.2 x hx).sub sh0.sub⟩

theorem anti_startNewWork (σ : Static) (q : WQ) (ngs nss : List Nat) (a : Anti σ q)
    (h : ∀ x ∈ ngs, NoAnc σ q x) : Anti σ (startNewWork σ q ngs nss) := by
  have sh := startNewWork_shrink σ q ngs nss
  obtain ⟨rg, _, _, _⟩ := startNewWork_roots σ q ngs nss
  intro r hr
  rw [rg, mem_foldl_oinsert] at hr
  rcases hr with hr | hr
  · exact (a r hr).sub sh.sub
  · exact (h r hr).sub sh.sub

/-- `_task_success` keeps the roots' ancestors out of the graph. -/
theorem taskSuccess_anti (σ : Static) (e : EnvSt) (q : WQ) (t : Nat) (r : TResult) (D : List Node)
    (g : Good σ e q) (c : Closed σ e) (c' : Closed σ (e.intro r.work))
    (hw : ∀ w, r.work = some w → WorkOk σ e q w)
    (hD : ∀ n ∈ D, isRoot q n) (a : Anti σ q) : Anti σ (taskSuccess σ q t r).1 := by
  unfold taskSuccess
  simp only
  have sh1 := setTaskValue_shrink q t r.value
  have fr1 := setTaskValue_frame q t r.value
  have g1 : Good σ e (setTaskValue q t r.value) := g.frame sh1 fr1
  have a1 : Anti σ (setTaskValue q t r.value) := a.shrink sh1.sub (fun x hx => fr1.rg ▸ hx)
  have f12 : RootFrame q (integrateWork σ (setTaskValue q t r.value) r.work (some t)).1 :=
    fr1.trans (integrateWork_frame σ _ _ _)
  have g2 : Good σ (e.intro r.work) (integrateWork σ (setTaskValue q t r.value) r.work (some t)).1 := by
    cases hwk : r.work with
    | none => rw [integrateWork_none]; exact g1
    | some w =>
      have ok := hw w hwk
      exact (integrateWork_good σ e _ w (some t) g1
        ⟨ok.gnodup, ok.snodup, ok.gfresh, ok.sfresh, ok.noself, ok.plt⟩).1
  have a2 : Anti σ (integrateWork σ (setTaskValue q t r.value) r.work (some t)).1 := by
    cases hwk : r.work with
    | none => rw [integrateWork_none]; exact a1
    | some w =>
      have ok := hw w hwk
      exact integrateWork_anti σ e _ w (some t) g1 c
        ⟨ok.gnodup, ok.snodup, ok.gfresh, ok.sfresh, ok.noself, ok.plt⟩ a1
  have h0 : SuccAll σ (e.intro r.work) D
      ((integrateWork σ (setTaskValue q t r.value) r.work (some t)).1, [], [], []) := by
    refine ⟨g2, ?_, trivial, List.nodup_nil, by simp, List.nodup_nil, by simp⟩
    intro n hn
    exact Or.inl ((isRoot_of_frame f12 n).mpr (hD n hn))
  have hfold := foldl_inv
    (fun acc => SuccAll σ (e.intro r.work) D acc ∧ SuccAnti σ acc) (successStep σ) (σ.tgroups t) _
    ⟨h0, a2, by simp⟩
    (fun acc x ha => ⟨successStep_all σ (e.intro r.work) D acc x ha.1,
      successStep_anti σ (e.intro r.work) D acc x c' ha.1 ha.2⟩)
  exact anti_startNewWork σ _ _ _ hfold.2.1 hfold.2.2

theorem failureStep_anti (σ : Static) (acc : WQ × List WQEvent) (g : Nat) (h : Anti σ acc.1) :
    Anti σ (failureStep σ acc g).1 := by
  unfold failureStep
  split
  · rename_i n hn
    unfold finishGroupFailure
    simp only
    have sh := removeGroup_shrink σ (acc.1.groupNodes.length + 1) acc.1 g n
    have fr := removeGroup_frame σ (acc.1.groupNodes.length + 1) acc.1 g n
    refine h.shrink (sh.sub.trans (subGraph_of_eq rfl)) ?_
    intro x hx; simp only [mem_oerase] at hx; exact fr.rg ▸ hx.1
  · exact h

theorem taskFailure_anti (σ : Static) (q : WQ) (t : Nat) (a : Anti σ q) : Anti σ (taskFailure σ q t).1 := by
  unfold taskFailure
  have a0 : Anti σ ({ q with taskNodes := aerase q.taskNodes t } : WQ) :=
    a.shrink (subGraph_of_eq rfl) (fun x hx => hx)
  exact foldl_inv (fun acc : WQ × List WQEvent => Anti σ acc.1) (failureStep σ) (σ.tgroups t)
    (({ q with taskNodes := aerase q.taskNodes t } : WQ), []) a0 (fun acc x ha => failureStep_anti σ acc x ha)

end Gql.Async

namespace Gql.Async
open Gql.Spec.Protocol

theorem itemStep_anti (σ : Static) (q0 : WQ) (e : EnvSt) (acc : WQ × List IVal × List Nat × List Nat)
    (it : IResult) (h : ItemAll σ q0 e acc) (hw : ∀ w, it.work = some w → WorkOk σ e acc.1 w)
    (c : Closed σ e) (c' : Closed σ (e.intro it.work)) (a : Anti σ acc.1) :
    Anti σ (itemStep σ acc it).1 := by
  cases hwk : it.work with
  | none => rw [itemStep_none σ acc it hwk]; exact a
  | some w =>
    have ok := hw w hwk
    rw [hwk] at c'
    obtain ⟨gi, fi, ni, mi, si, sni⟩ := integrateWork_good σ e acc.1 w none h.good ok
    have ai := integrateWork_anti σ e acc.1 w none h.good c ok a
    have hdet : ∀ x ∈ (integrateWork σ acc.1 (some w) none).2.1,
        Detached (integrateWork σ acc.1 (some w) none).1 x := by
      intro x hx p hc
      have := gi.forest.parent p x hc
      rw [(mi x hx).2] at this; cases this
    obtain ⟨new, en, po⟩ := prune_spec σ _ (integrateWork σ acc.1 (some w) none).2.1
      (integrateWork σ acc.1 (some w) none).1 [] gi.forest.treeLike ni hdet
    have hnew : (pruneEmpty (integrateWork σ acc.1 (some w) none).1
        (integrateWork σ acc.1 (some w) none).2.1).2 = new := by simpa [pruneEmpty] using en
    have shp : Shrink (integrateWork σ acc.1 (some w) none).1
        (pruneEmpty (integrateWork σ acc.1 (some w) none).1 (integrateWork σ acc.1 (some w) none).2.1).1 :=
      prune_shrink _ _ ((integrateWork σ acc.1 (some w) none).1, [])
    have frp := pruneEmpty_frame (integrateWork σ acc.1 (some w) none).1
      (integrateWork σ acc.1 (some w) none).2.1
    have key := prune_anc σ _ _ _ new po gi.forest.treeLike shp.sub
      (hasChild_lt σ _ _ gi c')
      (by intro y hy b hb
          obtain ⟨p, e1, _⟩ := hb.inv
          rw [(mi y hy).2] at e1; cases e1)
    unfold itemStep
    simp only [hwk]
    rw [hnew]
    apply anti_startNewWork
    · exact ai.shrink shp.sub (fun x hx => frp.rg ▸ hx)
    · intro x hx
      exact key x (Or.inl hx)

theorem items_anti (σ : Static) (q0 qe : WQ) (items : List IResult) :
    ∀ (e : EnvSt) (n0 : Nat) (acc : WQ × List IVal × List Nat × List Nat) (e1 : EnvSt) (n1 : Nat),
      ItemAll σ q0 e acc → Closed σ e → (∀ p, hasNode qe p → p ∈ e.introG) → Anti σ acc.1 →
      itemsOk σ qe e n0 items = some (e1, n1) →
      Closed σ e1 ∧ Anti σ (items.foldl (itemStep σ) acc).1 := by
  induction items with
  | nil =>
    intro e n0 acc e1 n1 _ c _ a hi
    simp [itemsOk] at hi; obtain ⟨rfl, _⟩ := hi; exact ⟨c, a⟩
  | cons it items ih =>
    intro e n0 acc e1 n1 h c hq a hi
    unfold itemsOk at hi
    by_cases hc : (idxMatches it.value.idx n0 && workOptOk σ e qe none it.work) = true
    · rw [if_pos hc] at hi
      simp only [List.foldl_cons]
      simp only [Bool.and_eq_true] at hc
      have hwork : ∀ w, it.work = some w → WorkOk σ e acc.1 w := by
        intro w hw
        have := hc.2
        rw [hw] at this
        have ok := workOk_of σ e qe none w this
        exact ⟨ok.gnodup, ok.snodup, ok.gfresh, ok.sfresh, ok.noself, ok.plt⟩
      have c' : Closed σ (e.intro it.work) := by
        cases hwk : it.work with
        | none => exact c
        | some w =>
          have hw2 := hc.2
          rw [hwk] at hw2
          have ok := workOk_of σ e qe none w hw2
          apply closed_intro σ e w c ok
          intro g hg p hp
          exact workOk_parent σ e qe none w hw2 g hg p hp
      have hq' : ∀ p, hasNode qe p → p ∈ (e.intro it.work).introG := by
        intro p hp
        cases it.work with
        | none => exact hq p hp
        | some w => simp only [EnvSt.intro, List.mem_append]; exact Or.inr (hq p hp)
      exact ih (e.intro it.work) (n0 + 1) _ e1 n1 (itemStep_all σ q0 e acc it h hwork) c' hq'
        (itemStep_anti σ q0 e acc it h hwork c c' a) hi
    · rw [if_neg hc] at hi; cases hi

/-- Every handler keeps `Closed` and the antichain invariant. -/
theorem handle_anti (σ : Static) (e : EnvSt) (q : WQ) (ev : GraphEvent) (e' : EnvSt) (D : List Node)
    (g : Good σ e q) (c : Closed σ e) (a : Anti σ q) (hD : ∀ n ∈ D, isRoot q n)
    (hok : eventOk σ e q ev = some e') :
    Closed σ e' ∧ Anti σ (handleGraphEvent σ q ev).1 := by
  cases ev with
  | taskSuccess t r =>
    simp only [eventOk] at hok
    split at hok
    · rename_i hc
      cases hok
      simp only [Bool.and_eq_true] at hc
      have hw := workOptOk_of σ e q (some t) r.work hc.2
      have c' : Closed σ (e.intro r.work) := by
        cases hwk : r.work with
        | none => exact c
        | some w =>
          have hw2 := hc.2
          rw [hwk] at hw2
          apply closed_intro σ e w c (workOk_of σ e q (some t) w hw2)
          intro x hx p hp
          exact workOk_parent σ e q (some t) w hw2 x hx p hp
      exact ⟨c', taskSuccess_anti σ e q t r D g c c' hw hD a⟩
    · cases hok
  | taskFailure t =>
    simp only [eventOk] at hok
    split at hok
    · cases hok; exact ⟨c, taskFailure_anti σ q t a⟩
    · cases hok
  | streamItems s items st =>
    simp only [eventOk] at hok
    split at hok
    · cases hi : itemsOk σ q e ((alookup e.streamNext s).getD 0) items with
      | none => simp [hi] at hok
      | some r =>
        obtain ⟨e1, n1⟩ := r
        simp only [hi, Option.some.injEq] at hok
        subst hok
        have hroot0 : ItemInv q (q, [], [], []) := by
          intro n hn
          rcases hn with hn | hn
          · exact hn
          · simp [nodesOf] at hn
        have h0 : ItemAll σ q e (q, [], [], []) :=
          ⟨g, hroot0, List.nodup_nil, by simp, List.nodup_nil, by simp⟩
        obtain ⟨c1, a1⟩ := items_anti σ q q items e _ (q, [], [], []) e1 n1 h0 c
          (fun p hp => g.known.nodes p hp) a hi
        refine ⟨c1, ?_⟩
        simp only [handleGraphEvent, streamItems]
        split
        · exact a1.shrink (subGraph_of_eq rfl) (fun x hx => hx)
        · exact a1
    · cases hok
  | streamSuccess s =>
    simp only [eventOk] at hok
    split at hok
    · cases hok
      simp only [handleGraphEvent]
      split
      · exact ⟨c, a.shrink (subGraph_of_eq rfl) (fun x hx => hx)⟩
      · exact ⟨c, a⟩
    · cases hok
  | streamFailure s =>
    simp only [eventOk] at hok
    split at hok
    · cases hok
      exact ⟨c, a.shrink (subGraph_of_eq rfl) (fun x hx => hx)⟩
    · cases hok
  | stop => simp only [eventOk] at hok; cases hok; exact ⟨c, a⟩

/-- The run invariant behind P5. -/
def AntiInv (σ : Static) (D0 : List Node) (e : EnvSt) (q : WQ) (E : List WQEvent) : Prop :=
  AnnInv σ D0 e q E ∧ Closed σ e ∧ Anti σ q

theorem antiInv_run (σ : Static) (D0 : List Node) : RunInv σ (AntiInv σ D0) where
  handle := by
    intro e q ev e' E ⟨h, c, a⟩ hst hok
    obtain ⟨c1, a1⟩ := handle_anti σ e q ev e' (domSteps D0 E) h.1 c a h.2.1.2.2 hok
    exact ⟨(annInv_run σ D0).handle e q ev e' E h hst hok, c1, a1⟩
  chan := by
    intro e q E cc ⟨h, c, a⟩
    exact ⟨(annInv_run σ D0).chan e q E cc h, c, a.shrink (subGraph_of_eq rfl) (fun x hx => hx)⟩
  defer := by
    intro e q E d ⟨h, c, a⟩
    exact ⟨(annInv_run σ D0).defer e q E d h, c, a.shrink (subGraph_of_eq rfl) (fun x hx => hx)⟩
  term := by
    intro e q E ⟨h, c, a⟩ hg hs
    exact ⟨(annInv_run σ D0).term e q E h hg hs, c, a.shrink (subGraph_of_eq rfl) (fun x hx => hx)⟩

end Gql.Async
