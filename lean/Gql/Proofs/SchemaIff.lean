import Gql.Proofs.SchemaValidate
/-
Lemmas for C20, part 2: the error list of each rule family is empty exactly when the
specification's rule for that family holds.
-/
namespace Gql.Types
open Gql

/-! ### generic -/

theorem mapOk_eq_ok_nil {α β : Type} (g : α → List β) (x : Out Unit α) :
    Out.mapOk g x = .ok [] ↔ ∃ a, x = .ok a ∧ g a = [] := by
  cases x <;> simp [Out.mapOk]

theorem outFlatMap_eq_ok_nil {α β : Type} (f : α → Out Unit (List β)) :
    ∀ l : List α, outFlatMap f l = .ok [] ↔ ∀ x ∈ l, f x = .ok []
  | [] => by simp [outFlatMap]
  | x :: xs => by
    have ih := outFlatMap_eq_ok_nil f xs
    unfold outFlatMap
    cases hx : f x with
    | ok e =>
      cases hxs : outFlatMap f xs with
      | ok es =>
        simp only [Out.ok.injEq, List.append_eq_nil_iff, List.mem_cons, forall_eq_or_imp, hx]
        rw [hxs] at ih
        simp only [Out.ok.injEq] at ih
        rw [ih]
      | err u => simp_all
      | crash c => simp_all
    | err u => simp [hx]
    | crash c => simp [hx]

/-! ### names -/

theorem validateName_nil (n : Str) : validateName n = [] ↔ Spec.nameOk n = true := by
  unfold validateName Spec.nameOk
  cases startsWithDunder n <;> simp

/-! ### enums -/

theorem validateEnum_nil (en : Str) (vs : List Str) :
    validateEnum en vs = [] ↔ (!vs.isEmpty && vs.all Spec.nameOk) = true := by
  unfold validateEnum
  cases vs with
  | nil => simp
  | cons v vs => simp [List.flatMap_eq_nil_iff, validateName_nil]

/-! ### unions -/

theorem unionLoop_nil (s : RawSchema) (un : Str) : ∀ (ms seen : List Str),
    unionLoop s un ms seen = [] ↔
      (∀ m ∈ ms, s.isObject m = true) ∧ ms.Nodup ∧ (∀ m ∈ ms, m ∉ seen)
  | [], seen => by simp [unionLoop]
  | m :: ms, seen => by
    unfold unionLoop
    by_cases ho : s.isObject m = true
    · by_cases hs : m ∈ seen
      · simp [ho, hs]
      · have ih := unionLoop_nil s un ms (m :: seen)
        simp only [ho, ↓reduceIte, List.contains_eq_mem, hs, decide_false, Bool.false_eq_true, ih,
          List.mem_cons, not_or, forall_eq_or_imp, true_and, List.nodup_cons, not_false_eq_true]
        constructor
        · rintro ⟨h1, h2, h3⟩
          exact ⟨h1, ⟨fun hm => (h3 m hm).1 rfl, h2⟩, fun x hx => (h3 x hx).2⟩
        · rintro ⟨h1, ⟨h2, h3⟩, h4⟩
          exact ⟨h1, h3, fun x hx => ⟨fun hxm => h2 (hxm ▸ hx), h4 x hx⟩⟩
    · simp [ho]

theorem validateUnion_nil (s : RawSchema) (un : Str) (ms : List Str) :
    validateUnion s un ms = [] ↔ (!ms.isEmpty && decide ms.Nodup && ms.all s.isObject) = true := by
  unfold validateUnion
  cases ms with
  | nil => simp
  | cons m ms =>
    simp only [List.isEmpty_cons, Bool.false_eq_true, ↓reduceIte, List.nil_append, unionLoop_nil,
      List.not_mem_nil, not_false_eq_true, implies_true, and_true, Bool.not_false, Bool.true_and,
      Bool.and_eq_true, decide_eq_true_eq, List.all_eq_true]
    exact And.comm


/-! ### root operation types -/

theorem validateRootTypes_nil (s : RawSchema) : validateRootTypes s = [] ↔ Spec.rootsOk s = true := by
  unfold validateRootTypes Spec.rootsOk
  rcases s with ⟨q, m, sub, types, dirs⟩
  cases q <;> cases m <;> cases sub <;>
    simp [rootsLoop, RawSchema.root, groupAdd, List.reduceOption] <;>
    (repeat' split) <;> simp_all [groupAdd] <;> (try grind)


/-! ### arguments, directives, fields, input fields — relative to the default-value family -/

/-- The `_defaults` family as a property of a model of `validate_default_value`: at an input
type it reports nothing exactly when the default (if any) coerces to the declared type. -/
def DefaultsAgree (s : RawSchema) (dflt : RawSchema → InputValue → Str → Out Unit (List Err)) : Prop :=
  ∀ (a : InputValue) (c : Str), s.isInputType a.type = true →
    (dflt s a c = .ok [] ↔ Spec.defaultOk s a = true)

theorem isRequired_eq (a : InputValue) : a.isRequired = Spec.required a := by
  unfold InputValue.isRequired Spec.required
  cases a.default <;> cases a.legacyDefault <;> simp

theorem ite_nil' {α : Type} (p : Prop) [Decidable p] (e : α) :
    (if p then [e] else []) = [] ↔ ¬ p := by
  by_cases h : p <;> simp [h]

theorem ite_singleton_nil {α : Type} (c : Bool) (e : α) :
    (if c = true then [e] else []) = [] ↔ c = false := by
  cases c <;> simp

section
variable (s : RawSchema) (dflt : RawSchema → InputValue → Str → Out Unit (List Err))
  (H : DefaultsAgree s dflt)
include H

theorem validateArg_nil (base : Str) (a : InputValue) :
    validateArg s dflt base a = .ok [] ↔ Spec.inputValueOk s a = true := by
  unfold validateArg Spec.inputValueOk
  rw [mapOk_eq_ok_nil, isRequired_eq]
  by_cases hi : s.isInputType a.type = true
  · have h := H a (argCoord base a.name) hi
    constructor
    · rintro ⟨d, hd, hnil⟩
      simp only [List.append_eq_nil_iff] at hnil
      obtain ⟨⟨⟨hn, _⟩, hr⟩, rfl⟩ := hnil
      have hc := h.mp hd
      have hn' := (validateName_nil _).mp hn
      cases h1 : Spec.required a <;> cases h2 : a.deprecated <;> simp_all [ite_nil']
    · intro hok
      simp only [Bool.and_eq_true] at hok
      obtain ⟨⟨⟨hn, _⟩, hr⟩, hc⟩ := hok
      refine ⟨[], h.mpr hc, ?_⟩
      have hn' := (validateName_nil _).mpr hn
      cases h1 : Spec.required a <;> cases h2 : a.deprecated <;> simp_all [ite_nil']
  · simp only [Bool.not_eq_true] at hi
    simp [hi]

theorem validateArgs_nil (base : Str) (as : List InputValue) :
    outFlatMap (validateArg s dflt base) as = .ok [] ↔ as.all (Spec.inputValueOk s) = true := by
  rw [outFlatMap_eq_ok_nil, List.all_eq_true]
  exact forall_congr' fun a => imp_congr_right fun _ => validateArg_nil s dflt H base a

theorem validateDirective_nil (d : Directive) :
    validateDirective s dflt d = .ok [] ↔ Spec.directiveOk s d = true := by
  unfold validateDirective Spec.directiveOk
  rw [mapOk_eq_ok_nil]
  have h := validateArgs_nil s dflt H (dirCoord d.name) d.args
  constructor
  · rintro ⟨as, has, hnil⟩
    simp only [List.append_eq_nil_iff, validateName_nil, ite_singleton_nil] at hnil
    obtain ⟨⟨hn, hl⟩, rfl⟩ := hnil
    simp only [Bool.and_eq_true, hn, h.mp has, and_true, true_and]
    simpa using hl
  · intro hd
    simp only [Bool.and_eq_true] at hd
    obtain ⟨⟨hn, hl⟩, ha⟩ := hd
    refine ⟨[], h.mpr ha, ?_⟩
    simp only [List.append_eq_nil_iff, validateName_nil, ite_singleton_nil, hn, true_and, and_true]
    simpa using hl

theorem validateDirectives_nil :
    validateDirectives s dflt = .ok [] ↔ s.directives.all (Spec.directiveOk s) = true := by
  unfold validateDirectives
  rw [outFlatMap_eq_ok_nil, List.all_eq_true]
  exact forall_congr' fun d => imp_congr_right fun _ => validateDirective_nil s dflt H d

theorem validateField_nil (tn : Str) (f : Field) :
    validateField s dflt tn f = .ok [] ↔ Spec.fieldOk s f = true := by
  unfold validateField Spec.fieldOk
  rw [mapOk_eq_ok_nil]
  have h := validateArgs_nil s dflt H (dot tn f.name) f.args
  constructor
  · rintro ⟨as, has, hnil⟩
    simp only [List.append_eq_nil_iff, validateName_nil, ite_singleton_nil] at hnil
    obtain ⟨⟨hn, hl⟩, rfl⟩ := hnil
    simp only [Bool.and_eq_true, hn, h.mp has, and_true, true_and]
    simpa using hl
  · intro hd
    simp only [Bool.and_eq_true] at hd
    obtain ⟨⟨hn, hl⟩, ha⟩ := hd
    refine ⟨[], h.mpr ha, ?_⟩
    simp only [List.append_eq_nil_iff, validateName_nil, ite_singleton_nil, hn, true_and, and_true]
    simpa using hl

theorem validateFields_nil (tn : Str) (fs : List Field) :
    validateFields s dflt tn fs = .ok [] ↔ Spec.fieldsOk s fs = true := by
  unfold validateFields Spec.fieldsOk
  rw [mapOk_eq_ok_nil]
  have h : outFlatMap (validateField s dflt tn) fs = .ok [] ↔ fs.all (Spec.fieldOk s) = true := by
    rw [outFlatMap_eq_ok_nil, List.all_eq_true]
    exact forall_congr' fun f => imp_congr_right fun _ => validateField_nil s dflt H tn f
  constructor
  · rintro ⟨es, hes, hnil⟩
    simp only [List.append_eq_nil_iff, ite_singleton_nil] at hnil
    obtain ⟨he, rfl⟩ := hnil
    simp [he, h.mp hes]
  · intro hd
    simp only [Bool.and_eq_true, Bool.not_eq_true'] at hd
    exact ⟨[], h.mpr hd.2, by simp [hd.1]⟩

theorem validateInputField_nil (tn : Str) (o : Bool) (f : InputValue) :
    validateInputField s dflt tn o f = .ok [] ↔ Spec.inputFieldOk s o f = true := by
  unfold validateInputField Spec.inputFieldOk Spec.inputValueOk
  rw [mapOk_eq_ok_nil, isRequired_eq]
  by_cases hi : s.isInputType f.type = true
  · have h := H f (dot tn f.name) hi
    constructor
    · rintro ⟨d, hd, hnil⟩
      simp only [List.append_eq_nil_iff] at hnil
      obtain ⟨⟨⟨⟨hn, _⟩, hr⟩, rfl⟩, ho⟩ := hnil
      have hc := h.mp hd
      have hn' := (validateName_nil _).mp hn
      cases o <;> cases h1 : Spec.required f <;> cases h2 : f.deprecated <;> simp_all [ite_nil']
    · intro hok
      simp only [Bool.and_eq_true] at hok
      obtain ⟨⟨⟨⟨hn, _⟩, hr⟩, hc⟩, ho⟩ := hok
      refine ⟨[], h.mpr hc, ?_⟩
      have hn' := (validateName_nil _).mpr hn
      cases o <;> cases h1 : Spec.required f <;> cases h2 : f.deprecated <;> simp_all [ite_nil']
  · simp only [Bool.not_eq_true] at hi
    simp [hi]

theorem validateInputFields_nil (tn : Str) (fs : List InputValue) (o : Bool) :
    validateInputFields s dflt tn fs o = .ok [] ↔
      (!fs.isEmpty && fs.all (Spec.inputFieldOk s o)) = true := by
  unfold validateInputFields
  rw [mapOk_eq_ok_nil]
  have h : outFlatMap (validateInputField s dflt tn o) fs = .ok [] ↔
      fs.all (Spec.inputFieldOk s o) = true := by
    rw [outFlatMap_eq_ok_nil, List.all_eq_true]
    exact forall_congr' fun f => imp_congr_right fun _ => validateInputField_nil s dflt H tn o f
  constructor
  · rintro ⟨es, hes, hnil⟩
    simp only [List.append_eq_nil_iff, ite_singleton_nil] at hnil
    obtain ⟨he, rfl⟩ := hnil
    simp [he, h.mp hes]
  · intro hd
    simp only [Bool.and_eq_true, Bool.not_eq_true'] at hd
    exact ⟨[], h.mpr hd.2, by simp [hd.1]⟩
end


/-! ### pieces of the remaining families -/

/-- `is_equal_type` is structural equality (invariant argument types) -/
theorem isEqualType_iff : ∀ (a b : TRef), isEqualType a b = true ↔ a = b
  | .named a, .named b => by simp [isEqualType]
  | .nonNull a, .nonNull b => by simp [isEqualType, isEqualType_iff a b]
  | .list a, .list b => by simp [isEqualType, isEqualType_iff a b]
  | .named _, .list _ | .named _, .nonNull _ | .list _, .named _ | .list _, .nonNull _
  | .nonNull _, .named _ | .nonNull _, .list _ => by simp [isEqualType]

/-- "If implementedType declares it implements any interfaces, type must also declare it
implements those interfaces" is what `validate_type_implements_ancestors` reports on. -/
theorem validateAncestors_nil (s : RawSchema) (tn : Str) (tIfaces : List Str) (i : Str) :
    validateAncestors s tn tIfaces i = [] ↔ (s.ifacesOf i).all tIfaces.contains = true := by
  unfold validateAncestors
  rw [List.flatMap_eq_nil_iff, List.all_eq_true]
  refine forall_congr' fun tr => imp_congr_right fun _ => ?_
  by_cases h : tIfaces.contains tr = true
  · have h' : tr ∈ tIfaces := by simpa using h
    simp [h']
  · simp only [h, Bool.false_eq_true, ↓reduceIte, iff_false]
    split <;> simp

/-- the two validators walk the same "unbreakable reference" graph as the specification's rule -/
theorem unbreakableRefs_eq (s : RawSchema) (tn : Str) (fields : List InputValue) (o : Bool)
    (h : s.lookup tn = some (.input fields o)) :
    Spec.unbreakableRefs s tn = fields.filterMap (nonNullInputTarget s) := by
  unfold Spec.unbreakableRefs
  simp only [h]
  congr 1

/-- leaf level of the default-value family: the built-in scalars accept the same literals -/
theorem scalarAccepts_eq (k : ScalarKind) (v : Lit) :
    scalarAccepts k v.shape = Spec.scalarCoerces k v := by
  cases k <;> cases v <;> simp [scalarAccepts, Spec.scalarCoerces, Lit.shape]
  rename_i i
  by_cases h1 : -2147483648 ≤ i <;> by_cases h2 : i ≤ 2147483647 <;> simp [h1, h2] <;> omega

/-- assembling `validate_schema`: the three phases -/
theorem validateSchema_nil_iff (s : RawSchema) :
    validateSchema s = .ok [] ↔
      validateRootTypes s = [] ∧ validateDirectives s validateDefault = .ok [] ∧
      ∃ st, validateTypesLoop s validateDefault s.types ⟨[], [], false⟩ = .ok ([], st) := by
  unfold validateSchema validateSchemaWith
  cases hd : validateDirectives s validateDefault with
  | ok ds =>
    cases ht : validateTypesLoop s validateDefault s.types ⟨[], [], false⟩ with
    | ok r =>
      rcases r with ⟨ts, st⟩
      simp [Out.mapOk, List.append_eq_nil_iff, and_assoc]
    | err u => simp [Out.mapOk]
    | crash c => simp [Out.mapOk]
  | err u => simp [Out.mapOk]
  | crash c => simp [Out.mapOk]

end Gql.Types
