import Gql.Proofs.SchemaExt2
namespace Gql.Types
open Gql Gql.Generated

/-- Root names after a list of operation type definitions. -/
def opsRoots : Option Str × Option Str × Option Str → List (Op × Str) → Option Str × Option Str × Option Str
  | r, [] => r
  | (_, m, s), (.query, n) :: rest => opsRoots (some n, m, s) rest
  | (q, _, s), (.mutation, n) :: rest => opsRoots (q, some n, s) rest
  | (q, m, _), (.subscription, n) :: rest => opsRoots (q, m, some n) rest

theorem applyOps_eq (s : Schema) (ops : List (Op × Str)) :
    applyOps s ops =
      { s with query := (opsRoots (s.query, s.mutation, s.subscription) ops).1
               mutation := (opsRoots (s.query, s.mutation, s.subscription) ops).2.1
               subscription := (opsRoots (s.query, s.mutation, s.subscription) ops).2.2 } := by
  induction ops generalizing s with
  | nil => cases s; rfl
  | cons p ps ih =>
    obtain ⟨o, n⟩ := p
    cases o <;> simp only [applyOps, opsRoots] <;> rw [ih]

/-- Roots after the schema extensions `xs`, starting from roots `r`. -/
def extsRoots (r : Option Str × Option Str × Option Str) (xs : List (List (Op × Str))) :=
  xs.foldl opsRoots r

theorem foldl_applyOps_eq (s : Schema) (xs : List (List (Op × Str))) :
    xs.foldl applyOps s =
      { s with query := (extsRoots (s.query, s.mutation, s.subscription) xs).1
               mutation := (extsRoots (s.query, s.mutation, s.subscription) xs).2.1
               subscription := (extsRoots (s.query, s.mutation, s.subscription) xs).2.2 } := by
  induction xs generalizing s with
  | nil => cases s; rfl
  | cons x xs ih =>
    simp only [List.foldl_cons, extsRoots]
    rw [ih, applyOps_eq]
    rfl

theorem firstExtReason_skip (n : Str) (x1 x2 : List (Str × List DirApp)) (h : ∀ x ∈ x1, x.1 ≠ n) :
    firstExtReason n (x1 ++ x2) = firstExtReason n x2 := by
  induction x1 with
  | nil => rfl
  | cons p ps ih =>
    obtain ⟨m, ds⟩ := p
    have hm : m ≠ n := h (m, ds) (by simp)
    simp only [List.cons_append, firstExtReason, hm, ↓reduceIte]
    exact ih (fun x hx => h x (by simp [hx]))

def Def.directiveName : Def → Str
  | .directiveDef _ n .. => n
  | _ => []

theorem buildDirective_skip (x1 x2 : List (Str × List DirApp)) (d : Def)
    (h : ∀ x ∈ x1, x.1 ≠ d.directiveName) : buildDirective (x1 ++ x2) d = buildDirective x2 d := by
  cases d with
  | directiveDef desc name args dirs rep locs =>
    simp only [buildDirective]
    split
    · cases deprecationOf dirs with
      | ok r =>
        simp only []
        cases buildArgs args with
        | ok as =>
          simp only [extendDirective]
          cases r with
          | some v => rfl
          | none => simp only []; rw [firstExtReason_skip name x1 x2 h]
        | err e => rfl
        | crash c => rfl
      | err e => rfl
      | crash c => rfl
    · rfl
  | _ => rfl

theorem buildDirective_append (x1 x2 : List (Str × List DirApp)) (d : Def) :
    buildDirective (x1 ++ x2) d = andThen (buildDirective x1 d) (extendDirective x2) := by
  cases d with
  | directiveDef desc name args dirs rep locs =>
    simp only [buildDirective]
    split
    · cases deprecationOf dirs with
      | ok r =>
        simp only []
        cases buildArgs args with
        | ok as => simp only []; exact extendDirective_append x1 x2 _
        | err e => rfl
        | crash c => rfl
      | err e => rfl
      | crash c => rfl
    · rfl
  | _ => rfl

end Gql.Types
