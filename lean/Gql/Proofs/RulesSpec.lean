import Gql.Proofs.RulesStateless
import Gql.Proofs.RulesTree
/-!
C12 — `rule_iff_spec` for the modelled rules without private state: `validate([rule])` reports nothing iff a
declarative predicate on the document holds.
-/
namespace Gql.Validation.Rules
open Gql.Validation

variable {τ : Type}

/-- What a rule reports at an event, read off its handler (for rules whose reports do not depend on the state). -/
def reportsOf (r : CRule τ) (ph : Phase) (i : Info) : List RErr := (r.step RS.init ph i TI.init).2.2

/-- `validate([rule])` on the document's own tree reports nothing iff the handler reports nothing at every node
it has a handler for. -/
theorem stateless_nil_iff (tbl : TITable) (L : Lookups τ) (r : CRule τ) (f : Phase → Info → List RErr)
    (hf : r.Stateless f) (doc : ATree) :
    validate tbl L none [(r, RS.init)] doc.erase = [] ↔
      ∀ n ∈ doc.nodes, (r.hEnter n.kind = true → f .enter n.info = []) ∧ (r.hLeave n.kind = true → f .leave n.info = []) := by
  rw [validate_stateless tbl L r RS.init f hf, List.map_eq_nil_iff, (evErrs_nil_iff _ _ _).1, ATree.infos_erase.1]
  constructor
  · intro h n hn
    exact h n.info (List.mem_map_of_mem hn)
  · intro h i hi
    obtain ⟨n, hn, rfl⟩ := List.mem_map.mp hi
    exact h n hn

namespace Spec
/-- "Every fragment spread names a fragment defined in the document" (spec §5.5.2.1). -/
def knownFragmentNames (doc : ATree) : Prop :=
  ∀ n ∈ doc.nodes, n.kind = "fragment_spread" →
    ∃ nm, n.kid "name" = some nm ∧ ∃ f ∈ fragDefs doc, f.nameValue = some nm.value

/-- "Every variable an operation (resp. a fragment, for fragment variables) defines is used": in the operation or
in a fragment it spreads transitively, as collected by the context getters. -/
def noUnusedVariables (doc : ATree) : Prop :=
  ∀ n ∈ doc.nodes,
    (n.kind = "fragment_definition" →
      ∀ vd ∈ n.kids "variable_definitions", ∃ v, (vd.kid "variable").bind (·.nameValue) = some v ∧
        v ∈ (getUsages doc n).filterMap (·.name)) ∧
    (n.kind = "operation_definition" →
      ∀ vd ∈ n.kids "variable_definitions", ∃ v, (vd.kid "variable").bind (·.nameValue) = some v ∧
        v ∈ ((getRecUsages doc n).filter (fun u => !u.fragVar)).filterMap (·.name))
end Spec

theorem getFragment_isSome (doc : ATree) (name : String) :
    (getFragment doc name).isSome = true ↔ ∃ f ∈ fragDefs doc, f.nameValue = some name := by
  unfold getFragment
  rw [List.find?_isSome]
  simp

theorem knownFragmentNames_stateless (doc : ATree) :
    (knownFragmentNames (τ := τ) doc).Stateless (reportsOf (knownFragmentNames (τ := τ) doc)) := by
  intro s ph i ti
  simp only [reportsOf, knownFragmentNames, withNode]
  split
  · cases ph
    · simp only
      split
      · split <;> rfl
      · rfl
    · rfl
  · rfl

theorem knownFragmentNames_iff (tbl : TITable) (L : Lookups τ) (doc : ATree) (hu : doc.uniqueIds) :
    validate tbl L none [(knownFragmentNames doc, RS.init)] doc.erase = [] ↔ Spec.knownFragmentNames doc := by
  rw [stateless_nil_iff tbl L _ _ (knownFragmentNames_stateless doc)]
  unfold Spec.knownFragmentNames
  apply forall_congr'; intro n
  apply imp_congr_right; intro hn
  have hfind : doc.find n.info.id = some n := ATree.find_of_mem.1 doc hu n hn
  simp only [knownFragmentNames, reportsOf, withNode, hfind, ATree.kind]
  constructor
  · rintro ⟨h, _⟩ hk
    have h' := h (by simp [hk])
    split at h'
    · rename_i nm hnm
      refine ⟨nm, hnm, ?_⟩
      rw [← getFragment_isSome]
      split at h'
      · simp at h'
      · rename_i hnone
        cases hg : getFragment doc nm.value with
        | none => simp [hg] at hnone
        | some _ => rfl
    · simp at h'
  · intro h
    refine ⟨?_, by simp⟩
    intro hk
    obtain ⟨nm, hnm, hf⟩ := h (by simpa using hk)
    rw [← getFragment_isSome] at hf
    have hne : getFragment doc nm.value ≠ none := by
      intro h0; rw [h0] at hf; simp at hf
    simp [hnm, hne]

end Gql.Validation.Rules
