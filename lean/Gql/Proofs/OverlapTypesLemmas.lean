import Gql.Exec.Overlap
import Gql.Exec.SpecMerge
/-! Lemmas for C14: `do_types_conflict` against the specification's SameResponseShape on types. -/
namespace Gql.Exec
open Overlap

theorem doTypesConflict_eq_shapeConflict (a b : Ty) :
    doTypesConflict a b = Spec.shapeConflict a b := by
  induction a generalizing b with
  | leaf n =>
    cases b with
    | leaf m =>
      simp only [doTypesConflict, Spec.shapeConflict, isLeaf, Bool.or_self, if_true]
      rw [Bool.eq_iff_iff]; simp [bne_iff_ne]
    | _ => simp [doTypesConflict, Spec.shapeConflict, isLeaf]
  | comp n => cases b <;> simp [doTypesConflict, Spec.shapeConflict, isLeaf]
  | list t ih => cases b <;> simp [doTypesConflict, Spec.shapeConflict, ih]
  | nonNull t ih => cases b <;> simp [doTypesConflict, Spec.shapeConflict, ih]

end Gql.Exec
