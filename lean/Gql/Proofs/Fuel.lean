import Gql.Proofs.Attach
/-!
Proved fuel bounds: the fuel the model passes to `prune` (`_prune_empty_groups`),
`removeGroup` (`_remove_group`) and `addGroup` (`_add_group`) is never exhausted — with that
much fuel the result is the same as with any larger amount.
-/
namespace Gql.Async

theorem aerase_length_le {β : Type} (m : List (Nat × β)) (k : Nat) : (aerase m k).length ≤ m.length := by
  unfold aerase; exact List.length_filter_le _ _

theorem aerase_length_lt {β : Type} (m : List (Nat × β)) (k : Nat) (v : β)
    (h : alookup m k = some v) : (aerase m k).length < m.length := by
  induction m with
  | nil => simp [alookup] at h
  | cons a m ih =>
    obtain ⟨k', v'⟩ := a
    unfold aerase
    by_cases e : k' = k
    · subst e
      rw [List.filter_cons_of_neg (by simp)]
      exact Nat.lt_succ_of_le (List.length_filter_le _ _)
    · rw [List.filter_cons_of_pos (by simp [e])]
      simp only [List.length_cons]
      have : alookup m k = some v := by simpa [alookup, e] using h
      exact Nat.succ_lt_succ (ih this)

theorem aset_length {β : Type} (m : List (Nat × β)) (k : Nat) (v w : β) (h : alookup m k = some w) :
    (aset m k v).length = m.length := by
  induction m with
  | nil => simp [alookup] at h
  | cons a m ih =>
    obtain ⟨k', v'⟩ := a
    by_cases e : k' = k
    · simp [aset, e]
    · have : alookup m k = some w := by simpa [alookup, e] using h
      simp [aset, e, ih this]

/-! ### prune -/

theorem prune_len (fuel : Nat) (gs : List Nat) (st : WQ × List Nat) :
    (prune fuel gs st).1.groupNodes.length ≤ st.1.groupNodes.length := by
  induction fuel generalizing gs st with
  | zero => exact Nat.le_refl _
  | succ n ih =>
    unfold prune
    induction gs generalizing st with
    | nil => exact Nat.le_refl _
    | cons g gs ihg =>
      simp only [List.foldl_cons]
      refine Nat.le_trans (ihg _) ?_
      split
      · exact Nat.le_refl _
      · split
        · exact Nat.le_refl _
        · exact Nat.le_trans (ih _ _) (aerase_length_le _ _)

/-- Two folds whose step functions agree on every state with at most `L` group nodes, and do
not increase that number, agree. -/
theorem foldl_agree (L : Nat) (f1 f2 : WQ × List Nat → Nat → WQ × List Nat) (gs : List Nat)
    (st : WQ × List Nat) (hL : st.1.groupNodes.length ≤ L)
    (hag : ∀ st g, st.1.groupNodes.length ≤ L → f1 st g = f2 st g)
    (hle : ∀ st g, (f1 st g).1.groupNodes.length ≤ st.1.groupNodes.length) :
    gs.foldl f1 st = gs.foldl f2 st := by
  induction gs generalizing st with
  | nil => rfl
  | cons g gs ih =>
    simp only [List.foldl_cons]
    rw [← hag st g hL]
    exact ih _ (Nat.le_trans (hle st g) hL)

/-- With more fuel than group nodes, one more unit changes nothing. -/
theorem prune_fuel (fuel : Nat) : ∀ (gs : List Nat) (st : WQ × List Nat),
    st.1.groupNodes.length < fuel → prune fuel gs st = prune (fuel + 1) gs st := by
  induction fuel with
  | zero => intro gs st h; exact absurd h (Nat.not_lt_zero _)
  | succ f ih =>
    intro gs st h
    conv => lhs; unfold prune
    conv => rhs; unfold prune
    apply foldl_agree st.1.groupNodes.length _ _ gs st (Nat.le_refl _)
    · intro st' g hl
      cases hg : alookup st'.1.groupNodes g with
      | none => rfl
      | some n =>
        simp only
        split
        · rfl
        · apply ih
          simp only
          have := aerase_length_lt st'.1.groupNodes g n hg
          omega
    · intro st' g
      split
      · exact Nat.le_refl _
      · split
        · exact Nat.le_refl _
        · exact Nat.le_trans (prune_len _ _ _) (aerase_length_le _ _)

/-- `pruneEmpty` never runs out of fuel: any larger amount gives the same result. -/
theorem pruneEmpty_fuel (q : WQ) (gs : List Nat) (k : Nat) :
    pruneEmpty q gs = prune (q.groupNodes.length + 1 + k) gs (q, []) := by
  unfold pruneEmpty
  induction k with
  | zero => rfl
  | succ k ih =>
    rw [ih]
    exact prune_fuel _ gs (q, []) (by simp only; omega)

/-! ### removeGroup -/

theorem removeTask_len (σ : Static) (q : WQ) (t : Nat) :
    (removeTask σ q t).groupNodes.length = q.groupNodes.length := by
  unfold removeTask
  simp only
  have key : ∀ (gs : List Nat) (gn : List (Nat × GroupNode)),
      (gs.foldl (fun gn g =>
        match alookup gn g with
        | some n => aset gn g { n with tasks := oerase n.tasks t }
        | none => gn) gn).length = gn.length := by
    intro gs
    induction gs with
    | nil => intro gn; rfl
    | cons g gs ih =>
      intro gn
      simp only [List.foldl_cons]
      rw [ih]
      cases hg : alookup gn g with
      | none => rfl
      | some n => exact aset_length gn g _ n hg
  exact key _ _

theorem dropOrphanTask_len (σ : Static) (q : WQ) (t : Nat) :
    (dropOrphanTask σ q t).groupNodes.length = q.groupNodes.length := by
  unfold dropOrphanTask
  split
  · exact removeTask_len σ q t
  · rfl

theorem dropOrphans_len (σ : Static) (ts : List Nat) (q : WQ) :
    (ts.foldl (dropOrphanTask σ) q).groupNodes.length = q.groupNodes.length := by
  induction ts generalizing q with
  | nil => rfl
  | cons t ts ih => simp only [List.foldl_cons]; rw [ih, dropOrphanTask_len]

theorem removeGroup_len (σ : Static) (fuel : Nat) (q : WQ) (g : Nat) (n : GroupNode) :
    (removeGroup σ fuel q g n).groupNodes.length ≤ q.groupNodes.length := by
  induction fuel generalizing q g n with
  | zero => exact Nat.le_refl _
  | succ k ih =>
    unfold removeGroup
    simp only
    have h1 : (n.tasks.foldl (dropOrphanTask σ) { q with groupNodes := aerase q.groupNodes g }).groupNodes.length
        ≤ q.groupNodes.length := by
      rw [dropOrphans_len]; exact aerase_length_le _ _
    refine Nat.le_trans ?_ h1
    generalize n.tasks.foldl (dropOrphanTask σ) { q with groupNodes := aerase q.groupNodes g } = q2
    induction n.children generalizing q2 with
    | nil => exact Nat.le_refl _
    | cons c cs ihc =>
      simp only [List.foldl_cons]
      refine Nat.le_trans (ihc _) ?_
      split
      · exact ih _ _ _
      · exact Nat.le_refl _

theorem foldl_agree_q (L : Nat) (f1 f2 : WQ → Nat → WQ) (cs : List Nat) (q : WQ)
    (hL : q.groupNodes.length ≤ L)
    (hag : ∀ q c, q.groupNodes.length ≤ L → f1 q c = f2 q c)
    (hle : ∀ q c, (f1 q c).groupNodes.length ≤ q.groupNodes.length) :
    cs.foldl f1 q = cs.foldl f2 q := by
  induction cs generalizing q with
  | nil => rfl
  | cons c cs ih =>
    simp only [List.foldl_cons]
    rw [← hag q c hL]
    exact ih _ (Nat.le_trans (hle q c) hL)

/-- `_remove_group` on a group that has a node: with `|group nodes| + 1` units of fuel, one
more unit changes nothing. -/
theorem removeGroup_fuel (σ : Static) (fuel : Nat) : ∀ (q : WQ) (g : Nat) (n m : GroupNode),
    alookup q.groupNodes g = some m → q.groupNodes.length ≤ fuel →
    removeGroup σ (fuel + 1) q g n = removeGroup σ (fuel + 2) q g n := by
  induction fuel with
  | zero =>
    intro q g n m hm hl
    have : q.groupNodes = [] := List.eq_nil_of_length_eq_zero (Nat.le_zero.mp hl)
    rw [this] at hm; simp [alookup] at hm
  | succ f ih =>
    intro q g n m hm hl
    conv => lhs; unfold removeGroup
    conv => rhs; unfold removeGroup
    simp only
    have hlen : (n.tasks.foldl (dropOrphanTask σ) { q with groupNodes := aerase q.groupNodes g }).groupNodes.length ≤ f := by
      rw [dropOrphans_len]
      have := aerase_length_lt q.groupNodes g m hm
      simp only; omega
    apply foldl_agree_q f _ _ n.children _ hlen
    · intro q' c hl'
      cases hc : alookup q'.groupNodes c with
      | none => rfl
      | some cn => exact ih q' c cn cn hc hl'
    · intro q' c
      split
      · exact removeGroup_len σ _ _ _ _
      · exact Nat.le_refl _

theorem removeGroup_fuel_ok (σ : Static) (q : WQ) (g : Nat) (n m : GroupNode)
    (hm : alookup q.groupNodes g = some m) (k : Nat) :
    removeGroup σ (q.groupNodes.length + 1) q g n = removeGroup σ (q.groupNodes.length + 1 + k) q g n := by
  induction k with
  | zero => rfl
  | succ k ih =>
    rw [ih]
    have e1 : q.groupNodes.length + 1 + k = (q.groupNodes.length + k) + 1 := by omega
    have e2 : q.groupNodes.length + 1 + (k + 1) = (q.groupNodes.length + k) + 2 := by omega
    rw [e1, e2]
    exact removeGroup_fuel σ (q.groupNodes.length + k) q g n m hm (by omega)

/-! ### addGroup -/

/-- The groups of the list that have not been visited yet. -/
def unvisited (gs vis : List Nat) : Nat := (gs.filter (fun x => decide (x ∉ vis))).length

theorem unvisited_cons_le (gs vis : List Nat) (g : Nat) : unvisited gs (g :: vis) ≤ unvisited gs vis := by
  unfold unvisited
  induction gs with
  | nil => simp
  | cons a gs ih =>
    by_cases h1 : a ∈ g :: vis
    · rw [List.filter_cons_of_neg (by simp [h1])]
      by_cases h2 : a ∈ vis
      · rw [List.filter_cons_of_neg (by simp [h2])]; exact ih
      · rw [List.filter_cons_of_pos (by simp [h2])]; simp only [List.length_cons]; omega
    · have h2 : a ∉ vis := fun h => h1 (List.mem_cons_of_mem _ h)
      rw [List.filter_cons_of_pos (by simp [h1]), List.filter_cons_of_pos (by simp [h2])]
      simp only [List.length_cons]; omega

theorem unvisited_cons_lt (gs vis : List Nat) (g : Nat) (hg : g ∈ gs) (hv : g ∉ vis) :
    unvisited gs (g :: vis) < unvisited gs vis := by
  unfold unvisited
  induction gs with
  | nil => simp at hg
  | cons a gs ih =>
    by_cases e : a = g
    · subst e
      rw [List.filter_cons_of_neg (by simp), List.filter_cons_of_pos (by simp [hv])]
      simp only [List.length_cons]
      exact Nat.lt_succ_of_le (unvisited_cons_le gs vis a)
    · have hg' : g ∈ gs := by
        rcases List.mem_cons.mp hg with h | h
        · exact absurd h.symm e
        · exact h
      have := ih hg'
      by_cases h2 : a ∈ vis
      · have h1 : a ∈ g :: vis := List.mem_cons_of_mem _ h2
        rw [List.filter_cons_of_neg (by simp [h1]), List.filter_cons_of_neg (by simp [h2])]
        exact this
      · have h1 : a ∉ g :: vis := by
          intro h; rcases List.mem_cons.mp h with h | h
          · exact e h
          · exact h2 h
        rw [List.filter_cons_of_pos (by simp [h1]), List.filter_cons_of_pos (by simp [h2])]
        simp only [List.length_cons]; omega

/-- `_add_group` for a group of the list: with more fuel than unvisited groups, one more unit
changes nothing.  `_add_groups` passes `len(groups) + 1`. -/
theorem addGroup_fuel (σ : Static) (gs : List Nat) (hpt : Bool) (fuel : Nat) :
    ∀ (g : Nat) (acc : WQ × List Nat × List Nat), g ∈ gs → unvisited gs acc.2.2 < fuel →
    addGroup σ gs hpt fuel g acc = addGroup σ gs hpt (fuel + 1) g acc := by
  induction fuel with
  | zero => intro g acc _ h; exact absurd h (Nat.not_lt_zero _)
  | succ f ih =>
    intro g acc hg hu
    by_cases hv : g ∈ acc.2.2
    · rw [addGroup_visited σ gs hpt f g acc hv, addGroup_visited σ gs hpt (f + 1) g acc hv]
    · by_cases hrecur : ∃ p, σ.parent g = some p ∧ p ∈ gs
      · obtain ⟨p, hp, hpg⟩ := hrecur
        rw [addGroup_rec σ gs hpt f g p acc hv hp hpg, addGroup_rec σ gs hpt (f + 1) g p acc hv hp hpg]
        have hlt := unvisited_cons_lt gs acc.2.2 g hg hv
        rw [ih p (acc.1, acc.2.1, g :: acc.2.2) hpg (by simp only; omega)]
      · rw [addGroup_leaf σ gs hpt f g acc hv (fun p hp hpg => hrecur ⟨p, hp, hpg⟩),
          addGroup_leaf σ gs hpt (f + 1) g acc hv (fun p hp hpg => hrecur ⟨p, hp, hpg⟩)]

theorem unvisited_le_length (gs vis : List Nat) : unvisited gs vis ≤ gs.length := by
  unfold unvisited; exact List.length_filter_le _ _

/-- The fuel `_add_groups` passes is enough at every top-level call. -/
theorem addGroups_fuel_ok (σ : Static) (gs : List Nat) (hpt : Bool) (g : Nat)
    (acc : WQ × List Nat × List Nat) (hg : g ∈ gs) (k : Nat) :
    addGroup σ gs hpt (gs.length + 1) g acc = addGroup σ gs hpt (gs.length + 1 + k) g acc := by
  induction k with
  | zero => rfl
  | succ k ih =>
    rw [ih]
    exact addGroup_fuel σ gs hpt _ g acc hg (by have := unvisited_le_length gs acc.2.2; omega)

end Gql.Async
