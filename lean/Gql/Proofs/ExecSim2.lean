/-
C02 — simulation: the relation `Sim`, error handling at a response position (`protect` / `absorb`),
argument coercion with the default memo.
-/
import Gql.Proofs.ExecSim

namespace Gql.Exec.Refine
open Gql.Exec Gql.Exec.Impl

/-- The implementation computation `m`, run at `path` from any state satisfying the invariants
(and `pre` on the heap), behaves as the specification result `r` says: same value / a pending
exception that locates to the last recorded error, errors and call log appended in order, new
nulled positions below `path`, invariants kept. -/
def Sim (cx : Ctx) (path : IPath) (strict : Bool) (pre : List FieldNode → Prop) {α : Type}
    (m : M α) (r : Spec.R α) : Prop :=
  ∀ st, Inv cx st path → pre st.heap → ∃ st',
    match r.out with
    | some a => m st = (.ok a, st') ∧ Post cx st st' path strict r.errs r.log
    | none => ∃ exn es, m st = (.err exn, st') ∧ r.errs = es ++ [locate exn path] ∧
        Post cx st st' path strict es r.log ∧ (strict = false → ∃ e, exn = .located e)

theorem MemoInv.congr {cx : Ctx} {st st' : EState} (h : MemoInv cx st)
    (h1 : st'.memo = st.memo) (h2 : st'.heap = st.heap) : MemoInv cx st' := by
  unfold MemoInv at *
  rw [h1, h2]
  exact h

theorem locate_located (e : FErr) (p : IPath) : locate (.located e) p = e := rfl

theorem suffix_antisymm_ne {p q : IPath} (h1 : p <:+ q) (hne : q ≠ p) : ¬ q <:+ p := by
  intro h2
  have hl1 := List.IsSuffix.length_le h1
  have hl2 := List.IsSuffix.length_le h2
  exact hne (List.IsSuffix.eq_of_length h2 (by omega))

theorem Sim.protect {cx : Ctx} {path : IPath} {pre : List FieldNode → Prop} {m : M Json}
    {r : Spec.R Json} (t : TypeRef) (h : Sim cx path true pre m r) :
    Sim cx path false pre (Impl.protect t path m) (Spec.absorb t r) := by
  intro st hinv hpre
  obtain ⟨st', h'⟩ := h st hinv hpre
  cases hr : r.out with
  | some j =>
    simp only [hr] at h'
    refine ⟨st', ?_⟩
    simp only [Spec.absorb, hr, Impl.protect, h'.1]
    exact ⟨trivial, h'.2.weaken⟩
  | none =>
    simp only [hr] at h'
    obtain ⟨exn, es, hm, herrs, hpost, _⟩ := h'
    cases hnn : t.nonNull with
    | true =>
      refine ⟨st', ?_⟩
      simp only [Spec.absorb, hr, hnn, ↓reduceIte]
      refine ⟨.located (locate exn path), es, ?_, ?_, hpost.weaken, fun _ => ⟨_, rfl⟩⟩
      · simp [Impl.protect, hm, handleFieldError, hnn, M.throw]
      · rw [locate_located]; exact herrs
    | false =>
      have hnul : hasNulled st'.positions path = false := by
        apply hasNulled_false
        obtain ⟨ps, hp, hq⟩ := hpost.positions
        intro o ho
        rw [hp] at ho
        rcases List.mem_append.1 ho with ho | ho
        · obtain ⟨q, hq1, hq2, _⟩ := hinv.pos o ho
          exact ⟨q, hq1, hq2⟩
        · obtain ⟨q, hq1, hq2, hq3⟩ := hq o ho
          exact ⟨q, hq1, suffix_antisymm_ne hq2 (hq3 rfl)⟩
      let st'' : EState := { st' with positions := st'.positions ++ [some path],
                                      errors := st'.errors ++ [locate exn path] }
      refine ⟨st'', ?_⟩
      simp only [Spec.absorb, hr, hnn, Bool.false_eq_true, ↓reduceIte]
      constructor
      · simp [Impl.protect, hm, handleFieldError, hnn, addError, hasNulledOpt, hnul, st'']
      · obtain ⟨ps, hp, hq⟩ := hpost.positions
        refine ⟨?_, hpost.log, ⟨ps ++ [some path], ?_, ?_⟩, hpost.heap,
          hpost.memo.congr rfl rfl, hpost.dmemo⟩
        · show st'.errors ++ [locate exn path] = st.errors ++ r.errs
          rw [hpost.errors, herrs, List.append_assoc]
        · show st'.positions ++ [some path] = st.positions ++ (ps ++ [some path])
          rw [hp, List.append_assoc]
        · intro o ho
          rcases List.mem_append.1 ho with ho | ho
          · obtain ⟨q, hq1, hq2, _⟩ := hq o ho
            exact ⟨q, hq1, hq2, by simp⟩
          · simp only [List.mem_singleton] at ho
            exact ⟨path, ho, List.suffix_refl _, by simp⟩

/-- mapping the value on both sides -/
theorem Sim.map {cx : Ctx} {path : IPath} {strict : Bool} {pre : List FieldNode → Prop}
    {α β : Type} {m : M α} {r : Spec.R α} (f : α → β) (h : Sim cx path strict pre m r) :
    Sim cx path strict pre (M.bind m (fun a => M.pure (f a)))
      { out := r.out.map f, errs := r.errs, log := r.log } := by
  intro st hinv hpre
  obtain ⟨st', h'⟩ := h st hinv hpre
  refine ⟨st', ?_⟩
  cases hr : r.out with
  | some a =>
    simp only [hr] at h'
    simp [M.bind, M.pure, h'.1, h'.2]
  | none =>
    simp only [hr] at h'
    obtain ⟨exn, es, hm, herrs, hpost, hloc⟩ := h'
    simp only [Option.map_none]
    exact ⟨exn, es, by simp [M.bind, hm], herrs, hpost, hloc⟩

/-- a computation that does not touch the state and returns / raises -/
theorem Sim.pure_ok {cx : Ctx} {path : IPath} {strict : Bool} {pre : List FieldNode → Prop}
    {α : Type} (a : α) : Sim cx path strict pre (M.pure a) (Spec.R.pure a) := by
  intro st hinv _
  exact ⟨st, rfl, Post.refl hinv.memo hinv.dmemo⟩

theorem Sim.throw_raw {cx : Ctx} {path : IPath} {pre : List FieldNode → Prop}
    {α : Type} (k : ErrKind) :
    Sim cx path true pre (M.throw (.raw k) : M α) (Spec.R.fail (asList path) k) := by
  intro st hinv _
  exact ⟨st, .raw k, [], rfl, rfl, Post.refl hinv.memo hinv.dmemo, by simp⟩

theorem Sim.throw_located {cx : Ctx} {path : IPath} {pre : List FieldNode → Prop}
    {α : Type} (e : FErr) :
    Sim cx path true pre (M.throw (.located e) : M α) { out := none, errs := [e], log := [] } := by
  intro st hinv _
  exact ⟨st, .located e, [], rfl, rfl, Post.refl hinv.memo hinv.dmemo, by simp⟩

end Gql.Exec.Refine
