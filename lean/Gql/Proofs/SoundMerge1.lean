/-
C13 — field merging derived from the static rule: the expanded set of a selection set as a
relation (`InSet`), soundness of the bounded quantifier `allFields` for it, and what CollectFields
collects for a runtime object type in terms of it (`collectFields_in`).
-/
import Gql.Exec.ValidMerge
import Gql.Proofs.SoundGen5

namespace Gql.Exec.Valid
open Gql.Exec Gql.Exec.Refine

/-- `InSet doc S sels P f`: the field `f` with parent type `P` belongs to "the fields of the set
`sels` selected on `S`, visiting fragments and inline fragments" -/
inductive InSet (doc : Doc) : Name → List Selection → Name → FieldNode → Prop
  | here (S : Name) (alias : Option Name) (name : Name) (args : List (Name × Value))
      (dirs : List Directive) (sels rest : List Selection) :
      InSet doc S (.field alias name args dirs sels :: rest) S
        { alias := alias, name := name, args := args, dirs := dirs, sels := sels }
  | inlineNone {S : Name} {dirs : List Directive} {sels rest : List Selection} {P : Name}
      {f : FieldNode} : InSet doc S sels P f → InSet doc S (.inline none dirs sels :: rest) P f
  | inlineSome {S c : Name} {dirs : List Directive} {sels rest : List Selection} {P : Name}
      {f : FieldNode} : InSet doc c sels P f → InSet doc S (.inline (some c) dirs sels :: rest) P f
  | spread {S n : Name} {dirs : List Directive} {rest : List Selection} {fr : FragDef} {P : Name}
      {f : FieldNode} : doc.frag n = some fr → InSet doc fr.cond fr.sels P f →
      InSet doc S (.spread n dirs :: rest) P f
  | tail {S : Name} {sel : Selection} {rest : List Selection} {P : Name} {f : FieldNode} :
      InSet doc S rest P f → InSet doc S (sel :: rest) P f

theorem InSet.not_nil {doc : Doc} {S P : Name} {f : FieldNode} : ¬ InSet doc S [] P f := by
  intro h; cases h

theorem InSet.of_append {doc : Doc} {S P : Name} {f : FieldNode} :
    ∀ {a b : List Selection}, InSet doc S (a ++ b) P f → InSet doc S a P f ∨ InSet doc S b P f
  | [], b, h => Or.inr h
  | sel :: a, b, h => by
    have h' : InSet doc S (sel :: (a ++ b)) P f := h
    cases h' with
    | here => exact Or.inl (InSet.here ..)
    | inlineNone h1 => exact Or.inl (InSet.inlineNone h1)
    | inlineSome h1 => exact Or.inl (InSet.inlineSome h1)
    | spread hf h1 => exact Or.inl (InSet.spread hf h1)
    | tail h1 =>
      rcases InSet.of_append h1 with h2 | h2
      · exact Or.inl (InSet.tail h2)
      · exact Or.inr h2

theorem InSet.of_merge {doc : Doc} {S P : Name} {x : FieldNode} :
    ∀ {fs : List FieldNode}, InSet doc S (Spec.mergeSelectionSets fs) P x →
      ∃ f ∈ fs, InSet doc S f.sels P x
  | [], h => by simp [Spec.mergeSelectionSets] at h; exact absurd h InSet.not_nil
  | f :: rest, h => by
    have h' : InSet doc S (f.sels ++ Spec.mergeSelectionSets rest) P x := by
      simpa [Spec.mergeSelectionSets] using h
    rcases InSet.of_append h' with h1 | h1
    · exact ⟨f, List.mem_cons_self .., h1⟩
    · obtain ⟨f', hf', h2⟩ := InSet.of_merge h1
      exact ⟨f', List.mem_cons_of_mem _ hf', h2⟩

/-- the bounded quantifier is sound for the relation: if it answers `true`, every field of the
expanded set satisfies `p` (whatever the fuel) -/
theorem allFieldsFuel_sound (doc : Doc) (p : Name → FieldNode → Bool) {S : Name}
    {sels : List Selection} {P : Name} {f : FieldNode} (h : InSet doc S sels P f) :
    ∀ n, allFieldsFuel doc p n S sels = true → p P f = true := by
  induction h with
  | here S alias name args dirs sels rest =>
    intro n hn
    cases n with
    | zero => simp [allFieldsFuel] at hn
    | succ n =>
      simp only [allFieldsFuel, allFieldsSels, allFieldsSel, Bool.and_eq_true] at hn
      exact hn.1
  | @inlineNone S dirs sels rest P f _ ih =>
    intro n hn
    cases n with
    | zero => simp [allFieldsFuel] at hn
    | succ n =>
      simp only [allFieldsFuel, allFieldsSels, allFieldsSel, Bool.and_eq_true] at hn
      exact ih (n + 1) hn.1
  | @inlineSome S c dirs sels rest P f _ ih =>
    intro n hn
    cases n with
    | zero => simp [allFieldsFuel] at hn
    | succ n =>
      simp only [allFieldsFuel, allFieldsSels, allFieldsSel, Bool.and_eq_true] at hn
      exact ih (n + 1) hn.1
  | @spread S nm dirs rest fr P f hfr _ ih =>
    intro n hn
    cases n with
    | zero => simp [allFieldsFuel] at hn
    | succ n =>
      simp only [allFieldsFuel, allFieldsSels, allFieldsSel, hfr, Bool.and_eq_true] at hn
      exact ih n hn.1
  | @tail S sel rest P f _ ih =>
    intro n hn
    cases n with
    | zero => simp [allFieldsFuel] at hn
    | succ n =>
      simp only [allFieldsFuel, allFieldsSels, Bool.and_eq_true] at hn
      exact ih (n + 1) hn.2

theorem allFields_sound {doc : Doc} {p : Name → FieldNode → Bool} {S : Name}
    {sels : List Selection} (h : allFields doc S sels p = true) {P : Name} {f : FieldNode}
    (hin : InSet doc S sels P f) : p P f = true :=
  allFieldsFuel_sound doc p hin _ h

/-- every pair of fields of mergedSet satisfies `p` -/
theorem allMergedPairs_sound {doc : Doc} {ta tb : Name} {A B : List Selection}
    {p : Name → FieldNode → Name → FieldNode → Bool}
    (h : allMergedPairs doc ta A tb B p = true) {P1 P2 : Name} {x y : FieldNode}
    (hx : InSet doc ta A P1 x ∨ InSet doc tb B P1 x) (hy : InSet doc ta A P2 y ∨ InSet doc tb B P2 y) :
    p P1 x P2 y = true := by
  unfold allMergedPairs allMerged at h
  simp only [Bool.and_eq_true] at h
  have h1 : (allFields doc ta A (fun p2 y => p P1 x p2 y) && allFields doc tb B (fun p2 y => p P1 x p2 y)) = true := by
    rcases hx with hx | hx
    · exact allFields_sound h.1 hx
    · exact allFields_sound h.2 hx
  simp only [Bool.and_eq_true] at h1
  rcases hy with hy | hy
  · exact allFields_sound h1.1 hy
  · exact allFields_sound h1.2 hy

/-! ### what CollectFields collects, in terms of `InSet` -/

/-- a valid selection set that only spreads fragments of the closed set -/
def SelsV (g : GCtx) (S : Name) (sels : List Selection) : Prop :=
  validSels g.vcx S sels = true ∧ ∀ n ∈ spreadsIn sels, n ∈ g.reach

def FragsV (g : GCtx) : Prop :=
  ∀ n ∈ g.reach, ∀ fr, g.cx.doc.frag n = some fr → SelsV g fr.cond fr.sels

theorem SelsOk.toV {g : GCtx} {S : Name} {sels : List Selection} (h : SelsOk g S sels) :
    SelsV g S sels := ⟨h.1, h.2.2⟩

theorem FragsOk.toV {g : GCtx} (h : FragsOk g) : FragsV g :=
  fun n hn fr hf => (h n hn fr hf).toV

/-- a collected field: it sits under its own response key; it is a field of the expanded set
(`Q`), with a parent type that contains the runtime type, valid on that parent type -/
def FieldIn (g : GCtx) (rt : Name) (Q : Name → FieldNode → Prop) (k : Name) (f : FieldNode) : Prop :=
  k = f.key ∧ ∃ P, Q P f ∧ Sub g.cx.schema rt P ∧
    validSel g.vcx P (.field f.alias f.name f.args f.dirs f.sels) = true ∧
    ∀ n ∈ spreadsIn f.sels, n ∈ g.reach

def AllK (R : Name → FieldNode → Prop) (gs : Spec.Groups) : Prop :=
  ∀ p ∈ gs, ∀ f ∈ p.2, R p.1 f

theorem AllK.nil (R : Name → FieldNode → Prop) : AllK R [] := by intro p hp; cases hp

theorem AllK.appendGroups {R : Name → FieldNode → Prop} {gs : Spec.Groups} (h : AllK R gs)
    (k : Name) (fs : List FieldNode) (hf : ∀ f ∈ fs, R k f) : AllK R (Spec.appendGroup gs k fs) := by
  induction gs with
  | nil =>
    intro p hp
    simp only [Spec.appendGroup, List.mem_singleton] at hp
    subst hp
    exact hf
  | cons hd t ih =>
    obtain ⟨k', fs'⟩ := hd
    have ht : AllK R t := fun p hp => h p (List.mem_cons_of_mem _ hp)
    have hhd := h (k', fs') (List.mem_cons_self ..)
    intro p hp
    simp only [Spec.appendGroup] at hp
    split at hp
    · rename_i hk
      have hk' : k' = k := by simpa using hk
      rcases List.mem_cons.1 hp with rfl | hp
      · intro f hf'
        rcases List.mem_append.1 hf' with hf' | hf'
        · exact hhd f hf'
        · exact hk' ▸ hf f hf'
      · exact ht p hp
    · rcases List.mem_cons.1 hp with rfl | hp
      · exact hhd
      · exact ih ht p hp

theorem AllK.mergeGroups {R : Name → FieldNode → Prop} {gs fg : Spec.Groups} (h : AllK R gs)
    (hf : AllK R fg) : AllK R (Spec.mergeGroups gs fg) := by
  induction fg generalizing gs with
  | nil => exact h
  | cons hd t ih =>
    obtain ⟨k, fs⟩ := hd
    exact ih (h.appendGroups k fs (hf (k, fs) (List.mem_cons_self ..)))
      (fun p hp => hf p (List.mem_cons_of_mem _ hp))

def OutK (R : Name → FieldNode → Prop) : Out ErrKind (Spec.Groups × List Name) → Prop
  | .ok (gs, _) => AllK R gs
  | _ => True

variable (g : GCtx) (hfr : FragsV g) (rt : Name) (Q : Name → FieldNode → Prop)
variable (srecur : List Selection → List Name → Out ErrKind (Spec.Groups × List Name))
variable (hrec : ∀ sels vis S, SelsV g S sels → Sub g.cx.schema rt S →
  (∀ P f, InSet g.cx.doc S sels P f → Q P f) → OutK (FieldIn g rt Q) (srecur sels vis))

include hfr hrec in
mutual
theorem collectOne_in : (sel : Selection) → ∀ (rest : List Selection) (S : Name)
    (acc : Spec.Groups) (vis : List Name),
    validSel g.vcx S sel = true → (∀ n ∈ spreadsInSel sel, n ∈ g.reach) → Sub g.cx.schema rt S →
    (∀ P f, InSet g.cx.doc S (sel :: rest) P f → Q P f) → AllK (FieldIn g rt Q) acc →
    OutK (FieldIn g rt Q) (Spec.collectOne g.cx rt srecur sel acc vis)
  | .field alias name args dirs sels, rest, S, acc, vis, hv, hs, hsub, hq, hacc => by
    unfold Spec.collectOne
    cases Spec.included g.cx dirs with
    | none => simp [OutK]
    | some b =>
      cases b with
      | false => exact hacc
      | true =>
        simp only [OutK]
        apply hacc.appendGroups
        intro f hf
        simp only [List.mem_singleton] at hf
        subst hf
        exact ⟨rfl, S, hq _ _ (InSet.here ..), hsub, hv, by simpa [spreadsInSel] using hs⟩
  | .spread name dirs, rest, S, acc, vis, hv, hs, hsub, hq, hacc => by
    unfold Spec.collectOne
    cases Spec.included g.cx dirs with
    | none => simp [OutK]
    | some b =>
      cases b with
      | false => exact hacc
      | true =>
        simp only
        split
        · exact hacc
        · cases hf : g.cx.doc.frag name with
          | none => exact hacc
          | some fr =>
            simp only
            cases happ : Spec.doesFragmentTypeApply g.cx.schema rt fr.cond with
            | false => exact hacc
            | true =>
              simp only [Bool.not_true, Bool.false_eq_true, ↓reduceIte]
              have hin : name ∈ g.reach := hs name (by simp [spreadsInSel])
              have h := hrec fr.sels (name :: vis) fr.cond (hfr name hin fr hf) (sub_of_applies happ)
                (fun P f hPf => hq P f (InSet.spread hf hPf))
              revert h
              cases srecur fr.sels (name :: vis) with
              | crash c => simp [OutK]
              | err e => simp [OutK]
              | ok r => obtain ⟨fg, v'⟩ := r; simp only [OutK]; exact fun h => hacc.mergeGroups h
  | .inline cond dirs sels, rest, S, acc, vis, hv, hs, hsub, hq, hacc => by
    unfold Spec.collectOne
    simp only [validSel, Bool.and_eq_true] at hv
    have hsp : ∀ n ∈ spreadsIn sels, n ∈ g.reach := by simpa [spreadsInSel] using hs
    cases Spec.included g.cx dirs with
    | none => simp [OutK]
    | some b =>
      cases b with
      | false => exact hacc
      | true =>
        simp only
        cases cond with
        | none =>
          simp only [Bool.not_true, Bool.false_eq_true, ↓reduceIte]
          have h := collectLoop_in sels S [] vis ⟨hv.2, hsp⟩ hsub
            (fun P f hPf => hq P f (InSet.inlineNone hPf)) (AllK.nil _)
          revert h
          cases Spec.collectLoop g.cx rt srecur sels [] vis with
          | crash c => simp [OutK]
          | err e => simp [OutK]
          | ok r => obtain ⟨fg, v'⟩ := r; simp only [OutK]; exact fun h => hacc.mergeGroups h
        | some c =>
          simp only
          have h2 := hv.2
          simp only [Bool.and_eq_true] at h2
          by_cases happ : Spec.doesFragmentTypeApply g.cx.schema rt c = true
          case neg =>
            have happ' : Spec.doesFragmentTypeApply g.cx.schema rt c = false := by simpa using happ
            simp only [happ', Bool.not_false, ↓reduceIte]
            exact hacc
          case pos =>
            simp only [happ, Bool.not_true, Bool.false_eq_true, ↓reduceIte]
            have h := collectLoop_in sels c [] vis ⟨h2.2, hsp⟩ (sub_of_applies happ)
              (fun P f hPf => hq P f (InSet.inlineSome hPf)) (AllK.nil _)
            revert h
            cases Spec.collectLoop g.cx rt srecur sels [] vis with
            | crash c => simp [OutK]
            | err e => simp [OutK]
            | ok r => obtain ⟨fg, v'⟩ := r; simp only [OutK]; exact fun h => hacc.mergeGroups h

theorem collectLoop_in : (sels : List Selection) → ∀ (S : Name) (acc : Spec.Groups) (vis : List Name),
    SelsV g S sels → Sub g.cx.schema rt S → (∀ P f, InSet g.cx.doc S sels P f → Q P f) →
    AllK (FieldIn g rt Q) acc → OutK (FieldIn g rt Q) (Spec.collectLoop g.cx rt srecur sels acc vis)
  | [], S, acc, vis, _, _, _, hacc => by unfold Spec.collectLoop; exact hacc
  | sel :: rest, S, acc, vis, hok, hsub, hq, hacc => by
    obtain ⟨hv, hs⟩ := hok
    simp only [validSels, Bool.and_eq_true] at hv
    rw [spreadsIn_cons] at hs
    have h := collectOne_in sel rest S acc vis hv.1
      (fun n hn => hs n (List.mem_append_left _ hn)) hsub hq hacc
    unfold Spec.collectLoop
    revert h
    cases Spec.collectOne g.cx rt srecur sel acc vis with
    | crash c => simp [OutK]
    | err e => simp [OutK]
    | ok r =>
      obtain ⟨acc', vis'⟩ := r
      simp only [OutK]
      intro h
      exact collectLoop_in rest S acc' vis' ⟨hv.2, fun n hn => hs n (List.mem_append_right _ hn)⟩
        hsub (fun P f hPf => hq P f (InSet.tail hPf)) h
end

include hfr in
theorem collectFieldsFuel_in : ∀ (n : Nat) (sels : List Selection) (vis : List Name) (S : Name),
    SelsV g S sels → Sub g.cx.schema rt S → (∀ P f, InSet g.cx.doc S sels P f → Q P f) →
    OutK (FieldIn g rt Q) (Spec.collectFieldsFuel g.cx rt n sels vis)
  | 0, _, _, _, _, _, _ => by simp [Spec.collectFieldsFuel, OutK]
  | n + 1, sels, vis, S, hok, hsub, hq => by
    unfold Spec.collectFieldsFuel
    exact collectLoop_in g hfr rt Q _
      (fun s v S' h1 h2 h3 => collectFieldsFuel_in n s v S' h1 h2 h3) sels S [] vis hok hsub hq (AllK.nil _)

include hfr in
/-- every field CollectFields puts into a group for the runtime type `rt` is a field of the
expanded set of `sels` on `S` whose parent type contains `rt` -/
theorem collectFields_in (sels : List Selection) (S : Name) (hok : SelsV g S sels)
    (hsub : Sub g.cx.schema rt S) (gs : Spec.Groups) (h : Spec.collectFields g.cx rt sels = .ok gs) :
    AllK (FieldIn g rt (InSet g.cx.doc S sels)) gs := by
  have h1 := collectFieldsFuel_in g hfr rt (InSet g.cx.doc S sels) (Spec.fuelOf g.cx.doc) sels [] S hok hsub
    (fun _ _ h => h)
  unfold Spec.collectFields at h
  revert h h1
  cases Spec.collectFieldsFuel g.cx rt (Spec.fuelOf g.cx.doc) sels [] with
  | crash c => simp
  | err e => simp
  | ok r =>
    obtain ⟨g', v⟩ := r
    simp only [OutK, Out.ok.injEq]
    rintro rfl h1
    exact h1

end Gql.Exec.Valid
