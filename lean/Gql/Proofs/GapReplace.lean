import Gql.Proofs.TokenStable
/-!
# Replacing the ignored material after a token

Prefix derivations (`PrefixFrom`), splitting a derivation at the end of a token, stability of
the prefix when the continuation changes, and the gap-replacement theorem.
-/
open Gql Gql.Text
namespace Gql.Spec.Lex

/-- Derivation of the tokens of a prefix `pre` of the text `pre ++ z` that ends right after a
token (or is empty): every item lies inside `pre`, and an Ignored item is never the last one. -/
inductive PrefixFrom : Nat → List Nat → List Nat → List SpecToken → Prop
  | nil (off : Nat) (z : List Nat) : PrefixFrom off [] z []
  | ignored {off : Nat} {pre z : List Nat} {n : Nat} {ts : List SpecToken} :
      ignoredLen (pre ++ z) = some n → n < pre.length →
      PrefixFrom (off + n) (pre.drop n) z ts → PrefixFrom off pre z ts
  | token {off : Nat} {pre z : List Nat} {m : Match} {ts : List SpecToken} :
      ignoredLen (pre ++ z) = none → lexToken? (pre ++ z) = some m → 0 < m.len → m.len ≤ pre.length →
      PrefixFrom (off + m.len) (pre.drop m.len) z ts →
      PrefixFrom off pre z (⟨m.kind, off, off + m.len, m.value⟩ :: ts)

theorem PrefixFrom.join {off : Nat} {pre z : List Nat} {ts1 ts2 : List SpecToken}
    (h1 : PrefixFrom off pre z ts1) (h2 : SpecTokensFrom (off + pre.length) z ts2) :
    SpecTokensFrom off (pre ++ z) (ts1 ++ ts2) := by
  induction h1 with
  | nil off z => simpa using h2
  | @ignored off pre z n ts hig hn _ ih =>
    refine .ignored hig ?_
    rw [drop_app _ _ _ (by omega)]
    apply ih
    have : off + n + (pre.drop n).length = off + pre.length := by simp; omega
    rw [this]; exact h2
  | @token off pre z m ts hig hm hpos hn _ ih =>
    refine .token hig hm hpos ?_
    rw [drop_app _ _ _ hn]
    apply ih
    have : off + m.len + (pre.drop m.len).length = off + pre.length := by simp; omega
    rw [this]; exact h2

/-- Spans of a derivation start at or after the offset. -/
theorem SpecTokensFrom.spans {off : Nat} {s : List Nat} {ts : List SpecToken}
    (h : SpecTokensFrom off s ts) : ∀ t ∈ ts, off ≤ t.start ∧ (t.kind ≠ .eof → t.start < t.stop) := by
  induction h with
  | eof off => intro t ht; simp at ht; subst ht; simp
  | ignored _ _ ih => intro t ht; have := ih t ht; exact ⟨by omega, this.2⟩
  | @token off s m ts _ _ hpos _ ih =>
    intro t ht
    rcases List.mem_cons.mp ht with h | h
    · subst h; exact ⟨Nat.le_refl _, fun _ => by simp; omega⟩
    · have := ih t h; exact ⟨by omega, this.2⟩

/-- A derivation of `pre ++ z` with a token that ends exactly at `|pre|` (or `pre` empty) splits
into a prefix derivation and a derivation of `z`. -/
theorem SpecTokensFrom.split {off : Nat} {s : List Nat} {ts : List SpecToken}
    (h : SpecTokensFrom off s ts) : ∀ (pre z : List Nat), s = pre ++ z →
      (pre = [] ∨ ∃ t ∈ ts, t.kind ≠ .eof ∧ t.stop = off + pre.length) →
      ∃ ts1 ts2, ts = ts1 ++ ts2 ∧ PrefixFrom off pre z ts1 ∧ SpecTokensFrom (off + pre.length) z ts2 := by
  induction h with
  | eof off =>
    intro pre z hs hb
    have hp : pre = [] := by
      cases pre with
      | nil => rfl
      | cons a r => simp at hs
    subst hp
    simp only [List.nil_append] at hs
    subst hs
    exact ⟨[], _, rfl, .nil _ _, by simpa using SpecTokensFrom.eof off⟩
  | @ignored off s n ts hig hrest ih =>
    intro pre z hs hb
    by_cases hp : pre = []
    · subst hp
      simp only [List.nil_append] at hs
      subst hs
      exact ⟨[], ts, rfl, .nil _ _, by simpa using SpecTokensFrom.ignored hig hrest⟩
    · have hb' : ∃ t ∈ ts, t.kind ≠ .eof ∧ t.stop = off + pre.length := by
        rcases hb with h | h
        · exact absurd h hp
        · exact h
      obtain ⟨t, ht, hk, hstop⟩ := hb'
      have hsp := hrest.spans t ht
      have hn : n < pre.length := by have := hsp.2 hk; omega
      subst hs
      rw [drop_app _ _ _ (by omega)] at ih
      have hlen : (pre.drop n).length = pre.length - n := by simp
      obtain ⟨ts1, ts2, hts, hp1, hp2⟩ := ih (pre.drop n) z rfl
        (Or.inr ⟨t, ht, hk, by rw [hstop, hlen]; omega⟩)
      refine ⟨ts1, ts2, hts, .ignored hig hn hp1, ?_⟩
      have : off + n + (pre.drop n).length = off + pre.length := by rw [hlen]; omega
      rw [← this]; exact hp2
  | @token off s m ts hig hm hpos hrest ih =>
    intro pre z hs hb
    by_cases hp : pre = []
    · subst hp
      simp only [List.nil_append] at hs
      subst hs
      exact ⟨[], _, rfl, .nil _ _, by simpa using SpecTokensFrom.token hig hm hpos hrest⟩
    · have hb' : ∃ t ∈ (⟨m.kind, off, off + m.len, m.value⟩ :: ts), t.kind ≠ .eof ∧ t.stop = off + pre.length := by
        rcases hb with h | h
        · exact absurd h hp
        · exact h
      obtain ⟨t, ht, hk, hstop⟩ := hb'
      subst hs
      have hn : m.len ≤ pre.length := by
        rcases List.mem_cons.mp ht with h | h
        · subst h; simp at hstop; omega
        · have hsp := hrest.spans t h
          have := hsp.2 hk; omega
      rw [drop_app _ _ _ hn] at ih
      have hlen : (pre.drop m.len).length = pre.length - m.len := by simp
      have hb2 : pre.drop m.len = [] ∨ ∃ t ∈ ts, t.kind ≠ .eof ∧ t.stop = off + m.len + (pre.drop m.len).length := by
        rcases List.mem_cons.mp ht with h | h
        · left
          subst h
          simp at hstop
          exact List.eq_nil_of_length_eq_zero (by rw [hlen]; omega)
        · exact Or.inr ⟨t, h, hk, by rw [hstop, hlen]; omega⟩
      obtain ⟨ts1, ts2, hts, hp1, hp2⟩ := ih (pre.drop m.len) z rfl hb2
      refine ⟨_ :: ts1, ts2, by rw [hts]; rfl, .token hig hm hpos hn hp1, ?_⟩
      have : off + m.len + (pre.drop m.len).length = off + pre.length := by rw [hlen]; omega
      rw [← this]; exact hp2

/-- A continuation that cannot extend any token: empty, or starting with a code point that is
no NameContinue, no digit, no `.` and no `"`. -/
def Inert (z : List Nat) : Prop :=
  HeadAll (fun d => ¬ NameContinue d ∧ ¬ Digit d ∧ d ≠ 46 ∧ d ≠ 34) z

theorem compat_of_inert (t z : List Nat) (h : Inert z) : Compat t z := by
  cases t with
  | nil => trivial
  | cons c t' =>
    refine headAll_mono h (fun d hd => ⟨fun _ => hd.1, fun _ => ⟨hd.2.1, hd.2.2.1, ?_⟩, fun _ _ => hd.2.2.2⟩)
    intro hns; exact hd.1 (by unfold NameStart at hns; unfold NameContinue; rcases hns with h | h <;> simp [h])

theorem compat_head (t : List Nat) (c : Nat) (w w' : List Nat) (h : Compat t (c :: w)) : Compat t (c :: w') := by
  cases t with
  | nil => trivial
  | cons a t' => exact h

theorem inert_of_ignoredStart (c : Nat) (r : List Nat) (h : IgnoredStart c) : Inert (c :: r) := by
  unfold IgnoredStart at h
  show ¬ NameContinue c ∧ ¬ Digit c ∧ c ≠ 46 ∧ c ≠ 34
  unfold NameContinue Letter Digit
  omega

theorem ignoredLen_none_head' {c : Nat} {r r' : List Nat} (h : ignoredLen (c :: r) = none) :
    ignoredLen (c :: r') = none := by
  cases h' : ignoredLen (c :: r') with
  | none => rfl
  | some n =>
    obtain ⟨k, hk⟩ := ignoredLen_start_some r (ignoredLen_some_start h')
    rw [hk] at h; simp at h

theorem ccl_stop : ∀ (u : List Nat) (c : Nat) (w : List Nat),
    commentCharsLen (u ++ c :: w) = u.length → Scalar c → LineTerm c
  | [], c, w, h, hs => by
    rw [List.nil_append, commentCharsLen_cons] at h
    by_cases hl : LineTerm c
    · exact hl
    · rw [if_neg hl, if_pos hs] at h; simp at h
  | [a], c, w, h, hs => by
    simp only [List.cons_append, List.nil_append, List.length_cons, List.length_nil] at h
    rw [commentCharsLen_cons] at h
    by_cases hl : LineTerm a
    · rw [if_pos hl] at h; omega
    · rw [if_neg hl] at h
      by_cases hsa : Scalar a
      · rw [if_pos hsa] at h
        exact ccl_stop [] c w (by simpa using (by omega : commentCharsLen (c :: w) = 0)) hs
      · rw [if_neg hsa] at h
        simp only [] at h
        by_cases hp : LeadSurrogate a ∧ TrailSurrogate c
        · exfalso; unfold TrailSurrogate at hp; unfold Scalar at hs; omega
        · rw [if_neg hp] at h; omega
  | a :: d :: u, c, w, h, hs => by
    simp only [List.cons_append, List.length_cons] at h
    rw [commentCharsLen_cons] at h
    by_cases hl : LineTerm a
    · rw [if_pos hl] at h; omega
    · rw [if_neg hl] at h
      by_cases hsa : Scalar a
      · rw [if_pos hsa] at h
        exact ccl_stop (d :: u) c w (by simp only [List.cons_append, List.length_cons]; omega) hs
      · rw [if_neg hsa] at h
        simp only [] at h
        by_cases hp : LeadSurrogate a ∧ TrailSurrogate d
        · rw [if_pos hp] at h
          exact ccl_stop u c w (by omega) hs
        · rw [if_neg hp] at h; omega

theorem lexToken?_start_scalar {c : Nat} {r : List Nat} {m : Match} (h : lexToken? (c :: r) = some m) :
    Scalar c := by
  by_cases hs : Scalar c
  · exact hs
  · exfalso
    unfold Scalar at hs
    have h1 : ¬ Gql.Text.PunctStart c := by unfold Gql.Text.PunctStart; omega
    have h2 : ¬ NameStart c := by unfold NameStart Letter; omega
    have h3 : ¬ Digit c := by unfold Digit; omega
    rw [Gql.Text.lexToken?_none c r h1 h2 h3 (by omega) (by omega)] at h
    simp at h

theorem ignoredStart_scalar {c : Nat} (h : IgnoredStart c) : Scalar c := by
  unfold IgnoredStart at h; unfold Scalar; omega

/-- The first code point of a non-empty prefix derivation is a Unicode scalar value. -/
theorem PrefixFrom.head_scalar {off : Nat} {c : Nat} {r z : List Nat} {ts : List SpecToken}
    (h : PrefixFrom off (c :: r) z ts) : Scalar c := by
  cases h with
  | ignored hig _ _ => exact ignoredStart_scalar (ignoredLen_some_start (by simpa using hig))
  | token _ hm _ _ _ => exact lexToken?_start_scalar (by simpa using hm)

theorem take_drop_app (pre z : List Nat) (n : Nat) (h : n ≤ pre.length) :
    pre ++ z = pre.take n ++ (pre.drop n ++ z) := by
  rw [← List.append_assoc, List.take_append_drop]

/-- Prefix stability: the tokens of a prefix that ends right after a token do not depend on the
continuation, as long as the new continuation cannot extend the last token. -/
theorem PrefixFrom.stable {off : Nat} {pre z : List Nat} {ts : List SpecToken}
    (h : PrefixFrom off pre z ts) (z' : List Nat) (hz' : Inert z') : PrefixFrom off pre z' ts := by
  induction h with
  | nil off z => exact .nil _ _
  | @ignored off pre z n ts hig hn hrest ih =>
    refine .ignored ?_ hn ih
    have hlen : (pre.take n).length = n := by simp; omega
    -- the item is `pre.take n`, followed inside `pre` by `c`
    cases hW : pre.drop n with
    | nil =>
      have := congrArg List.length hW
      simp at this; omega
    | cons c W =>
      rw [hW] at hrest
      have hsc := hrest.head_scalar
      rw [take_drop_app pre z n (by omega), hW] at hig
      rw [take_drop_app pre z' n (by omega), hW]
      have hig' : ignoredLen (pre.take n ++ (c :: W ++ z)) = some (pre.take n).length := by rw [hlen]; exact hig
      have := ignoredLen_stable (pre.take n) (c :: W ++ z) (c :: W ++ z') hig' ?_ ?_
      · rw [hlen] at this; exact this
      · -- a comment: it stops at `c`, a scalar value, hence a line terminator
        intro h35
        show LineTerm c
        cases hT : pre.take n with
        | nil => rw [hT] at h35; simp at h35
        | cons a T =>
          rw [hT] at h35 hig' 
          have ha : a = 35 := by simpa using h35
          subst ha
          have hcc : some (1 + commentCharsLen (T ++ (c :: W ++ z))) = some (35 :: T).length := hig'
          simp only [List.length_cons, Option.some.injEq, List.cons_append] at hcc
          exact ccl_stop T c (W ++ z) (by omega) hsc
      · intro h13
        show c ≠ 10
        intro hc; subst hc
        rw [h13] at hig'
        have : ignoredLen ([13] ++ (10 :: W ++ z)) = some 2 := rfl
        rw [this] at hig'; simp at hig'
  | @token off pre z m ts hig hm hpos hn hrest ih =>
    have hlen : (pre.take m.len).length = m.len := by simp; omega
    have hsplit := take_drop_app pre z m.len hn
    have hsplit' := take_drop_app pre z' m.len hn
    have hm' : lexToken? (pre.take m.len ++ (pre.drop m.len ++ z)) = some m := by rw [← hsplit]; exact hm
    obtain ⟨hcx, hst⟩ := lexToken?_stable_compat (pre.take m.len) (pre.drop m.len ++ z) m hm' hlen.symm hpos
    have hcy : Compat (pre.take m.len) (pre.drop m.len ++ z') := by
      cases hW : pre.drop m.len with
      | nil => simpa using compat_of_inert _ _ hz'
      | cons c W =>
        rw [hW] at hcx
        exact compat_head _ c _ _ hcx
    have hm2 := hst _ hcy
    rw [← hsplit'] at hm2
    refine .token ?_ hm2 hpos hn ih
    match pre, hn, hig with
    | [], hn, _ => simp at hn; omega
    | a :: pre', _, hig => exact ignoredLen_none_head' hig

theorem ignoredLen_nil : ignoredLen [] = none := rfl

theorem IgnoredRun.inv {s : List Nat} {k : Nat} (hr : IgnoredRun s k) :
    ∀ {off : Nat} {ts : List SpecToken}, SpecTokensFrom off s ts → SpecTokensFrom (off + k) (s.drop k) ts := by
  induction hr with
  | zero s => intro off ts h; simpa using h
  | @step s n k hig _ ih =>
    intro off ts h
    cases h with
    | eof => simp [ignoredLen_nil] at hig
    | ignored hig' hrest =>
      rw [hig] at hig'
      have := Option.some.inj hig'
      subst this
      have := ih hrest
      rw [List.drop_drop] at this
      rw [← Nat.add_assoc]; exact this
    | token hig' _ _ _ => rw [hig] at hig'; simp at hig'

theorem IgnoredRun.intro {s : List Nat} {k : Nat} (hr : IgnoredRun s k) :
    ∀ {off : Nat} {ts : List SpecToken}, SpecTokensFrom (off + k) (s.drop k) ts → SpecTokensFrom off s ts := by
  induction hr with
  | zero s => intro off ts h; simpa using h
  | @step s n k hig _ ih =>
    intro off ts h
    refine .ignored hig (ih ?_)
    rw [List.drop_drop, Nat.add_assoc]; exact h

theorem SpecTokensFrom.shift {off : Nat} {s : List Nat} {ts : List SpecToken}
    (h : SpecTokensFrom off s ts) : ∀ off', ∃ ts', SpecTokensFrom off' s ts' ∧ kv ts' = kv ts := by
  induction h with
  | eof off => intro off'; exact ⟨_, .eof off', rfl⟩
  | ignored hig _ ih =>
    intro off'
    obtain ⟨ts', h1, h2⟩ := ih (off' + _)
    exact ⟨ts', .ignored hig h1, h2⟩
  | @token off s m ts hig hm hpos _ ih =>
    intro off'
    obtain ⟨ts', h1, h2⟩ := ih (off' + m.len)
    exact ⟨_, .token hig hm hpos h1, by simp [kv] at h2 ⊢; exact h2⟩

theorem kv_append (a b : List SpecToken) : kv (a ++ b) = kv a ++ kv b := by simp [kv]

theorem IgnoredRun.head {s : List Nat} {k : Nat} (h : IgnoredRun s k) (hk : 0 < k) :
    ∃ n, ignoredLen s = some n := by
  induction h with
  | zero s => omega
  | step hig _ _ => exact ⟨_, hig⟩

theorem IgnoredRun.inert {g post : List Nat} (h : IgnoredRun (g ++ post) g.length) (hg : g ≠ []) :
    Inert (g ++ post) := by
  cases g with
  | nil => exact absurd rfl hg
  | cons c g' =>
    obtain ⟨n, hig⟩ := h.head (by simp)
    exact inert_of_ignoredStart c _ (ignoredLen_some_start (by simpa using hig))

/-- Gap replacement on the grammar: in a text `pre ++ G ++ post` whose prefix `pre` ends right
after a token (or is empty) and where `G` is a run of Ignored items, `G` may be replaced by any
other run of Ignored items `G'` that keeps the last token of `pre` separated from `post`
(`Inert (G' ++ post)`: non-empty `G'`, or a `post` that cannot extend a token): the kinds and
values of all tokens, before and after the gap, are unchanged. -/
theorem gap_replace (pre G G' post : List Nat) (ts : List SpecToken)
    (h : SpecTokens (pre ++ (G ++ post)) ts)
    (hb : pre = [] ∨ ∃ t ∈ ts, t.kind ≠ .eof ∧ t.stop = pre.length)
    (hG : IgnoredRun (G ++ post) G.length) (hG' : IgnoredRun (G' ++ post) G'.length)
    (hI : Inert (G' ++ post)) :
    ∃ ts', SpecTokens (pre ++ (G' ++ post)) ts' ∧ kv ts' = kv ts := by
  obtain ⟨ts1, ts2, hts, hp1, hp2⟩ := SpecTokensFrom.split h pre (G ++ post) rfl (by simpa using hb)
  have h3 := hG.inv hp2
  rw [List.drop_left'] at h3
  · obtain ⟨ts2', h4, hkv⟩ := h3.shift (0 + pre.length + G'.length)
    have h5 : SpecTokensFrom (0 + pre.length) (G' ++ post) ts2' := by
      apply hG'.intro
      rw [List.drop_left']
      · exact h4
      · rfl
    have h6 := (hp1.stable (G' ++ post) hI).join h5
    exact ⟨ts1 ++ ts2', h6, by rw [hts, kv_append, kv_append, hkv]⟩
  · rfl
end Gql.Spec.Lex

namespace Gql.Text
open Gql.Spec.Lex

theorem kindOf_eof {k : TokKind} (h : kindOf k = .eof) : k = .eof := by
  cases k <;> simp [kindOf] at h ⊢

/-- Gap replacement on the lexer model (through `lexer = grammar`). -/
theorem lexAll_gap_replace (pre G G' post : List Nat) (ts : List Token)
    (h : lexAll (pre ++ (G ++ post)) = .ok ts)
    (hb : pre = [] ∨ ∃ t ∈ ts, t.kind ≠ .eof ∧ t.stop = pre.length)
    (hG : IgnoredRun (G ++ post) G.length) (hG' : IgnoredRun (G' ++ post) G'.length)
    (hI : Inert (G' ++ post)) :
    ∃ ts', lexAll (pre ++ (G' ++ post)) = .ok ts' ∧ kv (sig ts') = kv (sig ts) := by
  have hA := lexAll_agree_all (pre ++ (G ++ post))
  rw [h] at hA
  have hS : SpecTokens (pre ++ (G ++ post)) (sig ts) := (specTokenize_iff _ _).mp hA
  have hb' : pre = [] ∨ ∃ t ∈ sig ts, t.kind ≠ .eof ∧ t.stop = pre.length := by
    rcases hb with hb | ⟨t, ht, hk, hs⟩
    · exact Or.inl hb
    · refine Or.inr ⟨toSpec t, List.mem_map_of_mem ht, ?_, hs⟩
      intro hk'; exact hk (kindOf_eof hk')
  obtain ⟨ss, hss, hkv⟩ := gap_replace pre G G' post (sig ts) hS hb' hG hG' hI
  have hA' := lexAll_agree_all (pre ++ (G' ++ post))
  have hsp := (specTokenize_iff _ _).mpr hss
  rw [hsp] at hA'
  cases hl : lexAll (pre ++ (G' ++ post)) with
  | ok ts' =>
    rw [hl] at hA'
    have : some ss = some (sig ts') := hA'
    exact ⟨ts', rfl, by rw [← Option.some.inj this]; exact hkv⟩
  | err e => rw [hl] at hA'; exact absurd hA' (by simp [LexAgree])
  | crash c => rw [hl] at hA'; exact hA'.elim

end Gql.Text
