import Gql.Types.SchemaValidate
import Gql.Spec.TypeSystem
/-
Lemmas for C20, part 9: the fields whose own default value is applied when a literal is coerced
at an input object type (`need`).  Both the default-value circular-reference validator and the
specification's InputObjectDefaultValueHasCycle only traverse the literal to reach these.
-/
namespace Gql.Types
open Gql

/-- an input field reached by the traversal: the field, its named type, its coordinate `T.f` -/
structure DNode where
  f : InputValue
  m : Str
  c : Str

def needObject (s : RawSchema) (tn : Str) (subs : List (Str × (Str → List DNode))) : List DNode :=
  match s.lookup tn with
  | some (.input fields _) =>
    fields.flatMap (fun f =>
      if !s.isInputObject f.type.namedType then []
      else
        match lookupLast subs f.name with
        | some g => g f.type.namedType
        | none => [⟨f, f.type.namedType, dot tn f.name⟩])
  | _ => []

mutual
/-- the fields whose default applies when `lit` is coerced at input object type `tn` -/
def need (s : RawSchema) : Lit → Str → List DNode
  | .list xs, tn => needs s xs tn
  | .obj fs, tn => needObject s tn (needEntries s fs)
  | _, _ => []
def needs (s : RawSchema) : List Lit → Str → List DNode
  | [], _ => []
  | x :: xs, tn => need s x tn ++ needs s xs tn
def needEntries (s : RawSchema) : List (Str × Lit) → List (Str × (Str → List DNode))
  | [] => []
  | e :: rest => (e.1, need s e.2) :: needEntries s rest
end

theorem entryOf_eq_lookupLast {α : Type} : ∀ (l : List (Str × α)) (k : Str),
    Spec.entryOf l k = lookupLast l k
  | [], _ => rfl
  | (k', v) :: rest, k => by
    unfold Spec.entryOf lookupLast
    rw [entryOf_eq_lookupLast rest k]
    cases lookupLast rest k with
    | some x => simp
    | none =>
      by_cases h : k' = k
      · simp [h]
      · have : (k' == k) = false := by simpa using h
        simp [h, this]

/-! ### the validator's traversal is a loop over `need` -/

section
variable (s : RawSchema) (cb : InputValue → Str → Str → DCState → DCState)

def runNodes (ns : List DNode) (st : DCState) : DCState :=
  ns.foldl (fun st n => cb n.f n.m n.c st) st

theorem runNodes_append (a b : List DNode) (st : DCState) :
    runNodes cb (a ++ b) st = runNodes cb b (runNodes cb a st) := by
  simp [runNodes, List.foldl_append]

/-- the detectors of the entries and the needs of the entries go together -/
def DRel : Option (Str → DCState → DCState) → Option (Str → List DNode) → Prop
  | none, none => True
  | some g, some h => ∀ m st, g m st = runNodes cb (h m) st
  | _, _ => False

theorem dcObject_eq (tn : Str) (subsD : List (Str × (Str → DCState → DCState)))
    (subsN : List (Str × (Str → List DNode)))
    (hrel : ∀ k, DRel cb (lookupLast subsD k) (lookupLast subsN k)) (st : DCState) :
    dcObject s cb tn subsD st = runNodes cb (needObject s tn subsN) st := by
  unfold dcObject needObject
  cases s.lookup tn with
  | none => rfl
  | some d =>
    cases d with
    | input fields o =>
      simp only
      induction fields generalizing st with
      | nil => rfl
      | cons f fs ih =>
        simp only [List.foldl_cons, List.flatMap_cons, runNodes_append]
        rw [ih]
        congr 1
        by_cases hi : s.isInputObject f.type.namedType = true
        · simp only [hi, Bool.not_true, Bool.false_eq_true, ↓reduceIte]
          have := hrel f.name
          cases h1 : lookupLast subsD f.name with
          | none =>
            cases h2 : lookupLast subsN f.name with
            | none => simp [runNodes]
            | some h => simp [h1, h2, DRel] at this
          | some g =>
            cases h2 : lookupLast subsN f.name with
            | none => simp [h1, h2, DRel] at this
            | some h =>
              rw [h1, h2] at this
              exact this _ _
        · simp only [Bool.not_eq_true] at hi
          simp [hi, runNodes]
    | scalar _ => rfl
    | object _ _ => rfl
    | interface _ _ => rfl
    | union _ => rfl
    | enum _ => rfl

mutual
theorem dcLit_eq : ∀ (lit : Lit) (tn : Str) (st : DCState),
    dcLit s cb lit tn st = runNodes cb (need s lit tn) st
  | .list xs, tn, st => by unfold dcLit need; exact dcLits_eq xs tn st
  | .obj fs, tn, st => by
    unfold dcLit need
    exact dcObject_eq s cb tn _ _ (dcEntries_rel fs) st
  | .null, _, _ => by simp [dcLit, need, runNodes]
  | .int _, _, _ => by simp [dcLit, need, runNodes]
  | .float, _, _ => by simp [dcLit, need, runNodes]
  | .str, _, _ => by simp [dcLit, need, runNodes]
  | .bool, _, _ => by simp [dcLit, need, runNodes]
  | .enum _, _, _ => by simp [dcLit, need, runNodes]
theorem dcLits_eq : ∀ (xs : List Lit) (tn : Str) (st : DCState),
    dcLits s cb xs tn st = runNodes cb (needs s xs tn) st
  | [], _, _ => by simp [dcLits, needs, runNodes]
  | x :: xs, tn, st => by
    unfold dcLits needs
    rw [runNodes_append, dcLit_eq x tn st, dcLits_eq xs tn]
theorem dcEntries_rel : ∀ (fs : List (Str × Lit)) (k : Str),
    DRel cb (lookupLast (dcEntries s cb fs) k) (lookupLast (needEntries s fs) k)
  | [], k => by simp [dcEntries, needEntries, lookupLast, DRel]
  | e :: rest, k => by
    have ih := dcEntries_rel rest k
    unfold dcEntries needEntries
    unfold lookupLast
    cases h1 : lookupLast (dcEntries s cb rest) k with
    | some g =>
      cases h2 : lookupLast (needEntries s rest) k with
      | some h => simpa [h1, h2] using ih
      | none => simp [h1, h2, DRel] at ih
    | none =>
      cases h2 : lookupLast (needEntries s rest) k with
      | some h => simp [h1, h2, DRel] at ih
      | none =>
        by_cases hk : (e.1 == k) = true
        · simp only [hk, ↓reduceIte, DRel]
          exact fun m st => dcLit_eq e.2 m st
        · simp only [Bool.not_eq_true] at hk
          simp [hk, DRel]
end
end

/-! ### the specification's traversal asks about the same fields -/

section
variable (s : RawSchema) (fd : InputValue → Str → Str → Bool)

def anyNode (ns : List DNode) : Bool := ns.any (fun n => fd n.f n.m n.c)

def SRel : Option (Str → Bool) → Option (Str → List DNode) → Prop
  | none, none => True
  | some g, some h => ∀ m, g m = anyNode fd (h m)
  | _, _ => False

theorem objectHasCycle_eq (tn : Str) (subsS : List (Str × (Str → Bool)))
    (subsN : List (Str × (Str → List DNode)))
    (hrel : ∀ k, SRel fd (lookupLast subsS k) (lookupLast subsN k)) :
    Spec.objectHasCycle s fd tn subsS = anyNode fd (needObject s tn subsN) := by
  unfold Spec.objectHasCycle needObject
  cases s.lookup tn with
  | none => rfl
  | some d =>
    cases d with
    | input fields o =>
      simp only [anyNode, List.any_flatMap]
      congr 1
      funext f
      rw [entryOf_eq_lookupLast]
      by_cases hi : s.isInputObject f.type.namedType = true
      · simp only [hi, Bool.true_and, Bool.not_true, Bool.false_eq_true, ↓reduceIte]
        have := hrel f.name
        cases h1 : lookupLast subsS f.name with
        | none =>
          cases h2 : lookupLast subsN f.name with
          | none => simp [dot]
          | some h => simp [h1, h2, SRel] at this
        | some g =>
          cases h2 : lookupLast subsN f.name with
          | none => simp [h1, h2, SRel] at this
          | some h =>
            rw [h1, h2] at this
            exact this _
      · simp only [Bool.not_eq_true] at hi
        simp [hi]
    | scalar _ => rfl
    | object _ _ => rfl
    | interface _ _ => rfl
    | union _ => rfl
    | enum _ => rfl

mutual
theorem valueHasCycle_eq : ∀ (lit : Lit) (tn : Str),
    Spec.valueHasCycle s fd lit tn = anyNode fd (need s lit tn)
  | .list xs, tn => by unfold Spec.valueHasCycle need; exact anyHasCycle_eq xs tn
  | .obj fs, tn => by
    unfold Spec.valueHasCycle need
    exact objectHasCycle_eq s fd tn _ _ (entriesHaveCycle_rel fs)
  | .null, _ => by simp [Spec.valueHasCycle, need, anyNode]
  | .int _, _ => by simp [Spec.valueHasCycle, need, anyNode]
  | .float, _ => by simp [Spec.valueHasCycle, need, anyNode]
  | .str, _ => by simp [Spec.valueHasCycle, need, anyNode]
  | .bool, _ => by simp [Spec.valueHasCycle, need, anyNode]
  | .enum _, _ => by simp [Spec.valueHasCycle, need, anyNode]
theorem anyHasCycle_eq : ∀ (xs : List Lit) (tn : Str),
    Spec.anyHasCycle s fd xs tn = anyNode fd (needs s xs tn)
  | [], _ => by simp [Spec.anyHasCycle, needs, anyNode]
  | x :: xs, tn => by
    unfold Spec.anyHasCycle needs
    rw [valueHasCycle_eq x tn, anyHasCycle_eq xs tn]
    simp [anyNode, List.any_append]
theorem entriesHaveCycle_rel : ∀ (fs : List (Str × Lit)) (k : Str),
    SRel fd (lookupLast (Spec.entriesHaveCycle s fd fs) k) (lookupLast (needEntries s fs) k)
  | [], k => by simp [Spec.entriesHaveCycle, needEntries, lookupLast, SRel]
  | e :: rest, k => by
    have ih := entriesHaveCycle_rel rest k
    unfold Spec.entriesHaveCycle needEntries
    unfold lookupLast
    cases h1 : lookupLast (Spec.entriesHaveCycle s fd rest) k with
    | some g =>
      cases h2 : lookupLast (needEntries s rest) k with
      | some h => simpa [h1, h2] using ih
      | none => simp [h1, h2, SRel] at ih
    | none =>
      cases h2 : lookupLast (needEntries s rest) k with
      | some h => simp [h1, h2, SRel] at ih
      | none =>
        by_cases hk : (e.1 == k) = true
        · simp only [hk, ↓reduceIte, SRel]
          exact fun m => valueHasCycle_eq e.2 m
        · simp only [Bool.not_eq_true] at hk
          simp [hk, SRel]
end
end

end Gql.Types
