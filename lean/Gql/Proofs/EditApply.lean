import Gql.Syntax.Visitor
/-!
How the edits `visit` accumulates per level relate to the documented effect per position:
applying the list of `(index, edit)` pairs with the running offset (`applyArr`) / the list of
`(attribute, edit)` pairs (`applyNode`) gives exactly the tuple / attribute list of the contract.
-/
namespace Gql.Syntax
open Gql Gql.Syntax.Spec

/-- the entries `visit` appends to the edits of a level for one visited position with key `ky`,
against the documented effect on that position -/
inductive SlotEdits (ky : Key) : Slot → Edits → Prop
  | keep : SlotEdits ky .keep []
  | gone1 : SlotEdits ky .gone [(ky, .rm)]
  | gone2 (r : Node) : SlotEdits ky .gone [(ky, .val (.node r)), (ky, .rm)]
  | put1 (x : Node) : SlotEdits ky (.put x) [(ky, .val (.node x))]
  | put2 (r x : Node) : SlotEdits ky (.put x) [(ky, .val (.node r)), (ky, .val (.node x))]

theorem SlotEdits.nil_iff {ky : Key} {slot : Slot} {es : Edits} (h : SlotEdits ky slot es) :
    es = [] ↔ slot = .keep := by
  cases h <;> simp

/-- the documented new tuple: a kept item stays, a removed one disappears, a replaced one is replaced -/
def slotOut (slot : Slot) (c : Node) (rest : List Node × Bool) : List Node × Bool :=
  match slot with
  | .keep => (c :: rest.1, rest.2)
  | .gone => (rest.1, true)
  | .put c' => (c' :: rest.1, true)

inductive ArrEdits : Nat → List Node → Edits → List Node × Bool → Prop
  | nil (j : Nat) : ArrEdits j [] [] ([], false)
  | cons (j : Nat) (c : Node) (suf : List Node) (slot : Slot) (es1 es2 : Edits) (rest : List Node × Bool) :
      SlotEdits (.idx j) slot es1 → ArrEdits (j + 1) suf es2 rest →
      ArrEdits j (c :: suf) (es1 ++ es2) (slotOut slot c rest)

theorem ArrEdits.nil_case {j : Nat} {suf : List Node} {es : Edits} {out : List Node × Bool}
    (h : ArrEdits j suf es out) : (es = [] → out = (suf, false)) ∧ (es ≠ [] → out.2 = true) := by
  induction h with
  | nil j => simp
  | cons j c suf slot es1 es2 rest hs _ ih =>
    constructor
    · intro he
      have h1 : es1 = [] := (List.append_eq_nil_iff.mp he).1
      have h2 : es2 = [] := (List.append_eq_nil_iff.mp he).2
      have := hs.nil_iff.mp h1
      subst this
      have := ih.1 h2
      subst this
      rfl
    · intro he
      cases hs with
      | keep =>
        simp only [List.nil_append] at he
        simp only [slotOut]
        exact ih.2 he
      | gone1 => rfl
      | gone2 r => rfl
      | put1 x => rfl
      | put2 r x => rfl

theorem eraseIdx_mid (done : List Node) (c : Node) (suf : List Node) :
    (done ++ c :: suf).eraseIdx done.length = done ++ suf := by
  induction done with
  | nil => rfl
  | cons a d ih => simp [List.eraseIdx, ih]

theorem set_mid (done : List Node) (c x : Node) (suf : List Node) :
    (done ++ c :: suf).set done.length x = done ++ x :: suf := by
  induction done with
  | nil => rfl
  | cons a d ih => simp [List.set, ih]

/-- `applyArr` on the accumulated edits of a tuple level produces the documented tuple -/
theorem ArrEdits.apply {j : Nat} {suf : List Node} {es : Edits} {out : List Node × Bool}
    (h : ArrEdits j suf es out) :
    ∀ (done : List Node) (off : Nat), off + done.length = j →
      applyArr es (done ++ suf) off = .ok (done ++ out.1) := by
  induction h with
  | nil j => intro done off _; simp [applyArr]
  | cons j c suf slot es1 es2 rest hs _ ih =>
    intro done off hoff
    have h1 : ¬ j < off := by omega
    have h2 : j - off = done.length := by omega
    have h3 : done.length < (done ++ c :: suf).length := by simp
    have h3' : done.length < (done ++ c :: suf).length := h3
    cases hs with
    | keep =>
      have := ih (done ++ [c]) off (by simp; omega)
      simpa [slotOut] using this
    | gone1 =>
      have := ih done (off + 1) (by omega)
      simp only [List.cons_append, List.nil_append, applyArr, h1, reduceIte, h2, h3, eraseIdx_mid, slotOut]
      exact this
    | gone2 r =>
      have := ih done (off + 1) (by omega)
      have h4 : done.length < (done ++ r :: suf).length := by simp
      simp only [List.cons_append, List.nil_append, applyArr, h1, reduceIte, h2, h3, set_mid, h4, eraseIdx_mid, slotOut]
      exact this
    | put1 x =>
      have := ih (done ++ [x]) off (by simp; omega)
      simp only [List.cons_append, List.nil_append, applyArr, h1, reduceIte, h2, h3, set_mid, slotOut]
      simpa using this
    | put2 r x =>
      have := ih (done ++ [x]) off (by simp; omega)
      have h4 : done.length < (done ++ r :: suf).length := by simp
      simp only [List.cons_append, List.nil_append, applyArr, h1, reduceIte, h2, h3, set_mid, h4, slotOut]
      simpa using this


/-! ### attribute level -/

theorem setAttr_keys (fs : List (String × Child)) (k : String) (c : Child) :
    (setAttr fs k c).map Prod.fst = fs.map Prod.fst := by
  induction fs with
  | nil => rfl
  | cons hd tl ih =>
    obtain ⟨k', c'⟩ := hd
    simp only [setAttr]
    split <;> simp [ih]

theorem setAttr_setAttr (fs : List (String × Child)) (k : String) (a b : Child) :
    setAttr (setAttr fs k a) k b = setAttr fs k b := by
  induction fs with
  | nil => rfl
  | cons hd tl ih =>
    obtain ⟨k', c'⟩ := hd
    simp only [setAttr]
    split
    · next h => simp [setAttr, h]
    · next h => simp [setAttr, h, ih]

theorem setField_eq_setAttr (c : Child) (k : String) : ∀ (fs : List (String × Child)),
    k ∈ fs.map Prod.fst → setField fs k c = .ok (setAttr fs k c) := by
  intro fs
  induction fs with
  | nil => intro h; simp at h
  | cons hd tl ih =>
    intro h
    obtain ⟨k', c'⟩ := hd
    simp only [setField, setAttr]
    split
    · rfl
    · next hk =>
      have : k ∈ tl.map Prod.fst := by
        simp only [List.map_cons, List.mem_cons] at h
        rcases h with h | h
        · exact absurd h.symm hk
        · exact h
      show (setField tl k c >>= fun r' => Out.ok ((k', c') :: r')) = _
      rw [ih this]; rfl

theorem applyNode_cons_name (k : String) (e : EVal) (rest : Edits) (fs : List (String × Child))
    (h : k ∈ fs.map Prod.fst) :
    applyNode ((.name k, e) :: rest) fs = applyNode rest (setAttr fs k e.toChild) := by
  show (setField fs k e.toChild >>= fun fs' => applyNode rest fs') = _
  rw [setField_eq_setAttr _ _ fs h]; rfl

theorem withFields_cons (fs : List (String × Child)) (k : String) (c : Child) (sp : List (String × Child)) :
    withFields fs ((k, c) :: sp) = withFields (setAttr fs k c) sp := rfl

def slotChild : Slot → Child
  | .keep => .absent
  | .gone => .absent
  | .put c' => .one c'

/-- edits accumulated on a node level (machine) against the attribute replacements of the contract -/
inductive FieldEdits (keys : List String) : List String → Edits → List (String × Child) → Prop
  | nil : FieldEdits keys [] [] []
  | same (k : String) (ks : List String) (es : Edits) (sp : List (String × Child)) :
      FieldEdits keys ks es sp → FieldEdits keys (k :: ks) es sp
  | single (k : String) (ks : List String) (slot : Slot) (es1 es : Edits) (sp : List (String × Child)) :
      k ∈ keys → SlotEdits (.name k) slot es1 → slot ≠ .keep → FieldEdits keys ks es sp →
      FieldEdits keys (k :: ks) (es1 ++ es) ((k, slotChild slot) :: sp)
  | arr (k : String) (ks : List String) (cs' : List Node) (es : Edits) (sp : List (String × Child)) :
      k ∈ keys → FieldEdits keys ks es sp →
      FieldEdits keys (k :: ks) ((.name k, .val (.arr cs')) :: es) ((k, .many cs') :: sp)

theorem FieldEdits.nil_iff {keys ks : List String} {es : Edits} {sp : List (String × Child)}
    (h : FieldEdits keys ks es sp) : es = [] ↔ sp = [] := by
  induction h with
  | nil => simp
  | same k ks es sp _ ih => exact ih
  | single k ks slot es1 es sp _ hs hne _ _ =>
    constructor
    · intro he
      have := hs.nil_iff.mp (List.append_eq_nil_iff.mp he).1
      exact absurd this hne
    · intro he; simp at he
  | arr k ks cs' es sp _ _ _ => simp

theorem FieldEdits.apply {keys ks : List String} {es : Edits} {sp : List (String × Child)}
    (h : FieldEdits keys ks es sp) :
    ∀ (fs : List (String × Child)), fs.map Prod.fst = keys → applyNode es fs = .ok (withFields fs sp) := by
  induction h with
  | nil => intro fs _; rfl
  | same k ks es sp _ ih => exact ih
  | single k ks slot es1 es sp hk hs hne _ ih =>
    intro fs hfs
    have hmem : k ∈ fs.map Prod.fst := by rw [hfs]; exact hk
    have hkeys : ∀ c, (setAttr fs k c).map Prod.fst = keys := by intro c; rw [setAttr_keys, hfs]
    cases hs with
    | keep => exact absurd rfl hne
    | gone1 =>
      simp only [List.cons_append, List.nil_append]
      rw [applyNode_cons_name k _ _ fs hmem, withFields_cons]
      exact ih _ (hkeys _)
    | gone2 r =>
      simp only [List.cons_append, List.nil_append]
      rw [applyNode_cons_name k _ _ fs hmem,
        applyNode_cons_name k _ _ _ (by rw [setAttr_keys]; exact hmem), setAttr_setAttr, withFields_cons]
      exact ih _ (hkeys _)
    | put1 x =>
      simp only [List.cons_append, List.nil_append]
      rw [applyNode_cons_name k _ _ fs hmem, withFields_cons]
      exact ih _ (hkeys _)
    | put2 r x =>
      simp only [List.cons_append, List.nil_append]
      rw [applyNode_cons_name k _ _ fs hmem,
        applyNode_cons_name k _ _ _ (by rw [setAttr_keys]; exact hmem), setAttr_setAttr, withFields_cons]
      exact ih _ (hkeys _)
  | arr k ks cs' es sp hk _ ih =>
    intro fs hfs
    have hmem : k ∈ fs.map Prod.fst := by rw [hfs]; exact hk
    rw [applyNode_cons_name k _ _ fs hmem, withFields_cons]
    exact ih _ (by rw [setAttr_keys, hfs])

/-- rebuilding a node from the accumulated edits gives the documented copy -/
theorem FieldEdits.rebuild {m : Node} {ks : List String} {es : Edits} {sp : List (String × Child)}
    (h : FieldEdits (m.fields.map Prod.fst) ks es sp) :
    rebuild m es = .ok (Node.mk m.kind 0 m.payload (withFields m.fields sp)) := by
  show (applyNode es m.fields >>= fun fs => Out.ok (Node.mk m.kind 0 m.payload fs)) = _
  rw [h.apply m.fields rfl]; rfl

end Gql.Syntax
