import Gql.Proofs.SchemaBuild5
namespace Gql.Types
open Gql Gql.Generated

theorem autopick_root (s : Schema) (root : Option Str) (conv : Str)
    (h : rootIsConventional s root conv = true) :
    (if s.hasType conv then some conv else none) = root := by
  cases root with
  | none => simp_all [rootIsConventional]
  | some n =>
    simp only [rootIsConventional, Bool.and_eq_true, beq_iff_eq] at h
    simp [h.1, h.2]

/-- **C17 (structural round trip).** Building the definitions `print_schema` emits gives back
exactly the schema content: same types, fields, arguments, defaults, descriptions, deprecations,
directives, interfaces, members, enum values, OneOf, specifiedBy, roots — in the same order. -/
theorem build_schemaToDefs (s : Schema) (h : WFSchema s = true) :
    buildFromDefs (schemaToDefs s) = .ok s := by
  have hq : s.query.isSome = true := by
    simp only [WFSchema, Bool.and_eq_true] at h
    exact h.1.1.1.2
  unfold buildFromDefs
  rw [extendCore_schemaToDefs s h, collect_schemaToDefs]
  unfold coreResult
  rcases schemaDefOf_cases s hq with ⟨h0, hdesc, hroots⟩ | h1
  · rw [h0]
    simp only [Option.isSome_none, Bool.false_eq_true, ↓reduceIte]
    simp only [hasDefaultRoots, Bool.and_eq_true] at hroots
    have e1 := autopick_root s s.query _ hroots.1.1
    have e2 := autopick_root s s.mutation _ hroots.1.2
    have e3 := autopick_root s s.subscription _ hroots.2
    simp only [Schema.hasType, Schema.typeNames] at e1 e2 e3
    simp only [autopick, Schema.hasType, Schema.typeNames]
    cases s; simp_all
  · rw [h1]; simp

end Gql.Types
