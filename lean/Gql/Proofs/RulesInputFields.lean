import Gql.Proofs.RulesUnusedFrags
/-!
C12 — UniqueInputFieldNames: a rule with a stack of known-name maps (enter/leave `object_value`).
-/
namespace Gql.Validation.Rules
open Gql.Validation
variable {τ : Type}

/-- `enter_object_field` on the node object `n`, on the known-map -/
def ifStep (known : List (String × Nat)) (n : ATree) : List (String × Nat) × List RErr :=
  match n.kid "name" with
  | some nm => uniqueStep "UniqueInputFieldNamesRule" known nm
  | none => (known, [RErr.crash "UniqueInputFieldNamesRule"])

mutual
  /-- the run of UniqueInputFieldNames over a subtree, as a function of the known-map: the known-map afterwards
  and the errors reported -/
  def uifRunT : List (String × Nat) → ATree → List (String × Nat) × List RErr
    | k, .node i f v cs =>
      if i.kind == "object_value" then (k, (uifRunL [] cs).2)
      else if i.kind == "object_field" then
        ((uifRunL (ifStep k (.node i f v cs)).1 cs).1, (ifStep k (.node i f v cs)).2 ++ (uifRunL (ifStep k (.node i f v cs)).1 cs).2)
      else uifRunL k cs
  def uifRunL : List (String × Nat) → List ATree → List (String × Nat) × List RErr
    | k, [] => (k, [])
    | k, t :: ts => ((uifRunL (uifRunT k t).1 ts).1, (uifRunT k t).2 ++ (uifRunL (uifRunT k t).1 ts).2)
end

theorem uif_enter_ov (doc n : ATree) (s : RS) (ti : TI τ) (hfind : doc.find n.info.id = some n)
    (hk : n.info.kind = "object_value") :
    (uniqueInputFieldNames (τ := τ) doc).step s .enter n.info ti =
      (Action.idle, { s with stack := s.known :: s.stack, known := [] }, []) := by
  simp [uniqueInputFieldNames, withNode, hfind, hk]

theorem uif_enter_of (doc n : ATree) (s : RS) (ti : TI τ) (hfind : doc.find n.info.id = some n)
    (hk : ¬ n.info.kind = "object_value") :
    (uniqueInputFieldNames (τ := τ) doc).step s .enter n.info ti =
      (Action.idle, { s with known := (ifStep s.known n).1 }, (ifStep s.known n).2) := by
  simp only [uniqueInputFieldNames, withNode, hfind, ifStep]
  cases hnm : n.kid "name" <;> simp [hk]

theorem uif_leave (doc n : ATree) (s : RS) (ti : TI τ) (hfind : doc.find n.info.id = some n)
    (top : List (String × Nat)) (rest : List (List (String × Nat))) (hst : s.stack = top :: rest) :
    (uniqueInputFieldNames (τ := τ) doc).step s .leave n.info ti =
      (Action.idle, { s with known := top, stack := rest }, []) := by
  simp [uniqueInputFieldNames, withNode, hfind, hst]

theorem uif_trav (doc : ATree) (D : Driver τ) :
    (∀ t : ATree, (∀ n ∈ t.nodes, doc.find n.info.id = some n) → t.ids.Nodup →
      ∀ (ti : TI τ) (m : Member τ RS RErr), m.rule = uniqueInputFieldNames doc → m.skipping = .none →
        (Member.trav D ti m t.erase).rule = uniqueInputFieldNames doc ∧ (Member.trav D ti m t.erase).skipping = .none ∧
        (Member.trav D ti m t.erase).st = { m.st with known := (uifRunT m.st.known t).1 } ∧
        (Member.trav D ti m t.erase).errs = m.errs ++ (uifRunT m.st.known t).2) ∧
    (∀ ts : List ATree, (∀ n ∈ ATree.nodesList ts, doc.find n.info.id = some n) → (ATree.idsList ts).Nodup →
      ∀ (ti : TI τ) (m : Member τ RS RErr), m.rule = uniqueInputFieldNames doc → m.skipping = .none →
        (Member.travList D ti m (ATree.eraseList ts)).rule = uniqueInputFieldNames doc ∧
        (Member.travList D ti m (ATree.eraseList ts)).skipping = .none ∧
        (Member.travList D ti m (ATree.eraseList ts)).st = { m.st with known := (uifRunL m.st.known ts).1 } ∧
        (Member.travList D ti m (ATree.eraseList ts)).errs = m.errs ++ (uifRunL m.st.known ts).2) := by
  apply ATree.induct
  · intro i f v cs ih hfind hnd ti m hr hs
    simp only [ATree.ids, List.nodup_cons] at hnd
    simp only [ATree.nodes, List.mem_cons, forall_eq_or_imp] at hfind
    rw [ATree.erase, Member.trav, uifRunT]
    have hE : m.rule.hEnter i.kind = (i.kind == "object_value" || i.kind == "object_field") := by rw [hr]; rfl
    have hL : ∀ k, (uniqueInputFieldNames (τ := τ) doc).hLeave k = (k == "object_value") := fun _ => rfl
    have hf : doc.find i.id = some (.node i f v cs) := hfind.1
    by_cases hov : i.kind = "object_value"
    · have hst := uif_enter_ov (τ := τ) doc (.node i f v cs) m.st (D.enter ti i) hfind.1 hov
      simp only [ATree.info] at hst
      have hm1 : (Member.enter (D.enter ti i) i m).1 =
          { m with st := { m.st with stack := m.st.known :: m.st.stack, known := [] },
                   calls := m.calls ++ [⟨.enter, i, D.enter ti i⟩] } := by
        unfold Member.enter
        rw [hE, hr, hst]
        simp [hov, hs, Member.skipOf]
      simp only [hm1]
      obtain ⟨c1, c2, c3, c4⟩ := ih hfind.2 hnd.2 (D.enter ti i)
        { m with st := { m.st with stack := m.st.known :: m.st.stack, known := [] },
                 calls := m.calls ++ [⟨.enter, i, D.enter ti i⟩] } hr hs
      generalize Member.travList D (D.enter ti i) _ (ATree.eraseList cs) = m2 at c1 c2 c3 c4 ⊢
      have hlv := uif_leave (τ := τ) doc (.node i f v cs) m2.st (tiTravList D (D.enter ti i) (ATree.eraseList cs))
        hfind.1 m.st.known m.st.stack (by rw [c3])
      simp only [ATree.info] at hlv
      unfold Member.leave
      simp only [c2, c1, hL, hlv]
      simp [hov, c3, c4]
    · have hov' : (i.kind == "object_value") = false := by simpa using hov
      simp only [hov', Bool.false_eq_true, if_false]
      by_cases hof : i.kind = "object_field"
      · have hst := uif_enter_of (τ := τ) doc (.node i f v cs) m.st (D.enter ti i) hfind.1 hov
        simp only [ATree.info] at hst
        have hm1 : (Member.enter (D.enter ti i) i m).1 =
            { m with st := { m.st with known := (ifStep m.st.known (.node i f v cs)).1 },
                     calls := m.calls ++ [⟨.enter, i, D.enter ti i⟩],
                     errs := m.errs ++ (ifStep m.st.known (.node i f v cs)).2 } := by
          unfold Member.enter
          rw [hE, hr, hst]
          simp [hof, hs, Member.skipOf]
        simp only [hm1]
        obtain ⟨c1, c2, c3, c4⟩ := ih hfind.2 hnd.2 (D.enter ti i)
          { m with st := { m.st with known := (ifStep m.st.known (.node i f v cs)).1 },
                   calls := m.calls ++ [⟨.enter, i, D.enter ti i⟩],
                   errs := m.errs ++ (ifStep m.st.known (.node i f v cs)).2 } hr hs
        have hl := Member.leave_unhandled' (tiTravList D (D.enter ti i) (ATree.eraseList cs)) i _ c2
          (by rw [c1, hL]; exact hov')
        rw [hl]
        refine ⟨c1, c2, ?_, ?_⟩
        · rw [c3]; simp [hof]
        · rw [c4]; simp [hof, List.append_assoc]
      · have hof' : (i.kind == "object_field") = false := by simpa using hof
        have hm1 : Member.enter (D.enter ti i) i m = (m, []) := by
          unfold Member.enter
          simp [hE, hov', hof']
        rw [hm1]
        simp only [hof', Bool.false_eq_true, if_false]
        obtain ⟨c1, c2, c3, c4⟩ := ih hfind.2 hnd.2 (D.enter ti i) m hr hs
        have hl := Member.leave_unhandled' (tiTravList D (D.enter ti i) (ATree.eraseList cs)) i _ c2
          (by rw [c1, hL]; exact hov')
        rw [hl]
        exact ⟨c1, c2, c3, c4⟩
  · intro _ _ ti m hr hs
    simp [ATree.eraseList, Member.travList, uifRunL, hr, hs]
  · intro t ts iht ihts hfind hnd ti m hr hs
    simp only [ATree.idsList, List.nodup_append] at hnd
    simp only [ATree.nodesList, List.mem_append] at hfind
    rw [ATree.eraseList, Member.travList, uifRunL]
    obtain ⟨a1, a2, a3, a4⟩ := iht (fun n hn => hfind n (Or.inl hn)) hnd.1 ti m hr hs
    obtain ⟨b1, b2, b3, b4⟩ := ihts (fun n hn => hfind n (Or.inr hn)) hnd.2.1 (tiTrav D ti t.erase) _ a1 a2
    refine ⟨b1, b2, ?_, ?_⟩
    · rw [b3, a3]
    · rw [b4, a4, a3]; simp [List.append_assoc]

/-- the rule reports nothing iff the pure run `uifRunT` from the empty known-map produces no error -/
theorem uniqueInputFieldNames_iff_run (tbl : TITable) (L : Lookups τ) (doc : ATree) (hu : doc.uniqueIds) :
    validate tbl L none [(uniqueInputFieldNames doc, RS.init)] doc.erase = [] ↔ (uifRunT [] doc).2 = [] := by
  rw [validate_single_eq, List.map_eq_nil_iff]
  have h := (uif_trav doc (realDriver tbl L)).1 doc (fun n hn => ATree.find_of_mem.1 doc hu n hn) hu TI.init
    (Member.start (uniqueInputFieldNames doc) RS.init) rfl rfl
  rw [h.2.2.2]
  simp [Member.start, RS.init]

mutual
  /-- the object fields in the scope of the enclosing object value: the `object_field` nodes of the subtree that are
  not below a (deeper) `object_value` node -/
  def scopeFields : ATree → List ATree
    | .node i f v cs => if i.kind == "object_value" then [] else
        (if i.kind == "object_field" then [.node i f v cs] else []) ++ scopeFieldsList cs
  def scopeFieldsList : List ATree → List ATree
    | [] => []
    | t :: ts => scopeFields t ++ scopeFieldsList ts
end

def foldIf : List (String × Nat) → List ATree → List (String × Nat) × List RErr
  | k, [] => (k, [])
  | k, n :: ns => ((foldIf (ifStep k n).1 ns).1, (ifStep k n).2 ++ (foldIf (ifStep k n).1 ns).2)

theorem foldIf_append (k : List (String × Nat)) (a b : List ATree) :
    foldIf k (a ++ b) = ((foldIf (foldIf k a).1 b).1, (foldIf k a).2 ++ (foldIf (foldIf k a).1 b).2) := by
  induction a generalizing k with
  | nil => simp [foldIf]
  | cons x xs ih => simp [foldIf, ih, List.append_assoc]

/-- every object value among `ns` is fine on its own -/
def InnerOk (ns : List ATree) : Prop :=
  ∀ ov ∈ ns, ov.kind = "object_value" → (foldIf [] (scopeFieldsList ov.children)).2 = []

theorem uifRunT_fold :
    (∀ t : ATree, ∀ k, (uifRunT k t).1 = (foldIf k (scopeFields t)).1 ∧
      ((uifRunT k t).2 = [] ↔ (foldIf k (scopeFields t)).2 = [] ∧ InnerOk t.nodes)) ∧
    (∀ ts : List ATree, ∀ k, (uifRunL k ts).1 = (foldIf k (scopeFieldsList ts)).1 ∧
      ((uifRunL k ts).2 = [] ↔ (foldIf k (scopeFieldsList ts)).2 = [] ∧ InnerOk (ATree.nodesList ts))) := by
  apply ATree.induct
  · intro i f v cs ih k
    rw [uifRunT, scopeFields, ATree.nodes]
    by_cases hov : i.kind = "object_value"
    · simp [hov, foldIf, InnerOk, ATree.kind, ATree.info, ATree.children, (ih []).2]
    · have hov' : (i.kind == "object_value") = false := by simpa using hov
      simp only [hov', Bool.false_eq_true, if_false]
      by_cases hof : i.kind = "object_field"
      · simp only [hof, beq_self_eq_true, if_true, List.singleton_append, foldIf]
        refine ⟨(ih _).1, ?_⟩
        rw [List.append_eq_nil_iff, List.append_eq_nil_iff, (ih _).2]
        simp [InnerOk, ATree.kind, ATree.info, hov, and_assoc]
      · have hof' : (i.kind == "object_field") = false := by simpa using hof
        simp only [hof', Bool.false_eq_true, if_false, List.nil_append]
        refine ⟨(ih _).1, ?_⟩
        rw [(ih _).2]
        simp [InnerOk, ATree.kind, ATree.info, hov]
  · intro k
    simp [uifRunL, scopeFieldsList, foldIf, ATree.nodesList, InnerOk]
  · intro t ts iht ihts k
    rw [uifRunL, scopeFieldsList, ATree.nodesList, foldIf_append]
    simp only
    rw [(iht k).1] 
    refine ⟨(ihts _).1, ?_⟩
    rw [List.append_eq_nil_iff, List.append_eq_nil_iff, (iht k).2, (ihts _).2]
    simp only [InnerOk, List.mem_append]
    constructor
    · rintro ⟨⟨a, b⟩, c, d⟩
      exact ⟨⟨a, c⟩, fun ov h => h.elim (b ov) (d ov)⟩
    · rintro ⟨⟨a, c⟩, h⟩
      exact ⟨⟨a, fun ov hov => h ov (Or.inl hov)⟩, c, fun ov hov => h ov (Or.inr hov)⟩

/-- the names of the fields `fs`, in order -/
def fieldNames (fs : List ATree) : List String := fs.filterMap (fun fld => (fld.kid "name").map (·.value))

theorem foldIf_errs_nil (ns : List ATree) : ∀ k : List (String × Nat),
    (foldIf k ns).2 = [] ↔
      (∀ n ∈ ns, (n.kid "name").isSome = true) ∧
      (fieldNames ns).Nodup ∧ ∀ x ∈ fieldNames ns, lookupName x k = none := by
  induction ns with
  | nil => intro k; simp [foldIf, fieldNames]
  | cons n ns ih =>
    intro k
    rw [foldIf]
    simp only [List.append_eq_nil_iff]
    rw [ih]
    cases hnm : n.kid "name" with
    | none =>
      have h1 : (ifStep k n).2 ≠ [] := by simp [ifStep, hnm]
      constructor
      · rintro ⟨h, _⟩; exact absurd h h1
      · rintro ⟨h, _⟩
        have := h n (List.mem_cons_self)
        rw [hnm] at this; simp at this
    | some nm =>
      have h2 : fieldNames (n :: ns) = nm.value :: fieldNames ns := by simp [fieldNames, hnm]
      have h3 : (∀ n' ∈ n :: ns, (n'.kid "name").isSome = true) ↔ (∀ n' ∈ ns, (n'.kid "name").isSome = true) := by
        simp [hnm]
      rw [h2, h3]
      cases hl : lookupName nm.value k with
      | some prev =>
        have h1 : (ifStep k n).2 ≠ [] := by simp [ifStep, hnm, uniqueStep, hl]
        constructor
        · rintro ⟨h, _⟩; exact absurd h h1
        · rintro ⟨_, _, h⟩
          have := h nm.value (List.mem_cons_self)
          rw [hl] at this; simp at this
      | none =>
        have h1 : ifStep k n = (k ++ [(nm.value, nm.id)], []) := by
          simp [ifStep, hnm, uniqueStep, hl]
        rw [h1]
        simp only [List.nodup_cons, List.mem_cons, forall_eq_or_imp, true_and, lookupName_snoc]
        constructor
        · rintro ⟨hall, hnd, h⟩
          refine ⟨hall, ⟨?_, hnd⟩, hl, fun x hx => (h x hx).1⟩
          intro hmem
          exact (h _ hmem).2 rfl
        · rintro ⟨hall, ⟨hni, hnd⟩, _, h⟩
          refine ⟨hall, hnd, fun x hx => ⟨h x hx, ?_⟩⟩
          intro he
          exact hni (he ▸ hx)

/-- the fields `fs` all have a name and these names are pairwise distinct -/
def FieldsOk (fs : List ATree) : Prop :=
  (∀ fld ∈ fs, (fld.kid "name").isSome = true) ∧ (fieldNames fs).Nodup

theorem foldIf_nil_iff (fs : List ATree) : (foldIf [] fs).2 = [] ↔ FieldsOk fs := by
  rw [foldIf_errs_nil]
  unfold FieldsOk
  constructor
  · exact fun h => ⟨h.1, h.2.1⟩
  · exact fun h => ⟨h.1, h.2, fun x _ => rfl⟩

namespace Spec
/-- "Input object fields are unique" (spec §5.6.3): in every object value the fields in its scope have names and
these are pairwise distinct; likewise for object fields outside any object value (none in a parsed document). -/
def uniqueInputFieldNames (doc : ATree) : Prop :=
  (∀ ov ∈ doc.nodes, ov.kind = "object_value" → FieldsOk (scopeFieldsList ov.children)) ∧ FieldsOk (scopeFields doc)
end Spec

theorem uniqueInputFieldNames_iff (tbl : TITable) (L : Lookups τ) (doc : ATree) (hu : doc.uniqueIds) :
    validate tbl L none [(uniqueInputFieldNames doc, RS.init)] doc.erase = [] ↔ Spec.uniqueInputFieldNames doc := by
  rw [uniqueInputFieldNames_iff_run tbl L doc hu, (uifRunT_fold.1 doc []).2, foldIf_nil_iff]
  unfold Spec.uniqueInputFieldNames InnerOk
  simp only [foldIf_nil_iff]
  exact And.comm

end Gql.Validation.Rules
