import Gql.Proofs.LexerString
import Gql.Proofs.BlockValue
/-!
# `read_block_string` against the BlockString production and `BlockStringValue()`
-/
open Gql Gql.Text
namespace Gql.Text
open Gql.Spec.Lex

theorem readBlockStringLoop_unfold (body : List Nat) (st : LexState) (start p cs ls : Nat)
    (cl : List Nat) (bl : List (List Nat)) (h : p < body.length) :
    readBlockStringLoop body st start p cs ls cl bl =
      (if body[p] = 34 ∧ slice body (p + 1) (p + 3) = [34, 34] then
        pure (mkToken st .blockString start (p + 3)
          (some (joinLines (dedentBlockStringLines (bl ++ [cl ++ slice body cs p])))),
          { line := st.line + ((bl ++ [cl ++ slice body cs p]).length - 1), lineStart := ls })
      else if body[p] = 92 ∧ slice body (p + 1) (p + 4) = [34, 34, 34] then
        readBlockStringLoop body st start (p + 4) (p + 1) ls (cl ++ slice body cs p) bl
      else if body[p] = 13 ∨ body[p] = 10 then
        readBlockStringLoop body st start
          (if body[p] = 13 ∧ charAt body (p + 1) = some 10 then p + 2 else p + 1)
          (if body[p] = 13 ∧ charAt body (p + 1) = some 10 then p + 2 else p + 1)
          (if body[p] = 13 ∧ charAt body (p + 1) = some 10 then p + 2 else p + 1) []
          (bl ++ [cl ++ slice body cs p])
      else if isScalar body[p] then readBlockStringLoop body st start (p + 1) cs ls cl bl
      else if isSupplementary body p then readBlockStringLoop body st start (p + 2) cs ls cl bl
      else .err ⟨.invalidCharInString, p⟩) := by
  rw [readBlockStringLoop]
  simp only [h, dite_true]
  rw [index_ok _ _ h, Out.bind_ok]

theorem readBlockStringLoop_end (body : List Nat) (st : LexState) (start p cs ls : Nat)
    (cl : List Nat) (bl : List (List Nat)) (h : body.length ≤ p) :
    readBlockStringLoop body st start p cs ls cl bl = .err ⟨.unterminatedString, p⟩ := by
  rw [readBlockStringLoop]
  have : ¬ p < body.length := by omega
  simp only [this, dite_false]

theorem take3_iff (body : List Nat) (p : Nat) (h : p < body.length) :
    (body[p] = 34 ∧ slice body (p + 1) (p + 3) = [34, 34]) ↔ (body.drop p).take 3 = [34, 34, 34] := by
  rw [drop_cons _ _ h, slice_eq_take_drop body (p + 1) 2]
  rw [show (3 : Nat) = 2 + 1 from rfl, List.take_succ_cons]
  constructor
  · rintro ⟨h1, h2⟩; rw [h1, h2]
  · intro hh; have := List.cons.inj hh; exact ⟨this.1, this.2⟩

theorem take4_iff (body : List Nat) (p : Nat) (h : p < body.length) :
    (body[p] = 92 ∧ slice body (p + 1) (p + 4) = [34, 34, 34]) ↔ (body.drop p).take 4 = [92, 34, 34, 34] := by
  rw [drop_cons _ _ h, slice_eq_take_drop body (p + 1) 3]
  rw [show (4 : Nat) = 3 + 1 from rfl, List.take_succ_cons]
  constructor
  · rintro ⟨h1, h2⟩; rw [h1, h2]
  · intro hh; have := List.cons.inj hh; exact ⟨this.1, this.2⟩

theorem blockRest_nil (fuel : Nat) : blockRest fuel [] = none := by
  cases fuel <;> simp [blockRest, sourceCharLen]

theorem splitLinesAux_plain (cur : List Nat) (c : Nat) (w : List Nat) (h10 : c ≠ 10) (h13 : c ≠ 13) :
    splitLinesAux cur (c :: w) = splitLinesAux (cur ++ [c]) w := by
  rw [splitLinesAux]
  · intro r hr; exact absurd hr h13
  · intro hr; exact absurd hr h13
  · intro hr; exact absurd hr h10

theorem splitLinesAux_lf (cur w : List Nat) : splitLinesAux cur (10 :: w) = cur :: splitLinesAux [] w := by
  rw [splitLinesAux]

theorem splitLinesAux_crlf (cur w : List Nat) : splitLinesAux cur (13 :: 10 :: w) = cur :: splitLinesAux [] w := by
  rw [splitLinesAux]

theorem splitLinesAux_cr (cur w : List Nat) (h : w.head? ≠ some 10) :
    splitLinesAux cur (13 :: w) = cur :: splitLinesAux [] w := by
  rw [splitLinesAux]
  intro r hr
  subst hr; simp at h

/-- Prepend one `BlockStringCharacter` (length `n`, raw value `v`). -/
def consB (n : Nat) (v : List Nat) : Option (Nat × List Nat) → Option (Nat × List Nat)
  | none => none
  | some (m, w) => some (m + n, v ++ w)

theorem blockRest_succ (f : Nat) (s : List Nat) :
    blockRest (f + 1) s =
      if s.take 3 = [34, 34, 34] then some (3, [])
      else if s.take 4 = [92, 34, 34, 34] then consB 4 [34, 34, 34] (blockRest f (s.drop 4))
      else match sourceCharLen s with
        | some n => consB n (s.take n) (blockRest f (s.drop n))
        | none => none := by
  rw [blockRest]
  split
  · rfl
  · split
    · cases blockRest f (s.drop 4) with
      | none => rfl
      | some mw => rfl
    · cases sourceCharLen s with
      | none => rfl
      | some n =>
        simp only []
        cases blockRest f (s.drop n) with
        | none => rfl
        | some mw => rfl

theorem consB_consB (a b : Nat) (u v : List Nat) (m : Option (Nat × List Nat)) :
    consB a u (consB b v m) = consB (b + a) (u ++ v) m := by
  cases m with
  | none => rfl
  | some mw => simp [consB, Nat.add_assoc]

def BlkAgree (body : List Nat) (st : LexState) (start p cs ls : Nat) (cl : List Nat)
    (bl : List (List Nat)) (m : Option (Nat × List Nat)) : Prop :=
  match m with
  | some (n, raw) => ∃ st', readBlockStringLoop body st start p cs ls cl bl =
      .ok (mkToken st .blockString start (p + n)
        (some (joinLines (dedentBlockStringLines (bl ++ splitLinesAux (cl ++ slice body cs p) raw)))), st')
  | none => ∃ e, readBlockStringLoop body st start p cs ls cl bl = .err e

theorem BlkAgree.step (body : List Nat) (st : LexState) (start p p' cs cs' ls ls' : Nat)
    (cl cl' : List Nat) (bl bl' : List (List Nat)) (k : Nat) (v : List Nat)
    (m' : Option (Nat × List Nat))
    (hloop : readBlockStringLoop body st start p cs ls cl bl =
      readBlockStringLoop body st start p' cs' ls' cl' bl')
    (hp : p' = p + k)
    (hlines : ∀ m w, m' = some (m, w) →
      bl' ++ splitLinesAux (cl' ++ slice body cs' p') w = bl ++ splitLinesAux (cl ++ slice body cs p) (v ++ w))
    (hI : BlkAgree body st start p' cs' ls' cl' bl' m') :
    BlkAgree body st start p cs ls cl bl (consB k v m') := by
  cases hm : m' with
  | none =>
    rw [hm] at hI
    obtain ⟨e, he⟩ := hI
    exact ⟨e, by rw [hloop, he]⟩
  | some mw =>
    obtain ⟨m, w⟩ := mw
    rw [hm] at hI
    obtain ⟨st', hst⟩ := hI
    refine ⟨st', ?_⟩
    rw [hloop, hst, hlines m w hm, hp, Nat.add_assoc, Nat.add_comm k m]

/-- If the raw value starts with LF then so does the text. -/
theorem blockRest_head (fuel : Nat) (s : List Nat) (m : Nat) (w : List Nat)
    (h : blockRest fuel s = some (m, w)) (hw : w.head? = some 10) : s.head? = some 10 := by
  cases fuel with
  | zero => simp [blockRest] at h
  | succ f =>
    rw [blockRest_succ] at h
    split at h
    · simp at h; rw [h.2] at hw; simp at hw
    · split at h
      · cases hr : blockRest f (s.drop 4) with
        | none => rw [hr] at h; simp [consB] at h
        | some mw => rw [hr] at h; simp [consB] at h; rw [← h.2] at hw; simp at hw
      · cases hn : sourceCharLen s with
        | none => rw [hn] at h; simp at h
        | some n =>
          rw [hn] at h; simp only [] at h
          cases hr : blockRest f (s.drop n) with
          | none => rw [hr] at h; simp [consB] at h
          | some mw =>
            rw [hr] at h; simp [consB] at h
            rw [← h.2] at hw
            cases s with
            | nil => simp [sourceCharLen] at hn
            | cons c r =>
              have hn0 : 0 < n := by
                unfold sourceCharLen at hn
                repeat' split at hn
                all_goals (simp at hn; try omega)
              obtain ⟨n', rfl⟩ : ∃ n', n = n' + 1 := ⟨n - 1, by omega⟩
              simpa using hw

theorem slice_of_take {body : List Nat} {a n : Nat} {l : List Nat} (h : (body.drop a).take n = l) :
    slice body a (a + n) = l := by rw [slice_eq_take_drop]; exact h

theorem readBlockStringLoop_agree (body : List Nat) (st : LexState) (start : Nat) :
    ∀ (k p fuel cs ls : Nat) (cl : List Nat) (bl : List (List Nat)),
      body.length - p ≤ k → body.length - p ≤ fuel → cs ≤ p →
      BlkAgree body st start p cs ls cl bl (blockRest fuel (body.drop p)) := by
  intro k
  induction k with
  | zero =>
    intro p fuel cs ls cl bl hk hf hcs
    rw [drop_nil _ _ (by omega), blockRest_nil]
    exact ⟨_, readBlockStringLoop_end body st start p cs ls cl bl (by omega)⟩
  | succ k ih =>
    intro p fuel cs ls cl bl hk hf hcs
    by_cases hlt : p < body.length
    · obtain ⟨f, rfl⟩ : ∃ f, fuel = f + 1 := ⟨fuel - 1, by omega⟩
      have hdrop := drop_cons _ _ hlt
      have hU := readBlockStringLoop_unfold body st start p cs ls cl bl hlt
      rw [blockRest_succ]
      by_cases h3 : (body.drop p).take 3 = [34, 34, 34]
      · rw [if_pos h3]
        rw [if_pos ((take3_iff body p hlt).mpr h3)] at hU
        show ∃ st', readBlockStringLoop body st start p cs ls cl bl = _
        refine ⟨{ line := st.line + ((bl ++ [cl ++ slice body cs p]).length - 1), lineStart := ls }, ?_⟩
        rw [hU]
        simp only [Out.pure_eq, splitLinesAux]
      rw [if_neg h3]
      rw [if_neg (fun h => h3 ((take3_iff body p hlt).mp h))] at hU
      by_cases h4 : (body.drop p).take 4 = [92, 34, 34, 34]
      · rw [if_pos h4]
        have h4' := (take4_iff body p hlt).mpr h4
        rw [if_pos h4'] at hU
        simp only [List.drop_drop]
        refine BlkAgree.step body st start p (p + 4) cs (p + 1) ls ls cl (cl ++ slice body cs p) bl bl 4
          [34, 34, 34] _ hU rfl ?_ (ih (p + 4) f (p + 1) ls _ bl (by omega) (by omega) (by omega))
        intro m w _
        rw [h4'.2]
        rw [List.append_assoc, List.cons_append, List.cons_append, List.cons_append, List.nil_append]
        rw [splitLinesAux_plain _ 34 _ (by decide) (by decide), splitLinesAux_plain _ 34 _ (by decide) (by decide),
          splitLinesAux_plain _ 34 _ (by decide) (by decide)]
        simp
      rw [if_neg h4]
      rw [if_neg (fun h => h4 ((take4_iff body p hlt).mp h))] at hU
      rw [sourceCharLen_drop body p hlt]
      by_cases hnl : body[p] = 13 ∨ body[p] = 10
      · rw [if_pos hnl] at hU
        have hsc : isScalar body[p] = true := by
          rcases hnl with h | h <;> rw [h] <;> rfl
        rw [if_pos hsc]
        simp only [List.drop_drop, take_drop_one body p hlt]
        by_cases hcrlf : body[p] = 13 ∧ charAt body (p + 1) = some 10
        · -- CR LF: two source characters, one line terminator
          simp only [hcrlf, and_self, if_true] at hU
          have h1 := charAt_some_lt hcrlf.2
          have hc1 : body[p + 1] = 10 := by
            have : charAt body (p + 1) = some body[p + 1] := by simp [charAt, h1]
            rw [this] at hcrlf; simpa using hcrlf.2
          obtain ⟨f', rfl⟩ : ∃ f', f = f' + 1 := ⟨f - 1, by omega⟩
          have hnext : blockRest (f' + 1) (body.drop (p + 1)) =
              consB 1 [10] (blockRest f' (body.drop (p + 2))) := by
            rw [blockRest_succ, drop_cons _ _ h1, hc1]
            rw [if_neg (by simp), if_neg (by simp)]
            have : sourceCharLen (10 :: body.drop (p + 1 + 1)) = some 1 := by
              simp [sourceCharLen, Scalar]
            rw [this]
            simp only [List.drop_succ_cons, List.drop_zero, List.take_succ_cons, List.take_zero]
          rw [hnext, consB_consB, hcrlf.1]
          refine BlkAgree.step body st start p (p + 2) cs (p + 2) ls (p + 2) cl [] bl
            (bl ++ [cl ++ slice body cs p]) 2 [13, 10] _ hU rfl ?_
            (ih (p + 2) f' (p + 2) (p + 2) [] _ (by omega) (by omega) (by omega))
          intro m w _
          rw [slice_self', List.append_nil, List.cons_append, List.cons_append, List.nil_append,
            splitLinesAux_crlf, List.append_assoc]
          rfl
        · simp only [hcrlf, if_false] at hU
          refine BlkAgree.step body st start p (p + 1) cs (p + 1) ls (p + 1) cl [] bl
            (bl ++ [cl ++ slice body cs p]) 1 [body[p]] _ hU rfl ?_
            (ih (p + 1) f (p + 1) (p + 1) [] _ (by omega) (by omega) (by omega))
          intro m w hm
          rw [slice_self', List.append_nil, List.cons_append, List.nil_append, List.append_assoc]
          rcases hnl with h13 | h10
          · rw [h13]
            have hw : w.head? ≠ some 10 := by
              intro hw
              have hh := blockRest_head f _ m w hm hw
              apply hcrlf
              refine ⟨h13, ?_⟩
              rw [charAt_eq_head]; exact hh
            rw [splitLinesAux_cr _ _ hw]; rfl
          · rw [h10, splitLinesAux_lf]; rfl
      rw [if_neg hnl] at hU
      by_cases hs : isScalar body[p] = true
      · rw [if_pos hs] at hU ⊢
        simp only [List.drop_drop, take_drop_one body p hlt]
        refine BlkAgree.step body st start p (p + 1) cs cs ls ls cl cl bl bl 1 [body[p]] _ hU rfl ?_
          (ih (p + 1) f cs ls cl bl (by omega) (by omega) (by omega))
        intro m w _
        rw [slice_snoc' body cs p hcs hlt, List.cons_append, List.nil_append,
          splitLinesAux_plain _ _ _ (by omega) (by omega), List.append_assoc]
      rw [if_neg hs] at hU ⊢
      by_cases hsup : isSupplementary body p = true
      · rw [if_pos hsup] at hU ⊢
        have h1 := isSupplementary_lt _ _ hsup
        obtain ⟨d, rest, hd, hl, ht⟩ := (isSupplementary_iff body p hlt).mp hsup
        have hd1 : body[p + 1] = d := by
          have := drop_cons _ _ h1; rw [hd] at this; exact (List.cons.inj this).1.symm
        simp only [List.drop_drop, take_drop_two body p h1]
        refine BlkAgree.step body st start p (p + 2) cs cs ls ls cl cl bl bl 2 [body[p], body[p + 1]] _ hU rfl ?_
          (ih (p + 2) f cs ls cl bl (by omega) (by omega) (by omega))
        intro m w _
        unfold LeadSurrogate at hl; unfold TrailSurrogate at ht
        rw [slice_snoc2' body cs p hcs h1, List.cons_append, List.cons_append, List.nil_append,
          splitLinesAux_plain _ _ _ (by omega) (by omega),
          splitLinesAux_plain _ _ _ (by omega) (by omega)]
        simp
      · rw [if_neg hsup] at hU ⊢
        exact ⟨_, hU⟩
    · rw [drop_nil _ _ (by omega), blockRest_nil]
      exact ⟨_, readBlockStringLoop_end body st start p cs ls cl bl (by omega)⟩

theorem joinLines_eq (ls : List (List Nat)) : joinLines ls = joinLF ls := by
  induction ls with
  | nil => rfl
  | cons a r ih =>
    cases r with
    | nil => rfl
    | cons b r' => simp only [joinLines, joinLF]; rw [ih]

/-- BlockString: `read_block_string` returns exactly the grammar's block string token with the
value `BlockStringValue(raw)`, on every text. -/
theorem blockClassOK (body : List Nat) : BlockClassOK body := by
  intro st pos hlt hq htr
  have h3 : (body.drop pos).take 3 = [34, 34, 34] := (take3_iff body pos hlt).mp ⟨hq, htr⟩
  have hsplit : body.drop pos = [34, 34, 34] ++ body.drop (pos + 3) := by
    have := List.take_append_drop 3 (body.drop pos)
    rw [h3, List.drop_drop] at this
    exact this.symm
  rw [hsplit]
  simp only [List.cons_append, List.nil_append, blockString?]
  have hag := readBlockStringLoop_agree body st pos (body.length - (pos + 3)) (pos + 3)
    (body.drop (pos + 3)).length (pos + 3) st.lineStart [] [] (Nat.le_refl _) (by simp) (Nat.le_refl _)
  unfold readBlockString
  cases hbr : blockRest (body.drop (pos + 3)).length (body.drop (pos + 3)) with
  | none =>
    rw [hbr] at hag
    obtain ⟨e, he⟩ := hag
    rw [he]; rfl
  | some nraw =>
    obtain ⟨n, raw⟩ := nraw
    rw [hbr] at hag
    obtain ⟨st', hst⟩ := hag
    rw [hst]
    refine ⟨_, rfl, ?_, by simp, by simp [mkToken], by simp [mkToken]⟩
    simp only [toSpec, mkToken, kindOf, slice_self', List.nil_append, blockStringValue, splitLines,
      dedent_eq_spec, joinLines_eq]
    congr 1; omega

/-- The lexer against the lexical grammar, for every text and every token class. -/
theorem lexAll_agree_all (body : List Nat) : LexAgree (lexAll body) (specTokenize body) :=
  lexAll_agree body (stringClassOK body) (blockClassOK body)

end Gql.Text
