import Gql.Proofs.Assemble
/-!
Order independence of assembling, for arbitrarily many entries.

`SameValue a b` — "the same JSON value when objects are read as unordered maps" — is stated
extensionally: every path resolves in `a` iff it resolves in `b`, to a value of the same kind
(same scalar, object, or list of the same length).
-/
namespace Gql.Async

inductive Tag where
  | null | bool (b : Bool) | int (i : Int) | str (s : List Nat) | obj | arr (n : Nat)
  deriving DecidableEq, Repr

def tag : J → Tag
  | .null => .null
  | .bool b => .bool b
  | .int i => .int i
  | .str s => .str s
  | .obj _ => .obj
  | .arr xs => .arr xs.length

/-- what a path denotes in a value -/
def den : Path → J → Option Tag
  | [], j => some (tag j)
  | .key k :: q, .obj kvs =>
    match lookup k kvs with
    | some c => den q c
    | none => none
  | .idx i :: q, .arr xs =>
    match xs[i]? with
    | some c => den q c
    | none => none
  | _ :: _, _ => none

def SameValue (a b : J) : Prop := ∀ q, den q a = den q b

theorem SameValue.refl (a : J) : SameValue a a := fun _ => rfl
theorem SameValue.symm {a b : J} (h : SameValue a b) : SameValue b a := fun q => (h q).symm
theorem SameValue.trans {a b c : J} (h1 : SameValue a b) (h2 : SameValue b c) : SameValue a c :=
  fun q => (h1 q).trans (h2 q)

theorem den_cons (seg : Seg) (q : Path) (j : J) :
    den (seg :: q) j = (childAt seg j).bind (den q) := by
  cases seg with
  | key k =>
    cases j <;> simp [den, childAt]
    rename_i kvs
    cases lookup k kvs <;> rfl
  | idx i =>
    cases j <;> simp [den, childAt]
    rename_i xs
    cases xs[i]? <;> rfl

/-- two values are the same iff they have the same kind at the root and the same children -/
theorem sameValue_iff (a b : J) :
    SameValue a b ↔ tag a = tag b ∧ ∀ seg,
      (childAt seg a = none ∧ childAt seg b = none) ∨
      (∃ c c', childAt seg a = some c ∧ childAt seg b = some c' ∧ SameValue c c') := by
  constructor
  · intro h
    refine ⟨by simpa [den] using h [], ?_⟩
    intro seg
    cases ha : childAt seg a with
    | none =>
      cases hb : childAt seg b with
      | none => exact Or.inl ⟨rfl, rfl⟩
      | some c' =>
        have := h [seg]
        simp [den_cons, ha, hb, den] at this
    | some c =>
      cases hb : childAt seg b with
      | none =>
        have := h [seg]
        simp [den_cons, ha, hb, den] at this
      | some c' =>
        refine Or.inr ⟨c, c', rfl, rfl, ?_⟩
        intro q
        have := h (seg :: q)
        simpa [den_cons, ha, hb] using this
  · rintro ⟨ht, hc⟩ q
    cases q with
    | nil => simp [den, ht]
    | cons seg q =>
      rcases hc seg with ⟨ha, hb⟩ | ⟨c, c', ha, hb, hs⟩
      · simp [den_cons, ha, hb]
      · simp [den_cons, ha, hb, hs q]

theorem childAt_setChild_ne {seg seg' : Seg} (j c' : J) (hne : seg ≠ seg') :
    childAt seg' (setChild seg c' j) = childAt seg' j := by
  cases seg with
  | key k =>
    cases j with
    | obj kvs =>
      cases seg' with
      | key k2 =>
        have : k ≠ k2 := fun e => hne (by rw [e])
        simp [childAt, setChild, lookup_setKey_other k k2 c' kvs this]
      | idx i => simp [childAt, setChild]
    | _ => simp [setChild]
  | idx i =>
    cases j with
    | arr xs =>
      cases seg' with
      | idx i2 =>
        have : i ≠ i2 := fun e => hne (by rw [e])
        simp [childAt, setChild, this]
      | key k => simp [childAt, setChild]
    | _ => simp [setChild]

theorem tag_setChild (seg : Seg) (c j : J) : tag (setChild seg c j) = tag j := by
  cases seg <;> cases j <;> simp [setChild, tag]

/-- replacing a child by an equivalent child, in equivalent parents, gives equivalent values -/
theorem sameValue_setChild {a b c c' ca cb : J} {seg : Seg} (hab : SameValue a b)
    (ha : childAt seg a = some ca) (hb : childAt seg b = some cb) (hc : SameValue c c') :
    SameValue (setChild seg c a) (setChild seg c' b) := by
  rw [sameValue_iff] at hab ⊢
  refine ⟨by rw [tag_setChild, tag_setChild]; exact hab.1, ?_⟩
  intro seg'
  by_cases hs : seg = seg'
  · subst hs
    exact Or.inr ⟨c, c', childAt_setChild ha, childAt_setChild hb, hc⟩
  · rw [childAt_setChild_ne a c hs, childAt_setChild_ne b c' hs]
    exact hab.2 seg'

/-- an update function that maps equivalent inputs to equivalent outputs (and succeeds on both) -/
def Respects (f g : J → Except Fail J) : Prop :=
  ∀ a b a', SameValue a b → f a = .ok a' → ∃ b', g b = .ok b' ∧ SameValue a' b'

/-- `updateAt` is a congruence for `SameValue` (in the value and in the update function). -/
theorem updateAt_congr (f g : J → Except Fail J) (hfg : Respects f g) :
    ∀ (p : Path) (a b a' : J), SameValue a b → updateAt f p a = .ok a' →
      ∃ b', updateAt g p b = .ok b' ∧ SameValue a' b'
  | [], a, b, a', hab, h => by
    simp only [updateAt] at h ⊢
    exact hfg a b a' hab h
  | seg :: p, a, b, a', hab, h => by
    obtain ⟨c, c2, hl, hu, rfl⟩ := updateAt_cons_child h
    rcases ((sameValue_iff a b).mp hab).2 seg with ⟨hn, _⟩ | ⟨c0, c', ha, hb, hs⟩
    · rw [hl] at hn; cases hn
    · rw [hl] at ha; cases ha
      obtain ⟨c2', hu', hs2⟩ := updateAt_congr f g hfg p c c' c2 hs hu
      exact ⟨setChild seg c2' b, updateAt_cons_intro hb hu', sameValue_setChild hab hl hb hs2⟩

/-! ### the two update functions of the format respect `SameValue` -/

theorem tag_obj_inv {b : J} (h : Tag.obj = tag b) : ∃ kvs, b = .obj kvs := by
  cases b <;> simp [tag] at h
  exact ⟨_, rfl⟩

theorem tag_arr_inv {b : J} {n : Nat} (h : Tag.arr n = tag b) : ∃ ys, b = .arr ys ∧ ys.length = n := by
  cases b <;> simp [tag] at h
  exact ⟨_, rfl, h.symm⟩

theorem mergeInto_respects (add : List (List Nat × J)) :
    Respects (mergeInto add) (mergeInto add) := by
  intro a b a' hab h
  cases a with
  | obj kvs =>
    simp only [mergeInto] at h
    split at h
    · rename_i r hm
      cases h
      obtain ⟨rfl, hfresh, hnd⟩ := mergeKeys_ok add kvs _ hm
      have hiff := (sameValue_iff _ _).mp hab
      obtain ⟨kvs', rfl⟩ := tag_obj_inv (by simpa [tag] using hiff.1)
      have hfresh' : ∀ kv ∈ add, lookup kv.1 kvs' = none := by
        intro kv hkv
        rcases hiff.2 (.key kv.1) with ⟨_, hb⟩ | ⟨c, c', ha, _, _⟩
        · simpa [childAt] using hb
        · simp [childAt, hfresh kv hkv] at ha
      refine ⟨.obj (kvs' ++ add), by simp [mergeInto, mergeKeys_succeeds add kvs' hfresh' hnd], ?_⟩
      rw [sameValue_iff]
      refine ⟨rfl, ?_⟩
      intro seg
      cases seg with
      | idx i => exact Or.inl ⟨rfl, rfl⟩
      | key k =>
        simp only [childAt]
        rcases hiff.2 (.key k) with ⟨ha, hb⟩ | ⟨c, c', ha, hb, hs⟩
        · simp only [childAt] at ha hb
          rw [lookup_append_none k kvs add ha, lookup_append_none k kvs' add hb]
          cases hl : lookup k add with
          | none => exact Or.inl ⟨rfl, rfl⟩
          | some v => exact Or.inr ⟨v, v, rfl, rfl, SameValue.refl v⟩
        · simp only [childAt] at ha hb
          rw [lookup_append_some k kvs add c ha, lookup_append_some k kvs' add c' hb]
          exact Or.inr ⟨c, c', rfl, rfl, hs⟩
    · simp at h
  | _ => simp [mergeInto] at h

theorem appendInto_respects (items : List J) : Respects (appendInto items) (appendInto items) := by
  intro a b a' hab h
  cases a with
  | arr xs =>
    simp only [appendInto] at h
    cases h
    have hiff := (sameValue_iff _ _).mp hab
    obtain ⟨ys, rfl, hlen⟩ := tag_arr_inv (by simpa [tag] using hiff.1)
    refine ⟨.arr (ys ++ items), rfl, ?_⟩
    rw [sameValue_iff]
    refine ⟨by simp [tag, hlen], ?_⟩
    intro seg
    cases seg with
    | key k => exact Or.inl ⟨rfl, rfl⟩
    | idx i =>
      simp only [childAt]
      by_cases hi : i < xs.length
      · have hi' : i < ys.length := by omega
        rw [List.getElem?_append_left hi, List.getElem?_append_left hi']
        rcases hiff.2 (.idx i) with ⟨ha, _⟩ | ⟨c, c', ha, hb, hs⟩
        · simp only [childAt] at ha
          have : xs[i]? ≠ none := by simp [hi]
          exact absurd ha this
        · exact Or.inr ⟨c, c', ha, hb, hs⟩
      · have hi' : ¬ i < ys.length := by omega
        rw [List.getElem?_append_right (by omega), List.getElem?_append_right (by omega), hlen]
        cases hl : items[i - xs.length]? with
        | none => exact Or.inl ⟨rfl, rfl⟩
        | some v => exact Or.inr ⟨v, v, rfl, rfl, SameValue.refl v⟩
  | _ => simp [appendInto] at h

theorem action_respects {pending : List (List Nat × Path)} {e : IncE} {p : Path}
    {f : J → Except Fail J} (h : e.action pending = some (p, f)) : Respects f f := by
  cases e with
  | defer id sub data errs =>
    cases data with
    | obj add =>
      simp only [IncE.action, Option.map_eq_some_iff] at h
      obtain ⟨p0, _, hpf⟩ := h
      cases hpf
      exact mergeInto_respects add
    | _ => simp [IncE.action] at h
  | stream id items errs =>
    simp only [IncE.action, Option.map_eq_some_iff] at h
    obtain ⟨p0, _, hpf⟩ := h
    cases hpf
    exact appendInto_respects items

/-- **`apply` is a congruence**: on data that is the same JSON value (and the same pending ids)
it succeeds on both or on neither, with results that are the same JSON value. -/
theorem apply_congr {st st' s : State} {e : IncE} (hd : SameValue st.data st'.data)
    (hp : st'.pending = st.pending) (h : apply st e = .ok s) :
    ∃ s', apply st' e = .ok s' ∧ SameValue s.data s'.data ∧ s'.pending = s.pending := by
  obtain ⟨p, f, ha, hu, hpend⟩ := apply_ok h
  obtain ⟨d', hu', hs⟩ := updateAt_congr f f (action_respects ha) p st.data st'.data s.data hd hu
  have ha' : e.action st'.pending = some (p, f) := by rw [hp]; exact ha
  obtain ⟨s', hs', hd', hp'⟩ := apply_of_action ha' hu'
  exact ⟨s', hs', by rw [hd']; exact hs, by rw [hp', hp, hpend]⟩

theorem applyAll_pending {st s : State} {es : List IncE} (h : applyAll st es = .ok s) :
    s.pending = st.pending := by
  induction es generalizing st with
  | nil => simp only [applyAll] at h; cases h; rfl
  | cons e rest ih =>
    simp only [applyAll] at h
    cases he : apply st e with
    | error f => simp [he] at h
    | ok s1 =>
      simp only [he] at h
      obtain ⟨_, _, _, _, hp1⟩ := apply_ok he
      rw [ih h, hp1]

theorem applyAll_congr {es : List IncE} : ∀ {st st' s : State}, SameValue st.data st'.data →
    st'.pending = st.pending → applyAll st es = .ok s →
    ∃ s', applyAll st' es = .ok s' ∧ SameValue s.data s'.data ∧ s'.pending = s.pending := by
  induction es with
  | nil =>
    intro st st' s hd hp h
    simp only [applyAll] at h; cases h
    exact ⟨st', rfl, hd, hp⟩
  | cons e rest ih =>
    intro st st' s hd hp h
    simp only [applyAll] at h
    cases he : apply st e with
    | error f => simp [he] at h
    | ok s1 =>
      simp only [he] at h
      obtain ⟨s1', he', hd1, hp1⟩ := apply_congr hd hp he
      obtain ⟨s', hs', hd', hp'⟩ := ih hd1 hp1 h
      exact ⟨s', by simp [applyAll, he', hs'], hd', hp'⟩

/-! ### two updates at related targets -/

/-- the two kinds of update the format has -/
inductive Act where
  | merge (add : List (List Nat × J))
  | append (items : List J)

def Act.fn : Act → J → Except Fail J
  | .merge add => mergeInto add
  | .append items => appendInto items

def seqE (f g : J → Except Fail J) : J → Except Fail J := fun c =>
  match f c with
  | .ok c1 => g c1
  | .error e => .error e

/-- two successive updates at the same path are one update with the composed function -/
theorem updateAt_fuse (f g : J → Except Fail J) :
    ∀ (p : Path) (j j1 : J), updateAt f p j = .ok j1 → updateAt g p j1 = updateAt (seqE f g) p j
  | [], j, j1, h => by
    simp only [updateAt] at h ⊢
    simp [seqE, h]
  | seg :: p, j, j1, h => by
    obtain ⟨c, c1, hl, hu, rfl⟩ := updateAt_cons_child h
    have ih := updateAt_fuse f g p c c1 hu
    cases seg with
    | key k =>
      cases j with
      | obj kvs =>
        simp only [childAt] at hl
        simp only [setChild, updateAt, lookup_setKey_same k c1 kvs c hl, hl, ih]
        cases updateAt (seqE f g) p c with
        | ok c2 => simp [setKey_setKey_same]
        | error e => rfl
      | _ => simp [childAt] at hl
    | idx i =>
      cases j with
      | arr xs =>
        simp only [childAt] at hl
        have hlt : i < xs.length := (List.getElem?_eq_some_iff.mp hl).1
        have : (xs.set i c1)[i]? = some c1 := by simp [hlt]
        simp only [setChild, updateAt, this, hl, ih]
        cases updateAt (seqE f g) p c with
        | ok c2 => simp [List.set_set]
        | error e => rfl
      | _ => simp [childAt] at hl

theorem updateAt_ok_at {h : J → Except Fail J} :
    ∀ {p : Path} {j j' : J}, updateAt h p j = .ok j' →
      ∃ t t', Spec.getAt p j = some t ∧ h t = .ok t'
  | [], j, j', hu => ⟨j, j', rfl, by simpa [updateAt] using hu⟩
  | seg :: p, j, j', hu => by
    obtain ⟨c, c', hl, hc, rfl⟩ := updateAt_cons_child hu
    obtain ⟨t, t', ht, hh⟩ := updateAt_ok_at hc
    refine ⟨t, t', ?_, hh⟩
    cases seg with
    | key k =>
      cases j with
      | obj kvs => simp only [childAt] at hl; simp [Spec.getAt, hl, ht]
      | _ => simp [childAt] at hl
    | idx i =>
      cases j with
      | arr xs => simp only [childAt] at hl; simp [Spec.getAt, hl, ht]
      | _ => simp [childAt] at hl

theorem getAt_append (p q : Path) (j : J) :
    Spec.getAt (p ++ q) j = (Spec.getAt p j).bind (Spec.getAt q) := by
  induction p generalizing j with
  | nil => simp [Spec.getAt]
  | cons seg p ih =>
    cases seg with
    | key k =>
      cases j <;> simp [Spec.getAt]
      rename_i kvs
      cases lookup k kvs <;> simp [ih]
    | idx i =>
      cases j <;> simp [Spec.getAt]
      rename_i xs
      cases xs[i]? <;> simp [ih]

theorem getAt_cons (seg : Seg) (r : Path) (t : J) :
    Spec.getAt (seg :: r) t = (childAt seg t).bind (Spec.getAt r) := by
  cases seg with
  | key k =>
    cases t <;> simp [Spec.getAt, childAt]
    rename_i kvs
    cases lookup k kvs <;> rfl
  | idx i =>
    cases t <;> simp [Spec.getAt, childAt]
    rename_i xs
    cases xs[i]? <;> rfl

theorem exists_child_of_updateAt {g : J → Except Fail J} {p r : Path} {seg : Seg} {j j' : J}
    (h : updateAt g (p ++ seg :: r) j = .ok j') :
    ∃ t, Spec.getAt p j = some t ∧ (childAt seg t).isSome := by
  obtain ⟨t, _, ht, _⟩ := updateAt_ok_at h
  rw [getAt_append] at ht
  cases hp : Spec.getAt p j with
  | none => simp [hp] at ht
  | some t0 =>
    refine ⟨t0, rfl, ?_⟩
    simp only [hp, Option.bind_some, getAt_cons] at ht
    cases hc : childAt seg t0 with
    | none => simp [hc] at ht
    | some c => rfl

/-- how two paths can lie to each other -/
theorem path_cases : ∀ (p q : Path),
    disjointPaths p q = true ∨ p = q ∨ (∃ seg r, q = p ++ seg :: r) ∨ (∃ seg r, p = q ++ seg :: r)
  | [], [] => Or.inr (Or.inl rfl)
  | [], b :: q => Or.inr (Or.inr (Or.inl ⟨b, q, rfl⟩))
  | a :: p, [] => Or.inr (Or.inr (Or.inr ⟨a, p, rfl⟩))
  | a :: p, b :: q => by
    by_cases hab : a = b
    · subst hab
      rcases path_cases p q with h | h | ⟨seg, r, h⟩ | ⟨seg, r, h⟩
      · exact Or.inl (by simp [disjointPaths, h])
      · exact Or.inr (Or.inl (by rw [h]))
      · exact Or.inr (Or.inr (Or.inl ⟨seg, r, by simp [h]⟩))
      · exact Or.inr (Or.inr (Or.inr ⟨seg, r, by simp [h]⟩))
    · exact Or.inl (by simp [disjointPaths, hab])

theorem act_preserves (a : Act) (seg : Seg) : Preserves a.fn seg := by
  cases a with
  | merge add =>
    cases seg with
    | key k => exact mergeInto_preserves add k
    | idx i =>
      intro j j1 c hf hc
      cases j <;> simp [childAt, Act.fn, mergeInto] at hc hf
  | append items =>
    cases seg with
    | idx i => exact appendInto_preserves items i
    | key k =>
      intro j j1 c hf hc
      cases j <;> simp [childAt, Act.fn, appendInto] at hc hf

theorem act_respects (a : Act) : Respects a.fn a.fn := by
  cases a with
  | merge add => exact mergeInto_respects add
  | append items => exact appendInto_respects items

/-- two merges into the same object commute up to `SameValue` -/
theorem merge_merge_respects (a b : List (List Nat × J)) :
    Respects (seqE (mergeInto a) (mergeInto b)) (seqE (mergeInto b) (mergeInto a)) := by
  intro x y x' hxy h
  simp only [seqE] at h
  cases h1 : mergeInto a x with
  | error e => simp [h1] at h
  | ok x1 =>
    simp only [h1] at h
    -- transport along x ~ y, then swap on y
    obtain ⟨y1, hy1, hs1⟩ := mergeInto_respects a x y x1 hxy h1
    obtain ⟨y12, hy12, hs12⟩ := mergeInto_respects b x1 y1 x' hs1 h
    cases y with
    | obj kvs =>
      simp only [mergeInto] at hy1
      split at hy1
      · rename_i r1 hm1
        cases hy1
        simp only [mergeInto] at hy12
        split at hy12
        · rename_i r12 hm12
          cases hy12
          obtain ⟨rfl, hfa, hnda⟩ := mergeKeys_ok a kvs r1 hm1
          obtain ⟨rfl, hfb, hndb⟩ := mergeKeys_ok b (kvs ++ a) r12 hm12
          have hfb_k : ∀ kv ∈ b, lookup kv.1 kvs = none := by
            intro kv hkv
            have := hfb kv hkv
            cases hl : lookup kv.1 kvs with
            | none => rfl
            | some w => rw [lookup_append_some kv.1 kvs a w hl] at this; cases this
          have hfb_a : ∀ kv ∈ b, lookup kv.1 a = none := by
            intro kv hkv
            have := hfb kv hkv
            rwa [lookup_append_none kv.1 kvs a (hfb_k kv hkv)] at this
          have hfa_kb : ∀ kv ∈ a, lookup kv.1 (kvs ++ b) = none := by
            intro kv hkv
            rw [lookup_append_none kv.1 kvs b (hfa kv hkv)]
            cases hl : lookup kv.1 b with
            | none => rfl
            | some w =>
              exfalso
              obtain ⟨kv', hin', he⟩ := exists_mem_of_lookup hl
              have hnone := hfb_a kv' hin'
              rw [he] at hnone
              exact lookup_ne_none_of_mem hkv hnone
          refine ⟨.obj (kvs ++ b ++ a), ?_, hs12.trans ?_⟩
          · simp [seqE, mergeInto, mergeKeys_succeeds b kvs hfb_k hndb,
              mergeKeys_succeeds a (kvs ++ b) hfa_kb hnda]
          · -- same lookups, hence the same value
            rw [sameValue_iff]
            refine ⟨rfl, ?_⟩
            intro seg
            cases seg with
            | idx i => exact Or.inl ⟨rfl, rfl⟩
            | key k =>
              simp only [childAt]
              have hlk : lookup k (kvs ++ a ++ b) = lookup k (kvs ++ b ++ a) := by
                cases hk : lookup k kvs with
                | some v =>
                  rw [List.append_assoc, List.append_assoc, lookup_append_some k kvs _ v hk,
                    lookup_append_some k kvs _ v hk]
                | none =>
                  rw [List.append_assoc, List.append_assoc, lookup_append_none k kvs _ hk,
                    lookup_append_none k kvs _ hk]
                  cases hka : lookup k a with
                  | some v =>
                    rw [lookup_append_some k a b v hka]
                    have hkb : lookup k b = none := by
                      cases hkb : lookup k b with
                      | none => rfl
                      | some w =>
                        exfalso
                        obtain ⟨kv', hin', he⟩ := exists_mem_of_lookup hkb
                        have := hfb_a kv' hin'
                        rw [he, hka] at this
                        cases this
                    rw [lookup_append_none k b a hkb, hka]
                  | none =>
                    rw [lookup_append_none k a b hka]
                    cases hkb : lookup k b with
                    | none => rw [lookup_append_none k b a hkb, hka]
                    | some w => rw [lookup_append_some k b a w hkb]
              rw [hlk]
              cases lookup k (kvs ++ b ++ a) with
              | none => exact Or.inl ⟨rfl, rfl⟩
              | some v => exact Or.inr ⟨v, v, rfl, rfl, SameValue.refl v⟩
        · simp at hy12
      · simp at hy1
    | _ => simp [mergeInto] at hy1

/-- **The swap lemma.**  `x` (update `a` at `p`) and then `e` (update `b` at `q`) succeed from `j`,
and `e` is also applicable to `j` directly; they are not two stream batches for the same list.
Then `x` is applicable after `e`, and the two results are the same JSON value. -/
theorem swap_updates (a b : Act) (p q : Path) (j j1 j12 j2 : J)
    (h1 : updateAt a.fn p j = .ok j1) (h2 : updateAt b.fn q j1 = .ok j12)
    (h3 : updateAt b.fn q j = .ok j2)
    (hns : ¬ (p = q ∧ (∃ xs, a = .append xs) ∧ (∃ ys, b = .append ys))) :
    ∃ j21, updateAt a.fn p j2 = .ok j21 ∧ SameValue j12 j21 := by
  rcases path_cases p q with hd | rfl | ⟨seg, r, rfl⟩ | ⟨seg, r, rfl⟩
  · obtain ⟨m, hm1, hm2⟩ := updateAt_comm a.fn b.fn p q j j1 j12 hd h1 h2
    rw [h3] at hm1; cases hm1
    exact ⟨j12, hm2, SameValue.refl _⟩
  · -- same target
    cases a with
    | merge add =>
      cases b with
      | merge add2 =>
        have hf12 := updateAt_fuse (mergeInto add) (mergeInto add2) p j j1 h1
        have hf21 := updateAt_fuse (mergeInto add2) (mergeInto add) p j j2 h3
        simp only [Act.fn] at h2 ⊢
        rw [hf12] at h2
        obtain ⟨j21, hu, hs⟩ := updateAt_congr _ _ (merge_merge_respects add add2) p j j j12
          (SameValue.refl j) h2
        exact ⟨j21, by rw [hf21]; exact hu, hs⟩
      | append items =>
        exfalso
        have hf12 := updateAt_fuse (mergeInto add) (appendInto items) p j j1 h1
        simp only [Act.fn] at h2
        rw [hf12] at h2
        obtain ⟨t, t', _, ht⟩ := updateAt_ok_at h2
        cases t with
        | obj kvs =>
          simp only [seqE, mergeInto] at ht
          cases hm : mergeKeys kvs add with
          | ok r => simp [hm, appendInto] at ht
          | error e => simp [hm] at ht
        | _ => simp [seqE, mergeInto] at ht
    | append items =>
      cases b with
      | merge add2 =>
        exfalso
        have hf12 := updateAt_fuse (appendInto items) (mergeInto add2) p j j1 h1
        simp only [Act.fn] at h2
        rw [hf12] at h2
        obtain ⟨t, t', _, ht⟩ := updateAt_ok_at h2
        cases t <;> simp [seqE, mergeInto, appendInto] at ht
      | append items2 => exact absurd ⟨rfl, ⟨_, rfl⟩, ⟨_, rfl⟩⟩ hns
  · -- e strictly below x
    have hex := exists_child_of_updateAt h3
    obtain ⟨m, hm1, hm2⟩ := updateAt_comm_below a.fn b.fn seg r (act_preserves a seg) p j j1 j12 h1 h2 hex
    rw [h3] at hm1; cases hm1
    exact ⟨j12, hm2, SameValue.refl _⟩
  · -- x strictly below e
    obtain ⟨m, hm1, hm2⟩ := updateAt_comm_above b.fn a.fn seg r (act_preserves b seg) q j j1 j12 h1 h2
    rw [h3] at hm1; cases hm1
    exact ⟨j12, hm2, SameValue.refl _⟩

/-! ### data only grows -/

def tagLe : Tag → Tag → Prop
  | .arr n, .arr m => n ≤ m
  | a, b => a = b

theorem tagLe_refl (t : Tag) : tagLe t t := by cases t <;> simp [tagLe]

theorem tagLe_trans {a b c : Tag} (h1 : tagLe a b) (h2 : tagLe b c) : tagLe a c := by
  cases a <;> cases b <;> cases c <;> simp_all [tagLe]
  omega

/-- everything that resolves in `a` still resolves in `b`, to the same kind of value
(lists may have grown) -/
def Le (a b : J) : Prop := ∀ q t, den q a = some t → ∃ t', den q b = some t' ∧ tagLe t t'

theorem Le.refl (a : J) : Le a a := fun _ t h => ⟨t, h, tagLe_refl t⟩

theorem Le.trans {a b c : J} (h1 : Le a b) (h2 : Le b c) : Le a c := by
  intro q t h
  obtain ⟨t', h', hl⟩ := h1 q t h
  obtain ⟨t'', h'', hl'⟩ := h2 q t' h'
  exact ⟨t'', h'', tagLe_trans hl hl'⟩

theorem le_setChild {j c c' : J} {seg : Seg} (hc : childAt seg j = some c) (hle : Le c c') :
    Le j (setChild seg c' j) := by
  intro q t h
  cases q with
  | nil =>
    simp only [den] at h ⊢
    cases h
    exact ⟨_, rfl, by rw [tag_setChild]; exact tagLe_refl _⟩
  | cons seg' q =>
    rw [den_cons] at h ⊢
    by_cases hs : seg = seg'
    · subst hs
      rw [hc] at h
      rw [childAt_setChild hc]
      exact hle q t h
    · rw [childAt_setChild_ne j c' hs]
      exact ⟨t, h, tagLe_refl t⟩

theorem act_le (a : Act) {j j1 : J} (h : a.fn j = .ok j1) : Le j j1 := by
  intro q t hq
  cases a with
  | merge add =>
    cases j with
    | obj kvs =>
      simp only [Act.fn, mergeInto] at h
      split at h
      · rename_i r hm
        cases h
        obtain ⟨rfl, _, _⟩ := mergeKeys_ok add kvs _ hm
        cases q with
        | nil => simp only [den, tag] at hq ⊢; cases hq; exact ⟨_, rfl, rfl⟩
        | cons seg q =>
          rw [den_cons] at hq ⊢
          cases seg with
          | idx i => simp [childAt] at hq
          | key k =>
            simp only [childAt] at hq ⊢
            cases hl : lookup k kvs with
            | none => simp [hl] at hq
            | some c =>
              rw [lookup_append_some k kvs add c hl]
              rw [hl] at hq
              exact ⟨t, hq, tagLe_refl t⟩
      · simp at h
    | _ => simp [Act.fn, mergeInto] at h
  | append items =>
    cases j with
    | arr xs =>
      simp only [Act.fn, appendInto] at h
      cases h
      cases q with
      | nil =>
        simp only [den, tag] at hq ⊢
        cases hq
        exact ⟨_, rfl, by simp [tagLe]⟩
      | cons seg q =>
        rw [den_cons] at hq ⊢
        cases seg with
        | key k => simp [childAt] at hq
        | idx i =>
          simp only [childAt] at hq ⊢
          cases hl : xs[i]? with
          | none => simp [hl] at hq
          | some c =>
            have hlt : i < xs.length := (List.getElem?_eq_some_iff.mp hl).1
            rw [List.getElem?_append_left hlt, hl]
            rw [hl] at hq
            exact ⟨t, hq, tagLe_refl t⟩
    | _ => simp [Act.fn, appendInto] at h

theorem updateAt_le (a : Act) : ∀ (p : Path) (j j1 : J), updateAt a.fn p j = .ok j1 → Le j j1
  | [], j, j1, h => act_le a (by simpa [updateAt] using h)
  | seg :: p, j, j1, h => by
    obtain ⟨c, c', hl, hu, rfl⟩ := updateAt_cons_child h
    exact le_setChild hl (updateAt_le a p c c' hu)

/-! ### applicability of an update, read off the denotation -/

theorem den_eq_getAt : ∀ (q : Path) (j : J), den q j = (Spec.getAt q j).map tag
  | [], j => rfl
  | seg :: q, j => by
    rw [den_cons, getAt_cons]
    cases childAt seg j with
    | none => rfl
    | some c => simp [den_eq_getAt q c]

theorem den_append (p q : Path) (j : J) :
    den (p ++ q) j = (Spec.getAt p j).bind (den q) := by
  rw [den_eq_getAt, getAt_append]
  cases Spec.getAt p j with
  | none => rfl
  | some t => simp [den_eq_getAt q t]

theorem updateAt_succeeds {h : J → Except Fail J} :
    ∀ {p : Path} {j t t' : J}, Spec.getAt p j = some t → h t = .ok t' → ∃ j', updateAt h p j = .ok j'
  | [], j, t, t', hg, hh => by
    simp only [Spec.getAt] at hg; cases hg
    exact ⟨t', by simpa [updateAt] using hh⟩
  | seg :: p, j, t, t', hg, hh => by
    rw [getAt_cons] at hg
    cases hc : childAt seg j with
    | none => simp [hc] at hg
    | some c =>
      simp only [hc, Option.bind_some] at hg
      obtain ⟨c', hu⟩ := updateAt_succeeds hg hh
      exact ⟨_, updateAt_cons_intro hc hu⟩

/-- an update that is applicable at the start and at the end of a growing sequence of values is
applicable at every value in between -/
theorem applicable_between (a : Act) (q : Path) {j s late j' late' : J}
    (hj : updateAt a.fn q j = .ok j') (hlate : updateAt a.fn q late = .ok late')
    (h1 : Le j s) (h2 : Le s late) : ∃ s', updateAt a.fn q s = .ok s' := by
  obtain ⟨t, t1, hgt, hft⟩ := updateAt_ok_at hj
  obtain ⟨u, u1, hgu, hfu⟩ := updateAt_ok_at hlate
  have hden : den q j = some (tag t) := by rw [den_eq_getAt, hgt]; rfl
  obtain ⟨ts, hds, hle⟩ := h1 q (tag t) hden
  rw [den_eq_getAt] at hds
  cases hgs : Spec.getAt q s with
  | none => simp [hgs] at hds
  | some w =>
    simp only [hgs, Option.map_some, Option.some.injEq] at hds
    cases a with
    | append items =>
      -- the target is a list at `j`, hence a list at `s`
      cases t with
      | arr xs =>
        simp only [tag] at hle
        cases w with
        | arr ys => exact updateAt_succeeds hgs (t' := .arr (ys ++ items)) rfl
        | _ => simp [tag] at hds; subst hds; simp [tagLe] at hle
      | _ => simp [Act.fn, appendInto] at hft
    | merge add =>
      cases t with
      | obj kvs =>
        simp only [tag] at hle
        cases w with
        | obj kvs' =>
          cases u with
          | obj kvsL =>
            simp only [Act.fn, mergeInto] at hfu
            split at hfu
            · rename_i r hm
              obtain ⟨_, hfresh, hnd⟩ := mergeKeys_ok add kvsL _ hm
              have hfresh' : ∀ kv ∈ add, lookup kv.1 kvs' = none := by
                intro kv hkv
                cases hl : lookup kv.1 kvs' with
                | none => rfl
                | some c =>
                  exfalso
                  have hd : den (q ++ [.key kv.1]) s = some (tag c) := by
                    rw [den_append, hgs]; simp [den, hl]
                  obtain ⟨t', hd', _⟩ := h2 _ _ hd
                  rw [den_append, hgu] at hd'
                  simp [den, hfresh kv hkv] at hd'
              exact updateAt_succeeds hgs (t' := .obj (kvs' ++ add))
                (by simp [Act.fn, mergeInto, mergeKeys_succeeds add kvs' hfresh' hnd])
            · simp at hfu
          | _ => simp [Act.fn, mergeInto] at hfu
        | _ => simp [tag] at hds; subst hds; simp [tagLe] at hle
      | _ => simp [Act.fn, mergeInto] at hft

/-! ### folding entries, data level

Generic in the type `ε` of entries: `A e` is the target path and the kind of update of entry `e`. -/

section Generic
variable {ε : Type}


def stepD (A : ε → Option (Path × Act)) (j : J) (e : ε) : Option J :=
  match A e with
  | some (p, a) =>
    match updateAt a.fn p j with
    | .ok j' => some j'
    | .error _ => none
  | none => none

def runD (A : ε → Option (Path × Act)) : J → List ε → Option J
  | j, [] => some j
  | j, e :: rest =>
    match stepD A j e with
    | some j' => runD A j' rest
    | none => none

theorem stepD_some {A : ε → Option (Path × Act)} {j j' : J} {e : ε} (h : stepD A j e = some j') :
    ∃ p a, A e = some (p, a) ∧ updateAt a.fn p j = .ok j' := by
  simp only [stepD] at h
  split at h
  · rename_i p a ha
    split at h
    · rename_i j'' hu
      cases h
      exact ⟨p, a, ha, hu⟩
    · cases h
  · cases h

theorem stepD_of {A : ε → Option (Path × Act)} {j j' : J} {e : ε} {p : Path} {a : Act}
    (ha : A e = some (p, a)) (hu : updateAt a.fn p j = .ok j') : stepD A j e = some j' := by
  simp [stepD, ha, hu]

theorem runD_append (A : ε → Option (Path × Act)) (a b : List ε) (j : J) :
    runD A j (a ++ b) = (runD A j a).bind (fun j' => runD A j' b) := by
  induction a generalizing j with
  | nil => rfl
  | cons e rest ih =>
    simp only [List.cons_append, runD]
    cases stepD A j e with
    | none => rfl
    | some j' => exact ih j'

theorem stepD_le {A : ε → Option (Path × Act)} {j j' : J} {e : ε} (h : stepD A j e = some j') :
    Le j j' := by
  obtain ⟨p, a, _, hu⟩ := stepD_some h
  exact updateAt_le a p j j' hu

theorem runD_le {A : ε → Option (Path × Act)} {es : List ε} : ∀ {j j' : J},
    runD A j es = some j' → Le j j' := by
  induction es with
  | nil => intro j j' h; simp only [runD] at h; cases h; exact Le.refl _
  | cons e rest ih =>
    intro j j' h
    simp only [runD] at h
    cases hs : stepD A j e with
    | none => simp [hs] at h
    | some j1 =>
      simp only [hs] at h
      exact (stepD_le hs).trans (ih h)

theorem stepD_congr {A : ε → Option (Path × Act)} {j k j1 : J} {e : ε} (hjk : SameValue j k)
    (h : stepD A j e = some j1) : ∃ k1, stepD A k e = some k1 ∧ SameValue j1 k1 := by
  obtain ⟨p, a, ha, hu⟩ := stepD_some h
  obtain ⟨k1, hk1, hs⟩ := updateAt_congr a.fn a.fn (act_respects a) p j k j1 hjk hu
  exact ⟨k1, stepD_of ha hk1, hs⟩

theorem runD_congr {A : ε → Option (Path × Act)} {es : List ε} : ∀ {j k r : J}, SameValue j k →
    runD A j es = some r → ∃ r', runD A k es = some r' ∧ SameValue r r' := by
  induction es with
  | nil => intro j k r hjk h; simp only [runD] at h; cases h; exact ⟨k, rfl, hjk⟩
  | cons e rest ih =>
    intro j k r hjk h
    simp only [runD] at h
    cases hs : stepD A j e with
    | none => simp [hs] at h
    | some j1 =>
      simp only [hs] at h
      obtain ⟨k1, hk1, hs1⟩ := stepD_congr hjk hs
      obtain ⟨r', hr', hsr⟩ := ih hs1 h
      exact ⟨r', by simp [runD, hk1, hr'], hsr⟩

/-- two entries that are stream batches for the same list -/
def sameList (A : ε → Option (Path × Act)) (x e : ε) : Prop :=
  ∃ p xs ys, A x = some (p, .append xs) ∧ A e = some (p, .append ys)

theorem stepD_swap {A : ε → Option (Path × Act)} {j j1 j12 j2 : J} {x e : ε}
    (h1 : stepD A j x = some j1) (h2 : stepD A j1 e = some j12) (h3 : stepD A j e = some j2)
    (hns : ¬ sameList A x e) : ∃ j21, stepD A j2 x = some j21 ∧ SameValue j12 j21 := by
  obtain ⟨p, a, ha, hu1⟩ := stepD_some h1
  obtain ⟨q, b, hb, hu2⟩ := stepD_some h2
  obtain ⟨q', b', hb', hu3⟩ := stepD_some h3
  rw [hb] at hb'; cases hb'
  have hns' : ¬ (p = q ∧ (∃ xs, a = .append xs) ∧ (∃ ys, b = .append ys)) := by
    rintro ⟨rfl, ⟨xs, rfl⟩, ⟨ys, rfl⟩⟩
    exact hns ⟨p, xs, ys, ha, hb⟩
  obtain ⟨j21, hu, hs⟩ := swap_updates a b p q j j1 j12 j2 hu1 hu2 hu3 hns'
  exact ⟨j21, stepD_of ha hu, hs⟩

theorem stepD_between {A : ε → Option (Path × Act)} {j s late j' late' : J} {e : ε}
    (hj : stepD A j e = some j') (hlate : stepD A late e = some late')
    (h1 : Le j s) (h2 : Le s late) : ∃ s', stepD A s e = some s' := by
  obtain ⟨q, b, hb, hu⟩ := stepD_some hj
  obtain ⟨q', b', hb', hu'⟩ := stepD_some hlate
  rw [hb] at hb'; cases hb'
  obtain ⟨s', hs'⟩ := applicable_between b q hu hu' h1 h2
  exact ⟨s', stepD_of hb hs'⟩

/-- **Bubbling.**  An entry that is applicable right away can be moved to the front of a
successful run, past entries that are not stream batches of its own list. -/
theorem bubble {A : ε → Option (Path × Act)} {e : ε} {post : List ε} :
    ∀ (pre : List ε) (j je r : J), runD A j (pre ++ e :: post) = some r →
      stepD A j e = some je → (∀ x ∈ pre, ¬ sameList A x e) →
      ∃ r', runD A je (pre ++ post) = some r' ∧ SameValue r r'
  | [], j, je, r, hrun, he, _ => by
    simp only [List.nil_append, runD, he] at hrun
    exact ⟨r, hrun, SameValue.refl r⟩
  | x :: pre, j, je, r, hrun, he, hns => by
    simp only [List.cons_append, runD] at hrun
    cases hx : stepD A j x with
    | none => simp [hx] at hrun
    | some j1 =>
      simp only [hx] at hrun
      -- the state in which `e` is applied in the given run
      rw [runD_append] at hrun
      cases hpre : runD A j1 pre with
      | none => simp [hpre] at hrun
      | some late =>
        simp only [hpre, Option.bind_some, runD] at hrun
        cases hel : stepD A late e with
        | none => simp [hel] at hrun
        | some late' =>
          obtain ⟨j1e, hj1e⟩ := stepD_between he hel (stepD_le hx) (runD_le hpre)
          have hrun1 : runD A j1 (pre ++ e :: post) = some r := by
            rw [runD_append, hpre]; simp only [Option.bind_some, runD, hel]; simpa [hel] using hrun
          obtain ⟨r1, hr1, hs1⟩ := bubble pre j1 j1e r hrun1 hj1e (fun y hy => hns y (by simp [hy]))
          obtain ⟨j21, hj21, hs21⟩ := stepD_swap hx hj1e he (hns x (by simp))
          obtain ⟨r', hr', hs'⟩ := runD_congr hs21 hr1
          exact ⟨r', by simp [runD, hj21, hr'], hs1.trans hs'⟩

/-! ### any two orders -/

/-- `e` is a stream batch for the list at `p` -/
def isStreamAt (A : ε → Option (Path × Act)) (p : Path) (e : ε) : Bool :=
  match A e with
  | some (q, .append _) => q == p
  | _ => false

/-- the stream batches for the list at `p`, in order -/
def streamsOf (A : ε → Option (Path × Act)) (p : Path) (es : List ε) : List ε :=
  es.filter (isStreamAt A p)

theorem sameList_isStreamAt {A : ε → Option (Path × Act)} {x e : ε} (h : sameList A x e) :
    ∃ p, isStreamAt A p x = true ∧ isStreamAt A p e = true := by
  obtain ⟨p, xs, ys, hx, he⟩ := h
  exact ⟨p, by simp [isStreamAt, hx], by simp [isStreamAt, he]⟩

theorem exists_first_split {α : Type} {e : α} : ∀ {es : List α}, e ∈ es →
    ∃ pre post, es = pre ++ e :: post ∧ e ∉ pre
  | [], h => by simp at h
  | x :: rest, h => by
    by_cases hx : x = e
    · exact ⟨[], rest, by simp [hx], by simp⟩
    · have hin : e ∈ rest := by
        rcases List.mem_cons.mp h with rfl | hin
        · exact absurd rfl hx
        · exact hin
      obtain ⟨pre, post, he, hn⟩ := exists_first_split hin
      refine ⟨x :: pre, post, by simp [he], ?_⟩
      intro hmem
      rcases List.mem_cons.mp hmem with rfl | h'
      · exact hx rfl
      · exact hn h'

theorem streams_split {A : ε → Option (Path × Act)} {p : Path} {e : ε} {pre post r' : List ε}
    (hn : e ∉ pre)
    (h : streamsOf A p (pre ++ e :: post) = streamsOf A p (e :: r')) :
    (isStreamAt A p e = true → streamsOf A p pre = []) ∧
    streamsOf A p (pre ++ post) = streamsOf A p r' := by
  simp only [streamsOf, List.filter_append, List.filter_cons] at h ⊢
  cases he : isStreamAt A p e with
  | false =>
    simp only [he, Bool.false_eq_true, if_false] at h
    exact ⟨fun h' => Bool.noConfusion h', h⟩
  | true =>
    simp only [he, if_true] at h
    cases hpre : pre.filter (isStreamAt A p) with
    | nil =>
      rw [hpre] at h
      simp only [List.nil_append, List.cons.injEq, true_and] at h
      exact ⟨fun _ => rfl, by simpa using h⟩
    | cons y ys =>
      exfalso
      rw [hpre] at h
      simp only [List.cons_append, List.cons.injEq] at h
      have hy : y ∈ pre.filter (isStreamAt A p) := by rw [hpre]; simp
      exact hn (h.1 ▸ (List.mem_filter.mp hy).1)

/-- **Order independence, data level.**  Two orders of the same entries, in which the batches of
every stream keep their relative order, that both run to completion produce the same JSON value. -/
theorem runD_perm {A : ε → Option (Path × Act)} : ∀ (es' es : List ε) (j x y : J),
    es.Perm es' → (∀ p, streamsOf A p es = streamsOf A p es') →
    runD A j es = some x → runD A j es' = some y → SameValue x y
  | [], es, j, x, y, hperm, _, hx, hy => by
    have : es = [] := List.Perm.eq_nil hperm
    subst this
    simp only [runD] at hx hy
    cases hx; cases hy
    exact SameValue.refl _
  | e :: r', es, j, x, y, hperm, hstreams, hx, hy => by
    have hmem : e ∈ es := hperm.symm.subset (by simp)
    obtain ⟨pre, post, rfl, hn⟩ := exists_first_split hmem
    simp only [runD] at hy
    cases he : stepD A j e with
    | none => simp [he] at hy
    | some je =>
      simp only [he] at hy
      have hns : ∀ z ∈ pre, ¬ sameList A z e := by
        intro z hz hsl
        obtain ⟨p, hzp, hep⟩ := sameList_isStreamAt hsl
        have := ((streams_split hn (hstreams p)).1 hep)
        have hzin : z ∈ streamsOf A p pre := List.mem_filter.mpr ⟨hz, hzp⟩
        rw [this] at hzin
        simp at hzin
      obtain ⟨r1, hr1, hs1⟩ := bubble pre j je x hx he hns
      have hperm' : (pre ++ post).Perm r' :=
        (List.perm_cons e).mp ((List.perm_middle.symm.trans hperm))
      have hstreams' : ∀ p, streamsOf A p (pre ++ post) = streamsOf A p r' :=
        fun p => (streams_split hn (hstreams p)).2
      exact hs1.trans (runD_perm r' (pre ++ post) je r1 y hperm' hstreams' hr1 hy)

end Generic

/-! ### instance: the entries of the delivery format -/

def IncE.act (pending : List (List Nat × Path)) : IncE → Option (Path × Act)
  | .defer id sub (.obj add) _ => (pendingPath id pending).map (fun p => (p ++ sub, .merge add))
  | .defer _ _ _ _ => none
  | .stream id items _ => (pendingPath id pending).map (fun p => (p, .append items))

theorem action_eq_act (P : List (List Nat × Path)) (e : IncE) :
    e.action P = (e.act P).map (fun pa => (pa.1, pa.2.fn)) := by
  cases e with
  | defer id sub data errs =>
    cases data <;> simp [IncE.action, IncE.act]
    cases pendingPath id P <;> rfl
  | stream id items errs =>
    simp [IncE.action, IncE.act]
    cases pendingPath id P <;> rfl

theorem apply_stepD {st s : State} {e : IncE} (h : apply st e = .ok s) :
    stepD (IncE.act st.pending) st.data e = some s.data ∧ s.pending = st.pending := by
  obtain ⟨p, f, ha, hu, hp⟩ := apply_ok h
  rw [action_eq_act] at ha
  cases hact : e.act st.pending with
  | none => simp [hact] at ha
  | some pa =>
    obtain ⟨p', a⟩ := pa
    simp only [hact, Option.map_some, Option.some.injEq, Prod.mk.injEq] at ha
    obtain ⟨rfl, rfl⟩ := ha
    exact ⟨stepD_of hact hu, hp⟩

theorem applyAll_runD {es : List IncE} : ∀ {st s : State}, applyAll st es = .ok s →
    runD (IncE.act st.pending) st.data es = some s.data := by
  induction es with
  | nil => intro st s h; simp only [applyAll] at h; cases h; rfl
  | cons e rest ih =>
    intro st s h
    simp only [applyAll] at h
    cases he : apply st e with
    | error f => simp [he] at h
    | ok s1 =>
      simp only [he] at h
      obtain ⟨hs, hp⟩ := apply_stepD he
      have := ih h
      rw [hp] at this
      simp [runD, hs, this]

/-- **Order independence of `Assemble.apply`.** -/
theorem applyAll_perm {st a b : State} {es es' : List IncE} (hperm : es.Perm es')
    (hstreams : ∀ p, streamsOf (IncE.act st.pending) p es = streamsOf (IncE.act st.pending) p es')
    (ha : applyAll st es = .ok a) (hb : applyAll st es' = .ok b) : SameValue a.data b.data :=
  runD_perm es' es st.data a.data b.data hperm hstreams (applyAll_runD ha) (applyAll_runD hb)

/-- for the format's entries, `isStreamAt` says: a stream entry whose id is pending at `p` -/
theorem isStreamAt_incE (P : List (List Nat × Path)) (p : Path) (e : IncE) :
    isStreamAt (IncE.act P) p e =
      (match e with
       | .stream id _ _ => pendingPath id P == some p
       | _ => false) := by
  cases e with
  | defer id sub data errs =>
    cases data <;> simp [isStreamAt, IncE.act] <;> (cases pendingPath id P <;> rfl)
  | stream id items errs =>
    simp only [isStreamAt, IncE.act]
    cases pendingPath id P with
    | none => simp
    | some q => simp

end Gql.Async
