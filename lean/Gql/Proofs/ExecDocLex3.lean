import Gql.Proofs.ExecLex3
/-!
C08, stage 3: documents of executable and type-system definitions; the printer's `query`-prefix rule.
-/
namespace Gql.Text
open Gql.Syntax

/-! ### first and last characters -/

theorem name_not {n : List Nat} (h : validName n = true) (x : Nat) (hx : isNameContinue x = false) :
    ∀ c ∈ n, c ≠ x := by
  cases n with
  | nil => simp [validName] at h
  | cons a r =>
    simp only [validName, Bool.and_eq_true, List.all_eq_true] at h
    intro c hc
    rcases List.mem_cons.mp hc with rfl | hc
    · have := isNameStart_continue h.1
      intro hh; subst hh; rw [this] at hx; cases hx
    · have := h.2 c hc
      intro hh; subst hh; rw [this] at hx; cases hx

/-- The text is not empty and does not end with `}`. -/
def LastOk (x : List Nat) : Prop := ∃ c, x.getLast? = some c ∧ c ≠ 125

theorem LastOk.ne_nil {x : List Nat} (h : LastOk x) : x ≠ [] := by
  obtain ⟨c, hc, _⟩ := h
  intro h0; rw [h0] at hc; simp at hc

theorem LastOk.append {b : List Nat} (a : List Nat) (h : LastOk b) : LastOk (a ++ b) := by
  obtain ⟨c, hc, hne⟩ := h
  exact ⟨c, by rw [getLast?_append_of_ne (LastOk.ne_nil ⟨c, hc, hne⟩)]; exact hc, hne⟩

theorem LastOk.not125 {x : List Nat} (h : LastOk x) : x.getLast? ≠ some 125 := by
  obtain ⟨c, hc, hne⟩ := h
  rw [hc]; intro h0; cases h0; exact hne rfl

theorem lastOk_name {n : List Nat} (h : validName n = true) : LastOk n := by
  have hne := validName_ne_nil h
  refine ⟨n.getLast hne, List.getLast?_eq_getLast hne, ?_⟩
  exact name_not h 125 (by decide) _ (List.getLast_mem hne)

theorem lastOk_single (c : Nat) (h : c ≠ 125) : LastOk [c] := ⟨c, rfl, h⟩

theorem lastOk_wrap_opt (A : List Nat) (hA : LastOk A) (s b : List Nat) (hb : b = [] ∨ LastOk b) :
    LastOk (A ++ wrap s b) := by
  rcases hb with rfl | hb
  · simpa [wrap] using hA
  · rw [wrap_of_ne s b [] hb.ne_nil]
    simpa [List.append_assoc] using LastOk.append (A ++ s) hb

theorem lastOk_spaced (A : List Nat) (hA : LastOk A) (parts : List (List Nat))
    (h : ∀ p ∈ parts, p = [] ∨ LastOk p) : LastOk (A ++ spaced parts) := by
  induction parts generalizing A with
  | nil => simpa [spaced] using hA
  | cons b r ih =>
    have h1 := lastOk_wrap_opt A hA [32] b (h b (by simp))
    have := ih _ h1 (fun p hp => h p (by simp [hp]))
    simpa [spaced, List.append_assoc] using this

theorem lastOk_joinWith (sep : List Nat) (ns : List (List Nat)) (hne : ns ≠ []) (h : Exec.namesWf ns) :
    LastOk (joinWith sep ns) := by
  induction ns with
  | nil => exact absurd rfl hne
  | cons a r ih =>
    cases r with
    | nil => simpa [joinWith] using lastOk_name (h a (by simp))
    | cons b r' =>
      have := ih (by simp) (fun x hx => h x (by simp at hx ⊢; exact Or.inr hx))
      simpa [joinWith, List.append_assoc] using LastOk.append (a ++ sep) this

theorem lastOk_printDir (w : Widths) (c : Bool) (d : Dir) (h : Exec.dirWfC c d) : LastOk (Exec.printDir w d) := by
  unfold Exec.printDir
  by_cases hx : join (Val.printFields w d.args) [44, 32] = []
  · rw [hx]
    simpa [wrap] using LastOk.append [64] (lastOk_name h.1)
  · rw [wrap_of_ne _ _ _ hx]
    have := LastOk.append (64 :: d.name ++ [40] ++ join (Val.printFields w d.args) [44, 32]) (lastOk_single 41 (by decide))
    simpa [List.append_assoc] using this

theorem lastOk_printDirs (w : Widths) (c : Bool) (ds : List Dir) (h : Exec.dirsWfC c ds) :
    ds = [] ∨ LastOk (Exec.printDirs w ds) := by
  induction ds with
  | nil => left; rfl
  | cons d r ih =>
    right
    rw [printDirs_cons]
    split
    · exact lastOk_printDir w c d h.1
    · rename_i hr
      rcases ih h.2 with h0 | h0
      · exact absurd h0 hr
      · exact LastOk.append _ h0

theorem lastOk_printDirs' (w : Widths) (c : Bool) (ds : List Dir) (h : Exec.dirsWfC c ds) :
    Exec.printDirs w ds = [] ∨ LastOk (Exec.printDirs w ds) := by
  rcases lastOk_printDirs w c ds h with rfl | h
  · left; simp [Exec.printDirs, join, joinWith]
  · right; exact h

theorem lastOk_delimPiece (pre sep : List Nat) (ns : List (List Nat)) (h : Exec.namesWf ns) :
    wrap pre (join ns sep) = [] ∨ LastOk (wrap pre (join ns sep)) := by
  by_cases hx : ns = []
  · subst hx; left; simp [join, joinWith, wrap]
  · right
    rw [join_eq_joinWith _ _ (names_ne_nil ns h), wrap_of_ne _ _ _ (joinWith_eq_nil (names_ne_nil ns h) hx)]
    simpa using LastOk.append pre (lastOk_joinWith sep ns hx h)

theorem descPre_kw_head (w : Widths) (desc : Desc) (kw rest : List Nat) (hkw : validName kw = true) :
    (wrap [] (Exec.descText w desc) [10] ++ (kw ++ rest)).head? ≠ some 123 := by
  by_cases hd : desc = none
  · subst hd
    obtain ⟨a, r, rfl⟩ := List.exists_cons_of_ne_nil (validName_ne_nil hkw)
    have := name_not hkw 123 (by decide) a (by simp)
    simp [Exec.descText, wrap, this]
  · have h34 := descText_head w desc hd
    cases hx : Exec.descText w desc with
    | nil => rw [hx] at h34; simp at h34
    | cons a r =>
      rw [hx] at h34
      simp at h34; subst h34
      simp [wrap]

theorem descPre_kw_ne_nil (w : Widths) (desc : Desc) (kw rest : List Nat) (hkw : validName kw = true) :
    wrap [] (Exec.descText w desc) [10] ++ (kw ++ rest) ≠ [] := by
  intro h
  exact validName_ne_nil hkw (List.append_eq_nil_iff.mp (List.append_eq_nil_iff.mp h).2).1


theorem spaced_append_single (ps : List (List Nat)) (b : List Nat) : spaced (ps ++ [b]) = spaced ps ++ wrap [32] b := by
  induction ps with
  | nil => simp [spaced]
  | cons a r ih => simp [spaced, ih, List.append_assoc]

theorem kwForm_last_block (A kw : List Nat) (parts : List (List Nat)) (B : List Nat) (hB : B ≠ [])
    (hl : B.getLast? = some 125) : (A ++ (kw ++ spaced (parts ++ [B]))).getLast? = some 125 := by
  rw [spaced_append_single, wrap_of_ne _ _ _ hB]
  have : A ++ (kw ++ (spaced parts ++ ([32] ++ B ++ []))) = (A ++ kw ++ spaced parts ++ [32]) ++ B := by simp
  rw [this, getLast?_append_of_ne hB]; exact hl

theorem kwForm_lastOk (A kw : List Nat) (parts : List (List Nat)) (hkw : validName kw = true)
    (h : ∀ p ∈ parts, p = [] ∨ LastOk p) : LastOk (A ++ (kw ++ spaced parts)) :=
  LastOk.append A (lastOk_spaced kw (lastOk_name hkw) parts h)

theorem blockItems_facts {α : Type} (pr : α → List Nat) (xs : List α) (hnn : ∀ a ∈ xs, pr a ≠ []) :
    (xs = [] → block (xs.map pr) = []) ∧
    (xs ≠ [] → block (xs.map pr) ≠ [] ∧ (block (xs.map pr)).getLast? = some 125) := by
  constructor
  · rintro rfl; exact block_nil
  · intro hx
    have hts : xs.map pr ≠ [] := by simpa using hx
    have hne : ∀ t ∈ xs.map pr, t ≠ [] := by
      intro t ht
      simp only [List.mem_map] at ht
      obtain ⟨a, ha, rfl⟩ := ht
      exact hnn a ha
    exact ⟨by rw [block_eq _ hts hne]; simp, block_last _ hts hne⟩

theorem isEmpty_false_of_ne {α : Type} {xs : List α} (h : xs ≠ []) : xs.isEmpty = false := by
  cases xs <;> simp_all

/-- Shape of a printed type-system definition: optional description, a keyword, the rest. -/
theorem printTDef_shape (w : Widths) (d : TDef) :
    ∃ kw rest, validName kw = true ∧
      Exec.printTDef w d = wrap [] (Exec.descText w (match d with
        | .schema desc .. => desc | .scalar desc .. => desc | .object _ desc .. => desc | .union desc .. => desc
        | .enum desc .. => desc | .input desc .. => desc | .directive desc .. => desc)) [10] ++ (kw ++ rest) := by
  cases d with
  | schema desc ds ots =>
    exact ⟨S "schema", _, by decide, by simp only [Exec.printTDef, Exec.descPre]; rw [join_space _ _ (by decide)]⟩
  | scalar desc n ds =>
    exact ⟨S "scalar", _, by decide, by simp only [Exec.printTDef, Exec.descPre]; rw [join_space _ _ (by decide)]⟩
  | object iface desc n ifs ds fs =>
    exact ⟨Exec.objKw iface, _, objKw_valid iface, by
      simp only [Exec.printTDef, Exec.descPre]; rw [join_space _ _ (validName_ne_nil (objKw_valid iface))]⟩
  | union desc n ds ts =>
    exact ⟨S "union", _, by decide, by simp only [Exec.printTDef, Exec.descPre]; rw [join_space _ _ (by decide)]⟩
  | enum desc n ds vs =>
    exact ⟨S "enum", _, by decide, by simp only [Exec.printTDef, Exec.descPre]; rw [join_space _ _ (by decide)]⟩
  | input desc n ds fs =>
    exact ⟨S "input", _, by decide, by simp only [Exec.printTDef, Exec.descPre]; rw [join_space _ _ (by decide)]⟩
  | directive desc n args ds rep locs =>
    refine ⟨S "directive", [32] ++ [64] ++ n ++ argDefs (args.map (Exec.printIvd w)) ++
      wrap [32] (Exec.printDirs w ds) ++ (if rep then S " repeatable" else []) ++ S " on " ++ join locs (S " | "),
      by decide, ?_⟩
    simp only [Exec.printTDef, Exec.descPre, S_directive, List.append_assoc]

theorem printTDef_head (w : Widths) (d : TDef) :
    (Exec.printTDef w d).head? ≠ some 123 ∧ Exec.printTDef w d ≠ [] := by
  obtain ⟨kw, rest, hkw, he⟩ := printTDef_shape w d
  rw [he]
  exact ⟨descPre_kw_head w _ kw rest hkw, descPre_kw_ne_nil w _ kw rest hkw⟩

theorem printTDef_last (w : Widths) (dd : Bool) (d : TDef) (h : Exec.tdefWf dd d) :
    (Exec.endsBlock (.t d) = true → (Exec.printTDef w d).getLast? = some 125) ∧
    (Exec.endsBlock (.t d) = false → LastOk (Exec.printTDef w d)) := by
  cases d with
  | schema desc ds ots =>
    obtain ⟨_, hds, hne, hots⟩ := h
    have hb := (blockItems_facts Exec.printOt ots (fun a ha => printOt_ne_nil a (hots a ha).1)).2 hne
    refine ⟨fun _ => ?_, fun h0 => by simp [Exec.endsBlock] at h0⟩
    simp only [Exec.printTDef, Exec.descPre]
    rw [join_space _ _ (by decide)]
    exact kwForm_last_block _ _ [Exec.printDirs w ds] _ hb.1 hb.2
  | scalar desc n ds =>
    obtain ⟨_, hn, hds⟩ := h
    refine ⟨fun h0 => by simp [Exec.endsBlock] at h0, fun _ => ?_⟩
    simp only [Exec.printTDef, Exec.descPre]
    rw [join_space _ _ (by decide)]
    refine kwForm_lastOk _ _ _ (by decide) ?_
    intro p hp
    simp only [List.mem_cons, List.not_mem_nil, or_false] at hp
    rcases hp with rfl | rfl
    · exact Or.inr (lastOk_name hn)
    · exact lastOk_printDirs' w true ds hds
  | object iface desc n ifs ds fs =>
    obtain ⟨_, hn, hifs, hds, hfs⟩ := h
    have hb := blockItems_facts (Exec.printFd w) fs (fun a ha => printFd_ne_nil w a (validName_ne_nil (hfs a ha).2.1))
    simp only [Exec.printTDef, Exec.descPre, Exec.endsBlock]
    rw [join_space _ _ (validName_ne_nil (objKw_valid iface))]
    constructor
    · intro h0
      have hx : fs ≠ [] := by intro h1; subst h1; simp at h0
      exact kwForm_last_block _ _ [n, wrap (S "implements ") (join ifs (S " & ")), Exec.printDirs w ds] _
        (hb.2 hx).1 (hb.2 hx).2
    · intro h0
      have hx : fs = [] := by cases fs <;> simp_all
      refine kwForm_lastOk _ _ _ (objKw_valid iface) ?_
      intro p hp
      simp only [List.mem_cons, List.not_mem_nil, or_false] at hp
      rcases hp with rfl | rfl | rfl | rfl
      · exact Or.inr (lastOk_name hn)
      · exact lastOk_delimPiece _ _ ifs hifs
      · exact lastOk_printDirs' w true ds hds
      · exact Or.inl (hb.1 hx)
  | union desc n ds ts =>
    obtain ⟨_, hn, hds, hts⟩ := h
    refine ⟨fun h0 => by simp [Exec.endsBlock] at h0, fun _ => ?_⟩
    simp only [Exec.printTDef, Exec.descPre]
    rw [join_space _ _ (by decide)]
    refine kwForm_lastOk _ _ _ (by decide) ?_
    intro p hp
    simp only [List.mem_cons, List.not_mem_nil, or_false] at hp
    rcases hp with rfl | rfl | rfl
    · exact Or.inr (lastOk_name hn)
    · exact lastOk_printDirs' w true ds hds
    · exact lastOk_delimPiece _ _ ts hts
  | enum desc n ds vs =>
    obtain ⟨_, hn, hds, hvs⟩ := h
    have hb := blockItems_facts (Exec.printEv w) vs (fun a ha => printEv_ne_nil w a (validName_ne_nil (hvs a ha).2.1))
    simp only [Exec.printTDef, Exec.descPre, Exec.endsBlock]
    rw [join_space _ _ (by decide)]
    constructor
    · intro h0
      have hx : vs ≠ [] := by intro h1; subst h1; simp at h0
      exact kwForm_last_block _ _ [n, Exec.printDirs w ds] _ (hb.2 hx).1 (hb.2 hx).2
    · intro h0
      have hx : vs = [] := by cases vs <;> simp_all
      refine kwForm_lastOk _ _ _ (by decide) ?_
      intro p hp
      simp only [List.mem_cons, List.not_mem_nil, or_false] at hp
      rcases hp with rfl | rfl | rfl
      · exact Or.inr (lastOk_name hn)
      · exact lastOk_printDirs' w true ds hds
      · exact Or.inl (hb.1 hx)
  | input desc n ds fs =>
    obtain ⟨_, hn, hds, hfs⟩ := h
    have hb := blockItems_facts (Exec.printIvd w) fs
      (fun a ha => printIvd_ne_nil w a (validName_ne_nil (hfs a ha).2.1))
    simp only [Exec.printTDef, Exec.descPre, Exec.endsBlock]
    rw [join_space _ _ (by decide)]
    constructor
    · intro h0
      have hx : fs ≠ [] := by intro h1; subst h1; simp at h0
      exact kwForm_last_block _ _ [n, Exec.printDirs w ds] _ (hb.2 hx).1 (hb.2 hx).2
    · intro h0
      have hx : fs = [] := by cases fs <;> simp_all
      refine kwForm_lastOk _ _ _ (by decide) ?_
      intro p hp
      simp only [List.mem_cons, List.not_mem_nil, or_false] at hp
      rcases hp with rfl | rfl | rfl
      · exact Or.inr (lastOk_name hn)
      · exact lastOk_printDirs' w true ds hds
      · exact Or.inl (hb.1 hx)
  | directive desc n args ds rep locs =>
    obtain ⟨_, _, _, _, _, hlne, hlocs⟩ := h
    have hlw : Exec.namesWf locs := fun l hl => locations_valid l (hlocs l hl)
    refine ⟨fun h0 => by simp [Exec.endsBlock] at h0, fun _ => ?_⟩
    simp only [Exec.printTDef]
    rw [join_eq_joinWith _ _ (names_ne_nil locs hlw)]
    exact LastOk.append _ (lastOk_joinWith _ locs hlne hlw)


theorem printEDef_last (w : Widths) (d : EDef) (h : Exec.edefWf d) :
    (Exec.endsBlock (.e d) = true → (Exec.printEDef w d).getLast? = some 125) ∧
    (Exec.endsBlock (.e d) = false → LastOk (Exec.printEDef w d)) := by
  have key : ∀ (b : TDef), Exec.tdefWf false b → Exec.endsBlock (.e d) = Exec.endsBlock (.t b) → d.base = b →
      (Exec.endsBlock (.e d) = true → (Exec.printEDef w d).getLast? = some 125) ∧
      (Exec.endsBlock (.e d) = false → LastOk (Exec.printEDef w d)) := by
    intro b hb he hbase
    obtain ⟨l1, l2⟩ := printTDef_last w false b hb
    unfold Exec.printEDef
    rw [hbase, he]
    constructor
    · intro h0
      rw [getLast?_append_of_ne (printTDef_head w b).2]; exact l1 h0
    · intro h0; exact LastOk.append _ (l2 h0)
  cases d with
  | schema ds ots =>
    by_cases hx : ots = []
    · subst hx
      refine ⟨fun h0 => by simp [Exec.endsBlock] at h0, fun _ => ?_⟩
      unfold Exec.printEDef
      refine LastOk.append _ ?_
      simp only [EDef.base, Exec.printTDef, Exec.descPre]
      rw [join_space _ _ (by decide)]
      refine kwForm_lastOk _ _ _ (by decide) ?_
      intro p hp
      simp only [List.mem_cons, List.not_mem_nil, or_false] at hp
      rcases hp with rfl | rfl
      · exact lastOk_printDirs' w true ds h.1
      · exact Or.inl block_nil
    · exact key (.schema none ds ots) ⟨trivial, h.1, hx, h.2.1⟩ (by simp [Exec.endsBlock, isEmpty_false_of_ne hx]) rfl
  | scalar n ds => exact key (.scalar none n ds) ⟨trivial, h.1, h.2.1⟩ rfl rfl
  | object iface n ifs ds fs =>
    exact key (.object iface none n ifs ds fs) ⟨trivial, h.1, h.2.1, h.2.2.1, h.2.2.2.1⟩ rfl rfl
  | union n ds ts => exact key (.union none n ds ts) ⟨trivial, h.1, h.2.1, h.2.2.1⟩ rfl rfl
  | enum n ds vs => exact key (.enum none n ds vs) ⟨trivial, h.1, h.2.1, h.2.2.1⟩ rfl rfl
  | input n ds fs => exact key (.input none n ds fs) ⟨trivial, h.1, h.2.1, h.2.2.1⟩ rfl rfl

/-! ### definitions of a document -/

theorem isShortG_iff (desc : Desc) (ot n : List Nat) (vds : List VarDef) (ds : List Dir) (ss : List Sel) :
    Exec.isShortG (.x (.op desc ot n vds ds ss)) = true ↔ shortCond desc ot n vds ds := by
  unfold Exec.isShortG shortCond
  cases desc <;> simp [and_assoc]

theorem printGDef_facts (w : Widths) (fa dd : Bool) (d : GDef) (h : Exec.gdefWf fa dd d) :
    ((Exec.printGDef w d).head? = some 123 ↔ Exec.isShortG d = true) ∧ Exec.printGDef w d ≠ [] ∧
    ((Exec.printGDef w d).getLast? = some 125 ↔ Exec.endsBlock d = true) := by
  cases d with
  | t d =>
    obtain ⟨h1, h2⟩ := printTDef_head w d
    obtain ⟨l1, l2⟩ := printTDef_last w dd d h
    refine ⟨⟨fun h0 => absurd h0 h1, fun h0 => by simp [Exec.isShortG] at h0⟩, h2, ?_, l1⟩
    intro h0
    cases he : Exec.endsBlock (.t d) with
    | true => rfl
    | false => exact absurd h0 (l2 he).not125
  | e d =>
    obtain ⟨l1, l2⟩ := printEDef_last w d h
    have hne : Exec.printEDef w d ≠ [] := by unfold Exec.printEDef; simp [S_extend_sp, S]
    have hhd : (Exec.printEDef w d).head? = some 101 := by
      unfold Exec.printEDef
      have : S "extend " = 101 :: S "xtend " := by decide
      rw [this]; rfl
    refine ⟨⟨fun h0 => ?_, fun h0 => by simp [Exec.isShortG] at h0⟩, hne, ?_, l1⟩
    · have h0' : (Exec.printEDef w d).head? = some 123 := h0
      rw [hhd] at h0'; cases h0'
    intro h0
    cases he : Exec.endsBlock (.e d) with
    | true => rfl
    | false => exact absurd h0 (l2 he).not125
  | x d =>
    have hl := printXDef_last w fa d h
    have hne : Exec.printXDef w d ≠ [] := by intro h0; rw [h0] at hl; simp at hl
    refine ⟨?_, hne, ⟨fun _ => rfl, fun _ => hl⟩⟩
    cases d with
    | frag desc n vds tc ds ss =>
      obtain ⟨_, hn, _, _, _, htc, _, hssne, hss⟩ := h
      have hts : Exec.printSels w ss ≠ [] := by
        obtain ⟨s, r, rfl⟩ := List.exists_cons_of_ne_nil hssne
        simp [Exec.printSels]
      have hb : block (Exec.printSels w ss) ≠ [] := by
        rw [block_eq _ hts (printSels_ne_nil w ss hss)]; simp
      simp only [Exec.printGDef]
      rw [printXDef_frag w desc n vds tc ds ss (validName_ne_nil hn) (validName_ne_nil htc) hb]
      exact ⟨fun h0 => absurd h0 (descPre_kw_head w desc _ _ (by decide)), fun h0 => by simp [Exec.isShortG] at h0⟩
    | op desc ot n vds ds ss =>
      obtain ⟨_, hot, _, _, _, hssne, hss⟩ := h
      have hts : Exec.printSels w ss ≠ [] := by
        obtain ⟨s, r, rfl⟩ := List.exists_cons_of_ne_nil hssne
        simp [Exec.printSels]
      have hb : block (Exec.printSels w ss) ≠ [] := by
        rw [block_eq _ hts (printSels_ne_nil w ss hss)]; simp
      simp only [Exec.printGDef]
      rw [printXDef_op w desc ot n vds ds ss hot hb, isShortG_iff]
      by_cases hs : shortCond desc ot n vds ds
      · rw [if_pos hs, block_eq _ hts (printSels_ne_nil w ss hss)]
        simp [hs]
      · rw [if_neg hs]
        exact ⟨fun h0 => absurd h0 (descPre_kw_head w desc _ _ (validName_opType hot)), fun h0 => absurd h0 hs⟩

/-- The relation between the printer's `prev` and the flag of `gdefsKvs`. -/
def PrevOk (prev : Option (List Nat)) (pb : Bool) : Prop :=
  (prev = none → pb = true) ∧ ∀ p, prev = some p → (p.getLast? = some 125 ↔ pb = true)

theorem documentDefs_ne_nil (ts : List (List Nat)) (h : ∀ t ∈ ts, t ≠ []) :
    ∀ prev, ∀ t ∈ documentDefs prev ts, t ≠ [] := by
  induction ts with
  | nil => intro prev t ht; simp [documentDefs] at ht
  | cons d r ih =>
    intro prev t ht
    have hd := h d (by simp)
    simp only [documentDefs, List.mem_cons] at ht
    rcases ht with rfl | ht
    · cases prev with
      | none => exact hd
      | some p =>
        simp only
        split
        · intro h0; exact hd (List.append_eq_nil_iff.mp h0).2
        · exact hd
    · exact ih (fun t ht => h t (by simp [ht])) _ t ht

theorem S_query_sp : S "query " = S "query" ++ [32] := by decide

section
variable (w : Widths) (hw : 4 ≤ w.object)
variable (hT : tableOK Generated.escapeTable = true) (hC : tableComplete Generated.escapeTable = true)
include hw hT hC

theorem lexes_gdef (fa dd : Bool) (d : GDef) (h : Exec.gdefWf fa dd d) :
    Lexes true (Exec.printGDef w d) (Exec.gdefKvs d) := by
  cases d with
  | x d => have := lexes_xdef w hw hT hC fa d h 0; rwa [indentLF_zero] at this
  | t d => have := lexes_tdef w hw hT hC dd d (tdefWf_L h) 0; rwa [indentLF_zero] at this
  | e d => have := lexes_edef w hw hT hC d h 0; rwa [indentLF_zero] at this

theorem lexes_gdefs (fa dd : Bool) (defs : List GDef) (h : Exec.gdefsWf fa dd defs) :
    ∀ (prev : Option (List Nat)) (pb : Bool), PrevOk prev pb →
      Lexes true (joinWith [10, 10] (documentDefs prev (defs.map (Exec.printGDef w)))) (Exec.gdefsKvs pb defs) := by
  induction defs with
  | nil => intro prev pb _; exact Lexes.nil.weaken true
  | cons d r ih =>
    intro prev pb hp
    have hwf := h d (by simp)
    obtain ⟨hhead, hne, hlast⟩ := printGDef_facts w fa dd d hwf
    have hd := lexes_gdef w hw hT hC fa dd d hwf
    have ih' := ih (fun x hx => h x (by simp [hx])) (some (Exec.printGDef w d)) (Exec.endsBlock d)
      ⟨fun h0 => by simp at h0, fun p hp' => by
        have := Option.some.inj hp'
        subst this
        exact hlast⟩
    -- the first definition, possibly with the `query` keyword
    have hfirst : ∃ d', documentDefs prev ((d :: r).map (Exec.printGDef w)) =
        d' :: documentDefs (some (Exec.printGDef w d)) (r.map (Exec.printGDef w)) ∧
        Lexes true d' ((if Exec.isShortG d && !pb then [(.name, some (S "query"))] else []) ++ Exec.gdefKvs d) := by
      cases prev with
      | none =>
        have hpb := hp.1 rfl
        subst hpb
        exact ⟨Exec.printGDef w d, by simp [documentDefs], by simpa using hd⟩
      | some p =>
        have hpl := hp.2 p rfl
        by_cases hc : (Exec.printGDef w d).head? = some 123 ∧ p.getLast? ≠ some 125
        · have hs := hhead.mp hc.1
          have hpb : pb = false := by
            cases pb with
            | false => rfl
            | true => exact absurd (hpl.mpr rfl) hc.2
          subst hpb
          refine ⟨S "query " ++ Exec.printGDef w d, by simp [documentDefs, hc], ?_⟩
          have := Lexes.append_l (Lexes.append_ign (Lexes.name (S "query") (by decide)) ign32 (by simp)) hd
          rw [S_query_sp]
          simpa [hs] using this
        · refine ⟨Exec.printGDef w d, by simp only [List.map_cons, documentDefs, hc, ↓reduceIte], ?_⟩
          have hf : (Exec.isShortG d && !pb) = false := by
            cases hs : Exec.isShortG d with
            | false => rfl
            | true =>
              cases pb with
              | true => rfl
              | false =>
                exfalso
                apply hc
                refine ⟨hhead.mpr hs, ?_⟩
                intro h0
                have := hpl.mp h0
                cases this
          simpa [hf] using hd
    obtain ⟨d', hdd, hd'⟩ := hfirst
    rw [hdd]
    simp only [Exec.gdefsKvs]
    cases r with
    | nil => simpa [documentDefs, joinWith, Exec.gdefsKvs] using hd'
    | cons b r' =>
      obtain ⟨x, xs, hx⟩ : ∃ x xs, documentDefs (some (Exec.printGDef w d)) ((b :: r').map (Exec.printGDef w)) =
          x :: xs := by
        simp [documentDefs]
      rw [hx] at ih' ⊢
      simp only [joinWith]
      have := Lexes.append_l (Lexes.append_ign hd' (sep := [10, 10])
        (by intro x hx; simp at hx; simp [hx]) (by simp)) ih'
      simpa [List.append_assoc] using this

/-- `render_lex` for documents of executable and type-system definitions (stage 3). -/
theorem lexes_gdoc (fa dd : Bool) (defs : List GDef) (h : Exec.gdefsWf fa dd defs) :
    Lexes true (Exec.printGDoc w defs) (Exec.gdefsKvs true defs) := by
  have hne : ∀ t ∈ defs.map (Exec.printGDef w), t ≠ [] := by
    intro t ht
    simp only [List.mem_map] at ht
    obtain ⟨d, hd, rfl⟩ := ht
    exact (printGDef_facts w fa dd d (h d hd)).2.1
  unfold Exec.printGDoc
  rw [join_eq_joinWith _ _ (documentDefs_ne_nil _ hne none)]
  exact lexes_gdefs w hw hT hC fa dd defs h none true ⟨fun _ => rfl, by intro p hp; cases hp⟩

end

end Gql.Text
