import Gql.Proofs.ProtoPub
/-!
Scheduler level of P1 "announced before any data for it": the roots of the scheduler are always
inside the tracked domain of the publisher's table (`domSteps D events`, the converse of
`DomInv`), and every event that reports values or success concerns a root — so it finds its
node in the table (`EvsPre`).
-/
namespace Gql.Async
open Gql.Spec.Protocol

/-- All roots are in the tracked domain. -/
def Cover (q : WQ) (D : List Node) : Prop := ∀ n, isRoot q n → n ∈ D

theorem mem_domSteps_groupEvents_of (D : List Node) (g : Nat) (v : List GVal) (ng ns : List Nat) (n : Node)
    (h : (n ∈ D ∧ n ≠ .group g) ∨ n ∈ nodesOf ng ns) : n ∈ domSteps D (groupEvents g v ng ns) := by
  unfold groupEvents
  split
  · rw [List.nil_append, domSteps_one, mem_domStep_GS]; exact h
  · rw [List.cons_append, List.nil_append, domSteps_two, mem_domStep_GS, mem_domStep_GV]
    rcases h with ⟨h1, h2⟩ | h
    · exact Or.inl ⟨Or.inr h1, h2⟩
    · exact Or.inr h

theorem evsPre_groupEvents (D : List Node) (g : Nat) (v : List GVal) (ng ns : List Nat)
    (h : Node.group g ∈ D) : EvsPre D (groupEvents g v ng ns) := by
  unfold groupEvents
  split
  · exact ⟨h, trivial⟩
  · refine ⟨h, ?_, trivial⟩
    show Node.group g ∈ domStep D (.groupValues g v)
    rw [mem_domStep_GV]; exact Or.inl rfl

/-! ### `_task_success` -/

/-- The loop invariant of `_task_success`. -/
structure SuccPre (D : List Node) (acc : WQ × List WQEvent × List Nat × List Nat) : Prop where
  pre : EvsPre D acc.2.1
  cover : ∀ n, (isRoot acc.1 n ∨ n ∈ nodesOf acc.2.2.1 acc.2.2.2) → n ∈ domSteps D acc.2.1

theorem successStep_pre (σ : Static) (D : List Node) (acc : WQ × List WQEvent × List Nat × List Nat)
    (g : Nat) (h : SuccPre D acc) (hg : ∀ x ∈ acc.2.2.1, x ∉ acc.1.rootGroups) :
    SuccPre D (successStep σ acc g) := by
  unfold successStep
  split
  · rename_i n hn
    simp only
    split
    · rename_i hfin
      obtain ⟨hrg, hsf⟩ := finishGroupSuccess_roots σ
        { acc.1 with groupNodes := aset acc.1.groupNodes g { n with pending := n.pending - 1 } } g
        { n with pending := n.pending - 1 }
      have hev : (finishGroupSuccess σ
          { acc.1 with groupNodes := aset acc.1.groupNodes g { n with pending := n.pending - 1 } } g
          { n with pending := n.pending - 1 }).2.1 = groupEvents g _ _ _ := rfl
      have hroot : g ∈ acc.1.rootGroups := hfin.1
      have hgD : Node.group g ∈ domSteps D acc.2.1 := h.cover _ (Or.inl hroot)
      constructor
      · show EvsPre D (acc.2.1 ++ _)
        rw [evsPre_append, hev]
        exact ⟨h.pre, evsPre_groupEvents _ g _ _ _ hgD⟩
      · intro m hm
        show m ∈ domSteps D (acc.2.1 ++ _)
        rw [domSteps_append, hev]
        apply mem_domSteps_groupEvents_of
        rcases hm with hm | hm
        · left
          cases m with
          | group x =>
            simp only [isRoot] at hm
            rw [hrg, mem_oerase] at hm
            exact ⟨h.cover _ (Or.inl hm.1), fun e => hm.2 (by cases e; rfl)⟩
          | stream s =>
            simp only [isRoot] at hm
            rw [hsf.rs] at hm
            exact ⟨h.cover _ (Or.inl hm), fun e => by cases e⟩
        · rcases (nodesOf_append _ _ _ _ m).mp hm with h1 | h1
          · left
            refine ⟨h.cover _ (Or.inr h1), ?_⟩
            intro e
            subst e
            rcases (mem_nodesOf _ _ _).mp h1 with ⟨x, hx, e1⟩ | ⟨x, _, e1⟩
            · cases e1; exact hg g hx hroot
            · cases e1
          · exact Or.inr h1
    · refine ⟨h.pre, ?_⟩
      intro m hm
      apply h.cover
      rcases hm with hm | hm
      · left; cases m <;> exact hm
      · exact Or.inr hm
  · exact h

theorem taskSuccess_pre (σ : Static) (e : EnvSt) (q : WQ) (t : Nat) (r : TResult) (D : List Node)
    (g : Good σ e q) (hw : ∀ w, r.work = some w → WorkOk σ e q w) (hD : ∀ n ∈ D, isRoot q n)
    (hc : Cover q D) :
    EvsPre D (taskSuccess σ q t r).2 ∧ Cover (taskSuccess σ q t r).1 (domSteps D (taskSuccess σ q t r).2) := by
  unfold taskSuccess
  simp only
  have g1 : Good σ e (setTaskValue q t r.value) :=
    g.frame (setTaskValue_shrink q t r.value) (setTaskValue_frame q t r.value)
  have f12 : RootFrame q (integrateWork σ (setTaskValue q t r.value) r.work (some t)).1 :=
    (setTaskValue_frame q t r.value).trans (integrateWork_frame σ _ _ _)
  have g2 : Good σ (e.intro r.work) (integrateWork σ (setTaskValue q t r.value) r.work (some t)).1 := by
    cases hwk : r.work with
    | none => rw [integrateWork_none]; exact g1
    | some w =>
      have ok := hw w hwk
      exact (integrateWork_good σ e _ w (some t) g1
        ⟨ok.gnodup, ok.snodup, ok.gfresh, ok.sfresh, ok.noself, ok.plt⟩).1
  have h0 : SuccAll σ (e.intro r.work) D
      ((integrateWork σ (setTaskValue q t r.value) r.work (some t)).1, [], [], []) := by
    refine ⟨g2, ?_, trivial, List.nodup_nil, by simp, List.nodup_nil, by simp⟩
    intro n hn
    exact Or.inl ((isRoot_of_frame f12 n).mpr (hD n hn))
  have p0 : SuccPre D ((integrateWork σ (setTaskValue q t r.value) r.work (some t)).1, [], [], []) := by
    refine ⟨trivial, ?_⟩
    intro n hn
    rcases hn with hn | hn
    · exact hc n ((isRoot_of_frame f12 n).mp hn)
    · simp [nodesOf] at hn
  have hfold := foldl_inv
    (fun acc => SuccAll σ (e.intro r.work) D acc ∧ SuccPre D acc) (successStep σ) (σ.tgroups t) _ ⟨h0, p0⟩
    (fun acc x ha => ⟨successStep_all σ (e.intro r.work) D acc x ha.1,
      successStep_pre σ D acc x ha.2 (fun y hy => (ha.1.gpend y hy).2.1)⟩)
  refine ⟨hfold.2.pre, ?_⟩
  intro n hn
  exact hfold.2.cover n ((isRoot_startNewWork σ _ _ _ n).mp hn)

/-! ### `_task_failure` -/

theorem failureStep_pre (σ : Static) (D : List Node) (acc : WQ × List WQEvent) (g : Nat)
    (h : EvsPre D acc.2 ∧ Cover acc.1 (domSteps D acc.2)) :
    EvsPre D (failureStep σ acc g).2 ∧ Cover (failureStep σ acc g).1 (domSteps D (failureStep σ acc g).2) := by
  unfold failureStep
  split
  · rename_i nd hnd
    obtain ⟨hrg, hsf, hev⟩ := finishGroupFailure_roots σ acc.1 g nd
    constructor
    · show EvsPre D (acc.2 ++ [_])
      rw [evsPre_append, hev]
      exact ⟨h.1, trivial, trivial⟩
    · intro m hm
      show m ∈ domSteps D (acc.2 ++ [_])
      rw [domSteps_append, hev, domSteps_one, mem_domStep_GF]
      cases m with
      | group x =>
        simp only [isRoot] at hm
        rw [hrg, mem_oerase] at hm
        exact ⟨h.2 _ hm.1, fun e => hm.2 (by cases e; rfl)⟩
      | stream s =>
        simp only [isRoot] at hm
        rw [hsf.rs] at hm
        exact ⟨h.2 _ hm, fun e => by cases e⟩
  · exact h

theorem taskFailure_pre (σ : Static) (q : WQ) (t : Nat) (D : List Node) (hc : Cover q D) :
    EvsPre D (taskFailure σ q t).2 ∧ Cover (taskFailure σ q t).1 (domSteps D (taskFailure σ q t).2) := by
  unfold taskFailure
  refine foldl_inv (fun acc : WQ × List WQEvent => EvsPre D acc.2 ∧ Cover acc.1 (domSteps D acc.2))
    (failureStep σ) (σ.tgroups t) _ ⟨trivial, ?_⟩ (fun acc g ha => failureStep_pre σ D acc g ha)
  intro n hn
  apply hc
  cases n <;> exact hn

/-! ### `_stream_items` -/

/-- The converse of `ItemInv`. -/
def ItemCov (q0 : WQ) (acc : WQ × List IVal × List Nat × List Nat) : Prop :=
  ∀ n, isRoot acc.1 n → isRoot q0 n ∨ n ∈ nodesOf acc.2.2.1 acc.2.2.2

theorem itemStep_cov (σ : Static) (q0 : WQ) (acc : WQ × List IVal × List Nat × List Nat) (it : IResult)
    (h : ItemCov q0 acc) : ItemCov q0 (itemStep σ acc it) := by
  unfold itemStep
  simp only
  intro n hn
  have f : RootFrame acc.1 (pruneEmpty (integrateWork σ acc.1 it.work none).1
      (integrateWork σ acc.1 it.work none).2.1).1 :=
    (integrateWork_frame σ _ _ _).trans (pruneEmpty_frame _ _)
  rw [isRoot_startNewWork] at hn
  rcases hn with hn | hn
  · rcases h n ((isRoot_of_frame f n).mp hn) with h1 | h1
    · exact Or.inl h1
    · exact Or.inr ((nodesOf_append _ _ _ _ n).mpr (Or.inl h1))
  · exact Or.inr ((nodesOf_append _ _ _ _ n).mpr (Or.inr hn))

theorem streamItems_pre (σ : Static) (q : WQ) (s : Nat) (items : List IResult) (st : Bool)
    (D : List Node) (hc : Cover q D) (hs : s ∈ q.rootStreams) :
    EvsPre D (streamItems σ q s items st).2 ∧
    Cover (streamItems σ q s items st).1 (domSteps D (streamItems σ q s items st).2) := by
  unfold streamItems
  simp only
  have hfold : ItemCov q (items.foldl (itemStep σ) (q, [], [], [])) :=
    foldl_inv (ItemCov q) (itemStep σ) items _ (fun n hn => Or.inl hn)
      (fun acc it ha => itemStep_cov σ q acc it ha)
  have hsD : Node.stream s ∈ D := hc _ hs
  cases st with
  | true =>
    simp only [if_true]
    constructor
    · refine ⟨hsD, ?_, trivial⟩
      show Node.stream s ∈ domStep D _
      rw [mem_domStep_SV]; exact Or.inl (Or.inl rfl)
    · intro n hn
      rw [domSteps_two, mem_domStep_SS, mem_domStep_SV]
      cases n with
      | group g =>
        refine ⟨?_, fun e => by cases e⟩
        rcases hfold (.group g) hn with h1 | h1
        · exact Or.inl (Or.inr (hc _ h1))
        · exact Or.inr h1
      | stream x =>
        simp only [isRoot, mem_oerase] at hn
        refine ⟨?_, fun e => hn.2 (by cases e; rfl)⟩
        rcases hfold (.stream x) hn.1 with h1 | h1
        · exact Or.inl (Or.inr (hc _ h1))
        · exact Or.inr h1
  | false =>
    simp only [Bool.false_eq_true, if_false]
    constructor
    · exact ⟨hsD, trivial⟩
    · intro n hn
      rw [domSteps_one, mem_domStep_SV]
      rcases hfold n hn with h1 | h1
      · exact Or.inl (Or.inr (hc _ h1))
      · exact Or.inr h1

/-! ### every handler -/

theorem handle_pre (σ : Static) (e : EnvSt) (q : WQ) (ev : GraphEvent) (e' : EnvSt) (D : List Node)
    (g : Good σ e q) (hp : PumpInv e q) (hD : ∀ n ∈ D, isRoot q n) (hc : Cover q D)
    (hok : eventOk σ e q ev = some e') :
    EvsPre D (handleGraphEvent σ q ev).2 ∧
    Cover (handleGraphEvent σ q ev).1 (domSteps D (handleGraphEvent σ q ev).2) := by
  cases ev with
  | taskSuccess t r =>
    simp only [eventOk] at hok
    split at hok
    · rename_i hcnd
      simp only [Bool.and_eq_true] at hcnd
      exact taskSuccess_pre σ e q t r D g (workOptOk_of σ e q (some t) r.work hcnd.2) hD hc
    · cases hok
  | taskFailure t => exact taskFailure_pre σ q t D hc
  | streamItems s items st =>
    exact streamItems_pre σ q s items st D hc (streamItems_isRoot σ e q s items st e' hp hok)
  | streamSuccess s =>
    simp only [handleGraphEvent]
    split
    · rename_i hs
      refine ⟨⟨hc _ hs, trivial⟩, ?_⟩
      intro n hn
      rw [domSteps_one, mem_domStep_SS]
      cases n with
      | group x => exact ⟨hc _ hn, fun e => by cases e⟩
      | stream x =>
        simp only [isRoot, mem_oerase] at hn
        exact ⟨hc _ hn.1, fun e => hn.2 (by cases e; rfl)⟩
    · exact ⟨trivial, hc⟩
  | streamFailure s =>
    simp only [handleGraphEvent]
    refine ⟨⟨trivial, trivial⟩, ?_⟩
    intro n hn
    rw [domSteps_one, mem_domStep_SF]
    cases n with
    | group x => exact ⟨hc _ hn, fun e => by cases e⟩
    | stream x =>
      simp only [isRoot, mem_oerase] at hn
      exact ⟨hc _ hn.1, fun e => hn.2 (by cases e; rfl)⟩
  | stop => exact ⟨trivial, hc⟩

/-! ### the run invariant -/

def PreRunInv (σ : Static) (D0 : List Node) (e : EnvSt) (q : WQ) (E : List WQEvent) : Prop :=
  AnnInv σ D0 e q E ∧ Cover q (domSteps D0 E) ∧ EvsPre D0 E

theorem preRunInv_run (σ : Static) (D0 : List Node) : RunInv σ (PreRunInv σ D0) where
  handle := by
    intro e q ev e' E ⟨a, c, p⟩ hst hok
    obtain ⟨g, d, _⟩ := a
    obtain ⟨p1, c1⟩ := handle_pre σ e q ev e' (domSteps D0 E) g d.1 d.2.2 c hok
    refine ⟨(annInv_run σ D0).handle e q ev e' E ⟨g, d, ‹_›⟩ hst hok, ?_, ?_⟩
    · rw [domSteps_append]; exact c1
    · rw [evsPre_append]; exact ⟨p, p1⟩
  chan := by
    intro e q E c ⟨a, cv, p⟩
    refine ⟨(annInv_run σ D0).chan e q E c a, ?_, p⟩
    intro n hn; apply cv; cases n <;> exact hn
  defer := by
    intro e q E d ⟨a, cv, p⟩
    refine ⟨(annInv_run σ D0).defer e q E d a, ?_, p⟩
    intro n hn; apply cv; cases n <;> exact hn
  term := by
    intro e q E ⟨a, cv, p⟩ hg hs
    refine ⟨(annInv_run σ D0).term e q E a hg hs, ?_, ?_⟩
    · intro n hn
      rw [domSteps_append, domSteps_one]
      simp only [domStep, domMid, evNew, List.append_nil]
      apply cv; cases n <;> exact hn
    · rw [evsPre_append]; exact ⟨p, trivial, trivial⟩

/-- The roots of the initial queue are exactly the initially announced nodes. -/
theorem init_cover (σ : Static) (work : Option Work) :
    Cover (startRoots σ (init σ work).1) (nodesOf (init σ work).2.1 (init σ work).2.2) := by
  intro n hn
  have hn' := (isRoot_startRoots σ _ n).mp hn
  unfold init at hn' ⊢
  simp only at hn' ⊢
  cases n with
  | group g =>
    simp only [isRoot, mem_foldl_oinsert] at hn'
    rcases hn' with h | h
    · cases h
    · exact (mem_nodesOf _ _ _).mpr (Or.inl ⟨g, h, rfl⟩)
  | stream s =>
    simp only [isRoot, mem_foldl_oinsert] at hn'
    rcases hn' with h | h
    · cases h
    · exact (mem_nodesOf _ _ _).mpr (Or.inr ⟨s, h, rfl⟩)

/-- At the end of every well-formed history: every event that reports values or success of a
node found the node among the tracked (announced, not yet completed) ones. -/
theorem evsPre_final (σ : Static) (fuel : Nat) (work : Option Work) (h : List Tick)
    (hok : envOk σ fuel work h = true) :
    EvsPre (nodesOf (init σ work).2.1 (init σ work).2.2)
      (wqRun σ fuel (wqStart σ fuel work) h).2.flatten := by
  have hw : workOptOk σ {} {} none work = true := by
    unfold envOk at hok
    simp only [Bool.and_eq_true] at hok
    exact hok.1
  obtain ⟨g0, _⟩ := init_good σ work hw
  obtain ⟨hp, hst, hr⟩ := init_facts σ work
  obtain ⟨sp, sst⟩ := startRoots_pumps σ (init σ work).1
  have h0 : PreRunInv σ (nodesOf (init σ work).2.1 (init σ work).2.2) (({} : EnvSt).intro work)
      (startRoots σ (init σ work).1) [] := by
    refine ⟨⟨g0, ⟨?_, ?_, ?_⟩, trivial⟩, init_cover σ work, trivial⟩
    · intro s hs
      rw [sp, hp, List.nil_append] at hs
      exact Or.inl ((isRoot_startRoots σ _ (.stream s)).mpr hs)
    · intro hs; rw [sst, hst] at hs; cases hs
    · intro n hn'
      exact (isRoot_startRoots σ _ n).mpr (hr n hn')
  obtain ⟨e, _, _, hp⟩ := (preRunInv_run σ _).envOk fuel work h h0 hok
  exact hp

end Gql.Async
