import Gql.Proofs.OverlapClosure
import Gql.Proofs.OverlapPairSet
/-! Lemmas for C14: the rule terminates on every document (cyclic fragment spreads included)
within the recursion depth `fuelBound`. -/
namespace Gql.Exec
open Overlap

/-! ### capacity of the memo tables -/

def slot : Option Bool → Nat
  | none => 2
  | some true => 1
  | some false => 0

def univ1 (d : Doc) : List (Nat × String) :=
  (d.allSets.map (·.id)).flatMap (fun i => (spreadKeys d).map (fun k => (i, k)))

def univ2 (d : Doc) : List (String × String) :=
  (spreadKeys d).flatMap (fun a => (spreadKeys d).map (fun b => (a, b)))

def cap1 (d : Doc) (σ : St) : Nat := ((univ1 d).map (fun u => slot (assocGet σ.cfp u))).sum
def cap2 (d : Doc) (σ : St) : Nat :=
  ((univ2 d).map (fun u => slot (assocGet σ.cmp (pairKey u.1 u.2)))).sum
def cap (d : Doc) (σ : St) : Nat := cap1 d σ + cap2 d σ

theorem slot_le (o : Option Bool) : slot o ≤ 2 := by
  cases o with
  | none => simp [slot]
  | some b => cases b <;> simp [slot]

theorem sum_map_le {α : Type} (U : List α) (f : α → Nat) (c : Nat) (h : ∀ u ∈ U, f u ≤ c) :
    (U.map f).sum ≤ c * U.length := by
  induction U with
  | nil => simp
  | cons x xs ih =>
    simp only [List.map_cons, List.sum_cons, List.length_cons]
    have := ih (fun u hu => h u (List.mem_cons_of_mem _ hu))
    have := h x List.mem_cons_self
    rw [Nat.mul_succ]; omega

theorem length_product {α β : Type} (A : List α) (B : List β) :
    (A.flatMap (fun a => B.map (fun b => (a, b)))).length = A.length * B.length := by
  induction A with
  | nil => simp
  | cons x xs ih => simp [List.flatMap_cons, ih, Nat.succ_mul, Nat.add_comm]

theorem cap_init (d : Doc) : cap d {} ≤ memoCapacity d := by
  have h1 : cap1 d {} ≤ 2 * (univ1 d).length := sum_map_le _ _ 2 (fun _ _ => slot_le _)
  have h2 : cap2 d {} ≤ 2 * (univ2 d).length := sum_map_le _ _ 2 (fun _ _ => slot_le _)
  simp only [univ1, univ2, length_product, List.length_map] at h1 h2
  simp only [cap, memoCapacity]
  omega

theorem sum_map_lt {α : Type} (U : List α) (f g : α → Nat) (hle : ∀ u ∈ U, g u ≤ f u)
    (hlt : ∃ u ∈ U, g u < f u) : (U.map g).sum < (U.map f).sum := by
  induction U with
  | nil => obtain ⟨u, hu, _⟩ := hlt; cases hu
  | cons x xs ih =>
    simp only [List.map_cons, List.sum_cons]
    obtain ⟨u, hu, hlt'⟩ := hlt
    have hx := hle x List.mem_cons_self
    have hrest : (xs.map g).sum ≤ (xs.map f).sum := by
      clear ih hu hlt'
      induction xs with
      | nil => simp
      | cons y ys ih2 =>
        simp only [List.map_cons, List.sum_cons]
        have := hle y (List.mem_cons_of_mem _ List.mem_cons_self)
        have := ih2 (fun u hu => hle u (by
          rcases List.mem_cons.1 hu with rfl | hu
          · exact List.mem_cons_self
          · exact List.mem_cons_of_mem _ (List.mem_cons_of_mem _ hu)))
        omega
    rcases List.mem_cons.1 hu with rfl | hu
    · omega
    · have := ih (fun u hu => hle u (List.mem_cons_of_mem _ hu)) ⟨u, hu, hlt'⟩
      omega

/-- letting a comparison through a table strictly lowers the slot it writes -/
theorem slot_set_lt {stored : Option Bool} {q : Bool} (h : flagHas stored q = false) :
    slot (some q) < slot stored := by
  cases stored with
  | none => cases q <;> simp [slot]
  | some r =>
    obtain ⟨hr, hq⟩ := flagHas_false_of_some h
    subst hr hq
    simp [slot]

theorem mem_univ1 {d : Doc} {i : Nat} {k : String} (hi : i ∈ d.allSets.map (·.id))
    (hk : k ∈ spreadKeys d) : (i, k) ∈ univ1 d := by
  simp only [univ1, List.mem_flatMap, List.mem_map]
  obtain ⟨ss, hss, rfl⟩ := List.mem_map.1 hi
  exact ⟨ss.id, ⟨ss, hss, rfl⟩, k, hk, rfl⟩

theorem mem_univ2 {d : Doc} {a b : String} (ha : a ∈ spreadKeys d) (hb : b ∈ spreadKeys d) :
    (a, b) ∈ univ2 d := by
  simp only [univ2, List.mem_flatMap, List.mem_map]
  exact ⟨a, ha, b, hb, rfl⟩

theorem cap_cfpAdd {d : Doc} {σ : St} {i : Nat} {k : String} {q : Bool}
    (hmem : (i, k) ∈ univ1 d) (h : σ.cfpHas i k q = false) :
    cap d (σ.cfpAdd i k q) < cap d σ := by
  have h2 : cap2 d (σ.cfpAdd i k q) = cap2 d σ := rfl
  have h1 : cap1 d (σ.cfpAdd i k q) < cap1 d σ := by
    apply sum_map_lt
    · intro u _
      by_cases hu : (i, k) = u
      · subst hu
        simp only [St.cfpAdd, assocGet_assocSet_same]
        exact Nat.le_of_lt (slot_set_lt h)
      · simp only [St.cfpAdd, assocGet_assocSet_other _ _ _ _ hu]; exact Nat.le_refl _
    · refine ⟨(i, k), hmem, ?_⟩
      simp only [St.cfpAdd, assocGet_assocSet_same]
      exact slot_set_lt h
  simp only [cap]; omega

theorem cap_cmpAdd {d : Doc} {σ : St} {a b : String} {q : Bool}
    (hmem : (a, b) ∈ univ2 d) (h : σ.cmpHas a b q = false) :
    cap d (σ.cmpAdd a b q) < cap d σ := by
  have h1 : cap1 d (σ.cmpAdd a b q) = cap1 d σ := rfl
  have h2 : cap2 d (σ.cmpAdd a b q) < cap2 d σ := by
    apply sum_map_lt
    · intro u _
      by_cases hu : pairKey a b = pairKey u.1 u.2
      · rw [← hu]
        simp only [St.cmpAdd, assocGet_assocSet_same]
        exact Nat.le_of_lt (slot_set_lt h)
      · simp only [St.cmpAdd, assocGet_assocSet_other _ _ _ _ hu]; exact Nat.le_refl _
    · refine ⟨(a, b), hmem, ?_⟩
      simp only [St.cmpAdd, assocGet_assocSet_same]
      exact slot_set_lt h
  simp only [cap]; omega

/-! ### the cache -/

theorem getFields_ok {s : Schema} {d : Doc} (hU : d.IdsUnique) {σ : St} (hc : CacheOK d σ)
    (p : Option String) {ss : SelSet} (hss : ss ∈ d.allSets) :
    CacheOK d (getFields s d σ p ss).1 ∧ CachedFrom d ss (getFields s d σ p ss).2 ∧
      cap d (getFields s d σ p ss).1 = cap d σ := by
  unfold getFields
  cases hg : assocGet σ.cache ss.id with
  | some c =>
    obtain ⟨ss', hss', hid, hcf⟩ := hc _ _ hg
    have : ss' = ss := hU _ hss' _ hss hid
    subst this
    exact ⟨hc, hcf, rfl⟩
  | none =>
    refine ⟨?_, computeFields_ok s d p ss, rfl⟩
    intro i c hi
    by_cases hid : ss.id = i
    · subst hid
      simp only [assocGet_assocSet_same, Option.some.injEq] at hi
      subst hi
      exact ⟨ss, hss, rfl, computeFields_ok s d p ss⟩
    · simp only [assocGet_assocSet_other _ _ _ _ hid] at hi
      exact hc i c hi

theorem getReferenced_ok {s : Schema} {d : Doc} (hU : d.IdsUnique) {σ : St} (hc : CacheOK d σ)
    {fr : FragDef} (hss : fr.ss ∈ d.allSets) :
    CacheOK d (getReferenced s d σ fr).1 ∧ CachedFrom d fr.ss (getReferenced s d σ fr).2 ∧
      cap d (getReferenced s d σ fr).1 = cap d σ := by
  unfold getReferenced
  cases hg : assocGet σ.cache fr.ss.id with
  | some c =>
    obtain ⟨ss', hss', hid, hcf⟩ := hc _ _ hg
    have : ss' = fr.ss := hU _ hss' _ hss hid
    subst this
    exact ⟨hc, hcf, rfl⟩
  | none => exact getFields_ok hU hc _ hss

/-! ### running a piece of the rule -/

/-- From any good state whose memo capacity is at most `c0`, `r` returns (no fuel exhaustion), in
a good state, without increasing the capacity. -/
def Runs (d : Doc) (c0 : Nat) (r : St → Res) : Prop :=
  ∀ σ, CacheOK d σ → cap d σ ≤ c0 →
    ∃ σ' cs, r σ = some (σ', cs) ∧ CacheOK d σ' ∧ cap d σ' ≤ cap d σ

theorem Runs.mono {d : Doc} {c0 c1 : Nat} {r : St → Res} (h : Runs d c0 r) (hc : c1 ≤ c0) :
    Runs d c1 r := fun σ h1 h2 => h σ h1 (Nat.le_trans h2 hc)

theorem runs_pure {d : Doc} {c0 : Nat} (cs : List Conflict) :
    Runs d c0 (fun σ => some (σ, cs)) := fun σ h _ => ⟨σ, cs, rfl, h, Nat.le_refl _⟩

theorem runs_andThen {d : Doc} {c0 : Nat} {r k : St → Res} (hr : Runs d c0 r)
    (hk : Runs d c0 k) : Runs d c0 (fun σ => andThen (r σ) k) := by
  intro σ h1 h2
  obtain ⟨σ1, c1, e1, g1, l1⟩ := hr σ h1 h2
  obtain ⟨σ2, c2, e2, g2, l2⟩ := hk σ1 g1 (Nat.le_trans l1 h2)
  exact ⟨σ2, c1 ++ c2, by simp [andThen, e1, e2], g2, Nat.le_trans l2 l1⟩

theorem runs_forEach {d : Doc} {c0 : Nat} {α : Type} (xs : List α) (f : α → St → Res)
    (hf : ∀ x ∈ xs, Runs d c0 (f x)) : Runs d c0 (forEach xs f) := by
  induction xs with
  | nil => exact runs_pure []
  | cons x xs ih =>
    intro σ h1 h2
    obtain ⟨σ1, c1, e1, g1, l1⟩ := hf x List.mem_cons_self σ h1 h2
    obtain ⟨σ2, c2, e2, g2, l2⟩ :=
      ih (fun y hy => hf y (List.mem_cons_of_mem _ hy)) σ1 g1 (Nat.le_trans l1 h2)
    exact ⟨σ2, c1 ++ c2, by simp [forEach, e1, e2], g2, Nat.le_trans l2 l1⟩

/-- a field node of the document: its sub-selection is a selection set of the document -/
def NodeIn (d : Doc) (n : FieldNode) : Prop := n.hasSub = true → n.subSet ∈ d.allSets

/-- all field nodes of a field map are of the document and nest at most `k` deep -/
def FmOK (d : Doc) (k : Nat) (fm : FieldMap) : Prop :=
  fm.id ∈ d.allSets.map (·.id) ∧
    ∀ rn es, (rn, es) ∈ fm.entries → ∀ e ∈ es, NodeIn d e.node ∧ nodeDepth e.node ≤ k

def SpOK (d : Doc) (sp : Spread) : Prop := sp.key ∈ spreadKeys d

theorem cachedFrom_facts {d : Doc} {ss : SelSet} (hss : ss ∈ d.allSets) {c : Cached}
    (h : CachedFrom d ss c) : FmOK d (selsDepth ss.sels) c.1 ∧ ∀ sp ∈ c.2, SpOK d sp := by
  obtain ⟨hid, hf, hs⟩ := h
  refine ⟨⟨?_, fun rn es hm e he => ?_⟩, fun sp hsp => ?_⟩
  · rw [hid]; exact List.mem_map.2 ⟨ss, hss, rfl⟩
  · have := Doc.node_facts hss (hf rn es hm e he)
    exact ⟨this.1, this.2⟩
  · obtain ⟨h1, h2⟩ := hs sp hsp
    have hn := Doc.allSets_spreads hss h1
    simp only [SpOK, spreadKeys, List.mem_map]
    exact ⟨sp.name, hn, by rw [← h2]⟩

theorem FmOK.mono {d : Doc} {k k' : Nat} {fm : FieldMap} (h : FmOK d k fm) (hk : k ≤ k') :
    FmOK d k' fm :=
  ⟨h.1, fun rn es hm e he => ⟨(h.2 rn es hm e he).1, Nat.le_trans (h.2 rn es hm e he).2 hk⟩⟩

theorem assocGet_mem {κ β : Type} [BEq κ] {m : List (κ × β)} {k : κ} {v : β}
    (h : assocGet m k = some v) : ∃ k', (k', v) ∈ m := by
  simp only [assocGet, Option.map_eq_some_iff] at h
  obtain ⟨x, hx, rfl⟩ := h
  exact ⟨x.1, List.mem_of_find?_eq_some hx⟩

theorem betweenPairs_mem {fm1 fm2 : FieldMap} {t : String × FieldEntry × FieldEntry}
    (h : t ∈ betweenPairs fm1 fm2) :
    (∃ rn es, (rn, es) ∈ fm1.entries ∧ t.2.1 ∈ es) ∧
      (∃ rn es, (rn, es) ∈ fm2.entries ∧ t.2.2 ∈ es) := by
  simp only [betweenPairs, List.mem_flatMap] at h
  obtain ⟨⟨rn, fs1⟩, hm1, h⟩ := h
  simp only at h
  cases hg : fmGet fm2 rn with
  | none => simp [hg] at h
  | some fs2 =>
    simp only [hg, List.mem_flatMap, List.mem_map] at h
    obtain ⟨f1, hf1, f2, hf2, rfl⟩ := h
    obtain ⟨k', hk'⟩ := assocGet_mem hg
    exact ⟨⟨rn, fs1, hm1, hf1⟩, ⟨k', fs2, hk', hf2⟩⟩

def W (d : Doc) : Nat := 2 * d.depth + 2

section main
variable (env : Env) (hU : env.d.IdsUnique)
include hU

/-- Induction on the fuel: enough fuel for the current memo capacity and nesting depth. -/
theorem runs_all : ∀ n : Nat,
    (∀ c0 excl rn e1 e2, NodeIn env.d e1.node → NodeIn env.d e2.node →
      nodeDepth e1.node ≤ env.d.depth →
      c0 * W env.d + 2 * nodeDepth e1.node + 1 ≤ n →
      Runs env.d c0 (findConflict env n excl rn e1 e2)) ∧
    (∀ c0 excl p1 ss1 p2 ss2, ss1 ∈ env.d.allSets → ss2 ∈ env.d.allSets →
      c0 * W env.d + 2 * selsDepth ss1.sels + 2 ≤ n →
      Runs env.d c0 (findConflictsBetweenSubSelectionSets env n excl p1 ss1 p2 ss2)) ∧
    (∀ c0 excl fm sp, FmOK env.d env.d.depth fm → SpOK env.d sp →
      c0 * W env.d + 1 ≤ n →
      Runs env.d c0 (collectConflictsBetweenFieldsAndFragment env n excl fm sp)) ∧
    (∀ c0 excl sp1 sp2, SpOK env.d sp1 → SpOK env.d sp2 →
      c0 * W env.d + 1 ≤ n →
      Runs env.d c0 (collectConflictsBetweenFragments env n excl sp1 sp2)) := by
  intro n
  induction n with
  | zero =>
    refine ⟨?_, ?_, ?_, ?_⟩ <;> intros <;> omega
  | succ n ih =>
    obtain ⟨ihFC, ihBS, ihFF, ihFR⟩ := ih
    -- comparing two field maps whose nodes nest at most `k` deep
    have between : ∀ (c0 k : Nat) (excl : Bool) (fm1 fm2 : FieldMap), FmOK env.d k fm1 →
        FmOK env.d env.d.depth fm2 → k ≤ env.d.depth → c0 * W env.d + 2 * k + 1 ≤ n →
        Runs env.d c0 (forEach (betweenPairs fm1 fm2)
          (fun t => findConflict env n excl t.1 t.2.1 t.2.2)) := by
      intro c0 k excl fm1 fm2 h1 h2 hk hn
      apply runs_forEach
      intro t ht
      obtain ⟨⟨rn1, es1, hm1, he1⟩, ⟨rn2, es2, hm2, he2⟩⟩ := betweenPairs_mem ht
      have a1 := h1.2 rn1 es1 hm1 _ he1
      have a2 := h2.2 rn2 es2 hm2 _ he2
      exact ihFC c0 excl t.1 t.2.1 t.2.2 a1.1 a2.1 (by omega) (by omega)
    refine ⟨?_, ?_, ?_, ?_⟩
    · -- find_conflict
      intro c0 excl rn e1 e2 hn1 hn2 hd hfuel σ hσ hcap
      simp only [findConflict]
      split
      · exact ⟨σ, _, rfl, hσ, Nat.le_refl _⟩
      · split
        · exact ⟨σ, _, rfl, hσ, Nat.le_refl _⟩
        · split
          · exact ⟨σ, _, rfl, hσ, Nat.le_refl _⟩
          · split
            · exact ⟨σ, _, rfl, hσ, Nat.le_refl _⟩
            · split
              · rename_i hsub
                simp only [Bool.and_eq_true] at hsub
                have hs1 := hn1 hsub.1
                have hs2 := hn2 hsub.2
                have hdep : selsDepth e1.node.subSet.sels + 1 = nodeDepth e1.node := by
                  simp [FieldNode.subSet, nodeDepth]; omega
                obtain ⟨σ', cs, e, g, l⟩ :=
                  ihBS c0 _ (e1.defTy.map Ty.named) _ (e2.defTy.map Ty.named) _ hs1 hs2
                    (by omega) σ hσ hcap
                rw [e]
                exact ⟨σ', _, rfl, g, l⟩
              · exact ⟨σ, _, rfl, hσ, Nat.le_refl _⟩
    · -- find_conflicts_between_sub_selection_sets
      intro c0 excl p1 ss1 p2 ss2 h1 h2 hfuel σ hσ hcap
      simp only [findConflictsBetweenSubSelectionSets]
      obtain ⟨g1, f1, l1⟩ := getFields_ok (s := env.s) hU hσ p1 h1
      generalize getFields env.s env.d σ p1 ss1 = r1 at g1 f1 l1 ⊢
      obtain ⟨σ1, fm1, sps1⟩ := r1
      obtain ⟨g2, f2, l2⟩ := getFields_ok (s := env.s) hU g1 p2 h2
      generalize getFields env.s env.d σ1 p2 ss2 = r2 at g2 f2 l2 ⊢
      obtain ⟨σ2, fm2, sps2⟩ := r2
      simp only at g1 f1 l1 g2 f2 l2 ⊢
      obtain ⟨a1, b1⟩ := cachedFrom_facts h1 f1
      obtain ⟨a2, b2⟩ := cachedFrom_facts h2 f2
      have d1 := Doc.allSets_depth h1
      have d2 := Doc.allSets_depth h2
      have hW : 2 ≤ W env.d := by simp [W]
      have R : Runs env.d c0 (fun σ =>
          andThen (forEach (betweenPairs fm1 fm2)
            (fun t => findConflict env n excl t.1 t.2.1 t.2.2) σ) fun σ =>
          andThen (forEach sps2
            (fun sp => collectConflictsBetweenFieldsAndFragment env n excl fm1 sp) σ) fun σ =>
          andThen (forEach sps1
            (fun sp => collectConflictsBetweenFieldsAndFragment env n excl fm2 sp) σ) fun σ =>
          forEach (sps1.flatMap (fun a => sps2.map (fun b => (a, b))))
            (fun p => collectConflictsBetweenFragments env n excl p.1 p.2) σ) := by
        apply runs_andThen
        · exact between c0 _ excl fm1 fm2 a1 (a2.mono d2) d1 (by omega)
        apply runs_andThen
        · exact runs_forEach _ _ (fun sp hsp =>
            ihFF c0 excl fm1 sp (a1.mono d1) (b2 sp hsp) (by omega))
        apply runs_andThen
        · exact runs_forEach _ _ (fun sp hsp =>
            ihFF c0 excl fm2 sp (a2.mono d2) (b1 sp hsp) (by omega))
        · apply runs_forEach
          intro pr hpr
          simp only [List.mem_flatMap, List.mem_map] at hpr
          obtain ⟨a, ha, b, hb, rfl⟩ := hpr
          exact ihFR c0 excl a b (b1 a ha) (b2 b hb) (by omega)
      obtain ⟨σ', cs, e, g, l⟩ := R σ2 g2 (by omega)
      exact ⟨σ', cs, e, g, by omega⟩
    · -- collect_conflicts_between_fields_and_fragment
      intro c0 excl fm sp hfm hsp hfuel σ hσ hcap
      simp only [collectConflictsBetweenFieldsAndFragment]
      split
      · exact ⟨σ, _, rfl, hσ, Nat.le_refl _⟩
      · rename_i hhas
        have hhas' : σ.cfpHas fm.id sp.key excl = false := by simpa using hhas
        have hlt := cap_cfpAdd (d := env.d) (mem_univ1 hfm.1 hsp) hhas'
        have hσ1 : CacheOK env.d (σ.cfpAdd fm.id sp.key excl) := hσ
        generalize σ.cfpAdd fm.id sp.key excl = σ1 at hlt hσ1 ⊢
        have hc0 : 1 ≤ c0 := by omega
        have hmul : (c0 - 1) * W env.d + W env.d = c0 * W env.d := by
          rw [← Nat.succ_mul]; congr 1; omega
        have hW : W env.d = 2 * env.d.depth + 2 := rfl
        cases hfr : env.d.getFragment sp.name with
        | none => exact ⟨σ1, _, rfl, hσ1, by omega⟩
        | some fr =>
          dsimp only
          have hss := Doc.getFragment_mem hfr
          obtain ⟨g2, f2, l2⟩ := getReferenced_ok (s := env.s) hU hσ1 hss
          generalize getReferenced env.s env.d σ1 fr = r2 at g2 f2 l2 ⊢
          obtain ⟨σ2, fm2, sps⟩ := r2
          simp only at g2 f2 l2 ⊢
          obtain ⟨a2, b2⟩ := cachedFrom_facts hss f2
          have d2 := Doc.allSets_depth hss
          split
          · exact ⟨σ2, _, rfl, g2, by omega⟩
          · have R : Runs env.d (c0 - 1) (fun σ =>
                andThen (forEach (betweenPairs fm fm2)
                  (fun t => findConflict env n excl t.1 t.2.1 t.2.2) σ) fun σ =>
                forEach sps
                  (fun sp2 => collectConflictsBetweenFieldsAndFragment env n excl fm sp2) σ) := by
              apply runs_andThen
              · exact between (c0 - 1) _ excl fm fm2 hfm (a2.mono d2) (Nat.le_refl _) (by omega)
              · exact runs_forEach _ _ (fun sp2 hsp2 =>
                  ihFF (c0 - 1) excl fm sp2 hfm (b2 sp2 hsp2) (by omega))
            obtain ⟨σ', cs, e, g, l⟩ := R σ2 g2 (by omega)
            exact ⟨σ', cs, e, g, by omega⟩
    · -- collect_conflicts_between_fragments
      intro c0 excl sp1 sp2 hs1 hs2 hfuel σ hσ hcap
      simp only [collectConflictsBetweenFragments]
      split
      · exact ⟨σ, _, rfl, hσ, Nat.le_refl _⟩
      · split
        · exact ⟨σ, _, rfl, hσ, Nat.le_refl _⟩
        · rename_i hhas
          have hhas' : σ.cmpHas sp1.key sp2.key excl = false := by simpa using hhas
          have hlt := cap_cmpAdd (d := env.d) (mem_univ2 hs1 hs2) hhas'
          have hσ1 : CacheOK env.d (σ.cmpAdd sp1.key sp2.key excl) := hσ
          generalize σ.cmpAdd sp1.key sp2.key excl = σ1 at hlt hσ1 ⊢
          have hc0 : 1 ≤ c0 := by omega
          have hmul : (c0 - 1) * W env.d + W env.d = c0 * W env.d := by
            rw [← Nat.succ_mul]; congr 1; omega
          have hW : W env.d = 2 * env.d.depth + 2 := rfl
          split
          · rename_i fr1 fr2 hfr1 hfr2
            have hss1 := Doc.getFragment_mem hfr1
            have hss2 := Doc.getFragment_mem hfr2
            obtain ⟨g1, f1, l1⟩ := getReferenced_ok (s := env.s) hU hσ1 hss1
            generalize getReferenced env.s env.d σ1 fr1 = r1 at g1 f1 l1 ⊢
            obtain ⟨σ2, fm1, sps1⟩ := r1
            obtain ⟨g2, f2, l2⟩ := getReferenced_ok (s := env.s) hU g1 hss2
            generalize getReferenced env.s env.d σ2 fr2 = r2 at g2 f2 l2 ⊢
            obtain ⟨σ3, fm2, sps2⟩ := r2
            simp only at g1 f1 l1 g2 f2 l2 ⊢
            obtain ⟨a1, b1⟩ := cachedFrom_facts hss1 f1
            obtain ⟨a2, b2⟩ := cachedFrom_facts hss2 f2
            have d1 := Doc.allSets_depth hss1
            have d2 := Doc.allSets_depth hss2
            have R : Runs env.d (c0 - 1) (fun σ =>
                andThen (forEach (betweenPairs fm1 fm2)
                  (fun t => findConflict env n excl t.1 t.2.1 t.2.2) σ) fun σ =>
                andThen (forEach sps2
                  (fun r2 => collectConflictsBetweenFragments env n excl sp1 r2) σ) fun σ =>
                forEach sps1 (fun r1 => collectConflictsBetweenFragments env n excl r1 sp2) σ) := by
              apply runs_andThen
              · exact between (c0 - 1) _ excl fm1 fm2 (a1.mono d1) (a2.mono d2) (Nat.le_refl _)
                  (by omega)
              apply runs_andThen
              · exact runs_forEach _ _ (fun r2 hr2 =>
                  ihFR (c0 - 1) excl sp1 r2 hs1 (b2 r2 hr2) (by omega))
              · exact runs_forEach _ _ (fun r1 hr1 =>
                  ihFR (c0 - 1) excl r1 sp2 (b1 r1 hr1) hs2 (by omega))
            obtain ⟨σ', cs, e, g, l⟩ := R σ3 g2 (by omega)
            exact ⟨σ', cs, e, g, by omega⟩
          · exact ⟨σ1, _, rfl, hσ1, by omega⟩

end main

theorem pairsOf_mem {α : Type} {xs : List α} {p : α × α} (h : p ∈ pairsOf xs) :
    p.1 ∈ xs ∧ p.2 ∈ xs := by
  induction xs with
  | nil => simp [pairsOf] at h
  | cons x xs ih =>
    simp only [pairsOf, List.mem_append, List.mem_map] at h
    rcases h with ⟨y, hy, rfl⟩ | h
    · exact ⟨List.mem_cons_self, List.mem_cons_of_mem _ hy⟩
    · exact ⟨List.mem_cons_of_mem _ (ih h).1, List.mem_cons_of_mem _ (ih h).2⟩

theorem withinPairs_mem {fm : FieldMap} {t : String × FieldEntry × FieldEntry}
    (h : t ∈ withinPairs fm) : ∃ rn es, (rn, es) ∈ fm.entries ∧ t.2.1 ∈ es ∧ t.2.2 ∈ es := by
  simp only [withinPairs, List.mem_flatMap, List.mem_map] at h
  obtain ⟨⟨rn, fs⟩, hm, p, hp, rfl⟩ := h
  exact ⟨rn, fs, hm, (pairsOf_mem hp).1, (pairsOf_mem hp).2⟩

theorem withinTasks_mem {sps : List Spread} {t : Task} (h : t ∈ withinTasks sps) :
    match t with
    | .fieldsFrag sp => sp ∈ sps
    | .frags a b => a ∈ sps ∧ b ∈ sps := by
  induction sps with
  | nil => simp [withinTasks] at h
  | cons sp rest ih =>
    simp only [withinTasks, List.mem_cons, List.mem_append, List.mem_map] at h
    rcases h with rfl | ⟨b, hb, rfl⟩ | h
    · exact List.mem_cons_self
    · exact ⟨List.mem_cons_self, List.mem_cons_of_mem _ hb⟩
    · have := ih h
      cases t with
      | fieldsFrag sp' => exact List.mem_cons_of_mem _ this
      | frags a b => exact ⟨List.mem_cons_of_mem _ this.1, List.mem_cons_of_mem _ this.2⟩

section top
variable (env : Env) (hU : env.d.IdsUnique)
include hU

theorem within_runs (n c0 : Nat) (parent : Option String) {ss : SelSet}
    (hss : ss ∈ env.d.allSets) (hfuel : c0 * W env.d + 2 * env.d.depth + 1 ≤ n) :
    Runs env.d c0 (findConflictsWithinSelectionSet env n parent ss) := by
  obtain ⟨hFC, _, hFF, hFR⟩ := runs_all env hU n
  intro σ hσ hcap
  simp only [findConflictsWithinSelectionSet]
  obtain ⟨g1, f1, l1⟩ := getFields_ok (s := env.s) hU hσ parent hss
  generalize getFields env.s env.d σ parent ss = r1 at g1 f1 l1 ⊢
  obtain ⟨σ1, fm, sps⟩ := r1
  simp only at g1 f1 l1 ⊢
  obtain ⟨a1, b1⟩ := cachedFrom_facts hss f1
  have d1 := Doc.allSets_depth hss
  have R : Runs env.d c0 (fun σ =>
      andThen (forEach (withinPairs fm)
        (fun t => findConflict env n false t.1 t.2.1 t.2.2) σ) fun σ =>
      forEach (withinTasks sps) (fun t =>
        match t with
        | .fieldsFrag sp => collectConflictsBetweenFieldsAndFragment env n false fm sp
        | .frags a b => collectConflictsBetweenFragments env n false a b) σ) := by
    apply runs_andThen
    · apply runs_forEach
      intro t ht
      obtain ⟨rn, es, hm, h1, h2⟩ := withinPairs_mem ht
      have x1 := a1.2 rn es hm _ h1
      have x2 := a1.2 rn es hm _ h2
      exact hFC c0 false t.1 t.2.1 t.2.2 x1.1 x2.1 (by omega) (by omega)
    · apply runs_forEach
      intro t ht
      have := withinTasks_mem ht
      cases t with
      | fieldsFrag sp => exact hFF c0 false fm sp (a1.mono d1) (b1 sp this) (by omega)
      | frags a b => exact hFR c0 false a b (b1 a this.1) (b1 b this.2) (by omega)
  obtain ⟨σ', cs, e, g, l⟩ := R σ1 g1 (by omega)
  exact ⟨σ', cs, e, g, by omega⟩

mutual
theorem visitSel_runs (n c0 : Nat) (hfuel : c0 * W env.d + 2 * env.d.depth + 1 ≤ n) :
    ∀ (x : Sel) (parent : Option String), x.subSets ⊆ env.d.allSets →
      Runs env.d c0 (visitSel env n parent x)
  | .field id al name args st hasSub subId sub, parent, h => by
    cases hasSub with
    | false =>
      intro σ hσ _
      exact ⟨σ, [], by simp [visitSel], hσ, Nat.le_refl _⟩
    | true =>
      have h1 : (⟨subId, sub⟩ : SelSet) ∈ env.d.allSets := h (by simp [Sel.subSets])
      have h2 : selsSubSets sub ⊆ env.d.allSets := fun a ha => h (by simp [Sel.subSets, ha])
      have R := runs_andThen
        (within_runs env hU n c0
          (compositeOrNone env.s ((env.s.fieldDef parent name).map Ty.named)) h1 hfuel)
        (visitSels_runs n c0 hfuel sub
          (compositeOrNone env.s ((env.s.fieldDef parent name).map Ty.named)) h2)
      intro σ hσ hc
      simpa [visitSel] using R σ hσ hc
  | .inline tc ssId sels, parent, h => by
    have h1 : (⟨ssId, sels⟩ : SelSet) ∈ env.d.allSets := h (by simp [Sel.subSets])
    have h2 : selsSubSets sels ⊆ env.d.allSets := fun a ha => h (by simp [Sel.subSets, ha])
    have R := fun p => runs_andThen (within_runs env hU n c0 p h1 hfuel)
      (visitSels_runs n c0 hfuel sels p h2)
    intro σ hσ hc
    simpa [visitSel] using R _ σ hσ hc
  | .spread _, _, _ => by
    intro σ hσ _
    exact ⟨σ, [], by simp [visitSel], hσ, Nat.le_refl _⟩
theorem visitSels_runs (n c0 : Nat) (hfuel : c0 * W env.d + 2 * env.d.depth + 1 ≤ n) :
    ∀ (xs : List Sel) (parent : Option String), selsSubSets xs ⊆ env.d.allSets →
      Runs env.d c0 (visitSels env n parent xs)
  | [], _, _ => by
    intro σ hσ _
    exact ⟨σ, [], by simp [visitSels], hσ, Nat.le_refl _⟩
  | x :: xs, parent, h => by
    have R := runs_andThen
      (visitSel_runs n c0 hfuel x parent (fun a ha => h (by simp [selsSubSets, ha])))
      (visitSels_runs n c0 hfuel xs parent (fun a ha => h (by simp [selsSubSets, ha])))
    intro σ hσ hc
    simpa [visitSels] using R σ hσ hc
end

theorem visitDefn_runs (n c0 : Nat) (hfuel : c0 * W env.d + 2 * env.d.depth + 1 ≤ n)
    {df : Defn} (hdf : df ∈ env.d) : Runs env.d c0 (visitDefn env n df) := by
  have h1 : df.ss ∈ env.d.allSets := by
    simp only [Doc.allSets, List.mem_flatMap, List.mem_cons]
    exact ⟨df, hdf, Or.inl rfl⟩
  have h2 : selsSubSets df.ss.sels ⊆ env.d.allSets := Doc.allSets_closed h1
  cases df with
  | op root ss =>
    have R := fun p => runs_andThen (within_runs env hU n c0 p h1 hfuel)
      (visitSels_runs env hU n c0 hfuel ss.sels p h2)
    intro σ hσ hc
    simpa [visitDefn, Defn.ss] using R _ σ hσ hc
  | frag f =>
    have R := fun p => runs_andThen (within_runs env hU n c0 p h1 hfuel)
      (visitSels_runs env hU n c0 hfuel f.ss.sels p h2)
    intro σ hσ hc
    simpa [visitDefn, Defn.ss] using R _ σ hσ hc

end top

/-- The rule returns on every document, with recursion depth `fuelBound d` (or more). -/
theorem implConflictsFuel_isSome (le : String → String → Bool) (s : Schema) (d : Doc)
    (hU : d.IdsUnique) (n : Nat) (hn : fuelBound d ≤ n) :
    (implConflictsFuel le n s d).isSome = true := by
  have hfuel : memoCapacity d * W d + 2 * d.depth + 1 ≤ n := by
    have : fuelBound d = memoCapacity d * W d + (2 * d.depth + 2) := by
      simp only [fuelBound, W, Nat.succ_mul]
    omega
  have R : Runs d (memoCapacity d) (forEach d (visitDefn ⟨s, d, le⟩ n)) :=
    runs_forEach _ _ (fun df hdf => visitDefn_runs ⟨s, d, le⟩ hU n _ hfuel hdf)
  have h0 : CacheOK d {} := by
    intro i c h
    simp [assocGet] at h
  obtain ⟨σ', cs, e, _, _⟩ := R {} h0 (cap_init d)
  simp [implConflictsFuel, e]

end Gql.Exec
