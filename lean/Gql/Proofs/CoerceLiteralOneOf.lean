import Gql.Proofs.CoerceLiteralObj
/-
The OneOf post-checks of `coerce_input_literal` and `validate_input_literal` agree (C15).
-/
namespace Gql.Values
open Gql

theorem filterMap_none {α β : Type} {l : List α} {φ : α → Option β} (h : ∀ a ∈ l, φ a = none) :
    l.filterMap φ = [] := by
  rw [List.filterMap_eq_nil_iff]; exact h

theorem coercedIsNone_self (k : List Nat) (cv : PyVal) : coercedIsNone k cv k = true ↔ cv = .none := by
  cases cv <;> simp [coercedIsNone, PyVal.dictGet]

theorem oneOfLit_agree {fs : List (List Nat × Lit)} {fields : List Field} (g : Field → Out Unit FieldRes)
    (E : Field → List Path) (path : Path)
    (hfsn : (fs.map (·.1)).Nodup) (hnames : (fields.map (·.name)).Nodup)
    (hunk : fs.any (fun kv => !fields.any (fun f => f.name = kv.1)) = false)
    (hnone : ∀ f ∈ fields, litGetLast fs f.name = none → g f = .ok .skip ∧ E f = [])
    (hsome : ∀ f ∈ fields, ∀ fv, litGetLast fs f.name = some fv →
      (E f = [] ∧ ∃ cv, g f = .ok (.entry f.name cv) ∧ (cv = .none ↔ fv.isNull = true)) ∨
      (E f ≠ [] ∧ (g f = .ok .skip ∨ g f = .ok (.entry f.name .none))))
    {es : List (List Nat × PyVal)} (hes : seqFields (fields.map g) = .ok (some es)) :
    ∃ cv, oneOfLiteral fs es = .ok cv ∧
      ((fields.flatMap E = [] ∧
        oneOfLiteralErrors path (fs.filter fun kv => fields.any (fun f => f.name = kv.1)) = []) ↔ cv ≠ .undefined) := by
  have hknown : (fs.filter fun kv => fields.any (fun f => f.name = kv.1)) = fs := by
    rw [List.filter_eq_self]
    intro kv hkv
    have := List.any_eq_false.1 hunk kv hkv
    simpa using this
  rw [hknown]
  have hln := litNames_of_nodup hfsn
  rcases fs with _ | ⟨⟨k0, node⟩, _ | ⟨b, rest⟩⟩
  · refine ⟨.undefined, ?_, by simp [oneOfLiteralErrors]⟩
    simp [oneOfLiteral, hln]
  rotate_left
  · refine ⟨.undefined, ?_, by simp [oneOfLiteralErrors]⟩
    simp [oneOfLiteral, hln]
  · -- exactly one field node
    have hdecl : ∃ f0 ∈ fields, f0.name = k0 := by
      have := List.any_eq_false.1 hunk (k0, node) (by simp)
      have h2 : fields.any (fun f => f.name = k0) = true := by simpa using this
      obtain ⟨f, hf, hfe⟩ := List.any_eq_true.1 h2
      exact ⟨f, hf, by simpa using hfe⟩
    obtain ⟨f0, hf0, hf0n⟩ := hdecl
    have hget0 : litGetLast [(k0, node)] f0.name = some node := by
      rw [hf0n]; exact litGetLast_of_mem_nodup hfsn (by simp)
    have hgetNone : ∀ f ∈ fields, f.name ≠ f0.name → litGetLast [(k0, node)] f.name = none := by
      intro f _ hne
      apply litGetLast_none
      intro v hv
      simp only [List.mem_singleton, Prod.mk.injEq] at hv
      exact hne (hv.1.trans hf0n.symm)
    have hotherE : ∀ f ∈ fields, f.name ≠ f0.name → E f = [] ∧ entryOf (g f) = none := by
      intro f hf hne
      obtain ⟨hg, hE⟩ := hnone f hf (hgetNone f hf hne)
      exact ⟨hE, by rw [hg]; rfl⟩
    have hnode : nodeIsNull [(k0, node)] k0 = node.isNull := by
      have hg : litGetLast [(k0, node)] k0 = some node := by simpa [hf0n] using hget0
      unfold nodeIsNull
      rw [hg]
    have hnames1 : litNames [(k0, node)] = [k0] := by rw [hln]; rfl
    have hes' := seqFields_some hes
    rw [List.filterMap_map] at hes'
    rcases hsome f0 hf0 node hget0 with ⟨hE0, cv, hg0, hcn⟩ | ⟨hE0, hg0⟩
    · have hes1 : es = [(k0, cv)] := by
        rw [hes']
        exact filterMap_unique hnames hf0 (entryOf ∘ g) (by simp [hg0, entryOf, hf0n])
          (fun f hf hne => (hotherE f hf hne).2)
      subst hes1
      have hEall : fields.flatMap E = [] := by
        rw [List.flatMap_eq_nil_iff]
        intro f hf
        by_cases hne : f.name = f0.name
        · have : f = f0 := by
            by_cases hff : f = f0
            · exact hff
            · exfalso
              -- two different fields with the same name contradict `hnames`
              have h1 := filterMap_unique hnames hf0 (fun f' => if f'.name = f0.name then some f' else none)
                (y := f0) (by simp) (fun f' _ hn => by simp [hn])
              have h2 : f ∈ fields.filterMap (fun f' => if f'.name = f0.name then some f' else none) :=
                List.mem_filterMap.2 ⟨f, hf, by simp [hne]⟩
              rw [h1] at h2
              simp only [List.mem_singleton] at h2
              exact hff h2
          subst this; exact hE0
        · exact (hotherE f hf hne).1
      by_cases hnull : node.isNull = true
      · have hcvn : cv = .none := hcn.2 hnull
        subst hcvn
        refine ⟨.undefined, ?_, ?_⟩
        · simp [oneOfLiteral, hnames1, hnode, hnull]
        · simp [oneOfLiteralErrors, hnull]
      · have hcvn : cv ≠ .none := fun h => hnull (hcn.1 h)
        have hnull' : node.isNull = false := by simpa using hnull
        refine ⟨.dict [(k0, cv)], ?_, ?_⟩
        · have : coercedIsNone k0 cv k0 = false := by
            by_cases h : coercedIsNone k0 cv k0 = true
            · exact absurd ((coercedIsNone_self k0 cv).1 h) hcvn
            · simpa using h
          simp [oneOfLiteral, hnames1, hnode, hnull', this]
        · simp [oneOfLiteralErrors, hnull', hEall]
    · have hEne : ¬ (fields.flatMap E = []) := by
        rw [List.flatMap_eq_nil_iff]
        intro h; exact hE0 (h f0 hf0)
      refine ⟨.undefined, ?_, by simp [hEne]⟩
      rcases hg0 with hg0 | hg0
      · have hes1 : es = [] := by
          rw [hes']
          apply filterMap_none
          intro f hf
          by_cases hne : f.name = f0.name
          · have : f = f0 := by
              by_cases hff : f = f0
              · exact hff
              · exfalso
                have h1 := filterMap_unique hnames hf0 (fun f' => if f'.name = f0.name then some f' else none)
                  (y := f0) (by simp) (fun f' _ hn => by simp [hn])
                have h2 : f ∈ fields.filterMap (fun f' => if f'.name = f0.name then some f' else none) :=
                  List.mem_filterMap.2 ⟨f, hf, by simp [hne]⟩
                rw [h1] at h2
                simp only [List.mem_singleton] at h2
                exact hff h2
            subst this; simp [hg0, entryOf]
          · exact (hotherE f hf hne).2
        subst hes1
        simp [oneOfLiteral, hnames1]
      · have hes1 : es = [(k0, .none)] := by
          rw [hes']
          exact filterMap_unique hnames hf0 (entryOf ∘ g) (by simp [hg0, entryOf, hf0n])
            (fun f hf hne => (hotherE f hf hne).2)
        subst hes1
        have : coercedIsNone k0 .none k0 = true := by simp [coercedIsNone, PyVal.dictGet]
        simp [oneOfLiteral, hnames1, this]

end Gql.Values
