import Gql.Proofs.SpecTotal
/-!
Pure facts about the contract `Spec.specNode` for visitors that never edit: every position is
kept, no node is rebuilt; for a visitor that always answers idle the traversal never stops early.
-/
namespace Gql.Syntax
open Gql Gql.Syntax.Spec

variable {σ : Type}

def KeepRec (rec : Rec σ) : Prop :=
  ∀ w c key parent anc path r, rec w c key parent anc path = some r → keepOnly r

theorem items_keep {rec : Rec σ} (hrec : KeepRec rec) (parent : Option Val) (anc : List Val) (path : List Key) :
    ∀ (suf : List Node) (w : W σ) (i : Nat) (w' : W σ) (p : List Node × Bool),
      specItems rec parent anc path w suf i = some (.done w' p) → p = (suf, false) := by
  intro suf
  induction suf with
  | nil => intro w i w' p h; simp [specItems] at h; exact h.2.symm
  | cons c suf ih =>
    intro w i w' p h
    simp only [specItems] at h
    cases hr : rec w c (.idx i) parent anc (path ++ [.idx i]) with
    | none => simp [hr] at h
    | some r =>
      have hk := hrec _ _ _ _ _ _ _ hr
      rw [hr] at h
      cases r with
      | brk w1 => simp at h
      | done w1 slot =>
        cases slot with
        | gone => simp [keepOnly] at hk
        | put x => simp [keepOnly] at hk
        | keep =>
          simp only [] at h
          cases hr2 : specItems rec parent anc path w1 suf (i + 1) with
          | none => simp [hr2] at h
          | some r2 =>
            rw [hr2] at h
            cases r2 with
            | brk w2 => simp at h
            | done w2 q =>
              have := ih w1 (i + 1) w2 q hr2
              subst this
              simp at h
              exact h.2.symm

theorem keys_keep {rec : Rec σ} (hrec : KeepRec rec) (m : Node) (anc : List Val) (path : List Key) :
    ∀ (ks : List String) (w : W σ) (w' : W σ) (es : List (String × Child)),
      specKeys rec m anc path w ks = some (.done w' es) → es = [] := by
  intro ks
  induction ks with
  | nil => intro w w' es h; simp [specKeys] at h; exact h.2
  | cons k ks ih =>
    intro w w' es h
    simp only [specKeys] at h
    -- whatever the attribute holds, its position is kept (`e = none`)
    have tailcase : ∀ (w1 : W σ),
        (match specKeys rec m anc path w1 ks with
          | none => none
          | some (Res.brk w) => some (Res.brk w)
          | some (Res.done w es) => some (Res.done w es)) = some (Res.done w' es) → es = [] := by
      intro w1 h
      cases hr2 : specKeys rec m anc path w1 ks with
      | none => simp [hr2] at h
      | some r2 =>
        rw [hr2] at h
        cases r2 with
        | brk w2 => simp at h
        | done w2 es2 =>
          simp at h
          have := ih w1 w2 es2 hr2
          rw [← h.2]; exact this
    cases hattr : m.attr k with
    | absent =>
      rw [hattr] at h
      exact tailcase _ h
    | one c =>
      rw [hattr] at h
      simp only [] at h
      cases hr : rec w c (.name k) (some (.node m)) anc (path ++ [.name k]) with
      | none => simp [hr] at h
      | some r =>
        have hk := hrec _ _ _ _ _ _ _ hr
        rw [hr] at h
        cases r with
        | brk w1 => simp at h
        | done w1 slot =>
          cases slot with
          | gone => simp [keepOnly] at hk
          | put x => simp [keepOnly] at hk
          | keep => exact tailcase _ h
    | many cs =>
      rw [hattr] at h
      simp only [] at h
      cases hr : specItems rec (some (.arr cs)) (anc ++ [.node m]) (path ++ [.name k])
          { w with iters := w.iters + 1 } cs 0 with
      | none => simp [hr] at h
      | some r =>
        rw [hr] at h
        cases r with
        | brk w1 => simp at h
        | done w1 p =>
          have := items_keep hrec _ _ _ _ _ _ _ _ hr
          subst this
          exact tailcase _ h

theorem node_keep {vk : String → List String} {v : Visitor σ} (hv : NonEditing v) :
    ∀ d, KeepRec (specNode vk v d) := by
  intro d
  induction d with
  | zero => intro w c key parent anc path r h; simp [specNode] at h
  | succ d ih =>
    intro w c key parent anc path r h
    simp only [specNode, specBody] at h
    have hne := hv w.s ⟨.enter, c, key, parent, path, anc⟩
    rcases hcall : v w.s ⟨.enter, c, key, parent, path, anc⟩ with ⟨a, s1⟩
    rw [hcall] at hne h
    simp only [] at hne h
    cases a with
    | remove => simp [Action.isEdit] at hne
    | replace r => simp [Action.isEdit] at hne
    | brk => simp at h; subst h; trivial
    | skip => simp at h; subst h; trivial
    | idle =>
      simp only [] at h
      cases hk : specKeys (specNode vk v d) c (anc ++ parent.toList) path
          { s := s1, iters := w.iters + 1, edited := w.edited } (vk c.kind) with
      | none => simp [hk] at h
      | some rk =>
        rw [hk] at h
        cases rk with
        | brk w2 => simp at h; subst h; trivial
        | done w2 es =>
          have := keys_keep ih _ _ _ _ _ _ _ hk
          subst this
          simp only [List.isEmpty_nil, reduceIte] at h
          have hne2 := hv w2.s ⟨.leave, c, key, parent, path, anc⟩
          rcases hcall2 : v w2.s ⟨.leave, c, key, parent, path, anc⟩ with ⟨a2, s3⟩
          rw [hcall2] at hne2 h
          simp only [] at hne2 h
          cases a2 with
          | remove => simp [Action.isEdit] at hne2
          | replace r => simp [Action.isEdit] at hne2
          | brk => simp at h; subst h; trivial
          | skip => simp at h; subst h; trivial
          | idle => simp at h; subst h; trivial


/-- a visitor that answers idle to every call -/
def AlwaysIdle {τ : Type} (V : Visitor τ) : Prop := ∀ s c, (V s c).1 = .idle

theorem AlwaysIdle.nonEditing {τ : Type} {V : Visitor τ} (h : AlwaysIdle V) : NonEditing V := by
  intro s c; rw [h s c]; rfl

def DoneRec (rec : Rec σ) : Prop :=
  ∀ w c key parent anc path r, rec w c key parent anc path = some r → ∃ w' sl, r = .done w' sl

theorem items_done {rec : Rec σ} (hrec : DoneRec rec) (parent : Option Val) (anc : List Val) (path : List Key) :
    ∀ (suf : List Node) (w : W σ) (i : Nat) (res : Res σ (List Node × Bool)),
      specItems rec parent anc path w suf i = some res → ∃ w' p, res = .done w' p := by
  intro suf
  induction suf with
  | nil => intro w i res h; simp [specItems] at h; exact ⟨_, _, h.symm⟩
  | cons c suf ih =>
    intro w i res h
    simp only [specItems] at h
    cases hr : rec w c (.idx i) parent anc (path ++ [.idx i]) with
    | none => simp [hr] at h
    | some r =>
      obtain ⟨w1, sl, rfl⟩ := hrec _ _ _ _ _ _ _ hr
      rw [hr] at h
      simp only [] at h
      cases hr2 : specItems rec parent anc path w1 suf (i + 1) with
      | none => simp [hr2] at h
      | some r2 =>
        obtain ⟨w2, q, rfl⟩ := ih _ _ _ hr2
        rw [hr2] at h
        simp at h
        exact ⟨_, _, h.symm⟩

theorem keys_done {rec : Rec σ} (hrec : DoneRec rec) (m : Node) (anc : List Val) (path : List Key) :
    ∀ (ks : List String) (w : W σ) (res : Res σ (List (String × Child))),
      specKeys rec m anc path w ks = some res → ∃ w' es, res = .done w' es := by
  intro ks
  induction ks with
  | nil => intro w res h; simp [specKeys] at h; exact ⟨_, _, h.symm⟩
  | cons k ks ih =>
    intro w res h
    simp only [specKeys] at h
    have tailcase : ∀ (w1 : W σ) (e : Option Child),
        (match specKeys rec m anc path w1 ks with
          | none => none
          | some (Res.brk w) => some (Res.brk w)
          | some (Res.done w es) =>
            some (Res.done w (match e with | some c => (k, c) :: es | none => es))) = some res →
        ∃ w' es, res = .done w' es := by
      intro w1 e h
      cases hr2 : specKeys rec m anc path w1 ks with
      | none => simp [hr2] at h
      | some r2 =>
        obtain ⟨w2, es2, rfl⟩ := ih _ _ hr2
        rw [hr2] at h
        simp at h
        exact ⟨_, _, h.symm⟩
    cases hattr : m.attr k with
    | absent =>
      rw [hattr] at h
      exact tailcase { w with iters := w.iters + 1 } none h
    | one c =>
      rw [hattr] at h
      simp only [] at h
      cases hr : rec w c (.name k) (some (.node m)) anc (path ++ [.name k]) with
      | none => simp [hr] at h
      | some r =>
        obtain ⟨w1, sl, rfl⟩ := hrec _ _ _ _ _ _ _ hr
        rw [hr] at h
        cases sl with
        | keep => exact tailcase w1 none h
        | gone => exact tailcase w1 (some .absent) h
        | put c' => exact tailcase w1 (some (.one c')) h
    | many cs =>
      rw [hattr] at h
      simp only [] at h
      cases hr : specItems rec (some (.arr cs)) (anc ++ [.node m]) (path ++ [.name k])
          { w with iters := w.iters + 1 } cs 0 with
      | none => simp [hr] at h
      | some r =>
        obtain ⟨w1, p, rfl⟩ := items_done hrec _ _ _ _ _ _ _ hr
        rw [hr] at h
        obtain ⟨cs', ch⟩ := p
        exact tailcase { w1 with iters := w1.iters + 1 } (if ch then some (.many cs') else none) h

theorem node_done {vk : String → List String} {v : Visitor σ} (hv : AlwaysIdle v) :
    ∀ d, DoneRec (specNode vk v d) := by
  intro d
  induction d with
  | zero => intro w c key parent anc path r h; simp [specNode] at h
  | succ d ih =>
    intro w c key parent anc path r h
    simp only [specNode, specBody] at h
    have hne := hv w.s ⟨.enter, c, key, parent, path, anc⟩
    rcases hcall : v w.s ⟨.enter, c, key, parent, path, anc⟩ with ⟨a, s1⟩
    rw [hcall] at hne h
    simp only [] at hne h
    subst hne
    simp only [] at h
    cases hk : specKeys (specNode vk v d) c (anc ++ parent.toList) path
        { s := s1, iters := w.iters + 1, edited := w.edited } (vk c.kind) with
    | none => simp [hk] at h
    | some rk =>
      obtain ⟨w2, es, rfl⟩ := keys_done ih _ _ _ _ _ _ hk
      rw [hk] at h
      simp only [] at h
      generalize (if es.isEmpty = true then c else Node.mk c.kind 0 c.payload (withFields c.fields es)) = m' at h
      have hne2 := hv w2.s ⟨.leave, m', key, parent, path, anc⟩
      rcases hcall2 : v w2.s ⟨.leave, m', key, parent, path, anc⟩ with ⟨a2, s3⟩
      rw [hcall2] at hne2 h
      simp only [] at hne2 h
      subst hne2
      simp at h
      exact ⟨_, _, h.symm⟩

end Gql.Syntax
