/-
C02 — simulation of `execute_field` and `execute_fields`.
-/
import Gql.Proofs.ExecArgs

namespace Gql.Exec.Refine
open Gql.Exec Gql.Exec.Impl

theorem asList_cons (seg : ISeg) (p : IPath) : asList (seg :: p) = asList p ++ [seg.toP] := by
  simp [asList]

/-- children of a source value are completed in the same way on both sides -/
def ChildRel (cx : Ctx) (ichild : Child) (schild : Spec.Child) : Prop :=
  ∀ name args t fds path,
    Sim cx path true (fun h => FdsOk h fds) (ichild name args t fds path)
      (schild name args t (fds.map (·.node)) (asList path))

theorem completeLeaf_sim (cx : Ctx) (path : IPath) (pre : List FieldNode → Prop) (n : Name)
    (l : PyLeaf) :
    Sim cx path true pre (completeLeaf cx n l) (Spec.coerceResult (toSpec cx) (asList path) n l) := by
  unfold completeLeaf Spec.coerceResult
  simp only [toSpec_ops, toSpec_schema]
  cases hs : cx.ops.serialize cx.schema n l with
  | none => exact Sim.throw_raw _
  | some j =>
    cases j with
    | null => exact Sim.throw_raw _
    | _ => exact Sim.pure_ok _

theorem completeNull_sim (cx : Ctx) (path : IPath) (pre : List FieldNode → Prop) (t : TypeRef) :
    Sim cx path true pre (completeNull t) (Spec.completeNull t (asList path)) := by
  unfold completeNull Spec.completeNull
  cases t.nonNull with
  | true => exact Sim.throw_raw _
  | false => exact Sim.pure_ok _

variable (cx : Ctx) (hops : OpsOk cx.ops)

include hops in
/-- the body of `execute_field`'s `try`: arguments, resolver call (logged), completion -/
theorem fieldBody_sim (parent : Name) (ichild : Child) (schild : Spec.Child)
    (hch : ChildRel cx ichild schild) (path : IPath) (fds : List FieldDetails)
    (name : Name) (fdef : FieldDef) (hf : cx.schema.getField parent name = some fdef)
    (args : List (Name × Value)) :
    Sim cx path true (fun h => FdsOk h fds)
      (M.bind (getArgumentValues cx parent name args 0 fdef.args []) fun a =>
        M.bind (logCall { path := asList path, parent := parent, field := name, args := a })
          fun _ => ichild name a fdef.type fds path)
      (match Spec.coerceArgumentValues (toSpec cx) args fdef.args [] with
        | none => Spec.R.fail (asList path) .argCoercion
        | some argumentValues =>
          let c := schild name argumentValues fdef.type (fds.map (·.node)) (asList path)
          { c with log := { path := asList path, parent := parent, field := name,
                            args := argumentValues } :: c.log }) := by
  intro st hinv hpre
  obtain ⟨dm', hdm', hargs⟩ := getArgumentValues_eq cx hops parent name fdef hf args fdef.args 0 []
    st (by simp) hinv.dmemo
  cases hc : Spec.coerceArgumentValues (toSpec cx) args fdef.args [] with
  | none =>
    simp only [hc] at hargs
    refine ⟨{ st with dmemo := dm' }, .raw .argCoercion, [], by simp [M.bind, hargs], rfl, ?_, by simp⟩
    exact ⟨by simp, by simp [Spec.R.fail], ⟨[], by simp, by simp⟩, ⟨[], by simp⟩,
      hinv.memo.congr rfl rfl, hdm'⟩
  | some m =>
    simp only [hc] at hargs
    let call : Call := { path := asList path, parent := parent, field := name, args := m }
    let st2 : EState := { st with dmemo := dm', log := st.log ++ [call] }
    have hinv2 : Inv cx st2 path := ⟨hinv.memo.congr rfl rfl, hdm', hinv.pos⟩
    obtain ⟨st3, h3⟩ := hch name m fdef.type fds path st2 hinv2 hpre
    refine ⟨st3, ?_⟩
    have hrun : (M.bind (getArgumentValues cx parent name args 0 fdef.args []) fun a =>
        M.bind (logCall { path := asList path, parent := parent, field := name, args := a })
          fun _ => ichild name a fdef.type fds path) st = ichild name m fdef.type fds path st2 := by
      simp [M.bind, hargs, logCall, st2, call]
    rw [hrun]
    cases hout : (schild name m fdef.type (fds.map (·.node)) (asList path)).out with
    | some j =>
      simp only [hout] at h3 ⊢
      refine ⟨h3.1, ?_⟩
      have hp := h3.2
      exact ⟨by rw [hp.errors], by rw [hp.log]; simp [st2, call], hp.positions, hp.heap, hp.memo, hp.dmemo⟩
    | none =>
      simp only [hout] at h3 ⊢
      obtain ⟨exn, es, hm, herrs, hp, hloc⟩ := h3
      refine ⟨exn, es, hm, herrs, ?_, hloc⟩
      exact ⟨by rw [hp.errors], by rw [hp.log]; simp [st2, call], hp.positions, hp.heap, hp.memo, hp.dmemo⟩

include hops in
theorem executeField_sim (parent : Name) (ichild : Child) (schild : Spec.Child)
    (hch : ChildRel cx ichild schild) (path : IPath) (fds : List FieldDetails) :
    Sim cx path false (fun h => FdsOk h fds) (executeField cx parent ichild path fds)
      (Spec.executeField (toSpec cx) parent schild (asList path) (fds.map (·.node))) := by
  cases fds with
  | nil => intro st _ hpre; exact absurd rfl hpre.1
  | cons fd0 rest =>
    unfold executeField Spec.executeField
    simp only [List.map_cons, toSpec_schema]
    by_cases hty : (fd0.node.name == "__typename") = true
    · simp only [hty, ↓reduceIte]
      exact Sim.map some (Sim.protect typenameType (completeLeaf_sim cx path _ "String" _))
    · simp only [hty, Bool.false_eq_true, ↓reduceIte]
      cases hf : cx.schema.getField parent fd0.node.name with
      | none => exact Sim.pure_ok none
      | some fdef =>
        exact Sim.map some (Sim.protect fdef.type
          (fieldBody_sim cx hops parent ichild schild hch path (fd0 :: rest) fd0.node.name fdef hf
            fd0.node.args))

end Gql.Exec.Refine
